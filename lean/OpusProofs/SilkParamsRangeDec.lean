import OpusProofs.SilkParamsRangeBasic
import OpusProofs.SilkParamsNlsf
import OpusProofs.SilkParamsGains
/-
  OpusProofs.SilkParamsRangeDec — 32-bit range lemmas for the table-driven dequantisers:
  silk_NLSF_residual_dequant and the first-stage reconstruction of silk_NLSF_decode
  (NLSF_decode.c:35-88), silk_log2lin (log2lin.c:36-57) and the gain computation of
  silk_gains_dequant (gain_quant.c:128), silk_decode_pitch (decode_pitch.c:67-75).

  Input domains = what the decoder guarantees (C03 `silkSyms_decode_indices_in_range`, read-only):
  residual indices in [-10, 10], first-stage index < nVectors, gain index in [0, 63] after the
  clamp, lag index an `opus_int16`, contour index inside the contour table.
-/
namespace Opus.SilkParams
open Opus Opus.Gen

/-! ### silk_NLSF_residual_dequant -/

theorem pow2_10 : ((2 : Int) ^ 10) = 1024 := by decide
theorem pow2_7 : ((2 : Int) ^ 7) = 128 := by decide
theorem adj_eq : SilkNlsf.nlsfQuantLevelAdjQ10 = 102 := by decide

/-- One step of silk_NLSF_residual_dequant as plain integer arithmetic (no casts):
    `(out_Q10 * pred_coef_Q8[i] >> 8) + ((indices[i] << 10 ∓ 102) * quant_step_size_Q16 >> 16)`. -/
def resStepExact (q i p out : Int) : Int :=
  let o := i * 1024
  let o' := if o > 0 then o - 102 else if o < 0 then o + 102 else o
  out * p / 256 + o' * q / 65536

/-- Every `int` value computed by silk_NLSF_residual_dequant (NLSF_decode.c:46-57), in execution
    order (the C loop runs from `order-1` down, i.e. from the tail of the lists): per coefficient
    the product of `silk_SMULBB`, `pred_Q10`, `indices[i] << 10`, the level-adjusted value, the
    64-bit-product shift of `silk_SMLAWB` and its sum (operand of the `(opus_int32)` cast). -/
def resDequantTrace (q : Int) : List Int → List Int → List Int
  | i :: is, p :: ps =>
    let out := (resDequant q is ps).2
    let o := i * 1024
    let o' := if o > 0 then o - 102 else if o < 0 then o + 102 else o
    resDequantTrace q is ps ++ [out * p, out * p / 256, o, o', o' * q / 65536, out * p / 256 + o' * q / 65536]
  | _, _ => []

/-- The operands of the narrowing conversions to `opus_int16` in the same function: the two
    `(opus_int16)` casts inside `silk_SMULBB( out_Q10, pred_coef_Q8[i] )`, the `(opus_int16)` cast
    of `quant_step_size_Q16` inside `silk_SMLAWB`, and the store `x_Q10[i] = out_Q10`. -/
def resDequantCasts (q : Int) : List Int → List Int → List Int
  | i :: is, p :: ps =>
    resDequantCasts q is ps ++ [(resDequant q is ps).2, p, q, (resDequant q (i :: is) (p :: ps)).2]
  | _, _ => []

theorem resDequant_cons (q i p : Int) (is ps : List Int) :
    resDequant q (i :: is) (p :: ps) =
      (wrap16 (smlawb (shrI (smulbb (resDequant q is ps).2 p) 8)
          (if lshift32 i 10 > 0 then lshift32 i 10 - SilkNlsf.nlsfQuantLevelAdjQ10
           else if lshift32 i 10 < 0 then lshift32 i 10 + SilkNlsf.nlsfQuantLevelAdjQ10 else lshift32 i 10) q)
        :: (resDequant q is ps).1,
       smlawb (shrI (smulbb (resDequant q is ps).2 p) 8)
          (if lshift32 i 10 > 0 then lshift32 i 10 - SilkNlsf.nlsfQuantLevelAdjQ10
           else if lshift32 i 10 < 0 then lshift32 i 10 + SilkNlsf.nlsfQuantLevelAdjQ10 else lshift32 i 10) q) := by
  simp only [resDequant]

/-- One step: `|out| ≤ B ≤ 30000`, `|i| ≤ 10`, `0 ≤ p ≤ 255`, `0 ≤ q ≤ 11796` ⟹ the model's step
    is the exact formula, nothing wraps, and `|out'| ≤ B + 1825`. -/
theorem resStep_range (q i p out B : Int) (hq : 0 ≤ q ∧ q ≤ 11796) (hi : -10 ≤ i ∧ i ≤ 10)
    (hp : 0 ≤ p ∧ p ≤ 255) (ho : -B ≤ out ∧ out ≤ B) (hB : B ≤ 30000) :
    let o := i * 1024
    let o' := if o > 0 then o - 102 else if o < 0 then o + 102 else o
    smlawb (shrI (smulbb out p) 8)
          (if lshift32 i 10 > 0 then lshift32 i 10 - SilkNlsf.nlsfQuantLevelAdjQ10
           else if lshift32 i 10 < 0 then lshift32 i 10 + SilkNlsf.nlsfQuantLevelAdjQ10 else lshift32 i 10) q
      = resStepExact q i p out ∧
    -(B + 1825) ≤ resStepExact q i p out ∧ resStepExact q i p out ≤ B + 1825 ∧
    (∀ v ∈ [out * p, out * p / 256, o, o', o' * q / 65536, out * p / 256 + o' * q / 65536], I32 v) := by
  intro o o'
  have hB0 : 0 ≤ B := by omega
  have hI : I32 (i * 2 ^ 10) := by rw [pow2_10]; unfold I32; omega
  have hl : lshift32 i 10 = i * 1024 := by unfold lshift32; rw [wrap32_id hI, pow2_10]
  have ho16 : I16 out := by unfold I16; omega
  have hp16 : I16 p := by unfold I16; omega
  have hq16 : I16 q := by unfold I16; omega
  have hop1 : out * p ≤ B * 255 := by nlinarith [ho.1, ho.2, hp.1, hp.2]
  have hop2 : -(B * 255) ≤ out * p := by nlinarith [ho.1, ho.2, hp.1, hp.2]
  have ho' : -10138 ≤ o' ∧ o' ≤ 10138 := by
    show -10138 ≤ (if i * 1024 > 0 then i * 1024 - 102 else if i * 1024 < 0 then i * 1024 + 102 else i * 1024) ∧ _
    split
    · omega
    · split <;> omega
  have hoq1 : o' * q ≤ 10138 * 11796 := by nlinarith [ho'.1, ho'.2, hq.1, hq.2]
  have hoq2 : -(10138 * 11796) ≤ o' * q := by nlinarith [ho'.1, ho'.2, hq.1, hq.2]
  have hsum : I32 (out * p / 256 + o' * q / 65536) := by
    generalize out * p = a at hop1 hop2
    generalize o' * q = b at hoq1 hoq2
    unfold I32; omega
  have hval : resStepExact q i p out = out * p / 256 + o' * q / 65536 := rfl
  refine ⟨?_, ?_, ?_, ?_⟩
  · rw [hl, adj_eq]
    unfold smlawb smulbb shrI
    rw [wrap16_id ho16, wrap16_id hp16, wrap16_id hq16]
    have h8 : ((2 : Int) ^ 8) = 256 := by decide
    rw [h8, hval]
    exact wrap32_id hsum
  · rw [hval]
    generalize out * p = a at hop1 hop2
    generalize o' * q = b at hoq1 hoq2
    omega
  · rw [hval]
    generalize out * p = a at hop1 hop2
    generalize o' * q = b at hoq1 hoq2
    omega
  · intro v hv
    simp only [List.mem_cons, List.not_mem_nil, or_false] at hv
    have ho1 : -10240 ≤ o ∧ o ≤ 10240 := by show -10240 ≤ i * 1024 ∧ i * 1024 ≤ 10240; omega
    rcases hv with h | h | h | h | h | h
    · subst h; unfold I32; omega
    · subst h; generalize out * p = a at hop1 hop2; unfold I32; omega
    · subst h; unfold I32; omega
    · subst h; unfold I32; omega
    · subst h; generalize o' * q = b at hoq1 hoq2; unfold I32; omega
    · subst h; exact hsum

/-- silk_NLSF_residual_dequant on the decoder's domain (order ≤ 16, residual indices in
    [-10, 10], predictor bytes, step size ≤ 11796): nothing wraps, no int16 conversion truncates,
    and `|x_Q10[i]| ≤ 1825 · (order - i) ≤ 29200`. -/
theorem resDequant_range (q : Int) (hq : 0 ≤ q ∧ q ≤ 11796) : ∀ (is ps : List Int),
    is.length = ps.length → is.length ≤ 16 → (∀ i ∈ is, -10 ≤ i ∧ i ≤ 10) → (∀ p ∈ ps, 0 ≤ p ∧ p ≤ 255) →
    (-(1825 * (is.length : Int)) ≤ (resDequant q is ps).2 ∧ (resDequant q is ps).2 ≤ 1825 * (is.length : Int)) ∧
    (∀ x ∈ (resDequant q is ps).1, -29200 ≤ x ∧ x ≤ 29200) ∧
    (∀ v ∈ resDequantTrace q is ps, I32 v) ∧ (∀ v ∈ resDequantCasts q is ps, I16 v) := by
  intro is
  induction is with
  | nil => intro ps _ _ _ _; cases ps <;> simp [resDequant, resDequantTrace, resDequantCasts]
  | cons i is ih =>
    intro ps hl hlen hi hp
    match ps, hl with
    | p :: ps', hl =>
      have hrec := ih ps' (by simpa using hl) (by simp at hlen; omega) (fun j hj => hi j (by simp [hj]))
        (fun j hj => hp j (by simp [hj]))
      have hn : (is.length : Int) ≤ 15 := by simp at hlen; omega
      have hst := resStep_range q i p (resDequant q is ps').2 (1825 * (is.length : Int)) hq (hi i (by simp))
        (hp p (by simp)) hrec.1 (by omega)
      simp only at hst
      rw [resDequant_cons]
      simp only [List.length_cons, Nat.cast_add, Nat.cast_one]
      rw [hst.1]
      have hI16 : I16 (resStepExact q i p (resDequant q is ps').2) := by unfold I16; omega
      refine ⟨by omega, ?_, ?_, ?_⟩
      · intro x hx
        rcases List.mem_cons.mp hx with rfl | h'
        · rw [wrap16_id hI16]; omega
        · exact hrec.2.1 x h'
      · intro v hv
        unfold resDequantTrace at hv
        rcases List.mem_append.mp hv with h | h
        · exact hrec.2.2.1 v h
        · exact hst.2.2.2 v h
      · intro v hv
        unfold resDequantCasts at hv
        rw [resDequant_cons, hst.1] at hv
        simp only [List.mem_append, List.mem_cons, List.not_mem_nil, or_false] at hv
        rcases hv with h | h | h | h | h
        · exact hrec.2.2.2 v h
        · subst h; have := hrec.1; unfold I16; omega
        · subst h; have := hp v (by simp); unfold I16; omega
        · subst h; unfold I16; omega
        · subst h; exact hI16

/-! ### first-stage reconstruction of silk_NLSF_decode -/

/-- The 32-bit values of NLSF_decode.c:86-87 for one coefficient: `res_Q10[i] << 14`, the
    quotient of `silk_DIV32_16`, `CB1_NLSF_Q8[i] << 7`, `NLSF_Q15_tmp`, and the clamped value
    (operand of the `(opus_int16)` cast). -/
def firstStageTrace (res w el : Int) : List Int :=
  [res * 16384, Int.tdiv (res * 16384) w, el * 128, Int.tdiv (res * 16384) w + el * 128,
   limit (Int.tdiv (res * 16384) w + el * 128) 0 32767]

theorem tdiv_abs_le (a w : Int) (hw : 1 ≤ w) (B : Int) (ha : -B ≤ a ∧ a ≤ B) :
    -B ≤ Int.tdiv a w ∧ Int.tdiv a w ≤ B := by
  rcases Int.le_total 0 a with h | h
  · rw [Int.tdiv_eq_ediv_of_nonneg h]
    have h1 : 0 ≤ a / w := Int.ediv_nonneg h (by omega)
    have h2 : a / w ≤ a := Int.ediv_le_self w h
    omega
  · have hneg : Int.tdiv a w = -(Int.tdiv (-a) w) := by rw [Int.neg_tdiv, Int.neg_neg]
    rw [hneg, Int.tdiv_eq_ediv_of_nonneg (by omega)]
    have h1 : 0 ≤ -a / w := Int.ediv_nonneg (by omega) (by omega)
    have h2 : -a / w ≤ -a := Int.ediv_le_self w (by omega)
    omega

/-- One first-stage coefficient: `|res| ≤ 29200`, weight `w ≥ 1` (an `opus_int16` table entry),
    element byte `0 ≤ el ≤ 255`: nothing wraps, the cast is lossless, result in [0, 32767]. -/
theorem nlsfFirstStage_range (res w el : Int) (hr : -29200 ≤ res ∧ res ≤ 29200) (hw : 1 ≤ w)
    (he : 0 ≤ el ∧ el ≤ 255) :
    (∀ v ∈ firstStageTrace res w el, I32 v) ∧
    nlsfFirstStage res w el = limit (Int.tdiv (res * 16384) w + el * 128) 0 32767 ∧
    0 ≤ nlsfFirstStage res w el ∧ nlsfFirstStage res w el ≤ 32767 := by
  have hI1 : I32 (res * 2 ^ 14) := by rw [pow2_14]; unfold I32; omega
  have he16 : I16 el := by unfold I16; omega
  have hI2 : I32 (el * 2 ^ 7) := by rw [pow2_7]; unfold I32; omega
  have hd := tdiv_abs_le (res * 16384) w hw 478412800 (by omega)
  have hlim : 0 ≤ limit (Int.tdiv (res * 16384) w + el * 128) 0 32767 ∧
      limit (Int.tdiv (res * 16384) w + el * 128) 0 32767 ≤ 32767 := by
    unfold limit
    rw [if_neg (by decide)]
    split
    · omega
    · split <;> omega
  have heq : nlsfFirstStage res w el = limit (Int.tdiv (res * 16384) w + el * 128) 0 32767 := by
    unfold nlsfFirstStage lshift32
    rw [wrap16_id he16, wrap32_id hI1, wrap32_id hI2, pow2_14, pow2_7]
    exact wrap16_id (by unfold I16; omega)
  refine ⟨?_, heq, by rw [heq]; exact hlim.1, by rw [heq]; exact hlim.2⟩
  intro v hv
  simp only [firstStageTrace, List.mem_cons, List.not_mem_nil, or_false] at hv
  unfold I32
  rcases hv with h | h | h | h | h <;> subst h <;> omega

/-! ### silk_log2lin and the gain computation of silk_gains_dequant -/

/-- Every `opus_int32` value computed by `silk_log2lin( inLog_Q7 )` for `0 ≤ inLog_Q7 < 3967`:
    the shift count, `out = 1 << …`, `frac_Q7`, `128 - frac_Q7`, the `silk_SMULBB` product, the
    64-bit-product shift and sum of `silk_SMLAWB`, and the product and sum of
    `silk_ADD_RSHIFT32( out, silk_MUL( out, t ), 7 )` resp. `silk_MLA( out, out >> 7, t )`. -/
def log2linTrace (x : Int) : List Int :=
  let e := x / 128
  let out := (2 : Int) ^ e.toNat
  let frac := x % 128
  let t := frac + (frac * (128 - frac)) * (-174) / 65536
  [e, out, frac, 128 - frac, frac * (128 - frac), (frac * (128 - frac)) * (-174) / 65536, t] ++
    (if x < 2048 then [out * t, out * t / 128, out + out * t / 128]
     else [out / 128, out / 128 * t, out + out / 128 * t])

/-- `silk_log2lin` without any cast, for `0 ≤ inLog_Q7 < 3967`. -/
def log2linExact (x : Int) : Int :=
  let out := (2 : Int) ^ (x / 128).toNat
  let frac := x % 128
  let t := frac + (frac * (128 - frac)) * (-174) / 65536
  if x < 2048 then out + out * t / 128 else out + out / 128 * t

def log2linOkAt (x : Int) : Bool :=
  (log2linTrace x).all (fun v => decide (I32 v)) && decide (log2lin x = log2linExact x) &&
    decide (0 < log2lin x)

/-- `silk_log2lin` on its whole non-saturating domain `0 ≤ inLog_Q7 < 3967` (kernel evaluation of
    all 3967 inputs): no 32-bit value wraps, the casts inside the macros are the identity, the
    result is positive. -/
theorem log2lin_range_all : ∀ n ∈ List.range 3967, log2linOkAt (n : Int) = true := by
  decide +kernel

theorem log2lin_range (x : Int) (h0 : 0 ≤ x) (h1 : x < 3967) :
    (∀ v ∈ log2linTrace x, I32 v) ∧ log2lin x = log2linExact x ∧ 0 < log2lin x := by
  have := log2lin_range_all x.toNat (List.mem_range.mpr (by omega))
  rw [Int.toNat_of_nonneg h0] at this
  unfold log2linOkAt at this
  simp only [Bool.and_eq_true, List.all_eq_true, decide_eq_true_eq] at this
  exact ⟨this.1.1, this.1.2, this.2⟩

/-- The 32-bit values of gain_quant.c:128 for a clamped index `0 ≤ *prev_ind ≤ 63`: the 64-bit
    product shift of `silk_SMULWB( INV_SCALE_Q16, *prev_ind )` (operand of the `(opus_int32)`
    cast), the sum with `OFFSET`, the `silk_min_32`, then the trace of `silk_log2lin`. -/
def gainOfIndexTrace (p : Int) : List Int :=
  let s := SilkNlsf.gainInvScaleQ16 * p / 65536
  [s, s + SilkNlsf.gainOffset, min (s + SilkNlsf.gainOffset) 3967] ++
    log2linTrace (min (s + SilkNlsf.gainOffset) 3967)

def gainOfIndexOkAt (p : Int) : Bool :=
  (gainOfIndexTrace p).all (fun v => decide (I32 v)) &&
    decide (gainOfIndex p = log2linExact (min (SilkNlsf.gainInvScaleQ16 * p / 65536 + SilkNlsf.gainOffset) 3967)) &&
    decide (min (SilkNlsf.gainInvScaleQ16 * p / 65536 + SilkNlsf.gainOffset) 3967 < 3967)

theorem gainOfIndex_range_all : ∀ n ∈ List.range 64, gainOfIndexOkAt (n : Int) = true := by
  decide +kernel

/-- Gain of every quantiser level `0 ≤ p ≤ 63`: no wrap, and `silk_log2lin` is entered below its
    saturation threshold (3967 is never reached: the largest argument is 3923). -/
theorem gainOfIndex_nowrap (p : Int) (h0 : 0 ≤ p) (h1 : p ≤ 63) :
    (∀ v ∈ gainOfIndexTrace p, I32 v) ∧
    gainOfIndex p = log2linExact (min (SilkNlsf.gainInvScaleQ16 * p / 65536 + SilkNlsf.gainOffset) 3967) ∧
    min (SilkNlsf.gainInvScaleQ16 * p / 65536 + SilkNlsf.gainOffset) 3967 < 3967 := by
  have := gainOfIndex_range_all p.toNat (List.mem_range.mpr (by omega))
  rw [Int.toNat_of_nonneg h0] at this
  unfold gainOfIndexOkAt at this
  simp only [Bool.and_eq_true, List.all_eq_true, decide_eq_true_eq] at this
  exact ⟨this.1.1, this.1.2, this.2⟩

/-- The `int` values of one index update of silk_gains_dequant (gain_quant.c:108-125) before the
    store into the `opus_int8` `*prev_ind`. -/
def gainDequantPrevTrace (first : Bool) (cond ind prev : Int) : List Int :=
  if first ∧ cond = 0 then [prev - 16, max ind (prev - 16)]
  else
    let indTmp := ind + SilkNlsf.minDeltaGainQuant
    let thr := 2 * SilkNlsf.maxDeltaGainQuant - SilkNlsf.nLevelsQGain + prev
    [indTmp, thr] ++ (if indTmp > thr then [indTmp * 2, indTmp * 2 - thr, prev + (indTmp * 2 - thr)]
                      else [prev + indTmp])

theorem gainDequantPrevTrace_range (first : Bool) (cond ind prev : Int) (hi : -128 ≤ ind ∧ ind ≤ 127)
    (hp : -128 ≤ prev ∧ prev ≤ 127) : ∀ v ∈ gainDequantPrevTrace first cond ind prev, I32 v := by
  intro v hv
  unfold gainDequantPrevTrace at hv
  have h1 : SilkNlsf.minDeltaGainQuant = -4 := by decide
  have h2 : SilkNlsf.maxDeltaGainQuant = 36 := by decide
  have h3 : SilkNlsf.nLevelsQGain = 64 := by decide
  rw [h1, h2, h3] at hv
  split at hv
  · simp only [List.mem_cons, List.not_mem_nil, or_false] at hv
    unfold I32; rcases hv with h | h <;> subst h <;> omega
  · simp only at hv
    split at hv <;> simp only [List.mem_append, List.mem_cons, List.not_mem_nil, or_false] at hv <;>
      unfold I32
    · rcases hv with (h | h) | h | h | h <;> subst h <;> omega
    · rcases hv with (h | h) | h <;> subst h <;> omega

/-! ### silk_decode_pitch -/

/-- The `int` values of silk_decode_pitch (decode_pitch.c:67-75): the two `silk_SMULBB`
    products, `lag`, and per sub-frame the table index `k * cbk_size + contourIndex`, the sum
    `lag + Lag_CB_ptr[…]` and the clamped lag. -/
def pitchTrace (tab : List Int) (cbkSize : Nat) (lagIndex contour fsKHz : Int) (nb : Nat) : List Int :=
  let minLag := SilkNlsf.peMinLagMs * fsKHz
  let maxLag := SilkNlsf.peMaxLagMs * fsKHz
  [minLag, maxLag, minLag + lagIndex] ++
    (List.range nb).flatMap fun (k : Nat) =>
      let idx := (k : Int) * (cbkSize : Int) + contour
      let c := tab.getD idx.toNat 0
      [idx, minLag + lagIndex + c, limit (minLag + lagIndex + c) minLag maxLag]

theorem lagTab_range : (∀ e ∈ SilkNlsf.cbLagsStage2, I16 e ∧ -128 ≤ e ∧ e ≤ 127) ∧
    (∀ e ∈ SilkNlsf.cbLagsStage2_10ms, -128 ≤ e ∧ e ≤ 127) ∧
    (∀ e ∈ SilkNlsf.cbLagsStage3, -128 ≤ e ∧ e ≤ 127) ∧
    (∀ e ∈ SilkNlsf.cbLagsStage3_10ms, -128 ≤ e ∧ e ≤ 127) := by decide +kernel

/-- silk_decode_pitch for `Fs_kHz ∈ {8, 12, 16}`, `nb_subfr ∈ {2, 4}`, any `opus_int16` lag index
    and a contour index inside the codebook: the `silk_SMULBB` casts are the identity and nothing
    wraps (all values are below 2^16 in magnitude). -/
theorem decodePitch_range (lagIndex contour fs : Int) (nb : Nat) (tab : List Int) (cbk : Nat)
    (hfs : fs = 8 ∨ fs = 12 ∨ fs = 16) (hnb : nb = 2 ∨ nb = 4) (hl : I16 lagIndex)
    (hcb : pitchCodebook fs nb = .ok (tab, cbk)) (hc : 0 ≤ contour ∧ contour < (cbk : Int)) :
    pitchMinLag fs = SilkNlsf.peMinLagMs * fs ∧ pitchMaxLag fs = SilkNlsf.peMaxLagMs * fs ∧
    ∀ v ∈ pitchTrace tab cbk lagIndex contour fs nb, -65536 ≤ v ∧ v ≤ 65536 := by
  have h1 : SilkNlsf.peMinLagMs = 2 := by decide
  have h2 : SilkNlsf.peMaxLagMs = 18 := by decide
  have hcbk : cbk ≤ 34 ∧ ∀ e ∈ tab, -128 ≤ e ∧ e ≤ 127 := by
    unfold pitchCodebook at hcb
    have hpm : SilkNlsf.peMaxNbSubfr = 4 := by decide
    rw [hpm] at hcb
    have t := lagTab_range
    split at hcb
    · split at hcb
      · cases hcb; exact ⟨by decide, fun e he => (t.1 e he).2⟩
      · split at hcb
        · cases hcb; exact ⟨by decide, t.2.1⟩
        · cases hcb
    · split at hcb
      · cases hcb; exact ⟨by decide, t.2.2.1⟩
      · split at hcb
        · cases hcb; exact ⟨by decide, t.2.2.2⟩
        · cases hcb
  have hfs16 : I16 fs := by unfold I16; rcases hfs with h | h | h <;> subst h <;> omega
  refine ⟨?_, ?_, ?_⟩
  · unfold pitchMinLag smulbb; rw [h1, wrap16_id hfs16]; rfl
  · unfold pitchMaxLag smulbb; rw [h2, wrap16_id hfs16]; rfl
  · intro v hv
    unfold pitchTrace at hv
    rw [h1, h2] at hv
    unfold I16 at hl
    simp only [List.mem_append, List.mem_cons, List.not_mem_nil, or_false, List.mem_flatMap, List.mem_range] at hv
    rcases hv with (h | h | h) | ⟨k, hk, h⟩
    · subst h; rcases hfs with h | h | h <;> subst h <;> omega
    · subst h; rcases hfs with h | h | h <;> subst h <;> omega
    · subst h; rcases hfs with h | h | h <;> subst h <;> omega
    · have hk4 : (k : Int) ≤ 3 := by rcases hnb with h | h <;> subst h <;> omega
      have hkc : (k : Int) * (cbk : Int) ≤ 3 * 34 := by
        have : (cbk : Int) ≤ 34 := by exact_mod_cast hcbk.1
        nlinarith
      have hkc0 : 0 ≤ (k : Int) * (cbk : Int) := Int.mul_nonneg (Int.natCast_nonneg k) (Int.natCast_nonneg cbk)
      have hcv : -128 ≤ tab.getD ((k : Int) * (cbk : Int) + contour).toNat 0 ∧
          tab.getD ((k : Int) * (cbk : Int) + contour).toNat 0 ≤ 127 := by
        rw [List.getD_eq_getElem?_getD]
        cases hn : tab[((k : Int) * (cbk : Int) + contour).toNat]? with
        | none => simp
        | some w => simp only [Option.getD_some]; exact hcbk.2 w (List.mem_of_getElem? hn)
      generalize tab.getD ((k : Int) * (cbk : Int) + contour).toNat 0 = c at h hcv
      generalize (k : Int) * (cbk : Int) = kc at h hkc hkc0
      have hlim : ∀ a lo hi : Int, lo ≤ hi → lo ≤ limit a lo hi ∧ limit a lo hi ≤ hi := by
        intro a lo hi hh
        unfold limit
        rw [if_neg (by omega)]
        split
        · omega
        · split <;> omega
      rcases h with h | h | h
      · subst h; omega
      · subst h; rcases hfs with h | h | h <;> subst h <;> omega
      · subst h
        rcases hfs with h | h | h <;> subst h
        · have := hlim (2 * 8 + lagIndex + c) (2 * 8) (18 * 8) (by omega); omega
        · have := hlim (2 * 12 + lagIndex + c) (2 * 12) (18 * 12) (by omega); omega
        · have := hlim (2 * 16 + lagIndex + c) (2 * 16) (18 * 16) (by omega); omega

end Opus.SilkParams
