import OpusProofs.CeltHdrSilent
/-
  OpusProofs.CeltHdrExample — two concrete frames (kernel-evaluated) showing that the hypotheses of the header round
  trip theorems can be met: a 2.5 ms mono CBR frame of 24 bytes whose header has 47 coder calls (coarse energy in
  Laplace mode, a dynalloc boost in band 0, an allocation skip flag), and a silent VBR frame.
-/
namespace OpusProofs.CeltHdr.Example
open Opus Opus.RangeCoder Opus.CeltSymsEnc OpusProofs.CeltHdr

def cfg : EncCfg := { start := 0, end_ := 13, C := 1, LM := 0, vbr := false, lfe := false, size := 24 }
/-- decisions: silence 0, pf off, [LM = 0: no transient flag], intra 0, 13 energies, 13 tf bits, spread 2, one boost in band 0
    and then no more, no boost in the other bands, trim 5, intensity 13, dual 0, prev 0, signalBandwidth 13 -/
def ds : List Int := [0, 0, 0, 1, 2, -1, 0, 0, 1, 0, -2, 0, 0, 1, 0, 0, 0,
   0,0,0,0,0,0,0,0,0,0,0,0,0,  2,  1,0, 0,0,0,0,0,0,0,0,0,0,0,0,  5,  13, 0, 0, 13]
def buf : List Nat := List.replicate 24 0
def s0 : St := { e := encInit buf 24, ops := [], ds := ds }
def all : List Op := match encHeader cfg s0 with | .ok h => h.ops | _ => []

def world : World :=
  { buf := buf, size := 24, all := all, hs := by decide, hb := by decide +kernel, hl := by decide +kernel,
    hn := by decide +kernel, herr := by decide +kernel, hn29 := by decide +kernel }

/-- every hypothesis of `header_roundtrip` holds for this frame -/
theorem hyps : ∃ hdr, encHeader cfg s0 = .ok hdr ∧ s0.ops = [] ∧ s0.e = world.encAt [] ∧ s0.e.storage = cfg.size ∧
    hdr.silence = 0 ∧ world.IsPrefix ([] ++ hdr.ops) ∧
    (cfg.start < cfg.end_ ∧ cfg.end_ ≤ 21 ∧ (cfg.C = 1 ∨ cfg.C = 2) ∧ cfg.LM ≤ 3) ∧ cfg.size ≤ 1275 ∧
    world.len = hdr.size ∧ world.len = cfg.size ∧ tell s0.e < ((world.len * 8 : Nat) : Int) ∧ hdr.pf.on = 0 ∧
    (cfg.start : Int) ≤ hdr.allocInp.intensity ∧ hdr.allocInp.dualStereo = 0 ∧
    hdr.ops.length = 47 ∧ hdr.offsets.getD 0 0 = 16 ∧ hdr.alloc.ops = [.bit 1] := by
  have hok : (match encHeader cfg s0 with | .ok _ => true | _ => false) = true := by decide +kernel
  cases h : encHeader cfg s0 with
  | ok hdr =>
    have hall : all = hdr.ops := by unfold all; rw [h]
    have f1 : (match encHeader cfg s0 with | .ok h => decide (h.silence = 0 ∧ h.size = 24 ∧ h.pf.on = 0 ∧
        (cfg.start : Int) ≤ h.allocInp.intensity ∧ h.allocInp.dualStereo = 0 ∧ h.ops.length = 47 ∧
        h.offsets.getD 0 0 = 16 ∧ h.alloc.ops = [.bit 1]) | _ => false) = true := by decide +kernel
    rw [h] at f1
    have f1 := of_decide_eq_true f1
    have hlen : world.len = 24 := by decide +kernel
    refine ⟨hdr, rfl, rfl, rfl, rfl, f1.1, ⟨[], by rw [List.nil_append, List.append_nil]; exact hall⟩,
      by decide, by decide, by rw [hlen, f1.2.1], hlen, by rw [hlen]; decide +kernel, f1.2.2.1, f1.2.2.2.1, f1.2.2.2.2.1,
      f1.2.2.2.2.2.1, f1.2.2.2.2.2.2.1, f1.2.2.2.2.2.2.2⟩
  | err e => rw [h] at hok; cases hok
  | oob => rw [h] at hok; cases hok
  | abort => rw [h] at hok; cases hok

/-! a silent VBR frame: flag, shrink to 2 bytes, (second) shrink to 2 bytes -/

def cfgS : EncCfg := { start := 0, end_ := 21, C := 2, LM := 3, vbr := true, lfe := false, size := 100 }
def s0S : St := { e := encInit (List.replicate 100 0) 100, ops := [], ds := [1, 2, 21, 0, 0, 20] }
def allS : List Op := match encHeader cfgS s0S with | .ok h => h.ops | _ => []

def worldS : World :=
  { buf := List.replicate 100 0, size := 100, all := allS, hs := by decide, hb := by decide +kernel, hl := by decide +kernel,
    hn := by decide +kernel, herr := by decide +kernel, hn29 := by decide +kernel }

/-- every hypothesis of `silent_roundtrip` holds for this frame -/
theorem hypsS : ∃ hdr, encHeader cfgS s0S = .ok hdr ∧ s0S.ops = [] ∧ s0S.e = worldS.encAt [] ∧ s0S.e.storage = cfgS.size ∧
    hdr.silence ≠ 0 ∧ worldS.IsPrefix ([] ++ hdr.ops) ∧ 2 ≤ cfgS.size ∧ cfgS.size ≤ 1275 ∧ 2 ≤ worldS.len ∧ worldS.len ≤ 1275 ∧
    hdr.ops = [.bitLogp 1 15, .shrink 2, .shrink 2] := by
  have hok : (match encHeader cfgS s0S with | .ok _ => true | _ => false) = true := by decide +kernel
  cases h : encHeader cfgS s0S with
  | ok hdr =>
    have hall : allS = hdr.ops := by unfold allS; rw [h]
    have f1 : (match encHeader cfgS s0S with
        | .ok h => decide (h.silence ≠ 0 ∧ h.ops = [.bitLogp 1 15, .shrink 2, .shrink 2]) | _ => false) = true := by
      decide +kernel
    rw [h] at f1
    have f1 := of_decide_eq_true f1
    have hlen : worldS.len = 2 := by decide +kernel
    exact ⟨hdr, rfl, rfl, rfl, rfl, f1.1, ⟨[], by rw [List.nil_append, List.append_nil]; exact hall⟩, by decide, by decide,
      by rw [hlen]; decide, by rw [hlen]; decide, f1.2⟩
  | err e => rw [h] at hok; cases hok
  | oob => rw [h] at hok; cases hok
  | abort => rw [h] at hok; cases hok

/-! a VBR frame with the post-filter on: 60 bytes offered, shrunk to 40 behind the header (5 ms, mono) -/

def cfgV : EncCfg := { start := 0, end_ := 13, C := 1, LM := 1, vbr := true, lfe := false, size := 60 }
def dsV : List Int := [0, 1, 2, 5, 3, 1, 0, 0, 1, 2, -1, 0, 0, 1, 0, -2, 0, 0, 1, 0, 0,
   0,0,0,0,0,0,0,0,0,0,0,0,0, 0, 2,  0,0,0,0,0,0,0,0,0,0,0,0,0,  5,  40,  13, 0, 0, 13]
def s0V : St := { e := encInit (List.replicate 60 0) 60, ops := [], ds := dsV }
def allV : List Op := match encHeader cfgV s0V with | .ok h => h.ops | _ => []

def worldV : World :=
  { buf := List.replicate 60 0, size := 60, all := allV, hs := by decide, hb := by decide +kernel, hl := by decide +kernel,
    hn := by decide +kernel, herr := by decide +kernel, hn29 := by decide +kernel }

/-- every hypothesis of `header_roundtrip` holds for this frame — with the post-filter on (`htap` has a true premise)
    and the final length below the budgeted size (the VBR arm of `hmargin`) -/
theorem hypsV : ∃ hdr, encHeader cfgV s0V = .ok hdr ∧ s0V.ops = [] ∧ s0V.e = worldV.encAt [] ∧ s0V.e.storage = cfgV.size ∧
    hdr.silence = 0 ∧ worldV.IsPrefix ([] ++ hdr.ops) ∧
    (cfgV.start < cfgV.end_ ∧ cfgV.end_ ≤ 21 ∧ (cfgV.C = 1 ∨ cfgV.C = 2) ∧ cfgV.LM ≤ 3) ∧ cfgV.size ≤ 1275 ∧
    worldV.len = hdr.size ∧ worldV.len ≠ cfgV.size ∧
    (tell (worldV.encAt ([] ++ hdr.opsHdr)) + 16 ≤ ((worldV.len * 8 : Nat) : Int) ∧
      (tellFrac (worldV.encAt ([] ++ hdr.opsHdr)) : Int) + hdr.totalBoost + 48 < ((worldV.len * 8 * 8 : Nat) : Int)) ∧
    tell s0V.e < ((worldV.len * 8 : Nat) : Int) ∧ hdr.pf.on ≠ 0 ∧
    tell (worldV.encAt ([] ++ hdr.opsPf.dropLast)) + 2 ≤ ((worldV.len * 8 : Nat) : Int) ∧
    (cfgV.start : Int) ≤ hdr.allocInp.intensity ∧ hdr.allocInp.dualStereo = 0 ∧ hdr.size = 40 ∧ hdr.pf.tapset = 1 := by
  have hok : (match encHeader cfgV s0V with | .ok _ => true | _ => false) = true := by decide +kernel
  cases h : encHeader cfgV s0V with
  | ok hdr =>
    have hall : allV = hdr.ops := by unfold allV; rw [h]
    have hlen : worldV.len = 40 := by decide +kernel
    have f1 : (match encHeader cfgV s0V with
        | .ok h => decide (h.silence = 0 ∧ h.size = 40 ∧ h.pf.on ≠ 0 ∧ h.pf.tapset = 1 ∧
            (cfgV.start : Int) ≤ h.allocInp.intensity ∧ h.allocInp.dualStereo = 0 ∧
            tell (worldV.encAt ([] ++ h.opsHdr)) + 16 ≤ 320 ∧
            (tellFrac (worldV.encAt ([] ++ h.opsHdr)) : Int) + h.totalBoost + 48 < 2560 ∧
            tell (worldV.encAt ([] ++ h.opsPf.dropLast)) + 2 ≤ 320)
        | _ => false) = true := by decide +kernel
    rw [h] at f1
    have f1 := of_decide_eq_true f1
    refine ⟨hdr, rfl, rfl, rfl, rfl, f1.1, ⟨[], by rw [List.nil_append, List.append_nil]; exact hall⟩,
      by decide, by decide, by rw [hlen, f1.2.1], by rw [hlen]; decide, ?_, by rw [hlen]; decide +kernel, f1.2.2.1, ?_,
      f1.2.2.2.2.1, f1.2.2.2.2.2.1, f1.2.1, f1.2.2.2.1⟩
    · rw [hlen]; exact ⟨f1.2.2.2.2.2.2.1, f1.2.2.2.2.2.2.2.1⟩
    · rw [hlen]; exact f1.2.2.2.2.2.2.2.2
  | err e => rw [h] at hok; cases hok
  | oob => rw [h] at hok; cases hok
  | abort => rw [h] at hok; cases hok

end OpusProofs.CeltHdr.Example
