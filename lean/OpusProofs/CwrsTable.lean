import OpusProofs.CwrsU
/-
  OpusProofs.CwrsTable — the regenerated CELT_PVQ_U_DATA / CELT_PVQ_U_ROW against U(N,K).
-/
namespace OpusProofs.CwrsTable
open Opus Opus.Cwrs OpusProofs.CwrsU
open Opus.Gen.CeltTables

/-- number of rows of CELT_PVQ_U_ROW -/
def nRows : Nat := pvqURowOff.length

def offL (r : Nat) : Nat := pvqURowOff.getD r 0

/-- Row `r` of the data as a list: the words `CELT_PVQ_U_ROW[r][r .. ]` up to the start of the next row. -/
def rowSlice (r : Nat) : List Nat := (pvqUData.drop (offL r + r)).take (rowEnd r - (offL r + r))

/-- The same words computed from the recurrence: `U r c` for `c = r .. rowEnd r - offL r - 1`. -/
def rowWant (r : Nat) : List Nat := (rowList (rowEnd r - offL r) r).drop r

/-- Shape of the table: the arrays used by `Utab` are the regenerated lists, rows are non-empty, inside the
    data array, and stored back to back starting at word 0 (so every one of the `pvqUSize` words belongs to
    exactly one row). -/
def shapeOk : Bool :=
  decide (rowOffArr.size = nRows) && decide (pvqUArr.size = pvqUSize) && decide (pvqUData.length = pvqUSize) &&
  decide (offL 0 = 0) && decide (rowEnd (nRows - 1) = pvqUSize) &&
  (List.range nRows).all (fun r =>
    decide (rowOffArr[r]? = some (offL r)) && decide (rowEndArr.getD r 0 = rowEnd r) &&
    decide (offL r + r < rowEnd r) && decide (rowEnd r ≤ pvqUSize))

def rowsOk : Bool :=
  (List.range nRows).all (fun r => rowSlice r == rowWant r && (rowSlice r).all (fun v => decide (v < 4294967296)))

theorem shapeOk_true : shapeOk = true := by decide +kernel
theorem rowsOk_true : rowsOk = true := by decide +kernel

/-- total number of table words checked against the recurrence -/
theorem words_checked : ((List.range nRows).map (fun r => (rowSlice r).length)).sum = pvqUSize := by decide +kernel


theorem shape_row {r : Nat} (hr : r < nRows) :
    rowOffArr[r]? = some (offL r) ∧ rowEndArr.getD r 0 = rowEnd r ∧ offL r + r < rowEnd r ∧ rowEnd r ≤ pvqUSize := by
  have h := shapeOk_true
  simp only [shapeOk, Bool.and_eq_true, List.all_eq_true, List.mem_range, decide_eq_true_eq] at h
  have := h.2 r hr
  exact ⟨this.1.1.1, this.1.1.2, this.1.2, this.2⟩

theorem rows_row {r : Nat} (hr : r < nRows) :
    rowSlice r = rowWant r ∧ ∀ v ∈ rowSlice r, v < 4294967296 := by
  have h := rowsOk_true
  simp only [rowsOk, Bool.and_eq_true, List.all_eq_true, List.mem_range, decide_eq_true_eq, beq_iff_eq] at h
  exact h r hr

/-- In-table predicate: row `r` exists and column `c` lies inside it. -/
def inTab (r c : Nat) : Prop := r < nRows ∧ r ≤ c ∧ offL r + c < rowEnd r

instance (r c : Nat) : Decidable (inTab r c) := by unfold inTab; infer_instance

theorem data_eq_U {r c : Nat} (h : inTab r c) :
    pvqUData[offL r + c]? = some (U r c) ∧ U r c < 4294967296 := by
  obtain ⟨hr, hrc, hc⟩ := h
  obtain ⟨hs, hlt⟩ := rows_row hr
  have hw : (rowWant r)[c - r]? = some (U r c) := by
    simp only [rowWant, rowList_spec, List.getElem?_drop, List.getElem?_map]
    have e : r + (c - r) = c := by omega
    rw [e]
    have : c < rowEnd r - offL r := by omega
    simp [this]
  have hsl : (rowSlice r)[c - r]? = pvqUData[offL r + c]? := by
    simp only [rowSlice, List.getElem?_take, List.getElem?_drop]
    have e : offL r + r + (c - r) = offL r + c := by omega
    have : c - r < rowEnd r - (offL r + r) := by omega
    simp [this, e]
  rw [← hsl, hs, hw]
  refine ⟨rfl, ?_⟩
  have hm : U r c ∈ rowSlice r := by
    rw [hs]; exact List.mem_of_getElem? hw
  exact hlt _ hm

/-- Characterisation of the regenerated table: inside a row the word is `U r c` (and fits 32 bits), outside
    every row the access is `.oob`. -/
theorem Utab_spec (r c : Nat) :
    (inTab r c → Utab r c = .ok (U r c) ∧ U r c < 4294967296) ∧ (¬ inTab r c → Utab r c = .oob) := by
  have hsz : rowOffArr.size = nRows := by
    have h := shapeOk_true
    simp only [shapeOk, Bool.and_eq_true, decide_eq_true_eq] at h
    exact h.1.1.1.1.1
  have hsz2 : pvqUArr.size = pvqUSize := by
    have h := shapeOk_true
    simp only [shapeOk, Bool.and_eq_true, decide_eq_true_eq] at h
    exact h.1.1.1.1.2
  constructor
  · intro h
    obtain ⟨hd, hlt⟩ := data_eq_U h
    obtain ⟨hr, hrc, hc⟩ := h
    obtain ⟨ho, he, _, hle⟩ := shape_row hr
    refine ⟨?_, hlt⟩
    have hr' : r < rowOffArr.size := by omega
    have ho' : rowOffArr[r] = offL r := by
      have := ho; rw [Array.getElem?_eq_getElem hr'] at this; exact Option.some.inj this
    have h2 : offL r + c < pvqUArr.size := by omega
    have hv : pvqUArr[offL r + c] = U r c := by
      have : pvqUArr[offL r + c]? = some (U r c) := by
        simp only [pvqUArr, List.getElem?_toArray]; exact hd
      rw [Array.getElem?_eq_getElem h2] at this; exact Option.some.inj this
    simp only [Utab, hr', ↓reduceDIte, ho', he, hrc, hc, and_self, ↓reduceIte, h2, hv]
  · intro h
    unfold Utab
    by_cases hr' : r < rowOffArr.size
    · have hr : r < nRows := by omega
      obtain ⟨ho, he, _, _⟩ := shape_row hr
      have ho' : rowOffArr[r] = offL r := by
        have := ho; rw [Array.getElem?_eq_getElem hr'] at this; exact Option.some.inj this
      simp only [hr', ↓reduceDIte, he]
      have : ¬ (r ≤ c ∧ offL r + c < rowEnd r) := fun hh => h ⟨hr, hh.1, hh.2⟩
      split
      · rename_i hh; exact absurd ⟨hh.1, by have := hh.2; omega⟩ this
      · rfl
    · simp [hr']

theorem Utab_ok {r c v : Nat} (h : Utab r c = .ok v) : inTab r c ∧ v = U r c ∧ v < 4294967296 := by
  by_cases hin : inTab r c
  · obtain ⟨h1, h2⟩ := (Utab_spec r c).1 hin
    rw [h1] at h
    have : U r c = v := by injection h
    exact ⟨hin, this.symm, this ▸ h2⟩
  · rw [(Utab_spec r c).2 hin] at h; cases h

end OpusProofs.CwrsTable
