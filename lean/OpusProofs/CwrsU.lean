import OpusModel.Cwrs
/-
  OpusProofs.CwrsU — arithmetic of U(N,K), V(N,K) (cwrs.c:74-150) and the check of the regenerated
  CELT_PVQ_U_DATA against it.
-/
namespace OpusProofs.CwrsU
open Opus Opus.Cwrs

@[simp] theorem U_zero_zero : U 0 0 = 1 := rfl
@[simp] theorem U_zero_succ (k : Nat) : U 0 (k + 1) = 0 := rfl
@[simp] theorem U_succ_zero (n : Nat) : U (n + 1) 0 = 0 := rfl
theorem U_succ_succ (n k : Nat) : U (n + 1) (k + 1) = U n (k + 1) + U (n + 1) k + U n k := rfl

theorem U_zero (k : Nat) : U 0 k = if k = 0 then 1 else 0 := by
  cases k <;> simp

/-- `U(N,K) = U(K,N)` (cwrs.c:116). -/
theorem U_symm : ∀ n k, U n k = U k n := by
  intro n
  induction n with
  | zero => intro k; cases k <;> simp
  | succ n ihn =>
    intro k
    induction k with
    | zero => simp
    | succ k ihk =>
      rw [U_succ_succ, U_succ_succ, ihn (k + 1), ihk, ihn k]
      omega

/-- `U(N,K)` is non-decreasing in `K` for `N ≥ 1`. -/
theorem U_mono_step (n k : Nat) : U (n + 1) k ≤ U (n + 1) (k + 1) := by
  rw [U_succ_succ]; omega

theorem U_mono (n : Nat) {a b : Nat} (h : a ≤ b) : U (n + 1) a ≤ U (n + 1) b := by
  induction h with
  | refl => exact Nat.le_refl _
  | step _ ih => exact Nat.le_trans ih (U_mono_step n _)

/-- `U(N,K+1) - U(N,K) = V(N-1,K)` for `N ≥ 1`. -/
theorem U_succ_eq_add_V (n k : Nat) : U (n + 1) (k + 1) = U (n + 1) k + V n k := by
  rw [U_succ_succ, V]; omega

@[simp] theorem U_one_succ (k : Nat) : U 1 (k + 1) = 1 := by
  induction k with
  | zero => rfl
  | succ k ih => rw [U_succ_succ, ih]; simp

/-- `U(2,K) = 2K-1` for `K>0` (cwrs.c:168). -/
theorem U_two_succ (k : Nat) : U 2 (k + 1) = 2 * k + 1 := by
  induction k with
  | zero => rfl
  | succ k ih =>
    rw [U_succ_succ, ih, U_one_succ, U_one_succ]; omega

theorem V_rec (n k : Nat) : V (n + 1) (k + 1) = V n (k + 1) + V (n + 1) k + V n k := by
  simp only [V, U_succ_succ]; omega

@[simp] theorem U_succ_one (n : Nat) : U (n + 1) 1 = 1 := by
  rw [U_symm]; exact U_one_succ n

theorem V_zero (n : Nat) : V (n + 1) 0 = 1 := by
  simp [V]

/-! ## Efficient rows (for kernel evaluation) -/

/-- Row `n+1` as a list from row `n` as a list: `next[0]=0`, `next[k+1]=prev[k+1]+next[k]+prev[k]`.
    `acc` is `next[k]`, `p` is `prev[k]`, the remaining input is `prev[k+1..]`. -/
def nextRowAux : Nat → Nat → List Nat → List Nat
  | _, _, [] => []
  | acc, p, q :: rest => let x := q + acc + p; x :: nextRowAux x q rest

def nextRow : List Nat → List Nat
  | [] => []
  | p :: rest => 0 :: nextRowAux 0 p rest

/-- Row `n` for `k = 0..len-1`. -/
def rowList (len : Nat) : Nat → List Nat
  | 0 => (List.range len).map (fun k => if k = 0 then 1 else 0)
  | n + 1 => nextRow (rowList len n)

theorem nextRowAux_spec (f g : Nat → Nat) (hg : ∀ k, g (k + 1) = f (k + 1) + g k + f k) :
    ∀ (m k : Nat), nextRowAux (g k) (f k) ((List.range m).map (fun j => f (k + 1 + j)))
      = (List.range m).map (fun j => g (k + 1 + j)) := by
  intro m
  induction m with
  | zero => intro k; simp [nextRowAux]
  | succ m ih =>
    intro k
    rw [List.range_succ_eq_map]
    simp only [List.map_cons, List.map_map, nextRowAux, Nat.add_zero]
    rw [← hg k]
    have := ih (k + 1)
    simp only [Function.comp_def] at this ⊢
    have e1 : (fun j => f (k + 1 + (j + 1))) = (fun j => f (k + 1 + 1 + j)) := by
      funext j; congr 1; omega
    have e2 : (fun j => g (k + 1 + (j + 1))) = (fun j => g (k + 1 + 1 + j)) := by
      funext j; congr 1; omega
    simp only [Nat.succ_eq_add_one] at *
    rw [e1, e2, this]

theorem rowList_spec (len : Nat) : ∀ n, rowList len n = (List.range len).map (U n) := by
  intro n
  induction n with
  | zero =>
    simp only [rowList]
    apply List.map_congr_left
    intro k _
    cases k <;> simp
  | succ n ih =>
    simp only [rowList, ih]
    cases len with
    | zero => simp [nextRow]
    | succ m =>
      rw [List.range_succ_eq_map]
      simp only [List.map_cons, List.map_map, nextRow, U_succ_zero]
      have := nextRowAux_spec (U n) (U (n + 1)) (fun k => U_succ_succ n k) m 0
      simp only [Nat.zero_add, U_succ_zero] at this
      simp only [Function.comp_def, Nat.succ_eq_add_one]
      have e1 : (fun j => U n (j + 1)) = (fun j => U n (1 + j)) := by funext j; congr 1; omega
      have e2 : (fun j => U (n + 1) (j + 1)) = (fun j => U (n + 1) (1 + j)) := by funext j; congr 1; omega
      rw [e1, e2, this]

theorem rowList_getD (len n k : Nat) (h : k < len) : (rowList len n).getD k 0 = U n k := by
  rw [rowList_spec]
  simp [List.getD, h]

end OpusProofs.CwrsU
