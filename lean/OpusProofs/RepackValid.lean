import OpusProofs.RepackOut
/-
  C07 helper lemmas, part 3: the packet `outPacket` is RFC-valid and has the announced size.
-/
namespace Opus.RepackProofs
open Opus Opus.Framing Opus.FramingSpec Opus.FramingProofs Opus.Repack Opus.Ext

/-- What the repacketizer invariant guarantees about a selection of frames. -/
structure FramesOk (toc : Nat) (frames : List Bytes) : Prop where
  toc_lt : toc < 256
  ne : frames ≠ []
  le : ∀ f ∈ frames, f.length ≤ 1275
  dur : frames.length * samplesPerFrame toc 8000 ≤ 960

theorem frameDur48_cfg : ∀ toc ∈ List.range 256, ∀ c ∈ List.range 4,
    frameDur48 (toc / 4 * 4 + c) = 6 * samplesPerFrame toc 8000 ∧ 20 ≤ samplesPerFrame toc 8000 ∧
    samplesPerFrame toc 8000 ≤ 480 ∧ samplesPerFrame (toc / 4 * 4 + c) 8000 = samplesPerFrame toc 8000 := by
  decide +kernel

theorem padOf_ok (a : Int) (ha : 0 ≤ a) : ∀ pd, padOf a = some pd → pd.last < 255 ∧ pd.bytes.length = pd.total := by
  intro pd h
  unfold padOf at h
  split at h
  · simp at h
  · simp only [Option.some.injEq] at h
    subst h
    simp only [Pad.total, List.length_replicate]
    omega

theorem padOf_size (a : Int) (ha : 0 ≤ a) : ((padHdr (padOf a)).length : Int) + (padData (padOf a)).length = a := by
  unfold padOf
  split
  · simp [padHdr, padData]; omega
  · simp [padHdr, padData, Pad.hdr]; omega

theorem sdSize_eq (sd : Bool) (l : Nat) : sdSize sd l = ((if sd then encLen l else []).length : Int) := by
  unfold sdSize
  cases sd
  · simp
  · simp only [if_true]; rw [encLen_length]

theorem tot3_eq (lens : List Nat) (hne : lens ≠ []) (tot0 : Int) :
    tot3 lens tot0 = tot0 + 2 + ((if isVbr lens then lens.dropLast.flatMap encLen else []).length : Int) + sumN lens := by
  unfold tot3
  cases h : isVbr lens
  · simp [isVbr_false_sum lens h]; omega
  · simp [vbrBody_eq lens hne]; omega

theorem lowCode_lt (lens : List Nat) : lowCode lens ≤ 2 := by
  unfold lowCode; split
  · split <;> omega
  · omega

theorem outPacket_frames (toc : Nat) (frames : List Bytes) (maxlen : Int) (sd pad : Bool) :
    (outPacket toc frames maxlen sd pad).frames = frames := by
  unfold outPacket; split <;> rfl

theorem outPacket_toc (toc : Nat) (frames : List Bytes) (maxlen : Int) (sd pad : Bool) :
    (outPacket toc frames maxlen sd pad).toc / 4 = toc / 4 := by
  unfold outPacket; split
  · simp only [lowPacket]
    have := lowCode_lt (frames.map List.length)
    omega
  · simp only [highPacket]; omega

theorem minSize_le_tot3 (sd : Bool) (lens : List Nat) (hne : lens ≠ []) :
    minSize sd lens ≤ tot3 lens (sdSize sd (lens.getLastD 0)) ∧
    (lens.length ≤ 2 → minSize sd lens + 1 = tot3 lens (sdSize sd (lens.getLastD 0))) := by
  match lens, hne with
  | [l0], _ => simp [minSize, tot3, isVbr_one]; omega
  | [l0, l1], _ =>
    by_cases h : l1 = l0
    · simp [minSize, tot3, isVbr_two, h]; omega
    · simp [minSize, tot3, isVbr_two, h, vbrBody]; omega
  | _ :: _ :: _ :: _, _ => simp [minSize]

/-- The emitted packet satisfies the RFC framing rules. -/
theorem outPacket_valid (toc : Nat) (frames : List Bytes) (hok : FramesOk toc frames) (maxlen : Int) (sd pad : Bool)
    (hfit : minSize sd (frames.map List.length) ≤ maxlen) :
    Valid (outPacket toc frames maxlen sd pad) := by
  have hcfg := fun c hc => frameDur48_cfg toc (List.mem_range.mpr hok.toc_lt) c (List.mem_range.mpr hc)
  have hlne : frames.map List.length ≠ [] := by simpa using hok.ne
  unfold outPacket
  split
  · rename_i hlow
    unfold lowPacket
    have hlc := lowCode_lt (frames.map List.length)
    have hmod : (toc / 4 * 4 + lowCode (frames.map List.length)) % 4 = lowCode (frames.map List.length) := by omega
    refine ⟨by have := hok.toc_lt; show _ + _ < 256; omega, hok.le, ?_, ?_, ?_, ?_, by intro pd h; cases h⟩
    all_goals (simp only [Packet.code, hmod, Packet.lens]; intro hc)
    · match frames, hok.ne, hlow.1 with
      | [f0], _, _ => simp
      | [f0, f1], _, _ => simp [lowCode] at hc; split at hc <;> omega
    · match frames, hok.ne, hlow.1 with
      | [f0], _, _ => simp [lowCode] at hc
      | [f0, f1], _, _ =>
        simp [lowCode] at hc
        have : f1.length = f0.length := by
          apply Decidable.byContradiction; intro h; simp [h] at hc
        simp [allEq, this]
    · match frames, hok.ne, hlow.1 with
      | [f0], _, _ => simp [lowCode] at hc
      | [f0, f1], _, _ => simp
    · omega
  · rename_i hnl
    unfold highPacket
    have hmod : (toc / 4 * 4 + 3) % 4 = 3 := by omega
    refine ⟨by have := hok.toc_lt; show _ + _ < 256; omega, hok.le, ?_, ?_, ?_, ?_, ?_⟩
    · simp only [Packet.code, hmod]; intro h; omega
    · simp only [Packet.code, hmod]; intro h; omega
    · simp only [Packet.code, hmod]; intro h; omega
    · intro _
      refine ⟨?_, ?_, ?_⟩
      · simp only []; have := List.length_pos_iff.mpr hok.ne; omega
      · simp only []
        rw [(hcfg 3 (by omega)).1]
        have := hok.dur
        have e : 6 * samplesPerFrame toc 8000 * frames.length = 6 * (frames.length * samplesPerFrame toc 8000) := by
          rw [Nat.mul_assoc, Nat.mul_comm (samplesPerFrame toc 8000)]
        rw [e]; omega
      · simp only [Packet.lens]; intro h; exact isVbr_false_allEq _ h
    · intro pd hpd
      simp only [] at hpd
      cases pad with
      | false => simp at hpd
      | true =>
        simp only [if_true] at hpd
        have := (minSize_le_tot3 sd _ hlne)
        refine padOf_ok _ ?_ pd hpd
        by_cases h2 : frames.length ≤ 2
        · have hh : minSize sd (frames.map List.length) < maxlen := by
            apply Decidable.byContradiction; intro hc; exact hnl ⟨h2, by simp; omega⟩
          have := this.2 (by simpa using h2); omega
        · have h3 : 2 < (frames.map List.length).length := by simp; omega
          rw [← tot3_le_of_min sd _ h3]; omega

theorem lowPacket_len (toc : Nat) (frames : List Bytes) (hne : frames ≠ []) (h2 : frames.length ≤ 2) (sd : Bool) :
    ((serialize sd (lowPacket toc frames)).length : Int) = minSize sd (frames.map List.length) := by
  match frames, hne, h2 with
  | [f0], _, _ =>
    have hlc : lowCode ([f0].map List.length) = 0 := by simp [lowCode]
    unfold lowPacket; rw [hlc, ser_code0 sd _ _ (by omega)]
    simp [minSize, sdSize_eq]
  | [f0, f1], _, _ =>
    by_cases heq : f1.length = f0.length
    · have hlc : lowCode ([f0, f1].map List.length) = 1 := by simp [lowCode, heq]
      unfold lowPacket; rw [hlc, ser_code1 sd _ _ _ (by omega)]
      simp [minSize, sdSize_eq, heq]; omega
    · have hlc : lowCode ([f0, f1].map List.length) = 2 := by simp [lowCode, heq]
      unfold lowPacket; rw [hlc, ser_code2 sd _ _ _ (by omega)]
      simp [minSize, sdSize_eq, heq]
      have := encLen_length f0.length
      omega

theorem highPacket_len (toc : Nat) (frames : List Bytes) (hne : frames ≠ []) (maxlen : Int) (sd pad : Bool)
    (hfit : tot3 (frames.map List.length) (sdSize sd ((frames.map List.length).getLastD 0)) ≤ maxlen) :
    ((serialize sd (highPacket toc frames maxlen sd pad)).length : Int) =
      if pad then maxlen else tot3 (frames.map List.length) (sdSize sd ((frames.map List.length).getLastD 0)) := by
  unfold highPacket
  rw [ser_code3 sd _ _ _ _ (by omega) hne]
  rw [tot3_eq _ (by simpa using hne)] at hfit ⊢
  rw [sumN_map_length] at hfit ⊢
  rw [sdSize_eq] at hfit ⊢
  cases pad with
  | false => simp [padHdr, padData]; omega
  | true =>
    simp only [if_true]
    have := padOf_size (maxlen - tot3 (frames.map List.length) (sdSize sd ((frames.map List.length).getLastD 0))) (by
      rw [tot3_eq _ (by simpa using hne), sumN_map_length, sdSize_eq]; omega)
    rw [tot3_eq _ (by simpa using hne), sumN_map_length, sdSize_eq] at this
    simp only [List.length_append, List.length_cons, List.length_nil]
    push_cast
    omega

/-- Size of the emitted packet: the minimal size, or exactly `maxlen` when padding. -/
theorem outPacket_len (toc : Nat) (frames : List Bytes) (hne : frames ≠ []) (maxlen : Int) (sd pad : Bool)
    (hfit : minSize sd (frames.map List.length) ≤ maxlen) :
    ((serialize sd (outPacket toc frames maxlen sd pad)).length : Int) =
      if pad then maxlen else minSize sd (frames.map List.length) := by
  have hlne : frames.map List.length ≠ [] := by simpa using hne
  have hm := minSize_le_tot3 sd _ hlne
  by_cases hl : useLow frames maxlen sd pad
  · rw [outPacket_low hl, lowPacket_len toc frames hne hl.1 sd]
    cases pad with
    | false => simp
    | true => simp only [if_true]; have := hl.2; simp at this; omega
  · rw [outPacket_high hl]
    have hfit3 : tot3 (frames.map List.length) (sdSize sd ((frames.map List.length).getLastD 0)) ≤ maxlen := by
      by_cases h2 : frames.length ≤ 2
      · have : pad = true ∧ minSize sd (frames.map List.length) < maxlen := by
          apply Decidable.byContradiction; intro hc; exact hl ⟨h2, hc⟩
        have := hm.2 (by simpa using h2); omega
      · rw [← tot3_le_of_min sd _ (by simp; omega)]; exact hfit
    rw [highPacket_len toc frames hne maxlen sd pad hfit3]
    cases pad with
    | true => rfl
    | false =>
      simp only [Bool.false_eq_true, if_false]
      have h3 : 2 < frames.length := by
        apply Decidable.byContradiction; intro hc; exact hl ⟨by omega, by simp⟩
      rw [tot3_le_of_min sd _ (by simpa using h3)]

end Opus.RepackProofs
