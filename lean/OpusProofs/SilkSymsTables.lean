import OpusProofs.SilkSymsBasic
/-
  C03 table obligations: every inverse-CDF slice the SILK symbol-layer model hands to `ec_dec_icdf` is a
  well-formed 8-bit ICDF whose first zero sits exactly at (number of symbols − 1), for the tables as
  regenerated from /repo (Gen/SilkIcdf.lean, Gen/SilkSyms.lean).  All by kernel evaluation.
-/
namespace Opus.SilkSymsProofs
open Opus Opus.SilkSyms Opus.SilkSymsFrozen.Icdf

/-- Every ICDF slice the model can hand to `sym`, paired with the number of symbols it codes. -/
def usedSlices : List (List Nat × Nat) :=
  [(silk_type_offset_VAD_iCDF, 4), (silk_type_offset_no_VAD_iCDF, 2), (silk_delta_gain_iCDF, 41),
   (silk_uniform3_iCDF, 3), (silk_uniform4_iCDF, 4), (silk_uniform5_iCDF, 5), (silk_uniform6_iCDF, 6),
   (silk_uniform8_iCDF, 8), (silk_NLSF_EXT_iCDF, 7), (silk_NLSF_interpolation_factor_iCDF, 5),
   (silk_pitch_delta_iCDF, 21), (silk_pitch_lag_iCDF, 32), (silk_pitch_contour_iCDF, 34),
   (silk_pitch_contour_NB_iCDF, 11), (silk_pitch_contour_10_ms_iCDF, 12), (silk_pitch_contour_10_ms_NB_iCDF, 3),
   (silk_LTP_per_index_iCDF, 3), (silk_LTP_gain_iCDF_0, 8), (silk_LTP_gain_iCDF_1, 16), (silk_LTP_gain_iCDF_2, 32),
   (silk_LTPscale_iCDF, 3), (silk_lsb_iCDF, 2), (silk_stereo_pred_joint_iCDF, 25),
   (silk_stereo_only_code_mid_iCDF, 2), (silk_LBRR_flags_2_iCDF, 3), (silk_LBRR_flags_3_iCDF, 7)] ++
  silk_gain_iCDF.map (fun r => (r, 8)) ++
  silk_rate_levels_iCDF.map (fun r => (r, 9)) ++
  silk_pulses_per_block_iCDF.map (fun r => (r, 18)) ++
  [((silk_pulses_per_block_iCDF.getD 9 []).drop 1, 17)] ++
  [cbNbMb, cbWb].flatMap (fun cb =>
    (List.range 2).map (fun h => (cb.cb1.drop (h * cb.nVectors), cb.nVectors)) ++
    (List.range 8).map (fun k => (cb.ecIcdf.drop (9 * k), 9))) ++
  [silk_shell_code_table0, silk_shell_code_table1, silk_shell_code_table2, silk_shell_code_table3].flatMap (fun t =>
    (List.range 16).map (fun q => (t.drop (silk_shell_code_table_offsets.getD (q + 1) 0), q + 2))) ++
  silk_sign_iCDF.map (fun x => ([x, 0], 2))

def slicesOk : Bool := usedSlices.all (fun p => icdfSliceOk p.1 && zeroPos p.1 + 1 == p.2)

theorem slicesOk_true : slicesOk = true := by decide +kernel

theorem constsOk_true : constsOk = true := by decide +kernel

/-! ### The individual facts in the form the range proofs use them -/

theorem zp_typeVAD : zeroPos silk_type_offset_VAD_iCDF = 3 := by decide
theorem zp_typeNoVAD : zeroPos silk_type_offset_no_VAD_iCDF = 1 := by decide
theorem zp_deltaGain : zeroPos silk_delta_gain_iCDF = 40 := by decide
theorem zp_uniform3 : zeroPos silk_uniform3_iCDF = 2 := by decide
theorem zp_uniform4 : zeroPos silk_uniform4_iCDF = 3 := by decide
theorem zp_uniform5 : zeroPos silk_uniform5_iCDF = 4 := by decide
theorem zp_uniform6 : zeroPos silk_uniform6_iCDF = 5 := by decide
theorem zp_uniform8 : zeroPos silk_uniform8_iCDF = 7 := by decide
theorem zp_nlsfExt : zeroPos silk_NLSF_EXT_iCDF = 6 := by decide
theorem zp_interp : zeroPos silk_NLSF_interpolation_factor_iCDF = 4 := by decide
theorem zp_pitchDelta : zeroPos silk_pitch_delta_iCDF = 20 := by decide
theorem zp_pitchLag : zeroPos silk_pitch_lag_iCDF = 31 := by decide
theorem zp_perIndex : zeroPos silk_LTP_per_index_iCDF = 2 := by decide
theorem zp_ltpScale : zeroPos silk_LTPscale_iCDF = 2 := by decide
theorem zp_lsb : zeroPos silk_lsb_iCDF = 1 := by decide
theorem zp_stereoJoint : zeroPos silk_stereo_pred_joint_iCDF = 24 := by decide
theorem zp_stereoMid : zeroPos silk_stereo_only_code_mid_iCDF = 1 := by decide

theorem zp_gain : ∀ s, s < 3 → zeroPos (silk_gain_iCDF.getD s []) = 7 := by decide
theorem zp_rateLevels : ∀ h, h < 2 → zeroPos (silk_rate_levels_iCDF.getD h []) = 8 := by decide
theorem zp_ppb : ∀ rl, rl < 9 → zeroPos (silk_pulses_per_block_iCDF.getD rl []) = 17 := by decide
theorem zp_ppb9 : zeroPos ((silk_pulses_per_block_iCDF.getD 9 []).drop 0) = 17 := by decide
theorem zp_ppb9shift : zeroPos ((silk_pulses_per_block_iCDF.getD 9 []).drop 1) = 16 := by decide
theorem zp_ltpGain : ∀ p, p < 3 →
    zeroPos ([silk_LTP_gain_iCDF_0, silk_LTP_gain_iCDF_1, silk_LTP_gain_iCDF_2].getD p []) + 1 = 8 * 2 ^ p := by decide
theorem zp_lbrrFlags : ∀ n, n < 4 → 2 ≤ n →
    zeroPos ([silk_LBRR_flags_2_iCDF, silk_LBRR_flags_3_iCDF].getD (n - 2) []) + 2 = 2 ^ n := by decide
theorem zp_cb1 : ∀ rate : Rate, ∀ h, h < 2 →
    zeroPos ((nlsfCB rate).cb1.drop (h * (nlsfCB rate).nVectors)) = 31 := by
  intro rate; cases rate <;> decide
theorem zp_ecIcdf : ∀ rate : Rate, ∀ k, k < 8 → zeroPos ((nlsfCB rate).ecIcdf.drop (9 * k)) = 8 := by
  intro rate; cases rate <;> decide
theorem zp_pitchLow (rate : Rate) : zeroPos (pitchLagLowBits rate) + 1 = rate.kHz / 2 := by
  cases rate <;> decide
theorem zp_contour (rate : Rate) (nb : Nat) : zeroPos (pitchContour rate nb) ≤ 33 := by
  unfold pitchContour
  cases rate <;> by_cases h : nb = 4 <;> simp [h] <;> decide
theorem zp_shell0 : ∀ p, p < 17 → 1 ≤ p →
    zeroPos (silk_shell_code_table0.drop (silk_shell_code_table_offsets.getD p 0)) = p := by decide
theorem zp_shell1 : ∀ p, p < 17 → 1 ≤ p →
    zeroPos (silk_shell_code_table1.drop (silk_shell_code_table_offsets.getD p 0)) = p := by decide
theorem zp_shell2 : ∀ p, p < 17 → 1 ≤ p →
    zeroPos (silk_shell_code_table2.drop (silk_shell_code_table_offsets.getD p 0)) = p := by decide
theorem zp_shell3 : ∀ p, p < 17 → 1 ≤ p →
    zeroPos (silk_shell_code_table3.drop (silk_shell_code_table_offsets.getD p 0)) = p := by decide

/-- Geometry of the NLSF codebooks as the model uses it. -/
theorem cb_geometry (rate : Rate) :
    (nlsfCB rate).nVectors = 32 ∧ ((nlsfCB rate).order = 10 ∨ (nlsfCB rate).order = 16) ∧
    (nlsfCB rate).ecSel.length = 32 * ((nlsfCB rate).order / 2) ∧
    (nlsfCB rate).cb1.length = 64 ∧ (nlsfCB rate).ecIcdf.length = 72 := by
  cases rate <;> decide +kernel

theorem signTable_len : silk_sign_iCDF.length = 42 := by decide
theorem stereoQuant_len : SilkSymsFrozen.Consts.silk_stereo_pred_quant_Q13.length = 16 := by decide
theorem shellOffsets_len : silk_shell_code_table_offsets.length = 17 := by decide

end Opus.SilkSymsProofs
