import OpusProofs.SilkSymsEncHeader
/-
  C08 × C03 composition, part 7: a whole SILK payload.  The LBRR data the decoder reads and drops, the
  per-call stereo header and channel loop with conditional coding across frames, and `silkCalls`.
  `Track` is the invariant between the encoder's conditional-coding memory and the decoder state.
-/
namespace Opus.SilkSymsEncProofs
open Opus Opus.RangeCoder Opus.SilkSyms Opus.SilkSymsEnc Opus.SilkSymsFrozen.Icdf
open Opus.SilkSymsProofs (ch_zero ch_one setCh0_ch0 setCh0_ch1 setCh1_ch0 setCh1_ch1 setCh0_pd setCh1_pd)

/-- The decoder state `st` agrees with the encoder (inputs `pk`, conditional-coding memory `s`) on everything
    that steers symbol reads; `fd` / `fd'` frames of the payload have been decoded for the mid / side channel. -/
structure Track (cfg : Cfg) (pk : PacketIn) (s : EncSt) (fd fd' : Nat) (st : SilkSt) : Prop where
  vad0 : st.ch0.vad = pk.ch0.vad
  lf0 : st.ch0.lbrrFlags = lbrr3 cfg.nfpp pk.ch0.lbrrFlags
  fd0 : st.ch0.nFramesDecoded = fd
  vad1 : cfg.nCh = 2 → st.ch1.vad = pk.ch1.vad
  lf1 : cfg.nCh = 2 → st.ch1.lbrrFlags = lbrr3 cfg.nfpp pk.ch1.lbrrFlags
  fd1 : cfg.nCh = 2 → st.ch1.nFramesDecoded = fd'
  p0s : st.ch0.ecPrevSignalType = s.p0.sig
  p0l : st.ch0.ecPrevLagIndex = s.p0.lag
  p1s : st.ch1.ecPrevSignalType = s.p1.sig
  p1l : st.ch1.ecPrevLagIndex = s.p1.lag

theorem lbrr3_getD {nfpp : Nat} (fl : List Nat) {i : Nat} (hn : nfpp ≤ 3) (hi : i < nfpp) :
    (lbrr3 nfpp fl).getD i 0 = fl.getD i 0 := by
  unfold lbrr3
  have h3 : i < 3 := by omega
  rcases (by omega : i = 0 ∨ i = 1 ∨ i = 2) with rfl | rfl | rfl <;>
    simp [List.range, List.range.loop, hi]

theorem Track.flags {cfg : Cfg} {pk : PacketIn} {s : EncSt} {fd fd' : Nat} {st : SilkSt} (t : Track cfg pk s fd fd' st)
    {n : Nat} (hn : n < cfg.nCh) (hc : cfg.nCh = 1 ∨ cfg.nCh = 2) :
    (st.ch n).lbrrFlags = lbrr3 cfg.nfpp (pk.ch n).lbrrFlags := by
  by_cases h0 : n = 0
  · subst h0; simp only [ch_zero, PacketIn.ch, if_true]; exact t.lf0
  · have h2 : cfg.nCh = 2 := by omega
    simp only [SilkSt.ch, PacketIn.ch, h0, if_false]; exact t.lf1 h2

theorem Track.prevSig {cfg : Cfg} {pk : PacketIn} {s : EncSt} {fd fd' : Nat} {st : SilkSt} (t : Track cfg pk s fd fd' st)
    (n : Nat) : (st.ch n).ecPrevSignalType = (s.prev n).sig := by
  by_cases h0 : n = 0
  · subst h0; simp only [ch_zero, EncSt.prev, if_true]; exact t.p0s
  · simp only [SilkSt.ch, EncSt.prev, h0, if_false]; exact t.p1s

theorem Track.prevLag {cfg : Cfg} {pk : PacketIn} {s : EncSt} {fd fd' : Nat} {st : SilkSt} (t : Track cfg pk s fd fd' st)
    (n : Nat) : (st.ch n).ecPrevLagIndex = (s.prev n).lag := by
  by_cases h0 : n = 0
  · subst h0; simp only [ch_zero, EncSt.prev, if_true]; exact t.p0l
  · simp only [SilkSt.ch, EncSt.prev, h0, if_false]; exact t.p1l

/-- Coding a frame of channel `n` keeps the two sides in step. -/
theorem Track.upd {cfg : Cfg} {pk : PacketIn} {s : EncSt} {fd fd' : Nat} {st : SilkSt} (t : Track cfg pk s fd fd' st)
    (n : Nat) (ix : Indices) :
    Track cfg pk (s.setPrev n ((s.prev n).upd ix)) fd fd' (st.setCh n (updCh (st.ch n) ix)) := by
  by_cases h0 : n = 0
  · subst h0
    simp only [SilkSt.setCh, SilkSt.ch, EncSt.setPrev, EncSt.prev, if_true, updCh, EcPrev.upd]
    exact ⟨t.vad0, t.lf0, t.fd0, t.vad1, t.lf1, t.fd1, rfl, by rw [t.p0l], t.p1s, t.p1l⟩
  · simp only [SilkSt.setCh, SilkSt.ch, EncSt.setPrev, EncSt.prev, h0, if_false, updCh, EcPrev.upd]
    exact ⟨t.vad0, t.lf0, t.fd0, t.vad1, t.lf1, t.fd1, t.p0s, t.p0l, rfl, by rw [t.p1l]⟩

/-! ### The LBRR data (read and dropped by the decoder) -/

theorem chanOk_of {cfg : Cfg} {pk : PacketIn} (hok : PacketOk cfg pk) {n : Nat} (hn : n < cfg.nCh) :
    ChanOk cfg (pk.ch n) := by
  by_cases h0 : n = 0
  · subst h0; exact hok.ch0
  · have h2 : cfg.nCh = 2 := by have := hok.nCh; omega
    simp only [PacketIn.ch, h0, if_false]; exact hok.ch1 h2

/-- The stereo part in front of the mid channel's LBRR frame. -/
theorem skipStereo_spec {cfg : Cfg} {pk : PacketIn} (hok : PacketOk cfg pk) {i : Nat} (hi : i < cfg.nfpp) {s : EncSt}
    {S : SkipSt} (t : Track cfg pk s 0 0 S.st) (h2 : cfg.nCh = 2) (hf : pk.ch0.lbrrFlags.getD i 0 ≠ 0)
    (h : Reads S.c (predOps (pk.lbrrPredIx.getD i []) ++
      (if pk.ch1.lbrrFlags.getD i 0 = 0 then encMidOnly (pk.lbrrMidOnly.getD i 0) else []))) :
    ∃ dom, skipStereo cfg i 0 S =
      { S with dom := dom,
               c := after S.c (predOps (pk.lbrrPredIx.getD i []) ++
                 (if pk.ch1.lbrrFlags.getD i 0 = 0 then encMidOnly (pk.lbrrMidOnly.getD i 0) else [])),
               evs := S.evs ++ (predEv (pk.lbrrPredIx.getD i []) ::
                 (if pk.ch1.lbrrFlags.getD i 0 = 0 then [.midOnly (pk.lbrrMidOnly.getD i 0)] else [])) } := by
  have hp := (hok.lbrrPred h2 i hi hf).1
  rw [reads_append] at h
  rw [after_append]
  rw [skipStereo, skipStereoG, if_pos ⟨h2, rfl⟩]
  have hfl : S.st.ch1.lbrrFlags.getD i 0 = pk.ch1.lbrrFlags.getD i 0 := by
    rw [t.lf1 h2, lbrr3_getD _ hok.nfpp.2 hi]
  rw [hfl]
  split
  rename_i p c1 e1
  rw [stereoDecodePred_spec hp h.1] at e1
  obtain ⟨rfl, rfl⟩ := Prod.mk.inj e1
  by_cases hz : pk.ch1.lbrrFlags.getD i 0 = 0
  · rw [if_pos hz] at h
    rw [if_pos hz, if_pos hz, if_pos hz]
    split
    rename_i m c2 e2
    rw [midOnly_spec h.2] at e2
    obtain ⟨rfl, rfl⟩ := Prod.mk.inj e2
    exact ⟨_, rfl⟩
  · rw [if_neg hz, if_neg hz, if_neg hz, after_nil]
    exact ⟨S.dom, rfl⟩

theorem lbrrCC_eq {cfg : Cfg} {pk : PacketIn} {s : EncSt} {st : SilkSt} (hok : PacketOk cfg pk)
    (t : Track cfg pk s 0 0 st) {i n : Nat} (hi : i < cfg.nfpp) (hn : n < cfg.nCh) :
    (if i > 0 ∧ (st.ch n).lbrrFlags.getD (i - 1) 0 ≠ 0 then 2 else 0) = lbrrCondCoding (pk.ch n) i := by
  unfold lbrrCondCoding
  rw [t.flags hn hok.nCh]
  by_cases h0 : i > 0
  · rw [lbrr3_getD _ hok.nfpp.2 (by omega)]
  · simp only [h0, false_and, if_false]

/-- LBRR data of frame `i`, channel `n`. -/
theorem skipOne_spec {cfg : Cfg} {pk : PacketIn} (hok : PacketOk cfg pk) {i n : Nat} (hi : i < cfg.nfpp)
    (hn : n < cfg.nCh) {s : EncSt} {S : SkipSt} (t : Track cfg pk s 0 0 S.st) (h : Reads S.c (lbrrOne cfg pk i n s).1) :
    (skipOne cfg i n S).c = after S.c (lbrrOne cfg pk i n s).1 ∧
    (skipOne cfg i n S).evs = S.evs ++ lbrrOneEvs cfg pk i n s ∧
    Track cfg pk (lbrrOne cfg pk i n s).2 0 0 (skipOne cfg i n S).st ∧
    (skipOne cfg i n S).st.prevDecodeOnlyMiddle = S.st.prevDecodeOnlyMiddle := by
  have hco := chanOk_of hok hn
  have hfl : (S.st.ch n).lbrrFlags.getD i 0 = (pk.ch n).lbrrFlags.getD i 0 := by
    rw [t.flags hn hok.nCh, lbrr3_getD _ hok.nfpp.2 hi]
  by_cases hf : (pk.ch n).lbrrFlags.getD i 0 ≠ 0
  · have eo : lbrrOne cfg pk i n s =
        ((if cfg.nCh = 2 ∧ n = 0 then predOps (pk.lbrrPredIx.getD i []) ++
            (if pk.ch1.lbrrFlags.getD i 0 = 0 then encMidOnly (pk.lbrrMidOnly.getD i 0) else []) else []) ++
          frameOps cfg.rate cfg.nbSubfr true (lbrrCondCoding (pk.ch n) i) (s.prev n) ((pk.ch n).lbrr.getD i default),
         s.setPrev n ((s.prev n).upd ((pk.ch n).lbrr.getD i default).ix)) := by
      unfold lbrrOne; rw [if_pos hf]
    have ee : lbrrOneEvs cfg pk i n s =
        (if cfg.nCh = 2 ∧ n = 0 then predEv (pk.lbrrPredIx.getD i []) ::
            (if pk.ch1.lbrrFlags.getD i 0 = 0 then [.midOnly (pk.lbrrMidOnly.getD i 0)] else []) else []) ++
        frameEvs cfg n i 1 (lbrrCondCoding (pk.ch n) i) (s.prev n) ((pk.ch n).lbrr.getD i default) := by
      unfold lbrrOneEvs; rw [if_pos hf]
    rw [eo] at h ⊢
    rw [ee]
    have h' : Reads S.c ((if cfg.nCh = 2 ∧ n = 0 then predOps (pk.lbrrPredIx.getD i []) ++
            (if pk.ch1.lbrrFlags.getD i 0 = 0 then encMidOnly (pk.lbrrMidOnly.getD i 0) else []) else []) ++
          frameOps cfg.rate cfg.nbSubfr true (lbrrCondCoding (pk.ch n) i) (s.prev n) ((pk.ch n).lbrr.getD i default)) := h
    rw [reads_append] at h'
    obtain ⟨hix, hpu⟩ := hco.lbrr i hi hf
    -- the stereo part
    have hst : ∃ dom, skipStereo cfg i n S =
        { S with dom := dom,
                 c := after S.c (if cfg.nCh = 2 ∧ n = 0 then predOps (pk.lbrrPredIx.getD i []) ++
                   (if pk.ch1.lbrrFlags.getD i 0 = 0 then encMidOnly (pk.lbrrMidOnly.getD i 0) else []) else []),
                 evs := S.evs ++ (if cfg.nCh = 2 ∧ n = 0 then predEv (pk.lbrrPredIx.getD i []) ::
                   (if pk.ch1.lbrrFlags.getD i 0 = 0 then [.midOnly (pk.lbrrMidOnly.getD i 0)] else []) else []) } := by
      by_cases hs : cfg.nCh = 2 ∧ n = 0
      · obtain ⟨h2, rfl⟩ := hs
        have hc : cfg.nCh = 2 ∧ (0 : Nat) = 0 := ⟨h2, rfl⟩
        have h1 := h'.1
        rw [if_pos hc] at h1
        simp only [h2, and_self, if_true]
        exact skipStereo_spec hok hi t h2 hf h1
      · rw [if_neg hs, if_neg hs, after_nil, List.append_nil]
        rw [skipStereo, skipStereoG, if_neg hs]
        exact ⟨S.dom, rfl⟩
    obtain ⟨dom, hst⟩ := hst
    rw [skipOne, hfl, if_pos hf, hst, lbrrCC_eq hok t hi hn]
    have hone := decodeOne_spec (cfg := cfg) (n := n) (fi := i) (lbrrN := 1) (cc := lbrrCondCoding (pk.ch n) i)
      (lbrr := true) (v := true) (ch := S.st.ch n) (p := s.prev n) (f := (pk.ch n).lbrr.getD i default)
      hok.nb hix hpu (fun _ => rfl) (by simp) (t.prevSig n) (t.prevLag n) h'.2
    split
    rename_i evs ch' c1 e
    rw [hone] at e
    obtain ⟨rfl, e'⟩ := Prod.mk.inj e
    obtain ⟨rfl, rfl⟩ := Prod.mk.inj e'
    refine ⟨by rw [after_append], ?_, t.upd n _, ?_⟩
    · show (S.evs ++ _) ++ _ = S.evs ++ (_ ++ _)
      rw [List.append_assoc]
    · by_cases h0 : n = 0
      · subst h0; exact setCh0_pd _ _
      · show (SilkSt.setCh _ n _).prevDecodeOnlyMiddle = _
        simp only [SilkSt.setCh, h0, if_false]
  · have eo : lbrrOne cfg pk i n s = ([], s) := by unfold lbrrOne; rw [if_neg hf]
    have ee : lbrrOneEvs cfg pk i n s = [] := by unfold lbrrOneEvs; rw [if_neg hf]
    rw [skipOne, hfl, if_neg hf, eo, ee]
    exact ⟨rfl, (List.append_nil _).symm, t, rfl⟩

theorem skipChans_spec {cfg : Cfg} {pk : PacketIn} (hok : PacketOk cfg pk) {i : Nat} (hi : i < cfg.nfpp) :
    ∀ (ns : List Nat), (∀ n ∈ ns, n < cfg.nCh) → ∀ (s : EncSt) (S : SkipSt), Track cfg pk s 0 0 S.st →
    Reads S.c (lbrrChans cfg pk i ns s).1 →
    (skipChans cfg i ns S).c = after S.c (lbrrChans cfg pk i ns s).1 ∧
    (skipChans cfg i ns S).evs = S.evs ++ lbrrChansEvs cfg pk i ns s ∧
    Track cfg pk (lbrrChans cfg pk i ns s).2 0 0 (skipChans cfg i ns S).st ∧
    (skipChans cfg i ns S).st.prevDecodeOnlyMiddle = S.st.prevDecodeOnlyMiddle := by
  intro ns
  induction ns with
  | nil =>
    intro _ s S t _
    exact ⟨rfl, (List.append_nil _).symm, t, rfl⟩
  | cons n ns ih =>
    intro hn s S t h
    rw [lbrrChans] at h ⊢
    simp only at h ⊢
    rw [reads_append] at h
    rw [skipChans, lbrrChansEvs, after_append]
    obtain ⟨a1, a2, a3, a4⟩ := skipOne_spec hok hi (hn n (List.mem_cons_self ..)) t h.1
    rw [← a1] at h
    obtain ⟨b1, b2, b3, b4⟩ := ih (fun n' h' => hn n' (List.mem_cons_of_mem _ h')) _ _ a3 h.2
    exact ⟨by rw [b1, a1], by rw [b2, a2, List.append_assoc], b3, by rw [b4, a4]⟩

theorem skipFrames_spec {cfg : Cfg} {pk : PacketIn} (hok : PacketOk cfg pk) :
    ∀ (is : List Nat), (∀ i ∈ is, i < cfg.nfpp) → ∀ (s : EncSt) (S : SkipSt), Track cfg pk s 0 0 S.st →
    Reads S.c (lbrrFrames cfg pk is s).1 →
    (skipFrames cfg is S).c = after S.c (lbrrFrames cfg pk is s).1 ∧
    (skipFrames cfg is S).evs = S.evs ++ lbrrFramesEvs cfg pk is s ∧
    Track cfg pk (lbrrFrames cfg pk is s).2 0 0 (skipFrames cfg is S).st ∧
    (skipFrames cfg is S).st.prevDecodeOnlyMiddle = S.st.prevDecodeOnlyMiddle := by
  intro is
  induction is with
  | nil =>
    intro _ s S t _
    exact ⟨rfl, (List.append_nil _).symm, t, rfl⟩
  | cons i is ih =>
    intro hi s S t h
    rw [lbrrFrames] at h ⊢
    simp only at h ⊢
    rw [reads_append] at h
    rw [skipFrames, lbrrFramesEvs, after_append]
    obtain ⟨a1, a2, a3, a4⟩ := skipChans_spec hok (hi i (List.mem_cons_self ..)) (List.range cfg.nCh)
      (fun n hn => List.mem_range.mp hn) s S t h.1
    rw [← a1] at h
    obtain ⟨b1, b2, b3, b4⟩ := ih (fun i' h' => hi i' (List.mem_cons_of_mem _ h')) _ _ a3 h.2
    exact ⟨by rw [b1, a1], by rw [b2, a2, List.append_assoc], b3, by rw [b4, a4]⟩

/-- The decoder agrees with the encoder on the conditional-coding memory when the payload starts. -/
def PrevSync (pk : PacketIn) (st : SilkSt) : Prop :=
  st.ch0.ecPrevSignalType = pk.ch0.prev.sig ∧ st.ch0.ecPrevLagIndex = pk.ch0.prev.lag ∧
  st.ch1.ecPrevSignalType = pk.ch1.prev.sig ∧ st.ch1.ecPrevLagIndex = pk.ch1.prev.lag

/-- The header of the first call: flags, LBRR-flags symbols, LBRR data. -/
theorem decodeHeader_spec {cfg : Cfg} {pk : PacketIn} (hok : PacketOk cfg pk) (st : SilkSt) {d : Dec}
    (hf0 : st.ch0.nFramesDecoded = 0) (hf1 : cfg.nCh = 2 → st.ch1.nFramesDecoded = 0) (hp : PrevSync pk st)
    (h : Reads d (flagOps (headerBits cfg pk) ++ headerOps cfg pk)) :
    (decodeHeader cfg st d).c = after d (flagOps (headerBits cfg pk) ++ headerOps cfg pk) ∧
    (decodeHeader cfg st d).evs = headerEvs cfg pk ++
      lbrrFramesEvs cfg pk (List.range cfg.nfpp) { p0 := pk.ch0.prev, p1 := pk.ch1.prev } ∧
    Track cfg pk (headerSt cfg pk) 0 0 (decodeHeader cfg st d).st ∧
    (cfg.nCh ≠ 2 → (decodeHeader cfg st d).dom = 0) := by
  have hops : flagOps (headerBits cfg pk) ++ headerOps cfg pk =
      flagsOps cfg pk ++ (lbrrFrames cfg pk (List.range cfg.nfpp) { p0 := pk.ch0.prev, p1 := pk.ch1.prev }).1 := by
    unfold headerOps flagsOps
    simp only [List.append_assoc]
  rw [hops] at h ⊢
  rw [reads_append] at h
  rw [after_append, decodeHeader, if_pos hok.lost, decodeFlags_spec hok st h.1]
  have t0 : Track cfg pk { p0 := pk.ch0.prev, p1 := pk.ch1.prev } 0 0 (hdrSt cfg pk st) := by
    obtain ⟨q1, q2, q3, q4⟩ := hp
    unfold hdrSt hdrCh
    refine ⟨rfl, rfl, hf0, ?_, ?_, ?_, q1, q2, ?_, ?_⟩
    · intro h2; simp only [h2, if_true]
    · intro h2; simp only [h2, if_true]
    · intro h2; simp only [h2, if_true]; exact hf1 h2
    · split <;> exact q3
    · split <;> exact q4
  obtain ⟨a1, a2, a3, _⟩ := skipFrames_spec hok (List.range cfg.nfpp) (fun i hi => List.mem_range.mp hi)
    { p0 := pk.ch0.prev, p1 := pk.ch1.prev }
    { st := hdrSt cfg pk st, dom := 0, c := after d (flagsOps cfg pk), evs := headerEvs cfg pk } t0 h.2
  refine ⟨a1, a2, a3, ?_⟩
  intro hne
  -- mono: nothing in the LBRR loop touches `dom`
  have key : ∀ (is : List Nat) (S : SkipSt), (skipFrames cfg is S).dom = S.dom := by
    intro is
    induction is with
    | nil => intro S; rfl
    | cons i is ih =>
      intro S
      rw [skipFrames, ih]
      have kc : ∀ (ns : List Nat) (S : SkipSt), (skipChans cfg i ns S).dom = S.dom := by
        intro ns
        induction ns with
        | nil => intro S; rfl
        | cons n ns ih2 =>
          intro S
          rw [skipChans, ih2, skipOne]
          split
          · have hs : skipStereo cfg i n S = S := by
              rw [skipStereo, skipStereoG, if_neg (fun hh => hne hh.1)]
            rw [hs]
          · rfl
      exact kc _ _
  exact key _ _

/-! ### One call behind the header -/

theorem Track.vadN {cfg : Cfg} {pk : PacketIn} {s : EncSt} {fd fd' : Nat} {st : SilkSt} (t : Track cfg pk s fd fd' st)
    {n : Nat} (hn : n < cfg.nCh) (hc : cfg.nCh = 1 ∨ cfg.nCh = 2) : (st.ch n).vad = (pk.ch n).vad := by
  by_cases h0 : n = 0
  · subst h0; simp only [ch_zero, PacketIn.ch, if_true]; exact t.vad0
  · have h2 : cfg.nCh = 2 := by omega
    simp only [SilkSt.ch, PacketIn.ch, h0, if_false]; exact t.vad1 h2

theorem Track.step0 {cfg : Cfg} {pk : PacketIn} {s : EncSt} {fd fd' : Nat} {st : SilkSt} (t : Track cfg pk s fd fd' st)
    (ix : Indices) (k : Nat) :
    Track cfg pk (s.setPrev 0 ((s.prev 0).upd ix)) k fd' (st.setCh 0 { updCh (st.ch 0) ix with nFramesDecoded := k }) := by
  simp only [SilkSt.setCh, SilkSt.ch, EncSt.setPrev, EncSt.prev, if_true, updCh, EcPrev.upd]
  exact ⟨t.vad0, t.lf0, rfl, t.vad1, t.lf1, t.fd1, rfl, by rw [t.p0l], t.p1s, t.p1l⟩

theorem Track.step1 {cfg : Cfg} {pk : PacketIn} {s : EncSt} {fd fd' : Nat} {st : SilkSt} (t : Track cfg pk s fd fd' st)
    (ix : Indices) (k : Nat) :
    Track cfg pk (s.setPrev 1 ((s.prev 1).upd ix)) fd k (st.setCh 1 { updCh (st.ch 1) ix with nFramesDecoded := k }) := by
  simp only [SilkSt.setCh, SilkSt.ch, EncSt.setPrev, EncSt.prev, Nat.succ_ne_zero, if_false, updCh, EcPrev.upd]
  exact ⟨t.vad0, t.lf0, t.fd0, t.vad1, t.lf1, fun _ => rfl, t.p0s, t.p0l, rfl, by rw [t.p1l]⟩

theorem Track.skip1 {cfg : Cfg} {pk : PacketIn} {s : EncSt} {fd fd' : Nat} {st : SilkSt} (t : Track cfg pk s fd fd' st)
    (k : Nat) : Track cfg pk s fd k (st.setCh 1 { st.ch 1 with nFramesDecoded := k }) := by
  simp only [SilkSt.setCh, SilkSt.ch, Nat.succ_ne_zero, if_false]
  exact ⟨t.vad0, t.lf0, t.fd0, t.vad1, t.lf1, fun _ => rfl, t.p0s, t.p0l, t.p1s, t.p1l⟩

theorem condCoding0 {cfg : Cfg} (hl : cfg.lostFlag = 0) (st : SilkSt) (pk : PacketIn) (i : Nat) :
    condCodingOf cfg st 0 i = encCondCoding pk i 0 := by
  unfold condCodingOf encCondCoding
  by_cases h0 : i = 0
  · subst h0; rfl
  · rw [if_neg (by omega), if_neg (by rw [hl]; decide), if_neg (fun hh => absurd hh.1 (by decide)), if_neg h0,
      if_neg (fun hh => absurd hh.1 (by decide))]

theorem condCoding1 {cfg : Cfg} (hl : cfg.lostFlag = 0) (st : SilkSt) (pk : PacketIn) (i : Nat)
    (hpd : i > 0 → st.prevDecodeOnlyMiddle = pk.midOnly.getD (i - 1) 0) :
    condCodingOf cfg st 1 (i + 1) = encCondCoding pk i 1 := by
  unfold condCodingOf encCondCoding
  by_cases h0 : i = 0
  · subst h0; rfl
  · rw [if_neg (by omega), if_neg (by rw [hl]; decide), if_neg h0, hpd (by omega)]

/-- A coded frame of channel `n` in call `i`. -/
theorem decodeChan_coded {cfg : Cfg} {pk : PacketIn} (hok : PacketOk cfg pk) {i n : Nat} (hn : n < cfg.nCh)
    {s : EncSt} {st : SilkSt} {fd fd' : Nat} {c : Dec} {hs : Bool} (t : Track cfg pk s fd fd' st)
    (hfd : (st.ch n).nFramesDecoded = i) (hrf : readsFrame cfg hs n (st.ch n) = true)
    (hcc : condCodingOf cfg st n st.ch0.nFramesDecoded = encCondCoding pk i n)
    (hix : IxOk cfg.rate cfg.nbSubfr (decide ((pk.ch n).vad.getD i 0 ≠ 0)) (encCondCoding pk i n)
      ((pk.ch n).frames.getD i default).ix)
    (hpu : PulsesOk (frameLength cfg.rate cfg.nbSubfr) ((pk.ch n).frames.getD i default).pulses)
    (h : Reads c (frameOps cfg.rate cfg.nbSubfr false (encCondCoding pk i n) (s.prev n) ((pk.ch n).frames.getD i default))) :
    decodeChan cfg hs n st c =
      (frameEvs cfg n i 0 (encCondCoding pk i n) (s.prev n) ((pk.ch n).frames.getD i default),
       st.setCh n { updCh (st.ch n) ((pk.ch n).frames.getD i default).ix with nFramesDecoded := i + 1 },
       after c (frameOps cfg.rate cfg.nbSubfr false (encCondCoding pk i n) (s.prev n) ((pk.ch n).frames.getD i default))) := by
  rw [decodeChan, if_pos hrf, hfd, hcc, hok.lost]
  have hone := decodeOne_spec (cfg := cfg) (n := n) (fi := i) (lbrrN := 0) (cc := encCondCoding pk i n)
    (lbrr := false) (v := decide ((pk.ch n).vad.getD i 0 ≠ 0)) (ch := st.ch n) (p := s.prev n)
    (f := (pk.ch n).frames.getD i default) hok.nb hix hpu (fun hh => absurd hh (by decide))
    (by rw [t.vadN hn hok.nCh, decide_false_or]) (t.prevSig n) (t.prevLag n) h
  split
  rename_i evs ch' c1 e
  rw [hone] at e
  obtain ⟨rfl, e'⟩ := Prod.mk.inj e
  obtain ⟨rfl, rfl⟩ := Prod.mk.inj e'
  have : (updCh (st.ch n) ((pk.ch n).frames.getD i default).ix).nFramesDecoded = i := hfd
  rw [this]

/-- The stereo part in front of a frame. -/
theorem decodeStereoHead_spec {cfg : Cfg} {pk : PacketIn} (hok : PacketOk cfg pk) {i : Nat} (hi : i < cfg.nfpp)
    {s : EncSt} {st : SilkSt} {fd' : Nat} (t : Track cfg pk s i fd' st) (h2 : cfg.nCh = 2) (dom : Nat) {c : Dec}
    (h : Reads c (predOps (pk.predIx.getD i []) ++
      (if pk.ch1.vad.getD i 0 = 0 then encMidOnly (pk.midOnly.getD i 0) else []))) :
    decodeStereoHead cfg st dom c =
      (pk.midOnly.getD i 0,
       after c (predOps (pk.predIx.getD i []) ++ (if pk.ch1.vad.getD i 0 = 0 then encMidOnly (pk.midOnly.getD i 0) else [])),
       predEv (pk.predIx.getD i []) :: (if pk.ch1.vad.getD i 0 = 0 then [.midOnly (pk.midOnly.getD i 0)] else [])) := by
  obtain ⟨hp, _, hm⟩ := hok.pred h2 i hi
  rw [reads_append] at h
  rw [after_append]
  have hhp : hasPred cfg st = true := by unfold hasPred; rw [hok.lost]; simp
  have hhm : hasMidOnly cfg st = decide (pk.ch1.vad.getD i 0 = 0) := by
    unfold hasMidOnly
    rw [hok.lost, t.vad1 h2, t.fd0]
    simp
  rw [decodeStereoHead, decodeStereoHeadG, if_pos ⟨h2, hhp⟩, hhm]
  split
  rename_i p c1 e1
  rw [stereoDecodePred_spec hp h.1] at e1
  obtain ⟨rfl, rfl⟩ := Prod.mk.inj e1
  by_cases hz : pk.ch1.vad.getD i 0 = 0
  · rw [if_pos hz] at h
    rw [if_pos (by simpa using hz), if_pos hz, if_pos hz]
    split
    rename_i m c2 e2
    rw [midOnly_spec h.2] at e2
    obtain ⟨rfl, rfl⟩ := Prod.mk.inj e2
    rfl
  · rw [if_neg (by simpa using hz), if_neg hz, if_neg hz, after_nil, hm hz]
    rfl

/-- The mid channel of call `i`. -/
theorem decodeChan0_spec {cfg : Cfg} {pk : PacketIn} (hok : PacketOk cfg pk) {i : Nat} (hi : i < cfg.nfpp)
    {s : EncSt} {st : SilkSt} {fd' : Nat} {c : Dec} (hs : Bool) (t : Track cfg pk s i fd' st)
    (h : Reads c (frameChan cfg pk i 0 s).1) :
    ∃ st', decodeChan cfg hs 0 st c = (frameChanEvs cfg pk i 0 s, st', after c (frameChan cfg pk i 0 s).1) ∧
      Track cfg pk (frameChan cfg pk i 0 s).2 (i + 1) fd' st' ∧ st'.prevDecodeOnlyMiddle = st.prevDecodeOnlyMiddle := by
  have hn : 0 < cfg.nCh := by have := hok.nCh; omega
  have eo : frameChan cfg pk i 0 s =
      (frameOps cfg.rate cfg.nbSubfr false (encCondCoding pk i 0) (s.prev 0) ((pk.ch 0).frames.getD i default),
       s.setPrev 0 ((s.prev 0).upd ((pk.ch 0).frames.getD i default).ix)) := by
    unfold frameChan; rw [if_pos (Or.inl rfl)]
  have ee : frameChanEvs cfg pk i 0 s =
      frameEvs cfg 0 i 0 (encCondCoding pk i 0) (s.prev 0) ((pk.ch 0).frames.getD i default) := by
    unfold frameChanEvs; rw [if_pos (Or.inl rfl)]
  rw [eo] at h ⊢
  rw [ee]
  obtain ⟨hix, hpu⟩ := hok.frames0 i hi
  have hrf : readsFrame cfg hs 0 (st.ch 0) = true := by unfold readsFrame; rw [hok.lost]; simp
  have hcc : condCodingOf cfg st 0 st.ch0.nFramesDecoded = encCondCoding pk i 0 := by
    rw [t.fd0]; exact condCoding0 hok.lost st pk i
  have hfd : (st.ch 0).nFramesDecoded = i := t.fd0
  refine ⟨_, decodeChan_coded hok hn t hfd hrf hcc hix hpu h, t.step0 _ _, ?_⟩
  exact setCh0_pd _ _

/-- The side channel of call `i`. -/
theorem decodeChan1_spec {cfg : Cfg} {pk : PacketIn} (hok : PacketOk cfg pk) {i : Nat} (hi : i < cfg.nfpp)
    (h2 : cfg.nCh = 2) {s : EncSt} {st : SilkSt} {c : Dec} (t : Track cfg pk s (i + 1) i st)
    (hpd : i > 0 → st.prevDecodeOnlyMiddle = pk.midOnly.getD (i - 1) 0)
    (h : Reads c (frameChan cfg pk i 1 s).1) :
    ∃ st', decodeChan cfg (decide (pk.midOnly.getD i 0 = 0)) 1 st c =
        (frameChanEvs cfg pk i 1 s, st', after c (frameChan cfg pk i 1 s).1) ∧
      Track cfg pk (frameChan cfg pk i 1 s).2 (i + 1) (i + 1) st' ∧
      st'.prevDecodeOnlyMiddle = st.prevDecodeOnlyMiddle := by
  have hn : 1 < cfg.nCh := by omega
  by_cases hm : pk.midOnly.getD i 0 = 0
  · have eo : frameChan cfg pk i 1 s =
        (frameOps cfg.rate cfg.nbSubfr false (encCondCoding pk i 1) (s.prev 1) ((pk.ch 1).frames.getD i default),
         s.setPrev 1 ((s.prev 1).upd ((pk.ch 1).frames.getD i default).ix)) := by
      unfold frameChan; rw [if_pos (Or.inr hm)]
    have ee : frameChanEvs cfg pk i 1 s =
        frameEvs cfg 1 i 0 (encCondCoding pk i 1) (s.prev 1) ((pk.ch 1).frames.getD i default) := by
      unfold frameChanEvs; rw [if_pos (Or.inr hm)]
    rw [eo] at h ⊢
    rw [ee]
    obtain ⟨hix, hpu⟩ := hok.frames1 h2 i hi hm
    have hrf : readsFrame cfg (decide (pk.midOnly.getD i 0 = 0)) 1 (st.ch 1) = true := by
      unfold readsFrame; rw [hok.lost, decide_eq_true hm]; simp
    have hcc : condCodingOf cfg st 1 st.ch0.nFramesDecoded = encCondCoding pk i 1 := by
      rw [t.fd0]; exact condCoding1 hok.lost st pk i hpd
    have hfd : (st.ch 1).nFramesDecoded = i := t.fd1 h2
    refine ⟨_, decodeChan_coded hok hn t hfd hrf hcc hix hpu h, t.step1 _ _, ?_⟩
    exact setCh1_pd _ _
  · have eo : frameChan cfg pk i 1 s = ([], s) := by
      unfold frameChan; rw [if_neg (fun hh => hh.elim (by decide) hm)]
    have ee : frameChanEvs cfg pk i 1 s = [] := by
      unfold frameChanEvs; rw [if_neg (fun hh => hh.elim (by decide) hm)]
    rw [eo, ee]
    have hrf : readsFrame cfg (decide (pk.midOnly.getD i 0 = 0)) 1 (st.ch 1) = false := by
      unfold readsFrame; rw [decide_eq_false hm]; simp
    rw [decodeChan, hrf]
    have hfd : (st.ch 1).nFramesDecoded = i := t.fd1 h2
    rw [hfd]
    exact ⟨_, rfl, t.skip1 _, setCh1_pd _ _⟩

/-- Everything of call `i` behind the header. -/
theorem decodeBody_spec {cfg : Cfg} {pk : PacketIn} (hok : PacketOk cfg pk) {i : Nat} (hi : i < cfg.nfpp)
    {s : EncSt} (H : SkipSt) (t : Track cfg pk s i i H.st)
    (hpd : cfg.nCh = 2 → i > 0 → H.st.prevDecodeOnlyMiddle = pk.midOnly.getD (i - 1) 0)
    (h : Reads H.c (frameCall cfg pk i s).1) :
    ∃ st', decodeBody cfg H =
        (H.evs ++ frameCallEvs cfg pk i s ++
          [.ret (after H.c (frameCall cfg pk i s).1).rng (tell (after H.c (frameCall cfg pk i s).1))],
         st', after H.c (frameCall cfg pk i s).1) ∧
      Track cfg pk (frameCall cfg pk i s).2 (i + 1) (i + 1) st' ∧
      (cfg.nCh = 2 → st'.prevDecodeOnlyMiddle = pk.midOnly.getD i 0) := by
  by_cases h2 : cfg.nCh = 2
  · have eo : frameCall cfg pk i s =
        (predOps (pk.predIx.getD i []) ++ (if pk.ch1.vad.getD i 0 = 0 then encMidOnly (pk.midOnly.getD i 0) else []) ++
          (frameChan cfg pk i 0 s).1 ++ (frameChan cfg pk i 1 (frameChan cfg pk i 0 s).2).1,
         (frameChan cfg pk i 1 (frameChan cfg pk i 0 s).2).2) := by
      unfold frameCall; simp only [if_pos h2]
    have ee : frameCallEvs cfg pk i s =
        (predEv (pk.predIx.getD i []) :: (if pk.ch1.vad.getD i 0 = 0 then [.midOnly (pk.midOnly.getD i 0)] else [])) ++
        frameChanEvs cfg pk i 0 s ++ frameChanEvs cfg pk i 1 (frameChan cfg pk i 0 s).2 := by
      unfold frameCallEvs; simp only [if_pos h2]
    rw [eo] at h ⊢
    rw [ee]
    have h' : Reads H.c (predOps (pk.predIx.getD i []) ++ (if pk.ch1.vad.getD i 0 = 0 then encMidOnly (pk.midOnly.getD i 0) else []) ++
          (frameChan cfg pk i 0 s).1 ++ (frameChan cfg pk i 1 (frameChan cfg pk i 0 s).2).1) := h
    rw [reads_append, reads_append] at h'
    obtain ⟨⟨ha, hb⟩, hc⟩ := h'
    rw [after_append] at hc
    have hA : after H.c (predOps (pk.predIx.getD i []) ++ (if pk.ch1.vad.getD i 0 = 0 then encMidOnly (pk.midOnly.getD i 0) else []) ++
          (frameChan cfg pk i 0 s).1 ++ (frameChan cfg pk i 1 (frameChan cfg pk i 0 s).2).1) =
        after (after (after H.c (predOps (pk.predIx.getD i []) ++ (if pk.ch1.vad.getD i 0 = 0 then encMidOnly (pk.midOnly.getD i 0) else [])))
          (frameChan cfg pk i 0 s).1) (frameChan cfg pk i 1 (frameChan cfg pk i 0 s).2).1 := by
      rw [after_append, after_append]
    have hA' : (predOps (pk.predIx.getD i []) ++ (if pk.ch1.vad.getD i 0 = 0 then encMidOnly (pk.midOnly.getD i 0) else []) ++
          (frameChan cfg pk i 0 s).1 ++ (frameChan cfg pk i 1 (frameChan cfg pk i 0 s).2).1,
         (frameChan cfg pk i 1 (frameChan cfg pk i 0 s).2).2).1 =
        predOps (pk.predIx.getD i []) ++ (if pk.ch1.vad.getD i 0 = 0 then encMidOnly (pk.midOnly.getD i 0) else []) ++
          (frameChan cfg pk i 0 s).1 ++ (frameChan cfg pk i 1 (frameChan cfg pk i 0 s).2).1 := rfl
    rw [hA', hA]
    rw [decodeBody]
    split
    rename_i dom c1 e1 he1
    rw [decodeStereoHead_spec hok hi t h2 H.dom ha] at he1
    obtain ⟨rfl, he1'⟩ := Prod.mk.inj he1
    obtain ⟨rfl, rfl⟩ := Prod.mk.inj he1'
    have hhs : hasSideOf cfg H.st (pk.midOnly.getD i 0) = decide (pk.midOnly.getD i 0 = 0) := by
      unfold hasSideOf; rw [if_pos hok.lost]
    rw [hhs]
    split
    rename_i e2 st2 c2 he2
    rw [decodeChans] at he2
    obtain ⟨st1, q1, q2, q3⟩ := decodeChan0_spec hok hi (decide (pk.midOnly.getD i 0 = 0)) t hb
    obtain ⟨st2', r1, r2, r3⟩ := decodeChan1_spec hok hi h2 q2
      (fun hpos => by rw [q3]; exact hpd h2 hpos) hc
    split at he2
    rename_i e0 st1' c1' he0
    rw [q1] at he0
    obtain ⟨rfl, he0'⟩ := Prod.mk.inj he0
    obtain ⟨rfl, rfl⟩ := Prod.mk.inj he0'
    rw [if_pos h2] at he2
    split at he2
    rename_i ea sta ca hea
    rw [r1] at hea
    obtain ⟨rfl, hea'⟩ := Prod.mk.inj hea
    obtain ⟨rfl, rfl⟩ := Prod.mk.inj hea'
    obtain ⟨rfl, he2'⟩ := Prod.mk.inj he2
    obtain ⟨rfl, rfl⟩ := Prod.mk.inj he2'
    refine ⟨{ st2' with prevDecodeOnlyMiddle := pk.midOnly.getD i 0 }, ?_, ?_, ?_⟩
    · refine Prod.ext ?_ rfl
      show _ ++ _ ++ (_ ++ _) ++ _ = _ ++ (_ ++ _ ++ _) ++ _
      simp only [List.append_assoc]
    · exact ⟨r2.vad0, r2.lf0, r2.fd0, r2.vad1, r2.lf1, r2.fd1, r2.p0s, r2.p0l, r2.p1s, r2.p1l⟩
    · intro _; rfl
  · have eo : frameCall cfg pk i s = ((frameChan cfg pk i 0 s).1, (frameChan cfg pk i 0 s).2) := by
      unfold frameCall; simp only [if_neg h2, List.nil_append]
    have ee : frameCallEvs cfg pk i s = frameChanEvs cfg pk i 0 s := by
      unfold frameCallEvs; simp only [if_neg h2, List.nil_append, List.append_nil]
    rw [eo] at h ⊢
    rw [ee]
    have h' : Reads H.c (frameChan cfg pk i 0 s).1 := h
    have hA' : ((frameChan cfg pk i 0 s).1, (frameChan cfg pk i 0 s).2).1 = (frameChan cfg pk i 0 s).1 := rfl
    have hB' : ((frameChan cfg pk i 0 s).1, (frameChan cfg pk i 0 s).2).2 = (frameChan cfg pk i 0 s).2 := rfl
    rw [hA', hB']
    rw [decodeBody]
    split
    rename_i dom c1 e1 he1
    rw [decodeStereoHead_mono (by have := hok.nCh; omega)] at he1
    obtain ⟨rfl, he1'⟩ := Prod.mk.inj he1
    obtain ⟨rfl, rfl⟩ := Prod.mk.inj he1'
    split
    rename_i e2 st2 c2 he2
    rw [decodeChans_mono (by have := hok.nCh; omega)] at he2
    obtain ⟨st1, q1, q2, q3⟩ := decodeChan0_spec hok hi (hasSideOf cfg H.st H.dom) t h'
    rw [q1] at he2
    obtain ⟨rfl, he2'⟩ := Prod.mk.inj he2
    obtain ⟨rfl, rfl⟩ := Prod.mk.inj he2'
    refine ⟨{ st1 with prevDecodeOnlyMiddle := H.dom }, ?_, ?_, fun hh => absurd hh h2⟩
    · refine Prod.ext ?_ rfl
      show _ ++ [] ++ _ ++ _ = _ ++ _ ++ _
      rw [List.append_nil]
    · exact ⟨q2.vad0, q2.lf0, q2.fd0, q2.vad1, q2.lf1, fun hh => absurd hh h2, q2.p0s, q2.p0l, q2.p1s, q2.p1l⟩

/-! ### The calls of a payload -/

theorem frameCalls_append (cfg : Cfg) (pk : PacketIn) : ∀ (a b : List Nat) (s : EncSt),
    frameCalls cfg pk (a ++ b) s =
      ((frameCalls cfg pk a s).1 ++ (frameCalls cfg pk b (frameCalls cfg pk a s).2).1,
       (frameCalls cfg pk b (frameCalls cfg pk a s).2).2) := by
  intro a
  induction a with
  | nil => intro b s; rfl
  | cons i a ih =>
    intro b s
    rw [List.cons_append, frameCalls, frameCalls, ih]
    simp only [List.append_assoc]

theorem callSt_zero (cfg : Cfg) (pk : PacketIn) : callSt cfg pk 0 = headerSt cfg pk := rfl

theorem callSt_succ (cfg : Cfg) (pk : PacketIn) (i : Nat) :
    callSt cfg pk (i + 1) = (frameCall cfg pk i (callSt cfg pk i)).2 := by
  unfold callSt
  rw [List.range_succ, frameCalls_append]
  rfl

/-- The decoder context when call `j` returns: the flag bits and the operations of calls `0..j` have been read. -/
def decAt (cfg : Cfg) (pk : PacketIn) (d0 : Dec) (j : Nat) : Dec :=
  after d0 (flagOps (headerBits cfg pk) ++ ((List.range (j + 1)).map (callOps cfg pk)).flatten)

theorem callOps_succ (cfg : Cfg) (pk : PacketIn) (j : Nat) :
    callOps cfg pk (j + 1) = (frameCall cfg pk (j + 1) (callSt cfg pk (j + 1))).1 := by
  unfold callOps
  rw [if_neg (Nat.succ_ne_zero j), List.nil_append]

theorem decAt_succ (cfg : Cfg) (pk : PacketIn) (d0 : Dec) (j : Nat) :
    decAt cfg pk d0 (j + 1) = after (decAt cfg pk d0 j) (frameCall cfg pk (j + 1) (callSt cfg pk (j + 1))).1 := by
  unfold decAt
  rw [List.range_succ (n := j + 1), List.map_append, List.flatten_append, ← List.append_assoc, after_append]
  simp only [List.map_cons, List.map_nil, List.flatten_cons, List.flatten_nil, List.append_nil, callOps_succ]

/-- The ops of calls `i .. i+k-1` (all behind the first). -/
def laterOps (cfg : Cfg) (pk : PacketIn) (js : List Nat) : List Op :=
  (js.map (fun j => (frameCall cfg pk j (callSt cfg pk j)).1)).flatten

theorem silkCalls_later {cfg : Cfg} {pk : PacketIn} (hok : PacketOk cfg pk) (d0 : Dec) :
    ∀ (k i : Nat) (st : SilkSt), i + 1 + k = cfg.nfpp → Track cfg pk (callSt cfg pk (i + 1)) (i + 1) (i + 1) st →
    (cfg.nCh = 2 → st.prevDecodeOnlyMiddle = pk.midOnly.getD i 0) →
    Reads (decAt cfg pk d0 i) (laterOps cfg pk (List.range' (i + 1) k)) →
    ∃ st', silkCalls cfg k false st (decAt cfg pk d0 i) =
      (((List.range' (i + 1) k).map (fun j => callEvs cfg pk j ((decAt cfg pk d0 j).rng, tell (decAt cfg pk d0 j)))).flatten,
       st', decAt cfg pk d0 (i + k)) := by
  intro k
  induction k with
  | zero =>
    intro i st _ _ _ _
    exact ⟨st, rfl⟩
  | succ k ih =>
    intro i st hik t hpd h
    have hi1 : i + 1 < cfg.nfpp := by omega
    rw [List.range'_succ, laterOps, List.map_cons, List.flatten_cons, reads_append] at h
    rw [List.range'_succ, List.map_cons, List.flatten_cons, silkCalls]
    -- this call
    have hb : beginCall cfg false st = st := Opus.SilkSymsProofs.beginCall_false cfg st (by rw [t.fd0]; omega)
    have hcall : ∃ st1, silkDecodeCall cfg false st (decAt cfg pk d0 i) =
        (callEvs cfg pk (i + 1) ((decAt cfg pk d0 (i + 1)).rng, tell (decAt cfg pk d0 (i + 1))), st1, decAt cfg pk d0 (i + 1)) ∧
        Track cfg pk (callSt cfg pk (i + 1 + 1)) (i + 1 + 1) (i + 1 + 1) st1 ∧
        (cfg.nCh = 2 → st1.prevDecodeOnlyMiddle = pk.midOnly.getD (i + 1) 0) := by
      rw [silkDecodeCall, hb, if_neg (by rw [t.fd0]; omega)]
      obtain ⟨st1, q1, q2, q3⟩ := decodeBody_spec hok hi1 { st := st, dom := 0, c := decAt cfg pk d0 i, evs := [] } t
        (fun h2 _ => hpd h2) h.1
      refine ⟨st1, ?_, by rw [callSt_succ]; exact q2, q3⟩
      rw [q1, decAt_succ]
      refine Prod.ext ?_ rfl
      show [] ++ _ ++ _ = callEvs cfg pk (i + 1) _
      unfold callEvs
      rw [if_neg (Nat.succ_ne_zero i), List.nil_append]
    obtain ⟨st1, c1, c2, c3⟩ := hcall
    split
    rename_i e1 st1' cc1 he1
    rw [c1] at he1
    obtain ⟨rfl, he1'⟩ := Prod.mk.inj he1
    obtain ⟨rfl, rfl⟩ := Prod.mk.inj he1'
    have h2' : Reads (decAt cfg pk d0 (i + 1)) (laterOps cfg pk (List.range' (i + 1 + 1) k)) := by
      rw [decAt_succ]; exact h.2
    obtain ⟨st2, r⟩ := ih (i + 1) st1 (by omega) c2 c3 h2'
    split
    rename_i e2 st2' cc2 he2
    rw [r] at he2
    obtain ⟨rfl, he2'⟩ := Prod.mk.inj he2
    obtain ⟨rfl, rfl⟩ := Prod.mk.inj he2'
    exact ⟨_, by rw [show i + 1 + k = i + (k + 1) by omega]⟩

theorem beginCall_prevSync {cfg : Cfg} {pk : PacketIn} {st : SilkSt} (h : PrevSync pk st) :
    PrevSync pk (beginCall cfg true st) := by
  obtain ⟨q1, q2, q3, q4⟩ := h
  unfold PrevSync beginCall
  by_cases h2 : cfg.nCh = 2 <;> simp [h2, q1, q2, q3, q4]

theorem frameCalls_later (cfg : Cfg) (pk : PacketIn) : ∀ (k i : Nat),
    (frameCalls cfg pk (List.range' i k) (callSt cfg pk i)).1 = laterOps cfg pk (List.range' i k) := by
  intro k
  induction k with
  | zero => intro i; rfl
  | succ k ih =>
    intro i
    rw [List.range'_succ, frameCalls, laterOps, List.map_cons, List.flatten_cons]
    simp only
    rw [← callSt_succ, ih (i + 1)]
    rfl

theorem packetBody_eq (cfg : Cfg) (pk : PacketIn) (k : Nat) (hk : cfg.nfpp = k + 1) :
    packetBody cfg pk = callOps cfg pk 0 ++ laterOps cfg pk (List.range' 1 k) := by
  have h1 : packetBody cfg pk = headerOps cfg pk ++ (frameCalls cfg pk (List.range cfg.nfpp) (headerSt cfg pk)).1 := by
    unfold packetBody headerOps headerSt
    simp only [List.append_assoc]
  rw [h1, hk, List.range_eq_range', List.range'_succ, frameCalls]
  simp only
  have h2 : (frameCall cfg pk 0 (headerSt cfg pk)).2 = callSt cfg pk (0 + 1) := by
    rw [callSt_succ, callSt_zero]
  rw [h2, frameCalls_later, callOps, if_pos rfl, callSt_zero, List.append_assoc]

theorem decAt_zero (cfg : Cfg) (pk : PacketIn) (d0 : Dec) :
    decAt cfg pk d0 0 = after (after d0 (flagOps (headerBits cfg pk) ++ headerOps cfg pk))
      (frameCall cfg pk 0 (callSt cfg pk 0)).1 := by
  unfold decAt
  have : ((List.range (0 + 1)).map (callOps cfg pk)).flatten = headerOps cfg pk ++ (frameCall cfg pk 0 (callSt cfg pk 0)).1 := by
    simp [List.range_succ, callOps]
  rw [this, ← List.append_assoc, after_append]

theorem decAt_later (cfg : Cfg) (pk : PacketIn) (d0 : Dec) : ∀ (k i : Nat),
    decAt cfg pk d0 (i + k) = after (decAt cfg pk d0 i) (laterOps cfg pk (List.range' (i + 1) k)) := by
  intro k
  induction k with
  | zero => intro i; rfl
  | succ k ih =>
    intro i
    rw [List.range'_succ, laterOps, List.map_cons, List.flatten_cons, after_append, ← decAt_succ]
    have := ih (i + 1)
    rw [laterOps] at this
    rw [← this, show i + (k + 1) = i + 1 + k by omega]

/-- The whole payload, for a decoder that agrees with the encoder on the conditional-coding memory. -/
theorem silkCalls_sync {cfg : Cfg} {pk : PacketIn} (hok : PacketOk cfg pk) (st : SilkSt) (d0 : Dec) (hp : PrevSync pk st)
    (h : Reads d0 (flagOps (headerBits cfg pk) ++ packetBody cfg pk)) :
    (silkCalls cfg cfg.nfpp true st d0).1 =
      packetEvs cfg pk (fun j => ((decAt cfg pk d0 j).rng, tell (decAt cfg pk d0 j))) ∧
    (silkCalls cfg cfg.nfpp true st d0).2.2 = after d0 (flagOps (headerBits cfg pk) ++ packetBody cfg pk) := by
  obtain ⟨k, hk⟩ : ∃ k, cfg.nfpp = k + 1 := ⟨cfg.nfpp - 1, by have := hok.nfpp; omega⟩
  have hbody := packetBody_eq cfg pk k hk
  have hops : flagOps (headerBits cfg pk) ++ packetBody cfg pk =
      flagOps (headerBits cfg pk) ++ headerOps cfg pk ++ (frameCall cfg pk 0 (callSt cfg pk 0)).1 ++
        laterOps cfg pk (List.range' 1 k) := by
    rw [hbody, callOps, if_pos rfl]
    simp only [List.append_assoc]
  rw [hops] at h ⊢
  rw [reads_append, reads_append] at h
  obtain ⟨⟨ha, hb⟩, hc⟩ := h
  rw [after_append, ← decAt_zero] at hc
  rw [after_append, after_append, ← decAt_zero]
  -- first call
  obtain ⟨f0, f1⟩ := Opus.SilkSymsProofs.beginCall_true cfg st
  obtain ⟨a1, a2, a3, _⟩ := decodeHeader_spec hok (beginCall cfg true st) f0 f1 (beginCall_prevSync hp) ha
  rw [← a1] at hb
  have hi0 : 0 < cfg.nfpp := by omega
  obtain ⟨st1, q1, q2, q3⟩ := decodeBody_spec hok hi0 (decodeHeader cfg (beginCall cfg true st) d0)
    (by rw [callSt_zero]; exact a3) (fun _ hh => absurd hh (by decide)) hb
  have hfirst : silkDecodeCall cfg true st d0 =
      (callEvs cfg pk 0 ((decAt cfg pk d0 0).rng, tell (decAt cfg pk d0 0)), st1, decAt cfg pk d0 0) := by
    rw [silkDecodeCall, if_pos f0, q1, a1, a2, ← decAt_zero]
    refine Prod.ext ?_ rfl
    show _ = callEvs cfg pk 0 _
    unfold callEvs
    rw [if_pos rfl]
  rw [hk, silkCalls]
  split
  rename_i e1 st1' c1 he1
  rw [hfirst] at he1
  obtain ⟨rfl, he1'⟩ := Prod.mk.inj he1
  obtain ⟨rfl, rfl⟩ := Prod.mk.inj he1'
  obtain ⟨st2, r⟩ := silkCalls_later hok d0 k 0 st1 (by omega) q2 q3 hc
  split
  rename_i e2 st2' c2 he2
  rw [r] at he2
  obtain ⟨rfl, he2'⟩ := Prod.mk.inj he2
  obtain ⟨rfl, rfl⟩ := Prod.mk.inj he2'
  constructor
  · show _ ++ _ = packetEvs cfg pk _
    unfold packetEvs
    rw [hk, List.range_eq_range', List.range'_succ, List.map_cons, List.flatten_cons]
  · show decAt cfg pk d0 (0 + k) = _
    exact decAt_later cfg pk d0 k 0

end Opus.SilkSymsEncProofs
