import OpusModel.EncDecide
import OpusModel.Framing
/-
  OpusProofs.EncDecide — lemmas about gen_toc, frame_size_select and the decision chain
  (helper lemmas of property C11; the property statements are in OpusProps/C11.lean).
-/
namespace Opus.EncDecide
open Opus Opus.Framing

/-- Replace the named constants of opus_defines.h by their numerals (so that `omega` sees them). -/
macro "consts" : tactic =>
  `(tactic| try simp only [OPUS_AUTO, OPUS_BITRATE_MAX, BW_NB, BW_MB, BW_WB, BW_SWB, BW_FB, MODE_SILK_ONLY,
      MODE_HYBRID, MODE_CELT_ONLY, APP_VOIP, APP_AUDIO, APP_RESTRICTED_LOWDELAY, FRAMESIZE_ARG,
      FRAMESIZE_2_5_MS, FRAMESIZE_40_MS, FRAMESIZE_120_MS, Framing.MODE_CELT_ONLY, Framing.MODE_HYBRID,
      Framing.MODE_SILK_ONLY] at *)

/-! ### gen_toc -/

/-- More fuel than 9 never changes the period (the loop has stopped). -/
theorem tocPeriodAux_fuel (n fr : Nat) (h : 1 ≤ fr) : tocPeriodAux (9 + n) fr = tocPeriodAux 9 fr := by
  have key : ∀ (k m fr : Nat), 400 ≤ fr * 2 ^ k → tocPeriodAux (k + m) fr = tocPeriodAux k fr := by
    intro k
    induction k with
    | zero =>
      intro m fr h
      cases m with
      | zero => rfl
      | succ m =>
        simp only [tocPeriodAux]
        split
        · omega
        · rfl
    | succ k ih =>
      intro m fr h
      have e : k + 1 + m = (k + m) + 1 := by omega
      rw [e]
      simp only [tocPeriodAux]
      split
      · rw [ih m (2 * fr) (by rw [Nat.pow_succ] at h; rw [Nat.mul_comm 2 fr, Nat.mul_assoc, Nat.mul_comm 2 (2 ^ k)]; exact h)]
      · rfl
  exact key 9 n fr (by have : (2:Nat) ^ 9 = 512 := by decide
                       rw [this]; omega)

theorem tocPeriod_le (fr : Nat) : tocPeriod fr ≤ 9 := by
  have key : ∀ (k fr : Nat), tocPeriodAux k fr ≤ k := by
    intro k
    induction k with
    | zero => intro fr; simp [tocPeriodAux]
    | succ k ih =>
      intro fr
      simp only [tocPeriodAux]
      split
      · have := ih (2 * fr); omega
      · omega
  exact key 9 fr

/-- gen_toc depends on `channels` only through `channels == 2`. -/
theorem genToc_ch (m fr bw ch : Int) : genToc m fr bw ch = genToc m fr bw (if ch = 2 then 2 else 1) := by
  unfold genToc
  by_cases h : ch = 2 <;> simp [h]

theorem genToc_lt (m fr bw ch : Int) : genToc m fr bw ch < 256 := by
  unfold genToc
  simp only []
  omega

/-- The stereo bit of the TOC is exactly `channels == 2`. -/
theorem genToc_channels (m fr bw ch : Int) (h : GenTocDom m fr bw) :
    getNbChannels (genToc m fr bw ch) = if ch = 2 then 2 else 1 := by
  unfold GenTocDom at h
  unfold genToc getNbChannels
  generalize tocPeriod fr.toNat = p at *
  consts
  rcases h with ⟨_, h | h | h⟩
  · obtain ⟨rfl, h1, h2, h3, h4⟩ := h
    by_cases hc : ch = 2 <;> simp [hc] <;> omega
  · obtain ⟨rfl, h1, h2, h3⟩ := h
    by_cases hc : ch = 2 <;> simp [hc] <;> omega
  · obtain ⟨rfl, h1, h2, h3, h4⟩ := h
    by_cases hc : ch = 2 <;> simp [hc] <;> omega

/-- The mode bits of the TOC are the mode. -/
theorem genToc_mode (m fr bw ch : Int) (h : GenTocDom m fr bw) :
    (getMode (genToc m fr bw ch) : Int) = m := by
  unfold GenTocDom at h
  unfold genToc getMode
  generalize tocPeriod fr.toNat = p at *
  consts
  rcases h with ⟨_, h | h | h⟩
  · obtain ⟨rfl, h1, h2, h3, h4⟩ := h
    by_cases hc : ch = 2 <;> simp [hc] <;> split <;> (try split) <;> omega
  · obtain ⟨rfl, h1, h2, h3⟩ := h
    by_cases hc : ch = 2 <;> simp [hc] <;> split <;> (try split) <;> omega
  · obtain ⟨rfl, h1, h2, h3, h4⟩ := h
    by_cases hc : ch = 2 <;> simp [hc] <;> split <;> (try split) <;> omega

/-- The bandwidth bits of the TOC: the bandwidth itself, except that the MDCT layer has no
    medium band (NB and MB share a code point, decoded as NB). -/
theorem genToc_bandwidth (m fr bw ch : Int) (h : GenTocDom m fr bw) :
    (getBandwidth (genToc m fr bw ch) : Int) = if m = MODE_CELT_ONLY ∧ bw ≤ BW_MB then BW_NB else bw := by
  unfold GenTocDom at h
  unfold genToc getBandwidth
  generalize tocPeriod fr.toNat = p at *
  consts
  rcases h with ⟨_, h | h | h⟩
  · obtain ⟨rfl, h1, h2, h3, h4⟩ := h
    by_cases hc : ch = 2 <;> simp [hc] <;> split <;> (try split) <;> (try split) <;> omega
  · obtain ⟨rfl, h1, h2, h3⟩ := h
    by_cases hc : ch = 2 <;> by_cases hb : bw ≤ 1102 <;> simp [hc, hb] <;>
      split <;> (try split) <;> (try split) <;> omega
  · obtain ⟨rfl, h1, h2, h3, h4⟩ := h
    by_cases hc : ch = 2 <;> simp [hc] <;> split <;> (try split) <;> (try split) <;> omega

/-! ### Finite tables (checked by kernel evaluation) -/

def rates : List Int := [8000, 12000, 16000, 24000, 48000]
def modes : List Int := [1000, 1001, 1002]
def bands : List Int := [1101, 1102, 1103, 1104, 1105]
/-- Frame sizes one `opus_encode_frame_native` call can get: 2.5, 5, 10, 20, 40, 60 ms. -/
def encSizes (fs : Int) : List Int := [fs / 400, fs / 200, fs / 100, fs / 50, fs / 25, 3 * fs / 50]
/-- Frame sizes `frame_size_select` can return: 2.5 … 120 ms. -/
def apiSizes (fs : Int) : List Int :=
  [fs / 400, fs / 200, fs / 100, fs / 50, fs / 25, 3 * fs / 50, 4 * fs / 50, 5 * fs / 50, 6 * fs / 50]

/-- Which `(mode, frame size)` pairs reach gen_toc: MDCT layers code ≤ 20 ms, SILK ≥ 10 ms,
    hybrid only 10 and 20 ms. -/
def modeSizeOk (m e fs : Int) : Bool :=
  (m = 1002 && decide (e ≤ fs / 50)) || (m = 1001 && (e = fs / 100 || e = fs / 50)) ||
  (m = 1000 && decide (e ≥ fs / 100))
def modeBwOk (m bw : Int) : Bool :=
  (m = 1002) || (m = 1001 && decide (1104 ≤ bw)) || (m = 1000 && decide (bw ≤ 1103))

def spfTable : Bool :=
  rates.all fun fs => (encSizes fs).all fun e => modes.all fun m => bands.all fun bw => [1, 2].all fun ch =>
    !(modeSizeOk m e fs && modeBwOk m bw) ||
      ((samplesPerFrame (genToc m (fs / e) bw ch) fs.toNat : Int) == e && decide (GenTocDom m (fs / e) bw))

theorem spfTable_true : spfTable = true := by decide +kernel

theorem mem_bands {bw : Int} (h1 : 1101 ≤ bw) (h2 : bw ≤ 1105) : bw ∈ bands := by
  simp only [bands, List.mem_cons, List.mem_nil_iff, or_false]; omega
theorem mem_modes {m : Int} (h1 : 1000 ≤ m) (h2 : m ≤ 1002) : m ∈ modes := by
  simp only [modes, List.mem_cons, List.mem_nil_iff, or_false]; omega

/-- gen_toc codes the frame duration: for every legal rate, coded frame size, mode, bandwidth and
    channel count the TOC is in gen_toc's domain and decodes to the frame size. -/
theorem spf_genToc {fs e m bw ch : Int} (hfs : fs ∈ rates) (he : e ∈ encSizes fs) (hm : m ∈ modes)
    (hbw : bw ∈ bands) (hok : modeSizeOk m e fs = true) (hbok : modeBwOk m bw = true) :
    (samplesPerFrame (genToc m (fs / e) bw ch) fs.toNat : Int) = e ∧ GenTocDom m (fs / e) bw := by
  have h := spfTable_true
  simp only [spfTable, List.all_eq_true] at h
  have h1 := h fs hfs e he m hm bw hbw (if ch = 2 then 2 else 1) (by by_cases hc : ch = 2 <;> simp [hc])
  rw [← genToc_ch] at h1
  simpa [hok, hbok] using h1

def splitTable : Bool :=
  rates.all fun fs => (apiSizes fs).all fun f => modes.all fun m =>
    !(m = 1002 || decide (f ≥ fs / 100)) ||
      (let (e, n) := frameSplit m f fs
       (encSizes fs).contains e && modeSizeOk m e fs && n * e == f && decide (1 ≤ n) &&
       decide ((n = 1 ∧ e = f) ∨ n ≠ 1))

theorem splitTable_true : splitTable = true := by decide +kernel

/-- The multi-frame split (:1616-1643) produces frames gen_toc can code, and they add up. -/
theorem frameSplit_spec {fs f m : Int} (hfs : fs ∈ rates) (hf : f ∈ apiSizes fs) (hm : m ∈ modes)
    (hshort : m = 1002 ∨ f ≥ fs / 100) :
    (frameSplit m f fs).1 ∈ encSizes fs ∧ modeSizeOk m (frameSplit m f fs).1 fs = true ∧
    (frameSplit m f fs).2 * (frameSplit m f fs).1 = f ∧ 1 ≤ (frameSplit m f fs).2 := by
  have h := splitTable_true
  simp only [splitTable, List.all_eq_true] at h
  have h1 := h fs hfs f hf m hm
  have : (m = 1002 || decide (f ≥ fs / 100)) = true := by
    rcases hshort with h | h <;> simp [h]
  simp only [this, Bool.not_true, Bool.false_or] at h1
  generalize frameSplit m f fs = r at *
  obtain ⟨e, n⟩ := r
  simp only [Bool.and_eq_true, List.contains_iff_mem, beq_iff_eq, decide_eq_true_eq] at h1
  exact ⟨h1.1.1.1.1, h1.1.1.1.2, h1.1.1.2, h1.1.2⟩

/-- Low-budget packets: the announced frames add up to the requested duration, for every stale
    `(mode, bandwidth, stream_channels)` the state can hold; 100 ms in one byte is the case the
    entry check (:1164) excludes. -/
def lowTable : Bool :=
  rates.all fun fs => (apiSizes fs).all fun f => (0 :: modes).all fun m => (0 :: bands).all fun bw =>
    [1, 2].all fun ch => [true, false].all fun one =>
      (one && fs == f * 10) ||
      (let p := lowBudgetCore fs m bw ch f one
       ((p.frames : Int) * (samplesPerFrame p.toc fs.toNat : Int) == f))

theorem lowTable_true : lowTable = true := by decide +kernel

/-! ### frame_size_select -/

/-- A frame size accepted by `frame_size_select` is one of the nine Opus durations at `fs`,
    and never exceeds the caller's `frame_size`. -/
theorem frameSizeSelect_legal (f vd fs r : Int) (h : frameSizeSelect f vd fs = r) (hr : r ≠ -1) :
    (400 * r = fs ∨ 200 * r = fs ∨ 100 * r = fs ∨ 50 * r = fs ∨ 25 * r = fs ∨ 50 * r = 3 * fs ∨
     50 * r = 4 * fs ∨ 50 * r = 5 * fs ∨ 50 * r = 6 * fs) ∧ r ≤ f := by
  unfold frameSizeSelect at h
  split at h
  · omega
  · simp only [] at h
    split at h
    · omega
    · rename_i newSize _
      split at h
      · omega
      · split at h
        · omega
        · split at h
          · omega
          · subst h; constructor <;> omega

/-- An accepted size is at most 120 ms — tested BEFORE any multiplication (fix 212cbc41), so the
    products `400*new_size` … are formed only for `new_size ≤ 6*Fs/50`. -/
theorem frameSizeSelect_le (f vd fs r : Int) (h : frameSizeSelect f vd fs = r) (hr : r ≠ -1) : r ≤ 6 * fs / 50 := by
  unfold frameSizeSelect at h
  split at h
  · omega
  · simp only [] at h
    split at h
    · omega
    · rename_i newSize _
      split at h
      · omega
      · split at h
        · omega
        · split at h
          · omega
          · omega

theorem apiSizes_of_eq {fs r : Int} (hfs : fs ∈ rates)
    (h : 400 * r = fs ∨ 200 * r = fs ∨ 100 * r = fs ∨ 50 * r = fs ∨ 25 * r = fs ∨ 50 * r = 3 * fs ∨
         50 * r = 4 * fs ∨ 50 * r = 5 * fs ∨ 50 * r = 6 * fs) : r ∈ apiSizes fs := by
  simp only [rates, List.mem_cons, List.mem_nil_iff, or_false] at hfs
  simp only [apiSizes, List.mem_cons, List.mem_nil_iff, or_false]
  rcases hfs with rfl | rfl | rfl | rfl | rfl <;> omega

/-- With `OPUS_FRAMESIZE_ARG` the selected size is the caller's; with a fixed duration it is
    that duration (2.5·2^k ms, or 20·k ms). -/
theorem frameSizeSelect_arg (f fs r : Int) (h : frameSizeSelect f FRAMESIZE_ARG fs = r) (hr : r ≠ -1) : r = f := by
  unfold frameSizeSelect at h
  split at h
  · omega
  · simp only [FRAMESIZE_ARG, ite_true] at h
    split at h
    · omega
    · split at h
      · omega
      · split at h <;> omega

/-- Numerator of the nine Opus frame durations in units of 2.5 ms, by OPUS_FRAMESIZE_* argument. -/
def durNum (vd : Int) : Int := [1, 2, 4, 8, 16, 24, 32, 40, 48].getD (vd - 5001).toNat 0

def fixedSize (vd fs : Int) : Int :=
  if vd ≤ 5005 then (fs / 400) * 2 ^ (vd - 5001).toNat else (vd - 5001 - 2) * fs / 50

def fixedTable : Bool :=
  rates.all fun fs => [5001, 5002, 5003, 5004, 5005, 5006, 5007, 5008, 5009].all fun vd =>
    400 * fixedSize vd fs == fs * durNum vd

theorem fixedTable_true : fixedTable = true := by decide +kernel

theorem frameSizeSelect_fixed (f vd fs r : Int) (hfs : fs ∈ rates) (hvd : 5001 ≤ vd ∧ vd ≤ 5009)
    (h : frameSizeSelect f vd fs = r) (hr : r ≠ -1) : 400 * r = fs * durNum vd ∧ r ≤ f := by
  have ht := fixedTable_true
  simp only [fixedTable, List.all_eq_true, beq_iff_eq] at ht
  have hmem : vd ∈ ([5001, 5002, 5003, 5004, 5005, 5006, 5007, 5008, 5009] : List Int) := by
    simp only [List.mem_cons, List.mem_nil_iff, or_false]; omega
  have ht := ht fs hfs vd hmem
  have key : r = fixedSize vd fs ∧ r ≤ f := by
    unfold frameSizeSelect at h
    consts
    have e1 : ¬ (vd = 5000) := by omega
    split at h
    · omega
    · have e3 : (if vd ≤ 5005 then some (fs / 400 * 2 ^ (vd - 5001).toNat) else some ((vd - 5001 - 2) * fs / 50))
          = some (fixedSize vd fs) := by
        unfold fixedSize; split <;> rfl
      rw [e3] at h
      simp only at h
      split at h
      · omega
      · split at h
        · omega
        · split at h
          · omega
          · exact ⟨h.symm, by omega⟩
  rw [key.1]; exact ⟨ht, by rw [← key.1]; exact key.2⟩

end Opus.EncDecide
