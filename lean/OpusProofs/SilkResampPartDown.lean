import OpusProofs.SilkResampPart
/-
  OpusProofs.SilkResampPartDown — partition independence of the down_FIR batch loop (down_FIR.c:163-187) at
  whole-millisecond cuts: the instance of the generic lemmas of OpusProofs/SilkResampPart.lean.
-/
namespace OpusProofs.SilkResamp
open Opus Opus.SilkResamp Opus.SilkParams Opus.Gen.SilkResampRom

theorem ar2_append (s0 s1 a0 a1 : Int) (x y : List Int) :
    ar2 s0 s1 a0 a1 (x ++ y) =
      ((ar2 (ar2 s0 s1 a0 a1 x).1 (ar2 s0 s1 a0 a1 x).2.1 a0 a1 y).1,
       (ar2 (ar2 s0 s1 a0 a1 x).1 (ar2 s0 s1 a0 a1 x).2.1 a0 a1 y).2.1,
       (ar2 s0 s1 a0 a1 x).2.2 ++ (ar2 (ar2 s0 s1 a0 a1 x).1 (ar2 s0 s1 a0 a1 x).2.1 a0 a1 y).2.2) := by
  induction x generalizing s0 s1 with
  | nil => simp [ar2]
  | cons a x ih => simp only [List.cons_append, ar2, ih]

/-- State of the down_FIR loop: (sIIR[0], sIIR[1], buf[0 .. FIR_Order)). -/
abbrev DSt := Int × Int × List Int

def dnRd (c : Cfg) (a0 a1 : Int) (rest : List Int) (st : DSt) (xs : List Int) : Res (DSt × List Int) :=
  if st.2.2.length = c.firOrder then
    if c.batchSize + c.firOrder < (st.2.2 ++ (ar2 st.1 st.2.1 a0 a1 xs).2.2).length then .oob
    else
      (interpol (downFirSample c.firOrder c.firFracs (a0 :: a1 :: rest) (st.2.2 ++ (ar2 st.1 st.2.1 a0 a1 xs).2.2))
        (lshift32 (xs.length : Int) 16) c.invRatio).bind fun outs =>
      (window (st.2.2 ++ (ar2 st.1 st.2.1 a0 a1 xs).2.2) (xs.length : Int) c.firOrder).bind fun h' =>
      .ok (((ar2 st.1 st.2.1 a0 a1 xs).1, (ar2 st.1 st.2.1 a0 a1 xs).2.1, h'), outs)
  else .ok (st, [])

def dnLp (c : Cfg) (a0 a1 : Int) (rest : List Int) (st : DSt) (xs : List Int) : Res (DSt × List Int) :=
  if st.2.2.length = c.firOrder then
    (downFirLoop c (a0 :: a1 :: rest) st.1 st.2.1 st.2.2 xs).bind fun r => .ok ((r.1, r.2.1, r.2.2.1), r.2.2.2)
  else .ok (st, [])

theorem dnLp_unfold (c : Cfg) (a0 a1 : Int) (rest : List Int) (st : DSt) (xs : List Int) :
    dnLp c a0 a1 rest st xs =
      (dnRd c a0 a1 rest st (xs.take (min xs.length c.batchSize))).bind fun r1 =>
        if 1 < (xs.drop (min xs.length c.batchSize)).length ∧ 0 < min xs.length c.batchSize then
          (dnLp c a0 a1 rest r1.1 (xs.drop (min xs.length c.batchSize))).bind fun r2 => .ok (r2.1, r1.2 ++ r2.2)
        else .ok (r1.1, r1.2) := by
  have hlen : (xs.take (min xs.length c.batchSize)).length = min xs.length c.batchSize := by
    rw [List.length_take]; omega
  by_cases h8 : st.2.2.length = c.firOrder
  · unfold dnLp dnRd
    rw [if_pos h8, if_pos h8, downFirLoop, hlen]
    simp only [window_two]
    by_cases hal : c.batchSize + c.firOrder <
        (st.2.2 ++ (ar2 st.1 st.2.1 a0 a1 (xs.take (min xs.length c.batchSize))).2.2).length
    · rw [if_pos hal, if_pos hal]; rfl
    · rw [if_neg hal, if_neg hal]
      cases interpol (downFirSample c.firOrder c.firFracs (a0 :: a1 :: rest)
            (st.2.2 ++ (ar2 st.1 st.2.1 a0 a1 (xs.take (min xs.length c.batchSize))).2.2))
          (lshift32 ((min xs.length c.batchSize : Nat) : Int) 16) c.invRatio with
      | ok outs =>
        simp only [Res.bind]
        cases hw : window (st.2.2 ++ (ar2 st.1 st.2.1 a0 a1 (xs.take (min xs.length c.batchSize))).2.2)
            ((min xs.length c.batchSize : Nat) : Int) c.firOrder with
        | ok hd =>
          simp only [Res.bind]
          have hdl : hd.length = c.firOrder := by
            unfold window at hw
            split at hw
            · injection hw with hw; rw [← hw, List.length_take, List.length_drop]; omega
            · cases hw
          by_cases hmore : 1 < (xs.drop (min xs.length c.batchSize)).length ∧ 0 < min xs.length c.batchSize
          · rw [dif_pos hmore, if_pos hmore, if_pos hdl]
            cases downFirLoop c (a0 :: a1 :: rest) (ar2 st.1 st.2.1 a0 a1 (xs.take (min xs.length c.batchSize))).1
              (ar2 st.1 st.2.1 a0 a1 (xs.take (min xs.length c.batchSize))).2.1 hd (xs.drop (min xs.length c.batchSize)) <;> rfl
          · rw [dif_neg hmore, if_neg hmore]
        | err e => rfl
        | oob => rfl
        | abort => rfl
      | err e => rfl
      | oob => rfl
      | abort => rfl
  · unfold dnLp dnRd
    rw [if_neg h8, if_neg h8]
    simp only [Res.bind]
    split
    · rfl
    · rfl

theorem dnRd_nil (c : Cfg) (a0 a1 : Int) (rest : List Int) (hinv : 0 < c.invRatio) (st : DSt) :
    dnRd c a0 a1 rest st [] = .ok (st, []) := by
  unfold dnRd
  by_cases h8 : st.2.2.length = c.firOrder
  · rw [if_pos h8]
    simp only [ar2, List.append_nil, List.length_nil]
    rw [if_neg (by omega)]
    have hl : lshift32 ((0 : Nat) : Int) 16 = 0 := by decide
    rw [hl]
    unfold interpol
    rw [if_neg (by omega), interpCount_zero hinv]
    simp only [List.range_zero, mapRes, Res.bind]
    rw [window_ok (by omega) (by simp; omega)]
    simp only [Res.bind]
    have : (st.2.2.drop ((0 : Nat) : Int).toNat).take c.firOrder = st.2.2 :=
      List.take_of_length_le (by simp; omega)
    rw [this]
  · rw [if_neg h8]

theorem downFirSample_congr (order : Nat) (fracs : Int) (coefs buf buf' : List Int) (idx idx' : Int)
    (hw : ∀ n, n ≤ order → window buf (idx / 65536) n = window buf' (idx' / 65536) n)
    (ht : smulwb (idx % 65536) fracs = smulwb (idx' % 65536) fracs) :
    downFirSample order fracs coefs buf idx = downFirSample order fracs coefs buf' idx' := by
  unfold downFirSample
  by_cases h18 : order = 18
  · subst h18; rw [if_pos rfl, if_pos rfl, hw 18 (Nat.le_refl _), ht]
  · rw [if_neg h18, if_neg h18]
    by_cases h24 : order = 24
    · subst h24; rw [if_pos rfl, if_pos rfl]; unfold firSym; rw [hw 24 (Nat.le_refl _)]
    · rw [if_neg h24, if_neg h24]
      by_cases h36 : order = 36
      · subst h36; rw [if_pos rfl, if_pos rfl]; unfold firSym; rw [hw 36 (Nat.le_refl _)]
      · rw [if_neg h36, if_neg h36]

def dnPartFacts (c : Cfg) : Bool :=
  c.fn != useDownFIR ||
  ((List.range 11).all (fun r => interpCount (lshift32 ((r * c.fsIn : Nat) : Int) 16) c.invRatio == r * c.fsOut) &&
   (List.range (9 * c.fsOut)).all (fun i =>
      (((c.fsOut + i : Nat) : Int) * c.invRatio) / 65536 == ((c.fsIn : Nat) : Int) + ((i : Int) * c.invRatio) / 65536 &&
      smulwb ((((c.fsOut + i : Nat) : Int) * c.invRatio) % 65536) c.firFracs ==
        smulwb (((i : Int) * c.invRatio) % 65536) c.firFracs))

theorem cfgTable_dnPartFacts : ∀ c ∈ cfgTable, dnPartFacts c = true := by decide +kernel

theorem dnRd_split (c : Cfg) (a0 a1 : Int) (rest : List Int) (hfn : c.fn = useDownFIR) (hpf : dnPartFacts c = true)
    (hinv : 0 < c.invRatio) (hB : c.batchSize = 10 * c.fsIn) (hfs48 : c.fsIn ≤ 48)
    (st : DSt) (x y : List Int) (r : Nat) (hx : x.length = c.fsIn) (hy : y.length = r * c.fsIn)
    (hr : r + 1 ≤ 10) :
    dnRd c a0 a1 rest st (x ++ y) = seq2 (dnRd c a0 a1 rest st x) (fun s1 => dnRd c a0 a1 rest s1 y) := by
  rcases Nat.decEq st.2.2.length c.firOrder with h8 | h8
  · unfold dnRd seq2
    rw [if_neg h8, if_neg h8]
    simp only [Res.bind]
    rw [if_neg h8]
    rfl
  simp only [dnPartFacts, Bool.or_eq_true, Bool.and_eq_true, bne_iff_ne, ne_eq, List.all_eq_true, List.mem_range,
    beq_iff_eq] at hpf
  obtain ⟨hcnt, hidx⟩ := hpf.resolve_left (fun h => h hfn)
  have hrf : r * c.fsIn + c.fsIn ≤ 10 * c.fsIn := by
    have := Nat.mul_le_mul_right c.fsIn hr; rw [Nat.add_mul, Nat.one_mul] at this; exact this
  have hU1 : (ar2 st.1 st.2.1 a0 a1 x).2.2.length = c.fsIn := by rw [ar2_len, hx]
  have hU2 : (ar2 (ar2 st.1 st.2.1 a0 a1 x).1 (ar2 st.1 st.2.1 a0 a1 x).2.1 a0 a1 y).2.2.length = r * c.fsIn := by
    rw [ar2_len, hy]
  have hm1 := lshift32_small (n := c.fsIn) (s := 16) (Or.inl rfl) (by omega)
  have hm2 := lshift32_small (n := r * c.fsIn) (s := 16) (Or.inl rfl) (by omega)
  have hm12 := lshift32_small (n := c.fsIn + r * c.fsIn) (s := 16) (Or.inl rfl) (by omega)
  have hsum : lshift32 (((x ++ y).length : Nat) : Int) 16 =
      lshift32 ((c.fsIn : Nat) : Int) 16 + lshift32 ((r * c.fsIn : Nat) : Int) 16 := by
    rw [List.length_append, hx, hy, hm1, hm2, hm12]; omega
  have hc1 : interpCount (lshift32 ((c.fsIn : Nat) : Int) 16) c.invRatio = c.fsOut := by
    have := hcnt 1 (by omega); simpa using this
  have hc2 : interpCount (lshift32 ((r * c.fsIn : Nat) : Int) 16) c.invRatio = r * c.fsOut := hcnt r (by omega)
  have hc12 : interpCount (lshift32 ((c.fsIn : Nat) : Int) 16 + lshift32 ((r * c.fsIn : Nat) : Int) 16) c.invRatio =
      c.fsOut + r * c.fsOut := by
    have h := hcnt (r + 1) (by omega)
    have e : (r + 1) * c.fsIn = c.fsIn + r * c.fsIn := by rw [Nat.add_mul, Nat.one_mul, Nat.add_comm]
    have e' : (r + 1) * c.fsOut = c.fsOut + r * c.fsOut := by rw [Nat.add_mul, Nat.one_mul, Nat.add_comm]
    rw [e, e'] at h
    have hs : lshift32 ((c.fsIn + r * c.fsIn : Nat) : Int) 16 =
        lshift32 ((c.fsIn : Nat) : Int) 16 + lshift32 ((r * c.fsIn : Nat) : Int) 16 := by
      rw [hm1, hm2, hm12]; omega
    rw [← hs]; exact h
  let A1 := ar2 st.1 st.2.1 a0 a1 x
  let A2 := ar2 A1.1 A1.2.1 a0 a1 y
  let B1 := st.2.2 ++ A1.2.2
  let h1 := B1.drop c.fsIn
  have hB1 : B1.length = c.firOrder + c.fsIn := by simp only [B1, A1, List.length_append, h8, hU1]
  have hh1 : h1.length = c.firOrder := by simp only [h1, List.length_drop, hB1]; omega
  have hbuf : st.2.2 ++ (A1.2.2 ++ A2.2.2) = B1 ++ A2.2.2 := by simp only [B1, List.append_assoc]
  have hdrop : (B1 ++ A2.2.2).drop c.fsIn = h1 ++ A2.2.2 := List.drop_append_of_le_length (by omega)
  have hA := interpol_split (downFirSample c.firOrder c.firFracs (a0 :: a1 :: rest) (B1 ++ A2.2.2))
    (downFirSample c.firOrder c.firFracs (a0 :: a1 :: rest) B1)
    (downFirSample c.firOrder c.firFracs (a0 :: a1 :: rest) (h1 ++ A2.2.2))
    (lshift32 ((c.fsIn : Nat) : Int) 16) (lshift32 ((r * c.fsIn : Nat) : Int) 16) c.invRatio hinv
    (by rw [hc12, hc1, hc2])
    (by
      intro i hi
      have hlt := idx_lt_max hinv hi
      rw [hm1] at hlt
      have h0 : 0 ≤ (i : Int) * c.invRatio := Int.mul_nonneg (Int.natCast_nonneg i) (Int.le_of_lt hinv)
      apply downFirSample_congr
      · intro n hn
        exact window_append_left (Int.ediv_nonneg h0 (by omega)) (by rw [hB1]; omega)
      · rfl)
    (by
      intro i hi
      rw [hc1]
      rw [hc2] at hi
      have hi9 : i < 9 * c.fsOut := by
        have : r * c.fsOut ≤ 9 * c.fsOut := Nat.mul_le_mul_right _ (by omega)
        omega
      obtain ⟨e1, e2⟩ := hidx i hi9
      have h0 : 0 ≤ (i : Int) * c.invRatio := Int.mul_nonneg (Int.natCast_nonneg i) (Int.le_of_lt hinv)
      apply downFirSample_congr
      · intro n _
        rw [e1, window_drop (Int.ediv_nonneg h0 (by omega)) (by rw [List.length_append, hB1]; omega), hdrop]
      · exact e2)
  have hBw : window (B1 ++ A2.2.2) ((((x ++ y).length : Nat) : Int)) c.firOrder =
      window (h1 ++ A2.2.2) ((y.length : Nat) : Int) c.firOrder := by
    have e : (((x ++ y).length : Nat) : Int) = ((c.fsIn : Nat) : Int) + ((y.length : Nat) : Int) := by
      rw [List.length_append, hx]; omega
    rw [e, window_drop (by omega) (by rw [List.length_append, hB1]; omega), hdrop]
  have hCw : window B1 ((x.length : Nat) : Int) c.firOrder = .ok h1 := by
    rw [window_ok (by omega) (by rw [hB1, hx]; omega)]
    have e : (((x.length : Nat) : Int)).toNat = c.fsIn := by rw [hx]; omega
    rw [e, List.take_of_length_le (l := B1.drop c.fsIn) (Nat.le_of_eq hh1)]
  unfold dnRd seq2
  rw [if_pos h8, if_pos h8, ar2_append]
  show (if c.batchSize + c.firOrder < (st.2.2 ++ (A1.2.2 ++ A2.2.2)).length then Res.oob else
      (interpol (downFirSample c.firOrder c.firFracs (a0 :: a1 :: rest) (st.2.2 ++ (A1.2.2 ++ A2.2.2)))
        (lshift32 (((x ++ y).length : Nat) : Int) 16) c.invRatio).bind fun outs =>
      (window (st.2.2 ++ (A1.2.2 ++ A2.2.2)) (((x ++ y).length : Nat) : Int) c.firOrder).bind fun h' =>
      Res.ok ((A2.1, A2.2.1, h'), outs)) = _
  rw [hbuf]
  rw [if_neg (by rw [List.length_append, hB1]; simp only [A2, A1, hU2, hB]; omega),
    if_neg (by show ¬ (c.batchSize + c.firOrder < B1.length); rw [hB1, hB]; omega)]
  rw [hsum, hA, hBw, hx, hy]
  show _ = ((interpol (downFirSample c.firOrder c.firFracs (a0 :: a1 :: rest) B1) (lshift32 ((c.fsIn : Nat) : Int) 16)
      c.invRatio).bind fun outs =>
      (window B1 ((c.fsIn : Nat) : Int) c.firOrder).bind fun h' => Res.ok ((A1.1, A1.2.1, h'), outs)).bind _
  rw [← hx, hCw, hx]
  cases interpol (downFirSample c.firOrder c.firFracs (a0 :: a1 :: rest) B1) (lshift32 ((c.fsIn : Nat) : Int) 16)
      c.invRatio with
  | ok o1 =>
    simp only [Res.bind]
    rw [if_pos hh1, if_neg (by rw [List.length_append, hh1]; simp only [A2, A1, hU2, hB]; omega)]
    cases interpol (downFirSample c.firOrder c.firFracs (a0 :: a1 :: rest) (h1 ++ A2.2.2))
        (lshift32 ((r * c.fsIn : Nat) : Int) 16) c.invRatio with
    | ok o2 =>
      simp only [Res.bind]
      cases window (h1 ++ A2.2.2) ((r * c.fsIn : Nat) : Int) c.firOrder <;> rfl
    | err e => rfl
    | oob => rfl
    | abort => rfl
  | err e => rfl
  | oob => rfl
  | abort => rfl

/-- down_FIR loop: partition independence at whole-millisecond cuts. -/
theorem dnLp_append (c : Cfg) (a0 a1 : Int) (rest : List Int) (hfn : c.fn = useDownFIR) (hpf : dnPartFacts c = true)
    (hinv : 0 < c.invRatio) (hB : c.batchSize = 10 * c.fsIn) (hfs : 1 < c.fsIn) (hfs48 : c.fsIn ≤ 48) (kx ky : Nat)
    (st : DSt) (x y : List Int) (hx : x.length = kx * c.fsIn) (hy : y.length = ky * c.fsIn) :
    dnLp c a0 a1 rest st (x ++ y) = seq2 (dnLp c a0 a1 rest st x) (fun s1 => dnLp c a0 a1 rest s1 y) :=
  loop_append (dnRd c a0 a1 rest) c.fsIn (dnRd_nil c a0 a1 rest hinv)
    (fun st x y r hx hy hr => dnRd_split c a0 a1 rest hfn hpf hinv hB hfs48 st x y r hx hy hr)
    (dnLp c a0 a1 rest) c.batchSize 1 (dnLp_unfold c a0 a1 rest) (by omega) hB hfs kx ky st x y hx hy

end OpusProofs.SilkResamp
