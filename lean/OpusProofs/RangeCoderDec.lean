import OpusProofs.RangeCoderOps
/-
  OpusProofs.RangeCoderDec — the decoder tracks the encoder's interval (C08, Stage B;
  DESIGN.md §7.C08 invariant D):  `val_d = encLow + rng - 1 - ⌊code · 2^s⌋`.
-/
namespace Opus.RangeCoder

/-- Invariant D: decoder state `d` reading the stream `(B, S)` mirrors encoder state `e`.
    The code value is taken from a second stream `Bt` that agrees with `B` from byte 1 on (it is `B`
    itself except in the proofs about `ec_enc_patch_initial_bits`, where the first bits differ). -/
structure DecInv (B : List Nat) (S : Nat) (e : Enc) (d : Dec) (Bt : List Nat) : Prop where
  buf_eq : d.buf = B
  storage_eq : d.storage = S
  rng_eq : d.rng = e.rng
  nbits_eq : d.nbitsTotal = e.nbitsTotal
  val_eq : d.val + codeVal Bt S (encM e + 4) / 2 + 1 = encLow e + e.rng
  offs_eq : d.offs = min (encM e + 4) S
  rem_eq : d.rem = ((byteAt B S (encM e + 3) : Nat) : Int)

/-- One iteration of `ec_dec_normalize` (entdec.c:104-116). -/
def decStep (d : Dec) : Dec :=
  { (readByte d).2 with nbitsTotal := d.nbitsTotal + 8,
                        rng := u32 (d.rng * 256),
                        rem := ((readByte d).1 : Int),
                        val := (u32 (d.val * 256) + (255 - (d.rem.toNat * 256 + (readByte d).1) / 2 % 256)) % 2147483648 }

theorem decNormalize_step (d : Dec) (h : 0 < d.rng ∧ d.rng ≤ 8388608) :
    decNormalize d = decNormalize (decStep d) := by
  rw [decNormalize]; simp only [h, and_self, dite_true]; rfl

theorem decNormalize_done (d : Dec) (h : ¬ (0 < d.rng ∧ d.rng ≤ 8388608)) : decNormalize d = d := by
  rw [decNormalize]; simp only [h, dite_false]

theorem readByte_spec (B : List Nat) (S : Nat) (d : Dec) (n : Nat) (hb : d.buf = B) (hs : d.storage = S)
    (ho : d.offs = min n S) :
    (readByte d).1 = byteAt B S n ∧ (readByte d).2.offs = min (n + 1) S ∧
    (readByte d).2.buf = B ∧ (readByte d).2.storage = S ∧ (readByte d).2.endOffs = d.endOffs ∧
    (readByte d).2.endWindow = d.endWindow ∧ (readByte d).2.nendBits = d.nendBits ∧
    (readByte d).2.error = d.error ∧ (readByte d).2.ext = d.ext := by
  unfold readByte byteAt
  by_cases h : d.offs < d.storage
  · have h1 : n < S := by omega
    have e : d.offs = n := by omega
    rw [if_pos h, if_pos h1]
    exact ⟨by rw [hb, e], by show d.offs + 1 = _; omega, hb, hs, rfl, rfl, rfl, rfl, rfl⟩
  · have h1 : ¬ n < S := by omega
    rw [if_neg h, if_neg h1]
    exact ⟨rfl, by show d.offs = _; omega, hb, hs, rfl, rfl, rfl, rfl, rfl⟩

theorem byteAt_lt_of_bytesOk {B : List Nat} (hB : BytesOk B) (S i : Nat) : byteAt B S i < 256 := by
  unfold byteAt
  split
  · by_cases h : i < B.length
    · have : B.getD i 0 = B[i] := by simp [List.getD_eq_getElem?_getD, h]
      rw [this]; exact hB _ (List.getElem_mem h)
    · have : B.getD i 0 = 0 := by
        rw [List.getD_eq_getElem?_getD, List.getElem?_eq_none (by omega)]; rfl
      omega
  · omega

/-- One decoder normalisation step mirrors one encoder normalisation step. -/
theorem decStep_spec (B : List Nat) (S : Nat) (hB : ∀ i, byteAt B S i < 256) (e : Enc) (d : Dec)
    (Bt : List Nat) (hag : ∀ i, 1 ≤ i → byteAt Bt S i = byteAt B S i)
    (inv : DecInv B S e d Bt) (hr : e.rng ≤ 8388608)
    (hL : encLow (normStep e) = encLow e * 256) (hR : (normStep e).rng = e.rng * 256)
    (hM : encM (normStep e) = encM e + 1) (hN : (normStep e).nbitsTotal = e.nbitsTotal + 8)
    (hc : Contains Bt S e) (hc' : Contains Bt S (normStep e)) :
    DecInv B S (normStep e) (decStep d) Bt := by
  obtain ⟨ib, is, ir, inb, iv, io, irem⟩ := inv
  obtain ⟨r1, r2, r3, r4, r5, r6, r7, r8, r9⟩ := readByte_spec B S d (encM e + 4) ib is io
  have hb1 := hB (encM e + 4)
  have hb0 := hB (encM e + 3)
  have e4 : encM e + 1 + 4 = (encM e + 4) + 1 := by omega
  have e3 : encM e + 4 = (encM e + 3) + 1 := by omega
  have cv1 : codeVal Bt S (encM e + 4 + 1) = codeVal Bt S (encM e + 4) * 256 + byteAt B S (encM e + 4) := by
    rw [← hag _ (by omega)]; rfl
  have cv0 : codeVal Bt S (encM e + 3 + 1) = codeVal Bt S (encM e + 3) * 256 + byteAt B S (encM e + 3) := by
    rw [← hag _ (by omega)]; rfl
  unfold Contains at hc hc'
  rw [hL, hR, hM, e4, cv1] at hc'
  refine ⟨r3, r4, ?_, ?_, ?_, ?_, ?_⟩
  · show u32 (d.rng * 256) = _
    rw [hR, ir, u32_of_lt (by omega)]
  · show d.nbitsTotal + 8 = _
    rw [hN, inb]
  · rw [hL, hR, hM, e4, cv1]
    show (u32 (d.val * 256) + (255 - (d.rem.toNat * 256 + (readByte d).1) / 2 % 256)) % 2147483648 + _ + 1 = _
    rw [r1, irem]
    have hv : d.val < 8388608 := by omega
    rw [u32_of_lt (by omega)]
    rw [e3, cv0] at iv hc ⊢
    simp only [Int.toNat_natCast]
    generalize codeVal Bt S (encM e + 3) = cv at *
    generalize byteAt B S (encM e + 3) = b0 at *
    generalize byteAt B S (encM e + 3 + 1) = b1 at *
    generalize encLow e = L at *
    omega
  · show (readByte d).2.offs = _
    rw [r2, hM]
  · show ((readByte d).1 : Int) = _
    rw [r1, hM]

/-- `ec_dec_normalize` mirrors a successful `ec_enc_normalize`. -/
theorem decNormalize_spec (B : List Nat) (S : Nat) (hB : ∀ i, byteAt B S i < 256) (e : Enc) (d : Dec)
    (Bt : List Nat) (hag : ∀ i, 1 ≤ i → byteAt Bt S i = byteAt B S i) (hBt : ∀ i, byteAt Bt S i < 256)
    (pre : EncPre e) (inv : DecInv B S e d Bt) (hn : (encNormalize e).nbitsTotal < 4294967296)
    (herr : (encNormalize e).error = 0) (hc : Contains Bt S (encNormalize e)) :
    DecInv B S (encNormalize e) (decNormalize d) Bt := by
  induction hm : 8388609 - e.rng using Nat.strongRecOn generalizing e d with
  | _ m ih =>
    by_cases h : 0 < e.rng ∧ e.rng ≤ 8388608
    · have hd : 0 < d.rng ∧ d.rng ≤ 8388608 := by rw [inv.rng_eq]; exact h
      rw [encNormalize_step e h] at hn herr hc ⊢
      rw [decNormalize_step d hd]
      have hnb := encNormalize_nbits_ge (normStep e)
      have hnb2 : (normStep e).nbitsTotal = e.nbitsTotal + 8 := rfl
      have herr1 : (normStep e).error = 0 := by
        apply Classical.byContradiction; intro hne
        exact encNormalize_error_mono _ hne herr
      obtain ⟨s0, s1, s2, s3, s4, _⟩ := normStep_spec e pre h.2 (by omega) herr1
      obtain ⟨_, _, back1, _⟩ := encNormalize_spec (normStep e) s1 hn herr
      have hc1 : Contains Bt S (normStep e) := back1 Bt S hBt hc
      have hc0 : Contains Bt S e := by
        have hx := encNormalize_spec e pre (by rw [encNormalize_step e h]; exact hn)
          (by rw [encNormalize_step e h]; exact herr)
        exact hx.2.2.1 Bt S hBt (by rw [encNormalize_step e h]; exact hc)
      have dstep := decStep_spec B S hB e d Bt hag inv h.2 s2 s3 s4 hnb2 hc0 hc1
      exact ih (8388609 - (normStep e).rng) (by rw [s3]; omega) (normStep e) (decStep d) s1 dstep hn herr hc rfl
    · have hd : ¬ (0 < d.rng ∧ d.rng ≤ 8388608) := by rw [inv.rng_eq]; exact h
      rw [encNormalize_done e h, decNormalize_done d hd]
      exact inv

end Opus.RangeCoder
