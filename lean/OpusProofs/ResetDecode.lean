import OpusProofs.ResetState
import OpusModel.ResetDecode
/-
  OpusProofs.ResetDecode — the decoder view is a bisimulation for set / get / reset / decode footprint.
-/
namespace Opus.ResetState

/-- `decView a = decView b`, member by member; the gated members as implications. -/
structure DecViewEq (a b : Dec) : Prop where
  celtDecOffset : a.celtDecOffset = b.celtDecOffset
  silkDecOffset : a.silkDecOffset = b.silkDecOffset
  channels : a.channels = b.channels
  fs : a.fs = b.fs
  dcNChannelsAPI : a.dcNChannelsAPI = b.dcNChannelsAPI
  dcApiSampleRate : a.dcApiSampleRate = b.dcApiSampleRate
  dcPrevPitchLag : a.dcPrevPitchLag = b.dcPrevPitchLag
  decodeGain : a.decodeGain = b.decodeGain
  complexity : a.complexity = b.complexity
  arch : a.arch = b.arch
  streamChannels : a.streamChannels = b.streamChannels
  bandwidth : a.bandwidth = b.bandwidth
  mode : a.mode = b.mode
  prevMode : a.prevMode = b.prevMode
  frameSize : a.frameSize = b.frameSize
  prevRedundancy : a.prevRedundancy = b.prevRedundancy
  lastPacketDuration : a.lastPacketDuration = b.lastPacketDuration
  softclipMem : a.softclipMem = b.softclipMem
  rangeFinal : a.rangeFinal = b.rangeFinal
  silkState : a.silkState = b.silkState
  celtState : a.celtState = b.celtState
  celtComplexity : a.celtComplexity = b.celtComplexity
  celtDisableInv : a.celtDisableInv = b.celtDisableInv
  ctlCh : (b.prevMode = MODE_SILK_ONLY ∨ b.prevMode = MODE_HYBRID) → a.dcNChannelsInternal = b.dcNChannelsInternal
  ctlRate : (b.prevMode = MODE_SILK_ONLY ∨ b.prevMode = MODE_HYBRID) → a.dcInternalSampleRate = b.dcInternalSampleRate
  silkApi : b.silkState ≠ .fresh → a.silkNChannelsAPI = b.silkNChannelsAPI
  silkInt : b.silkState ≠ .fresh → a.silkNChannelsInternal = b.silkNChannelsInternal

theorem decViewEq_of_view {a b : Dec} (h : decView a = decView b) : DecViewEq a b := by
  simp only [decView, DecView.mk.injEq] at h
  obtain ⟨h_celtDecOffset, h_silkDecOffset, h_channels, h_fs, h_dcNChannelsAPI, h_dcApiSampleRate, h_dcPrevPitchLag, h_decodeGain, h_complexity, h_arch, h_streamChannels, h_bandwidth, h_mode, h_prevMode, h_frameSize, h_prevRedundancy, h_lastPacketDuration, h_softclipMem, h_rangeFinal, h_silkState, h_celtState, h_celtComplexity, h_celtDisableInv, g_dcNChannelsInternalGated, g_dcInternalSampleRateGated, g_silkNChannelsAPIGated, g_silkNChannelsInternalGated⟩ := h
  refine { celtDecOffset := h_celtDecOffset, silkDecOffset := h_silkDecOffset, channels := h_channels, fs := h_fs, dcNChannelsAPI := h_dcNChannelsAPI, dcApiSampleRate := h_dcApiSampleRate, dcPrevPitchLag := h_dcPrevPitchLag, decodeGain := h_decodeGain, complexity := h_complexity, arch := h_arch, streamChannels := h_streamChannels, bandwidth := h_bandwidth, mode := h_mode, prevMode := h_prevMode, frameSize := h_frameSize, prevRedundancy := h_prevRedundancy, lastPacketDuration := h_lastPacketDuration, softclipMem := h_softclipMem, rangeFinal := h_rangeFinal, silkState := h_silkState, celtState := h_celtState, celtComplexity := h_celtComplexity, celtDisableInv := h_celtDisableInv, ctlCh := ?_, ctlRate := ?_, silkApi := ?_, silkInt := ?_ }
  · intro hp; rw [h_prevMode, if_pos hp, if_pos hp] at g_dcNChannelsInternalGated; exact g_dcNChannelsInternalGated
  · intro hp; rw [h_prevMode, if_pos hp, if_pos hp] at g_dcInternalSampleRateGated; exact g_dcInternalSampleRateGated
  · intro hp; rw [h_silkState, if_neg hp, if_neg hp] at g_silkNChannelsAPIGated; exact g_silkNChannelsAPIGated
  · intro hp; rw [h_silkState, if_neg hp, if_neg hp] at g_silkNChannelsInternalGated; exact g_silkNChannelsInternalGated

theorem decView_of_viewEq {a b : Dec} (h : DecViewEq a b) : decView a = decView b := by
  obtain ⟨h_celtDecOffset, h_silkDecOffset, h_channels, h_fs, h_dcNChannelsAPI, h_dcApiSampleRate, h_dcPrevPitchLag, h_decodeGain, h_complexity, h_arch, h_streamChannels, h_bandwidth, h_mode, h_prevMode, h_frameSize, h_prevRedundancy, h_lastPacketDuration, h_softclipMem, h_rangeFinal, h_silkState, h_celtState, h_celtComplexity, h_celtDisableInv, g1, g2, g3, g4⟩ := h
  simp only [decView, DecView.mk.injEq]
  refine ⟨h_celtDecOffset, h_silkDecOffset, h_channels, h_fs, h_dcNChannelsAPI, h_dcApiSampleRate, h_dcPrevPitchLag, h_decodeGain, h_complexity, h_arch, h_streamChannels, h_bandwidth, h_mode, h_prevMode, h_frameSize, h_prevRedundancy, h_lastPacketDuration, h_softclipMem, h_rangeFinal, h_silkState, h_celtState, h_celtComplexity, h_celtDisableInv, ?_, ?_, ?_, ?_⟩
  · rw [h_prevMode]; split <;> simp_all
  · rw [h_prevMode]; split <;> simp_all
  · rw [h_silkState]; split <;> simp_all
  · rw [h_silkState]; split <;> simp_all

theorem decView_decReset {a b : Dec} (h : decView a = decView b) : decView (decReset a) = decView (decReset b) := by
  have he := decViewEq_of_view h
  refine decView_of_viewEq ?_
  exact { he with bandwidth := rfl, mode := rfl, prevMode := rfl, prevRedundancy := rfl, lastPacketDuration := rfl,
                  softclipMem := rfl, rangeFinal := rfl, celtState := rfl, silkState := rfl,
                  streamChannels := he.channels, frameSize := by simp only [decReset, he.fs], dcPrevPitchLag := rfl,
                  ctlCh := fun hp => by simp [decReset, MODE_SILK_ONLY, MODE_HYBRID] at hp,
                  ctlRate := fun hp => by simp [decReset, MODE_SILK_ONLY, MODE_HYBRID] at hp,
                  silkApi := fun hp => absurd rfl hp, silkInt := fun hp => absurd rfl hp }

theorem decViewEq_dsetApply {a b : Dec} (k : DSetReq) (v : Int) (he : DecViewEq a b) :
    DecViewEq (dsetApply a k v) (dsetApply b k v) := by
  cases k
  case gain => exact { he with decodeGain := rfl }
  case complexity => exact { he with complexity := rfl, celtComplexity := rfl }
  case phaseInversionDisabled => exact { he with celtDisableInv := rfl }

theorem decView_decSet {a b : Dec} (req v : Int) (h : decView a = decView b) :
    (decSet a req v = none ∧ decSet b req v = none) ∨
    (∃ a' b', decSet a req v = some a' ∧ decSet b req v = some b' ∧ decView a' = decView b') := by
  unfold decSet
  cases DSetReq.ofId req with
  | none => exact Or.inl ⟨rfl, rfl⟩
  | some k =>
    by_cases hc : dsetAccept k v = true
    · simp only [hc, if_true]
      exact Or.inr ⟨_, _, rfl, rfl, decView_of_viewEq (decViewEq_dsetApply k v (decViewEq_of_view h))⟩
    · simp only [hc]; exact Or.inl ⟨rfl, rfl⟩

theorem isSilkMode_iff (m : Int) : isSilkMode m = true ↔ (m = MODE_SILK_ONLY ∨ m = MODE_HYBRID) := by
  simp [isSilkMode]

/-- One decode call answers the same on indistinguishable decoders and keeps them indistinguishable. -/
theorem decodeStep_congr (O : DOracles) {a b : Dec} (x : DInp) (h : decView a = decView b) :
    decView (decodeStep O a x).1 = decView (decodeStep O b x).1 ∧ (decodeStep O a x).2 = (decodeStep O b x).2 := by
  have he := decViewEq_of_view h
  unfold decodeStep
  simp only [h]
  have hvr : (decView b).prevRedundancy = b.prevRedundancy := rfl
  have hvm : (decView b).prevMode = b.prevMode := rfl
  simp only [hvr, hvm]
  cases hp : O.path (decView b) x <;> simp only []
  · exact ⟨h, trivial⟩
  · -- concealment
    by_cases hm : (if b.prevRedundancy ≠ 0 then MODE_CELT_ONLY else b.prevMode) = 0
    · simp only [hm, if_true]
      refine ⟨decView_of_viewEq ?_, trivial⟩
      exact { he with lastPacketDuration := rfl }
    · simp only [hm, if_false]
      refine ⟨decView_of_viewEq ?_, trivial⟩
      have hgate : ((if b.prevRedundancy ≠ 0 then MODE_CELT_ONLY else b.prevMode) = MODE_SILK_ONLY ∨
                    (if b.prevRedundancy ≠ 0 then MODE_CELT_ONLY else b.prevMode) = MODE_HYBRID) →
                   (b.prevMode = MODE_SILK_ONLY ∨ b.prevMode = MODE_HYBRID) := by
        intro hg
        by_cases hr : b.prevRedundancy ≠ 0
        · simp [hr, MODE_CELT_ONLY, MODE_SILK_ONLY, MODE_HYBRID] at hg
        · simpa [hr] using hg
      by_cases hr : (O.res (decView b) x).silkRan = true
      · simp only [hr, if_true]
        exact { he with streamChannels := rfl, bandwidth := rfl, mode := rfl, prevMode := rfl, frameSize := rfl, prevRedundancy := rfl, lastPacketDuration := rfl, softclipMem := rfl, rangeFinal := rfl, celtState := rfl, silkState := rfl, dcPrevPitchLag := rfl,
                        ctlCh := fun hg => he.ctlCh (hgate hg), ctlRate := fun hg => he.ctlRate (hgate hg),
                        silkApi := fun _ => rfl, silkInt := fun _ => rfl }
      · simp only [hr]
        exact { he with streamChannels := rfl, bandwidth := rfl, mode := rfl, prevMode := rfl, frameSize := rfl, prevRedundancy := rfl, lastPacketDuration := rfl, softclipMem := rfl, rangeFinal := rfl, celtState := rfl,
                        ctlCh := fun hg => he.ctlCh (hgate hg), ctlRate := fun hg => he.ctlRate (hgate hg) }
  · -- a packet is decoded
    refine ⟨decView_of_viewEq ?_, trivial⟩
    by_cases hw : isSilkMode (O.res (decView b) x).prevMode = true
    · simp only [hw, Bool.or_true, if_true]
      exact { he with streamChannels := rfl, bandwidth := rfl, mode := rfl, prevMode := rfl, frameSize := rfl, prevRedundancy := rfl, lastPacketDuration := rfl, softclipMem := rfl, rangeFinal := rfl, celtState := rfl, silkState := rfl, dcPrevPitchLag := rfl,
                      ctlCh := fun _ => rfl, ctlRate := fun _ => rfl, silkApi := fun _ => rfl, silkInt := fun _ => rfl }
    · have hw' : ¬ ((O.res (decView b) x).prevMode = MODE_SILK_ONLY ∨ (O.res (decView b) x).prevMode = MODE_HYBRID) :=
        fun hg => hw ((isSilkMode_iff _).2 hg)
      by_cases hr : (O.res (decView b) x).silkRan = true
      · simp only [hw, hr, Bool.or_false, if_true]
        exact { he with streamChannels := rfl, bandwidth := rfl, mode := rfl, prevMode := rfl, frameSize := rfl, prevRedundancy := rfl, lastPacketDuration := rfl, softclipMem := rfl, rangeFinal := rfl, celtState := rfl, silkState := rfl, dcPrevPitchLag := rfl,
                        ctlCh := fun hg => absurd hg hw', ctlRate := fun hg => absurd hg hw',
                        silkApi := fun _ => rfl, silkInt := fun _ => rfl }
      · simp only [hw, hr, Bool.or_false]
        exact { he with streamChannels := rfl, bandwidth := rfl, mode := rfl, prevMode := rfl, frameSize := rfl, prevRedundancy := rfl, lastPacketDuration := rfl, softclipMem := rfl, rangeFinal := rfl, celtState := rfl, ctlCh := fun hg => absurd hg hw', ctlRate := fun hg => absurd hg hw' }

theorem runDOp_congr (O : DOracles) {a b : Dec} (op : DOp) (h : decView a = decView b) :
    decView (runDOp O a op).1 = decView (runDOp O b op).1 ∧ (runDOp O a op).2 = (runDOp O b op).2 := by
  cases op with
  | set req v =>
    rcases decView_decSet req v h with ⟨ha, hb⟩ | ⟨a', b', ha, hb, hv⟩
    · simp only [runDOp, ha, hb]; exact ⟨h, trivial⟩
    · simp only [runDOp, ha, hb]; exact ⟨hv, trivial⟩
  | get req => simp only [runDOp, decGet, h]; exact ⟨trivial, trivial⟩
  | reset => exact ⟨decView_decReset h, rfl⟩
  | decode x =>
    have hc := decodeStep_congr O x h
    simp only [runDOp]
    exact ⟨hc.1, by rw [hc.2]⟩

theorem runDec_congr (O : DOracles) (ops : List DOp) :
    ∀ {a b : Dec}, decView a = decView b → runDec O a ops = runDec O b ops := by
  induction ops with
  | nil => intros; rfl
  | cons op rest ih =>
    intro a b h
    have hc := runDOp_congr O op h
    simp only [runDec]
    rw [hc.2, ih hc.1]

/-- Decoder states reachable from `opus_decoder_init`. -/
inductive DReach : Dec → Prop
  | init (fs ch arch so co : Int) : DReach (decInit fs ch arch so co)
  | set {s s' : Dec} (req v : Int) : DReach s → decSet s req v = some s' → DReach s'
  | reset {s : Dec} : DReach s → DReach (decReset s)
  | decode {s : Dec} (O : DOracles) (x : DInp) : DReach s → DReach (decodeStep O s x).1

theorem decInv_dsetApply {s : Dec} (k : DSetReq) (v : Int) (h : DecInv s) : DecInv (dsetApply s k v) := by
  cases k <;> exact ⟨h.api, h.rate⟩

theorem decInv_decodeStep (O : DOracles) {s : Dec} (x : DInp) (h : DecInv s) : DecInv (decodeStep O s x).1 := by
  unfold decodeStep
  simp only []
  repeat' split
  all_goals exact ⟨h.api, h.rate⟩

theorem dreach_inv {s : Dec} (h : DReach s) : DecInv s := by
  induction h with
  | init => exact decInv_init ..
  | set req v _ hs ih =>
    unfold decSet at hs
    split at hs
    · split at hs
      · simp only [Option.some.injEq] at hs; subst hs; exact decInv_dsetApply _ _ ih
      · simp at hs
    · simp at hs
  | reset _ ih => exact decInv_reset ih
  | decode O x _ ih => exact decInv_decodeStep O x ih

theorem decStepCheck_ok {pre post : Dec} {dn : Bool} (hc : decConstSame pre post = true)
    (h : post = pre ∨ concealClaim pre post = true ∨ (dn = false ∧ packetClaim pre post = true)) :
    decStepCheck pre post dn = "ok" := by
  unfold decStepCheck
  simp only [hc, Bool.not_true, Bool.false_eq_true, if_false]
  by_cases h1 : post = pre
  · simp [h1]
  · by_cases h2 : concealClaim pre post = true
    · simp [h1, h2]
    · rcases h with h | h | ⟨hd, hpk⟩
      · exact absurd h h1
      · exact absurd h h2
      · simp [h1, h2, hd, hpk]

/-- The checker used by the correspondence suite accepts everything the footprint can do: whatever the oracles
    answer, the state `decodeStep` produces passes `decStepCheck` (with `dataNull` only when the call did not take
    the packet path).  So a "…-claim-violated" verdict on a real call means the code did something the model cannot. -/
theorem decStepCheck_model (O : DOracles) (s : Dec) (x : DInp) (dataNull : Bool)
    (hn : dataNull = true → O.path (decView s) x ≠ .packet) :
    decStepCheck s (decodeStep O s x).1 dataNull = "ok" := by
  unfold decodeStep
  simp only []
  cases hp : O.path (decView s) x <;> simp only []
  · exact decStepCheck_ok (by simp [decConstSame]) (Or.inl rfl)
  · have hvr : (decView s).prevRedundancy = s.prevRedundancy := rfl
    have hvm : (decView s).prevMode = s.prevMode := rfl
    simp only [hvr, hvm]
    by_cases hm : (if s.prevRedundancy ≠ 0 then MODE_CELT_ONLY else s.prevMode) = 0
    · simp only [hm, if_true]
      exact decStepCheck_ok (by simp [decConstSame]) (Or.inr (Or.inl (by simp [concealClaim, hm])))
    · simp only [hm, if_false]
      refine decStepCheck_ok (by simp [decConstSame]) (Or.inr (Or.inl ?_))
      simp only [concealClaim]
      rw [if_neg hm]
      simp
  · have hd : dataNull = false := by
      cases dataNull with
      | false => rfl
      | true => exact absurd hp (hn rfl)
    refine decStepCheck_ok (by simp [decConstSame]) (Or.inr (Or.inr ⟨hd, ?_⟩))
    by_cases hw : isSilkMode (O.res (decView s) x).prevMode = true
    · simp [packetClaim, hw]
    · simp [packetClaim, hw]

end Opus.ResetState
