import OpusProofs.SilkApiWhole
/-! Proofs for the C01 `SilkApi` slice: every recorded access of silk_Decode is in bounds. -/
namespace Opus.SilkApi

theorem inb_idx {b : String} {i cap : Int} (h0 : 0 ≤ i) (h1 : i < cap) : Acc.InBounds { buf := b, lo := i, n := 1, cap := cap } := by
  simp [Acc.InBounds, Acc.hi]; omega

theorem inb_range {b : String} {n cap : Int} (h0 : 0 ≤ n) (h1 : n ≤ cap) : Acc.InBounds { buf := b, lo := 0, n := n, cap := cap } := by
  simp [Acc.InBounds, Acc.hi]; omega

theorem flagAccs_ok (c : Chan) (flag : Int) (h : c.nFramesPerPacket = 1 ∨ c.nFramesPerPacket = 2 ∨ c.nFramesPerPacket = 3) :
    ∀ x ∈ flagAccs c flag, x.InBounds := by
  intro x hx
  unfold flagAccs at hx
  simp only [List.mem_append, List.mem_singleton] at hx
  rcases hx with rfl | hx
  · exact inb_range (by omega) (by omega)
  · split at hx
    · split at hx
      · simp only [List.mem_singleton] at hx; subst hx; exact inb_range (by omega) (by omega)
      · simp only [List.mem_cons, List.mem_nil_iff, or_false] at hx
        rcases hx with rfl | rfl
        · exact inb_idx (by omega) (by omega)
        · exact inb_range (by omega) (by omega)
    · simp at hx

theorem readFlags_accs {api : Int} (d : Dec) (a : Args) (o : Orc) (h0 : ChanOk api d.ch0)
    (h1 : a.nChannelsInternal = 2 → ChanOk api d.ch1) : ∀ x ∈ (readFlags d a o).2.2, x.InBounds := by
  intro x hx
  unfold readFlags at hx
  split at hx
  · simp only [List.mem_append] at hx
    rcases hx with hx | hx
    · exact flagAccs_ok _ _ h0.2.2.1 x hx
    · split at hx
      · rename_i h2; exact flagAccs_ok _ _ (h1 h2).2.2.1 x hx
      · simp at hx
  · simp at hx

theorem stereoPred_accs (d : Dec) (a : Args) (o : Orc) (h0 : 0 ≤ d.ch0.nFramesDecoded) (h1 : d.ch0.nFramesDecoded < 3) :
    ∀ x ∈ (stereoPred d a o).ac, x.InBounds := by
  intro x hx
  unfold stereoPred at hx
  dsimp only at hx
  split at hx
  · split at hx
    · split at hx
      · simp only [List.mem_append, List.mem_singleton] at hx
        rcases hx with hx | rfl
        · split at hx
          · simp at hx
          · simp only [List.mem_singleton] at hx; subst hx; exact inb_idx h0 h1
        · exact inb_idx h0 h1
      · simp only [List.mem_append, List.mem_singleton] at hx
        rcases hx with hx | rfl
        · split at hx
          · simp at hx
          · simp only [List.mem_singleton] at hx; subst hx; exact inb_idx h0 h1
        · exact inb_idx h0 h1
    · split at hx
      · simp only [List.mem_singleton] at hx; subst hx; exact inb_idx h0 h1
      · simp at hx
  · simp at hx

theorem hasSide_accs (d : Dec) (a : Args) (dom : Int) (h : a.nChannelsInternal = 2 → 0 ≤ d.ch1.nFramesDecoded ∧ d.ch1.nFramesDecoded < 3) :
    ∀ x ∈ (hasSide d a dom).2, x.InBounds := by
  intro x hx
  unfold hasSide at hx
  split at hx
  · simp at hx
  · split at hx
    · simp at hx
    · split at hx
      · rename_i h2
        simp only [List.mem_singleton] at hx; subst hx; exact inb_idx (h h2.1).1 (h h2.1).2
      · simp at hx

theorem pitchLagOut_accs (c : Chan) (h : c.fs_kHz = 8 ∨ c.fs_kHz = 12 ∨ c.fs_kHz = 16) : ∀ x ∈ (pitchLagOut c).2, x.InBounds := by
  intro x hx
  unfold pitchLagOut at hx
  split at hx
  · simp only [List.mem_singleton] at hx; subst hx; exact inb_idx (by omega) (by omega)
  · simp at hx

theorem condCoding_accs (d : Dec) (a : Args) (n : Int) (hn : 0 ≤ n) (h : d.ch0.nFramesDecoded - n < 3) :
    ∀ x ∈ (condCoding d a n).2, x.InBounds := by
  intro x hx
  unfold condCoding at hx
  dsimp only at hx
  split at hx
  · simp at hx
  · split at hx
    · simp only [List.mem_singleton] at hx; subst hx; exact inb_idx (by omega) (by omega)
    · split at hx <;> simp at hx

end Opus.SilkApi
