import OpusProofs.SilkApiWhole
/-! Proofs for the C01 `SilkApi` slice: every recorded access of silk_Decode is in bounds. -/
namespace Opus.SilkApi

theorem inb_idx {b : String} {i cap : Int} (h0 : 0 ≤ i) (h1 : i < cap) : Acc.InBounds { buf := b, lo := i, n := 1, cap := cap } := by
  simp [Acc.InBounds, Acc.hi]; omega

theorem inb_range {b : String} {n cap : Int} (h0 : 0 ≤ n) (h1 : n ≤ cap) : Acc.InBounds { buf := b, lo := 0, n := n, cap := cap } := by
  simp [Acc.InBounds, Acc.hi]; omega

theorem flagAccs_ok (c : Chan) (flag : Int) (h : c.nFramesPerPacket = 1 ∨ c.nFramesPerPacket = 2 ∨ c.nFramesPerPacket = 3) :
    ∀ x ∈ flagAccs c flag, x.InBounds := by
  intro x hx
  unfold flagAccs at hx
  simp only [List.mem_append, List.mem_singleton] at hx
  rcases hx with rfl | hx
  · exact inb_range (by omega) (by omega)
  · split at hx
    · split at hx
      · simp only [List.mem_singleton] at hx; subst hx; exact inb_range (by omega) (by omega)
      · simp only [List.mem_cons, List.mem_nil_iff, or_false] at hx
        rcases hx with rfl | rfl
        · exact inb_idx (by omega) (by omega)
        · exact inb_range (by omega) (by omega)
    · simp at hx

theorem readFlags_accs {api : Int} (d : Dec) (a : Args) (o : Orc) (h0 : ChanOk api d.ch0)
    (h1 : a.nChannelsInternal = 2 → ChanOk api d.ch1) : ∀ x ∈ (readFlags d a o).2.2, x.InBounds := by
  intro x hx
  unfold readFlags at hx
  split at hx
  · simp only [List.mem_append] at hx
    rcases hx with hx | hx
    · exact flagAccs_ok _ _ h0.2.2.1 x hx
    · split at hx
      · rename_i h2; exact flagAccs_ok _ _ (h1 h2).2.2.1 x hx
      · simp at hx
  · simp at hx

theorem stereoPred_accs (d : Dec) (a : Args) (o : Orc) (h0 : 0 ≤ d.ch0.nFramesDecoded) (h1 : d.ch0.nFramesDecoded < 3) :
    ∀ x ∈ (stereoPred d a o).ac, x.InBounds := by
  intro x hx
  unfold stereoPred at hx
  dsimp only at hx
  split at hx
  · split at hx
    · split at hx
      · simp only [List.mem_append, List.mem_singleton] at hx
        rcases hx with hx | rfl
        · split at hx
          · simp at hx
          · simp only [List.mem_singleton] at hx; subst hx; exact inb_idx h0 h1
        · exact inb_idx h0 h1
      · simp only [List.mem_append, List.mem_singleton] at hx
        rcases hx with hx | rfl
        · split at hx
          · simp at hx
          · simp only [List.mem_singleton] at hx; subst hx; exact inb_idx h0 h1
        · exact inb_idx h0 h1
    · split at hx
      · simp only [List.mem_singleton] at hx; subst hx; exact inb_idx h0 h1
      · simp at hx
  · simp at hx

theorem hasSide_accs (d : Dec) (a : Args) (dom : Int) (h : a.nChannelsInternal = 2 → 0 ≤ d.ch1.nFramesDecoded ∧ d.ch1.nFramesDecoded < 3) :
    ∀ x ∈ (hasSide d a dom).2, x.InBounds := by
  intro x hx
  unfold hasSide at hx
  split at hx
  · simp at hx
  · split at hx
    · simp at hx
    · split at hx
      · rename_i h2
        simp only [List.mem_singleton] at hx; subst hx; exact inb_idx (h h2.1).1 (h h2.1).2
      · simp at hx

theorem pitchLagOut_accs (c : Chan) (h : c.fs_kHz = 8 ∨ c.fs_kHz = 12 ∨ c.fs_kHz = 16) : ∀ x ∈ (pitchLagOut c).2, x.InBounds := by
  intro x hx
  unfold pitchLagOut at hx
  split at hx
  · simp only [List.mem_singleton] at hx; subst hx; exact inb_idx (by omega) (by omega)
  · simp at hx

theorem condCoding_accs (d : Dec) (a : Args) (n : Int) (hn : 0 ≤ n) (h : d.ch0.nFramesDecoded - n < 3) :
    ∀ x ∈ (condCoding d a n).2, x.InBounds := by
  intro x hx
  unfold condCoding at hx
  dsimp only at hx
  split at hx
  · simp at hx
  · split at hx
    · simp only [List.mem_singleton] at hx; subst hx; exact inb_idx (by omega) (by omega)
    · split at hx <;> simp at hx

theorem inb_tmp {lo n cap : Int} (hn : 0 < n) (hlo : 0 ≤ lo) (h : lo + n ≤ cap) : Acc.InBounds { buf := "tmp", lo := lo, n := n, cap := cap } := by
  simp [Acc.InBounds, Acc.hi]; omega

theorem frames_accs (d : Dec) (a : Args) (o : Orc) (hs : Bool) (hci : a.nChannelsInternal = 1 ∨ a.nChannelsInternal = 2)
    (hfl : 0 < d.ch0.frame_length) (hfl1 : a.nChannelsInternal = 2 → d.ch1.frame_length = d.ch0.frame_length)
    (h0 : 0 ≤ d.ch0.nFramesDecoded) (h3 : d.ch0.nFramesDecoded < 3) : ∀ x ∈ (frames d a o hs).ac, x.InBounds := by
  intro x hx
  have hc0 := condCoding_accs d a 0 (by omega) (by omega)
  unfold frames at hx
  dsimp only at hx
  split at hx
  · rename_i h2
    have e := hfl1 h2
    split at hx
    · simp only [List.mem_append, List.mem_singleton] at hx
      rcases hx with ((hx | rfl) | hx) | rfl
      · exact hc0 x hx
      · rw [h2]; exact inb_tmp hfl (by omega) (by omega)
      · refine condCoding_accs _ a 1 (by omega) ?_ x hx
        show d.ch0.nFramesDecoded + 1 - 1 < 3; omega
      · rw [h2, e]; exact inb_tmp hfl (by omega) (by omega)
    · simp only [List.mem_append, List.mem_singleton] at hx
      rcases hx with (hx | rfl) | rfl
      · exact hc0 x hx
      · rw [h2]; exact inb_tmp hfl (by omega) (by omega)
      · rw [h2]; exact inb_tmp hfl (by omega) (by omega)
  · have h1 : a.nChannelsInternal = 1 := by omega
    simp only [List.mem_append, List.mem_singleton] at hx
    rcases hx with hx | rfl
    · exact hc0 x hx
    · rw [h1]; exact inb_tmp hfl (by omega) (by omega)

theorem prepReset_facts2 (d : Dec) (a : Args) (h1 : a.nChannelsInternal = 1) (h2 : d.nChannelsInternal = 2) :
    (prepReset d a).1.ch1 = d.ch1 ∧ (prepReset d a).1.ch0.fs_kHz = d.ch0.fs_kHz := by
  have hgt : ¬ a.nChannelsInternal > d.nChannelsInternal := by omega
  by_cases hnew : a.newPacketFlag ≠ 0
  · rw [prepReset_new_le hnew hgt]
    have : ¬ a.nChannelsInternal = 2 := by omega
    rw [if_neg this]
    exact ⟨rfl, rfl⟩
  · rw [prepReset_old (by omega) hgt]
    exact ⟨rfl, rfl⟩

theorem prepStereo_mono (d : Dec) (a : Args) (h1 : a.nChannelsInternal = 1) :
    (prepStereo d a).ch1 = d.ch1 ∧ (prepStereo d a).ch0 = d.ch0 := by
  unfold prepStereo
  have : ¬ (a.nChannelsAPI = 2 ∧ a.nChannelsInternal = 2 ∧ (d.nChannelsAPI = 1 ∨ d.nChannelsInternal = 1)) := by omega
  rw [if_neg this]
  exact ⟨rfl, rfl⟩

/-- stereo_to_mono (:175): channel 1 still carries the resampler of the collapsed stereo stream, at the current rate. -/
theorem prep_sToM {api : Int} {d : Dec} {a : Args} (hI : Inv api d) (hN : d.nChannelsInternal ≤ 2) (hA : ArgsOk api d a)
    (hs : (prep d a).sToM = true) : (prep d a).d.ch1.rsIn = (prep d a).d.ch0.fs_kHz := by
  obtain ⟨ha, hapi, hp, hr, hca, hci, hl, hproto⟩ := hA
  obtain ⟨f1, f2, f3, f4, f5, f6⟩ := prepReset_facts hI hN hci hproto
  rw [prep_eq, if_neg (fun h => h hci)] at hs ⊢
  have key : ∀ c0 : Chan, (c0.fs_kHz = a.internalSampleRate / 1024 + 1 ∨ c0.fs_kHz = (prepReset d a).1.ch0.fs_kHz) →
      decide (a.nChannelsInternal = 1 ∧ (prepReset d a).1.nChannelsInternal = 2 ∧
        a.internalSampleRate = 1000 * (prepReset d a).1.ch0.fs_kHz) = true →
      (prepReset d a).1.ch1.rsIn = c0.fs_kHz := by
    intro c0 hc0 hdec
    obtain ⟨m1, m2, m3⟩ := of_decide_eq_true hdec
    rw [f1] at m2
    obtain ⟨q1, q2⟩ := prepReset_facts2 d a m1 m2
    rw [q2] at m3 hc0
    rw [q1]
    rcases hI with ⟨i0, _⟩ | ⟨i0, i1⟩
    · rw [i0] at m3; exfalso; have : freshChan.fs_kHz = 0 := rfl; omega
    · obtain ⟨j1, j2⟩ := i1 m2
      have e1 : d.ch1.rsIn = d.ch1.fs_kHz := j1.1.2.2.2.2.2.2.2.2.2.1
      have e2 : d.ch1.fs_kHz = d.ch0.fs_kHz := j2.1
      have e3 := i0.1.1
      rcases hc0 with hc0 | hc0 <;> omega
  generalize hd1 : (prepReset d a).1 = d1 at *
  dsimp only at hs ⊢
  by_cases hz : d1.ch0.nFramesDecoded = 0
  · rw [if_pos hz] at hs ⊢
    obtain ⟨c0, e0, g0⟩ := cfgChan_ok ha hapi hp hr f4
    rw [e0] at hs ⊢
    dsimp only at hs ⊢
    by_cases h2 : a.nChannelsInternal = 2
    · exfalso
      rw [if_pos h2] at hs
      obtain ⟨c1, e1, g1⟩ := cfgChan_ok ha hapi hp hr (f5 h2).1
      rw [e1] at hs
      dsimp only at hs
      rw [(step2'_ok ha hapi _ _).2.2.2.2] at hs
      have := (of_decide_eq_true hs).1
      omega
    · have h1 : a.nChannelsInternal = 1 := by omega
      rw [if_neg h2] at hs ⊢
      rw [(step2'_ok ha hapi _ _).2.2.2.2] at hs
      rw [(step2'_ok ha hapi _ _).2.2.2.1, (prepStereo_mono _ a h1).1, (prepStereo_mono _ a h1).2]
      exact key c0 (Or.inl g0.2.2.2.2.1) hs
  · rw [if_neg hz] at hs ⊢
    rw [(step2'_ok ha hapi _ _).2.2.2.2] at hs
    have h1 : a.nChannelsInternal = 1 := (of_decide_eq_true hs).1
    rw [(step2'_ok ha hapi _ _).2.2.2.1, (prepStereo_mono _ a h1).1, (prepStereo_mono _ a h1).2]
    exact key d1.ch0 (Or.inr rfl) hs

theorem readFlags_ch1_mono (d : Dec) (a : Args) (o : Orc) (h1 : a.nChannelsInternal = 1) : (readFlags d a o).1.ch1 = d.ch1 := by
  unfold readFlags
  have : ¬ a.nChannelsInternal = 2 := by omega
  split
  · dsimp only
  · rfl

theorem sideReset_ch1_mono (d : Dec) (a : Args) (dom : Int) (h1 : a.nChannelsInternal = 1) : (sideReset d a dom).1.ch1 = d.ch1 := by
  unfold sideReset
  have : ¬ (a.nChannelsInternal = 2 ∧ dom = 0 ∧ d.prev_decode_only_middle = 1) := by omega
  rw [if_neg this]

theorem frames_ch1_mono (d : Dec) (a : Args) (o : Orc) (hs : Bool) (h1 : a.nChannelsInternal = 1) : (frames d a o hs).d.ch1 = d.ch1 := by
  unfold frames
  have : ¬ a.nChannelsInternal = 2 := by omega
  dsimp only
  rw [if_neg this]

theorem tFr_ch1_mono (p : Prep) (a : Args) (o : Orc) (h1 : a.nChannelsInternal = 1) : (tFr p a o).d.ch1 = p.d.ch1 := by
  unfold tFr tD2 tD1
  rw [frames_ch1_mono _ _ _ _ h1, sideReset_ch1_mono _ _ _ h1, readFlags_ch1_mono _ _ _ h1]

end Opus.SilkApi
