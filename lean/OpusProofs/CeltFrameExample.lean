import OpusProofs.CeltFrameMain
import OpusProofs.CeltHdrExample
/-
  OpusProofs.CeltFrameExample — a concrete whole frame (kernel-evaluated) meeting every hypothesis of the frame round
  trip: the 24-byte 2.5 ms mono CBR frame of OpusProofs/CeltHdrExample.lean continued through fine energy (13 calls),
  eight one-sample bands (sign bits), four N = 2 bands (PVQ indices), one N = 4 band that is split (triangular-PDF theta,
  two PVQ indices) and the finalisation; the packet is filled to the last bit (`ec_tell = 192`).
-/
namespace OpusProofs.CeltHdr.Example
open Opus Opus.RangeCoder Opus.CeltSymsEnc OpusProofs.CeltHdr

def dsF : List Int := ds ++ List.replicate 28 1
def s0F : St := { e := encInit buf 24, ops := [], ds := dsF }
def allF : List Op := match Opus.CeltBandsEnc.encFrame cfg s0F with | .ok f => f.ops | _ => []

def worldF : World :=
  { buf := buf, size := 24, all := allF, hs := by decide, hb := by decide +kernel, hl := by decide +kernel,
    hn := by decide +kernel, herr := by decide +kernel, hn29 := by decide +kernel }

/-- every hypothesis of `frame_roundtrip` holds for this frame -/
theorem hypsF : ∃ fr, Opus.CeltBandsEnc.encFrame cfg s0F = .ok fr ∧ s0F.ops = [] ∧ s0F.e = worldF.encAt [] ∧
    s0F.e.storage = cfg.size ∧ fr.hdr.silence = 0 ∧ worldF.IsPrefix ([] ++ fr.ops) ∧
    worldF.len = fr.hdr.size ∧ worldF.len = cfg.size ∧ tell s0F.e < ((worldF.len * 8 : Nat) : Int) ∧ fr.hdr.pf.on = 0 ∧
    (cfg.start : Int) ≤ fr.hdr.allocInp.intensity ∧ fr.hdr.allocInp.dualStereo = 0 ∧
    fr.ops.length = 75 ∧ tell fr.fin = 192 := by
  have hok : (match Opus.CeltBandsEnc.encFrame cfg s0F with | .ok _ => true | _ => false) = true := by decide +kernel
  cases h : Opus.CeltBandsEnc.encFrame cfg s0F with
  | ok fr =>
    have hall : allF = fr.ops := by unfold allF; rw [h]
    have f1 : (match Opus.CeltBandsEnc.encFrame cfg s0F with
        | .ok f => decide (f.hdr.silence = 0 ∧ f.hdr.size = 24 ∧ f.hdr.pf.on = 0 ∧
            (cfg.start : Int) ≤ f.hdr.allocInp.intensity ∧ f.hdr.allocInp.dualStereo = 0 ∧ f.ops.length = 75 ∧
            tell f.fin = 192)
        | _ => false) = true := by decide +kernel
    rw [h] at f1
    have f1 := of_decide_eq_true f1
    have hlen : worldF.len = 24 := by decide +kernel
    exact ⟨fr, rfl, rfl, rfl, rfl, f1.1, ⟨[], by rw [List.nil_append, List.append_nil]; exact hall⟩,
      by rw [hlen, f1.2.1], hlen, by rw [hlen]; decide +kernel, f1.2.2.1, f1.2.2.2.1, f1.2.2.2.2.1,
      f1.2.2.2.2.2.1, f1.2.2.2.2.2.2⟩
  | err e => rw [h] at hok; cases hok
  | oob => rw [h] at hok; cases hok
  | abort => rw [h] at hok; cases hok

end OpusProofs.CeltHdr.Example
