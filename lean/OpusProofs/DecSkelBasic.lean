import OpusModel.DecSkel.Spec
/-
  OpusProofs.DecSkelBasic — bookkeeping lemmas for the decoder skeleton: `Run` projections,
  `LogGood` under push, sampling-rate arithmetic (`Units`), the frame-level state relation
  `FrameRel`, the bundled run invariant `Good`, and the `silk_Decode` loop.
-/
namespace Opus.DecSkel
open Opus

@[simp] theorem Run.push_st (r : Run) (e : Ev) : (r.push e).st = r.st := rfl
@[simp] theorem Run.push_k (r : Run) (e : Ev) : (r.push e).k = r.k := rfl
@[simp] theorem Run.push_log (r : Run) (e : Ev) : (r.push e).log = e :: r.log := rfl
@[simp] theorem Run.tick_st (r : Run) : r.tick.st = r.st := rfl
@[simp] theorem Run.tick_log (r : Run) : r.tick.log = r.log := rfl
@[simp] theorem Run.tick_k (r : Run) : r.tick.k = r.k + 1 := rfl
@[simp] theorem Run.setSt_st (r : Run) (s : DecState) : (r.setSt s).st = s := rfl
@[simp] theorem Run.setSt_log (r : Run) (s : DecState) : (r.setSt s).log = r.log := rfl
@[simp] theorem Run.setSt_k (r : Run) (s : DecState) : (r.setSt s).k = r.k := rfl
@[simp] theorem Ptr.add_buf (p : Ptr) (n : Int) : (p.add n).buf = p.buf := rfl
@[simp] theorem Ptr.add_cap (p : Ptr) (n : Int) : (p.add n).cap = p.cap := rfl
@[simp] theorem Ptr.add_off (p : Ptr) (n : Int) : (p.add n).off = p.off + n := rfl

theorem LogGood_push {st0 : DecState} {cap0 : Int} {r : Run} {e : Ev} :
    LogGood st0 cap0 (r.push e) ↔ EvGood st0 cap0 e ∧ LogGood st0 cap0 r := by
  simp [LogGood]
theorem LogGood_push' {st0 : DecState} {cap0 : Int} {r : Run} {e : Ev} (h : LogGood st0 cap0 r)
    (he : EvGood st0 cap0 e) : LogGood st0 cap0 (r.push e) := LogGood_push.2 ⟨he, h⟩
@[simp] theorem LogGood_tick {st0 : DecState} {cap0 : Int} {r : Run} : LogGood st0 cap0 r.tick ↔ LogGood st0 cap0 r := Iff.rfl
@[simp] theorem LogGood_setSt {st0 : DecState} {cap0 : Int} {r : Run} {s : DecState} :
    LogGood st0 cap0 (r.setSt s) ↔ LogGood st0 cap0 r := Iff.rfl

@[simp] theorem bindRun_ret {α β : Type} (a : α) (r : Run) (f : α → Run → Out β × Run) :
    bindRun (.ret a, r) f = f a r := rfl
@[simp] theorem bindRun_abort {α β : Type} (r : Run) (f : α → Run → Out β × Run) :
    bindRun ((.abort : Out α), r) f = (.abort, r) := rfl
@[simp] theorem bindRun_hang {α β : Type} (r : Run) (f : α → Run → Out β × Run) :
    bindRun ((.hang : Out α), r) f = (.hang, r) := rfl

/-- C `/` on non-negative operands is Lean's `/`. -/
theorem cdiv_nonneg {a b : Int} (ha : 0 ≤ a) : cdiv a b = a / b := by
  unfold cdiv; exact Int.tdiv_eq_ediv_of_nonneg ha
theorem cmod_nonneg {a b : Int} (ha : 0 ≤ a) : cmod a b = a % b := by
  unfold cmod; exact Int.tmod_eq_emod_of_nonneg ha

/-- The 2.5 ms unit `u` and its multiples at a legal rate. -/
structure Units (st : DecState) (u : Int) : Prop where
  pos : 20 ≤ u
  fs : st.Fs = 400 * u
  f25 : F2_5 st = u
  f5 : F5 st = 2 * u
  f10 : F10 st = 4 * u
  f20 : F20 st = 8 * u
  f120 : st.Fs / 25 * 3 = 48 * u
  u400 : st.Fs / 400 = u
  u200 : st.Fs / 200 = 2 * u
  u100 : st.Fs / 100 = 4 * u
  u50 : st.Fs / 50 = 8 * u
  ms10 : 10 * (st.Fs / 1000) = 4 * u
  ms20 : 20 * (st.Fs / 1000) = 8 * u
  five : u = 20 ∨ u = 30 ∨ u = 40 ∨ u = 60 ∨ u = 120

theorem units_of_fs {st : DecState} (h : FsOk st.Fs) : ∃ u, Units st u := by
  rcases h with h | h | h | h | h
  · exact ⟨20, by constructor <;> simp [F2_5, F5, F10, F20, h]⟩
  · exact ⟨30, by constructor <;> simp [F2_5, F5, F10, F20, h]⟩
  · exact ⟨40, by constructor <;> simp [F2_5, F5, F10, F20, h]⟩
  · exact ⟨60, by constructor <;> simp [F2_5, F5, F10, F20, h]⟩
  · exact ⟨120, by constructor <;> simp [F2_5, F5, F10, F20, h]⟩

theorem Units.congr {s s' : DecState} {u : Int} (h : Units s u) (e : s'.Fs = s.Fs) : Units s' u := by
  have hfs := h.fs; have h5 := h.five; have hp := h.pos
  constructor <;> (try simp only [F2_5, F5, F10, F20, e]) <;> omega

theorem Units.fsOk {s : DecState} {u : Int} (h : Units s u) : FsOk s.Fs := by
  have := h.fs; have := h.five; unfold FsOk; omega

/-! ### frame-level state relation -/

/-- What `opus_decode_frame` leaves alone: everything except `DecControl.{payloadSize_ms,
    internalSampleRate, nChannelsInternal}`, `prev_mode` and `prev_redundancy`; the SILK control
    block, once initialised, stays initialised. -/
structure FrameRel (s s' : DecState) : Prop where
  fs : s'.Fs = s.Fs
  ch : s'.channels = s.channels
  gain : s'.decode_gain = s.decode_gain
  sch : s'.stream_channels = s.stream_channels
  bw : s'.bandwidth = s.bandwidth
  mode : s'.mode = s.mode
  fsz : s'.frame_size = s.frame_size
  lpd : s'.last_packet_duration = s.last_packet_duration
  api : s'.dc.API_sampleRate = s.dc.API_sampleRate
  nca : s'.dc.nChannelsAPI = s.dc.nChannelsAPI
  isr : s.dc.internalSampleRate ≠ 0 → s'.dc.internalSampleRate ≠ 0
  nci : s.dc.nChannelsInternal ≠ 0 → s'.dc.nChannelsInternal ≠ 0

theorem FrameRel.refl (s : DecState) : FrameRel s s := by constructor <;> first | rfl | exact id

theorem FrameRel.trans {a b c : DecState} (h1 : FrameRel a b) (h2 : FrameRel b c) : FrameRel a c := by
  constructor
  · rw [h2.fs, h1.fs]
  · rw [h2.ch, h1.ch]
  · rw [h2.gain, h1.gain]
  · rw [h2.sch, h1.sch]
  · rw [h2.bw, h1.bw]
  · rw [h2.mode, h1.mode]
  · rw [h2.fsz, h1.fsz]
  · rw [h2.lpd, h1.lpd]
  · rw [h2.api, h1.api]
  · rw [h2.nca, h1.nca]
  · exact fun h => h2.isr (h1.isr h)
  · exact fun h => h2.nci (h1.nci h)

/-! ### the bundled invariant of a run -/

/-- The decoder invariant holds, the rate/channel count are those of the reference state `st0`
    (which fixes the sizes of the scratch buffers) and every logged event is good. -/
structure Good (st0 : DecState) (cap0 : Int) (r : Run) : Prop where
  inv : DecInv r.st
  fs : r.st.Fs = st0.Fs
  ch : r.st.channels = st0.channels
  log : LogGood st0 cap0 r

theorem Good.push {st0 : DecState} {cap0 : Int} {r : Run} {e : Ev} (h : Good st0 cap0 r)
    (he : EvGood st0 cap0 e) : Good st0 cap0 (r.push e) :=
  ⟨h.inv, h.fs, h.ch, LogGood_push' h.log he⟩

theorem Good.tick {st0 : DecState} {cap0 : Int} {r : Run} (h : Good st0 cap0 r) : Good st0 cap0 r.tick :=
  ⟨h.inv, h.fs, h.ch, h.log⟩

theorem Good.pushIf {st0 : DecState} {cap0 : Int} {r : Run} {e : Ev} {c : Prop} [Decidable c]
    (h : Good st0 cap0 r) (he : c → EvGood st0 cap0 e) : Good st0 cap0 (if c then r.push e else r) := by
  split
  · exact h.push (he ‹_›)
  · exact h

theorem PtrCapOk.congr {s s' : DecState} {cap0 : Int} {p : Ptr} (h : PtrCapOk s cap0 p)
    (e1 : s'.Fs = s.Fs) (e2 : s'.channels = s.channels) : PtrCapOk s' cap0 p := by
  unfold PtrCapOk at *
  simp only [F10, F5, F20, e1, e2]
  exact h

theorem PtrCapOk.add {s : DecState} {cap0 : Int} {p : Ptr} (h : PtrCapOk s cap0 p) (n : Int) :
    PtrCapOk s cap0 (p.add n) := h

/-! ### the `silk_Decode` loop -/

/-- The arguments `silkLoop` passes to `silk_Decode`. -/
def loopArgs (st : DecState) (lost first : Int) : SilkArgs :=
  { payloadSize_ms := st.dc.payloadSize_ms, internalSampleRate := st.dc.internalSampleRate,
    nChannelsInternal := st.dc.nChannelsInternal, nChannelsAPI := st.dc.nChannelsAPI,
    API_sampleRate := st.dc.API_sampleRate, lostFlag := lost, newPacketFlag := first }

/-- `silk_Decode` frame length for the current control block. -/
def loopN (st : DecState) : Int := (if st.dc.payloadSize_ms = 10 then 10 else 20) * (st.dc.API_sampleRate / 1000)

theorem silkStep_ok {o : Oracle} (ho : OracleOk o) {st0 : DecState} {cap0 : Int} {lost fsz decoded : Int} {p : Ptr}
    {tell : Int} {r : Run}
    (hargs : SilkArgsOk (loopArgs r.st lost 0)) (hroom : p.room (loopN r.st * r.st.dc.nChannelsAPI))
    (hcap : PtrCapOk st0 cap0 p) (hlog : LogGood st0 cap0 r) (htell : 1 ≤ tell) :
    (silkStep o lost fsz decoded p tell r).err = 0 ∧ (silkStep o lost fsz decoded p tell r).n = loopN r.st ∧
    (silkStep o lost fsz decoded p tell r).run.st = r.st ∧ LogGood st0 cap0 (silkStep o lost fsz decoded p tell r).run ∧
    1 ≤ (silkStep o lost fsz decoded p tell r).tell := by
  have hA : SilkArgsOk (loopArgs r.st lost (if decoded = 0 then 1 else 0)) := hargs
  have hc := ho.silk r.k (loopArgs r.st lost (if decoded = 0 then 1 else 0)) hA
  obtain ⟨h1, h2, h3⟩ := hc
  have hn : silkSamples (loopArgs r.st lost (if decoded = 0 then 1 else 0)) = loopN r.st := rfl
  unfold silkStep
  simp only [loopArgs] at h1 h2 h3 hn hA
  simp only [h1, ne_eq, not_true_eq_false, false_and, ↓reduceIte]
  refine ⟨trivial, ?_, rfl, ?_, ?_⟩
  · rw [h2, hn]
  · apply LogGood_push' (by simpa using hlog)
    refine ⟨⟨hA, rfl, ?_, ?_⟩, ?_⟩
    · rw [h2, hn]
    · rw [h2, hn]; exact hroom
    · intro q hq
      simp only [Ev.ptr?, Option.some.injEq] at hq
      subst hq; exact hcap
  · by_cases hl : lost = 1
    · simp only [hl, ↓reduceIte]; exact htell
    · simp only [hl, ↓reduceIte]; exact h3 hl

/-- The `silk_Decode` loop under the oracle contract: `m+1` iterations, each writing one SILK
    frame; all inside the buffer when `m+1` frames fit at `p`. -/
theorem silkLoop_spec {o : Oracle} (ho : OracleOk o) {st0 : DecState} {cap0 : Int} (lost fsz : Int) :
    ∀ (m : Nat) (decoded : Int) (p : Ptr) (tell : Int) (r : Run),
      SilkArgsOk (loopArgs r.st lost 0) → r.st.dc.nChannelsAPI = r.st.channels → 0 < r.st.channels →
      0 < loopN r.st → LogGood st0 cap0 r → PtrCapOk st0 cap0 p → 1 ≤ tell →
      0 ≤ p.off → p.off + (m + 1) * (loopN r.st * r.st.channels) ≤ p.cap →
      fsz - decoded ≤ (m + 1) * loopN r.st → m * loopN r.st < fsz - decoded →
      ∃ tell' r', silkLoop o lost fsz decoded p tell r = (.ret (0, tell'), r') ∧ r'.st = r.st ∧ LogGood st0 cap0 r' ∧
        1 ≤ tell' := by
  intro m
  induction m with
  | zero =>
    intro decoded p tell r hargs hnca hch hn hlog hpc htell hoff hcap hle hlt
    have hroom : p.room (loopN r.st * r.st.dc.nChannelsAPI) := by
      rw [hnca]; refine ⟨hoff, Int.mul_nonneg (Int.le_of_lt hn) (Int.le_of_lt hch), ?_⟩
      simpa using hcap
    obtain ⟨e1, e2, e3, e4, e5⟩ := silkStep_ok ho (fsz := fsz) (decoded := decoded) hargs hroom hpc hlog htell
    rw [silkLoop]
    simp only [e1, ne_eq, not_true_eq_false, ↓reduceIte, e2]
    have : ¬ (decoded + loopN r.st < fsz) := by simp at hle; omega
    simp only [this, ↓reduceDIte]
    exact ⟨_, _, rfl, e3, e4, e5⟩
  | succ m ih =>
    intro decoded p tell r hargs hnca hch hn hlog hpc htell hoff hcap hle hlt
    have hmul : ((m + 1 : Nat) + 1 : Int) * (loopN r.st * r.st.channels)
        = (m + 1 : Int) * (loopN r.st * r.st.channels) + loopN r.st * r.st.channels := by
      rw [Int.add_mul]; simp
    have hmul2 : ((m + 1 : Nat) + 1 : Int) * loopN r.st = (m + 1 : Int) * loopN r.st + loopN r.st := by
      rw [Int.add_mul]; simp
    have hmul3 : ((m + 1 : Nat) : Int) * loopN r.st = (m : Int) * loopN r.st + loopN r.st := by
      push_cast; rw [Int.add_mul]; simp
    have hnn : 0 ≤ (m + 1 : Int) * (loopN r.st * r.st.channels) :=
      Int.mul_nonneg (by omega) (Int.mul_nonneg (Int.le_of_lt hn) (Int.le_of_lt hch))
    have hmn : 0 ≤ (m : Int) * loopN r.st := Int.mul_nonneg (by omega) (Int.le_of_lt hn)
    have hpos : 0 < loopN r.st * r.st.channels := Int.mul_pos hn hch
    have hroom : p.room (loopN r.st * r.st.dc.nChannelsAPI) := by
      rw [hnca]; refine ⟨hoff, Int.le_of_lt hpos, ?_⟩
      rw [hmul] at hcap; omega
    obtain ⟨e1, e2, e3, e4, e5⟩ := silkStep_ok ho (fsz := fsz) (decoded := decoded) hargs hroom hpc hlog htell
    rw [silkLoop]
    simp only [e1, ne_eq, not_true_eq_false, ↓reduceIte, e2]
    have hcont : decoded + loopN r.st < fsz := by rw [hmul3] at hlt; omega
    have hnotle : ¬ loopN r.st ≤ 0 := by omega
    simp only [hcont, ↓reduceDIte, hnotle]
    have := ih (decoded + loopN r.st) (p.add (loopN r.st * r.st.channels)) (silkStep o lost fsz decoded p tell r).tell
      (silkStep o lost fsz decoded p tell r).run
    rw [e3] at this
    obtain ⟨t', r', h1, h2, h3, h4⟩ := this hargs hnca hch hn e4 (hpc.add _) e5 (by simp; omega)
      (by simp only [Ptr.add_off, Ptr.add_cap]; rw [hmul] at hcap; omega)
      (by rw [hmul2] at hle; omega) (by rw [hmul3] at hlt; omega)
    exact ⟨t', r', h1, h2, h3, h4⟩

end Opus.DecSkel
