import OpusProofs.RepackMs
import OpusModel.LayoutSpec
/-
  C07 helper lemmas, part 19: the multistream variants on ARBITRARY byte strings: accepted exactly
  when the bytes are `n-1` self-delimited valid packets followed by one standard valid packet
  (`msSerialize`, the same shape C10 proves for `opus_multistream_packet_validate`), rejected with
  `OPUS_INVALID_PACKET` otherwise.
-/
namespace Opus.RepackProofs
open Opus Opus.Framing Opus.FramingSpec Opus.FramingProofs Opus.Repack Opus.Ext

/-- Same definition as C10's `Opus.LayoutSpec.msSerialize`. -/
theorem msSerialize_eq_layout : ∀ ps : List Packet, msSerialize ps = Opus.LayoutSpec.msSerialize ps
  | [] => rfl
  | [_] => rfl
  | p :: q :: r => by
    show serialize true p ++ msSerialize (q :: r) = serialize true p ++ Opus.LayoutSpec.msSerialize (q :: r)
    rw [msSerialize_eq_layout (q :: r)]

/-- The bytes are `k` valid packets in multistream framing. -/
def MsShape (k : Nat) (data : Bytes) : Prop :=
  ∃ ps : List Packet, ps.length = k ∧ (∀ p ∈ ps, Valid p) ∧ data = msSerialize ps

theorem bytesOk_append_right {a b : Bytes} (h : BytesOk (a ++ b)) : BytesOk b :=
  fun x hx => h x (List.mem_append_right a hx)

/-- One iteration of the stream loop of `opus_multistream_packet_unpad` on a valid first stream. -/
theorem msUnpadLoop_step (k : Nat) (p : Packet) (hv : Valid p) (rest acc : Bytes)
    (hrest : decide (k ≠ 0) = false → rest = []) :
    msUnpadLoop (k + 1) (serialize (decide (k ≠ 0)) p ++ rest) acc =
      msUnpadLoop k rest (acc ++ serialize (decide (k ≠ 0)) (canonPacket p.toc p.frames)) := by
  generalize hsd : decide (k ≠ 0) = sd at hrest ⊢
  simp only [msUnpadLoop]
  rw [hsd]
  have hpos := serialize_length_pos sd p
  have hparse := parse_complete sd p hv rest hrest
  rw [if_neg (by rw [List.length_append]; omega), hparse]
  have hpo : (view sd p).packetOffset = (serialize sd p).length := rfl
  simp only [hpo]
  rw [if_neg (by rw [List.length_append]; omega)]
  rw [List.take_left]
  obtain ⟨rp, hcat, hout⟩ := unpad_stream sd p hv (serialize sd p ++ rest).length (by simp)
  rw [hcat]
  simp only []
  rw [hout]
  simp only [List.drop_left]

/-- Anything that is not `k+1` valid packets in multistream framing is refused with
    `OPUS_INVALID_PACKET`; the loop never reads outside the buffer and trips no assertion. -/
theorem msUnpadLoop_reject : ∀ (k : Nat) (data acc : Bytes), BytesOk data → ¬ MsShape (k + 1) data →
    msUnpadLoop (k + 1) data acc = .err .invalidPacket := by
  intro k
  induction k with
  | zero =>
    intro data acc hb hns
    cases hp : parseImpl false data with
    | ok r =>
      exfalso
      obtain ⟨p, rest, hv, hbs, hr, _⟩ := parse_sound false data hb r hp
      have := hr rfl; subst this
      exact hns ⟨[p], rfl, by simpa using hv, by simpa [msSerialize] using hbs⟩
    | err e =>
      have := parseImpl_err_invalid false data e hp; subst this
      simp only [msUnpadLoop]
      split
      · rfl
      · simp [hp]
    | oob => have := parseImpl_nofault false data; rw [hp] at this; simp [fault] at this
    | abort => have := parseImpl_nofault false data; rw [hp] at this; simp [fault] at this
  | succ k ih =>
    intro data acc hb hns
    cases hp : parseImpl true data with
    | ok r =>
      obtain ⟨p, rest, hv, hbs, _, _⟩ := parse_sound true data hb r hp
      subst hbs
      have hstep := msUnpadLoop_step (k + 1) p hv rest acc (by simp)
      simp only [show decide (k + 1 ≠ 0) = true by simp] at hstep
      rw [hstep]
      apply ih rest _ (bytesOk_append_right hb)
      rintro ⟨ps, hlen, hvs, hrs⟩
      apply hns
      refine ⟨p :: ps, by simp [hlen], ?_, ?_⟩
      · intro q hq
        rcases List.mem_cons.mp hq with rfl | hq
        · exact hv
        · exact hvs q hq
      · rw [msSerialize_cons, hrs]
        have : ps ≠ [] := by intro h; rw [h] at hlen; simp at hlen
        simp [this]
    | err e =>
      have := parseImpl_err_invalid true data e hp; subst this
      simp only [msUnpadLoop]
      split
      · rfl
      · simp [hp]
    | oob => have := parseImpl_nofault true data; rw [hp] at this; simp [fault] at this
    | abort => have := parseImpl_nofault true data; rw [hp] at this; simp [fault] at this

/-- `opus_multistream_packet_unpad` on arbitrary bytes. -/
theorem msUnpad_bytes (bs : Bytes) (hb : BytesOk bs) (n : Nat) (hn : 1 ≤ n) :
    (∀ ps : List Packet, ps.length = n → (∀ p ∈ ps, Valid p) → bs = msSerialize ps →
        msUnpad bs n = .ok (msSerialize (ps.map fun p => canonPacket p.toc p.frames))) ∧
    (bs ≠ [] → ¬ MsShape n bs → msUnpad bs n = .err .invalidPacket) ∧
    (bs = [] → msUnpad bs n = .err .badArg) := by
  refine ⟨?_, ?_, ?_⟩
  · intro ps hlen hv hbs
    have hne : ps ≠ [] := by intro h; rw [h] at hlen; simp at hlen; omega
    rw [hbs, ← hlen]; exact msUnpad_serialize ps hne hv
  · intro hne hns
    unfold msUnpad
    have : ¬ bs.length < 1 := by
      cases bs with
      | nil => exact absurd rfl hne
      | cons => simp
    rw [if_neg this]
    simp only [Int.toNat_natCast]
    obtain ⟨k, rfl⟩ : ∃ k, n = k + 1 := ⟨n - 1, by omega⟩
    exact msUnpadLoop_reject k bs [] hb hns
  · intro h; subst h; rfl

/-! ### multistream pad -/

/-- The bytes start with `k` self-delimited valid packets. -/
def PrefShape (k : Nat) (data : Bytes) : Prop :=
  ∃ (pre : List Packet) (tail : Bytes), pre.length = k ∧ (∀ p ∈ pre, Valid p) ∧
    data = pre.flatMap (serialize true) ++ tail

theorem seekLast_reject : ∀ (k : Nat) (bs : Bytes) (off : Nat), BytesOk bs → ¬ PrefShape k (bs.drop off) →
    seekLast k bs off = .err .invalidPacket := by
  intro k
  induction k with
  | zero => intro bs off _ h; exact absurd ⟨[], bs.drop off, rfl, by simp, by simp⟩ h
  | succ k ih =>
    intro bs off hb hns
    simp only [seekLast]
    split
    · rfl
    · have hbd : BytesOk (bs.drop off) := fun x hx => hb x (List.mem_of_mem_drop hx)
      cases hp : parseImpl true (bs.drop off) with
      | ok r =>
        simp only []
        obtain ⟨p, rest, hv, hbs, _, hview⟩ := parse_sound true (bs.drop off) hbd r hp
        have hpo : r.packetOffset = (serialize true p).length := by rw [hview]; rfl
        rw [hpo]
        apply ih bs _ hb
        have hdrop : bs.drop (off + (serialize true p).length) = rest := by
          rw [← List.drop_drop, hbs, List.drop_left]
        rw [hdrop]
        rintro ⟨pre, tail, hlen, hvs, hrs⟩
        apply hns
        refine ⟨p :: pre, tail, by simp [hlen], ?_, ?_⟩
        · intro q hq
          rcases List.mem_cons.mp hq with rfl | hq
          · exact hv
          · exact hvs q hq
        · rw [hbs, hrs]; simp
      | err e => have := parseImpl_err_invalid true _ e hp; subst this; rfl
      | oob => have := parseImpl_nofault true (bs.drop off); rw [hp] at this; simp [fault] at this
      | abort => have := parseImpl_nofault true (bs.drop off); rw [hp] at this; simp [fault] at this

/-- `opus_multistream_packet_pad` on arbitrary bytes that do not have the multistream shape:
    `OPUS_INVALID_PACKET`, or `OPUS_BAD_ARG` in the one case where the first `n-1` self-delimited packets use
    up the whole buffer (the code then calls `opus_packet_pad` with `len = 0`). -/
theorem msPad_reject (bs : Bytes) (hb : BytesOk bs) (hne : bs ≠ []) (n : Nat) (hn : 1 ≤ n) (newLen : Int)
    (hgt : (bs.length : Int) < newLen) (hns : ¬ MsShape n bs) :
    msPad bs newLen n = .err .invalidPacket ∨
    (msPad bs newLen n = .err .badArg ∧ ∃ pre : List Packet, pre.length = n - 1 ∧ (∀ p ∈ pre, Valid p) ∧
        bs = pre.flatMap (serialize true)) := by
  have hlen : ¬ bs.length < 1 := by
    cases bs with
    | nil => exact absurd rfl hne
    | cons => simp
  unfold msPad
  rw [if_neg hlen, if_neg (by omega), if_neg (by omega)]
  have hk : (((n : Nat) : Int) - 1).toNat = n - 1 := by omega
  rw [hk]
  by_cases hps : PrefShape (n - 1) bs
  · obtain ⟨pre, tail, hplen, hvs, hbs⟩ := hps
    have hs := seekLast_spec pre hvs [] tail
    simp only [List.nil_append, List.length_nil, Nat.zero_add] at hs
    rw [hplen, ← hbs] at hs
    rw [hs]
    simp only []
    rw [if_neg (by rw [hbs]; simp only [List.length_append]; omega)]
    have hdrop : bs.drop (pre.flatMap (serialize true)).length = tail := by rw [hbs, List.drop_left]
    rw [hdrop]
    by_cases ht : tail = []
    · right
      subst ht
      refine ⟨?_, pre, hplen, hvs, by simpa using hbs⟩
      rw [pad_bad_arg [] _ (Or.inl (by simp))]
    · left
      have hbt : BytesOk tail := by rw [hbs] at hb; exact bytesOk_append_right hb
      have hinv : ∀ r, parseImpl false tail ≠ .ok r := by
        intro r hr
        obtain ⟨p, rest, hv, hts, hrr, _⟩ := parse_sound false tail hbt r hr
        have := hrr rfl; subst this
        apply hns
        refine ⟨pre ++ [p], by simp [hplen]; omega, ?_, ?_⟩
        · intro q hq
          rcases List.mem_append.mp hq with hq | hq
          · exact hvs q hq
          · simp at hq; subst hq; exact hv
        · rw [msSerialize_join, hbs, hts]; simp [msJoin]
      rw [pad_invalid tail hbt _ (by omega) ht hinv]
  · left
    rw [seekLast_reject (n - 1) bs 0 hb (by simpa using hps)]

end Opus.RepackProofs
