import OpusModel.LayoutSpec
import OpusProofs.FramingSafe
/-
  OpusProofs.LayoutMs — `opus_multistream_packet_validate` accepts exactly the concatenations of
  one self-delimited packet per stream (the last one in standard framing) of equal duration (C10).
  Built on the C06 soundness / completeness theorems of the packet parser (imported read-only).
  Core tactics only.
-/
namespace Opus.Layout
open Opus Opus.Framing Opus.FramingSpec Opus.FramingProofs Opus.LayoutSpec

/-! ### duration of a serialised packet -/

theorem spf_scale : ∀ toc ∈ List.range 256, ∀ fs ∈ [8000, 12000, 16000, 24000, 48000],
    samplesPerFrame toc fs * (48000 / fs) = frameDur48 toc := by decide +kernel

theorem frameDur48_le : ∀ toc ∈ List.range 256, frameDur48 toc ≤ 2880 := by decide +kernel

theorem rate_mem {fs : Nat} (h : Rate fs) : fs ∈ [8000, 12000, 16000, 24000, 48000] := by
  rcases h with h | h | h | h | h <;> subst h <;> simp

/-- RFC 6716 R5: no valid packet is longer than 120 ms. -/
theorem valid_dur48_le (p : Packet) (hv : Valid p) : p.frames.length * frameDur48 p.toc ≤ 5760 := by
  have h4 : p.toc % 4 < 4 := Nat.mod_lt _ (by decide)
  have hle := frameDur48_le p.toc (List.mem_range.2 hv.toc_byte)
  have hcases : p.code = 0 ∨ p.code = 1 ∨ p.code = 2 ∨ p.code = 3 := by unfold Packet.code; omega
  rcases hcases with hc | hc | hc | hc
  · rw [(hv.code0 hc).1]; omega
  · rw [(hv.code1 hc).1]; omega
  · rw [(hv.code2 hc).1]; omega
  · have := (hv.code3 hc).2.1; rw [Nat.mul_comm]; exact this

theorem valid_frames_lt_64 (p : Packet) (hv : Valid p) : p.frames.length < 64 := by
  have h4 : p.toc % 4 < 4 := Nat.mod_lt _ (by decide)
  have hcases : p.code = 0 ∨ p.code = 1 ∨ p.code = 2 ∨ p.code = 3 := by unfold Packet.code; omega
  rcases hcases with hc | hc | hc | hc
  · rw [(hv.code0 hc).1]; omega
  · rw [(hv.code1 hc).1]; omega
  · rw [(hv.code2 hc).1]; omega
  · obtain ⟨_, h2, _⟩ := hv.code3 hc
    have hge := frameDur48_ge p.toc (List.mem_range.mpr hv.toc_byte)
    apply Decidable.byContradiction; intro hgt
    have : 120 * 64 ≤ frameDur48 p.toc * p.frames.length := Nat.mul_le_mul hge (by omega)
    omega

theorem serialize_shape (sd : Bool) (p : Packet) :
    serialize sd p = p.toc :: ((if p.code = 3 then [countByte p] ++ padHdrOf p else []) ++
      (lenFields sd p).flatMap encLen ++ p.frames.flatten ++ padBytes p) := by
  simp [serialize, header, padHdrOf]
  by_cases hc3 : p.code = 3
  · simp [hc3]; cases p.pad <;> rfl
  · simp [hc3]

/-- The frame-count helper on a serialised valid packet, in either framing. -/
theorem getNbFrames_serialize (sd : Bool) (p : Packet) (hv : Valid p) :
    getNbFrames (serialize sd p) = .ok p.frames.length := by
  have h4 : p.toc % 4 < 4 := Nat.mod_lt _ (by decide)
  have hcases : p.code = 0 ∨ p.code = 1 ∨ p.code = 2 ∨ p.code = 3 := by unfold Packet.code; omega
  rw [serialize_shape]
  unfold getNbFrames
  rcases hcases with hc | hc | hc | hc
  · have : p.toc % 4 = 0 := hc
    simp [this, (hv.code0 hc).1]
  · have : p.toc % 4 = 1 := hc
    simp [this, (hv.code1 hc).1]
  · have : p.toc % 4 = 2 := hc
    simp [this, (hv.code2 hc).1]
  · have h3 : p.toc % 4 = 3 := hc
    simp [h3, hc, countByte_mod p (valid_frames_lt_64 p hv)]

theorem getNbSamples_serialize (sd : Bool) (p : Packet) (hv : Valid p) (fs : Nat) (hfs : Rate fs) :
    getNbSamples (serialize sd p) fs = .ok (duration fs p) := by
  unfold getNbSamples
  rw [getNbFrames_serialize sd p hv]
  have hhead : (serialize sd p).headD 0 = p.toc := by rw [serialize_shape]; rfl
  simp only [hhead]
  have hsc := spf_scale p.toc (List.mem_range.2 hv.toc_byte) fs (rate_mem hfs)
  have hd := valid_dur48_le p hv
  rw [← hsc, ← Nat.mul_assoc] at hd
  unfold duration
  generalize p.frames.length * samplesPerFrame p.toc fs = X at hd ⊢
  have : ¬ X * 25 > fs * 3 := by
    rcases hfs with h | h | h | h | h <;> subst h <;> omega
  rw [if_neg this]

/-! ### one iteration -/

theorem validateStep_complete (fs : Nat) (hfs : Rate fs) (last : Bool) (p : Packet) (hv : Valid p) (rest : Bytes)
    (hrest : last = true → rest = []) :
    validateStep fs last (serialize (!last) p ++ rest) = .ok (duration fs p, (serialize (!last) p).length) := by
  unfold validateStep
  have hne : (serialize (!last) p ++ rest).length ≠ 0 := by
    rw [serialize_shape]; simp
  rw [if_neg hne, parse_complete (!last) p hv rest (by intro h; apply hrest; cases last <;> simp_all)]
  simp only [view, List.take_left', getNbSamples_serialize (!last) p hv fs hfs]

theorem validateStep_sound (fs : Nat) (last : Bool) (data : Bytes) (hb : BytesOk data) (n off : Nat)
    (h : validateStep fs last data = .ok (n, off)) :
    ∃ p rest, Valid p ∧ data = serialize (!last) p ++ rest ∧ (last = true → rest = []) ∧
      off = (serialize (!last) p).length ∧ getNbSamples (serialize (!last) p) fs = .ok n := by
  unfold validateStep at h
  split at h
  · cases h
  · split at h
    · rename_i r hr
      obtain ⟨p, rest, hv, hbs, hrest, hview⟩ := parse_sound (!last) data hb r hr
      subst hview
      refine ⟨p, rest, hv, hbs, by intro hl; apply hrest; simp [hl], ?_⟩
      have htake : List.take (view (!last) p).packetOffset data = serialize (!last) p := by
        rw [hbs]; simp only [view, List.take_left']
      rw [htake] at h
      split at h
      · rename_i k hk
        simp only [Res.ok.injEq, Prod.mk.injEq] at h
        exact ⟨by rw [← h.2]; rfl, by rw [hk, h.1]⟩
      all_goals cases h
    all_goals cases h

theorem bytesOk_append_right {a b : Bytes} (h : BytesOk (a ++ b)) : BytesOk b :=
  fun x hx => h x (List.mem_append_right a hx)

/-! ### the loop -/

theorem getNbSamples_sd_irrelevant (p : Packet) (hv : Valid p) (fs res : Nat) (sd : Bool) :
    getNbSamples (serialize sd p) fs = .ok res ↔ getNbSamples (serialize false p) fs = .ok res := by
  have hh : ∀ sd, (serialize sd p).headD 0 = p.toc := fun sd => by rw [serialize_shape]; rfl
  unfold getNbSamples
  rw [getNbFrames_serialize sd p hv, getNbFrames_serialize false p hv]
  simp only [hh]

theorem validateLoop_sound (fs : Nat) : ∀ (k : Nat) (first : Bool) (samples : Nat) (data : Bytes) (res : Nat),
    BytesOk data → validateLoop fs k first samples data = .ok res →
    (k = 0 ∧ res = samples) ∨
    (0 < k ∧ ∃ ps : List Packet, ps.length = k ∧ (∀ p ∈ ps, Valid p) ∧ data = msSerialize ps ∧
      (∀ p ∈ ps, getNbSamples (serialize false p) fs = .ok res) ∧ (first = false → samples = res))
  | 0, first, samples, data, res, _, h => by
    left; simp only [validateLoop, Res.ok.injEq] at h; exact ⟨rfl, h.symm⟩
  | k + 1, first, samples, data, res, hb, h => by
    right
    refine ⟨by omega, ?_⟩
    unfold validateLoop at h
    split at h
    · rename_i n off hstep
      obtain ⟨p, rest, hv, hdata, hrest, hoff, hns⟩ := validateStep_sound fs (decide (k = 0)) data hb n off hstep
      split at h
      · cases h
      · rename_i hchk
        have hbrest : BytesOk rest := by rw [hdata] at hb; exact bytesOk_append_right hb
        have hdrop : data.drop off = rest := by rw [hdata, hoff]; simp
        rw [hdrop] at h
        have hfirst : first = false → samples = n := by
          intro hf
          apply Decidable.byContradiction; intro hne
          exact hchk ⟨by simp [hf], hne⟩
        rcases validateLoop_sound fs k false n rest res hbrest h with ⟨hk, hres⟩ | ⟨hk, ps, hlen, hval, hser, hdur, hsame⟩
        · subst hk
          have hr : rest = [] := hrest (by simp)
          subst hr hres
          refine ⟨[p], rfl, ?_, ?_, ?_, hfirst⟩
          · intro q hq; simp only [List.mem_singleton] at hq; subst hq; exact hv
          · simpa [msSerialize] using hdata
          · intro q hq; simp only [List.mem_singleton] at hq; subst hq
            simpa using hns
        · have hk0 : decide (k = 0) = false := by simp; omega
          rw [hk0] at hdata hns
          have hnres : n = res := hsame rfl
          subst hnres
          cases ps with
          | nil => simp at hlen; omega
          | cons q qs =>
            refine ⟨p :: q :: qs, by simp at hlen ⊢; omega, ?_, ?_, ?_, hfirst⟩
            · intro x hx
              rcases List.mem_cons.1 hx with e | e
              · subst e; exact hv
              · exact hval x e
            · rw [msSerialize, ← hser]; simpa using hdata
            · intro x hx
              rcases List.mem_cons.1 hx with e | e
              · subst e; exact (getNbSamples_sd_irrelevant x hv fs n true).1 (by simpa using hns)
              · exact hdur x e
    all_goals cases h

theorem validateLoop_complete (fs : Nat) (hfs : Rate fs) : ∀ (ps : List Packet) (first : Bool) (samples res : Nat),
    ps ≠ [] → (∀ p ∈ ps, Valid p) → (∀ p ∈ ps, duration fs p = res) → (first = false → samples = res) →
    validateLoop fs ps.length first samples (msSerialize ps) = .ok res
  | [], _, _, _, h, _, _, _ => absurd rfl h
  | [p], first, samples, res, _, hval, hdur, hsame => by
    have hv := hval p (by simp)
    have hd := hdur p (by simp)
    have hstep := validateStep_complete fs hfs true p hv [] (fun _ => rfl)
    simp only [Bool.not_true, List.append_nil] at hstep
    simp only [List.length_singleton, msSerialize, validateLoop, decide_true, hstep, hd]
    have : ¬ ((!first) = true ∧ samples ≠ res) := by
      intro ⟨h1, h2⟩; exact h2 (hsame (by simpa using h1))
    rw [if_neg this]
  | p :: q :: r, first, samples, res, _, hval, hdur, hsame => by
    have hv := hval p (by simp)
    have hd := hdur p (by simp)
    have hstep := validateStep_complete fs hfs false p hv (msSerialize (q :: r)) (fun h => by cases h)
    simp only [Bool.not_false] at hstep
    have hk : decide ((q :: r).length = 0) = false := by simp
    rw [show (p :: q :: r).length = (q :: r).length + 1 from rfl, msSerialize, validateLoop, hk, hstep, hd]
    simp only
    have : ¬ ((!first) = true ∧ samples ≠ res) := by
      intro ⟨h1, h2⟩; exact h2 (hsame (by simpa using h1))
    rw [if_neg this]
    simp only [List.drop_left']
    exact validateLoop_complete fs hfs (q :: r) false res res (by simp)
      (fun x hx => hval x (List.mem_cons_of_mem _ hx)) (fun x hx => hdur x (List.mem_cons_of_mem _ hx)) (fun _ => rfl)

/-! ### no read outside the packet -/

theorem getNbFrames_nofault (bs : Bytes) : fault (getNbFrames bs) = false := by
  unfold getNbFrames
  cases bs with
  | nil => rfl
  | cons toc rest =>
    simp only
    split
    · rfl
    · split
      · rfl
      · cases rest <;> rfl

theorem getNbSamples_nofault (bs : Bytes) (fs : Nat) : fault (getNbSamples bs fs) = false := by
  have h := getNbFrames_nofault bs
  unfold getNbSamples
  cases hq : getNbFrames bs with
  | ok c => simp only; split <;> rfl
  | err e => rfl
  | oob => rw [hq] at h; cases h
  | abort => rw [hq] at h; cases h

theorem validateStep_nofault (fs : Nat) (last : Bool) (data : Bytes) : fault (validateStep fs last data) = false := by
  unfold validateStep
  split
  · rfl
  · have hp := parseImpl_nofault (!last) data
    split
    · rename_i r _
      have hg := getNbSamples_nofault (data.take r.packetOffset) fs
      split
      · rfl
      · rfl
      · rename_i h; rw [h] at hg; cases hg
      · rename_i h; rw [h] at hg; cases hg
    · rfl
    · rename_i h; rw [h] at hp; cases hp
    · rename_i h; rw [h] at hp; cases hp

theorem validateLoop_nofault (fs : Nat) : ∀ (k : Nat) (first : Bool) (samples : Nat) (data : Bytes),
    fault (validateLoop fs k first samples data) = false
  | 0, _, _, _ => rfl
  | k + 1, first, samples, data => by
    unfold validateLoop
    have hs := validateStep_nofault fs (decide (k = 0)) data
    split
    · split
      · rfl
      · exact validateLoop_nofault fs k false _ _
    · rfl
    · rename_i h; rw [h] at hs; cases hs
    · rename_i h; rw [h] at hs; cases hs

/-! ### minimal length -/

theorem valid_frames_pos (p : Packet) (hv : Valid p) : 1 ≤ p.frames.length := by
  have h4 : p.toc % 4 < 4 := Nat.mod_lt _ (by decide)
  have hcases : p.code = 0 ∨ p.code = 1 ∨ p.code = 2 ∨ p.code = 3 := by unfold Packet.code; omega
  rcases hcases with hc | hc | hc | hc
  · rw [(hv.code0 hc).1]; omega
  · rw [(hv.code1 hc).1]; omega
  · rw [(hv.code2 hc).1]; omega
  · exact (hv.code3 hc).1

/-- A self-delimited packet is at least two bytes (TOC + a length), a standard one at least one. -/
theorem serialize_length_ge (sd : Bool) (p : Packet) (hv : Valid p) :
    (if sd then 2 else 1) ≤ (serialize sd p).length := by
  cases sd
  · rw [serialize_shape]; simp
  · have hpos := valid_frames_pos p hv
    have hl : ∃ x, p.lens.getLast? = some x := by
      cases hq : p.lens.getLast? with
      | some x => exact ⟨x, rfl⟩
      | none =>
        rw [List.getLast?_eq_none_iff] at hq
        have h := congrArg List.length hq
        simp only [Packet.lens, List.length_map, List.length_nil] at h
        omega
    obtain ⟨x, hx⟩ := hl
    have h1 : 1 ≤ ((lenFields true p).flatMap encLen).length := by
      unfold lenFields
      simp only [if_true, hx, Option.toList_some, List.flatMap_append, List.flatMap_cons, List.flatMap_nil,
        List.append_nil, List.length_append]
      have := encLen_length_pos x
      omega
    rw [serialize_shape]
    simp only [List.length_cons, List.length_append, if_true]
    omega

theorem msSerialize_length_ge : ∀ (ps : List Packet), ps ≠ [] → (∀ p ∈ ps, Valid p) →
    2 * ps.length - 1 ≤ (msSerialize ps).length
  | [], h, _ => absurd rfl h
  | [p], _, hv => by
    have := serialize_length_ge false p (hv p (by simp))
    simp only [msSerialize, List.length_singleton] at this ⊢; simpa using this
  | p :: q :: r, _, hv => by
    have h1 := serialize_length_ge true p (hv p (by simp))
    have h2 := msSerialize_length_ge (q :: r) (by simp) (fun x hx => hv x (List.mem_cons_of_mem _ hx))
    simp only [msSerialize, List.length_append, List.length_cons, if_true] at h1 h2 ⊢
    omega

end Opus.Layout
