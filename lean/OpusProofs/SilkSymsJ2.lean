import OpusProofs.SilkSymsJ
import OpusProofs.SilkSymsHistory
/-
  C03: `J` through `silk_Decode`, the payload loop and the redundancy header — the range-decoder state that
  `opus_decode_frame` hands to the CELT decoder in a hybrid frame satisfies `J`, whatever the bytes are.
-/
namespace Opus.SilkSymsProofs
open Opus Opus.RangeCoder Opus.SilkSyms Opus.SilkSymsFrozen.Icdf
open Opus.CeltSymsProofs (J J_bitLogp J_uint J_decInit)

theorem stereoIxG_J (tj t3 t5 : List Nat) (hj' : Runs tj) (h3' : Runs t3) (h5' : Runs t5) (c : Dec) (hj : J c) :
    J (stereoIxG tj t3 t5 c).2 := by
  unfold stereoIxG
  have h1 := J_sym c hj _ hj'
  generalize sym c tj = y at h1
  obtain ⟨n, c1⟩ := y
  dsimp only at h1 ⊢
  have h2 := J_sym c1 h1 _ h3'
  generalize sym c1 t3 = y at h2
  obtain ⟨a0, c2⟩ := y
  dsimp only at h2 ⊢
  have h3 := J_sym c2 h2 _ h5'
  generalize sym c2 t5 = y at h3
  obtain ⟨a1, c3⟩ := y
  dsimp only at h3 ⊢
  have h4 := J_sym c3 h3 _ h3'
  generalize sym c3 t3 = y at h4
  obtain ⟨b0, c4⟩ := y
  dsimp only at h4 ⊢
  have h5 := J_sym c4 h4 _ h5'
  generalize sym c4 t5 = y at h5
  obtain ⟨b1, c5⟩ := y
  exact h5

theorem stereoDecodePredG_J (tj t3 t5 : List Nat) (hj' : Runs tj) (h3' : Runs t3) (h5' : Runs t5) (c : Dec) (hj : J c) :
    J (stereoDecodePredG tj t3 t5 c).2 := by
  unfold stereoDecodePredG
  have h := stereoIxG_J tj t3 t5 hj' h3' h5' c hj
  generalize stereoIxG tj t3 t5 c = y at h
  obtain ⟨⟨n, a0, a1, b0, b1⟩, c5⟩ := y
  exact h

theorem stereoDecodePred_J (c : Dec) (hj : J c) : J (stereoDecodePred c).2 :=
  stereoDecodePredG_J _ _ _ rr_silk_stereo_pred_joint_iCDF rr_silk_uniform3_iCDF rr_silk_uniform5_iCDF c hj

theorem stereoDecodeMidOnly_J (c : Dec) (hj : J c) : J (stereoDecodeMidOnly c).2 :=
  J_sym c hj _ rr_silk_stereo_only_code_mid_iCDF

theorem decodeVadFlags_J : ∀ (n : Nat) (c : Dec), J c → J (decodeVadFlags n c).2
  | 0, c, hj => by unfold decodeVadFlags; exact hj
  | n + 1, c, hj => by
    unfold decodeVadFlags
    have h1 := (J_bitLogp c hj 1 (by omega) (by omega)).1
    generalize decBitLogp c 1 = y at h1
    obtain ⟨b, c1⟩ := y
    dsimp only at h1 ⊢
    have h2 := decodeVadFlags_J n c1 h1
    generalize decodeVadFlags n c1 = y at h2
    obtain ⟨bs, c2⟩ := y
    exact h2

theorem decodeLbrrFlags_J (nfpp lf : Nat) (c : Dec) (hj : J c) : J (decodeLbrrFlags nfpp lf c).2 := by
  unfold decodeLbrrFlags
  split
  · exact hj
  · split
    · exact hj
    · have h1 := J_sym c hj _ (runs_lbrr (nfpp - 2))
      generalize sym c ([silk_LBRR_flags_2_iCDF, silk_LBRR_flags_3_iCDF].getD (nfpp - 2) []) = y at h1
      obtain ⟨s, c1⟩ := y
      exact h1

theorem decodeChanFlags_J (nfpp : Nat) (c : Dec) (hj : J c) : J (decodeChanFlags nfpp c).2.2 := by
  unfold decodeChanFlags
  have h1 := decodeVadFlags_J nfpp c hj
  generalize decodeVadFlags nfpp c = y at h1
  obtain ⟨v, c1⟩ := y
  dsimp only at h1 ⊢
  have h2 := (J_bitLogp c1 h1 1 (by omega) (by omega)).1
  generalize decBitLogp c1 1 = y at h2
  obtain ⟨l, c2⟩ := y
  exact h2

theorem decodeOneCore_J (cfg : Cfg) (n fi lb cc : Nat) (v : Bool) (ps : Nat) (pl : Int) (c : Dec) (hj : J c) :
    J (decodeOneCore cfg n fi lb cc v ps pl c).2.2 := by
  unfold decodeOneCore
  have h1 := decodeIndices_J cfg.rate cfg.nbSubfr v cc ps pl c hj
  generalize decodeIndices cfg.rate cfg.nbSubfr v cc ps pl c = y at h1
  obtain ⟨ix, c1⟩ := y
  dsimp only at h1 ⊢
  have h2 := decodePulses_J ix.signalType ix.quantOffsetType (frameLength cfg.rate cfg.nbSubfr) c1 h1
  generalize decodePulses ix.signalType ix.quantOffsetType (frameLength cfg.rate cfg.nbSubfr) c1 = y at h2
  obtain ⟨pu, c2⟩ := y
  exact h2

theorem decodeOne_J (cfg : Cfg) (n fi lb cc : Nat) (ch : Chan) (c : Dec) (hj : J c) :
    J (decodeOne cfg n fi lb cc ch c).2.2 := by
  unfold decodeOne
  have h1 := decodeOneCore_J cfg n fi lb cc (decide (lb ≠ 0 ∨ ch.vad.getD fi 0 ≠ 0))
    (if cc = 2 then ch.ecPrevSignalType else 0) (if cc = 2 ∧ ch.ecPrevSignalType = 2 then ch.ecPrevLagIndex else 0) c hj
  generalize decodeOneCore cfg n fi lb cc (decide (lb ≠ 0 ∨ ch.vad.getD fi 0 ≠ 0))
    (if cc = 2 then ch.ecPrevSignalType else 0) (if cc = 2 ∧ ch.ecPrevSignalType = 2 then ch.ecPrevLagIndex else 0) c = y at h1
  obtain ⟨evs, ix, c2⟩ := y
  exact h1

theorem skipStereoG_J (P : Dec → StereoPred × Dec) (M : Dec → Nat × Dec) (hP : ∀ c, J c → J (P c).2)
    (hM : ∀ c, J c → J (M c).2) (cfg : Cfg) (i n : Nat) (s : SkipSt) (hj : J s.c) : J (skipStereoG P M cfg i n s).c := by
  unfold skipStereoG
  split
  · have h1 := hP s.c hj
    generalize P s.c = y at h1
    obtain ⟨p, c1⟩ := y
    dsimp only at h1 ⊢
    split
    · have h2 := hM c1 h1
      generalize M c1 = z at h2
      obtain ⟨m, c2⟩ := z
      exact h2
    · exact h1
  · exact hj

theorem skipOne_J (cfg : Cfg) (i n : Nat) (s : SkipSt) (hj : J s.c) : J (skipOne cfg i n s).c := by
  unfold skipOne
  split
  · unfold skipStereo
    have h1 := skipStereoG_J stereoDecodePred stereoDecodeMidOnly stereoDecodePred_J stereoDecodeMidOnly_J cfg i n s hj
    generalize skipStereoG stereoDecodePred stereoDecodeMidOnly cfg i n s = t at h1
    have h2 := decodeOne_J cfg n i 1 (if i > 0 ∧ (s.st.ch n).lbrrFlags.getD (i - 1) 0 ≠ 0 then 2 else 0) (t.st.ch n) t.c h1
    generalize decodeOne cfg n i 1 (if i > 0 ∧ (s.st.ch n).lbrrFlags.getD (i - 1) 0 ≠ 0 then 2 else 0) (t.st.ch n) t.c = y at h2
    obtain ⟨evs, ch', c1⟩ := y
    exact h2
  · exact hj

theorem skipChans_J (cfg : Cfg) (i : Nat) : ∀ (ns : List Nat) (s : SkipSt), J s.c → J (skipChans cfg i ns s).c
  | [], s, hj => by unfold skipChans; exact hj
  | n :: ns, s, hj => by unfold skipChans; exact skipChans_J cfg i ns _ (skipOne_J cfg i n s hj)

theorem skipFrames_J (cfg : Cfg) : ∀ (is : List Nat) (s : SkipSt), J s.c → J (skipFrames cfg is s).c
  | [], s, hj => by unfold skipFrames; exact hj
  | i :: is, s, hj => by unfold skipFrames; exact skipFrames_J cfg is _ (skipChans_J cfg i _ s hj)

theorem decodeFlagsMono_J (cfg : Cfg) (st : SilkSt) (c : Dec) (hj : J c) : J (decodeFlagsMono cfg st c).c := by
  unfold decodeFlagsMono
  have h1 := decodeChanFlags_J cfg.nfpp c hj
  generalize decodeChanFlags cfg.nfpp c = y at h1
  obtain ⟨v0, l0, c1⟩ := y
  dsimp only at h1 ⊢
  have h2 := decodeLbrrFlags_J cfg.nfpp l0 c1 h1
  generalize decodeLbrrFlags cfg.nfpp l0 c1 = z at h2
  obtain ⟨f0, c2⟩ := z
  exact h2

theorem decodeFlagsStereo_J (cfg : Cfg) (st : SilkSt) (c : Dec) (hj : J c) : J (decodeFlagsStereo cfg st c).c := by
  unfold decodeFlagsStereo
  have h1 := decodeChanFlags_J cfg.nfpp c hj
  generalize decodeChanFlags cfg.nfpp c = y at h1
  obtain ⟨v0, l0, c1⟩ := y
  dsimp only at h1 ⊢
  have h1' := decodeChanFlags_J cfg.nfpp c1 h1
  generalize decodeChanFlags cfg.nfpp c1 = y at h1'
  obtain ⟨v1, l1, c2⟩ := y
  dsimp only at h1' ⊢
  have h2 := decodeLbrrFlags_J cfg.nfpp l0 c2 h1'
  generalize decodeLbrrFlags cfg.nfpp l0 c2 = z at h2
  obtain ⟨f0, c3⟩ := z
  dsimp only at h2 ⊢
  have h3 := decodeLbrrFlags_J cfg.nfpp l1 c3 h2
  generalize decodeLbrrFlags cfg.nfpp l1 c3 = z at h3
  obtain ⟨f1, c4⟩ := z
  exact h3

theorem decodeHeader_J (cfg : Cfg) (st : SilkSt) (c : Dec) (hj : J c) : J (decodeHeader cfg st c).c := by
  unfold decodeHeader
  have hf : J (if cfg.nCh = 2 then decodeFlagsStereo cfg st c else decodeFlagsMono cfg st c).c := by
    split
    · exact decodeFlagsStereo_J cfg st c hj
    · exact decodeFlagsMono_J cfg st c hj
  split
  · exact skipFrames_J cfg _ _ hf
  · exact hf

theorem decodeStereoHead_J (cfg : Cfg) (st : SilkSt) (dom : Nat) (c : Dec) (hj : J c) :
    J (decodeStereoHead cfg st dom c).2.1 := by
  unfold decodeStereoHead decodeStereoHeadG
  split
  · have h1 := stereoDecodePred_J c hj
    generalize stereoDecodePred c = y at h1
    obtain ⟨p, c1⟩ := y
    dsimp only at h1 ⊢
    split
    · have h2 := stereoDecodeMidOnly_J c1 h1
      generalize stereoDecodeMidOnly c1 = z at h2
      obtain ⟨m, c2⟩ := z
      exact h2
    · exact h1
  · exact hj

theorem chanStep_J (cfg : Cfg) (reads : Bool) (n cc : Nat) (ch : Chan) (c : Dec) (hj : J c) :
    J (chanStep cfg reads n cc ch c).2.2 := by
  unfold chanStep
  split
  · have h1 := decodeOne_J cfg n ch.nFramesDecoded cfg.lostFlag cc ch c hj
    generalize decodeOne cfg n ch.nFramesDecoded cfg.lostFlag cc ch c = y at h1
    obtain ⟨evs, ch', c1⟩ := y
    exact h1
  · exact hj

theorem decodeChans_J (cfg : Cfg) (hs : Bool) (st : SilkSt) (c : Dec) (hj : J c) : J (decodeChans cfg hs st c).2.2 := by
  by_cases h2 : cfg.nCh = 2
  · rw [decodeChans_stereo cfg hs st c h2]
    unfold step1
    exact chanStep_J cfg _ 1 _ st.ch1 _ (by unfold step0; exact chanStep_J cfg _ 0 _ st.ch0 c hj)
  · rw [decodeChans_mono cfg hs st c h2]
    unfold step0
    exact chanStep_J cfg _ 0 _ st.ch0 c hj

theorem decodeBody_J (cfg : Cfg) (h : SkipSt) (hj : J h.c) : J (decodeBody cfg h).2.2 := by
  unfold decodeBody
  have h1 := decodeStereoHead_J cfg h.st h.dom h.c hj
  generalize decodeStereoHead cfg h.st h.dom h.c = y at h1
  obtain ⟨dom, c1, e1⟩ := y
  dsimp only at h1 ⊢
  have h2 := decodeChans_J cfg (hasSideOf cfg h.st dom) h.st c1 h1
  generalize decodeChans cfg (hasSideOf cfg h.st dom) h.st c1 = z at h2
  obtain ⟨e2, st2, c2⟩ := z
  exact h2

theorem silkDecodeCall_J (cfg : Cfg) (np : Bool) (st : SilkSt) (c : Dec) (hj : J c) :
    J (silkDecodeCall cfg np st c).2.2 := by
  unfold silkDecodeCall
  apply decodeBody_J
  split
  · exact decodeHeader_J cfg _ c hj
  · exact hj

theorem silkCalls_J (cfg : Cfg) : ∀ (k : Nat) (first : Bool) (st : SilkSt) (c : Dec), J c →
    J (silkCalls cfg k first st c).2.2
  | 0, _, st, c, hj => by unfold silkCalls; exact hj
  | k + 1, first, st, c, hj => by
    unfold silkCalls
    have h1 := silkDecodeCall_J cfg first st c hj
    generalize silkDecodeCall cfg first st c = y at h1
    obtain ⟨e1, st1, c1⟩ := y
    dsimp only at h1 ⊢
    have h2 := silkCalls_J cfg k false st1 c1 h1
    generalize silkCalls cfg k false st1 c1 = z at h2
    obtain ⟨e2, st2, c2⟩ := z
    exact h2

theorem redundancyBytes_J (mode : Nat) (len : Int) (c : Dec) (hj : J c) : J (redundancyBytes mode len c).2 := by
  unfold redundancyBytes
  split
  · have h1 := (J_uint c hj 256 (by omega) (by omega)).2
    generalize decUint c 256 = y at h1
    obtain ⟨u, c1⟩ := y
    exact h1
  · exact hj

theorem redundancyBlock_J (mode : Nat) (len : Int) (c : Dec) (hj : J c) : J (redundancyBlock mode len c).2.2.2.2 := by
  unfold redundancyBlock
  have h1 := (J_bitLogp c hj 1 (by omega) (by omega)).1
  generalize decBitLogp c 1 = y at h1
  obtain ⟨cs, c1⟩ := y
  dsimp only at h1 ⊢
  have h2 := redundancyBytes_J mode len c1 h1
  generalize redundancyBytes mode len c1 = z at h2
  obtain ⟨rb, c2⟩ := z
  dsimp only at h2 ⊢
  split
  · exact h2
  · exact h2

theorem redundancyHeader_J (mode : Nat) (fec : Bool) (len : Int) (c : Dec) (hj : J c) :
    J (redundancyHeader mode fec len c).2.2.2.2 := by
  unfold redundancyHeader
  by_cases hc : (¬ fec ∧ tell c + 17 + (if mode = 1001 then 20 else 0) ≤ 8 * len)
  · rw [if_pos hc]
    by_cases hm : mode = 1001
    · rw [if_pos hm]
      have h1 := (J_bitLogp c hj 12 (by omega) (by omega)).1
      generalize decBitLogp c 12 = y at h1
      obtain ⟨r, c1⟩ := y
      dsimp only at h1 ⊢
      split
      · exact redundancyBlock_J mode len c1 h1
      · exact h1
    · rw [if_neg hm]
      exact redundancyBlock_J mode len c hj
  · rw [if_neg hc]
    exact hj

/-- The decoder state a frame record ends with satisfies `J`, for every configuration and arbitrary bytes. -/
theorem decodeOpusFrameCfg_J (mode ir pm : Nat) (fec : Bool) (cfg : Cfg) (st : SilkSt) (fr : Bytes) :
    J (decodeOpusFrameCfg mode ir pm fec cfg st fr).dec := by
  unfold decodeOpusFrameCfg
  have h1 := silkCalls_J cfg cfg.nfpp true st (decInit fr fr.length) (J_decInit fr fr.length)
  generalize silkCalls cfg cfg.nfpp true st (decInit fr fr.length) = y at h1
  obtain ⟨evs, st1, c1⟩ := y
  dsimp only at h1 ⊢
  have h2 := redundancyHeader_J mode fec fr.length c1 h1
  generalize redundancyHeader mode fec fr.length c1 = z at h2
  obtain ⟨red, cts, rb, len, c2⟩ := z
  exact h2

theorem decodeOpusFrame_J (mode bw nCh ms10 : Nat) (fec : Bool) (st : SilkSt) (fr : Bytes) (o : FrameOut)
    (h : decodeOpusFrame mode bw nCh ms10 fec st fr = .ok o) : J o.dec := by
  unfold decodeOpusFrame at h
  split at h
  · split at h
    · split at h
      · simp only [Res.ok.injEq] at h
        rw [← h]
        exact decodeOpusFrameCfg_J _ _ _ _ _ _ _
      all_goals exact absurd h (by simp)
    all_goals exact absurd h (by simp)
  all_goals exact absurd h (by simp)

end Opus.SilkSymsProofs
