import OpusModel.MsDecEq
import OpusProofs.LayoutMs
import OpusProofs.LayoutRoute
/-
  OpusProofs.MsDecEqSplit — an accepted multistream packet is decoded stream by stream exactly as the declarative
  splitter prescribes (`specLoop`); a rejected one touches no stream.  On top of C06 (`parse_complete`, `parse_sound`)
  and C10 (`validateLoop_sound` / `validateLoop_complete`).  Core tactics only.
-/
namespace Opus.MsDecEq
open Opus Opus.Framing Opus.FramingSpec Opus.FramingProofs Opus.Layout Opus.LayoutSpec

variable {σ π : Type}

/-- The only thing the multistream loop needs to know about `opus_decode_native`: when it returns `> 0` on a present
    packet that parses, `*packet_offset` is the parser's `packet_offset` (src/opus_decoder.c:737-743; proved for the C01
    skeleton as `Opus.DecSkel.decodeNative_po`; compared on every call by the correspondence run). -/
def PoContract (m : Machine σ π) : Prop :=
  ∀ (st : σ) (bs : Bytes) (fsz fec : Int) (sd sc : Bool) (p : Parsed), parseImpl sd bs = .ok p →
    0 < (m.decode st (some bs) fsz fec sd sc).ret → (m.decode st (some bs) fsz fec sd sc).po = p.packetOffset

/-- The elementary decoder reads only its own self-delimited sub-packet (true of `opus_decode_native`, which uses nothing
    but the parser's frame table; checked on the implementation by the twin search, under ASan on exact-size copies). -/
def Local (m : Machine σ π) : Prop :=
  ∀ (st : σ) (p : Packet) (rest : Bytes) (fsz fec : Int) (sc : Bool), Valid p →
    m.decode st (some (serialize true p ++ rest)) fsz fec true sc = m.decode st (some (serialize true p)) fsz fec true sc

theorem msSerialize_cons (p : Packet) (ps : List Packet) :
    msSerialize (p :: ps) = serialize (decide (ps ≠ [])) p ++ msSerialize ps := by
  cases ps with
  | nil => simp [msSerialize]
  | cons q r => simp [msSerialize]

theorem serialize_length_pos (sd : Bool) (p : Packet) : 0 < (serialize sd p).length := by
  rw [serialize_shape]; simp

/-- **The stream loop on an accepted packet is the declarative splitter** (every machine honouring `PoContract`). -/
theorem msLoop_accepted (m : Machine σ π) (hpo : PoContract m) (l : ChannelLayout) (fec : Int) (sc : Bool) :
    ∀ (ps : List Packet) (todo : List σ) (s : Nat) (off fsz : Int), ps.length = todo.length → (∀ p ∈ ps, Valid p) →
      s + ps.length = l.nbStreams →
      msLoop m l fec sc false todo s (msSerialize ps) off (msSerialize ps).length fsz =
        specLoop m l fec sc feedSuffix ps todo s off fsz
  | [], [], s, off, fsz, _, _, _ => by simp [msLoop, specLoop]
  | [], _ :: _, _, _, _, h, _, _ => by simp at h
  | _ :: _, [], _, _, _, h, _, _ => by simp at h
  | p :: ps, st :: rest, s, off, fsz, hlen, hval, hs => by
    have hv : Valid p := hval p (by simp)
    have hpos : 0 < (msSerialize (p :: ps)).length := by
      rw [msSerialize_cons, List.length_append]; have := serialize_length_pos (decide (ps ≠ [])) p; omega
    have hsd : decide (s ≠ l.nbStreams - 1) = decide (ps ≠ []) := by
      simp only [List.length_cons] at hs
      cases ps with
      | nil => simp at hs ⊢; omega
      | cons q r => simp only [List.length_cons] at hs; simp; omega
    have hargs : streamArgs l.nbStreams false s (msSerialize (p :: ps)) ((msSerialize (p :: ps)).length : Int) fsz fec sc =
        { pkt := some (feedSuffix p ps), fsz := fsz, fec := fec, sd := decide (ps ≠ []), sc := sc } := by
      unfold streamArgs feedSuffix
      rw [hsd]
      simp
    unfold msLoop specLoop
    have h1 : ¬ (¬ false = true ∧ ((msSerialize (p :: ps)).length : Int) ≤ 0) := by omega
    rw [if_neg h1]
    simp only [hargs]
    by_cases h2 : (m.run st { pkt := some (feedSuffix p ps), fsz := fsz, fec := fec, sd := decide (ps ≠ []), sc := sc }).ret ≤ 0
    · rw [if_pos h2, if_pos h2]
    · rw [if_neg h2, if_neg h2]
      have hparse : parseImpl (decide (ps ≠ [])) (feedSuffix p ps) = .ok (view (decide (ps ≠ [])) p) := by
        unfold feedSuffix
        rw [msSerialize_cons]
        apply parse_complete _ p hv
        intro h
        cases ps with
        | nil => rfl
        | cons q r => simp at h
      have hpo' := hpo st (feedSuffix p ps) fsz fec (decide (ps ≠ [])) sc _ hparse (by
        have : (m.run st { pkt := some (feedSuffix p ps), fsz := fsz, fec := fec, sd := decide (ps ≠ []), sc := sc }).ret =
          (m.decode st (some (feedSuffix p ps)) fsz fec (decide (ps ≠ [])) sc).ret := rfl
        omega)
      have hpo2 : (m.run st { pkt := some (feedSuffix p ps), fsz := fsz, fec := fec, sd := decide (ps ≠ []), sc := sc }).po =
          ((serialize (decide (ps ≠ [])) p).length : Int) := by
        show (m.decode st (some (feedSuffix p ps)) fsz fec (decide (ps ≠ [])) sc).po = _
        rw [hpo']; rfl
      have hdrop : (msSerialize (p :: ps)).drop (serialize (decide (ps ≠ [])) p).length = msSerialize ps := by
        rw [msSerialize_cons]; simp
      have hl2 : ((msSerialize (p :: ps)).length : Int) - ((serialize (decide (ps ≠ [])) p).length : Int) =
          ((msSerialize ps).length : Int) := by
        rw [msSerialize_cons, List.length_append]; omega
      simp only [Bool.false_eq_true, if_false, hpo2, Int.toNat_natCast, hdrop, hl2]
      rw [msLoop_accepted m hpo l fec sc ps rest (s + 1) _ _ (by simpa using hlen)
        (fun q hq => hval q (by simp [hq])) (by simp only [List.length_cons] at hs; omega)]

/-- Under `Local`, handing a stream everything that is left or only its own sub-packet makes no difference. -/
theorem specLoop_local (m : Machine σ π) (hloc : Local m) (l : ChannelLayout) (fec : Int) (sc : Bool) :
    ∀ (ps : List Packet) (todo : List σ) (s : Nat) (off fsz : Int), (∀ p ∈ ps, Valid p) →
      (specLoop m l fec sc feedSuffix ps todo s off fsz).forget = (specLoop m l fec sc feedSub ps todo s off fsz).forget
  | [], _, _, _, _, _ => by simp [specLoop]
  | _ :: _, [], _, _, _, _ => by simp [specLoop]
  | p :: ps, st :: rest, s, off, fsz, hval => by
    have hv : Valid p := hval p (by simp)
    have hrun : m.run st { pkt := some (feedSuffix p ps), fsz := fsz, fec := fec, sd := decide (ps ≠ []), sc := sc } =
        m.run st { pkt := some (feedSub p ps), fsz := fsz, fec := fec, sd := decide (ps ≠ []), sc := sc } := by
      unfold feedSuffix feedSub Machine.run
      cases ps with
      | nil => simp [msSerialize]
      | cons q r =>
        simp only [msSerialize, ne_eq, reduceCtorEq, not_false_eq_true, decide_true]
        exact hloc st p _ fsz fec sc hv
    have ih := specLoop_local m hloc l fec sc ps rest (s + 1) (off + (serialize (decide (ps ≠ [])) p).length)
      (m.run st { pkt := some (feedSub p ps), fsz := fsz, fec := fec, sd := decide (ps ≠ []), sc := sc }).ret
      (fun q hq => hval q (by simp [hq]))
    unfold specLoop
    simp only [hrun]
    split
    · simp [Out.forget, Rec.forget]
    · simp only [Out.forget, List.map_cons, Out.mk.injEq] at ih ⊢
      refine ⟨ih.1, by rw [ih.2.1], by rw [ih.2.2.1]; simp [Rec.forget], by rw [ih.2.2.2]⟩

/-! ### closed form: what stream `j` is handed -/

theorem msSerialize_flatten : ∀ ps : List Packet, msSerialize ps = (subPackets ps).flatten
  | [] => rfl
  | p :: ps => by rw [msSerialize_cons, subPackets, List.flatten_cons, msSerialize_flatten ps]

theorem subPackets_length : ∀ ps : List Packet, (subPackets ps).length = ps.length
  | [] => rfl
  | _ :: ps => by simp [subPackets, subPackets_length ps]

/-- **Closed form of the sub-packet run**: the `j`-th per-stream call of `specLoop … feedSub` is on stream `s + j`, from that
    stream's state before the call, at offset = the total length of the sub-packets before it, on exactly the `j`-th
    sub-packet of the declarative splitter, with `self_delimited = (j is not the last)`, the caller's `decode_fec` /
    `soft_clip`, and `frame_size` = the return value of the call before it (the initial one for `j = 0`); its answer is the
    stand-alone machine's. -/
theorem specLoop_sub_closed (m : Machine σ π) (l : ChannelLayout) (fec : Int) (sc : Bool) :
    ∀ (ps : List Packet) (todo : List σ) (s : Nat) (off fsz : Int) (j : Nat) (r : Rec σ π),
      (specLoop m l fec sc feedSub ps todo s off fsz).recs[j]? = some r →
      ∃ sub st, (subPackets ps)[j]? = some sub ∧ todo[j]? = some st ∧ r.s = s + j ∧ r.pre = st ∧
        r.off = off + (((subPackets ps).take j).flatten.length : Int) ∧
        r.args = { pkt := some sub, fec := fec, sc := sc, sd := decide (j + 1 < ps.length),
                   fsz := match j with
                     | 0 => fsz
                     | k + 1 => (((specLoop m l fec sc feedSub ps todo s off fsz).recs[k]?).map (·.out.ret)).getD 0 } ∧
        r.out = m.run st r.args
  | [], todo, s, off, fsz, j, r, h => by simp [specLoop] at h
  | _ :: _, [], s, off, fsz, j, r, h => by simp [specLoop] at h
  | p :: ps, st :: rest, s, off, fsz, j, r, h => by
    have hsd : decide (ps ≠ []) = decide (0 + 1 < (p :: ps).length) := by
      cases ps <;> simp
    unfold specLoop at h ⊢
    by_cases h2 : (m.run st { pkt := some (feedSub p ps), fsz := fsz, fec := fec, sd := decide (ps ≠ []), sc := sc }).ret ≤ 0
    · rw [if_pos h2] at h ⊢
      cases j with
      | zero =>
        simp only [List.getElem?_cons_zero, Option.some.injEq] at h
        subst h
        refine ⟨feedSub p ps, st, by simp [subPackets, feedSub], by simp, by simp, rfl, by simp, ?_, ?_⟩
        · simp only [feedSub, hsd]
        · rfl
      | succ k => simp at h
    · rw [if_neg h2] at h ⊢
      cases j with
      | zero =>
        simp only [List.getElem?_cons_zero, Option.some.injEq] at h
        subst h
        refine ⟨feedSub p ps, st, by simp [subPackets, feedSub], by simp, by simp, rfl, by simp, ?_, ?_⟩
        · simp only [feedSub, hsd]
        · rfl
      | succ k =>
        simp only [List.getElem?_cons_succ] at h
        obtain ⟨sub, st', a1, a2, a3, a4, a5, a6, a7⟩ := specLoop_sub_closed m l fec sc ps rest (s + 1) _ _ k r h
        refine ⟨sub, st', by simp [subPackets, a1], by simp [a2], by omega, a4, ?_, ?_, a7⟩
        · rw [a5]; simp only [subPackets, List.take_succ_cons, List.flatten_cons, List.length_append]
          push_cast; omega
        · rw [a6]
          have e1 : decide (k + 1 < ps.length) = decide (k + 1 + 1 < (p :: ps).length) := by
            simp only [List.length_cons]; exact decide_eq_decide.mpr (by omega)
          rw [e1]
          cases k with
          | zero => simp
          | succ k' => simp

/-! ### the whole call -/

theorem msEarly_accept (l : ChannelLayout) (Fs : Nat) (hFs : Rate Fs) (ps : List Packet) (hlen : ps.length = l.nbStreams)
    (hn : 1 ≤ l.nbStreams) (hval : ∀ p ∈ ps, Valid p) (k : Nat) (hdur : ∀ p ∈ ps, duration Fs p = k)
    (frame_size : Int) (hfs : 0 < frame_size) (hk : (k : Int) ≤ clampFs Fs frame_size) :
    msEarly l Fs (msSerialize ps) (msSerialize ps).length frame_size = none := by
  have hne : ps ≠ [] := by intro h; rw [h] at hlen; simp at hlen; omega
  have hge := msSerialize_length_ge ps hne hval
  have hvld := validateLoop_complete Fs hFs ps true 0 k hne hval hdur (fun h => by cases h)
  unfold msEarly
  rw [if_neg (by omega), if_neg (by omega), if_neg (by omega), if_neg (by omega)]
  simp only [Int.toNat_natCast, List.take_length, msCheck, msPacketValidate, ← hlen, hvld]
  rw [if_neg (by omega)]

/-- **An accepted multistream packet** (one RFC-valid packet per stream, all of duration `k ≤` the clamped frame size,
    self-delimited but the last): the call is the declarative stream-by-stream run on the remaining bytes. -/
theorem msDecode_accepted (m : Machine σ π) (hpo : PoContract m) (l : ChannelLayout) (Fs : Nat) (hFs : Rate Fs) (sts : List σ)
    (ps : List Packet) (hlen : ps.length = l.nbStreams) (hsts : sts.length = l.nbStreams) (hn : 1 ≤ l.nbStreams)
    (hval : ∀ p ∈ ps, Valid p) (k : Nat) (hdur : ∀ p ∈ ps, duration Fs p = k)
    (frame_size fec : Int) (sc : Bool) (hfs : 0 < frame_size) (hk : (k : Int) ≤ clampFs Fs frame_size) :
    msDecode m l Fs sts (msSerialize ps) (msSerialize ps).length frame_size fec sc =
      specLoop m l fec sc feedSuffix ps sts 0 0 (clampFs Fs frame_size) := by
  have hne : ps ≠ [] := by intro h; rw [h] at hlen; simp at hlen; omega
  have hge := msSerialize_length_ge ps hne hval
  unfold msDecode
  rw [msEarly_accept l Fs hFs ps hlen hn hval k hdur frame_size hfs hk]
  have : decide (((msSerialize ps).length : Int) = 0) = false := by rw [decide_eq_false_iff_not]; omega
  rw [this]
  exact msLoop_accepted m hpo l fec sc ps sts 0 0 _ (by omega) hval (by omega)

/-- **Every early exit leaves every stream alone.** -/
theorem msDecode_early (m : Machine σ π) (l : ChannelLayout) (Fs : Nat) (sts : List σ) (bs : Bytes) (len frame_size fec : Int)
    (sc : Bool) (e : Int) (h : msEarly l Fs bs len frame_size = some e) :
    msDecode m l Fs sts bs len frame_size fec sc = { ret := e, sts := sts, recs := [], copies := [] } := by
  unfold msDecode; rw [h]

theorem msCheck_neg (l : ChannelLayout) (Fs : Nat) (pkt : Bytes) (fsz e : Int) (h : msCheck l Fs pkt fsz = some e) : e < 0 := by
  unfold msCheck at h
  split at h
  · split at h
    · cases h; decide
    · cases h
  · cases h; exact Err.code_neg _
  · cases h; decide

/-- The early exits return negative codes only. -/
theorem msEarly_neg (l : ChannelLayout) (Fs : Nat) (bs : Bytes) (len frame_size : Int) (e : Int)
    (h : msEarly l Fs bs len frame_size = some e) : e < 0 := by
  unfold msEarly at h
  by_cases h1 : frame_size ≤ 0
  · rw [if_pos h1] at h; cases h; decide
  rw [if_neg h1] at h
  by_cases h2 : len < 0
  · rw [if_pos h2] at h; cases h; decide
  rw [if_neg h2] at h
  by_cases h3 : len ≠ 0 ∧ len < 2 * (l.nbStreams : Int) - 1
  · rw [if_pos h3] at h; cases h; decide
  rw [if_neg h3] at h
  by_cases h4 : len = 0
  · rw [if_pos h4] at h; cases h
  rw [if_neg h4] at h
  exact msCheck_neg l Fs _ _ e h

/-- **What gets past the early exits with a packet present is an accepted packet**: the first `len` bytes are one
    RFC-valid packet per stream (self-delimited but the last) of a common duration `k` that fits the clamped frame size. -/
theorem msEarly_none_packet (l : ChannelLayout) (Fs : Nat) (hFs : Rate Fs) (bs : Bytes) (hb : BytesOk bs) (len frame_size : Int)
    (hn : 1 ≤ l.nbStreams) (hlen : len ≠ 0) (h : msEarly l Fs bs len frame_size = none) :
    0 < frame_size ∧ 0 < len ∧ ∃ (ps : List Packet) (k : Nat), ps.length = l.nbStreams ∧ (∀ p ∈ ps, Valid p) ∧
      bs.take len.toNat = msSerialize ps ∧ (∀ p ∈ ps, duration Fs p = k) ∧ (k : Int) ≤ clampFs Fs frame_size := by
  unfold msEarly at h
  by_cases h1 : frame_size ≤ 0
  · rw [if_pos h1] at h; cases h
  rw [if_neg h1] at h
  by_cases h2 : len < 0
  · rw [if_pos h2] at h; cases h
  rw [if_neg h2] at h
  by_cases h3 : len ≠ 0 ∧ len < 2 * (l.nbStreams : Int) - 1
  · rw [if_pos h3] at h; cases h
  rw [if_neg h3, if_neg hlen] at h
  refine ⟨by omega, by omega, ?_⟩
  unfold msCheck at h
  split at h
  · rename_i n hvld
    split at h
    · cases h
    · rename_i hk
      have hb' : BytesOk (bs.take len.toNat) := fun b hb1 => hb b (List.mem_of_mem_take hb1)
      rcases validateLoop_sound Fs l.nbStreams true 0 _ n hb' hvld with ⟨h0, _⟩ | ⟨_, ps, hlen', hval, hser, hdur, _⟩
      · omega
      · refine ⟨ps, n, hlen', hval, hser, fun p hp => ?_, Int.not_lt.mp hk⟩
        have h1 := hdur p hp
        rw [getNbSamples_serialize false p (hval p hp) Fs hFs] at h1
        cases h1; rfl
  · cases h
  · cases h

end Opus.MsDecEq
