import OpusProofs.SoftClipPass
import Mathlib.Algebra.Order.Field.Basic
import Mathlib.Tactic.Linarith
import Mathlib.Tactic.Ring
import Mathlib.Tactic.FieldSimp
/-
  OpusProofs.SoftClipField — the soft clipper instantiated at an arbitrary linearly ordered field `F`
  (exact arithmetic; ℚ and ℝ are instances), with an arbitrary boost constant `eps`:
    * `|v| ≤ 1` implies `Pass v`, hence pass-through;
    * the per-excursion map `v ↦ v + a·v·v` with the coefficient `a = coefA maxval x[i]` chosen by the
      code (including the `a += a*eps` boost, any `0 ≤ eps ≤ 1`) maps every sample of the excursion
      (`|v| ≤ maxval ≤ 2`, same sign as the peak) into [-1, 1] without changing its sign.
-/
namespace Opus.SoftClip
variable {F : Type} [Field F] [LinearOrder F] [IsStrictOrderedRing F]

/-- `ClipOps` of an ordered field: exact arithmetic, `fabs = |·|`, C comparisons = the order. -/
@[reducible] def fieldOps (eps : F) : ClipOps F where
  add := (· + ·)
  sub := (· - ·)
  mul := (· * ·)
  div := (· / ·)
  neg := (- ·)
  zero := 0
  one := 1
  two := 2
  eps := eps
  abs := fun v => |v|
  ltb := fun a b => decide (a < b)
  leb := fun a b => decide (a ≤ b)
  ofNat := fun n => (n : F)

theorem pass_of_abs_le_one (eps v : F) (h : |v| ≤ 1) : @Pass F (fieldOps eps) v := by
  obtain ⟨h1, h2⟩ := abs_le.mp h
  refine ⟨?_, ?_, ?_, ?_⟩
  · show decide ((1 : F) < v) = false
    exact decide_eq_false (not_lt.mpr h2)
  · show decide (v < -(1 : F)) = false
    exact decide_eq_false (not_lt.mpr h1)
  · show (if decide ((if decide ((2 : F) < v) then (2 : F) else v) < -(2 : F)) then -(2 : F)
        else (if decide ((2 : F) < v) then (2 : F) else v)) = v
    have a1 : ¬ ((2 : F) < v) := by linarith
    have a2 : ¬ (v < -(2 : F)) := by linarith
    simp only [a1, decide_false, Bool.false_eq_true, if_false, a2]
  · show decide ((0 : F) ≤ v * 0) = true
    exact decide_eq_true (by rw [mul_zero])

/-- Pass-through over an ordered field: samples already in [-1, 1] and cleared memory. -/
theorem softClip_pass_field (eps : F) (x mem : Array F) (N C : Nat) (hsz : x.size = N * C) (hm : mem.size = C)
    (hmem : ∀ c, c < C → mem.getD c 0 = 0) (h : ∀ j, j < N * C → |x.getD j 0| ≤ 1) :
    @softClip F (fieldOps eps) false false x mem (N : Int) (C : Int) = .ok (x, mem) :=
  @softClip_pass F (fieldOps eps) x mem N C hsz hm hmem (fun j hj => pass_of_abs_le_one eps _ (h j hj))

/-! ### the excursion map -/

/-- Core inequality, division-free: `t` is the boosted coefficient, `t·m² = (m-1)(1+eps)`. -/
theorem quad_bounds (m t eps x : F) (hm1 : 1 < m) (hm2 : m ≤ 2) (he0 : 0 ≤ eps) (he1 : eps ≤ 1)
    (ht : t * (m * m) = (m - 1) * (1 + eps)) (hx0 : 0 ≤ x) (hxm : x ≤ m) :
    0 ≤ x - t * x * x ∧ x - t * x * x ≤ 1 := by
  have hmpos : 0 < m := by linarith
  have hmm : 0 < m * m := mul_pos hmpos hmpos
  have htpos : 0 < t := by
    by_contra hn
    have : t * (m * m) ≤ 0 := mul_nonpos_of_nonpos_of_nonneg (not_lt.mp hn) (le_of_lt hmm)
    have : 0 < (m - 1) * (1 + eps) := mul_pos (by linarith) (by linarith)
    linarith
  have htm : t * m ≤ 1 := by
    have h1 : (m - 1) * (1 + eps) ≤ m := by nlinarith
    have h2 : (t * m) * m ≤ 1 * m := by nlinarith
    exact le_of_mul_le_mul_right h2 hmpos
  have htx : t * x ≤ 1 := le_trans (mul_le_mul_of_nonneg_left hxm (le_of_lt htpos)) htm
  constructor
  · have : x - t * x * x = x * (1 - t * x) := by ring
    rw [this]; exact mul_nonneg hx0 (by linarith)
  · by_cases hc : 2 * t * m ≤ 1
    · have h1 : 0 ≤ (m - x) * (1 - t * (m + x)) := by
        apply mul_nonneg (by linarith)
        have : t * x ≤ t * m := mul_le_mul_of_nonneg_left hxm (le_of_lt htpos)
        nlinarith
      have h2 : m - t * (m * m) = 1 - (m - 1) * eps := by rw [ht]; ring
      have h3 : 0 ≤ (m - 1) * eps := mul_nonneg (by linarith) he0
      nlinarith
    · have hc' : 1 < 2 * t * m := not_le.mp hc
      have h4t : 1 ≤ 4 * t := by nlinarith
      have hsq : 0 ≤ (1 - 2 * t * x) * (1 - 2 * t * x) := mul_self_nonneg _
      by_contra hgt
      have hgt' : 1 < x - t * x * x := not_le.mp hgt
      nlinarith

/-- The coefficient chosen by opus.c:106-111, over a field. -/
theorem coefA_field (eps m xi : F) :
    @coefA F (fieldOps eps) m xi =
      if 0 < xi then -((m - 1) / (m * m) + (m - 1) / (m * m) * eps) else (m - 1) / (m * m) + (m - 1) / (m * m) * eps := by
  show (if decide ((0 : F) < xi) then _ else _) = _
  by_cases h : 0 < xi
  · simp only [h, decide_true, if_true]; rfl
  · simp only [h, decide_false, Bool.false_eq_true, if_false]; rfl

/-- **The excursion map is bounded and sign-preserving.**  For the peak value `1 < maxval ≤ 2` of an
    excursion whose detected sample is `xi ≠ 0`, every sample `v` of the excursion (`|v| ≤ maxval`, on
    the same side of zero as `xi`) is mapped by `v + a*v*v`, `a = coefA maxval xi`, into [-1, 1], and
    the image has the sign of `v`. -/
theorem excursion_map_bounded (eps m xi v : F) (he0 : 0 ≤ eps) (he1 : eps ≤ 1) (hm1 : 1 < m) (hm2 : m ≤ 2)
    (hxi : xi ≠ 0) (hside : 0 ≤ xi * v) (hv : |v| ≤ m) :
    |@nl F (fieldOps eps) (@coefA F (fieldOps eps) m xi) v| ≤ 1 ∧
    0 ≤ v * @nl F (fieldOps eps) (@coefA F (fieldOps eps) m xi) v := by
  have hmpos : 0 < m := by linarith
  have hmm : (m * m) ≠ 0 := ne_of_gt (mul_pos hmpos hmpos)
  set t : F := (m - 1) / (m * m) + (m - 1) / (m * m) * eps with ht_def
  have ht : t * (m * m) = (m - 1) * (1 + eps) := by rw [ht_def]; field_simp
  obtain ⟨hv1, hv2⟩ := abs_le.mp hv
  rw [coefA_field]
  show |v + (if 0 < xi then -t else t) * v * v| ≤ 1 ∧ 0 ≤ v * (v + (if 0 < xi then -t else t) * v * v)
  by_cases hpos : 0 < xi
  · have hv0 : 0 ≤ v := by
      by_contra hn
      have : xi * v < 0 := mul_neg_of_pos_of_neg hpos (not_le.mp hn)
      linarith
    obtain ⟨b1, b2⟩ := quad_bounds m t eps v hm1 hm2 he0 he1 ht hv0 hv2
    rw [if_pos hpos]
    have e : v + -t * v * v = v - t * v * v := by ring
    rw [e]
    exact ⟨abs_le.mpr ⟨by linarith, b2⟩, mul_nonneg hv0 b1⟩
  · have hneg : xi < 0 := lt_of_le_of_ne (not_lt.mp hpos) hxi
    have hv0 : v ≤ 0 := by
      by_contra hn
      have : xi * v < 0 := mul_neg_of_neg_of_pos hneg (not_le.mp hn)
      linarith
    obtain ⟨b1, b2⟩ := quad_bounds m t eps (-v) hm1 hm2 he0 he1 ht (by linarith) (by linarith)
    rw [if_neg hpos]
    have e : v + t * v * v = -(-v - t * -v * -v) := by ring
    rw [e]
    refine ⟨abs_le.mpr ⟨by linarith, by linarith⟩, ?_⟩
    have : v * -(-v - t * -v * -v) = (-v) * (-v - t * -v * -v) := by ring
    rw [this]; exact mul_nonneg (by linarith) b1

end Opus.SoftClip
