import OpusProofs.EncSkelWfLow
import OpusProofs.EncSkelWfSingle
/-
  OpusProofs.EncSkelWfLowEnc — the low-budget return of `opus_encode_native` (opus_encoder.c:1270-1332) itself:
  under `lowBudgetGate` the emitted bytes are the ToC-only packet, or (CBR, more room) exactly what the C07 model
  of `opus_packet_pad` returns for it.
-/
namespace Opus.EncSkel.Proofs
open Opus Opus.EncDecide Opus.EncSkel Opus.EncSkel.WfProofs Opus.Repack

theorem encodeNative_low_eq (s : St) (fuzz : Bool) (fsz out : Int) (o : NatOr)
    (he : entryCheck s fsz out = none)
    (hlow : lowBudgetGate (budgetSt s o fsz out) fsz (sizeBudget (analysisUpd s o) fsz out) = true) :
    encodeNative s fuzz fsz out o =
      { (lowBudget (budgetSt s o fsz out) fsz out (sizeBudget (analysisUpd s o) fsz out)) with
        ok := stOk s && legalFrame s.fs fsz } := by
  unfold encodeNative
  rw [he]
  dsimp only
  rw [if_pos hlow]

theorem encode_low_wf (s : St) (fuzz : Bool) (fsz out : Int) (o : NatOr)
    (he : entryCheck s fsz out = none)
    (hlow : lowBudgetGate (budgetSt s o fsz out) fsz (sizeBudget (analysisUpd s o) fsz out) = true)
    (hok : (encodeNative s fuzz fsz out o).ok = true) :
    (encodeNative s fuzz fsz out o).pkt.lens = lowLens (budgetSt s o fsz out) fsz out ∧
    ((budgetSt s o fsz out).useVbr ≠ 0 ∨
        (sizeBudget (analysisUpd s o) fsz out).maxDataBytes ≤ lowRet0 (budgetSt s o fsz out) fsz out →
      (encodeNative s fuzz fsz out o).ret = lowRet0 (budgetSt s o fsz out) fsz out ∧
      pktBytes (encodeNative s fuzz fsz out o).pkt.hdr (lowFrames (budgetSt s o fsz out) fsz out)
        (encodeNative s fuzz fsz out o).pkt.size = lowHdr0 (budgetSt s o fsz out) fsz out) ∧
    ((budgetSt s o fsz out).useVbr = 0 →
        lowRet0 (budgetSt s o fsz out) fsz out < (sizeBudget (analysisUpd s o) fsz out).maxDataBytes →
      (encodeNative s fuzz fsz out o).ret = (sizeBudget (analysisUpd s o) fsz out).maxDataBytes ∧
      packetPad (lowHdr0 (budgetSt s o fsz out) fsz out) (sizeBudget (analysisUpd s o) fsz out).maxDataBytes =
        .ok (pktBytes (encodeNative s fuzz fsz out o).pkt.hdr (lowFrames (budgetSt s o fsz out) fsz out)
          (encodeNative s fuzz fsz out o).pkt.size)) := by
  rw [encodeNative_low_eq s fuzz fsz out o he hlow] at hok ⊢
  dsimp only at hok
  simp only [Bool.and_eq_true] at hok
  obtain ⟨hst, hlg⟩ := hok
  have hbs := budgetSt_same s o fsz out
  have hfs1 : (budgetSt s o fsz out).fs = s.fs := by unfold BudSame at hbs; rw [hbs]
  have hmd1 : (budgetSt s o fsz out).mode = s.mode := by unfold BudSame at hbs; rw [hbs]
  have hbw1 : (budgetSt s o fsz out).bandwidth = s.bandwidth := by unfold BudSame at hbs; rw [hbs]
  have hsc1 : (budgetSt s o fsz out).streamChannels = s.streamChannels := by unfold BudSame at hbs; rw [hbs]
  have hs := hst
  unfold stOk at hs
  simp only [decide_eq_true_eq] at hs
  obtain ⟨h1, h2c, -, -, -, -, -, h8, h9, -, -, -, h13, -⟩ := hs
  generalize budgetSt s o fsz out = s1 at *
  generalize sizeBudget (analysisUpd s o) fsz out = b at *
  have hent : 1 ≤ out ∧ ¬ (out = 1 ∧ s1.fs = fsz * 10) := by
    unfold entryCheck at he
    dsimp only at he
    split at he
    · cases he
    · split at he
      · cases he
      · rename_i h2 h3
        rw [hfs1]
        constructor
        · omega
        · intro ⟨ha, hb⟩; apply h3; exact ⟨by omega, hb⟩
  have hfr : 1 ≤ s1.fs / fsz := by
    have hfs0 : 0 < s.fs := by omega
    obtain ⟨hf0, _⟩ := legal_le s.fs fsz hfs0 hlg
    rw [hfs1]
    refine (Int.le_ediv_iff_mul_le hf0).mpr ?_
    have := legal_fsz s.fs fsz hlg; omega
  obtain ⟨⟨-, -, -, -, -, -, hhl⟩, hpadded⟩ := low_wf s1 fsz out (by rw [hfs1]; exact h1) (by rw [hfs1]; exact hlg)
    (by rw [hmd1]; exact Or.inr h13) (by rw [hbw1]; exact h9) (by rw [hsc1]; omega) hent.2 hfr
  obtain ⟨hlne, hall, hbase⟩ := lowLens_spec s1 fsz out hfr
  have hr0 : 1 ≤ lowRet0 s1 fsz out := by unfold lowRet0; split <;> omega
  have hflat : (lowFrames s1 fsz out).flatten = [] := by unfold lowFrames; simp
  have hpb : pktBytes (lowHdr0 s1 fsz out) (lowFrames s1 fsz out) (lowRet0 s1 fsz out).toNat = lowHdr0 s1 fsz out := by
    simp only [pktBytes, hflat, List.append_nil, List.length_nil, Nat.sub_zero]
    have : (lowRet0 s1 fsz out).toNat - (lowHdr0 s1 fsz out).length = 0 := by omega
    rw [this]; simp
  unfold lowBudget
  dsimp only
  by_cases hv : s1.useVbr = 0
  · rw [if_pos hv]
    have hpad := padSpec_ok (lowBudgetToc s1 fsz out).1 (lowLens s1 fsz out) (lowRet0 s1 fsz out)
      (max b.maxDataBytes (lowRet0 s1 fsz out)) hlne hall hbase (by omega)
    rw [if_neg (by rw [hpad.1]; simp)]
    dsimp only
    refine ⟨rfl, ?_, ?_⟩
    · intro h
      have hm : max b.maxDataBytes (lowRet0 s1 fsz out) = lowRet0 s1 fsz out := by
        rcases h with h | h
        · exact absurd hv h
        · omega
      rw [hm]
      refine ⟨rfl, ?_⟩
      have hnone : (padSpec (lowBudgetToc s1 fsz out).1 (lowLens s1 fsz out) (lowRet0 s1 fsz out) (lowRet0 s1 fsz out)).2 = none := by
        unfold padSpec; rw [if_neg (by omega), if_pos rfl]
      rw [hnone]
      exact hpb
    · intro _ hlt
      have hm : max b.maxDataBytes (lowRet0 s1 fsz out) = b.maxDataBytes := by omega
      rw [hm] at hpad ⊢
      obtain ⟨r, hps, hpp, -⟩ := hpadded b.maxDataBytes hlt
      have hsz := hpad.2 r (by rw [hps])
      refine ⟨rfl, ?_⟩
      rw [hps]
      dsimp only
      rw [hpp]
      have : b.maxDataBytes.toNat = r.size := by omega
      rw [this]
  · rw [if_neg hv]
    dsimp only
    refine ⟨rfl, fun _ => ⟨rfl, hpb⟩, fun h => absurd h hv⟩

end Opus.EncSkel.Proofs
