import OpusProofs.EncSkelWfRun
/-
  OpusProofs.EncSkelWfTop — composition: the repacketiser run of the encoder on the C07 model equals the
  skeleton's contract (`repackRun_contract`), and every success return of `opus_encode_native` emits bytes that are
  such a run's output and parse (C06 parser) to exactly the frames handed in (`encode_wf`).
-/
namespace Opus.EncSkel.WfProofs
open Opus Opus.Framing Opus.FramingSpec Opus.Repack Opus.RepackProofs Opus.Ext Opus.ExtProofs
open Opus.EncSkel Opus.EncSkel.Proofs

/-- A sub-packet handed to `opus_repacketizer_cat`: the frames it holds and the `(maxlen, pad)` of the
    `out_range_impl` call that wrote it (`(len+1, false)`: the code-0 packet `[toc] ++ frame` of the frame encoder;
    `(max_data_bytes, true)`: the same after `opus_packet_pad`, opus_encoder.c:2516). -/
abbrev Sub := List Bytes × Nat × Bool

/-- The bytes of a sub-packet. -/
def subPkt (cfg : Nat) (s : Sub) : Bytes :=
  match EncSkel.outRange cfg (s.1.map List.length) s.2.1 s.2.2 with
  | .ok q => pktBytes q.hdr s.1 q.size
  | _ => []

def SubOk (cfg : Nat) (s : Sub) : Prop := s.1 ≠ [] ∧ ∃ q, EncSkel.outRange cfg (s.1.map List.length) s.2.1 s.2.2 = .ok q

theorem flatMap_frames (cfg : Nat) (subs : List Sub) :
    (subs.map (fun s => outPacket cfg s.1 s.2.1 false s.2.2)).flatMap (·.frames) = subs.flatMap (·.1) := by
  induction subs with
  | nil => rfl
  | cons s ss ih => simp only [List.map_cons, List.flatMap_cons, ih, outPacket_frames]

/-- The `cat` loop on the sub-packets: every `cat` is accepted; the state holds exactly the frames, in order. -/
theorem catAll_subs (cfg : Nat) (subs : List Sub) (h4 : cfg % 4 = 0) (h256 : cfg < 256)
    (hsub : ∀ s ∈ subs, SubOk cfg s) (hne : subs ≠ [])
    (hle : ∀ f ∈ subs.flatMap (·.1), f.length ≤ 1275)
    (hdur : (subs.flatMap (·.1)).length * samplesPerFrame cfg 8000 ≤ 960) :
    subs.flatMap (·.1) ≠ [] ∧
    ∃ rp, catAll (init Rp.empty) (subs.map (subPkt cfg)) = (rp, .ok ()) ∧ rp.frames = subs.flatMap (·.1) ∧
      ExtFree rp.pads ∧ rp.toc / 4 * 4 = cfg := by
  have hfok : ∀ s ∈ subs, FramesOk cfg s.1 := by
    intro s hs
    have hsubset : ∀ f ∈ s.1, f ∈ subs.flatMap (·.1) := fun f hf => List.mem_flatMap.mpr ⟨s, hs, hf⟩
    refine ⟨h256, (hsub s hs).1, fun f hf => hle f (hsubset f hf), ?_⟩
    have hlen : s.1.length ≤ (subs.flatMap (·.1)).length := by
      obtain ⟨a, b, rfl⟩ := List.append_of_mem hs
      simp only [List.flatMap_append, List.flatMap_cons, List.length_append]; omega
    exact Nat.le_trans (Nat.mul_le_mul_right _ hlen) hdur
  have hcp : ∀ s ∈ subs, subPkt cfg s = serialize false (outPacket cfg s.1 s.2.1 false s.2.2) ∧
      Valid (outPacket cfg s.1 s.2.1 false s.2.2) ∧ PadFree (outPacket cfg s.1 s.2.1 false s.2.2) ∧
      (outPacket cfg s.1 s.2.1 false s.2.2).toc / 4 = cfg / 4 := by
    intro s hs
    obtain ⟨hne1, q, hq⟩ := hsub s hs
    obtain ⟨h1, h2, h3, _, h5⟩ := contract_packet cfg s.1 hne1 s.2.1 s.2.2 q h4 (hfok s hs) hq
    refine ⟨?_, h2, h3, h5⟩
    unfold subPkt; rw [hq]; exact h1
  have hmap : subs.map (subPkt cfg) = (subs.map (fun s => outPacket cfg s.1 s.2.1 false s.2.2)).map (serialize false) := by
    rw [List.map_map]
    exact List.map_congr_left (fun s hs => (hcp s hs).1)
  have hps : ∀ p ∈ subs.map (fun s => outPacket cfg s.1 s.2.1 false s.2.2), Valid p ∧ PadFree p ∧ p.toc / 4 = cfg / 4 := by
    intro p hp
    obtain ⟨s, hs, rfl⟩ := List.mem_map.mp hp
    exact ⟨(hcp s hs).2.1, (hcp s hs).2.2.1, (hcp s hs).2.2.2⟩
  have hfr0 : (init Rp.empty).frames = [] := rfl
  obtain ⟨rp, hc, hf, _, hfree, htoc⟩ := catAll_packets cfg _ (init Rp.empty) (inv_init _)
    (by intro pn h; simp [init] at h) (by intro h; exact absurd rfl h) hps
    (by rw [flatMap_frames]; simpa [Rp.nbFrames, init] using hdur)
  rw [hfr0, List.nil_append, flatMap_frames] at hf
  have hfne : subs.flatMap (·.1) ≠ [] := by
    cases subs with
    | nil => exact absurd rfl hne
    | cons s ss =>
      have := (hsub s (by simp)).1
      cases h1 : s.1 with
      | nil => exact absurd h1 this
      | cons a b => simp [h1]
  refine ⟨hfne, rp, by rw [hmap, hc], hf, hfree, ?_⟩
  have hnz : rp.nbFrames ≠ 0 := by
    unfold Rp.nbFrames; rw [hf]
    intro h0; exact hfne (List.length_eq_zero_iff.mp h0)
  have := htoc hnz
  omega

/-- **The repacketiser run is the contract.**  `init`, `cat` of every sub-packet, `out_range_impl(0, n, maxlen, 0, pad)`
    on the C07 model: every `cat` succeeds and the result — bytes on success, error code on failure — is what the
    skeleton's contract function `outRange` announces for the concatenated frames. -/
theorem repackRun_contract (cfg : Nat) (subs : List Sub) (h4 : cfg % 4 = 0) (h256 : cfg < 256)
    (hsub : ∀ s ∈ subs, SubOk cfg s) (hne : subs ≠ [])
    (hle : ∀ f ∈ subs.flatMap (·.1), f.length ≤ 1275)
    (hdur : (subs.flatMap (·.1)).length * samplesPerFrame cfg 8000 ≤ 960) (maxlen : Nat) (pad : Bool) :
    repackRun (subs.map (subPkt cfg)) (subs.flatMap (·.1)).length maxlen pad =
      emitOf (subs.flatMap (·.1)) (EncSkel.outRange cfg ((subs.flatMap (·.1)).map List.length) maxlen pad) := by
  obtain ⟨hfne, rp, hc, hf, hfree, htoc⟩ := catAll_subs cfg subs h4 h256 hsub hne hle hdur
  unfold repackRun
  rw [hc]
  simp only []
  have hall := outRangeImpl_all rp (by rw [hf]; exact hfne) hfree maxlen pad
  rw [hf] at hall
  rw [hall, emit_bridge rp.toc _ hfne maxlen pad, htoc]

/-- `opus_packet_pad(data, len, new_len)` with `len < new_len` IS the run on the single input packet. -/
theorem packetPad_run (bs : Bytes) (newLen : Nat) (h1 : 1 ≤ bs.length) (hlt : bs.length < newLen) (n : Nat)
    (hn : (catAll (init Rp.empty) [bs]).1.nbFrames = n) :
    packetPad bs newLen = repackRun [bs] n newLen true := by
  unfold packetPad padImpl repackRun
  rw [if_neg (by omega), if_neg (by omega), if_neg (by omega)]
  simp only [catAll] at hn ⊢
  rcases hc : cat (init Rp.empty) bs with ⟨rp, r⟩
  rw [hc] at hn
  cases r with
  | ok u => cases u; simp only [] at hn ⊢; rw [hn]
  | err e => rfl
  | oob => rfl
  | abort => rfl

/-- What `encode_wellformed` states of one success return and one choice of frame contents. -/
structure Wf (s : St) (fsz out : Int) (r : NatRes) (frames : List Bytes) : Prop where
  ret : 1 ≤ r.ret ∧ r.ret ≤ out
  run : ∃ maxlen pad, ∀ subs : List Sub, subs.flatMap (·.1) = frames → (∀ x ∈ subs, SubOk r.pkt.tocCfg x) →
          repackRun (subs.map (subPkt r.pkt.tocCfg)) frames.length maxlen pad =
            .ok (pktBytes r.pkt.hdr frames r.pkt.size)
  parse : ∃ v, parseImpl false (pktBytes r.pkt.hdr frames r.pkt.size) = .ok v ∧
      v.toc / 4 * 4 = r.pkt.tocCfg ∧ v.count = frames.length ∧ v.sizes = r.pkt.lens ∧ (∀ l ∈ v.sizes, l ≤ 1275) ∧
      slices (pktBytes r.pkt.hdr frames r.pkt.size) v.payloadOffset v.sizes = frames ∧
      (v.count : Int) * samplesPerFrame v.toc s.fs.toNat = fsz ∧
      (v.packetOffset : Int) = r.ret ∧ ((pktBytes r.pkt.hdr frames r.pkt.size).length : Int) = r.ret

theorem encode_wf (s : St) (fuzz : Bool) (fsz out : Int) (o : NatOr)
    (he : entryCheck s fsz out = none) (hok : (encodeNative s fuzz fsz out o).ok = true)
    (frames : List Bytes) (hfl : frames.map List.length = (encodeNative s fuzz fsz out o).pkt.lens) :
    Wf s fsz out (encodeNative s fuzz fsz out o) frames := by
  have hpost := encodeNative_post s fuzz fsz out o he hok
  have hp := encodeNative_pkt s fuzz fsz out o he hok
  obtain ⟨v, hv, hvs, hvd, hvo, hvl⟩ := encode_parses s fuzz fsz out o he hok frames hfl
  generalize encodeNative s fuzz fsz out o = r at *
  obtain ⟨⟨maxlen, pad, hout⟩, hsize, h4, h256, hlens, hd48, hdur⟩ := hp
  obtain ⟨p, hpv, hpf, hpt, hps⟩ := outRange_serialize r.pkt.tocCfg r.pkt.lens maxlen pad _ frames hfl h4 h256 hlens hd48 hout
  obtain ⟨hparse, hsl⟩ := parse_serialize_frames false p hpv [] (fun _ => rfl)
  simp only [List.append_nil] at hparse hsl
  dsimp only at hps
  rw [hps] at hparse hsl
  rw [hv] at hparse
  have hveq : v = view false p := by simpa using hparse
  have hlne : r.pkt.lens ≠ [] := by
    intro h; rw [h] at hout; simp [EncSkel.outRange] at hout
  have hlen : frames.length = r.pkt.lens.length := by rw [← hfl]; simp
  have hfne : frames ≠ [] := by
    intro h; apply hlne; rw [← hfl, h]; rfl
  refine ⟨⟨hpost.retLo, hpost.retHi⟩, ⟨maxlen, pad, ?_⟩, ⟨v, hv, ?_, ?_, hvs, ?_, ?_, hvd, hvo, ?_⟩⟩
  · intro subs hflat hsub
    have hne : subs ≠ [] := by intro h; rw [h] at hflat; exact hfne hflat.symm
    have h8 := (frameDur48_spf8 r.pkt.tocCfg (List.mem_range.mpr h256)).1
    have hd8 : (subs.flatMap (·.1)).length * samplesPerFrame r.pkt.tocCfg 8000 ≤ 960 := by
      rw [hflat, hlen]; rw [h8] at hd48
      have : 6 * (r.pkt.lens.length * samplesPerFrame r.pkt.tocCfg 8000) ≤ 5760 := by
        rw [← Nat.mul_assoc, Nat.mul_comm 6, Nat.mul_assoc, Nat.mul_comm]; rw [Nat.mul_comm] at hd48
        simpa [Nat.mul_comm, Nat.mul_left_comm] using hd48
      omega
    have hle : ∀ f ∈ subs.flatMap (·.1), f.length ≤ 1275 := by
      rw [hflat]; intro f hf; apply hlens; rw [← hfl]; exact List.mem_map.mpr ⟨f, hf, rfl⟩
    have := repackRun_contract r.pkt.tocCfg subs h4 h256 hsub hne hle hd8 maxlen pad
    rw [hflat, hfl, hout] at this
    exact this
  · rw [hveq]; simp only [view]; exact hpt
  · rw [hveq]; simp only [view, hpf]
  · rw [hvs]; exact hlens
  · rw [hveq, hsl]; exact hpf
  · rw [hvl]; exact hvo

/-- A successful run parses (C06 parser) to exactly the frames handed in. -/
theorem run_parses (cfg : Nat) (subs : List Sub) (h4 : cfg % 4 = 0) (h256 : cfg < 256)
    (hsub : ∀ s ∈ subs, SubOk cfg s) (hne : subs ≠ [])
    (hle : ∀ f ∈ subs.flatMap (·.1), f.length ≤ 1275)
    (hdur : (subs.flatMap (·.1)).length * samplesPerFrame cfg 8000 ≤ 960) (maxlen : Nat) (pad : Bool) (r : OutRes)
    (hout : EncSkel.outRange cfg ((subs.flatMap (·.1)).map List.length) maxlen pad = .ok r) :
    repackRun (subs.map (subPkt cfg)) (subs.flatMap (·.1)).length maxlen pad =
      .ok (pktBytes r.hdr (subs.flatMap (·.1)) r.size) ∧
    ∃ v, parseImpl false (pktBytes r.hdr (subs.flatMap (·.1)) r.size) = .ok v ∧
      v.sizes = (subs.flatMap (·.1)).map List.length ∧ v.count = (subs.flatMap (·.1)).length ∧
      v.toc / 4 * 4 = cfg ∧ v.packetOffset = (pktBytes r.hdr (subs.flatMap (·.1)) r.size).length ∧
      slices (pktBytes r.hdr (subs.flatMap (·.1)) r.size) v.payloadOffset v.sizes = subs.flatMap (·.1) := by
  have hrun := repackRun_contract cfg subs h4 h256 hsub hne hle hdur maxlen pad
  rw [hout] at hrun
  have h8 := (frameDur48_spf8 cfg (List.mem_range.mpr h256)).1
  have hd48 : frameDur48 cfg * ((subs.flatMap (·.1)).map List.length).length ≤ 5760 := by
    rw [h8, List.length_map, Nat.mul_assoc, Nat.mul_comm (samplesPerFrame cfg 8000)]; omega
  have hall : ∀ l ∈ (subs.flatMap (·.1)).map List.length, l ≤ 1275 := by
    intro l hl; obtain ⟨f, hf, rfl⟩ := List.mem_map.mp hl; exact hle f hf
  obtain ⟨p, hpv, hpf, hpt, hps⟩ := outRange_serialize cfg _ maxlen pad r (subs.flatMap (·.1)) rfl h4 h256 hall hd48 hout
  obtain ⟨hparse, hsl⟩ := parse_serialize_frames false p hpv [] (fun _ => rfl)
  simp only [List.append_nil] at hparse hsl
  rw [hps] at hparse hsl
  refine ⟨hrun, view false p, hparse, ?_, ?_, ?_, ?_, ?_⟩
  · simp only [view, Packet.lens, hpf]
  · simp only [view, hpf]
  · simp only [view]; exact hpt
  · simp only [view, hps]
  · rw [hsl]; exact hpf

end Opus.EncSkel.WfProofs
