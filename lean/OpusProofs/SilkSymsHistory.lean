import OpusProofs.SilkSymsDecode
/-
  C03: the symbols read for a frame do not depend on the SILK decoder state left by earlier frames / packets
  (simulation argument).  Two runs of the symbol layer on the same bytes from arbitrary states `st`, `st'` stay
  related: they agree on everything that steers reads, and on `ec_prevSignalType` / `ec_prevLagIndex` of a
  channel whenever the next frame of that channel can be coded conditionally.
-/
namespace Opus.SilkSymsProofs
open Opus Opus.RangeCoder Opus.SilkSyms

/-- The two runs agree on the conditional-coding memory of a channel (the lag only matters after a voiced frame). -/
def PrevEq (a b : Chan) : Prop :=
  a.ecPrevSignalType = b.ecPrevSignalType ∧ (a.ecPrevSignalType = 2 → a.ecPrevLagIndex = b.ecPrevLagIndex)

/-- The two runs agree on what else the symbol layer reads from a channel. -/
def ChanEqv (a b : Chan) : Prop :=
  a.nFramesDecoded = b.nFramesDecoded ∧ a.vad = b.vad ∧ a.lbrrFlags = b.lbrrFlags

theorem decodeOne_rel (cfg : Cfg) (n fi lb cc : Nat) (ch ch' : Chan) (c : Dec)
    (he : ChanEqv ch ch') (hp : cc = 2 → PrevEq ch ch') :
    (decodeOne cfg n fi lb cc ch c).1 = (decodeOne cfg n fi lb cc ch' c).1 ∧
    (decodeOne cfg n fi lb cc ch c).2.2 = (decodeOne cfg n fi lb cc ch' c).2.2 ∧
    ChanEqv (decodeOne cfg n fi lb cc ch c).2.1 (decodeOne cfg n fi lb cc ch' c).2.1 ∧
    PrevEq (decodeOne cfg n fi lb cc ch c).2.1 (decodeOne cfg n fi lb cc ch' c).2.1 := by
  unfold decodeOne
  have e1 : ch'.vad = ch.vad := he.2.1.symm
  have e2 : (if cc = 2 then ch'.ecPrevSignalType else 0) = (if cc = 2 then ch.ecPrevSignalType else 0) := by
    by_cases h : cc = 2
    · simp only [h, if_true]; exact (hp h).1.symm
    · simp only [h, if_false]
  have e3 : (if cc = 2 ∧ ch'.ecPrevSignalType = 2 then ch'.ecPrevLagIndex else 0) =
            (if cc = 2 ∧ ch.ecPrevSignalType = 2 then ch.ecPrevLagIndex else 0) := by
    by_cases h : cc = 2
    · have hq := hp h
      by_cases h2 : ch.ecPrevSignalType = 2
      · have h2' : ch'.ecPrevSignalType = 2 := by rw [← hq.1]; exact h2
        simp only [h, h2, h2', and_self, if_true]; exact (hq.2 h2).symm
      · have h2' : ¬ ch'.ecPrevSignalType = 2 := by rw [← hq.1]; exact h2
        simp only [h2, h2', and_false, if_false]
    · simp only [h, false_and, if_false]
  rw [e1, e2, e3]
  generalize decodeOneCore cfg n fi lb cc (decide (lb ≠ 0 ∨ ch.vad.getD fi 0 ≠ 0))
    (if cc = 2 then ch.ecPrevSignalType else 0) (if cc = 2 ∧ ch.ecPrevSignalType = 2 then ch.ecPrevLagIndex else 0) c = y
  split
  rename_i _ evs ix c2
  dsimp only
  refine ⟨rfl, rfl, ⟨he.1, rfl, he.2.2⟩, rfl, ?_⟩
  intro h2
  dsimp only at h2
  dsimp only
  rw [if_pos h2, if_pos h2]

/-- A single run: `decodeOne` leaves the non-memory fields of the channel alone. -/
theorem decodeOne_frame (cfg : Cfg) (n fi lb cc : Nat) (ch : Chan) (c : Dec) :
    (decodeOne cfg n fi lb cc ch c).2.1.nFramesDecoded = ch.nFramesDecoded ∧
    (decodeOne cfg n fi lb cc ch c).2.1.vad = ch.vad ∧
    (decodeOne cfg n fi lb cc ch c).2.1.lbrrFlags = ch.lbrrFlags := by
  unfold decodeOne
  generalize decodeOneCore cfg n fi lb cc (decide (lb ≠ 0 ∨ ch.vad.getD fi 0 ≠ 0))
    (if cc = 2 then ch.ecPrevSignalType else 0) (if cc = 2 ∧ ch.ecPrevSignalType = 2 then ch.ecPrevLagIndex else 0) c = y
  split
  exact ⟨rfl, rfl, rfl⟩


/-! ### The LBRR-skipping phase -/

/-- Relation between the two runs inside the LBRR-skipping loops: same decoder context, events and
    `decode_only_middle`; channels agree on what steers reads; `P0`/`P1` say when the conditional-coding memory
    of channel 0/1 is known to agree. -/
structure SkipRel (cfg : Cfg) (P0 P1 : Prop) (s s' : SkipSt) : Prop where
  c : s.c = s'.c
  evs : s.evs = s'.evs
  dom : s.dom = s'.dom
  e0 : ChanEqv s.st.ch0 s'.st.ch0
  e1 : cfg.nCh = 2 → ChanEqv s.st.ch1 s'.st.ch1
  p0 : P0 → PrevEq s.st.ch0 s'.st.ch0
  p1 : P1 → PrevEq s.st.ch1 s'.st.ch1

theorem skipStereoG_rel (P : Dec → StereoPred × Dec) (M : Dec → Nat × Dec) (cfg : Cfg) (P0 P1 : Prop) (i n : Nat)
    (s s' : SkipSt) (h : SkipRel cfg P0 P1 s s') :
    SkipRel cfg P0 P1 (skipStereoG P M cfg i n s) (skipStereoG P M cfg i n s') := by
  unfold skipStereoG
  split
  · rename_i hc
    rw [← h.c, ← (h.e1 hc.1).2.2]
    generalize P s.c = y
    split
    rename_i _ p c1
    dsimp only
    split
    · generalize M c1 = z
      exact ⟨rfl, by dsimp only; rw [h.evs], rfl, h.e0, h.e1, h.p0, h.p1⟩
    · exact ⟨rfl, by dsimp only; rw [h.evs], h.dom, h.e0, h.e1, h.p0, h.p1⟩
  · exact h

theorem skipStereoG_st (P : Dec → StereoPred × Dec) (M : Dec → Nat × Dec) (cfg : Cfg) (i n : Nat) (s : SkipSt) :
    (skipStereoG P M cfg i n s).st = s.st := by
  unfold skipStereoG
  split
  · generalize P s.c = y
    split
    dsimp only
    split
    · generalize M _ = z
      rfl
    · rfl
  · rfl

/-- The condition under which frame `i` of a channel with LBRR flags `f` is coded conditionally in the skipping
    loop — and, one frame later, the condition under which it was decoded at all. -/
def lbrrAt (f : List Nat) (i : Nat) : Prop := f.getD i 0 ≠ 0

theorem skipOne_rel0 (cfg : Cfg) (P1 : Prop) (i : Nat) (s s' : SkipSt)
    (h : SkipRel cfg (i > 0 ∧ lbrrAt s.st.ch0.lbrrFlags (i - 1)) P1 s s') :
    SkipRel cfg (lbrrAt s.st.ch0.lbrrFlags i) P1 (skipOne cfg i 0 s) (skipOne cfg i 0 s') ∧
    (skipOne cfg i 0 s).st.ch0.lbrrFlags = s.st.ch0.lbrrFlags ∧
    (skipOne cfg i 0 s).st.ch1 = s.st.ch1 := by
  unfold skipOne
  have hf : (s'.st.ch 0).lbrrFlags = (s.st.ch 0).lbrrFlags := by
    simp only [SilkSt.ch, if_true]; exact h.e0.2.2.symm
  rw [hf]
  split
  · rename_i hfl
    have hr := skipStereoG_rel stereoDecodePred stereoDecodeMidOnly cfg _ P1 i 0 s s' h
    have hs1 := skipStereoG_st stereoDecodePred stereoDecodeMidOnly cfg i 0 s
    have hs2 := skipStereoG_st stereoDecodePred stereoDecodeMidOnly cfg i 0 s'
    unfold skipStereo
    generalize skipStereoG stereoDecodePred stereoDecodeMidOnly cfg i 0 s = t at hr hs1
    generalize skipStereoG stereoDecodePred stereoDecodeMidOnly cfg i 0 s' = t' at hr hs2
    have hrel := decodeOne_rel cfg 0 i 1 (if i > 0 ∧ (s.st.ch 0).lbrrFlags.getD (i - 1) 0 ≠ 0 then 2 else 0)
      (t.st.ch 0) (t'.st.ch 0) t.c (by simp only [SilkSt.ch, if_true]; exact hr.e0) (by
        intro hcc
        simp only [SilkSt.ch, if_true]
        apply hr.p0
        by_cases hq : i > 0 ∧ (s.st.ch 0).lbrrFlags.getD (i - 1) 0 ≠ 0
        · simpa [SilkSt.ch, lbrrAt] using hq
        · rw [if_neg hq] at hcc; exact absurd hcc (by omega))
    have hfr := decodeOne_frame cfg 0 i 1 (if i > 0 ∧ (s.st.ch 0).lbrrFlags.getD (i - 1) 0 ≠ 0 then 2 else 0) (t.st.ch 0) t.c
    rw [← hr.c] at *
    generalize decodeOne cfg 0 i 1 (if i > 0 ∧ (s.st.ch 0).lbrrFlags.getD (i - 1) 0 ≠ 0 then 2 else 0) (t.st.ch 0) t.c = y at hrel hfr
    generalize decodeOne cfg 0 i 1 (if i > 0 ∧ (s.st.ch 0).lbrrFlags.getD (i - 1) 0 ≠ 0 then 2 else 0) (t'.st.ch 0) t.c = y' at hrel
    split
    rename_i _ evs ch2 c1
    split
    rename_i _ evs' ch2' c1'
    dsimp only at hrel hfr ⊢
    simp only [SilkSt.ch, if_true] at hfr
    refine ⟨⟨hrel.2.1, by dsimp only; rw [hr.evs, hrel.1], hr.dom, ?_, ?_, ?_, ?_⟩, ?_, ?_⟩
    · simp only [SilkSt.setCh, if_true]; exact hrel.2.2.1
    · intro hc; simp only [SilkSt.setCh, if_true]; exact hr.e1 hc
    · intro _; simp only [SilkSt.setCh, if_true]; exact hrel.2.2.2
    · intro hp; simp only [SilkSt.setCh, if_true]; exact hr.p1 hp
    · simp only [SilkSt.setCh, if_true]; rw [hfr.2.2, hs1]
    · simp only [SilkSt.setCh, if_true]; rw [hs1]
  · rename_i hfl
    refine ⟨⟨h.c, h.evs, h.dom, h.e0, h.e1, ?_, h.p1⟩, rfl, rfl⟩
    intro hp
    exact absurd hp (by simpa [SilkSt.ch, lbrrAt] using hfl)


theorem skipOne_rel1 (cfg : Cfg) (hc2 : cfg.nCh = 2) (P0 : Prop) (i : Nat) (s s' : SkipSt)
    (h : SkipRel cfg P0 (i > 0 ∧ lbrrAt s.st.ch1.lbrrFlags (i - 1)) s s') :
    SkipRel cfg P0 (lbrrAt s.st.ch1.lbrrFlags i) (skipOne cfg i 1 s) (skipOne cfg i 1 s') ∧
    (skipOne cfg i 1 s).st.ch1.lbrrFlags = s.st.ch1.lbrrFlags ∧
    (skipOne cfg i 1 s).st.ch0 = s.st.ch0 := by
  unfold skipOne
  have one_ne : ¬ (1 : Nat) = 0 := by omega
  have hf : (s'.st.ch 1).lbrrFlags = (s.st.ch 1).lbrrFlags := by
    simp only [SilkSt.ch, one_ne, if_false]; exact (h.e1 hc2).2.2.symm
  rw [hf]
  split
  · rename_i hfl
    have hr := skipStereoG_rel stereoDecodePred stereoDecodeMidOnly cfg _ _ i 1 s s' h
    have hs1 := skipStereoG_st stereoDecodePred stereoDecodeMidOnly cfg i 1 s
    have hs2 := skipStereoG_st stereoDecodePred stereoDecodeMidOnly cfg i 1 s'
    unfold skipStereo
    generalize skipStereoG stereoDecodePred stereoDecodeMidOnly cfg i 1 s = t at hr hs1
    generalize skipStereoG stereoDecodePred stereoDecodeMidOnly cfg i 1 s' = t' at hr hs2
    have hrel := decodeOne_rel cfg 1 i 1 (if i > 0 ∧ (s.st.ch 1).lbrrFlags.getD (i - 1) 0 ≠ 0 then 2 else 0)
      (t.st.ch 1) (t'.st.ch 1) t.c (by simp only [SilkSt.ch, one_ne, if_false]; exact hr.e1 hc2) (by
        intro hcc
        simp only [SilkSt.ch, one_ne, if_false]
        apply hr.p1
        by_cases hq : i > 0 ∧ (s.st.ch 1).lbrrFlags.getD (i - 1) 0 ≠ 0
        · simpa [SilkSt.ch, lbrrAt] using hq
        · rw [if_neg hq] at hcc; exact absurd hcc (by omega))
    have hfr := decodeOne_frame cfg 1 i 1 (if i > 0 ∧ (s.st.ch 1).lbrrFlags.getD (i - 1) 0 ≠ 0 then 2 else 0) (t.st.ch 1) t.c
    rw [← hr.c] at *
    generalize decodeOne cfg 1 i 1 (if i > 0 ∧ (s.st.ch 1).lbrrFlags.getD (i - 1) 0 ≠ 0 then 2 else 0) (t.st.ch 1) t.c = y at hrel hfr
    generalize decodeOne cfg 1 i 1 (if i > 0 ∧ (s.st.ch 1).lbrrFlags.getD (i - 1) 0 ≠ 0 then 2 else 0) (t'.st.ch 1) t.c = y' at hrel
    split
    rename_i _ evs ch2 c1
    split
    rename_i _ evs' ch2' c1'
    dsimp only at hrel hfr ⊢
    simp only [SilkSt.ch, one_ne, if_false] at hfr
    refine ⟨⟨hrel.2.1, by dsimp only; rw [hr.evs, hrel.1], hr.dom, ?_, ?_, ?_, ?_⟩, ?_, ?_⟩
    · simp only [SilkSt.setCh, one_ne, if_false]; exact hr.e0
    · intro _; simp only [SilkSt.setCh, one_ne, if_false]; exact hrel.2.2.1
    · intro hp; simp only [SilkSt.setCh, one_ne, if_false]; exact hr.p0 hp
    · intro _; simp only [SilkSt.setCh, one_ne, if_false]; exact hrel.2.2.2
    · simp only [SilkSt.setCh, one_ne, if_false]; rw [hfr.2.2, hs1]
    · simp only [SilkSt.setCh, one_ne, if_false]; rw [hs1]
  · rename_i hfl
    refine ⟨⟨h.c, h.evs, h.dom, h.e0, h.e1, h.p0, ?_⟩, rfl, rfl⟩
    intro hp
    exact absurd hp (by simpa [SilkSt.ch, lbrrAt] using hfl)

theorem SkipRel.mono {cfg : Cfg} {P0 P1 Q0 Q1 : Prop} {s s' : SkipSt} (h : SkipRel cfg P0 P1 s s')
    (h0 : Q0 → P0) (h1 : Q1 → P1) : SkipRel cfg Q0 Q1 s s' :=
  ⟨h.c, h.evs, h.dom, h.e0, h.e1, fun q => h.p0 (h0 q), fun q => h.p1 (h1 q)⟩

/-- The relation at the top of iteration `i` of the frame loop of the LBRR-skipping code. -/
def FrameRel (cfg : Cfg) (i : Nat) (s s' : SkipSt) : Prop :=
  SkipRel cfg (i > 0 ∧ lbrrAt s.st.ch0.lbrrFlags (i - 1))
    (cfg.nCh = 2 ∧ i > 0 ∧ lbrrAt s.st.ch1.lbrrFlags (i - 1)) s s'

theorem skipChans_rel (cfg : Cfg) (hN : cfg.nCh = 1 ∨ cfg.nCh = 2) (i : Nat) (s s' : SkipSt)
    (h : FrameRel cfg i s s') :
    FrameRel cfg (i + 1) (skipChans cfg i (List.range cfg.nCh) s) (skipChans cfg i (List.range cfg.nCh) s') := by
  unfold FrameRel at h ⊢
  rcases hN with hN | hN
  · have hr : List.range cfg.nCh = [0] := by rw [hN]; rfl
    rw [hr]
    unfold skipChans skipChans
    have h0 := skipOne_rel0 cfg _ i s s' h
    refine h0.1.mono ?_ ?_
    · intro hq; rw [h0.2.1] at hq; simpa using hq.2
    · intro hq; exact absurd hq.1 (by omega)
  · have hr : List.range cfg.nCh = [0, 1] := by rw [hN]; rfl
    rw [hr]
    unfold skipChans skipChans skipChans
    have h0 := skipOne_rel0 cfg _ i s s' h
    have h0' : SkipRel cfg (lbrrAt s.st.ch0.lbrrFlags i)
        (i > 0 ∧ lbrrAt (skipOne cfg i 0 s).st.ch1.lbrrFlags (i - 1)) (skipOne cfg i 0 s) (skipOne cfg i 0 s') := by
      refine h0.1.mono (fun q => q) ?_
      intro hq; rw [h0.2.2] at hq; exact ⟨hN, hq.1, hq.2⟩
    have h1 := skipOne_rel1 cfg hN _ i _ _ h0'
    refine h1.1.mono ?_ ?_
    · intro hq; rw [h1.2.2, h0.2.1] at hq; simpa using hq.2
    · intro hq; rw [h1.2.1] at hq; simpa using hq.2.2

theorem skipFrames_rel (cfg : Cfg) (hN : cfg.nCh = 1 ∨ cfg.nCh = 2) : ∀ (k i : Nat) (s s' : SkipSt),
    FrameRel cfg i s s' →
    FrameRel cfg (i + k) (skipFrames cfg (List.range' i k) s) (skipFrames cfg (List.range' i k) s')
  | 0, i, s, s', h => by simp only [List.range', skipFrames]; exact h
  | k + 1, i, s, s', h => by
    simp only [List.range', skipFrames]
    have := skipFrames_rel cfg hN k (i + 1) _ _ (skipChans_rel cfg hN i s s' h)
    have e : i + 1 + k = i + (k + 1) := by omega
    rw [e] at this
    exact this


/-! ### Single-run facts: the skipping code touches only the conditional-coding memory -/

theorem ChanEqv.refl (a : Chan) : ChanEqv a a := ⟨rfl, rfl, rfl⟩
theorem ChanEqv.symm {a b : Chan} (h : ChanEqv a b) : ChanEqv b a := ⟨h.1.symm, h.2.1.symm, h.2.2.symm⟩
theorem ChanEqv.trans {a b c : Chan} (h : ChanEqv a b) (g : ChanEqv b c) : ChanEqv a c :=
  ⟨h.1.trans g.1, h.2.1.trans g.2.1, h.2.2.trans g.2.2⟩

theorem skipOne_view (cfg : Cfg) (i n : Nat) (s : SkipSt) :
    ChanEqv (skipOne cfg i n s).st.ch0 s.st.ch0 ∧ ChanEqv (skipOne cfg i n s).st.ch1 s.st.ch1 := by
  unfold skipOne
  split
  · unfold skipStereo
    have hs := skipStereoG_st stereoDecodePred stereoDecodeMidOnly cfg i n s
    generalize skipStereoG stereoDecodePred stereoDecodeMidOnly cfg i n s = t at hs
    have hfr := decodeOne_frame cfg n i 1 (if i > 0 ∧ (s.st.ch n).lbrrFlags.getD (i - 1) 0 ≠ 0 then 2 else 0) (t.st.ch n) t.c
    generalize decodeOne cfg n i 1 (if i > 0 ∧ (s.st.ch n).lbrrFlags.getD (i - 1) 0 ≠ 0 then 2 else 0) (t.st.ch n) t.c = y at hfr
    split
    rename_i _ evs ch2 c1
    dsimp only at hfr ⊢
    rw [hs] at hfr ⊢
    by_cases hn : n = 0
    · subst hn
      simp only [SilkSt.setCh, SilkSt.ch, if_true] at hfr ⊢
      exact ⟨hfr, ChanEqv.refl _⟩
    · simp only [SilkSt.setCh, SilkSt.ch, hn, if_false] at hfr ⊢
      exact ⟨ChanEqv.refl _, hfr⟩
  · exact ⟨ChanEqv.refl _, ChanEqv.refl _⟩

theorem skipChans_view (cfg : Cfg) (i : Nat) : ∀ (ns : List Nat) (s : SkipSt),
    ChanEqv (skipChans cfg i ns s).st.ch0 s.st.ch0 ∧ ChanEqv (skipChans cfg i ns s).st.ch1 s.st.ch1
  | [], s => by unfold skipChans; exact ⟨ChanEqv.refl _, ChanEqv.refl _⟩
  | n :: ns, s => by
    unfold skipChans
    have h1 := skipChans_view cfg i ns (skipOne cfg i n s)
    have h2 := skipOne_view cfg i n s
    exact ⟨h1.1.trans h2.1, h1.2.trans h2.2⟩

theorem skipFrames_view (cfg : Cfg) : ∀ (is : List Nat) (s : SkipSt),
    ChanEqv (skipFrames cfg is s).st.ch0 s.st.ch0 ∧ ChanEqv (skipFrames cfg is s).st.ch1 s.st.ch1
  | [], s => by unfold skipFrames; exact ⟨ChanEqv.refl _, ChanEqv.refl _⟩
  | i :: is, s => by
    unfold skipFrames
    have h1 := skipFrames_view cfg is (skipChans cfg i (List.range cfg.nCh) s)
    have h2 := skipChans_view cfg i (List.range cfg.nCh) s
    exact ⟨h1.1.trans h2.1, h1.2.trans h2.2⟩

/-! ### The header of a payload -/

def Bits (l : List Nat) : Prop := ∀ b ∈ l, b ≤ 1

/-- What the header establishes, whatever the two incoming states were (they only have to agree on the frame
    counters, which `silk_Decode` has just reset). -/
structure HdrRel (cfg : Cfg) (st : SilkSt) (s s' : SkipSt) : Prop where
  rel : FrameRel cfg 0 s s'
  b0 : Bits s.st.ch0.lbrrFlags
  b1 : cfg.nCh = 2 → Bits s.st.ch1.lbrrFlags
  n0 : s.st.ch0.nFramesDecoded = st.ch0.nFramesDecoded
  n1 : cfg.nCh = 2 → s.st.ch1.nFramesDecoded = st.ch1.nFramesDecoded
  pd : s.st.prevDecodeOnlyMiddle = st.prevDecodeOnlyMiddle

theorem decodeFlagsMono_rel (cfg : Cfg) (hN : cfg.nCh = 1) (st st' : SilkSt) (c : Dec)
    (h0 : st.ch0.nFramesDecoded = st'.ch0.nFramesDecoded) :
    HdrRel cfg st (decodeFlagsMono cfg st c) (decodeFlagsMono cfg st' c) := by
  unfold decodeFlagsMono
  generalize decodeChanFlags cfg.nfpp c = y
  split
  rename_i _ v0 l0 c1
  have hb := decodeLbrrFlags_ok cfg.nfpp l0 c1
  generalize decodeLbrrFlags cfg.nfpp l0 c1 = z at hb
  split
  rename_i _ f0 c2
  dsimp only at hb ⊢
  refine ⟨⟨rfl, rfl, rfl, ⟨h0, rfl, rfl⟩, fun h => absurd h (by omega), fun h => absurd h.1 (by omega),
    fun h => absurd h.2.1 (by omega)⟩, hb.2, fun h => absurd h (by omega), rfl, fun h => absurd h (by omega), rfl⟩

theorem decodeFlagsStereo_rel (cfg : Cfg) (st st' : SilkSt) (c : Dec)
    (h0 : st.ch0.nFramesDecoded = st'.ch0.nFramesDecoded) (h1 : st.ch1.nFramesDecoded = st'.ch1.nFramesDecoded) :
    HdrRel cfg st (decodeFlagsStereo cfg st c) (decodeFlagsStereo cfg st' c) := by
  unfold decodeFlagsStereo
  generalize decodeChanFlags cfg.nfpp c = y
  split
  rename_i _ v0 l0 c1
  generalize decodeChanFlags cfg.nfpp c1 = y
  split
  rename_i _ v1 l1 c2
  have hb := decodeLbrrFlags_ok cfg.nfpp l0 c2
  generalize decodeLbrrFlags cfg.nfpp l0 c2 = z at hb
  split
  rename_i _ f0 c3
  have hb' := decodeLbrrFlags_ok cfg.nfpp l1 c3
  generalize decodeLbrrFlags cfg.nfpp l1 c3 = z at hb'
  split
  rename_i _ f1 c4
  dsimp only at hb hb' ⊢
  refine ⟨⟨rfl, rfl, rfl, ⟨h0, rfl, rfl⟩, fun _ => ⟨h1, rfl, rfl⟩, fun h => absurd h.1 (by omega),
    fun h => absurd h.2.1 (by omega)⟩, hb.2, fun _ => hb'.2, rfl, fun _ => rfl, rfl⟩

/-- Result of the whole header (flags + LBRR skipping): the two runs agree on context, events and
    `decode_only_middle`, and on everything in the channels that steers later reads. -/
structure HdrOut (cfg : Cfg) (st : SilkSt) (s s' : SkipSt) : Prop where
  c : s.c = s'.c
  evs : s.evs = s'.evs
  dom : s.dom = s'.dom
  e0 : ChanEqv s.st.ch0 s'.st.ch0
  e1 : cfg.nCh = 2 → ChanEqv s.st.ch1 s'.st.ch1
  b0 : Bits s.st.ch0.lbrrFlags
  b1 : cfg.nCh = 2 → Bits s.st.ch1.lbrrFlags
  n0 : s.st.ch0.nFramesDecoded = st.ch0.nFramesDecoded
  n1 : cfg.nCh = 2 → s.st.ch1.nFramesDecoded = st.ch1.nFramesDecoded

theorem decodeHeader_rel (cfg : Cfg) (hN : cfg.nCh = 1 ∨ cfg.nCh = 2) (st st' : SilkSt) (c : Dec)
    (h0 : st.ch0.nFramesDecoded = st'.ch0.nFramesDecoded)
    (h1 : cfg.nCh = 2 → st.ch1.nFramesDecoded = st'.ch1.nFramesDecoded) :
    HdrOut cfg st (decodeHeader cfg st c) (decodeHeader cfg st' c) := by
  unfold decodeHeader
  have hf : HdrRel cfg st (if cfg.nCh = 2 then decodeFlagsStereo cfg st c else decodeFlagsMono cfg st c)
      (if cfg.nCh = 2 then decodeFlagsStereo cfg st' c else decodeFlagsMono cfg st' c) := by
    rcases hN with hN | hN
    · have : ¬ cfg.nCh = 2 := by omega
      rw [if_neg this, if_neg this]; exact decodeFlagsMono_rel cfg hN st st' c h0
    · rw [if_pos hN, if_pos hN]; exact decodeFlagsStereo_rel cfg st st' c h0 (h1 hN)
  generalize (if cfg.nCh = 2 then decodeFlagsStereo cfg st c else decodeFlagsMono cfg st c) = s at hf
  generalize (if cfg.nCh = 2 then decodeFlagsStereo cfg st' c else decodeFlagsMono cfg st' c) = s' at hf
  split
  · have hr := skipFrames_rel cfg hN cfg.nfpp 0 s s' hf.rel
    rw [List.range_eq_range']
    have hv := skipFrames_view cfg (List.range' 0 cfg.nfpp) s
    unfold FrameRel at hr
    exact ⟨hr.c, hr.evs, hr.dom, hr.e0, hr.e1, by rw [hv.1.2.2]; exact hf.b0,
      fun h => by rw [hv.2.2.2]; exact hf.b1 h, by rw [hv.1.1]; exact hf.n0, fun h => by rw [hv.2.1]; exact hf.n1 h⟩
  · have hr := hf.rel
    unfold FrameRel at hr
    exact ⟨hr.c, hr.evs, hr.dom, hr.e0, hr.e1, hf.b0, hf.b1, hf.n0, hf.n1⟩


/-! ### One `silk_Decode` call behind the header -/

theorem decodeStereoHeadG_eq (P : Dec → StereoPred × Dec) (M : Dec → Nat × Dec) (cfg : Cfg) (st st' : SilkSt)
    (dom : Nat) (c : Dec) (e0 : ChanEqv st.ch0 st'.ch0) (e1 : cfg.nCh = 2 → ChanEqv st.ch1 st'.ch1) :
    decodeStereoHeadG P M cfg st dom c = decodeStereoHeadG P M cfg st' dom c := by
  unfold decodeStereoHeadG
  by_cases h2 : cfg.nCh = 2
  · have hp : hasPred cfg st' = hasPred cfg st := by
      unfold hasPred; rw [e0.1, e0.2.2]
    have hm : hasMidOnly cfg st' = hasMidOnly cfg st := by
      unfold hasMidOnly; rw [e0.1, (e1 h2).2.1, (e1 h2).2.2]
    rw [hp, hm]
  · simp only [h2, false_and, if_false]

/-- The channel-level content of `decodeChan`. -/
def chanStep (cfg : Cfg) (reads : Bool) (n cc : Nat) (ch : Chan) (c : Dec) : List Ev × Chan × Dec :=
  if reads then
    match decodeOne cfg n ch.nFramesDecoded cfg.lostFlag cc ch c with
    | (evs, ch', c1) => (evs, { ch' with nFramesDecoded := ch'.nFramesDecoded + 1 }, c1)
  else ([], { ch with nFramesDecoded := ch.nFramesDecoded + 1 }, c)

theorem decodeChan_eq (cfg : Cfg) (hs : Bool) (n : Nat) (st : SilkSt) (c : Dec) :
    decodeChan cfg hs n st c =
      ((chanStep cfg (readsFrame cfg hs n (st.ch n)) n (condCodingOf cfg st n st.ch0.nFramesDecoded) (st.ch n) c).1,
       st.setCh n (chanStep cfg (readsFrame cfg hs n (st.ch n)) n (condCodingOf cfg st n st.ch0.nFramesDecoded) (st.ch n) c).2.1,
       (chanStep cfg (readsFrame cfg hs n (st.ch n)) n (condCodingOf cfg st n st.ch0.nFramesDecoded) (st.ch n) c).2.2) := by
  unfold decodeChan chanStep
  split
  · generalize decodeOne cfg n (st.ch n).nFramesDecoded cfg.lostFlag
      (condCodingOf cfg st n st.ch0.nFramesDecoded) (st.ch n) c = y
    split
    rfl
  · rfl

theorem chanStep_rel (cfg : Cfg) (reads : Bool) (n cc : Nat) (ch ch' : Chan) (c : Dec)
    (he : ChanEqv ch ch') (hp : reads = true → cc = 2 → PrevEq ch ch') :
    (chanStep cfg reads n cc ch c).1 = (chanStep cfg reads n cc ch' c).1 ∧
    (chanStep cfg reads n cc ch c).2.2 = (chanStep cfg reads n cc ch' c).2.2 ∧
    ChanEqv (chanStep cfg reads n cc ch c).2.1 (chanStep cfg reads n cc ch' c).2.1 ∧
    (reads = true → PrevEq (chanStep cfg reads n cc ch c).2.1 (chanStep cfg reads n cc ch' c).2.1) ∧
    (chanStep cfg reads n cc ch c).2.1.nFramesDecoded = ch.nFramesDecoded + 1 ∧
    (chanStep cfg reads n cc ch c).2.1.vad = ch.vad ∧
    (chanStep cfg reads n cc ch c).2.1.lbrrFlags = ch.lbrrFlags := by
  unfold chanStep
  by_cases hr : reads = true
  · rw [if_pos hr, if_pos hr, ← he.1]
    have h1 := decodeOne_rel cfg n ch.nFramesDecoded cfg.lostFlag cc ch ch' c he (hp hr)
    have h2 := decodeOne_frame cfg n ch.nFramesDecoded cfg.lostFlag cc ch c
    generalize decodeOne cfg n ch.nFramesDecoded cfg.lostFlag cc ch c = y at h1 h2
    generalize decodeOne cfg n ch.nFramesDecoded cfg.lostFlag cc ch' c = y' at h1
    split
    rename_i _ evs x c1
    split
    rename_i _ evs' x' c1'
    dsimp only at h1 h2 ⊢
    refine ⟨h1.1, h1.2.1, ⟨by rw [h1.2.2.1.1], h1.2.2.1.2.1, h1.2.2.1.2.2⟩, fun _ => h1.2.2.2, by rw [h2.1], h2.2.1, h2.2.2⟩
  · rw [if_neg hr, if_neg hr]
    dsimp only
    exact ⟨rfl, rfl, ⟨by rw [he.1], he.2.1, he.2.2⟩, fun h => absurd h hr, rfl, rfl, rfl⟩

theorem condCodingOf_congr (cfg : Cfg) (st st' : SilkSt) (n fd0 : Nat)
    (hf : (st.ch n).lbrrFlags = (st'.ch n).lbrrFlags)
    (hd : fd0 > n → n > 0 → st.prevDecodeOnlyMiddle = st'.prevDecodeOnlyMiddle) :
    condCodingOf cfg st n fd0 = condCodingOf cfg st' n fd0 := by
  unfold condCodingOf
  rw [hf]
  by_cases h1 : fd0 ≤ n
  · simp only [h1, if_true]
  · simp only [h1, if_false]
    by_cases h2 : cfg.lostFlag = 2
    · simp only [h2, if_true]
    · simp only [h2, if_false]
      by_cases h3 : n > 0
      · rw [hd (by omega) h3]
      · simp only [h3, false_and, if_false]

theorem bits_getD {l : List Nat} (hb : Bits l) {i : Nat} (h : l.getD i 0 ≠ 0) : l.getD i 0 = 1 := by
  have : l.getD i 0 ≤ 1 := by
    rw [List.getD_eq_getElem?_getD]
    cases hq : l[i]? with
    | none => simp
    | some v =>
      simp only [Option.getD_some]
      exact hb v (List.mem_of_getElem? hq)
  omega

/-- The invariant between two runs at the start of a `silk_Decode` call. -/
structure Inv (cfg : Cfg) (st st' : SilkSt) : Prop where
  e0 : ChanEqv st.ch0 st'.ch0
  e1 : cfg.nCh = 2 → ChanEqv st.ch1 st'.ch1
  sync : cfg.nCh = 2 → st.ch1.nFramesDecoded = st.ch0.nFramesDecoded
  b0 : Bits st.ch0.lbrrFlags
  b1 : cfg.nCh = 2 → Bits st.ch1.lbrrFlags
  later : st.ch0.nFramesDecoded > 0 →
    st.prevDecodeOnlyMiddle = st'.prevDecodeOnlyMiddle ∧
    (condCodingOf cfg st 0 st.ch0.nFramesDecoded = 2 → PrevEq st.ch0 st'.ch0) ∧
    (cfg.nCh = 2 → condCodingOf cfg st 1 (st.ch0.nFramesDecoded + 1) = 2 → PrevEq st.ch1 st'.ch1)


@[simp] theorem ch_zero (st : SilkSt) : st.ch 0 = st.ch0 := by simp [SilkSt.ch]
@[simp] theorem ch_one (st : SilkSt) : st.ch 1 = st.ch1 := by simp [SilkSt.ch]
@[simp] theorem setCh0_ch0 (st : SilkSt) (x : Chan) : (st.setCh 0 x).ch0 = x := by simp [SilkSt.setCh]
@[simp] theorem setCh0_ch1 (st : SilkSt) (x : Chan) : (st.setCh 0 x).ch1 = st.ch1 := by simp [SilkSt.setCh]
@[simp] theorem setCh1_ch0 (st : SilkSt) (x : Chan) : (st.setCh 1 x).ch0 = st.ch0 := by simp [SilkSt.setCh]
@[simp] theorem setCh1_ch1 (st : SilkSt) (x : Chan) : (st.setCh 1 x).ch1 = x := by simp [SilkSt.setCh]
@[simp] theorem setCh0_pd (st : SilkSt) (x : Chan) : (st.setCh 0 x).prevDecodeOnlyMiddle = st.prevDecodeOnlyMiddle := by
  simp [SilkSt.setCh]
@[simp] theorem setCh1_pd (st : SilkSt) (x : Chan) : (st.setCh 1 x).prevDecodeOnlyMiddle = st.prevDecodeOnlyMiddle := by
  simp [SilkSt.setCh]

/-- Channel 0 of the per-channel loop. -/
def step0 (cfg : Cfg) (hs : Bool) (st : SilkSt) (c : Dec) : List Ev × Chan × Dec :=
  chanStep cfg (readsFrame cfg hs 0 st.ch0) 0 (condCodingOf cfg st 0 st.ch0.nFramesDecoded) st.ch0 c

/-- Channel 1 of the per-channel loop (it sees channel 0's counter already incremented). -/
def step1 (cfg : Cfg) (hs : Bool) (st : SilkSt) (c : Dec) : List Ev × Chan × Dec :=
  chanStep cfg (readsFrame cfg hs 1 st.ch1) 1
    (condCodingOf cfg st 1 (step0 cfg hs st c).2.1.nFramesDecoded) st.ch1 (step0 cfg hs st c).2.2

theorem condCodingOf_setCh0 (cfg : Cfg) (st : SilkSt) (x : Chan) (fd : Nat) :
    condCodingOf cfg (st.setCh 0 x) 1 fd = condCodingOf cfg st 1 fd :=
  condCodingOf_congr cfg _ _ 1 fd (by simp) (by intro _ _; simp)

theorem decodeChans_stereo (cfg : Cfg) (hs : Bool) (st : SilkSt) (c : Dec) (h2 : cfg.nCh = 2) :
    decodeChans cfg hs st c =
      ((step0 cfg hs st c).1 ++ (step1 cfg hs st c).1,
       (st.setCh 0 (step0 cfg hs st c).2.1).setCh 1 (step1 cfg hs st c).2.1, (step1 cfg hs st c).2.2) := by
  unfold decodeChans step1 step0
  simp only [decodeChan_eq, h2, if_true, ch_zero, ch_one, setCh0_ch0, setCh0_ch1, condCodingOf_setCh0]

theorem decodeChans_mono (cfg : Cfg) (hs : Bool) (st : SilkSt) (c : Dec) (h2 : ¬ cfg.nCh = 2) :
    decodeChans cfg hs st c =
      ((step0 cfg hs st c).1, st.setCh 0 (step0 cfg hs st c).2.1, (step0 cfg hs st c).2.2) := by
  unfold decodeChans step0
  simp only [decodeChan_eq, h2, if_false, ch_zero]

theorem readsFrame_zero (cfg : Cfg) (hs : Bool) (ch : Chan) :
    readsFrame cfg hs 0 ch =
      decide (cfg.lostFlag = 0 ∨ (cfg.lostFlag = 2 ∧ ch.lbrrFlags.getD ch.nFramesDecoded 0 = 1)) := by
  unfold readsFrame; simp

theorem readsFrame_one (cfg : Cfg) (hs : Bool) (ch : Chan) :
    readsFrame cfg hs 1 ch =
      (hs && decide (cfg.lostFlag = 0 ∨ (cfg.lostFlag = 2 ∧ ch.lbrrFlags.getD ch.nFramesDecoded 0 = 1))) := by
  unfold readsFrame; simp

theorem cc_two_pos (cfg : Cfg) (st : SilkSt) (n fd : Nat) (h : condCodingOf cfg st n fd = 2) : fd > n := by
  unfold condCodingOf at h
  by_cases h1 : fd ≤ n
  · rw [if_pos h1] at h; omega
  · omega


theorem step0_rel (cfg : Cfg) (hs hs' : Bool) (st st' : SilkSt) (c : Dec) (hi : Inv cfg st st') :
    (step0 cfg hs st c).1 = (step0 cfg hs' st' c).1 ∧
    (step0 cfg hs st c).2.2 = (step0 cfg hs' st' c).2.2 ∧
    ChanEqv (step0 cfg hs st c).2.1 (step0 cfg hs' st' c).2.1 ∧
    (readsFrame cfg hs 0 st.ch0 = true → PrevEq (step0 cfg hs st c).2.1 (step0 cfg hs' st' c).2.1) ∧
    (step0 cfg hs st c).2.1.nFramesDecoded = st.ch0.nFramesDecoded + 1 ∧
    (step0 cfg hs st c).2.1.vad = st.ch0.vad ∧
    (step0 cfg hs st c).2.1.lbrrFlags = st.ch0.lbrrFlags := by
  unfold step0
  have hr : readsFrame cfg hs' 0 st'.ch0 = readsFrame cfg hs 0 st.ch0 := by
    rw [readsFrame_zero, readsFrame_zero, ← hi.e0.1, ← hi.e0.2.2]
  have hcc : condCodingOf cfg st' 0 st'.ch0.nFramesDecoded = condCodingOf cfg st 0 st.ch0.nFramesDecoded := by
    rw [← hi.e0.1]
    exact condCodingOf_congr cfg st' st 0 _ (by simp only [ch_zero]; exact hi.e0.2.2.symm) (by intro _ h; omega)
  rw [hr, hcc]
  exact chanStep_rel cfg _ 0 _ st.ch0 st'.ch0 c hi.e0 (by
    intro _ h2
    exact (hi.later (by have := cc_two_pos cfg st 0 _ h2; omega)).2.1 h2)

theorem step1_rel (cfg : Cfg) (h2 : cfg.nCh = 2) (hL : cfg.lostFlag = 0 ∨ cfg.lostFlag = 2) (dom : Nat)
    (st st' : SilkSt) (c : Dec) (hi : Inv cfg st st') :
    (step1 cfg (hasSideOf cfg st dom) st c).1 = (step1 cfg (hasSideOf cfg st' dom) st' c).1 ∧
    (step1 cfg (hasSideOf cfg st dom) st c).2.2 = (step1 cfg (hasSideOf cfg st' dom) st' c).2.2 ∧
    ChanEqv (step1 cfg (hasSideOf cfg st dom) st c).2.1 (step1 cfg (hasSideOf cfg st' dom) st' c).2.1 ∧
    (readsFrame cfg (hasSideOf cfg st dom) 1 st.ch1 = true →
      PrevEq (step1 cfg (hasSideOf cfg st dom) st c).2.1 (step1 cfg (hasSideOf cfg st' dom) st' c).2.1) ∧
    (step1 cfg (hasSideOf cfg st dom) st c).2.1.nFramesDecoded = st.ch1.nFramesDecoded + 1 ∧
    (step1 cfg (hasSideOf cfg st dom) st c).2.1.vad = st.ch1.vad ∧
    (step1 cfg (hasSideOf cfg st dom) st c).2.1.lbrrFlags = st.ch1.lbrrFlags := by
  have h0 := step0_rel cfg (hasSideOf cfg st dom) (hasSideOf cfg st' dom) st st' c hi
  unfold step1
  have e1 := hi.e1 h2
  have hr : readsFrame cfg (hasSideOf cfg st' dom) 1 st'.ch1 = readsFrame cfg (hasSideOf cfg st dom) 1 st.ch1 := by
    rw [readsFrame_one, readsFrame_one, ← e1.1, ← e1.2.2]
    unfold hasSideOf
    rw [← e1.1, ← e1.2.2]
    generalize st.ch1.lbrrFlags.getD st.ch1.nFramesDecoded 0 = f
    rcases hL with hL | hL
    · simp [hL]
    · by_cases hf : f = 1
      · simp [hL, h2, hf]
      · simp [hL, hf]
  have hnf : (step0 cfg (hasSideOf cfg st' dom) st' c).2.1.nFramesDecoded =
      (step0 cfg (hasSideOf cfg st dom) st c).2.1.nFramesDecoded := h0.2.2.1.1.symm
  have hcc : condCodingOf cfg st' 1 (step0 cfg (hasSideOf cfg st' dom) st' c).2.1.nFramesDecoded =
      condCodingOf cfg st 1 (step0 cfg (hasSideOf cfg st dom) st c).2.1.nFramesDecoded := by
    rw [hnf, h0.2.2.2.2.1]
    exact condCodingOf_congr cfg st' st 1 _ (by simp only [ch_one]; exact e1.2.2.symm) (by
      intro hk _
      exact (hi.later (by omega)).1.symm)
  rw [hr, hcc, ← h0.2.1]
  refine chanStep_rel cfg _ 1 _ st.ch1 st'.ch1 _ e1 ?_
  intro _ hc2
  rw [h0.2.2.2.2.1] at hc2
  have hpos := cc_two_pos cfg st 1 _ hc2
  exact (hi.later (by omega)).2.2 h2 hc2

/-- The per-channel loop keeps the two runs related; afterwards (with `prev_decode_only_middle := dom` stored) the
    invariant holds again, now with a positive frame counter. -/
theorem decodeChans_rel (cfg : Cfg) (hN : cfg.nCh = 1 ∨ cfg.nCh = 2) (hL : cfg.lostFlag = 0 ∨ cfg.lostFlag = 2)
    (dom : Nat) (st st' : SilkSt) (c : Dec) (hi : Inv cfg st st') :
    (decodeChans cfg (hasSideOf cfg st dom) st c).1 = (decodeChans cfg (hasSideOf cfg st' dom) st' c).1 ∧
    (decodeChans cfg (hasSideOf cfg st dom) st c).2.2 = (decodeChans cfg (hasSideOf cfg st' dom) st' c).2.2 ∧
    Inv cfg { (decodeChans cfg (hasSideOf cfg st dom) st c).2.1 with prevDecodeOnlyMiddle := dom }
            { (decodeChans cfg (hasSideOf cfg st' dom) st' c).2.1 with prevDecodeOnlyMiddle := dom } ∧
    (decodeChans cfg (hasSideOf cfg st dom) st c).2.1.ch0.nFramesDecoded = st.ch0.nFramesDecoded + 1 := by
  have h0 := step0_rel cfg (hasSideOf cfg st dom) (hasSideOf cfg st' dom) st st' c hi
  -- channel 0 was decoded whenever its next frame can be coded conditionally
  have key0 : ∀ S : SilkSt, S.ch0.lbrrFlags = st.ch0.lbrrFlags →
      condCodingOf cfg S 0 (st.ch0.nFramesDecoded + 1) = 2 → readsFrame cfg (hasSideOf cfg st dom) 0 st.ch0 = true := by
    intro S hS hc
    rw [readsFrame_zero]
    rcases hL with hL | hL
    · simp [hL]
    · unfold condCodingOf at hc
      have hidx : st.ch0.nFramesDecoded + 1 - 0 - 1 = st.ch0.nFramesDecoded := by omega
      simp only [ch_zero, hS, hL, if_true, hidx] at hc
      have hb : st.ch0.lbrrFlags.getD st.ch0.nFramesDecoded 0 ≠ 0 → st.ch0.lbrrFlags.getD st.ch0.nFramesDecoded 0 = 1 :=
        bits_getD hi.b0
      generalize st.ch0.lbrrFlags.getD st.ch0.nFramesDecoded 0 = f at hc hb ⊢
      by_cases hz : f = 0
      · simp [hz] at hc
      · simp [hL, hb hz]
  rcases hN with hN | hN
  · have h2 : ¬ cfg.nCh = 2 := by omega
    rw [decodeChans_mono cfg _ st c h2, decodeChans_mono cfg _ st' c h2]
    refine ⟨h0.1, h0.2.1, ?_, ?_⟩
    · refine ⟨?_, fun h => absurd h h2, fun h => absurd h h2, ?_, fun h => absurd h h2, ?_⟩
      · simp only [setCh0_ch0]; exact h0.2.2.1
      · simp only [setCh0_ch0]; rw [h0.2.2.2.2.2.2]; exact hi.b0
      · intro _
        refine ⟨rfl, ?_, fun h => absurd h h2⟩
        simp only [setCh0_ch0]
        intro hc
        rw [h0.2.2.2.2.1] at hc
        exact h0.2.2.2.1 (key0 _ (by simp only [setCh0_ch0]; exact h0.2.2.2.2.2.2) hc)
    · simp only [setCh0_ch0]; exact h0.2.2.2.2.1
  · have h1 := step1_rel cfg hN hL dom st st' c hi
    rw [decodeChans_stereo cfg _ st c hN, decodeChans_stereo cfg _ st' c hN]
    refine ⟨by rw [h0.1, h1.1], h1.2.1, ?_, ?_⟩
    · refine ⟨?_, ?_, ?_, ?_, ?_, ?_⟩
      · simp only [setCh1_ch0, setCh0_ch0]; exact h0.2.2.1
      · intro _; simp only [setCh1_ch1]; exact h1.2.2.1
      · intro _; simp only [setCh1_ch1, setCh1_ch0, setCh0_ch0]
        rw [h1.2.2.2.2.1, h0.2.2.2.2.1, hi.sync hN]
      · simp only [setCh1_ch0, setCh0_ch0]; rw [h0.2.2.2.2.2.2]; exact hi.b0
      · intro _; simp only [setCh1_ch1]; rw [h1.2.2.2.2.2.2]; exact hi.b1 hN
      · intro _
        refine ⟨rfl, ?_, ?_⟩
        · simp only [setCh1_ch0, setCh0_ch0]
          intro hc
          rw [h0.2.2.2.2.1] at hc
          exact h0.2.2.2.1 (key0 _ (by simp only [setCh1_ch0, setCh0_ch0]; exact h0.2.2.2.2.2.2) hc)
        · intro _
          simp only [setCh1_ch0, setCh0_ch0, setCh1_ch1]
          intro hc
          rw [h0.2.2.2.2.1] at hc
          apply h1.2.2.2.1
          rw [readsFrame_one]
          unfold condCodingOf at hc
          simp only [ch_one, setCh1_ch1, h1.2.2.2.2.2.2] at hc
          have hk : ¬ (st.ch0.nFramesDecoded + 1 + 1 ≤ 1) := by omega
          simp only [hk, if_false] at hc
          unfold hasSideOf
          rcases hL with hL | hL
          · have hl2 : ¬ cfg.lostFlag = 2 := by omega
            simp only [hl2, if_false] at hc
            have hd : dom = 0 := by
              by_cases hd : dom = 0
              · exact hd
              · simp [hd] at hc
            simp [hL, hd]
          · simp only [hL, if_true] at hc
            have hidx : st.ch0.nFramesDecoded + 1 + 1 - 1 - 1 = st.ch1.nFramesDecoded := by
              rw [hi.sync hN]; omega
            rw [hidx] at hc
            have hb : st.ch1.lbrrFlags.getD st.ch1.nFramesDecoded 0 ≠ 0 → st.ch1.lbrrFlags.getD st.ch1.nFramesDecoded 0 = 1 :=
              bits_getD (hi.b1 hN)
            generalize st.ch1.lbrrFlags.getD st.ch1.nFramesDecoded 0 = f at hc hb ⊢
            by_cases hz : f = 0
            · simp [hz] at hc
            · simp [hL, hN, hb hz]
    · simp only [setCh1_ch0, setCh0_ch0]; exact h0.2.2.2.2.1


theorem decodeBody_rel (cfg : Cfg) (hN : cfg.nCh = 1 ∨ cfg.nCh = 2) (hL : cfg.lostFlag = 0 ∨ cfg.lostFlag = 2)
    (h h' : SkipSt) (hc : h.c = h'.c) (he : h.evs = h'.evs) (hd : h.dom = h'.dom) (hi : Inv cfg h.st h'.st) :
    (decodeBody cfg h).1 = (decodeBody cfg h').1 ∧ (decodeBody cfg h).2.2 = (decodeBody cfg h').2.2 ∧
    Inv cfg (decodeBody cfg h).2.1 (decodeBody cfg h').2.1 ∧
    (decodeBody cfg h).2.1.ch0.nFramesDecoded = h.st.ch0.nFramesDecoded + 1 := by
  unfold decodeBody decodeStereoHead
  rw [← hc, ← hd, ← he, ← decodeStereoHeadG_eq _ _ cfg h.st h'.st h.dom h.c hi.e0 hi.e1]
  generalize decodeStereoHeadG stereoDecodePred stereoDecodeMidOnly cfg h.st h.dom h.c = y
  split
  rename_i _ dom c1 e1
  dsimp only
  have hr := decodeChans_rel cfg hN hL dom h.st h'.st c1 hi
  generalize decodeChans cfg (hasSideOf cfg h.st dom) h.st c1 = z at hr
  generalize decodeChans cfg (hasSideOf cfg h'.st dom) h'.st c1 = z' at hr
  dsimp only at hr ⊢
  exact ⟨by rw [hr.1, hr.2.1], hr.2.1, hr.2.2.1, hr.2.2.2⟩

theorem beginCall_true (cfg : Cfg) (st : SilkSt) :
    (beginCall cfg true st).ch0.nFramesDecoded = 0 ∧ (cfg.nCh = 2 → (beginCall cfg true st).ch1.nFramesDecoded = 0) := by
  unfold beginCall
  simp only [if_true]
  refine ⟨trivial, fun h => ?_⟩
  simp only [h, if_true]

theorem beginCall_false (cfg : Cfg) (st : SilkSt) (h : st.ch0.nFramesDecoded ≠ 0) : beginCall cfg false st = st := by
  unfold beginCall
  simp only [Bool.false_eq_true, if_false, h]

/-- First call of a payload: from *arbitrary* states the two runs agree and end up related. -/
theorem silkDecodeCall_first (cfg : Cfg) (hN : cfg.nCh = 1 ∨ cfg.nCh = 2) (hL : cfg.lostFlag = 0 ∨ cfg.lostFlag = 2)
    (st st' : SilkSt) (c : Dec) :
    (silkDecodeCall cfg true st c).1 = (silkDecodeCall cfg true st' c).1 ∧
    (silkDecodeCall cfg true st c).2.2 = (silkDecodeCall cfg true st' c).2.2 ∧
    Inv cfg (silkDecodeCall cfg true st c).2.1 (silkDecodeCall cfg true st' c).2.1 ∧
    (silkDecodeCall cfg true st c).2.1.ch0.nFramesDecoded > 0 := by
  unfold silkDecodeCall
  have hb := beginCall_true cfg st
  have hb' := beginCall_true cfg st'
  rw [if_pos hb.1, if_pos hb'.1]
  have hh := decodeHeader_rel cfg hN (beginCall cfg true st) (beginCall cfg true st') c
    (by rw [hb.1, hb'.1]) (fun h => by rw [hb.2 h, hb'.2 h])
  generalize beginCall cfg true st = b at hb hh
  generalize beginCall cfg true st' = b' at hb' hh
  have hi : Inv cfg (decodeHeader cfg b c).st (decodeHeader cfg b' c).st :=
    ⟨hh.e0, hh.e1, fun h => by rw [hh.n1 h, hh.n0, hb.1, hb.2 h], hh.b0, hh.b1,
     fun h => by rw [hh.n0, hb.1] at h; omega⟩
  have hr := decodeBody_rel cfg hN hL _ _ hh.c hh.evs hh.dom hi
  exact ⟨hr.1, hr.2.1, hr.2.2.1, by rw [hr.2.2.2]; omega⟩

/-- A later call of the payload: related states stay related. -/
theorem silkDecodeCall_later (cfg : Cfg) (hN : cfg.nCh = 1 ∨ cfg.nCh = 2) (hL : cfg.lostFlag = 0 ∨ cfg.lostFlag = 2)
    (st st' : SilkSt) (c : Dec) (hi : Inv cfg st st') (hp : st.ch0.nFramesDecoded > 0) :
    (silkDecodeCall cfg false st c).1 = (silkDecodeCall cfg false st' c).1 ∧
    (silkDecodeCall cfg false st c).2.2 = (silkDecodeCall cfg false st' c).2.2 ∧
    Inv cfg (silkDecodeCall cfg false st c).2.1 (silkDecodeCall cfg false st' c).2.1 ∧
    (silkDecodeCall cfg false st c).2.1.ch0.nFramesDecoded > 0 := by
  unfold silkDecodeCall
  have h0 : st.ch0.nFramesDecoded ≠ 0 := by omega
  have h0' : st'.ch0.nFramesDecoded ≠ 0 := by rw [← hi.e0.1]; exact h0
  rw [beginCall_false cfg st h0, beginCall_false cfg st' h0', if_neg h0, if_neg h0']
  have hr := decodeBody_rel cfg hN hL { st := st, dom := 0, c := c, evs := [] } { st := st', dom := 0, c := c, evs := [] }
    rfl rfl rfl hi
  exact ⟨hr.1, hr.2.1, hr.2.2.1, by rw [hr.2.2.2]; omega⟩

theorem silkCalls_later (cfg : Cfg) (hN : cfg.nCh = 1 ∨ cfg.nCh = 2) (hL : cfg.lostFlag = 0 ∨ cfg.lostFlag = 2) :
    ∀ (k : Nat) (st st' : SilkSt) (c : Dec), Inv cfg st st' → st.ch0.nFramesDecoded > 0 →
    (silkCalls cfg k false st c).1 = (silkCalls cfg k false st' c).1 ∧
    (silkCalls cfg k false st c).2.2 = (silkCalls cfg k false st' c).2.2
  | 0, st, st', c, _, _ => by unfold silkCalls; exact ⟨rfl, rfl⟩
  | k + 1, st, st', c, hi, hp => by
    unfold silkCalls
    have h1 := silkDecodeCall_later cfg hN hL st st' c hi hp
    generalize silkDecodeCall cfg false st c = y at h1
    generalize silkDecodeCall cfg false st' c = y' at h1
    split
    rename_i _ e1 st1 c1
    dsimp only at h1 ⊢
    have h2 := silkCalls_later cfg hN hL k st1 y'.2.1 c1 h1.2.2.1 h1.2.2.2
    rw [← h1.2.1]
    generalize silkCalls cfg k false st1 c1 = z at h2
    generalize silkCalls cfg k false y'.2.1 c1 = z' at h2
    exact ⟨by rw [h1.1, h2.1], h2.2⟩

/-- All `silk_Decode` calls of one payload: events and final decoder context do not depend on the incoming state. -/
theorem silkCalls_first (cfg : Cfg) (hN : cfg.nCh = 1 ∨ cfg.nCh = 2) (hL : cfg.lostFlag = 0 ∨ cfg.lostFlag = 2)
    (k : Nat) (st st' : SilkSt) (c : Dec) :
    (silkCalls cfg k true st c).1 = (silkCalls cfg k true st' c).1 ∧
    (silkCalls cfg k true st c).2.2 = (silkCalls cfg k true st' c).2.2 := by
  cases k with
  | zero => unfold silkCalls; exact ⟨rfl, rfl⟩
  | succ k =>
    unfold silkCalls
    have h1 := silkDecodeCall_first cfg hN hL st st' c
    generalize silkDecodeCall cfg true st c = y at h1
    generalize silkDecodeCall cfg true st' c = y' at h1
    split
    rename_i _ e1 st1 c1
    dsimp only at h1 ⊢
    have h2 := silkCalls_later cfg hN hL k st1 y'.2.1 c1 h1.2.2.1 h1.2.2.2
    rw [← h1.2.1]
    generalize silkCalls cfg k false st1 c1 = z at h2
    generalize silkCalls cfg k false y'.2.1 c1 = z' at h2
    exact ⟨by rw [h1.1, h2.1], h2.2⟩

/-- Everything observable of a decoded frame: the record with the carried SILK state erased. -/
def _root_.Opus.SilkSyms.FrameOut.obs (o : FrameOut) : FrameOut := { o with st := {} }

theorem decodeOpusFrameCfg_hist (mode ir pm : Nat) (fec : Bool) (cfg : Cfg) (hN : cfg.nCh = 1 ∨ cfg.nCh = 2)
    (hL : cfg.lostFlag = 0 ∨ cfg.lostFlag = 2) (st st' : SilkSt) (fr : Bytes) :
    (decodeOpusFrameCfg mode ir pm fec cfg st fr).obs = (decodeOpusFrameCfg mode ir pm fec cfg st' fr).obs := by
  unfold decodeOpusFrameCfg
  have h := silkCalls_first cfg hN hL cfg.nfpp st st' (decInit fr fr.length)
  generalize silkCalls cfg cfg.nfpp true st (decInit fr fr.length) = y at h
  generalize silkCalls cfg cfg.nfpp true st' (decInit fr fr.length) = y' at h
  split
  rename_i _ evs st1 c1
  dsimp only at h ⊢
  rw [← h.1, ← h.2]
  generalize redundancyHeader mode fec fr.length c1 = z
  rfl


/-! ### Frames of a packet -/

def obsFrame : Res FrameOut → Res FrameOut
  | .ok o => .ok o.obs
  | r => r

def _root_.Opus.SilkSyms.FrameRes.obs : FrameRes → FrameRes
  | .silk off o => .silk off o.obs
  | x => x

def obsList : Res (List FrameRes) → Res (List FrameRes)
  | .ok l => .ok (l.map FrameRes.obs)
  | r => r

def obsPacket : Res (Option (List FrameRes)) → Res (Option (List FrameRes))
  | .ok (some l) => .ok (some (l.map FrameRes.obs))
  | r => r

theorem decodeOpusFrame_hist (mode bw nCh ms10 : Nat) (hN : nCh = 1 ∨ nCh = 2) (fec : Bool) (st st' : SilkSt)
    (fr : Bytes) :
    obsFrame (decodeOpusFrame mode bw nCh ms10 fec st fr) = obsFrame (decodeOpusFrame mode bw nCh ms10 fec st' fr) := by
  unfold decodeOpusFrame
  split
  · split
    · split
      · unfold obsFrame
        dsimp only
        rw [decodeOpusFrameCfg_hist _ _ _ _ _ hN (by dsimp only; cases fec <;> simp) st st' fr]
      all_goals rfl
    all_goals rfl
  all_goals rfl

theorem framesLoop_hist (toc : Nat) (pkt : Bytes) (fec : Bool) : ∀ (spans : List (Nat × Nat)) (st st' : SilkSt),
    obsList (framesLoop toc pkt fec spans st) = obsList (framesLoop toc pkt fec spans st')
  | [], st, st' => by unfold framesLoop; rfl
  | (off, sz) :: rest, st, st' => by
    unfold framesLoop
    split
    · have ih := framesLoop_hist toc pkt fec rest st st'
      generalize framesLoop toc pkt fec rest st = a at ih
      generalize framesLoop toc pkt fec rest st' = b at ih
      cases a <;> cases b <;> simp_all [obsList]
    · split
      · have ih := framesLoop_hist toc pkt fec rest st st'
        generalize framesLoop toc pkt fec rest st = a at ih
        generalize framesLoop toc pkt fec rest st' = b at ih
        cases a <;> cases b <;> simp_all [obsList]
      · have hN : Framing.getNbChannels toc = 1 ∨ Framing.getNbChannels toc = 2 := by
          unfold Framing.getNbChannels; split <;> simp
        have hf := decodeOpusFrame_hist (Framing.getMode toc) (Framing.getBandwidth toc) (Framing.getNbChannels toc)
          (Framing.samplesPerFrame toc 48000 * 10 / 48) hN fec st st' ((pkt.drop off).take sz)
        generalize decodeOpusFrame (Framing.getMode toc) (Framing.getBandwidth toc) (Framing.getNbChannels toc)
          (Framing.samplesPerFrame toc 48000 * 10 / 48) fec st ((pkt.drop off).take sz) = A at hf
        generalize decodeOpusFrame (Framing.getMode toc) (Framing.getBandwidth toc) (Framing.getNbChannels toc)
          (Framing.samplesPerFrame toc 48000 * 10 / 48) fec st' ((pkt.drop off).take sz) = B at hf
        cases A <;> cases B <;> simp only [obsFrame, Res.ok.injEq, reduceCtorEq] at hf <;> try rfl
        · rename_i o o'
          dsimp only
          have ih := framesLoop_hist toc pkt fec rest o.st o'.st
          generalize framesLoop toc pkt fec rest o.st = a at ih
          generalize framesLoop toc pkt fec rest o'.st = b at ih
          cases a <;> cases b <;> simp_all [obsList, FrameRes.obs]
        · simp_all

theorem someRes_obs (a b : Res (List FrameRes)) (h : obsList a = obsList b) :
    obsPacket (someRes a) = obsPacket (someRes b) := by
  cases a <;> cases b <;> simp_all [obsList, obsPacket, someRes]

/-- The observable result of decoding a packet does not depend on the SILK decoder state left by earlier packets. -/
theorem decodePacket_hist (fs : Nat) (fec pc : Bool) (st st' : SilkSt) (pkt : Bytes) :
    obsPacket (decodePacket fs fec pc st pkt) = obsPacket (decodePacket fs fec pc st' pkt) := by
  unfold decodePacket
  split
  · split
    · unfold decodeFrames
      split
      · split
        · rfl
        · exact someRes_obs _ _ (framesLoop_hist _ _ _ _ _ _)
      · exact someRes_obs _ _ (framesLoop_hist _ _ _ _ _ _)
    all_goals rfl
  · rfl

end Opus.SilkSymsProofs
