import OpusProofs.RangeCoderTrunc
/-
  C08, frame level: the finished stream may be embedded in a larger one.

  * `encDone_contains_ext`: the interval property of `ec_enc_done` depends only on the bytes the range coder
    wrote (`n ≤ storage` of them): ANY stream that starts with them has its code value in the encoder's final
    interval, whatever follows (redundancy frame bytes behind the main part of an Opus frame, for instance).
  * `decode_flags_prefix_stream`: the patched round trip up to a prefix `pre` of the operations, for any
    stream whose code value lies in the interval reached after `pre ++ suf`: the decoder returns the values
    of `pre` and is in lock step (invariant D) with the encoder state after `pre`.  This is the hand-over
    from the SILK part and the redundancy flags to the CELT part of a hybrid frame.
-/
namespace Opus.RangeCoder
open Opus

theorem encDone_contains_ext (c : Enc) (inv : EncInv c) (ri : RawInv c) (hb : BytesOk c.buf)
    (hn : c.nbitsTotal < 4294967296) (herr : (encDone c).error = 0) :
    ∃ n, n ≤ c.storage ∧ 8 * n + ilog c.rng ≤ 8 * encM c + 40 ∧
      ∀ (B' : List Nat) (S' : Nat), (∀ i, byteAt B' S' i < 256) →
      (∀ i, i < n → byteAt B' S' i = byteAt (encDone c).buf c.storage i) → Contains B' S' c := by
  rw [encDone_eq'] at herr ⊢
  have herr2 : (doneRange c).1.error = 0 := by
    apply Classical.byContradiction; intro hne
    exact doneRaw_error_mono _ _ hne herr
  obtain ⟨l0, T, hl1, hT, hil, hbits, e0, wf2, ho, sr, hdrop, hz, hcont⟩ := doneRange_spec c inv hn herr2
  rw [hl1] at herr ⊢
  have hb2 := doneRange_bytesOk c hb
  generalize (doneRange c).1 = c2 at *
  obtain ⟨s1, s2, s3, s4, s5, s6⟩ := sr
  obtain ⟨_, d1, d2, d3, ⟨δ, hδ, hcv⟩, d5⟩ := doneRaw_spec c2 T hT wf2.offs_le wf2.storage_le
    ⟨by rw [s3, s4]; exact ri.win_lt, by rw [s4]; exact ri.nend_le⟩ hb2 hz herr
  rw [s1] at hcv
  refine ⟨c2.offs, by have := wf2.offs_le; rw [s1] at this; omega, by omega, ?_⟩
  intro B' S' hby hag
  apply hcont B' S' hby δ hδ
  rw [← hcv]
  exact codeVal_congr _ hag

/-! ### Patched runs: splitting at a prefix -/

theorem legalRunP_append (n : Nat) (a b : List Op) : ∀ (c : Enc), LegalRunP n c (a ++ b) ↔
    LegalRunP n c a ∧ LegalRunP n (encRun c a) b := by
  induction a with
  | nil => intro c; simp [LegalRunP, encRun]
  | cons op a ih =>
    intro c
    simp only [List.cons_append, LegalRunP, encRun, ih, and_assoc]

theorem lastPatch_append (t : Nat) (a b : List Op) : lastPatch t (a ++ b) = lastPatch (lastPatch t a) b := by
  induction a generalizing t with
  | nil => rfl
  | cons op a ih => cases op <;> simp only [List.cons_append, lastPatch, ih]

theorem lastPatch_legalRun (t : Nat) : ∀ (ops : List Op) (c : Enc), LegalRun c ops → lastPatch t ops = t := by
  intro ops
  induction ops with
  | nil => intro _ _; rfl
  | cons op ops ih =>
    intro c h
    cases op with
    | patchInitial v n => exact absurd h.1 (by simp [Op.LegalAt])
    | _ => simp only [lastPatch]; exact ih _ h.2

theorem legalRunP_of_legalRun (n : Nat) : ∀ (ops : List Op) (c : Enc), LegalRun c ops → LegalRunP n c ops := by
  intro ops
  induction ops with
  | nil => intro _ _; trivial
  | cons op ops ih =>
    intro c h
    refine ⟨?_, ih _ h.2⟩
    cases op with
    | patchInitial v k => exact absurd h.1 (by simp [Op.LegalAt])
    | _ => exact h.1

/-- The patched round trip up to a prefix, for any stream in the final interval. -/
theorem decode_flags_prefix_stream (buf : List Nat) (size k : Nat) (pre suf : List Op) (hs : size ≤ buf.length)
    (hb : BytesOk buf) (hk1 : 1 ≤ k) (hk8 : k ≤ 8)
    (hl : LegalRunP k (encOp (encInit buf size) (.icdf 0 (flagTable k) 8)) pre)
    (hl2 : LegalRun (encRun (encInit buf size) (.icdf 0 (flagTable k) 8 :: pre)) suf)
    (hnF : (encRun (encInit buf size) (.icdf 0 (flagTable k) 8 :: (pre ++ suf))).nbitsTotal < 4294967296)
    (herrF : (encRun (encInit buf size) (.icdf 0 (flagTable k) 8 :: (pre ++ suf))).error = 0)
    (B : List Nat) (S : Nat) (hB : BytesOk B) (hS : 0 < S) (hBl : 0 < B.length)
    (hc : Contains B S (encRun (encInit buf size) (.icdf 0 (flagTable k) 8 :: (pre ++ suf))))
    (hr : RawC B S (encRun (encInit buf size) (.icdf 0 (flagTable k) 8 :: pre))) :
    MatchAll (bitsOps (lastPatch 0 pre) k ++ pre)
      (decRun (decInit B S) (bitsOps (lastPatch 0 pre) k ++ pre)).1 ∧
    DecAll B S (encRun (encInit buf size) (.icdf 0 (flagTable k) 8 :: pre))
      (decRun (decInit B S) (bitsOps (lastPatch 0 pre) k ++ pre)).2 B := by
  simp only [encRun] at hl2 hnF herrF hc hr ⊢
  rw [flag_placeholder_eq buf size k hk1 hk8] at hl hl2 hnF herrF hc hr ⊢
  have hfl : 0 < 2 ^ k := Nat.pow_pos (by decide)
  generalize he1 : encOp (encInit buf size) (.encodeBin 0 (0 + 1) k) = e1 at *
  rw [encRun_append] at hnF herrF hc
  have herrP : (encRun e1 pre).error = 0 := by
    apply Classical.byContradiction; intro hne
    exact encRun_error_mono suf _ hne herrF
  have hnP : (encRun e1 pre).nbitsTotal < 4294967296 := Nat.lt_of_le_of_lt (encRun_nbits_mono suf _) hnF
  have herr1 : e1.error = 0 := by
    apply Classical.byContradiction; intro hne
    exact encRun_error_mono pre _ hne herrP
  have hn1' : e1.nbitsTotal < 4294967296 := Nat.lt_of_le_of_lt (encRun_nbits_mono pre _) hnP
  have ri0 := runInv_encInit buf size hs hb
  have hleg : (Op.encodeBin 0 (0 + 1) k).LegalAt (encInit buf size) :=
    ⟨by omega, by omega, hk1, by omega⟩
  have ri1 : RunInv e1 := by
    rw [← he1]; exact (step_op _ _ ri0 hleg (by rw [he1]; exact hn1') (by rw [he1]; exact herr1)).run
  have hcell1 : Cell k 0 e1 := by
    rw [← he1]; exact cell_first buf size k 0 hs hb hk1 hk8 hfl (by rw [he1]; exact hn1') (by rw [he1]; exact herr1)
  obtain ⟨_, riP, cellP, b3, _⟩ := run_backP k pre e1 0 ri1 hcell1 hl hnP herrP
  generalize hw : lastPatch 0 pre = w at *
  have hlp2 := legalRunP_of_legalRun k suf _ hl2
  obtain ⟨_, riF, cellF, c3, _⟩ := run_backP k suf (encRun e1 pre) w riP cellP hlp2 hnF herrF
  have hws : lastPatch w suf = w := lastPatch_legalRun w suf _ hl2
  rw [hws] at cellF c3
  have hby : ∀ i, byteAt B S i < 256 := fun i => byteAt_lt_bytesOk hB S i
  have hself := setTop_self B S k w _ hS hby hc cellF
  have hcP : Contains B S (encRun e1 pre) := by
    have := c3 B S hS hBl hby (by rw [hself]; exact hc)
    rw [hself] at this; exact this
  have hc1 := b3 B S hS hBl hby (by rw [hself]; exact hcP)
  obtain ⟨m0, a0⟩ := flags_first B hB S hS hBl buf size k 0 w hs hb hk1 hk8 hfl cellP.t_lt hself
    (by rw [he1]; exact hn1') (by rw [he1]; exact herr1) (by rw [he1]; exact hc1)
  rw [he1] at a0
  obtain ⟨m1, a1⟩ := run_decodeP k B hB S hS hBl pre e1 _ 0 ri1 hcell1 hl a0 hnP herrP
    (by rw [hw, hself]; exact hcP) hr
  rw [hw, hself] at a1
  rw [decRun_append]
  exact ⟨matchAll_append m0 m1, a1⟩

/-- `ec_enc_patch_initial_bits` leaves `rng` and `nbits_total` alone. -/
theorem patch_rn (c : Enc) (v n : Nat) :
    (encPatchInitialBits c v n).rng = c.rng ∧ (encPatchInitialBits c v n).nbitsTotal = c.nbitsTotal := by
  unfold encPatchInitialBits
  simp only
  split
  · exact ⟨rfl, rfl⟩
  · split
    · exact ⟨rfl, rfl⟩
    · split
      · exact ⟨rfl, rfl⟩
      · split <;> exact ⟨rfl, rfl⟩

end Opus.RangeCoder
