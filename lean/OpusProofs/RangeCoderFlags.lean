import OpusProofs.RangeCoderPatchRun
/-
  OpusProofs.RangeCoderFlags — C08, the SILK header flags (silk/enc_API.c:346-351, 527-539;
  silk/dec_API.c:226-234): the encoder reserves `k` bits with one `ec_enc_icdf` symbol of probability
  `2^-k`, later overwrites them with `ec_enc_patch_initial_bits(flags, k)`; the decoder reads them
  with `k` calls `ec_dec_bit_logp(·, 1)`.
-/
namespace Opus.RangeCoder

/-- `k` bits of `w`, most significant first, each read/written with `ec_*_bit_logp(·, 1)`. -/
def bitsOps (w : Nat) : Nat → List Op
  | 0 => []
  | k + 1 => .bitLogp (w / 2 ^ k % 2) 1 :: bitsOps (w % 2 ^ k) k

theorem bitsOps_length (w k : Nat) : (bitsOps w k).length = k := by
  induction k generalizing w with
  | zero => rfl
  | succ k ih => simp [bitsOps, ih]

theorem decRun_append (a b : List Op) : ∀ (d : Dec),
    decRun d (a ++ b) = ((decRun d a).1 ++ (decRun (decRun d a).2 b).1, (decRun (decRun d a).2 b).2) := by
  induction a with
  | nil => intro d; simp [decRun]
  | cons op a ih => intro d; simp only [List.cons_append, decRun, ih]

theorem matchAll_append {a b : List Op} {xs ys : List Nat} (h1 : MatchAll a xs) (h2 : MatchAll b ys) :
    MatchAll (a ++ b) (xs ++ ys) := by
  induction a generalizing xs with
  | nil => cases xs with
    | nil => exact h2
    | cons x xs => exact absurd h1 (by simp [MatchAll])
  | cons op a ih => cases xs with
    | nil => exact absurd h1 (by simp [MatchAll])
    | cons x xs => exact ⟨h1.1, ih h1.2⟩

/-- One `ec_dec_bit_logp(·, 1)` on a power-of-two range that stays above `2^23`. -/
theorem decBit_half (d : Dec) (H q ρ P : Nat) (hP : 8388608 ≤ P) (hH : 0 < H) (hrng : d.rng = 2 * H * P)
    (hle : d.rng ≤ 2147483648) (hval : d.val = q * P + ρ) (hρ : ρ < P) (hq : q < 2 * H) :
    decBitLogp d 1 = (if q < H then 1 else 0,
      decNormalize { d with val := (if q < H then q else q - H) * P + ρ, rng := H * P }) := by
  have hs : d.rng / 2 ^ 1 = H * P := by
    rw [hrng, Nat.pow_one, Nat.mul_assoc, Nat.mul_div_cancel_left _ (by decide : 0 < 2)]
  have hlt : d.val < H * P ↔ q < H := by
    rw [hval]
    constructor
    · intro h
      apply Classical.byContradiction; intro hn
      have : H * P ≤ q * P := Nat.mul_le_mul_right _ (by omega)
      omega
    · intro h
      have : (q + 1) * P ≤ H * P := Nat.mul_le_mul_right _ h
      rw [Nat.add_mul] at this; omega
  unfold decBitLogp
  simp only [hs]
  by_cases h : q < H
  · have hd : decide (d.val < H * P) = true := by simp [hlt.2 h]
    simp only [hd, if_true, h]
    rw [hval]
  · have hnl : ¬ d.val < H * P := fun hh => h (hlt.1 hh)
    have hd : decide (d.val < H * P) = false := by simp [hnl]
    simp only [hd, Bool.false_eq_true, if_false, h]
    have hge : H * P ≤ q * P := Nat.mul_le_mul_right _ (by omega)
    have hvlt : d.val < d.rng := by
      have : (q + 1) * P ≤ 2 * H * P := Nat.mul_le_mul_right _ hq
      rw [Nat.add_mul] at this; omega
    have e1 : sub32 d.val (H * P) = (q - H) * P + ρ := by
      rw [sub32_of_le (by omega) (by omega), hval, Nat.sub_mul]; omega
    have e2 : sub32 d.rng (H * P) = H * P := by
      rw [sub32_of_le (by omega) (by rw [hrng, Nat.mul_assoc]; omega), hrng, Nat.mul_assoc]; omega
    rw [e1, e2]

theorem top_bit (H q : Nat) (hH : 0 < H) (hq : q < 2 * H) :
    (2 * H - 1 - q) / H % 2 = (if q < H then 1 else 0) ∧
    (2 * H - 1 - q) % H = H - 1 - (if q < H then q else q - H) := by
  by_cases h : q < H
  · have h1 : (2 * H - 1 - q) / H = 1 := Nat.div_eq_of_lt_le (by omega) (by omega)
    have h2 : (2 * H - 1 - q) % H = 2 * H - 1 - q - H := by
      rw [Nat.mod_eq_sub_mod (by omega), Nat.mod_eq_of_lt (by omega)]
    rw [h1, h2, if_pos h, if_pos h]; omega
  · have h1 : (2 * H - 1 - q) / H = 0 := Nat.div_eq_of_lt (by omega)
    have h2 : (2 * H - 1 - q) % H = 2 * H - 1 - q := Nat.mod_eq_of_lt (by omega)
    rw [h1, h2, if_neg h, if_neg h]; omega

/-- `k+1` successive `ec_dec_bit_logp(·, 1)` on a range `2^(k+1) * P` (with `P ≥ 2^23`, so that no
    normalisation happens before the last bit): they return, most significant first, the bits of
    `2^(k+1) - 1 - q` where `q = val / P`, and leave `val mod P`, `rng = P` to be normalised. -/
theorem decBits_chain : ∀ (k : Nat) (d : Dec) (P q ρ : Nat), 8388608 ≤ P → d.rng = 2 ^ (k + 1) * P →
    d.rng ≤ 2147483648 → d.val = q * P + ρ → ρ < P → q < 2 ^ (k + 1) →
    MatchAll (bitsOps (2 ^ (k + 1) - 1 - q) (k + 1)) (decRun d (bitsOps (2 ^ (k + 1) - 1 - q) (k + 1))).1 ∧
    (decRun d (bitsOps (2 ^ (k + 1) - 1 - q) (k + 1))).2 = decNormalize { d with val := ρ, rng := P }
  | 0, d, P, q, ρ, hP, hrng, hle, hval, hρ, hq => by
    have hb := decBit_half d 1 q ρ P hP (by decide) (by simp [hrng]) hle hval hρ (by simpa using hq)
    obtain ⟨t1, t2⟩ := top_bit 1 q (by decide) (by simpa using hq)
    simp only [Nat.zero_add, Nat.pow_one, bitsOps, Nat.pow_zero, Nat.div_one, decRun, decOp, hb]
    have hq2 : q < 2 := by simpa using hq
    constructor
    · refine ⟨?_, trivial⟩
      simp only [Op.Matches]
      have : (2 - 1 - q) % 2 = (if q < 1 then 1 else 0) := by
        have := t1; simp only [Nat.mul_one, Nat.div_one] at this; exact this
      rw [this]; split <;> simp
    · congr 1
      have : (if q < 1 then q else q - 1) = 0 := by split <;> omega
      rw [this]; simp
  | k + 1, d, P, q, ρ, hP, hrng, hle, hval, hρ, hq => by
    have hH : 0 < 2 ^ (k + 1) := Nat.pow_pos (by decide)
    have e2 : 2 ^ (k + 1 + 1) = 2 * 2 ^ (k + 1) := by rw [Nat.pow_succ]; omega
    rw [e2] at hrng hq ⊢
    generalize hHd : 2 ^ (k + 1) = H at *
    have hb := decBit_half d H q ρ P hP hH hrng hle hval hρ hq
    obtain ⟨t1, t2⟩ := top_bit H q hH hq
    have hHP : 16777216 ≤ H * P := by
      have : 2 ≤ H := by rw [← hHd, Nat.pow_succ]; have := Nat.pow_pos (n := k) (by decide : 0 < 2); omega
      have : 2 * P ≤ H * P := Nat.mul_le_mul_right _ this
      omega
    generalize hq' : (if q < H then q else q - H) = q' at *
    have hq'lt : q' < H := by rw [← hq']; split <;> omega
    -- the state after the first bit needs no normalisation
    have hd' : decNormalize { d with val := q' * P + ρ, rng := H * P } =
        { d with val := q' * P + ρ, rng := H * P } := decNormalize_done _ (by simp only; omega)
    rw [hd'] at hb
    have hle' : H * P ≤ 2147483648 := by rw [hrng, Nat.mul_assoc] at hle; omega
    obtain ⟨i1, i2⟩ := decBits_chain k { d with val := q' * P + ρ, rng := H * P } P q' ρ hP
      (by rw [hHd]) hle' rfl hρ (by rw [hHd]; exact hq'lt)
    rw [hHd] at i1 i2
    have hbo : bitsOps (2 * H - 1 - q) (k + 1 + 1) =
        .bitLogp ((2 * H - 1 - q) / H % 2) 1 :: bitsOps ((2 * H - 1 - q) % H) (k + 1) := by
      rw [bitsOps, hHd]
    rw [hbo, t2]
    simp only [decRun, decOp, hb]
    refine ⟨⟨?_, i1⟩, ?_⟩
    · simp only [Op.Matches]; rw [t1]; split <;> simp
    · rw [i2]

/-! ### `ext` is irrelevant to the decoder invariant -/

theorem decNormalize_setExt (c : Dec) (x : Nat) :
    decNormalize { c with ext := x } = { decNormalize c with ext := x } := by
  induction hm : 8388609 - c.rng using Nat.strongRecOn generalizing c with
  | _ m ih =>
    by_cases h : 0 < c.rng ∧ c.rng ≤ 8388608
    · rw [decNormalize_step c h, decNormalize_step { c with ext := x } h]
      have hs : decStep { c with ext := x } = { decStep c with ext := x } := by
        unfold decStep readByte; split <;> rfl
      rw [hs]
      have hr : (decStep c).rng = u32 (c.rng * 256) := rfl
      exact ih (8388609 - (decStep c).rng) (by rw [hr]; unfold u32; omega) (decStep c) rfl
    · rw [decNormalize_done c h, decNormalize_done { c with ext := x } h]

theorem DecAll.of_setExt {B : List Nat} {S : Nat} {e : Enc} {d : Dec} {Bt : List Nat} {x : Nat}
    (h : DecAll B S e { d with ext := x } Bt) : DecAll B S e d Bt :=
  ⟨⟨h.rc.buf_eq, h.rc.storage_eq, h.rc.rng_eq, h.rc.nbits_eq, h.rc.val_eq, h.rc.offs_eq, h.rc.rem_eq⟩,
    h.err, h.nend, h.win⟩

/-! ### The placeholder symbol -/

/-- The inverse-CDF table `{256 - (256 >> k), 0}` of the SILK flag placeholder (enc_API.c:349-350). -/
def flagTable (k : Nat) : List Nat := [256 - 256 / 2 ^ k, 0]

theorem flagTable_legal (k : Nat) (h1 : 1 ≤ k) (h8 : k ≤ 8) : (Op.icdf 0 (flagTable k) 8).Legal := by
  rcases (show k = 1 ∨ k = 2 ∨ k = 3 ∨ k = 4 ∨ k = 5 ∨ k = 6 ∨ k = 7 ∨ k = 8 by omega) with
    h | h | h | h | h | h | h | h <;> (subst h; decide)

/-- On a fresh encoder the placeholder `ec_enc_icdf(0, {256 - (256 >> k), 0}, 8)` is the same call as
    `ec_encode_bin(0, 1, k)`: both leave the interval `[0, 2^(31-k))`. -/
theorem flag_placeholder_eq (buf : List Nat) (size k : Nat) (h1 : 1 ≤ k) (h8 : k ≤ 8) :
    encOp (encInit buf size) (.icdf 0 (flagTable k) 8) = encOp (encInit buf size) (.encodeBin 0 1 k) := by
  rcases (show k = 1 ∨ k = 2 ∨ k = 3 ∨ k = 4 ∨ k = 5 ∨ k = 6 ∨ k = 7 ∨ k = 8 by omega) with
    h | h | h | h | h | h | h | h <;>
    (subst h
     simp only [encOp, encIcdf, encodeBin, flagTable]
     apply congrArg encNormalize
     rw [if_neg (Nat.lt_irrefl 0), if_neg (Nat.lt_irrefl 0)]
     apply ctx_eq <;> (first | rfl | (simp only [encInit]; decide)))

/-! ### The decoder's `k` bit reads on a patch-style stream -/

/-- Like `first_dec`, but the decoder reads the first `n` bits with `n` calls `ec_dec_bit_logp(·, 1)`:
    it obtains the bits of `w`, most significant first, and ends in the same state (up to the unused
    field `ext`) as after `ec_decode_bin(n)` / `ec_dec_update(w, w+1, 2^n)`. -/
theorem flags_first (B : List Nat) (hB : BytesOk B) (S : Nat) (hS : 0 < S) (hBl : 0 < B.length)
    (buf : List Nat) (size n fl w : Nat) (hs : size ≤ buf.length) (hb : BytesOk buf)
    (hn1 : 1 ≤ n) (hn8 : n ≤ 8) (hfl : fl < 2 ^ n) (hw : w < 2 ^ n) (hBw : setTop B n w = B)
    (hnb : (encOp (encInit buf size) (.encodeBin fl (fl + 1) n)).nbitsTotal < 4294967296)
    (herr : (encOp (encInit buf size) (.encodeBin fl (fl + 1) n)).error = 0)
    (hc : Contains (setTop B n fl) S (encOp (encInit buf size) (.encodeBin fl (fl + 1) n))) :
    MatchAll (bitsOps w n) (decRun (decInit B S) (bitsOps w n)).1 ∧
    DecAll B S (encOp (encInit buf size) (.encodeBin fl (fl + 1) n))
      (decRun (decInit B S) (bitsOps w n)).2 (setTop B n fl) := by
  obtain ⟨hm, hall⟩ := first_dec B hB S hS hBl buf size n fl w hs hb hn1 hn8 hfl hw hBw hnb herr hc
  have all0 := decInit_spec B hB S buf size
  obtain ⟨p1, p2⟩ := pow31_split n (by omega)
  have hrng : (decInit B S).rng = 2147483648 := all0.rc.rng_eq
  have hval : (decInit B S).val < 2147483648 := by
    have := all0.rc.val_eq
    rw [encInit_encM, encInit_encLow] at this
    have hr : (encInit buf size).rng = 2147483648 := rfl
    omega
  generalize hd0 : decInit B S = d0 at *
  generalize hP : 2 ^ (31 - n) = P at *
  have hPpos : 0 < P := by rw [← hP]; exact Nat.pow_pos (by decide)
  have hPle : P ≤ 2147483648 := by
    have := Nat.le_mul_of_pos_right P (Nat.pow_pos (a := 2) (n := n) (by decide))
    rw [p2] at this; exact this
  have hP23 : 8388608 ≤ P := by
    rw [← hP]; have : (8388608 : Nat) = 2 ^ 23 := by decide
    rw [this]; exact Nat.pow_le_pow_right (by decide) (by omega)
  have hq : d0.val / P < 2 ^ n := by
    rw [Nat.div_lt_iff_lt_mul hPpos, Nat.mul_comm, p2]; exact hval
  have hdm := Nat.div_add_mod d0.val P
  have hρ : d0.val % P < P := Nat.mod_lt _ hPpos
  generalize d0.val / P = q at *
  generalize d0.val % P = ρ at *
  -- what `ec_decode_bin` returned
  have hfs : w = 2 ^ n - 1 - q := by
    simp only [decOp, decodeBin, Op.Matches] at hm
    rw [hrng, p1] at hm
    have hqv : d0.val / P = q := by
      apply Nat.div_eq_of_lt_le
      · rw [Nat.mul_comm]; omega
      · rw [Nat.add_mul, Nat.one_mul, Nat.mul_comm]; omega
    rw [hqv] at hm
    have h2n : 2 ^ n ≤ 256 := by
      have : (256 : Nat) = 2 ^ 8 := by decide
      rw [this]; exact Nat.pow_le_pow_right (by decide) hn8
    have u1 : u32 q = q := u32_of_lt (by omega)
    have u2 : u32 (q + 1) = q + 1 := u32_of_lt (by omega)
    have u3 : u32 (2 ^ n) = 2 ^ n := u32_of_lt (by omega)
    rw [u1, u2, u3] at hm
    unfold mini at hm
    rw [if_neg (by omega), sub32_of_le (by omega) (by omega)] at hm
    omega
  -- the `n` bit reads
  obtain ⟨k, hk⟩ : ∃ k, n = k + 1 := ⟨n - 1, by omega⟩
  obtain ⟨c1, c2⟩ := decBits_chain k d0 P q ρ hP23 (by rw [hrng, ← hk, Nat.mul_comm, p2]) (by rw [hrng]; omega)
    (by rw [Nat.mul_comm]; exact hdm.symm) hρ (by rw [← hk]; exact hq)
  rw [← hk, ← hfs] at c1 c2
  refine ⟨c1, ?_⟩
  rw [c2]
  -- the state after `ec_decode_bin` / `ec_dec_update`, up to `ext`
  have hst : (decOp d0 (.encodeBin w (w + 1) n)).2 =
      { decNormalize { d0 with val := ρ, rng := P } with ext := P } := by
    rw [← decNormalize_setExt]
    simp only [decOp, decodeBin, decUpdate]
    rw [hrng, p1]
    apply congrArg decNormalize
    have h2n : 2 ^ n ≤ 256 := by
      have : (256 : Nat) = 2 ^ 8 := by decide
      rw [this]; exact Nat.pow_le_pow_right (by decide) hn8
    have u3 : u32 (2 ^ n) = 2 ^ n := u32_of_lt (by omega)
    have e1 : sub32 (u32 (2 ^ n)) (w + 1) = q := by
      rw [u3, sub32_of_le (by omega) (by omega)]; omega
    have hqP : q * P < 2147483648 := by
      have : (q + 1) * P ≤ 2 ^ n * P := Nat.mul_le_mul_right _ hq
      rw [Nat.add_mul, Nat.mul_comm (2 ^ n), p2] at this; omega
    have e2 : mul32 P q = P * q := mul32_of_lt (by rw [Nat.mul_comm]; omega)
    have e3 : sub32 d0.val (P * q) = ρ := by rw [sub32_of_le (by omega) (by omega)]; omega
    rw [e1, e2, e3]
    apply ctx_eq <;> (try rfl)
    show (if w > 0 then mul32 P (sub32 (w + 1) w) else sub32 2147483648 (P * q)) = P
    split
    · rw [sub32_of_le (by omega) (by omega)]
      have : w + 1 - w = 1 := by omega
      rw [this, mul32_of_lt (by omega : P * 1 < 4294967296)]; omega
    · have hq1 : q + 1 = 2 ^ n := by omega
      have : P * (q + 1) = 2147483648 := by rw [hq1]; exact p2
      rw [Nat.mul_add] at this
      rw [sub32_of_le (by omega) (by omega)]; omega
  rw [hst] at hall
  exact hall.of_setExt

/-- **SILK header flags.**  The encoder's first call is the placeholder
    `ec_enc_icdf(0, {256 - (256 >> k), 0}, 8)` (`1 ≤ k ≤ 8`), the rest are the operations of the round
    trip plus any number of `ec_enc_patch_initial_bits(flags, k)`.  If `ec_enc_done` reports no error,
    a decoder that starts with `k` calls `ec_dec_bit_logp(·, 1)` reads the bits of the last patched
    `flags` value, most significant first (all zero if nothing was patched), then decodes every other
    operation to the encoded value, and ends in lock-step with the encoder. -/
theorem decode_encode_flags_all (buf : List Nat) (size k : Nat) (rest : List Op) (hs : size ≤ buf.length)
    (hb : BytesOk buf) (hk1 : 1 ≤ k) (hk8 : k ≤ 8)
    (hl : LegalRunP k (encOp (encInit buf size) (.icdf 0 (flagTable k) 8)) rest)
    (hnb : (encodeAll buf size (.icdf 0 (flagTable k) 8 :: rest)).nbitsTotal < 4294967296)
    (herr : (encodeAll buf size (.icdf 0 (flagTable k) 8 :: rest)).error = 0) :
    MatchAll (bitsOps (lastPatch 0 rest) k ++ rest)
      (decRun (decInit ((encodeAll buf size (.icdf 0 (flagTable k) 8 :: rest)).buf.take
        (encodeAll buf size (.icdf 0 (flagTable k) 8 :: rest)).storage)
        (encodeAll buf size (.icdf 0 (flagTable k) 8 :: rest)).storage)
        (bitsOps (lastPatch 0 rest) k ++ rest)).1 ∧
    DecAll ((encodeAll buf size (.icdf 0 (flagTable k) 8 :: rest)).buf.take
        (encodeAll buf size (.icdf 0 (flagTable k) 8 :: rest)).storage)
      (encodeAll buf size (.icdf 0 (flagTable k) 8 :: rest)).storage
      (encRun (encInit buf size) (.icdf 0 (flagTable k) 8 :: rest))
      (decRun (decInit ((encodeAll buf size (.icdf 0 (flagTable k) 8 :: rest)).buf.take
        (encodeAll buf size (.icdf 0 (flagTable k) 8 :: rest)).storage)
        (encodeAll buf size (.icdf 0 (flagTable k) 8 :: rest)).storage)
        (bitsOps (lastPatch 0 rest) k ++ rest)).2
      ((encodeAll buf size (.icdf 0 (flagTable k) 8 :: rest)).buf.take
        (encodeAll buf size (.icdf 0 (flagTable k) 8 :: rest)).storage) := by
  unfold encodeAll at hnb herr ⊢
  simp only [encRun] at hnb herr ⊢
  rw [flag_placeholder_eq buf size k hk1 hk8] at hl hnb herr ⊢
  have hfl : 0 < 2 ^ k := Nat.pow_pos (by decide)
  generalize he1 : encOp (encInit buf size) (.encodeBin 0 (0 + 1) k) = e1 at *
  have herrF : (encRun e1 rest).error = 0 := by
    apply Classical.byContradiction; intro hne
    exact encDone_error_mono _ hne herr
  have hnF : (encRun e1 rest).nbitsTotal < 4294967296 := by
    have := encDone_nbitsTotal (encRun e1 rest); omega
  have herr1 : e1.error = 0 := by
    apply Classical.byContradiction; intro hne
    exact encRun_error_mono rest _ hne herrF
  have hn1' : e1.nbitsTotal < 4294967296 := Nat.lt_of_le_of_lt (encRun_nbits_mono rest _) hnF
  have ri0 := runInv_encInit buf size hs hb
  have hleg : (Op.encodeBin 0 (0 + 1) k).LegalAt (encInit buf size) :=
    ⟨by omega, by omega, hk1, by omega⟩
  have ri1 : RunInv e1 := by
    rw [← he1]; exact (step_op _ _ ri0 hleg (by rw [he1]; exact hn1') (by rw [he1]; exact herr1)).run
  have hcell1 : Cell k 0 e1 := by
    rw [← he1]; exact cell_first buf size k 0 hs hb hk1 hk8 hfl (by rw [he1]; exact hn1') (by rw [he1]; exact herr1)
  obtain ⟨_, riF, cellF, b3, b4⟩ := run_backP k rest e1 0 ri1 hcell1 hl hnF herrF
  obtain ⟨_, d1, d2, d3, d4, d5⟩ := encDone_spec (encRun e1 rest) riF.inv riF.raw riF.bytes hnF herr
  have hS : 0 < (encRun e1 rest).storage := by
    apply encDone_storage_pos _ riF.inv hnF herr
    by_cases hM : 1 ≤ encM (encRun e1 rest)
    · exact Or.inl hM
    · right
      obtain ⟨_, c2, c3, c4, _⟩ := cellF
      have hM0 : encM (encRun e1 rest) = 0 := by omega
      unfold cellSz at c3 c4
      rw [hM0, Nat.pow_zero, Nat.mul_one, Nat.add_mul, Nat.one_mul] at c4
      rw [hM0, Nat.pow_zero, Nat.mul_one] at c3
      have : 2 ^ (31 - k) ≤ 2 ^ 30 := Nat.pow_le_pow_right (by decide) (by omega)
      omega
  generalize encDone (encRun e1 rest) = eD at *
  rw [d1]
  generalize hSS : (encRun e1 rest).storage = S at *
  generalize hw : lastPatch 0 rest = w at *
  have hBt : BytesOk (eD.buf.take S) := bytesOk_take d3 _
  have hby : ∀ i, byteAt (eD.buf.take S) S i < 256 := fun i => byteAt_lt_bytesOk hBt S i
  have hBl : 0 < (eD.buf.take S).length := by
    rw [List.length_take, d2]
    have := riF.inv.wf.storage_le
    omega
  have hc : Contains (eD.buf.take S) S (encRun e1 rest) := by
    unfold Contains at d4 ⊢; rw [codeVal_take]; exact d4
  have hr : RawC (eD.buf.take S) S (encRun e1 rest) := by
    unfold RawC at d5 ⊢; rw [tailVal_take]; exact d5
  have hself := setTop_self (eD.buf.take S) S k w (encRun e1 rest) hS hby hc cellF
  have hc1 := b3 (eD.buf.take S) S hS hBl hby (by rw [hself]; exact hc)
  obtain ⟨m0, a0⟩ := flags_first (eD.buf.take S) hBt S hS hBl buf size k 0 w hs hb hk1 hk8 hfl cellF.t_lt hself
    (by rw [he1]; exact hn1') (by rw [he1]; exact herr1) (by rw [he1]; exact hc1)
  rw [he1] at a0
  obtain ⟨m1, a1⟩ := run_decodeP k (eD.buf.take S) hBt S hS hBl rest e1 _ 0 ri1 hcell1 hl a0 hnF herrF
    (by rw [hw, hself]; exact hc) hr
  rw [hw, hself] at a1
  rw [decRun_append]
  exact ⟨matchAll_append m0 m1, a1⟩

end Opus.RangeCoder
