import OpusProofs.RangeCoderPatchRun
/-
  OpusProofs.RangeCoderFlags — C08, the SILK header flags (silk/enc_API.c:346-351, 527-539;
  silk/dec_API.c:226-234): the encoder reserves `k` bits with one `ec_enc_icdf` symbol of probability
  `2^-k`, later overwrites them with `ec_enc_patch_initial_bits(flags, k)`; the decoder reads them
  with `k` calls `ec_dec_bit_logp(·, 1)`.
-/
namespace Opus.RangeCoder

/-- `k` bits of `w`, most significant first, each read/written with `ec_*_bit_logp(·, 1)`. -/
def bitsOps (w : Nat) : Nat → List Op
  | 0 => []
  | k + 1 => .bitLogp (w / 2 ^ k % 2) 1 :: bitsOps (w % 2 ^ k) k

theorem bitsOps_length (w k : Nat) : (bitsOps w k).length = k := by
  induction k generalizing w with
  | zero => rfl
  | succ k ih => simp [bitsOps, ih]

theorem decRun_append (a b : List Op) : ∀ (d : Dec),
    decRun d (a ++ b) = ((decRun d a).1 ++ (decRun (decRun d a).2 b).1, (decRun (decRun d a).2 b).2) := by
  induction a with
  | nil => intro d; simp [decRun]
  | cons op a ih => intro d; simp only [List.cons_append, decRun, ih]

theorem matchAll_append {a b : List Op} {xs ys : List Nat} (h1 : MatchAll a xs) (h2 : MatchAll b ys) :
    MatchAll (a ++ b) (xs ++ ys) := by
  induction a generalizing xs with
  | nil => cases xs with
    | nil => exact h2
    | cons x xs => exact absurd h1 (by simp [MatchAll])
  | cons op a ih => cases xs with
    | nil => exact absurd h1 (by simp [MatchAll])
    | cons x xs => exact ⟨h1.1, ih h1.2⟩

/-- One `ec_dec_bit_logp(·, 1)` on a power-of-two range that stays above `2^23`. -/
theorem decBit_half (d : Dec) (H q ρ P : Nat) (hP : 8388608 ≤ P) (hH : 0 < H) (hrng : d.rng = 2 * H * P)
    (hle : d.rng ≤ 2147483648) (hval : d.val = q * P + ρ) (hρ : ρ < P) (hq : q < 2 * H) :
    decBitLogp d 1 = (if q < H then 1 else 0,
      decNormalize { d with val := (if q < H then q else q - H) * P + ρ, rng := H * P }) := by
  have hs : d.rng / 2 ^ 1 = H * P := by
    rw [hrng, Nat.pow_one, Nat.mul_assoc, Nat.mul_div_cancel_left _ (by decide : 0 < 2)]
  have hlt : d.val < H * P ↔ q < H := by
    rw [hval]
    constructor
    · intro h
      apply Classical.byContradiction; intro hn
      have : H * P ≤ q * P := Nat.mul_le_mul_right _ (by omega)
      omega
    · intro h
      have : (q + 1) * P ≤ H * P := Nat.mul_le_mul_right _ h
      rw [Nat.add_mul] at this; omega
  unfold decBitLogp
  simp only [hs]
  by_cases h : q < H
  · have hd : decide (d.val < H * P) = true := by simp [hlt.2 h]
    simp only [hd, if_true, h]
    rw [hval]
  · have hd : decide (d.val < H * P) = false := by simp [fun hh => h (hlt.1 hh)]
    simp only [hd, Bool.false_eq_true, if_false, h]
    have hge : H * P ≤ q * P := Nat.mul_le_mul_right _ (by omega)
    have e1 : sub32 d.val (H * P) = (q - H) * P + ρ := by
      rw [sub32_of_le (by omega) (by omega), hval, Nat.sub_mul]; omega
    have e2 : sub32 d.rng (H * P) = H * P := by
      rw [sub32_of_le (by omega) (by rw [hrng, Nat.mul_assoc]; omega), hrng, Nat.mul_assoc]; omega
    rw [e1, e2]

end Opus.RangeCoder
