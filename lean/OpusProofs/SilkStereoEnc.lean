import OpusModel.SilkStereoEnc
/-
  OpusProofs.SilkStereoEnc — the pair handed to silk_stereo_quant_pred is bounded whatever the signals, the state and
  the arguments: silk_stereo_find_predictor ends with silk_LIMIT( pred_Q13, -(1 << 14), 1 << 14 ), the branches of
  silk_stereo_LR_to_MS hand over 0, that value, or silk_RSHIFT( silk_SMULBB( smth_width_Q14, pred_Q13 ), 14 ).
-/
namespace OpusProofs.SilkStereoEnc
open Opus Opus.SilkParams Opus.SilkStereo

theorem limit_bounds (a : Int) : -16384 ≤ limit a (-16384) 16384 ∧ limit a (-16384) 16384 ≤ 16384 := by
  unfold limit
  split <;> split <;> (try split) <;> omega

theorem findPredictor_pred (a b c d e f g h : Int) :
    -16384 ≤ (findPredictor a b c d e f g h).pred ∧ (findPredictor a b c d e f g h).pred ≤ 16384 := by
  unfold findPredictor
  exact limit_bounds _

theorem wrap16_bounds (x : Int) : -32768 ≤ wrap16 x ∧ wrap16 x ≤ 32767 := by unfold wrap16; omega

theorem wrap16_id {x : Int} (h1 : -32768 ≤ x) (h2 : x ≤ 32767) : wrap16 x = x := by unfold wrap16; omega

/-- `|w * p| ≤ 2^29` for an `opus_int16` `w` and `|p| ≤ 2^14`. -/
theorem mul_bounds {w p : Int} (hw1 : -32768 ≤ w) (hw2 : w ≤ 32767) (hp1 : -16384 ≤ p) (hp2 : p ≤ 16384) :
    -536870912 ≤ w * p ∧ w * p ≤ 536870912 := by
  have h1 : 0 ≤ (w + 32768) * (p + 16384) := Int.mul_nonneg (by omega) (by omega)
  have h2 : 0 ≤ (32768 - w) * (16384 - p) := Int.mul_nonneg (by omega) (by omega)
  have h3 : 0 ≤ (w + 32768) * (16384 - p) := Int.mul_nonneg (by omega) (by omega)
  have h4 : 0 ≤ (32768 - w) * (p + 16384) := Int.mul_nonneg (by omega) (by omega)
  constructor <;> grind

/-- The width scaling of a limited predictor by ANY `opus_int16` width stays within `[-2^15, 2^15]`. -/
theorem scalePred_bounds (smth : Int) {p : Int} (hp1 : -16384 ≤ p) (hp2 : p ≤ 16384) :
    -32768 ≤ scalePred smth p ∧ scalePred smth p ≤ 32768 := by
  unfold scalePred smulbb shrI
  rw [wrap16_id (x := p) (by omega) (by omega)]
  have hw := wrap16_bounds smth
  have hm := mul_bounds hw.1 hw.2 hp1 hp2
  have : (2 : Int) ^ 14 = 16384 := by decide
  rw [this]
  omega

/-- … and within `[-2^14, 2^14]` when the smoothed width is in its nominal range `[0, 2^14]`. -/
theorem scalePred_bounds_nominal {smth p : Int} (hs1 : 0 ≤ smth) (hs2 : smth ≤ 16384) (hp1 : -16384 ≤ p) (hp2 : p ≤ 16384) :
    -16384 ≤ scalePred smth p ∧ scalePred smth p ≤ 16384 := by
  unfold scalePred smulbb shrI
  rw [wrap16_id (x := p) (by omega) (by omega), wrap16_id (x := smth) (by omega) (by omega)]
  have h1 : 0 ≤ smth * (p + 16384) := Int.mul_nonneg (by omega) (by omega)
  have h2 : 0 ≤ smth * (16384 - p) := Int.mul_nonneg (by omega) (by omega)
  have h3 : 0 ≤ (16384 - smth) * (p + 16384) := Int.mul_nonneg (by omega) (by omega)
  have h4 : 0 ≤ (16384 - smth) * (16384 - p) := Int.mul_nonneg (by omega) (by omega)
  have hm : -268435456 ≤ smth * p ∧ smth * p ≤ 268435456 := by constructor <;> grind
  have : (2 : Int) ^ 14 = 16384 := by decide
  rw [this]
  omega

/-- Every branch of `silk_stereo_LR_to_MS` hands a bounded pair to `silk_stereo_quant_pred`. -/
theorem lrSelect_bounds (x : LrIn) (smth total minMid frac r0 r1 p0 p1 : Int)
    (h0 : -16384 ≤ p0 ∧ p0 ≤ 16384) (h1 : -16384 ≤ p1 ∧ p1 ≤ 16384) :
    (-32768 ≤ (lrSelect x smth total minMid frac r0 r1 p0 p1).q0 ∧ (lrSelect x smth total minMid frac r0 r1 p0 p1).q0 ≤ 32768) ∧
    (-32768 ≤ (lrSelect x smth total minMid frac r0 r1 p0 p1).q1 ∧ (lrSelect x smth total minMid frac r0 r1 p0 p1).q1 ≤ 32768) := by
  unfold lrSelect
  split
  · simp
  · split
    · exact ⟨scalePred_bounds _ h0.1 h0.2, scalePred_bounds _ h1.1 h1.2⟩
    · split
      · exact ⟨scalePred_bounds _ h0.1 h0.2, scalePred_bounds _ h1.1 h1.2⟩
      · split
        · simp only []; exact ⟨⟨by omega, by omega⟩, ⟨by omega, by omega⟩⟩
        · exact ⟨scalePred_bounds _ h0.1 h0.2, scalePred_bounds _ h1.1 h1.2⟩

theorem lrPreds_bounds (x : LrIn) (p0 l0 p1 l1 : Int) (h0 : -16384 ≤ p0 ∧ p0 ≤ 16384) (h1 : -16384 ≤ p1 ∧ p1 ≤ 16384) :
    (-32768 ≤ (lrPreds x p0 l0 p1 l1).q0 ∧ (lrPreds x p0 l0 p1 l1).q0 ≤ 32768) ∧
    (-32768 ≤ (lrPreds x p0 l0 p1 l1).q1 ∧ (lrPreds x p0 l0 p1 l1).q1 ≤ 32768) := by
  unfold lrPreds
  exact lrSelect_bounds x _ _ _ _ _ _ p0 p1 h0 h1

theorem lrToMs_bounds (x : LrIn) (lp hp : FindIn) :
    (-32768 ≤ (lrToMs x lp hp).q0 ∧ (lrToMs x lp hp).q0 ≤ 32768) ∧
    (-32768 ≤ (lrToMs x lp hp).q1 ∧ (lrToMs x lp hp).q1 ≤ 32768) := by
  unfold lrToMs
  exact lrPreds_bounds x _ _ _ _ (findPredictor_pred ..) (findPredictor_pred ..)

end OpusProofs.SilkStereoEnc
