import OpusProofs.ExtRepIter5
/-
  C16 helper lemmas, part 17: the induction over frames — iteration over `serAll` returns `expAll`.
-/
set_option linter.unusedVariables false
namespace Opus.ExtProofs
open Opus Opus.Ext

theorem lastFrame_same {f : Nat} : ∀ (l : List Ext) (cur : Nat), (∀ e ∈ l, e.frame.toNat = f) →
    lastFrame cur l = if l = [] then cur else f := by
  intro l
  induction l with
  | nil => intro _ _; rfl
  | cons e l ih =>
    intro cur h
    simp only [lastFrame, reduceCtorEq, if_false]
    rw [ih _ (fun x hx => h x (List.mem_cons_of_mem _ hx)), h e (List.mem_cons_self ..)]
    split <;> rfl

theorem QOk.tail {nbF f : Nat} {a : List Ext} {later : List (List Ext)} (h : QOk nbF f (a :: later)) (R : Nat) :
    QOk nbF (f + 1) (later.map (List.drop R)) := by
  obtain ⟨h1, h2⟩ := h
  refine ⟨by simp at h1 ⊢; omega, ?_⟩
  intro i r hr e he
  rw [List.getElem?_map] at hr
  cases hl : later[i]? with
  | none => rw [hl] at hr; cases hr
  | some r0 =>
    rw [hl] at hr; simp only [Option.map_some, Option.some.injEq] at hr; subst hr
    have := h2 (i + 1) r0 (by simpa using hl) e (List.mem_of_mem_drop he)
    exact ⟨this.1, by rw [this.2]; omega⟩

/-- The repeated prefix of a frame: separator, then the source region. -/
theorem pre_steps {d : Array Nat} {nbF n f cur w p : Nat} {it : Iter} {pre : List Ext} {rest : List Nat}
    (hs : St d nbF p cur it) (hcur : cur ≤ f)
    (hfresh : cur = f → ∃ k, it.repeatData + k = p ∧ At d it.repeatData (List.replicate k 1) ∧ it.lastLong = none)
    (hne : pre ≠ []) (hv : ∀ e ∈ pre, ValidExt nbF e ∧ e.frame.toNat = f) (hw : w + pre.length < n)
    (hat : At d p (serW n cur w pre ++ rest)) (hend : p + (serW n cur w pre).length + rest.length = d.size) :
    ∃ it' T k', Steps d it it' (pre.map normExt) ∧
      St d nbF (p + (serW n cur w pre).length) f it' ∧ k' ≤ p + (sepBytes f cur).length ∧
      At d (p + (sepBytes f cur).length - k') (List.replicate k' 1) ∧
      Reg it' (p + (sepBytes f cur).length - k') (regLL (p + (sepBytes f cur).length) none pre) T ∧
      (∀ k, lastLongPos pre = some k → T = ((pre.drop (k + 1)).map (fun a => a.len)).sum) ∧
      At d (p + (sepBytes f cur).length) (srcBytes pre) ∧
      p + (serW n cur w pre).length = p + (sepBytes f cur).length + (srcBytes pre).length := by
  have hsw := serW_pre n f pre cur w (fun e he => (hv e he).2) hw
  simp only [hne, if_false] at hsw
  rw [hsw] at hat hend ⊢
  simp only [List.append_assoc, List.length_append] at hat hend ⊢
  cases pre with
  | nil => exact absurd rfl hne
  | cons a as =>
    obtain ⟨hva, haf⟩ := hv a (List.mem_cons_self ..)
    rw [srcBytes_cons] at hat hend ⊢
    simp only [List.append_assoc, List.length_append] at hat hend ⊢
    obtain ⟨it1, hs1, hst1, hr1⟩ := plain_step (p0 := it.repeatData) (ll := it.lastLong) (T := it.tsl) (flag := false)
      (rest := srcBytes as ++ rest) hs ⟨rfl, rfl, rfl⟩ hva (by omega)
      (by rw [haf]; simpa [List.append_assoc] using hat) (by rw [haf]; simp only [List.length_append]; omega) (by intro h; cases h)
    rw [haf] at hst1 hr1
    -- the region starts right after the separator (or, without separator, at `repeat_data`, before padding bytes)
    have hreg1 : ∃ k', k' ≤ p + (sepBytes f cur).length ∧ At d (p + (sepBytes f cur).length - k') (List.replicate k' 1) ∧
        Reg it1 (p + (sepBytes f cur).length - k')
        (regLL (p + (sepBytes f cur).length) none [a])
        (if a.id < 32 then (if f = cur then it.tsl else 0) + a.len else 0) := by
      obtain ⟨q1, q2, q3⟩ := hr1
      by_cases hfc : f = cur
      · have hs0 : (sepBytes f cur).length = 0 := by simp [sepBytes, hfc]
        obtain ⟨k, hk1, hk2, hk3⟩ := hfresh hfc.symm
        refine ⟨k, by omega, ?_, ?_, ?_, q3⟩
        · rw [hs0, show p + 0 - k = it.repeatData by omega]; exact hk2
        · rw [q1, if_pos hfc, hs0]; omega
        · rw [q2]; simp only [regLL, if_pos hfc, hk3]
      · refine ⟨0, Nat.zero_le _, by intro i hi; simp at hi, ?_, ?_, q3⟩
        · rw [q1, if_neg hfc]; rfl
        · rw [q2]; simp only [regLL, if_neg hfc]
    obtain ⟨k', hk'1, hk'2, hreg1⟩ := hreg1
    obtain ⟨it2, hs2, hst2, hr2⟩ := src_steps (rest := rest) as _ _ _ it1 hst1 hreg1
      (fun x hx => hv x (List.mem_cons_of_mem _ hx)) ((hat.append).2.append).2 (by omega)
    refine ⟨it2, regT (if a.id < 32 then (if f = cur then it.tsl else 0) + a.len else 0) as, k', ?_, ?_, hk'1, hk'2, ?_, ?_, ?_, by omega⟩
    · have := hs1.trans hs2; simpa using this
    · have e : p + ((sepBytes f cur).length + ((extBytes a false).length + (srcBytes as).length)) =
          p + (sepBytes f cur).length + (extBytes a false).length + (srcBytes as).length := by omega
      rw [e]; exact hst2
    · simpa [regLL] using hr2
    · intro k hk
      have := regT_after_long (a :: as) (if f = cur then it.tsl else 0) k hk
      simpa [regT] using this
    · have h1 := (hat.append).2
      rw [← List.append_assoc] at h1
      exact (h1.append).1

theorem blockR_pos {a : List Ext} {later : List (List Ext)} (h : 0 < blockR a later) :
    later ≠ [] ∧ blockR a later = repCount a later := by
  unfold blockR at h ⊢
  by_cases hl : later = []
  · simp [hl] at h
  · simp [hl]

/-- Iterating over everything the generator writes for the queues `rems` reports `expAll rems`. -/
theorem serAll_steps {d : Array Nat} {nbF n : Nat} : ∀ (m : Nat) (rems : List (List Ext)) (f cur w p : Nat) (it : Iter),
    rems.length = m → QOk nbF f rems → w + total rems = n → cur ≤ f →
    St d nbF p cur it →
    (cur = f → ∃ k, it.repeatData + k = p ∧ At d it.repeatData (List.replicate k 1) ∧ it.lastLong = none) →
    At d p (serAll n rems cur w) → p + (serAll n rems cur w).length = d.size →
    ∃ it' cur', Steps d it it' ((expAll rems).map normExt) ∧ St d nbF d.size cur' it' := by
  intro m
  induction m with
  | zero =>
    intro rems f cur w p it hlen _ _ _ hs _ _ hend
    have : rems = [] := List.eq_nil_of_length_eq_zero hlen
    subst this
    rw [serAll] at hend
    rw [expAll]
    simp only [List.length_nil, Nat.add_zero] at hend
    exact ⟨it, cur, Steps.refl d it, hend ▸ hs⟩
  | succ m ih =>
    intro rems f cur w p it hlen hq hcount hcur hs hfresh hat hend
    cases rems with
    | nil => simp at hlen
    | cons a later =>
      have hlen' : later.length = m := by simpa using hlen
      obtain ⟨hq1, hq2⟩ := hq
      have hva : ∀ e ∈ a, ValidExt nbF e ∧ e.frame.toNat = f := by
        intro e he; have := hq2 0 a rfl e he; simpa using this
      rw [total_cons] at hcount
      rw [serAll_cons] at hat hend
      rw [expAll_cons]
      generalize hR : blockR a later = R at hat hend ⊢
      generalize hlast : blockLast n a later w = last at hat hend
      have hqt := QOk.tail ⟨hq1, hq2⟩ R
      by_cases hR0 : R = 0
      · -- nothing is repeated
        subst hR0
        simp only [List.take_zero, List.drop_zero, serW, List.nil_append, Nat.lt_irrefl, if_false, false_and, repBlock_zero,
          curAfter, lastFrame, Nat.add_zero, Nat.zero_mul, map_drop_zero, List.map_nil, List.flatten_nil, List.append_nil,
          List.length_append] at hat hend hqt ⊢
        have hlf := lastFrame_same a cur (fun e he => (hva e he).2)
        obtain ⟨it1, hs1, hst1⟩ := plain_list (rest := serAll n later (lastFrame cur a) (w + a.length)) a cur w p it hs
          (fun e he => (hva e he).1) (frameSorted_const hcur (fun e he => (hva e he).2)).1 (by omega)
          (fun h => serAll_empty n _ later _ _ rfl (by omega)) hat (by omega)
        have hcur' : lastFrame cur a ≤ f := by rw [hlf]; split <;> omega
        have hm0 : later.map (List.take 0) = later.map (fun _ => []) := by
          apply List.map_congr_left; intro x _; rfl
        obtain ⟨it2, cur2, hs2, hst2⟩ := ih later (f + 1) (lastFrame cur a) (w + a.length) _ it1 hlen' hqt (by omega) (by omega) hst1
          (fun h => by omega) (hat.append).2 (by omega)
        refine ⟨it2, cur2, ?_, hst2⟩
        have := hs1.trans hs2
        have hflat : (later.map (List.take 0)).flatten = [] := by
          rw [hm0]; induction later with
          | nil => rfl
          | cons x xs ihx => simp
        simpa [hflat] using this
      · -- a repeat block
        have hRpos : 0 < R := by omega
        obtain ⟨hlne, hRc⟩ := blockR_pos (hR ▸ hRpos)
        rw [hR] at hRc
        obtain ⟨hRa, hRl⟩ := repCount_spec a later
        rw [← hRc] at hRa hRl
        have hf1 : f + 1 < nbF := by
          have : 0 < later.length := List.length_pos_iff.mpr hlne
          simp at hq1; omega
        have hpre_ne : a.take R ≠ [] := by
          intro h; have := congrArg List.length h; rw [List.length_take] at this; simp only [List.length_nil] at this; omega
        have hpre_v : ∀ e ∈ a.take R, ValidExt nbF e ∧ e.frame.toNat = f := fun e he => hva e (List.mem_of_mem_take he)
        have hpost_v : ∀ e ∈ a.drop R, ValidExt nbF e ∧ e.frame.toNat = f := fun e he => hva e (List.mem_of_mem_drop he)
        have htot := total_map_drop R later (fun r hr => (hRl r hr).1)
        have hlen_pre : (a.take R).length = R := by simp; omega
        have hlen_post : (a.drop R).length = a.length - R := by simp
        have hlater_pos : 0 < later.length := List.length_pos_iff.mpr hlne
        have hmul : R ≤ R * later.length := Nat.le_mul_of_pos_right R hlater_pos
        -- meaning of `last`
        have hlast_def : last = (decide (w + R + R * later.length = n) || (lastLongPos (a.take R) = none && (a.drop R).isEmpty)) := by
          rw [← hlast]; unfold blockLast; simp only [hR]
        have hlast_post : last = true → a.drop R = [] := by
          intro h
          rw [hlast_def, Bool.or_eq_true] at h
          rcases h with h | h
          · rw [decide_eq_true_eq] at h
            apply List.eq_nil_of_length_eq_zero; omega
          · rw [Bool.and_eq_true] at h; exact List.isEmpty_iff.mp h.2
        have hlast_long : last = true → lastLongPos (a.take R) ≠ none → total (later.map (List.drop R)) = 0 := by
          intro h hl
          rw [hlast_def, Bool.or_eq_true] at h
          rcases h with h | h
          · rw [decide_eq_true_eq] at h; omega
          · rw [Bool.and_eq_true, decide_eq_true_eq] at h; exact absurd h.1 hl
        simp only [hRpos, if_true, true_and, List.append_assoc, List.length_append, List.length_cons, List.length_nil,
          List.cons_append, List.nil_append] at hat hend
        -- 1. the repeated prefix
        have hcur1 : curAfter cur (a.take R) = f := by
          unfold curAfter; rw [lastFrame_same _ cur (fun e he => (hpre_v e he).2)]; simp [hpre_ne]
        rw [hcur1] at hat hend
        obtain ⟨it1, T, k', hs1, hst1, hk'1, hones1, hreg1, hT1, hsrc1, hp1⟩ := pre_steps (n := n) (w := w) hs hcur hfresh hpre_ne hpre_v (by omega) hat
          (by simp only [List.length_append, List.length_cons, List.length_nil]; omega)
        -- 2. the indicator
        have hat2 := (hat.append).2
        have hb := (At.head hat2).1
        obtain ⟨it2, hs2, hR2⟩ := rep_start (b := if last = true then 4 else 5) hst1 hreg1 hb (by split <;> rfl) (by omega) hf1 (by omega)
        have hL : (if last = true then 4 else 5) % 2 = if last = true then 0 else 1 := by split <;> rfl
        rw [hL] at hR2
        have hplen : p + (serW n cur w (a.take R)).length - (p + (sepBytes f cur).length - k') = k' + (srcBytes (a.take R)).length := by omega
        rw [hplen] at hR2
        have hpk : p + (sepBytes f cur).length - k' + k' = p + (sepBytes f cur).length := by omega
        -- 3. the repeated payloads of all later frames
        have hat3 := (At.head hat2).2
        have hZ : ZOk (if last = true then 0 else 1) (nbF - 1) nbF (regLL (p + (sepBytes f cur).length) none (a.take R))
            (if last = true then lastLongPos (a.take R) else none) 0 (p + (sepBytes f cur).length) (a.take R) := by
          cases last with
          | false =>
            simp only [Bool.false_eq_true, if_false]
            have := ZOk_region (L := 1) (g := nbF - 1) (nbF := nbF) (z := none) (p + (sepBytes f cur).length) (a.take R)
              (Or.inl rfl) (fun _ => Or.inl (by omega)) (a.take R) 0 (by simp)
            simpa [srcBytes] using this
          | true =>
            simp only [if_true]
            have := ZOk_region (L := 0) (g := nbF - 1) (nbF := nbF) (z := lastLongPos (a.take R)) (p + (sepBytes f cur).length) (a.take R)
              (Or.inr ⟨rfl, by omega, rfl⟩) (fun h => Or.inr h) (a.take R) 0 (by simp)
            simpa [srcBytes] using this
        obtain ⟨it3, hs3, hst3, hreg3⟩ := rep_outer (rest := serW n (if last = true then f + 1 else f) (w + R + R * later.length) (a.drop R) ++
            serAll n (later.map (List.drop R)) (curAfter (if last = true then f + 1 else f) (a.drop R))
              (w + R + R * later.length + (a.drop R).length))
          (R := R) (last := last) (k := k') hf1 (fun x hx => (hpre_v x hx).1) hones1 (by rw [hpk]; exact hsrc1) later (f + 1) _ it2
          (by simp at hq1; omega) (by omega) hR2
          (fun i r hi => by
            have hmem : r ∈ later := List.mem_of_getElem? hi
            refine ⟨(hRl r hmem).2, fun x hx => ?_⟩
            have := hq2 (i + 1) r (by simpa using hi) x (List.mem_of_mem_take hx)
            exact ⟨this.1, by rw [this.2]; omega⟩)
          (by rw [hpk]; exact hZ)
          (fun r hr => by
            apply TOk_of_closed
            intro j hz hj
            have hmem : r ∈ later := List.mem_of_mem_getLast? hr
            by_cases hl : last = true
            · simp only [hl, if_true] at hz ⊢
              simp only [Nat.zero_add] at hz ⊢
              have hpz := hlast_post hl
              have htz := hlast_long hl (by rw [hz]; simp)
              have hrest0 : serAll n (later.map (List.drop R)) (curAfter (f + 1) (a.drop R)) (w + R + R * later.length + (a.drop R).length) = [] :=
                serAll_empty n _ _ _ _ rfl htz
              rw [hrest0, hpz]
              simp only [serW, List.append_nil, List.length_nil, Nat.add_zero]
              rw [hT1 j hz]
              obtain ⟨_, _, hshort⟩ := lastLongPos_lt _ j hz
              have hm := ((hRl r hmem).2).drop (j + 1)
              refine repPayloads_shorts (nbF := nbF) _ _ _ _ hm ?_ ?_
              · intro y hy
                obtain ⟨i, hi⟩ := List.mem_iff_getElem?.mp hy
                rw [List.getElem?_drop] at hi
                exact hshort _ y (by omega) hi
              · intro y hy
                have hy' : y ∈ r := List.mem_of_mem_take (List.mem_of_mem_drop hy)
                obtain ⟨i, hi⟩ := List.mem_iff_getElem?.mp hmem
                exact (hq2 (i + 1) r (by simpa using hi) y hy').1
            · simp only [hl, if_false] at hz; cases hz)
          hat3 (by simp only [List.length_append]; omega)
        -- 4. the rest of the frame, then the later frames
        have hLf : (if (if last = true then 0 else 1) = 0 then f + 1 else f) = (if last = true then f + 1 else f) := by
          by_cases hl : last = true <;> simp [hl]
        rw [hLf] at hst3
        have hat4 := (hat3.append).2
        by_cases hpost : a.drop R = []
        · rw [hpost] at hat hend hat4 ⊢
          simp only [serW, List.nil_append, List.length_nil, Nat.add_zero, curAfter, lastFrame, List.append_nil] at hat4 hend ⊢
          obtain ⟨it4, cur4, hs4, hst4⟩ := ih (later.map (List.drop R)) (f + 1) (if last = true then f + 1 else f)
            (w + R + R * later.length) _ it3 (by simpa using hlen') hqt (by rw [hpost] at hlen_post; simp at hlen_post; omega)
            (by split <;> omega) hst3
            (fun h => ⟨0, by rw [hreg3.1]; rfl, by intro i hi; simp at hi, hreg3.2.1⟩) hat4 (by omega)
          refine ⟨it4, cur4, ?_, hst4⟩
          have := ((hs1.trans hs2).trans hs3).trans hs4
          simpa using this
        · have hnl : ¬ last = true := fun h => hpost (hlast_post h)
          have hlf : last = false := by cases last; rfl; exact absurd rfl hnl
          subst hlf
          simp only [Bool.false_eq_true, if_false] at hat hend hat4 hst3 ⊢
          obtain ⟨it4, hs4, hst4⟩ := plain_list (n := n) (rest := serAll n (later.map (List.drop R)) (curAfter f (a.drop R))
              (w + R + R * later.length + (a.drop R).length)) (a.drop R) f (w + R + R * later.length) _ it3 hst3
            (fun e he => (hpost_v e he).1) (frameSorted_const (Nat.le_refl f) (fun e he => (hpost_v e he).2)).1 (by omega)
            (fun h => serAll_empty n _ _ _ _ rfl (by omega)) hat4 (by omega)
          have hcf : curAfter f (a.drop R) = f := by
            unfold curAfter; rw [lastFrame_same _ f (fun e he => (hpost_v e he).2)]; simp
          rw [hcf] at hat hend hat4
          rw [lastFrame_same _ f (fun e he => (hpost_v e he).2)] at hst4
          simp only [hpost, if_false] at hst4
          obtain ⟨it5, cur5, hs5, hst5⟩ := ih (later.map (List.drop R)) (f + 1) f
            (w + R + R * later.length + (a.drop R).length) _ it4 (by simpa using hlen') hqt (by omega) (by omega) hst4
            (fun h => by omega) (hat4.append).2 (by omega)
          refine ⟨it5, cur5, ?_, hst5⟩
          have := (((hs1.trans hs2).trans hs3).trans hs4).trans hs5
          simpa using this

end Opus.ExtProofs
