import OpusModel.CeltCallees
/-
  OpusProofs.CeltCallees — the index models of celt_fir_c, celt_iir, _celt_autocorr, _celt_lpc and pitch_downsample stay
  inside the extent contracts the CELT index bridge uses for them (`Opus.CeltIdx.Call.accs`) and inside their local
  arrays, for ALL argument values that satisfy the routines' own preconditions (their `celt_assert`s).
-/
namespace Opus.CeltCallees

/-- Every hit of the list satisfies `P` (a structure, so that `apply` does not unfold it). -/
structure All (P : Hit → Prop) (l : List Hit) : Prop where
  all : ∀ h ∈ l, P h

theorem all_nil {P : Hit → Prop} : All P [] := ⟨fun _ h => absurd h List.not_mem_nil⟩
theorem all_cons {P : Hit → Prop} {a : Hit} {l : List Hit} (ha : P a) (hl : All P l) : All P (a :: l) := by
  refine ⟨fun h hh => ?_⟩; rcases List.mem_cons.mp hh with rfl | hh
  · exact ha
  · exact hl.all h hh
theorem all_append {P : Hit → Prop} {a b : List Hit} (ha : All P a) (hb : All P b) : All P (a ++ b) := by
  refine ⟨fun h hh => ?_⟩; rcases List.mem_append.mp hh with hh | hh
  · exact ha.all h hh
  · exact hb.all h hh
theorem all_loop {P : Hit → Prop} {lo hi : Int} {body : Int → List Hit}
    (h : ∀ i, lo ≤ i → i < hi → All P (body i)) : All P (loop lo hi body) := by
  refine ⟨fun x hx => ?_⟩
  unfold loop at hx
  obtain ⟨t, ht, hxt⟩ := List.mem_flatMap.mp hx
  have := List.mem_range.mp ht
  exact (h (lo + t) (by omega) (by omega)).all x hxt
theorem all_imp {P Q : Hit → Prop} {l : List Hit} (h : All P l) (hpq : ∀ x, P x → Q x) : All Q l :=
  ⟨fun x hx => hpq x (h.all x hx)⟩
theorem all_map {P Q : Hit → Prop} {l : List Hit} {f : Hit → Hit} (h : All P l) (hpq : ∀ x, P x → Q (f x)) :
    All Q (l.map f) := by
  refine ⟨fun x hx => ?_⟩
  obtain ⟨y, hy, rfl⟩ := List.mem_map.mp hx
  exact hpq y (h.all y hy)

/-- Inside per-array bounds `B arr = (lo, hi)` (inclusive; `lo > hi`: the array must not be touched). -/
def InB (B : CArr → Int × Int) (h : Hit) : Prop := (B h.arr).1 ≤ h.idx ∧ h.idx ≤ (B h.arr).2

/-- Structural steps: split lists, enter loops. -/
macro "hits_step" : tactic =>
  `(tactic| first
    | with_reducible apply all_nil
    | with_reducible apply all_append
    | with_reducible apply all_cons
    | (with_reducible apply all_loop; intro _ _ _))

/-! ## xcorr_kernel_c, celt_inner_prod_c -/

/-- `xcorr_kernel_c(x, y, sum, len)` reads `x[0 .. len)` and `y[0 .. len+3)` (`len ≥ 3` is its `celt_assert`). -/
theorem xcorrKernel_in (xa : CArr) (xo : Int) (ya : CArr) (yo len : Int) (h3 : 3 ≤ len) :
    All (fun h => (h.arr = xa ∧ xo ≤ h.idx ∧ h.idx ≤ xo + len - 1) ∨ (h.arr = ya ∧ yo ≤ h.idx ∧ h.idx ≤ yo + len + 2))
      (xcorrKernel xa xo ya yo len) := by
  unfold xcorrKernel
  repeat' hits_step
  all_goals first
    | (left; refine ⟨rfl, ?_, ?_⟩ <;> simp only [] <;> omega)
    | (right; refine ⟨rfl, ?_, ?_⟩ <;> simp only [] <;> omega)

theorem innerProd_in (xa : CArr) (xo : Int) (ya : CArr) (yo n : Int) :
    All (fun h => (h.arr = xa ∧ xo ≤ h.idx ∧ h.idx ≤ xo + n - 1) ∨ (h.arr = ya ∧ yo ≤ h.idx ∧ h.idx ≤ yo + n - 1))
      (innerProd xa xo ya yo n) := by
  unfold innerProd
  repeat' hits_step
  all_goals first
    | (left; refine ⟨rfl, ?_, ?_⟩ <;> simp only [] <;> omega)
    | (right; refine ⟨rfl, ?_, ?_⟩ <;> simp only [] <;> omega)

/-! ## celt_fir_c -/

def firB (N ord : Int) : CArr → Int × Int
  | .x => (-ord, N - 1) | .num => (0, ord - 1) | .y => (0, N - 1) | .rnum => (0, ord - 1) | _ => (1, 0)

/-- `celt_fir_c(x, num, y, N, ord)`: `x[-ord .. N)`, `num[0 .. ord)`, `y[0 .. N)`, local `rnum[ord]`; nothing else
    (`N ≥ 0`; `ord ≥ 3` is `xcorr_kernel`'s `celt_assert`). -/
theorem fir_in (N ord : Int) (hN : 0 ≤ N) (h3 : 3 ≤ ord) : All (InB (firB N ord)) (firHits N ord) := by
  unfold firHits xcorrKernel
  repeat' hits_step
  all_goals (refine ⟨?_, ?_⟩ <;> simp only [firB] <;> omega)

/-! ## celt_iir -/

def iirB (N ord : Int) : CArr → Int × Int
  | .x => (0, N - 1) | .num => (0, ord - 1) | .y => (0, N - 1) | .mem => (0, ord - 1) | .rnum => (0, ord - 1)
  | .yloc => (0, N + ord - 1) | _ => (1, 0)

/-- `celt_iir(x, den, y, N, ord, mem)`: `x[0 .. N)`, `den[0 .. ord)`, `y[0 .. N)`, `mem[0 .. ord)`, locals `rden[ord]`,
    `y[N+ord]`.  `ord ≥ 3` (`xcorr_kernel`), and `ord ≤ N` for the final `mem[i] = _y[N-i-1]`. -/
theorem iir_in (N ord : Int) (h3 : 3 ≤ ord) (hN : ord ≤ N) : All (InB (iirB N ord)) (iirHits N ord) := by
  unfold iirHits xcorrKernel
  repeat' hits_step
  all_goals (refine ⟨?_, ?_⟩ <;> simp only [iirB] <;> omega)

/-! ## _celt_autocorr -/

def acorrB (overlap lag n : Int) : CArr → Int × Int
  | .x => (0, n - 1) | .ac => (0, lag) | .win => (0, overlap - 1) | .xx => (0, n - 1) | _ => (1, 0)

/-- `_celt_autocorr(x, ac, window, overlap, lag, n)`: `x[0 .. n)`, `ac[0 .. lag]`, `window[0 .. overlap)`, local
    `xx[n]`.  Preconditions: `0 ≤ overlap ≤ n`, `0 ≤ lag`, `n − lag ≥ 3`. -/
theorem acorr_in (overlap lag n : Int) (ho : 0 ≤ overlap ∧ overlap ≤ n) (hl : 0 ≤ lag) (h3 : 3 ≤ n - lag) :
    All (InB (acorrB overlap lag n)) (autocorrHits overlap lag n) := by
  unfold autocorrHits pitchXcorr xcorrKernel innerProd
  by_cases h0 : overlap = 0
  · simp only [h0, if_true]
    repeat' hits_step
    all_goals (refine ⟨?_, ?_⟩ <;> simp only [acorrB] <;> omega)
  · simp only [h0, if_false]
    repeat' hits_step
    all_goals (refine ⟨?_, ?_⟩ <;> simp only [acorrB] <;> omega)

/-! ## _celt_lpc -/

def lpcB (p : Int) : CArr → Int × Int
  | .lpc => (0, p - 1) | .ac => (0, p) | _ => (1, 0)

/-- `_celt_lpc(lpc, ac, p)`: `lpc[0 .. p)`, `ac[0 .. p]` (`p ≥ 0`). -/
theorem lpc_in (p : Int) (hp : 0 ≤ p) : All (InB (lpcB p)) (lpcHits p) := by
  unfold lpcHits
  repeat' hits_step
  all_goals (refine ⟨?_, ?_⟩ <;> simp only [lpcB] <;> omega)

/-! ## pitch_downsample -/

def pdownB (len : Int) (stereo : Bool) : CArr → Int × Int
  | .x => (0, len - 1) | .x1 => if stereo then (0, len - 1) else (1, 0) | .xlp => (0, len / 2 - 1)
  | .lac => (0, 4) | .llpc => (0, 3) | .lpc2 => (0, 4)
  | .xx => (0, len / 2 - 1)        -- the nested _celt_autocorr's local `xx[len>>1]` (allocated, unused with overlap = 0)
  | _ => (1, 0)

/-- `pitch_downsample(x, x_lp, len, C)`: `x[c][0 .. len)`, `x_lp[0 .. len/2)`, locals `ac[5]`, `lpc[4]`, `lpc2[5]`; the
    second channel only for `C = 2`.  Precondition: `len ≥ 14` (the nested `_celt_autocorr(x_lp, ac, NULL, 0, 4, len>>1)`
    needs `len/2 − 4 ≥ 3`; the decoder passes 2048). -/
theorem pdown_in (len : Int) (stereo : Bool) (hlen : 14 ≤ len) : All (InB (pdownB len stereo)) (pdownHits len stereo) := by
  unfold pdownHits fir5Hits
  have hac := acorr_in 0 4 (len / 2) ⟨Int.le_refl 0, by omega⟩ (by omega) (by omega)
  have hlp := lpc_in 4 (by omega)
  have hmapA : All (InB (pdownB len stereo)) ((autocorrHits 0 4 (len / 2)).map fun h =>
      match h.arr with | .x => ⟨.xlp, h.idx⟩ | .ac => ⟨.lac, h.idx⟩ | a => ⟨a, h.idx⟩) := by
    refine all_map hac ?_
    rintro ⟨a, i⟩ ⟨h1, h2⟩
    cases a <;> simp only [acorrB, pdownB, InB] at h1 h2 ⊢ <;> omega
  have hmapL : All (InB (pdownB len stereo)) ((lpcHits 4).map fun h =>
      match h.arr with | .lpc => ⟨.llpc, h.idx⟩ | .ac => ⟨.lac, h.idx⟩ | a => ⟨a, h.idx⟩) := by
    refine all_map hlp ?_
    rintro ⟨a, i⟩ ⟨h1, h2⟩
    cases a <;> simp only [lpcB, pdownB, InB] at h1 h2 ⊢ <;> omega
  cases stereo
  · simp only [Bool.false_eq_true, if_false] at hmapA hmapL ⊢
    repeat' hits_step
    all_goals first
      | exact hmapA
      | exact hmapL
      | (refine ⟨?_, ?_⟩ <;> simp only [pdownB] <;> omega)
  · simp only [if_true] at hmapA hmapL ⊢
    repeat' hits_step
    all_goals first
      | exact hmapA
      | exact hmapL
      | (refine ⟨?_, ?_⟩ <;> simp only [pdownB, if_true] <;> omega)

end Opus.CeltCallees
