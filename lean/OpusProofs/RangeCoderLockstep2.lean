import OpusProofs.RangeCoderLockstep
/-
  OpusProofs.RangeCoderLockstep2 — C08 Stage A, decoder side of the lock-step (all operations).
-/
namespace Opus.RangeCoder

/-- Decoder side of the lock-step: if the decoder (whose `val` is an `opus_uint32` and whose error
    flag is clear before and after) returns the value the operation encoded, then its
    `(rng, nbits_total)` makes the transition `Op.rn` — the same as the encoder's. -/
theorem decOp_rn (d : Dec) (op : Op) (hr : RngOk d) (hl : op.Legal) (hv : d.val < 4294967296)
    (hm : op.Matches (decOp d op).1) (he0 : d.error = 0) (he : (decOp d op).2.error = 0) :
    ((decOp d op).2.rng, (decOp d op).2.nbitsTotal) = op.rn d.rng d.nbitsTotal := by
  cases op with
  | encode fl fh ft =>
    simp only [decOp, decode, udiv, Op.rn]
    exact decUpdate_rn { d with ext := d.rng / ft } fl fh ft hr hl rfl
  | encodeBin fl fh nb =>
    obtain ⟨l1, l2, l3, l4⟩ := hl
    have hp := two_pow_le_65536 l4
    have hp0 : 0 < 2 ^ nb := Nat.pow_pos (by decide)
    simp only [decOp, decodeBin, Op.rn]
    rw [u32_of_lt (by omega)]
    have := decUpdate_rn { d with ext := d.rng / 2 ^ nb } fl fh (2 ^ nb) hr ⟨l1, l2, by omega, hp⟩ rfl
    rw [this]
    simp only [primRN, Op.sub]
  | bitLogp v logp =>
    obtain ⟨l1, l2⟩ := hl
    have hp : 2 ^ logp ≤ 65536 := two_pow_le_65536 (by omega)
    have hp0 : 0 < 2 ^ logp := Nat.pow_pos (by decide)
    have hp1 : 1 < 2 ^ logp := Nat.one_lt_two_pow (by omega)
    have hs : d.rng / 2 ^ logp ≤ d.rng := Nat.div_le_self _ _
    have e1 : sub32 d.rng (d.rng / 2 ^ logp) = d.rng - d.rng / 2 ^ logp := sub32_of_le (by have := hr.2; omega) hs
    simp only [decOp, decBitLogp, Op.Matches] at hm ⊢
    simp only [Op.rn, primRN, Op.sub, symRN]
    rw [decNormalize_rn]
    simp only
    by_cases hv0 : v ≠ 0
    · rw [if_pos hv0] at hm ⊢
      have hd : decide (d.val < d.rng / 2 ^ logp) = true := by
        by_cases hh : d.val < d.rng / 2 ^ logp
        · simp [hh]
        · simp [hh] at hm
      simp only [hd, if_true]
      simp [subRho]
    · rw [if_neg hv0] at hm ⊢
      have hd : decide (d.val < d.rng / 2 ^ logp) = false := by
        by_cases hh : d.val < d.rng / 2 ^ logp
        · simp [hh] at hm
        · simp [hh]
      simp only [hd, Bool.false_eq_true, if_false]
      simp [subRho, e1]
  | icdf s tbl ftb =>
    obtain ⟨l1, l2, l3⟩ := hl
    simp only [decOp, Op.Matches] at hm ⊢
    exact decIcdf_rn d s tbl ftb hr l1 l2 (by omega) hm
  | icdf16 s tbl ftb =>
    obtain ⟨l1, l2, l3⟩ := hl
    simp only [decOp, decIcdf16, Op.Matches] at hm ⊢
    have := decIcdf_rn d s tbl ftb hr l1 l2 l3 hm
    rw [this]
    simp only [Op.rn, primRN, Op.sub]
  | bits v n =>
    obtain ⟨b1, b2, _, _⟩ := decBits_rn d n
    simp only [decOp, Op.rn, b1, b2]
  | patchInitial v n => rfl
  | shrink size => rfl
  | uint v ft =>
    obtain ⟨l1, l2, l3⟩ := hl
    by_cases hb : ilog (ft - 1) > 8
    · have hleg := uint_hi_legal l1 l2 l3 hb
      have hft'256 := uint_hi_ft_le l1 hb
      have hftb24 : ilog (ft - 1) - 8 ≤ 24 := by
        have : ilog (ft - 1) ≤ 32 := by rw [ilog_lt_iff]; omega
        omega
      simp only [decOp, decUint, Op.Matches, Op.rn, if_pos hb] at hm he ⊢
      generalize ilog (ft - 1) - 8 = ftb at *
      generalize (ft - 1) / 2 ^ ftb + 1 = ft' at *
      have hs256 := decode_lt d ft' hr hv hleg.2.2.1 hft'256
      have hc1 : (decode d ft').2 = { d with ext := d.rng / ft' } := by simp only [decode, udiv]
      rw [hc1] at hm he ⊢
      generalize (decode d ft').1 = s at *
      obtain ⟨b1, b2, b3, b4⟩ := decBits_rn (decUpdate { d with ext := d.rng / ft' } s (s + 1) ft') ftb
      have hupd_err : (decUpdate { d with ext := d.rng / ft' } s (s + 1) ft').error = 0 := by
        simp only [decUpdate, decNormalize_error]; exact he0
      generalize decBits (decUpdate { d with ext := d.rng / ft' } s (s + 1) ft') ftb = rb at *
      obtain ⟨lo, c3⟩ := rb
      simp only at hm he b1 b2 b3 b4 ⊢
      have hsh : s <<< ftb < 4294967296 := by
        clear hm he
        rw [Nat.shiftLeft_eq]
        have h1 : 2 ^ ftb ≤ 2 ^ 24 := Nat.pow_le_pow_right (by decide) hftb24
        have h2 : s * 2 ^ ftb ≤ 255 * 2 ^ 24 := Nat.mul_le_mul (by omega) h1
        omega
      rw [u32_of_lt hsh, Nat.or_comm, or_shift _ _ _ b4] at hm he ⊢
      by_cases ht : lo + s * 2 ^ ftb ≤ ft - 1
      · rw [if_pos ht] at hm he ⊢
        simp only at hm ⊢
        have hsv : s = v / 2 ^ ftb := by
          rw [← hm, Nat.add_mul_div_right _ _ (Nat.pow_pos (by decide)), Nat.div_eq_of_lt b4, Nat.zero_add]
        rw [b1, b2]
        have := decUpdate_rn { d with ext := d.rng / ft' } s (s + 1) ft' hr
          (by rw [hsv]; exact hleg) rfl
        rw [← hsv]
        rw [Prod.ext_iff] at this
        simp only at this
        rw [this.1, this.2]
      · rw [if_neg ht] at he
        simp only at he
        exact absurd he (by decide)
    · have hleg := uint_lo_legal l1 l3 hb
      simp only [decOp, decUint, Op.Matches, Op.rn, if_neg hb] at hm he ⊢
      have hc1 : (decode d (ft - 1 + 1)).2 = { d with ext := d.rng / (ft - 1 + 1) } := by simp only [decode, udiv]
      rw [hc1, hm]
      exact decUpdate_rn { d with ext := d.rng / (ft - 1 + 1) } v (v + 1) (ft - 1 + 1) hr hleg rfl

end Opus.RangeCoder
