import OpusProofs.RangeCoderLockstep
/-
  OpusProofs.RangeCoderLockstep2 — C08 Stage A, decoder side of the lock-step (all operations).
-/
namespace Opus.RangeCoder

/-- Decoder side of the lock-step: if the decoder returns the value the operation encoded, then its
    `(rng, nbits_total)` makes the transition `Op.rn` — the same as the encoder's — whatever the buffer
    contents.  For `ec_dec_uint` the decoder's `val` must be an `opus_uint32` and its error flag clear
    before and after (a value above the range is reported through that flag). -/
theorem decOp_rn (d : Dec) (op : Op) (hr : RngOk d) (hl : op.Legal)
    (hu : (∀ v ft, op ≠ .uint v ft) ∨ (d.val < 4294967296 ∧ d.error = 0 ∧ (decOp d op).2.error = 0))
    (hm : op.Matches (decOp d op).1) :
    ((decOp d op).2.rng, (decOp d op).2.nbitsTotal) = op.rn d.rng d.nbitsTotal := by
  cases op with
  | encode fl fh ft =>
    simp only [decOp, decode, udiv, Op.rn]
    exact decUpdate_rn { d with ext := d.rng / ft } fl fh ft hr hl rfl
  | encodeBin fl fh nb =>
    obtain ⟨l1, l2, l3, l4⟩ := hl
    have hp := two_pow_le_65536 l4
    have hp0 : 0 < 2 ^ nb := Nat.pow_pos (by decide)
    simp only [decOp, decodeBin, Op.rn]
    rw [u32_of_lt (by omega)]
    have := decUpdate_rn { d with ext := d.rng / 2 ^ nb } fl fh (2 ^ nb) hr ⟨l1, l2, by omega, hp⟩ rfl
    rw [this]
    simp only [primRN, Op.sub]
  | bitLogp v logp =>
    obtain ⟨l1, l2⟩ := hl
    have hp : 2 ^ logp ≤ 65536 := two_pow_le_65536 (by omega)
    have hp0 : 0 < 2 ^ logp := Nat.pow_pos (by decide)
    have hp1 : 1 < 2 ^ logp := Nat.one_lt_two_pow (by omega)
    have hs : d.rng / 2 ^ logp ≤ d.rng := Nat.div_le_self _ _
    have e1 : sub32 d.rng (d.rng / 2 ^ logp) = d.rng - d.rng / 2 ^ logp := sub32_of_le (by have := hr.2; omega) hs
    simp only [decOp, decBitLogp, Op.Matches] at hm ⊢
    simp only [Op.rn, primRN, Op.sub, symRN]
    rw [decNormalize_rn]
    simp only
    by_cases hv0 : v ≠ 0
    · rw [if_pos hv0] at hm ⊢
      have hd : decide (d.val < d.rng / 2 ^ logp) = true := by
        by_cases hh : d.val < d.rng / 2 ^ logp
        · simp [hh]
        · simp [hh] at hm
      simp only [hd, if_true]
      simp [subRho]
    · rw [if_neg hv0] at hm ⊢
      have hd : decide (d.val < d.rng / 2 ^ logp) = false := by
        by_cases hh : d.val < d.rng / 2 ^ logp
        · simp [hh] at hm
        · simp [hh]
      simp only [hd, Bool.false_eq_true, if_false]
      simp [subRho, e1]
  | icdf s tbl ftb =>
    obtain ⟨l1, l2, l3⟩ := hl
    simp only [decOp, Op.Matches] at hm ⊢
    exact decIcdf_rn d s tbl ftb hr l1 l2 (by omega) hm
  | icdf16 s tbl ftb =>
    obtain ⟨l1, l2, l3⟩ := hl
    simp only [decOp, decIcdf16, Op.Matches] at hm ⊢
    have := decIcdf_rn d s tbl ftb hr l1 l2 l3 hm
    rw [this]
    simp only [Op.rn, primRN, Op.sub]
  | bits v n =>
    obtain ⟨b1, b2, _, _⟩ := decBits_rn d n
    simp only [decOp, Op.rn, b1, b2]
  | patchInitial v n => rfl
  | shrink size => rfl
  | uint v ft =>
    obtain ⟨l1, l2, l3⟩ := hl
    obtain ⟨hv, he0, he⟩ : d.val < 4294967296 ∧ d.error = 0 ∧ (decOp d (.uint v ft)).2.error = 0 := by
      rcases hu with hu | hu
      · exact absurd rfl (hu v ft)
      · exact hu
    simp only [decOp, Op.Matches] at hm he ⊢
    by_cases hb : ilog (ft - 1) > 8
    · rw [decUint_hi d ft hb] at hm he ⊢
      have hftb24 : ilog (ft - 1) - 8 ≤ 24 := by
        have : ilog (ft - 1) ≤ 32 := by rw [ilog_lt_iff]; omega
        omega
      obtain ⟨t1, t2⟩ := uintHi_rn d v (ft - 1) (ilog (ft - 1) - 8) hr hv he0 hftb24 (uint_hi_ft_le l1 hb)
        (uint_hi_legal l1 l2 l3 hb) hm he
      simp only [Op.rn, if_pos hb]
      rw [t1, t2]
    · rw [decUint_lo d ft hb] at hm ⊢
      simp only at hm ⊢
      have hleg := uint_lo_legal l1 l3 hb
      have hc1 : (decode d (ft - 1 + 1)).2 = { d with ext := d.rng / (ft - 1 + 1) } := rfl
      rw [hc1, hm]
      obtain ⟨t1, t2⟩ := decUpdate_rn2 { d with ext := d.rng / (ft - 1 + 1) } v (v + 1) (ft - 1 + 1) ⟨hr.1, hr.2⟩ hleg rfl
      simp only [Op.rn, if_neg hb]
      rw [t1, t2]

end Opus.RangeCoder
