import OpusProofs.ExtIter
/-
  C16 helper lemmas, part 3: `count`, `count_ext`, `parse` and plain iteration agree.
-/
set_option linter.unusedVariables false
namespace Opus.ExtProofs
open Opus Opus.Ext

/-- Plain iteration with `opus_extension_iterator_next` until it returns `<= 0`: the extensions in
    bitstream order and the final return value (`done` = 0, `invalid` = OPUS_INVALID_PACKET). -/
def iterAll (it : Iter) : Res (List ExtRef × Step) :=
  match h : next it with
  | .ok (it', .ext e) =>
    match iterAll it' with
    | .ok (l, s) => .ok (e :: l, s)
    | .err er => .err er
    | .oob => .oob
    | .abort => .abort
  | .ok (_, s) => .ok ([], s)
  | .err e => .err e
  | .oob => .oob
  | .abort => .abort
termination_by it.mu
decreasing_by exact next_decreases h

/-! Unfolding equations without the termination witness. -/

theorem iterAll_eq (it : Iter) : iterAll it =
    match next it with
    | .ok (it', .ext e) =>
      (match iterAll it' with
       | .ok (l, s) => .ok (e :: l, s)
       | .err er => .err er
       | .oob => .oob
       | .abort => .abort)
    | .ok (_, s) => .ok ([], s)
    | .err e => .err e
    | .oob => .oob
    | .abort => .abort := by
  rw [iterAll]; split <;> simp [*]

theorem countLoop_eq (it : Iter) (n : Nat) : countLoop it n =
    match next it with
    | .ok (it', .ext _) => countLoop it' (n + 1)
    | .ok (_, _) => .ok n
    | .err e => .err e
    | .oob => .oob
    | .abort => .abort := by
  rw [countLoop]; split <;> simp [*]

theorem countExtLoop_eq (it : Iter) (n : Nat) (cnt : List Nat) : countExtLoop it n cnt =
    match next it with
    | .ok (it', .ext e) =>
      (match cnt[e.frame]? with
       | none => .oob
       | some c => countExtLoop it' (n + 1) (cnt.set e.frame (c + 1)))
    | .ok (_, _) => .ok (n, cnt)
    | .err e => .err e
    | .oob => .oob
    | .abort => .abort := by
  rw [countExtLoop]; split <;> simp [*]
  rfl

theorem parseLoop_eq (it : Iter) (cap : Int) (acc : Array ExtRef) : parseLoop it cap acc =
    match next it with
    | .ok (it', .ext e) =>
      if (acc.size : Int) = cap then .err .bufferTooSmall else parseLoop it' cap (acc.push e)
    | .ok (_, .done) => .ok acc
    | .ok (_, .invalid) => .err .invalidPacket
    | .err e => .err e
    | .oob => .oob
    | .abort => .abort := by
  rw [parseLoop]; split <;> simp [*]

/-- From a state satisfying the invariant, iteration ends with `done` or `invalid` (no fault) and every
    extension on the way is inside the buffer. -/
theorem iterAll_inv (it : Iter) : Inv it → ∃ l s, iterAll it = .ok (l, s) ∧ (s = .done ∨ s = .invalid) ∧
    ∀ e ∈ l, ExtOk it e := by
  fun_induction iterAll it with
  | case1 it it' e h l s hrec ih =>
    intro hI
    obtain ⟨it1, s1, g1, g2, g3, g4⟩ := next_inv hI
    rw [h] at g1; cases g1
    obtain ⟨l', s', k1, k2, k3⟩ := ih g2
    rw [hrec] at k1; cases k1
    refine ⟨_, _, rfl, k2, ?_⟩
    intro x hx
    have hsame : ∀ y, ExtOk it' y → ExtOk it y := by
      intro y hy; unfold ExtOk at *; rw [← g3.2.1, ← g3.2.2.1]; exact hy
    rcases List.mem_cons.mp hx with rfl | hx
    · exact hsame _ g4
    · exact hsame _ (k3 x hx)
  | case2 it it' e h er hrec ih =>
    intro hI
    obtain ⟨it1, s1, g1, g2, _⟩ := next_inv hI
    rw [h] at g1; cases g1
    obtain ⟨l', s', k1, _⟩ := ih g2
    rw [hrec] at k1; cases k1
  | case3 it it' e h hrec ih =>
    intro hI
    obtain ⟨it1, s1, g1, g2, _⟩ := next_inv hI
    rw [h] at g1; cases g1
    obtain ⟨l', s', k1, _⟩ := ih g2
    rw [hrec] at k1; cases k1
  | case4 it it' e h hrec ih =>
    intro hI
    obtain ⟨it1, s1, g1, g2, _⟩ := next_inv hI
    rw [h] at g1; cases g1
    obtain ⟨l', s', k1, _⟩ := ih g2
    rw [hrec] at k1; cases k1
  | case5 it it' s hne h =>
    intro hI
    refine ⟨[], s, rfl, ?_, by simp⟩
    cases s with
    | ext e => exact (hne _ rfl).elim
    | done => exact Or.inl rfl
    | invalid => exact Or.inr rfl
  | case6 it e h =>
    intro hI; obtain ⟨it1, s1, g1, _⟩ := next_inv hI; rw [h] at g1; cases g1
  | case7 it h =>
    intro hI; obtain ⟨it1, s1, g1, _⟩ := next_inv hI; rw [h] at g1; cases g1
  | case8 it h =>
    intro hI; obtain ⟨it1, s1, g1, _⟩ := next_inv hI; rw [h] at g1; cases g1

theorem countLoop_iterAll (it : Iter) : ∀ l s, iterAll it = .ok (l, s) → ∀ n, countLoop it n = .ok (n + l.length) := by
  fun_induction iterAll it with
  | case1 it it' e h l s hrec ih =>
    intro l0 s0 heq n
    simp only [Res.ok.injEq, Prod.mk.injEq] at heq
    obtain ⟨rfl, rfl⟩ := heq
    rw [countLoop_eq, h]
    simp only
    rw [ih _ _ hrec]
    simp only [List.length_cons]; congr 1; omega
  | case2 => intro _ _ h; simp at h
  | case3 => intro _ _ h; simp at h
  | case4 => intro _ _ h; simp at h
  | case5 it it' s hne h =>
    intro l0 s0 heq n
    simp only [Res.ok.injEq, Prod.mk.injEq] at heq
    obtain ⟨rfl, rfl⟩ := heq
    rw [countLoop_eq, h]
    cases s with
    | ext e => exact (hne _ rfl).elim
    | done => rfl
    | invalid => rfl
  | case6 => intro _ _ h; simp at h
  | case7 => intro _ _ h; simp at h
  | case8 => intro _ _ h; simp at h

theorem parseLoop_iterAll (it : Iter) : ∀ l s, iterAll it = .ok (l, s) → ∀ (cap : Int) (acc : Array ExtRef),
    (acc.size : Int) ≤ cap →
    parseLoop it cap acc =
      if cap < (acc.size : Int) + l.length then .err .bufferTooSmall
      else if s = .done then .ok (acc ++ l.toArray) else .err .invalidPacket := by
  fun_induction iterAll it with
  | case1 it it' e h l s hrec ih =>
    intro l0 s0 heq cap acc hcap
    simp only [Res.ok.injEq, Prod.mk.injEq] at heq
    obtain ⟨rfl, rfl⟩ := heq
    rw [parseLoop_eq, h]
    simp only
    by_cases hc : (acc.size : Int) = cap
    · simp only [hc, if_true]
      have : cap < cap + ((e :: l).length : Int) := by simp only [List.length_cons]; omega
      simp only [this, if_true]
    · simp only [hc, if_false]
      rw [ih _ _ hrec cap (acc.push e) (by simp only [Array.size_push]; omega)]
      simp only [Array.size_push, List.length_cons]
      have e1 : ((acc.size + 1 : Nat) : Int) + (l.length : Int) = (acc.size : Int) + ((l.length + 1 : Nat) : Int) := by omega
      rw [e1]
      have e2 : acc.push e ++ l.toArray = acc ++ (e :: l).toArray := by
        apply Array.ext'; simp
      rw [e2]
  | case2 => intro _ _ h; simp at h
  | case3 => intro _ _ h; simp at h
  | case4 => intro _ _ h; simp at h
  | case5 it it' s hne h =>
    intro l0 s0 heq cap acc hcap
    simp only [Res.ok.injEq, Prod.mk.injEq] at heq
    obtain ⟨rfl, rfl⟩ := heq
    rw [parseLoop_eq, h]
    have : ¬ (cap < (acc.size : Int) + (([] : List ExtRef).length : Int)) := by simp only [List.length_nil]; omega
    simp only [this, if_false]
    cases s with
    | ext e => exact (hne _ rfl).elim
    | done => simp
    | invalid => simp
  | case6 => intro _ _ h; simp at h
  | case7 => intro _ _ h; simp at h
  | case8 => intro _ _ h; simp at h

/-- The per-frame counters after the extensions `l` have been counted into `cnt`
    (`nb_frame_exts[ext.frame]++`, extensions.c:334). -/
def bump (cnt : List Nat) : List ExtRef → List Nat
  | [] => cnt
  | e :: l => bump (cnt.set e.frame (cnt.getD e.frame 0 + 1)) l

theorem bump_length (cnt : List Nat) (l : List ExtRef) : (bump cnt l).length = cnt.length := by
  induction l generalizing cnt with
  | nil => rfl
  | cons e l ih => simp [bump, ih]

theorem countExtLoop_iterAll (it : Iter) : ∀ l s, iterAll it = .ok (l, s) → ∀ (n : Nat) (cnt : List Nat),
    (∀ e ∈ l, e.frame < cnt.length) →
    countExtLoop it n cnt = .ok (n + l.length, bump cnt l) := by
  fun_induction iterAll it with
  | case1 it it' e h l s hrec ih =>
    intro l0 s0 heq n cnt hfr
    simp only [Res.ok.injEq, Prod.mk.injEq] at heq
    obtain ⟨rfl, rfl⟩ := heq
    rw [countExtLoop_eq, h]
    simp only
    have hlt : e.frame < cnt.length := hfr e (List.mem_cons_self ..)
    have hget : cnt[e.frame]? = some cnt[e.frame] := by simp [hlt]
    rw [hget]
    simp only
    rw [ih _ _ hrec (n + 1) _ (by
      intro x hx; simp only [List.length_set]; exact hfr x (List.mem_cons_of_mem _ hx))]
    simp only [bump, List.length_cons]
    have : cnt.getD e.frame 0 = cnt[e.frame] := by simp [List.getD, hget]
    rw [this]; congr 2; omega
  | case2 => intro _ _ h; simp at h
  | case3 => intro _ _ h; simp at h
  | case4 => intro _ _ h; simp at h
  | case5 it it' s hne h =>
    intro l0 s0 heq n cnt hfr
    simp only [Res.ok.injEq, Prod.mk.injEq] at heq
    obtain ⟨rfl, rfl⟩ := heq
    rw [countExtLoop_eq, h]
    cases s with
    | ext e => exact (hne _ rfl).elim
    | done => rfl
    | invalid => rfl
  | case6 => intro _ _ h; simp at h
  | case7 => intro _ _ h; simp at h
  | case8 => intro _ _ h; simp at h

/-- Number of extensions of `l` that belong to frame `f`. -/
def frameCount (l : List ExtRef) (f : Nat) : Nat := (l.filter (fun e => e.frame = f)).length

theorem bump_getD (cnt : List Nat) (l : List ExtRef) (f : Nat) (hf : f < cnt.length) :
    (bump cnt l).getD f 0 = cnt.getD f 0 + frameCount l f := by
  induction l generalizing cnt with
  | nil => simp [bump, frameCount]
  | cons e l ih =>
    simp only [bump]
    rw [ih _ (by simp only [List.length_set]; exact hf)]
    unfold frameCount
    by_cases hef : e.frame = f
    · subst hef
      simp [List.getD, hf]
      omega
    · simp only [List.getD, List.filter_cons, hef, decide_false]
      rw [List.getElem?_set_ne hef]
      simp

theorem sumN_bump (cnt : List Nat) (l : List ExtRef) (h : ∀ e ∈ l, e.frame < cnt.length) :
    sumN (bump cnt l) = sumN cnt + l.length := by
  induction l generalizing cnt with
  | nil => simp [bump]
  | cons e l ih =>
    simp only [bump]
    have hlt : e.frame < cnt.length := h e (List.mem_cons_self ..)
    rw [ih _ (by intro x hx; simp only [List.length_set]; exact h x (List.mem_cons_of_mem _ hx))]
    have key : ∀ (c : List Nat) (i v : Nat), i < c.length → sumN (c.set i v) + c.getD i 0 = sumN c + v := by
      intro c
      induction c with
      | nil => intro i v hi; simp at hi
      | cons x xs ihc =>
        intro i v hi
        cases i with
        | zero => simp [List.getD]; omega
        | succ j =>
          have := ihc j v (by simpa using hi)
          simp [List.getD] at this ⊢; omega
    have := key cnt e.frame (cnt.getD e.frame 0 + 1) hlt
    simp only [List.length_cons]; omega

/-- Reported short IDs carry 0 or 1 payload byte. -/
theorem iterAll_short {it : Iter} {l : List ExtRef} {s : Step} (hI : Inv it) (h : iterAll it = .ok (l, s)) :
    ∀ e ∈ l, e.id < 32 → e.len ≤ 1 := by
  obtain ⟨l', s', h', _, hext⟩ := iterAll_inv it hI
  rw [h] at h'; cases h'
  intro e he; exact (hext e he).2.2.2.2.2

/-- All readers of src/extensions.c agree on every byte string. -/
theorem scan_agree (d : Bytes) (hb : BytesOk d) (nbFrames : Nat) (hnf : nbFrames ≤ 48) :
    ∃ (it : Iter) (l : List ExtRef) (s : Step),
      iterInit d d.length nbFrames = .ok it ∧ iterAll it = .ok (l, s) ∧ (s = .done ∨ s = .invalid) ∧
      (∀ e ∈ l, 3 ≤ e.id ∧ e.id ≤ 127 ∧ e.frame < nbFrames ∧ 0 ≤ e.len ∧ (e.off : Int) + e.len ≤ d.length) ∧
      count d d.length nbFrames = .ok l.length ∧
      countExt d d.length nbFrames = .ok (l.length, (List.range nbFrames).map (frameCount l)) ∧
      sumN ((List.range nbFrames).map (frameCount l)) = l.length ∧
      (∀ cap : Int, (l.length : Int) ≤ cap →
        parse d d.length cap nbFrames = if s = .done then .ok l else .err .invalidPacket) ∧
      (∀ cap : Int, 0 ≤ cap → cap < l.length → parse d d.length cap nbFrames = .err .bufferTooSmall) := by
  have hinit : ∃ it, iterInit d d.length nbFrames = .ok it := by
    unfold iterInit
    have h1 : ¬ ((d.length : Int) < 0) := by omega
    have h2 : ¬ ((nbFrames : Int) < 0 ∨ (nbFrames : Int) > 48) := by omega
    simp only [h1, h2, if_false]
    exact ⟨_, rfl⟩
  obtain ⟨it, hit⟩ := hinit
  obtain ⟨hI, hlen, hnb, hdata⟩ := iterInit_inv hb (Int.le_refl _) hit
  have hnb' : it.nbFrames = nbFrames := by omega
  obtain ⟨l, s, hall, hs, hext⟩ := iterAll_inv it hI
  have hext' : ∀ e ∈ l, 3 ≤ e.id ∧ e.id ≤ 127 ∧ e.frame < nbFrames ∧ 0 ≤ e.len ∧ (e.off : Int) + e.len ≤ d.length := by
    intro e he
    have := hext e he
    unfold ExtOk at this
    rw [hnb', hlen] at this
    exact ⟨this.1, this.2.1, this.2.2.1, this.2.2.2.1, this.2.2.2.2.1⟩
  have hfr : ∀ e ∈ l, e.frame < (List.replicate it.nbFrames 0).length := by
    intro e he; simp only [List.length_replicate, hnb']; exact (hext' e he).2.2.1
  have hbump : bump (List.replicate nbFrames 0) l = (List.range nbFrames).map (frameCount l) := by
    apply List.ext_getElem
    · simp [bump_length]
    · intro i h1 h2
      have hi : i < nbFrames := by simpa [bump_length] using h1
      have := bump_getD (List.replicate nbFrames 0) l i (by simpa using hi)
      simp only [List.getD, List.getElem?_eq_getElem h1, Option.getD_some] at this
      rw [this]
      simp [hi]
  refine ⟨it, l, s, hit, hall, hs, hext', ?_, ?_, ?_, ?_, ?_⟩
  · unfold count; rw [hit]; simp only; rw [countLoop_iterAll it l s hall]; simp
  · unfold countExt; rw [hit]; simp only
    rw [countExtLoop_iterAll it l s hall 0 _ hfr, hnb', hbump]; simp
  · rw [← hbump, sumN_bump _ _ (by rw [← hnb']; exact hfr)]
    have : ∀ n, sumN (List.replicate n 0) = 0 := by
      intro n; induction n with
      | zero => rfl
      | succ n ih => simp [List.replicate_succ, ih]
    have := this nbFrames
    omega
  · intro cap hcap
    unfold parse; rw [hit]; simp only
    rw [parseLoop_iterAll it l s hall cap #[] (by simp; omega)]
    have : ¬ (cap < ((#[] : Array ExtRef).size : Int) + (l.length : Int)) := by simp; omega
    simp only [this, if_false]
    by_cases hd : s = .done <;> simp [hd]
  · intro cap h0 hcap
    unfold parse; rw [hit]; simp only
    rw [parseLoop_iterAll it l s hall cap #[] (by simp; omega)]
    have : cap < ((#[] : Array ExtRef).size : Int) + (l.length : Int) := by simp; omega
    simp only [this, if_true]

end Opus.ExtProofs
