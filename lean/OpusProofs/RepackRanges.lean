import OpusProofs.RepackProps
/-
  C07 helper lemmas, part 17: ranges of the size arithmetic of src/repacketizer.c.  The model computes
  with unbounded integers; these lemmas show that on reachable states every intermediate of the
  extension-free paths lies in the `opus_int32` range whenever `maxlen` does, and that the
  `opus_int16 len[48]` stores are lossless.
-/
namespace Opus.RepackProofs
open Opus Opus.Framing Opus.FramingSpec Opus.FramingProofs Opus.Repack Opus.Ext

/-- `x` is representable as `opus_int32`. -/
def I32 (x : Int) : Prop := -2147483648 ≤ x ∧ x ≤ 2147483647

theorem tot3_bounds (lens : List Nat) (hne : lens ≠ []) (h : ∀ x ∈ lens, x ≤ 1275) (sd : Bool) :
    2 ≤ tot3 lens (sdSize sd (lens.getLastD 0)) ∧
    tot3 lens (sdSize sd (lens.getLastD 0)) ≤ 1277 * lens.length + 2 := by
  have hs := sumN_le lens 1275 h
  have hd := flatMap_encLen_le lens.dropLast
  have hdl : lens.dropLast.length = lens.length - 1 := List.length_dropLast
  have hpos : 0 < lens.length := List.length_pos_iff.mpr hne
  rw [tot3_eq lens hne]
  have h0 : 0 ≤ sdSize sd (lens.getLastD 0) ∧ sdSize sd (lens.getLastD 0) ≤ 2 := by
    unfold sdSize; cases sd <;> simp <;> split <;> omega
  split
  · push_cast; omega
  · simp only [List.length_nil]; push_cast; omega

/-- Sizes the repacketizer adds up for a selection of frames of a reachable state: between 1 and
    `1277·48 + 2 = 61298`, far inside `opus_int32`. -/
theorem sel_size_ranges (s : Rp) (hinv : Inv s) (b e : Nat) (hb : b < e) (he : e ≤ s.nbFrames) (sd : Bool) :
    1 ≤ minSize sd ((selFrames s b e).map List.length) ∧
    minSize sd ((selFrames s b e).map List.length) ≤
      tot3 ((selFrames s b e).map List.length) (sdSize sd (((selFrames s b e).map List.length).getLastD 0)) ∧
    tot3 ((selFrames s b e).map List.length) (sdSize sd (((selFrames s b e).map List.length).getLastD 0)) ≤ 61298 := by
  obtain ⟨hok, hlen⟩ := selFrames_ok s hinv b e hb he
  have hlne : (selFrames s b e).map List.length ≠ [] := by simpa using hok.ne
  have hle : ∀ x ∈ (selFrames s b e).map List.length, x ≤ 1275 := by
    intro x hx; simp only [List.mem_map] at hx; obtain ⟨f, hf, rfl⟩ := hx; exact hok.le f hf
  have h48 := hinv.nb_le
  obtain ⟨t1, t2⟩ := tot3_bounds _ hlne hle sd
  obtain ⟨m1, m2⟩ := minSize_le_tot3 sd _ hlne
  simp only [List.length_map, hlen] at t2 m2
  refine ⟨?_, m1, by omega⟩
  by_cases h2 : e - b ≤ 2
  · have := m2 h2; omega
  · rw [tot3_le_of_min sd _ (by simp [hlen]; omega)]; omega

/-- With `maxlen` an `opus_int32`, the padding arithmetic of the extension-free code-3 path
    (`pad_amount`, `nb_255s`, the re-check `tot_size + nb_255s + 1 > maxlen`, `ones_begin`, the final
    `tot_size`) stays inside `opus_int32`; the re-check never fires. -/
theorem pad_arith_ranges (tot maxlen : Int) (ht : 2 ≤ tot ∧ tot ≤ 61298) (hm : I32 maxlen) (hfit : tot ≤ maxlen) :
    I32 (maxlen - tot) ∧ I32 ((maxlen - tot - 1) / 255) ∧ I32 (tot + (maxlen - tot - 1) / 255 + 1) ∧
    I32 (tot + (maxlen - tot)) ∧ (1 ≤ maxlen - tot → tot + (maxlen - tot - 1) / 255 + 1 ≤ maxlen) ∧
    I32 (maxlen - tot - 255 * ((maxlen - tot - 1) / 255) - 1) := by
  unfold I32 at *
  omega

/-- `opus_repacketizer_cat`: the 120 ms test `(curr_nb_frames + nb_frames) * framesize` cannot overflow
    (`curr_nb_frames ≤ 63`, `nb_frames ≤ 48`, `framesize ≤ 480`), and every stored `len[i]` fits `opus_int16`. -/
theorem cat_arith_ranges (s : Rp) (hinv : Inv s) (curr : Nat) (hc : curr ≤ 63) (b0 : Nat) (hb0 : b0 < 256) :
    (curr + (withToc s b0).nbFrames) * (withToc s b0).framesize ≤ 53280 ∧ ∀ f ∈ s.frames, f.length ≤ 32767 := by
  obtain ⟨h1, h2, _, _⟩ := withToc_fs s hinv b0 hb0
  have h480 := (frameDur48_spf8 (withToc s b0).toc (List.mem_range.mpr h1)).2.1
  have hnb : (withToc s b0).nbFrames = s.nbFrames := by simp [Rp.nbFrames, (withToc_frames s b0).1]
  have h48 := hinv.nb_le
  refine ⟨?_, fun f hf => by have := hinv.le f hf; omega⟩
  rw [hnb, h2]
  calc (curr + s.nbFrames) * samplesPerFrame (withToc s b0).toc 8000 ≤ 111 * 480 :=
        Nat.mul_le_mul (by omega) h480
    _ = 53280 := rfl

/-- The size arithmetic of the code-3 branch WITH extensions (repacketizer.c:271-299): `ext_len` is what
    `opus_packet_extensions_generate(NULL, maxlen - tot_size, …)` returned (so `0 ≤ ext_len ≤ maxlen - tot`),
    `pad_amount`, `nb_255s`, the re-check `tot_size + ext_len + nb_255s + 1 > maxlen`, `ext_begin`,
    `ones_begin`, the last length byte and the final `tot_size`.  No `opus_int32` wrap when
    `maxlen ≤ 2139062142` (= 2^31 - 8421506, tight: see `ext_arith_overflow_example`; any `ext_len`), or when
    `ext_len ≤ 2^30` (any `opus_int32` `maxlen`). -/
theorem ext_arith_ranges (tot maxlen extLen : Int) (pad : Bool) (ht : 2 ≤ tot ∧ tot ≤ 61298) (hm : I32 maxlen)
    (hfit : tot ≤ maxlen) (he : 0 ≤ extLen ∧ extLen ≤ maxlen - tot)
    (hbound : maxlen ≤ 2139062142 ∨ extLen ≤ 1073741824) :
    let amount := if pad then maxlen - tot else extLen + extLen / 254 + 1
    let nb := (amount - 1) / 255
    I32 (maxlen - tot) ∧ I32 (extLen / 254) ∧ I32 (extLen + extLen / 254) ∧ I32 amount ∧ I32 (amount - 1) ∧ I32 nb ∧
    I32 (tot + extLen) ∧ I32 (tot + extLen + nb) ∧ I32 (tot + extLen + nb + 1) ∧
    I32 (tot + amount) ∧ I32 (tot + amount - extLen) ∧ I32 (tot + nb + 1) ∧
    I32 (255 * nb) ∧ I32 (amount - 255 * nb - 1) := by
  unfold I32 at *
  cases pad
  · simp only [Bool.false_eq_true, if_false]; omega
  · simp only [if_true]; omega

/-- The bound is tight: one more byte of `maxlen` and (without `pad`, extension payload filling the buffer)
    the sum of the re-check `tot_size + ext_len + nb_255s + 1` is `2^31`; and at `maxlen = INT32_MAX` with `pad` the sum of the
    re-check leaves `opus_int32` as well.  (Reaching either needs more than 2 GB of extension payload; what the
    C code does then is signed overflow, i.e. undefined behaviour — outside the model.) -/
theorem ext_arith_overflow_example :
    (let maxlen : Int := 2139062143
     let tot : Int := 2
     let extLen : Int := maxlen - tot
     ¬ I32 (tot + extLen + (extLen + extLen / 254 + 1 - 1) / 255 + 1)) ∧
    (let maxlen : Int := 2147483647
     let tot : Int := 2
     let extLen : Int := maxlen - tot
     ¬ I32 (tot + extLen + (maxlen - tot - 1) / 255 + 1)) := by
  unfold I32; decide

end Opus.RepackProofs
