import OpusProofs.SilkResampBasic
/-
  OpusProofs.SilkResampRange — where the 32-bit reduction of the model is the identity.
  silk_resampler_private_IIR_FIR_INTERPOL (IIR_FIR.c:52-59): the eight `silk_SMLABB` accumulations onto res_Q15 never
  leave `opus_int32` when the buffer holds `opus_int16` values — it does, the buffer is an `opus_int16` array — for
  every one of the 12 interpolation phases: the C `+` has no signed overflow there and `smlabb`'s `wrap32` is the
  identity.  (For the all-pass sections of up2_HQ and the AR2 recursion no such bound is proved: their `silk_ADD32` /
  `silk_SUB32` / `silk_SMLAWB` operate on filter states, the model reduces mod 2^32 and the tie runs under UBSan.)
-/
namespace OpusProofs.SilkResamp
open Opus Opus.SilkResamp Opus.SilkParams Opus.Gen.SilkResampRom

/-- `32768 * Σ |c|` over the second components. -/
def absSum : List (Int × Int) → Nat
  | [] => 0
  | p :: ps => 32768 * p.2.natAbs + absSum ps

theorem mul_bound {b c : Int} (hb : I16 b) : (b * c).natAbs ≤ 32768 * c.natAbs := by
  rw [Int.natAbs_mul]
  apply Nat.mul_le_mul_right
  unfold I16 at hb; omega

/-- The exact (unbounded) accumulation. -/
def exactAcc (acc : Int) (ps : List (Int × Int)) : Int := ps.foldl (fun a p => a + p.1 * p.2) acc

theorem smlabb_chain_exact : ∀ (ps : List (Int × Int)) (acc : Int),
    (∀ p ∈ ps, I16 p.1 ∧ I16 p.2) → acc.natAbs + absSum ps ≤ 2147483647 →
    ps.foldl (fun a p => smlabb a p.1 p.2) acc = exactAcc acc ps ∧ (exactAcc acc ps).natAbs ≤ acc.natAbs + absSum ps := by
  intro ps
  induction ps with
  | nil => intro acc _ _; exact ⟨rfl, by simp [exactAcc, absSum]⟩
  | cons p ps ih =>
    intro acc hp hb
    obtain ⟨h1, h2⟩ := hp p List.mem_cons_self
    have hm := mul_bound (c := p.2) h1
    simp only [absSum] at hb
    have hstep : smlabb acc p.1 p.2 = acc + p.1 * p.2 := by
      unfold smlabb add32 smulbb
      rw [wrap16_small h1.1 h1.2, wrap16_small h2.1 h2.2]
      apply wrap32_small <;> omega
    have hb' : (acc + p.1 * p.2).natAbs + absSum ps ≤ 2147483647 := by omega
    obtain ⟨e1, e2⟩ := ih (acc + p.1 * p.2) (fun q hq => hp q (List.mem_cons_of_mem _ hq)) hb'
    simp only [List.foldl_cons, hstep, exactAcc] at e1 e2 ⊢
    refine ⟨e1, ?_⟩
    simp only [absSum]
    omega

/-- Coefficient pairing of IIR_FIR.c:52-59 for phase `t`: row `t`, then row `11 - t` backwards. -/
def phaseCoefs (t : Nat) : List Int := (fracFir12.getD t []) ++ (fracFir12.getD (11 - t) []).reverse

theorem phase_sums : ∀ t : Fin 12, (phaseCoefs t.val).length = 8 ∧
    (∀ c ∈ phaseCoefs t.val, -32768 ≤ c ∧ c ≤ 32767) ∧
    32768 * ((phaseCoefs t.val).map Int.natAbs).sum ≤ 2147483647 := by decide +kernel

theorem absSum_zip (w cs : List Int) : absSum (w.zip cs) ≤ 32768 * (cs.map Int.natAbs).sum := by
  induction w generalizing cs with
  | nil => simp [absSum]
  | cons a w ih =>
    cases cs with
    | nil => simp [absSum]
    | cons c cs =>
      simp only [List.zip_cons_cons, absSum, List.map_cons, List.sum_cons]
      have := ih cs
      omega

/-- For every phase and every eight `opus_int16` samples the res_Q15 accumulation is exact: no 32-bit wrap. -/
theorem iirFir_acc_exact (t : Fin 12) (w : List Int) (hw : ∀ v ∈ w, I16 v) :
    (w.zip (phaseCoefs t.val)).foldl (fun a p => smlabb a p.1 p.2) 0 = exactAcc 0 (w.zip (phaseCoefs t.val)) ∧
    (exactAcc 0 (w.zip (phaseCoefs t.val))).natAbs ≤ 2147483647 := by
  obtain ⟨_, hc, hs⟩ := phase_sums t
  have hb := absSum_zip w (phaseCoefs t.val)
  have := smlabb_chain_exact (w.zip (phaseCoefs t.val)) 0 (by
    intro p hp
    have := List.of_mem_zip hp
    exact ⟨hw _ this.1, hc _ this.2⟩) (by simp only [Int.natAbs_zero]; omega)
  refine ⟨this.1, ?_⟩
  have h2 := this.2
  simp only [Int.natAbs_zero] at h2
  omega

theorem fracRow_val : ∀ t : Fin 12, fracRow (t.val : Int) = .ok (fracFir12.getD t.val []) := by decide +kernel

/-- silk_resampler_private_IIR_FIR_INTERPOL on an `opus_int16` buffer computes, for every index inside the buffer,
    `SAT16( RSHIFT_ROUND( Σ buf_ptr[ i ] * coef[ i ], 15 ) )` with the sum taken in unbounded integers. -/
theorem iirFirSample_exact {buf : List Int} {idx : Int} (h0 : 0 ≤ idx) (h : (idx / 65536).toNat + 8 ≤ buf.length)
    (hb : ∀ v ∈ buf, I16 v) :
    iirFirSample buf idx = .ok (sat16 (rshiftRound (exactAcc 0
      (((buf.drop (idx / 65536).toNat).take 8).zip (phaseCoefs (smulwb (idx % 65536) 12).toNat))) 15)) := by
  have hq : 0 ≤ idx / 65536 := Int.ediv_nonneg h0 (by omega)
  obtain ⟨ht0, ht1⟩ := smulwb_frac (idx := idx) (k := 12) (by omega) (by omega)
  have e1 := fracRow_val ⟨(smulwb (idx % 65536) 12).toNat, by omega⟩
  have e2 := fracRow_val ⟨11 - (smulwb (idx % 65536) 12).toNat, by omega⟩
  have c1 : (((smulwb (idx % 65536) 12).toNat : Nat) : Int) = smulwb (idx % 65536) 12 := Int.toNat_of_nonneg ht0
  have c2 : ((11 - (smulwb (idx % 65536) 12).toNat : Nat) : Int) = 11 - smulwb (idx % 65536) 12 := by omega
  simp only [c1, c2] at e1 e2
  have hacc := iirFir_acc_exact ⟨(smulwb (idx % 65536) 12).toNat, by omega⟩ ((buf.drop (idx / 65536).toNat).take 8)
    (fun v hv => hb v (List.mem_of_mem_drop (List.mem_of_mem_take hv)))
  unfold iirFirSample
  simp only [window_ok hq h, e1, e2, Res.bind_ok]
  exact congrArg (fun x => Res.ok (sat16 (rshiftRound x 15))) hacc.1

end OpusProofs.SilkResamp
