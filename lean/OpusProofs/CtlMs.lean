import OpusProofs.CtlObjects
/-
  OpusProofs.CtlMs — multistream / projection encoder and decoder ctl: a fanned-out setter is
  applied to every stream or to none (helper lemmas of property C11).
-/
namespace Opus.Ctl
open Opus Opus.EncDecide

/-! ### `fanOut` -/

theorem fanOut_all_ok {α} (f : α → α × Ret) (xs : List α) (h : ∀ e ∈ xs, (f e).2.code = 0) :
    (fanOut f xs).2.code = 0 ∧ (fanOut f xs).1 = xs.map (fun e => (f e).1) := by
  induction xs with
  | nil => exact ⟨rfl, rfl⟩
  | cons e es ih =>
    have he := h e (List.mem_cons_self)
    have ih' := ih (fun x hx => h x (List.mem_cons_of_mem _ hx))
    simp only [fanOut, he, ne_eq, not_true_eq_false, ite_false, List.map_cons]
    exact ⟨ih'.1, by rw [ih'.2]⟩

theorem fanOut_ok_all {α} (f : α → α × Ret) (xs : List α) (h : (fanOut f xs).2.code = 0) :
    ∀ e ∈ xs, (f e).2.code = 0 := by
  induction xs with
  | nil => intro e he; cases he
  | cons e es ih =>
    by_cases he : (f e).2.code ≠ 0
    · simp only [fanOut] at h; rw [if_pos he] at h; exact absurd h he
    · simp only [fanOut] at h; rw [if_neg he] at h
      intro x hx
      rcases List.mem_cons.mp hx with rfl | hx
      · exact Decidable.not_not.mp he
      · exact ih h x hx

/-- If a refusal by any stream implies a refusal by the FIRST stream, and a refusing stream is left
    unchanged, then a fan-out that reports an error has changed nothing. -/
theorem fanOut_fail_unchanged' {α} (f : α → α × Ret) (xs : List α)
    (hfail : ∀ e ∈ xs, (f e).2.code ≠ 0 → (f e).1 = e)
    (hhead : ∀ e0 es, xs = e0 :: es → (∃ e ∈ xs, (f e).2.code ≠ 0) → (f e0).2.code ≠ 0)
    (h : (fanOut f xs).2.code ≠ 0) : (fanOut f xs).1 = xs := by
  cases xs with
  | nil => simp [fanOut, Ret.ok] at h
  | cons e es =>
    have hex : ∃ x ∈ e :: es, (f x).2.code ≠ 0 := by
      apply Classical.byContradiction
      intro hn
      have hall : ∀ x ∈ e :: es, (f x).2.code = 0 := fun x hx =>
        Classical.byContradiction fun hx0 => hn ⟨x, hx, hx0⟩
      exact h (fanOut_all_ok f (e :: es) hall).1
    have he := hhead e es rfl hex
    simp only [fanOut]
    rw [if_pos he, hfail e (List.mem_cons_self) he]

/-- If the streams agree on whether they refuse, and a refusing stream is left unchanged, then a
    fan-out that reports an error has changed nothing. -/
theorem fanOut_fail_unchanged {α} (f : α → α × Ret) (xs : List α)
    (hfail : ∀ e ∈ xs, (f e).2.code ≠ 0 → (f e).1 = e)
    (huni : ∀ e ∈ xs, ∀ e' ∈ xs, ((f e).2.code ≠ 0 ↔ (f e').2.code ≠ 0))
    (h : (fanOut f xs).2.code ≠ 0) : (fanOut f xs).1 = xs := by
  cases xs with
  | nil => simp [fanOut, Ret.ok] at h
  | cons e es =>
    by_cases he : (f e).2.code ≠ 0
    · simp only [fanOut]
      rw [if_pos he, hfail e (List.mem_cons_self) he]
    · exfalso
      have hall : ∀ x ∈ e :: es, (f x).2.code = 0 := by
        intro x hx
        have := huni e (List.mem_cons_self) x hx
        by_cases hx0 : (f x).2.code = 0
        · exact hx0
        · exact absurd (this.mpr hx0) he
      exact h (fanOut_all_ok f (e :: es) hall).1

/-! ### Multistream encoder -/

/-- What the streams of a multistream encoder have in common: the application; and no stream has
    coded a frame before the first stream has (`firstHead`: a stream starved of bits by the rate
    allocation keeps `first = 1`, but streams are served in order — monitored after every
    `opus_multistream_encode` by suite `ctl-rand`); `layout` is the creation order: coupled (stereo)
    streams first. -/
structure MsInv (s : MsEncSt) : Prop where
  streams : ∀ e ∈ s.streams, EncInv e
  app : ∀ e ∈ s.streams, ∀ e' ∈ s.streams, e.application = e'.application
  firstHead : ∀ e0 es, s.streams = e0 :: es → ∀ e ∈ s.streams, e.first = false → e0.first = false
  layout : s.nbCoupled < s.nbStreams ∨ ∀ e ∈ s.streams, e.channels = 2

/-- If some stream refuses a fanned-out request that reaches the loop, the first stream refuses it. -/
theorem ms_illegal_head {s : MsEncSt} (hi : MsInv s) (k : EncSetK) (v : Int)
    (hk : ¬ (k = .forceChannels ∧ v = 2 ∧ s.nbCoupled < s.nbStreams)) (e0 : EncSt) (es : List EncSt)
    (hs : s.streams = e0 :: es) : (∃ e ∈ s.streams, ¬ EncLegal e k v) → ¬ EncLegal e0 k v := by
  rintro ⟨e, he, hill⟩
  have he0 : e0 ∈ s.streams := by rw [hs]; exact List.mem_cons_self
  have happ := hi.app e he e0 he0
  have hfirst := hi.firstHead e0 es hs e he
  have hc := (hi.streams e he).1.ch
  have hc' := (hi.streams e0 he0).1.ch
  cases k <;> simp only [EncLegal] at hill ⊢ <;> try exact hill
  · -- application
    intro ⟨h1, h2⟩
    apply hill
    refine ⟨h1, fun hf => ?_⟩
    rw [happ]; exact h2 (hfirst hf)
  · -- forceChannels
    by_cases hv : v = 2
    · have : ¬ s.nbCoupled < s.nbStreams := fun h => hk ⟨rfl, hv, h⟩
      rcases hi.layout with h | h
      · exact absurd h this
      · rw [h e he] at hill; rw [h e0 he0]; exact hill
    · omega

theorem encCtl_set_code (e : EncSt) (k : EncSetK) (v : Int) : (encCtl e (.set k v)).2.code ≠ 0 ↔ ¬ EncLegal e k v := by
  by_cases h : EncLegal e k v
  · obtain ⟨s', _, h2⟩ := encCtl_set_ok e k v h
    rw [h2]; simp [Ret.ok, h]
  · rw [encCtl_set_reject e k v h]; simp [Ret.err, Err.code, h]

/-- **A multistream ctl that reports an error has changed nothing**, for every request
    (after the repair a0f32f9c of OPUS_SET_FORCE_CHANNELS). -/
theorem msEncCtl_error_unchanged {s : MsEncSt} (hi : MsInv s) (r : MsEncReq) (h : (msEncCtl s r).2.code ≠ 0) :
    (msEncCtl s r).1 = s := by
  have hfan : ∀ (k : EncSetK) (v : Int), msEncFwdSet k = true →
      (msEncCtl s (.set k v)).2.code ≠ 0 → (msEncCtl s (.set k v)).1 = s := by
    intro k v hk hcode
    by_cases hr : k = .forceChannels ∧ v = 2 ∧ s.nbCoupled < s.nbStreams
    · obtain ⟨rfl, hv, hlt⟩ := hr
      simp [msEncCtl, msEncFwdSet, hv, hlt]
    · have hgen : msEncCtl s (.set k v) =
          ({ s with streams := (fanOut (fun e => encCtl e (.set k v)) s.streams).1 },
           (fanOut (fun e => encCtl e (.set k v)) s.streams).2) := by
        cases k <;> simp only [msEncFwdSet, Bool.false_eq_true] at hk <;> simp only [msEncCtl, msEncFwdSet, ite_true]
        case forceChannels =>
          have : ¬ (v = 2 ∧ s.nbCoupled < s.nbStreams) := fun h => hr ⟨rfl, h.1, h.2⟩
          simp [this]
        all_goals simp
      rw [hgen] at hcode ⊢
      have := fanOut_fail_unchanged' (fun e => encCtl e (.set k v)) s.streams
        (fun e _ hc => by
          have := (encCtl_set_code e k v).mp hc
          rw [encCtl_set_reject e k v this])
        (fun e0 es hs hex => by
          obtain ⟨e, he, hc⟩ := hex
          exact (encCtl_set_code e0 k v).mpr (ms_illegal_head hi k v hr e0 es hs ⟨e, he, (encCtl_set_code e k v).mp hc⟩))
        hcode
      simp only [this]
  cases r with
  | set k v =>
    by_cases hk : msEncFwdSet k = true
    · exact hfan k v hk h
    · cases k <;> simp only [msEncFwdSet, not_true_eq_false] at hk <;> simp only [msEncCtl] at h ⊢
      · -- bitrate
        split
        · split
          · rfl
          · rename_i h1 h2; simp [h1, h2, Ret.ok] at h
        · rename_i h1; simp [h1, Ret.ok] at h
      · rfl
      · -- expertFrameDuration
        split
        · rename_i h1; simp [h1, Ret.ok] at h
        · rfl
      · rfl
  | get k nn =>
    cases k <;> simp only [msEncCtl] <;> (try split) <;> (try split) <;> rfl
  | resetState =>
    simp only [msEncCtl] at h ⊢
    have hall := fanOut_all_ok (fun e => encCtl e .resetState) s.streams (fun e _ => rfl)
    exact absurd hall.1 h
  | getEncoderState id nn =>
    simp only [msEncCtl]; split
    · rfl
    · split <;> rfl
  | unknown id => rfl

/-- A legal fanned-out setter reaches EVERY stream, and the forwarded getter reads it back from
    the first one. -/
theorem msEncCtl_set_all {s : MsEncSt} (k : EncSetK) (v : Int) (hk : msEncFwdSet k = true)
    (hr : ¬ (k = .forceChannels ∧ v = 2 ∧ s.nbCoupled < s.nbStreams))
    (hleg : ∀ e ∈ s.streams, EncLegal e k v) :
    (msEncCtl s (.set k v)).2.code = 0 ∧
    (msEncCtl s (.set k v)).1 = { s with streams := s.streams.map (fun e => (encCtl e (.set k v)).1) } ∧
    (∀ e' ∈ (msEncCtl s (.set k v)).1.streams, ∀ g, readGetter k = some g → ∃ e ∈ s.streams,
        encGetVal e' g = readBack e k v) := by
  have hgen : msEncCtl s (.set k v) =
      ({ s with streams := (fanOut (fun e => encCtl e (.set k v)) s.streams).1 },
       (fanOut (fun e => encCtl e (.set k v)) s.streams).2) := by
    cases k <;> simp only [msEncFwdSet, Bool.false_eq_true] at hk <;> simp only [msEncCtl, msEncFwdSet, ite_true]
    case forceChannels =>
      have : ¬ (v = 2 ∧ s.nbCoupled < s.nbStreams) := fun h => hr ⟨rfl, h.1, h.2⟩
      simp [this]
    all_goals simp
  have hall := fanOut_all_ok (fun e => encCtl e (.set k v)) s.streams (fun e he => by
    have := encCtl_set_code e k v
    by_cases hc : (encCtl e (.set k v)).2.code = 0
    · exact hc
    · exact absurd (hleg e he) (this.mp hc))
  rw [hgen]
  refine ⟨hall.1, by rw [hall.2], ?_⟩
  intro e' he' g hg
  simp only [hall.2, List.mem_map] at he'
  obtain ⟨e, he, rfl⟩ := he'
  obtain ⟨s', h1, h2⟩ := encCtl_set_ok e k v (hleg e he)
  refine ⟨e, he, ?_⟩
  rw [h2]
  exact encSet_readBack e s' k v g h1 hg

theorem encCtl_channels (q : EncReq) (e : EncSt) : (encCtl e q).1.channels = e.channels := by
  cases q with
  | set k v =>
    simp only [encCtl]
    cases hs : encSet e k v with
    | none => rfl
    | some s' =>
      cases k <;> simp only [encSet, validFrameDuration] at hs <;>
        first
        | (obtain ⟨_, rfl⟩ := ite_none_some hs; rfl)
        | (obtain ⟨_, rfl⟩ := ite_some_none hs; rfl)
        | (simp only [Option.some.injEq] at hs; subst hs; rfl)
        | skip
      -- bitrate
      consts
      split at hs
      · split at hs
        · simp at hs
        · split at hs
          · simp only [Option.some.injEq] at hs; subst hs; rfl
          · split at hs <;> (simp only [Option.some.injEq] at hs; subst hs; rfl)
      · simp only [Option.some.injEq] at hs; subst hs; rfl
  | get k nn => cases nn <;> rfl
  | resetState => rfl
  | setEnergyMask p => rfl
  | celtGetMode nn => cases nn <;> rfl
  | unknown id => rfl

/-- Effect of a successful single-stream setter on `first` / `application`. -/
theorem encSet_first_app {e s' : EncSt} {k : EncSetK} {v : Int} (h : encSet e k v = some s') :
    s'.first = e.first ∧ s'.application = (if k = .application then v else e.application) := by
  cases k <;> simp only [encSet, validFrameDuration] at h <;>
    first
    | (obtain ⟨_, rfl⟩ := ite_none_some h; exact ⟨rfl, rfl⟩)
    | (obtain ⟨_, rfl⟩ := ite_some_none h; exact ⟨rfl, rfl⟩)
    | (simp only [Option.some.injEq] at h; subst h; exact ⟨rfl, rfl⟩)
    | skip
  consts
  split at h
  · split at h
    · simp at h
    · split at h
      · simp only [Option.some.injEq] at h; subst h; exact ⟨rfl, rfl⟩
      · split at h <;> (simp only [Option.some.injEq] at h; subst h; exact ⟨rfl, rfl⟩)
  · simp only [Option.some.injEq] at h; subst h; exact ⟨rfl, rfl⟩

/-- A multistream request preserves `MsInv`. -/
theorem msEncCtl_inv {s : MsEncSt} (hi : MsInv s) (r : MsEncReq) : MsInv (msEncCtl s r).1 := by
  -- a fan-out either fails (then nothing changed, `msEncCtl_error_unchanged`) or maps every stream
  have key : ∀ (q : EncReq), (fanOut (fun e => encCtl e q) s.streams).2.code = 0 →
      (∀ e ∈ s.streams, ∀ e' ∈ s.streams, (encCtl e q).1.application = (encCtl e' q).1.application) →
      (∀ e ∈ s.streams, ∀ e' ∈ s.streams, ((encCtl e q).1.first = false → e.first = false) ∧
          (e'.first = false → (encCtl e' q).1.first = false) ∨
          ((encCtl e q).1.first = true ∧ (encCtl e' q).1.first = true)) →
      MsInv { s with streams := (fanOut (fun e => encCtl e q) s.streams).1 } := by
    intro q hc happ hfirst
    have hall := fanOut_ok_all (fun e => encCtl e q) s.streams hc
    have hmap := (fanOut_all_ok (fun e => encCtl e q) s.streams hall).2
    refine ⟨?_, ?_, ?_, ?_⟩
    · intro e' he'
      simp only [hmap, List.mem_map] at he'
      obtain ⟨e, he, rfl⟩ := he'
      exact encCtl_inv (hi.streams e he) q
    · intro a ha b hb
      simp only [hmap, List.mem_map] at ha hb
      obtain ⟨e, he, rfl⟩ := ha
      obtain ⟨e', he', rfl⟩ := hb
      exact happ e he e' he'
    · intro a0 as hs a ha hf
      simp only [hmap] at hs ha
      cases hst : s.streams with
      | nil => rw [hst] at ha; simp at ha
      | cons e0 es =>
        rw [hst] at hs
        simp only [List.map_cons, List.cons.injEq] at hs
        obtain ⟨rfl, _⟩ := hs
        simp only [List.mem_map] at ha
        obtain ⟨e, he, rfl⟩ := ha
        have he0 : e0 ∈ s.streams := by rw [hst]; exact List.mem_cons_self
        rcases hfirst e he e0 he0 with ⟨h1, h2⟩ | ⟨h1, _⟩
        · exact h2 (hi.firstHead e0 es hst e he (h1 hf))
        · rw [h1] at hf; cases hf
    · rcases hi.layout with h | h
      · exact Or.inl h
      · right
        intro e' he'
        simp only [hmap, List.mem_map] at he'
        obtain ⟨e, he, rfl⟩ := he'
        rw [encCtl_channels q e]; exact h e he
  by_cases hcode : (msEncCtl s r).2.code ≠ 0
  · rw [msEncCtl_error_unchanged hi r hcode]; exact hi
  have hcode : (msEncCtl s r).2.code = 0 := Decidable.not_not.mp hcode
  cases r with
  | set k v =>
    by_cases hk : msEncFwdSet k = true
    · by_cases hr : k = .forceChannels ∧ v = 2 ∧ s.nbCoupled < s.nbStreams
      · obtain ⟨rfl, hv, hlt⟩ := hr
        have : (msEncCtl s (.set .forceChannels v)).1 = s := by simp [msEncCtl, msEncFwdSet, hv, hlt]
        rw [this]; exact hi
      · have hgen : msEncCtl s (.set k v) =
            ({ s with streams := (fanOut (fun e => encCtl e (.set k v)) s.streams).1 },
             (fanOut (fun e => encCtl e (.set k v)) s.streams).2) := by
          cases k <;> simp only [msEncFwdSet, Bool.false_eq_true] at hk <;> simp only [msEncCtl, msEncFwdSet, ite_true]
          case forceChannels =>
            have : ¬ (v = 2 ∧ s.nbCoupled < s.nbStreams) := fun h => hr ⟨rfl, h.1, h.2⟩
            simp [this]
          all_goals simp
        rw [hgen] at hcode ⊢
        have hall := fanOut_ok_all (fun e => encCtl e (.set k v)) s.streams hcode
        have hsome : ∀ e ∈ s.streams, ∃ s', encSet e k v = some s' ∧ (encCtl e (.set k v)).1 = s' := by
          intro e he
          have hl : EncLegal e k v := by
            apply Classical.byContradiction
            intro hn; exact (encCtl_set_code e k v).mpr hn (hall e he)
          obtain ⟨s', h1, h2⟩ := encCtl_set_ok e k v hl
          exact ⟨s', h1, by rw [h2]⟩
        apply key (.set k v) hcode
        · intro e he e' he'
          obtain ⟨s1, h1, e1⟩ := hsome e he
          obtain ⟨s2, h2, e2⟩ := hsome e' he'
          rw [e1, e2, (encSet_first_app h1).2, (encSet_first_app h2).2, hi.app e he e' he']
        · intro e he e' he'
          obtain ⟨s1, h1, e1⟩ := hsome e he
          obtain ⟨s2, h2, e2⟩ := hsome e' he'
          left
          rw [e1, e2, (encSet_first_app h1).1, (encSet_first_app h2).1]
          exact ⟨id, id⟩
    · have : (msEncCtl s (.set k v)).1 = s ∨ ∃ b, (msEncCtl s (.set k v)).1 = { s with bitrateBps := b } ∨
          (msEncCtl s (.set k v)).1 = { s with variableDuration := b } := by
        cases k <;> simp only [msEncFwdSet, not_true_eq_false] at hk <;> simp only [msEncCtl]
        · split
          · split
            · exact Or.inl rfl
            · exact Or.inr ⟨_, Or.inl rfl⟩
          · exact Or.inr ⟨_, Or.inl rfl⟩
        · exact Or.inl rfl
        · split
          · exact Or.inr ⟨_, Or.inr rfl⟩
          · exact Or.inl rfl
        · exact Or.inl rfl
      rcases this with h | ⟨b, h | h⟩ <;> rw [h] <;> exact ⟨hi.streams, hi.app, hi.firstHead, hi.layout⟩
  | get k nn =>
    have : (msEncCtl s (.get k nn)).1 = s := by
      cases k <;> simp only [msEncCtl] <;> (try split) <;> (try split) <;> rfl
    rw [this]; exact hi
  | resetState =>
    simp only [msEncCtl] at hcode ⊢
    apply key .resetState hcode
    · intro e he e' he'
      exact hi.app e he e' he'
    · intro e _ e' _
      right; exact ⟨rfl, rfl⟩
  | getEncoderState id nn =>
    have : (msEncCtl s (.getEncoderState id nn)).1 = s := by
      simp only [msEncCtl]; split
      · rfl
      · split <;> rfl
    rw [this]; exact hi
  | unknown id => exact hi

/-- A freshly created multistream encoder satisfies `MsInv`. -/
theorem msEncInit_inv {fs channels streams coupled : Int} {mapping : List Nat} {app : Int} {sur amb : Bool} {lfe : Int}
    {s : MsEncSt} (h : msEncInit fs channels streams coupled mapping app sur amb lfe = .ok s) : MsInv s := by
  unfold msEncInit at h
  split at h
  · simp at h
  · split at h
    · simp at h
    · split at h
      · simp at h
      · split at h
        · simp at h
        · split at h
          · simp at h
          · rename_i hfa
            have hfa : (validFs fs && validApp app) = true := by
              cases hv : (validFs fs && validApp app) with
              | true => rfl
              | false => rw [hv] at hfa; simp at hfa
            simp only [Res.ok.injEq] at h
            subst h
            have hargs : ∀ c : Int, (c = 1 ∨ c = 2) → encArgsOk fs c app = true := by
              intro c hc
              simp only [Bool.and_eq_true] at hfa
              simp only [encArgsOk, Bool.and_eq_true, hfa.1, hfa.2, Bool.or_eq_true, decide_eq_true_eq, hc, and_self]
            have hmem : ∀ e ∈ msStreams fs streams coupled app lfe, ∃ n : Nat, n < streams.toNat ∧
                ((e = encInit fs (if (n : Int) < coupled then 2 else 1) app) ∨
                 (e = { encInit fs (if (n : Int) < coupled then 2 else 1) app with lfe := 1, celtLfe := 1 })) := by
              intro e he
              simp only [msStreams, List.mem_map, List.mem_range] at he
              obtain ⟨n, hn, rfl⟩ := he
              refine ⟨n, hn, ?_⟩
              split
              · right; rfl
              · left; rfl
            refine ⟨?_, ?_, ?_, ?_⟩
            · intro e he
              obtain ⟨n, _, hn | hn⟩ := hmem e he
              · rw [hn]; apply encInit_inv; apply hargs; split <;> simp
              · have hI : EncInv (encInit fs (if (n : Int) < coupled then 2 else 1) app) := by
                  apply encInit_inv; apply hargs; split <;> simp
                rw [hn]
                obtain ⟨hc, hd⟩ := hI
                exact ⟨{ hc with lfe := rfl }, { hd with }⟩
            · intro e he e' he'
              obtain ⟨n, _, hn | hn⟩ := hmem e he <;> obtain ⟨n', _, hn' | hn'⟩ := hmem e' he' <;>
                rw [hn, hn'] <;> rfl
            · intro e0 es _ e he hf
              obtain ⟨n, _, hn | hn⟩ := hmem e he <;> rw [hn] at hf <;> simp [encInit] at hf
            · by_cases hlt : coupled < streams
              · exact Or.inl hlt
              · right
                intro e he
                obtain ⟨n, hn, hn' | hn'⟩ := hmem e he <;> rw [hn'] <;> simp only [encInit] <;>
                  (rw [if_pos (by omega)])

/-! ### Multistream / projection decoder -/

theorem decCtl_set_code (d : DecSt) (k : DecSetK) (v : Int) : (decCtl d (.set k v)).2.code ≠ 0 ↔ ¬ DecLegal k v := by
  by_cases h : DecLegal k v
  · obtain ⟨s', h2, _⟩ := decCtl_set_get d k v h
    rw [h2]; simp [Ret.ok, h]
  · constructor
    · intro _; exact h
    · intro _
      have hn : decSet d k v = none := by
        have := decSet_isSome_iff d k v
        cases hd : decSet d k v with
        | none => rfl
        | some x => rw [hd] at this; exact absurd (this.mp rfl) h
      simp [decCtl, hn, Ret.err, Err.code]

/-- A multistream (or projection) decoder ctl that reports an error has changed nothing. -/
theorem msDecCtl_error_unchanged (s : MsDecSt) (r : MsDecReq) (h : (msDecCtl s r).2.code ≠ 0) :
    (msDecCtl s r).1 = s := by
  cases r with
  | set k v =>
    by_cases hk : msDecFwdSet k = true
    · have hgen : msDecCtl s (.set k v) =
          ({ s with streams := (fanOut (fun d => decCtl d (.set k v)) s.streams).1 },
           (fanOut (fun d => decCtl d (.set k v)) s.streams).2) := by
        cases k <;> simp only [msDecFwdSet, Bool.false_eq_true] at hk <;> simp [msDecCtl, msDecFwdSet]
      rw [hgen] at h ⊢
      have := fanOut_fail_unchanged (fun d => decCtl d (.set k v)) s.streams
        (fun d _ hc => (decCtl_error_unchanged d (.set k v) hc).1)
        (fun d _ d' _ => by rw [decCtl_set_code, decCtl_set_code])
        h
      simp only [this]
    · cases k <;> simp only [msDecFwdSet, not_true_eq_false] at hk <;> rfl
  | get k nn =>
    cases k <;> simp only [msDecCtl] <;> (try split) <;> (try split) <;> rfl
  | resetState =>
    simp only [msDecCtl] at h
    exact absurd (fanOut_all_ok (fun d => decCtl d .resetState) s.streams (fun e _ => rfl)).1 h
  | getDecoderState id nn =>
    simp only [msDecCtl]; split
    · rfl
    · split <;> rfl
  | unknown id => rfl

end Opus.Ctl
