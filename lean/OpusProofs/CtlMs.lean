import OpusProofs.CtlObjects
/-
  OpusProofs.CtlMs — multistream / projection encoder and decoder ctl: a fanned-out setter is
  applied to every stream or to none (helper lemmas of property C11).
-/
namespace Opus.Ctl
open Opus Opus.EncDecide

/-! ### `fanOut` -/

theorem fanOut_all_ok {α} (f : α → α × Ret) (xs : List α) (h : ∀ e ∈ xs, (f e).2.code = 0) :
    (fanOut f xs).2.code = 0 ∧ (fanOut f xs).1 = xs.map (fun e => (f e).1) := by
  induction xs with
  | nil => exact ⟨rfl, rfl⟩
  | cons e es ih =>
    have he := h e (List.mem_cons_self)
    have ih' := ih (fun x hx => h x (List.mem_cons_of_mem _ hx))
    simp only [fanOut, he, ne_eq, not_true_eq_false, ite_false, List.map_cons]
    exact ⟨ih'.1, by rw [ih'.2]⟩

theorem fanOut_ok_all {α} (f : α → α × Ret) (xs : List α) (h : (fanOut f xs).2.code = 0) :
    ∀ e ∈ xs, (f e).2.code = 0 := by
  induction xs with
  | nil => intro e he; cases he
  | cons e es ih =>
    by_cases he : (f e).2.code ≠ 0
    · simp only [fanOut] at h; rw [if_pos he] at h; exact absurd h he
    · simp only [fanOut] at h; rw [if_neg he] at h
      intro x hx
      rcases List.mem_cons.mp hx with rfl | hx
      · exact Decidable.not_not.mp he
      · exact ih h x hx

/-- If a refusal by any stream implies a refusal by the FIRST stream, and a refusing stream is left
    unchanged, then a fan-out that reports an error has changed nothing. -/
theorem fanOut_fail_unchanged' {α} (f : α → α × Ret) (xs : List α)
    (hfail : ∀ e ∈ xs, (f e).2.code ≠ 0 → (f e).1 = e)
    (hhead : ∀ e0 es, xs = e0 :: es → (∃ e ∈ xs, (f e).2.code ≠ 0) → (f e0).2.code ≠ 0)
    (h : (fanOut f xs).2.code ≠ 0) : (fanOut f xs).1 = xs := by
  cases xs with
  | nil => simp [fanOut, Ret.ok] at h
  | cons e es =>
    have hex : ∃ x ∈ e :: es, (f x).2.code ≠ 0 := by
      apply Classical.byContradiction
      intro hn
      have hall : ∀ x ∈ e :: es, (f x).2.code = 0 := fun x hx =>
        Classical.byContradiction fun hx0 => hn ⟨x, hx, hx0⟩
      exact h (fanOut_all_ok f (e :: es) hall).1
    have he := hhead e es rfl hex
    simp only [fanOut]
    rw [if_pos he, hfail e (List.mem_cons_self) he]

/-- If the streams agree on whether they refuse, and a refusing stream is left unchanged, then a
    fan-out that reports an error has changed nothing. -/
theorem fanOut_fail_unchanged {α} (f : α → α × Ret) (xs : List α)
    (hfail : ∀ e ∈ xs, (f e).2.code ≠ 0 → (f e).1 = e)
    (huni : ∀ e ∈ xs, ∀ e' ∈ xs, ((f e).2.code ≠ 0 ↔ (f e').2.code ≠ 0))
    (h : (fanOut f xs).2.code ≠ 0) : (fanOut f xs).1 = xs := by
  cases xs with
  | nil => simp [fanOut, Ret.ok] at h
  | cons e es =>
    by_cases he : (f e).2.code ≠ 0
    · simp only [fanOut]
      rw [if_pos he, hfail e (List.mem_cons_self) he]
    · exfalso
      have hall : ∀ x ∈ e :: es, (f x).2.code = 0 := by
        intro x hx
        have := huni e (List.mem_cons_self) x hx
        by_cases hx0 : (f x).2.code = 0
        · exact hx0
        · exact absurd (this.mpr hx0) he
      exact h (fanOut_all_ok f (e :: es) hall).1

/-! ### Multistream encoder -/

/-- What the streams of a multistream encoder have in common: each satisfies `EncInv`, and
    `layout` is the creation order — coupled (stereo) streams first. -/
structure MsInv (s : MsEncSt) : Prop where
  streams : ∀ e ∈ s.streams, EncInv e
  layout : s.nbCoupled < s.nbStreams ∨ ∀ e ∈ s.streams, e.channels = 2

theorem encCtl_set_code (e : EncSt) (k : EncSetK) (v : Int) : (encCtl e (.set k v)).2.code ≠ 0 ↔ ¬ EncLegal e k v := by
  by_cases h : EncLegal e k v
  · obtain ⟨s', _, h2⟩ := encCtl_set_ok e k v h
    rw [h2]; simp [Ret.ok, h]
  · rw [encCtl_set_reject e k v h]; simp [Ret.err, Err.code, h]

/-- Streams agree on the legality of every fanned-out request other than OPUS_SET_APPLICATION
    (whose legality depends on `first`, hence the roll-back in the code). -/
theorem ms_legal_uniform {s : MsEncSt} (hi : MsInv s) (k : EncSetK) (v : Int) (hka : k ≠ .application)
    (hk : ¬ (k = .forceChannels ∧ v = 2 ∧ s.nbCoupled < s.nbStreams)) :
    ∀ e ∈ s.streams, ∀ e' ∈ s.streams, (EncLegal e k v ↔ EncLegal e' k v) := by
  intro e he e' he'
  have hc := (hi.streams e he).1.ch
  have hc' := (hi.streams e' he').1.ch
  cases k <;> simp only [EncLegal] <;> try rfl
  · exact absurd rfl hka
  · by_cases hv : v = 2
    · have : ¬ s.nbCoupled < s.nbStreams := fun h => hk ⟨rfl, hv, h⟩
      rcases hi.layout with h | h
      · exact absurd h this
      · rw [h e he, h e' he']
    · omega

/-! #### The roll-back fan-out of OPUS_SET_APPLICATION -/

/-- A stream that accepted a new application accepts the old one back and is then exactly what
    it was. -/
theorem app_rollback {e : EncSt} (hi : EncInv e) (v : Int) (h : (encCtl e (.set .application v)).2.code = 0) :
    (encCtl (encCtl e (.set .application v)).1 (.set .application e.application)).1 = e := by
  have hl : EncLegal e .application v := by
    apply Classical.byContradiction; intro hn
    exact (encCtl_set_code e .application v).mpr hn h
  have happ := hi.1.app
  simp only [EncLegal] at hl
  obtain ⟨s', h1, h2⟩ := encCtl_set_ok e .application v (by simpa [EncLegal] using hl)
  rw [h2]
  simp only [encSet] at h1
  obtain ⟨_, rfl⟩ := ite_none_some h1
  have hl2 : EncLegal { e with application := v } .application e.application := by
    simp only [EncLegal]
    refine ⟨happ, fun hf => ?_⟩
    exact (hl.2 hf).symm ▸ rfl
  obtain ⟨s2, h3, h4⟩ := encCtl_set_ok _ .application e.application hl2
  rw [h4]
  simp only [encSet] at h3
  obtain ⟨_, rfl⟩ := ite_none_some h3
  rfl

theorem fanOutApp_all_ok (v : Int) (xs : List EncSt) (h : ∀ e ∈ xs, (encCtl e (.set .application v)).2.code = 0) :
    (fanOutApp v xs).2.code = 0 ∧ (fanOutApp v xs).1 = xs.map (fun e => (encCtl e (.set .application v)).1) := by
  induction xs with
  | nil => exact ⟨rfl, rfl⟩
  | cons e es ih =>
    have he := h e List.mem_cons_self
    have ih' := ih (fun x hx => h x (List.mem_cons_of_mem _ hx))
    simp only [fanOutApp, he, ne_eq, not_true_eq_false, ite_false, ih'.1, List.map_cons]
    exact ⟨trivial, by rw [ih'.2]⟩

theorem fanOutApp_ok_all (v : Int) (xs : List EncSt) (h : (fanOutApp v xs).2.code = 0) :
    ∀ e ∈ xs, (encCtl e (.set .application v)).2.code = 0 := by
  induction xs with
  | nil => intro e he; cases he
  | cons e es ih =>
    by_cases he : (encCtl e (.set .application v)).2.code ≠ 0
    · simp only [fanOutApp] at h; rw [if_pos he] at h; exact absurd h he
    · simp only [fanOutApp] at h; rw [if_neg he] at h
      by_cases ht : (fanOutApp v es).2.code ≠ 0
      · rw [if_pos ht] at h; exact absurd h ht
      · rw [if_neg ht] at h
        intro x hx
        rcases List.mem_cons.mp hx with rfl | hx
        · exact Decidable.not_not.mp he
        · exact ih (Decidable.not_not.mp ht) x hx

/-- **A refused OPUS_SET_APPLICATION fan-out leaves every stream as it was** (fix 9ffbe457),
    whichever stream refuses. -/
theorem fanOutApp_fail_unchanged (v : Int) (xs : List EncSt) (hi : ∀ e ∈ xs, EncInv e)
    (h : (fanOutApp v xs).2.code ≠ 0) : (fanOutApp v xs).1 = xs := by
  induction xs with
  | nil => simp [fanOutApp, Ret.ok] at h
  | cons e es ih =>
    by_cases he : (encCtl e (.set .application v)).2.code ≠ 0
    · simp only [fanOutApp]; rw [if_pos he]
      have := (encCtl_set_code e .application v).mp he
      rw [encCtl_set_reject e .application v this]
    · simp only [fanOutApp] at h ⊢
      rw [if_neg he] at h ⊢
      by_cases ht : (fanOutApp v es).2.code ≠ 0
      · rw [if_pos ht]
        rw [ih (fun x hx => hi x (List.mem_cons_of_mem _ hx)) ht,
            app_rollback (hi e List.mem_cons_self) v (Decidable.not_not.mp he)]
      · rw [if_neg ht] at h; exact absurd h ht

/-- The fan-out `msEncCtl` uses for a forwarded setter. -/
def msFan (k : EncSetK) (v : Int) (xs : List EncSt) : List EncSt × Ret :=
  if k = .application then fanOutApp v xs else fanOut (fun e => encCtl e (.set k v)) xs

theorem msEncCtl_fwd (s : MsEncSt) (k : EncSetK) (v : Int) (hk : msEncFwdSet k = true)
    (hr : ¬ (k = .forceChannels ∧ v = 2 ∧ s.nbCoupled < s.nbStreams)) :
    msEncCtl s (.set k v) = ({ s with streams := (msFan k v s.streams).1 }, (msFan k v s.streams).2) := by
  unfold msFan
  cases k <;> simp only [msEncFwdSet, Bool.false_eq_true] at hk <;> simp only [msEncCtl, msEncFwdSet, ite_true]
  case forceChannels =>
    have : ¬ (v = 2 ∧ s.nbCoupled < s.nbStreams) := fun h => hr ⟨rfl, h.1, h.2⟩
    simp [this]
  all_goals simp

theorem msFan_all_ok (k : EncSetK) (v : Int) (xs : List EncSt) (h : ∀ e ∈ xs, (encCtl e (.set k v)).2.code = 0) :
    (msFan k v xs).2.code = 0 ∧ (msFan k v xs).1 = xs.map (fun e => (encCtl e (.set k v)).1) := by
  unfold msFan
  split
  · rename_i hk; subst hk; exact fanOutApp_all_ok v xs h
  · exact fanOut_all_ok _ xs h

theorem msFan_ok_all (k : EncSetK) (v : Int) (xs : List EncSt) (h : (msFan k v xs).2.code = 0) :
    ∀ e ∈ xs, (encCtl e (.set k v)).2.code = 0 := by
  unfold msFan at h
  split at h
  · rename_i hk; subst hk; exact fanOutApp_ok_all v xs h
  · exact fanOut_ok_all _ xs h

theorem msFan_fail_unchanged {s : MsEncSt} (hi : MsInv s) (k : EncSetK) (v : Int)
    (hr : ¬ (k = .forceChannels ∧ v = 2 ∧ s.nbCoupled < s.nbStreams))
    (h : (msFan k v s.streams).2.code ≠ 0) : (msFan k v s.streams).1 = s.streams := by
  unfold msFan at h ⊢
  split
  · rename_i hk
    rw [if_pos hk] at h
    exact fanOutApp_fail_unchanged v s.streams hi.streams h
  · rename_i hk
    rw [if_neg hk] at h
    exact fanOut_fail_unchanged (fun e => encCtl e (.set k v)) s.streams
      (fun e _ hc => by
        have := (encCtl_set_code e k v).mp hc
        rw [encCtl_set_reject e k v this])
      (fun e he e' he' => by
        rw [encCtl_set_code, encCtl_set_code, ms_legal_uniform hi k v hk hr e he e' he'])
      h

/-- **A multistream ctl that reports an error has changed nothing**, for every request and every
    state satisfying `MsInv` (after the repairs a0f32f9c of OPUS_SET_FORCE_CHANNELS and 9ffbe457 of
    OPUS_SET_APPLICATION). -/
theorem msEncCtl_error_unchanged {s : MsEncSt} (hi : MsInv s) (r : MsEncReq) (h : (msEncCtl s r).2.code ≠ 0) :
    (msEncCtl s r).1 = s := by
  cases r with
  | set k v =>
    by_cases hk : msEncFwdSet k = true
    · by_cases hr : k = .forceChannels ∧ v = 2 ∧ s.nbCoupled < s.nbStreams
      · obtain ⟨rfl, hv, hlt⟩ := hr
        simp [msEncCtl, msEncFwdSet, hv, hlt]
      · rw [msEncCtl_fwd s k v hk hr] at h ⊢
        simp only [msFan_fail_unchanged hi k v hr h]
    · cases k <;> simp only [msEncFwdSet, not_true_eq_false] at hk <;> simp only [msEncCtl] at h ⊢
      · -- bitrate
        split
        · split
          · rfl
          · rename_i h1 h2; simp [h1, h2, Ret.ok] at h
        · rename_i h1; simp [h1, Ret.ok] at h
      · rfl
      · -- expertFrameDuration
        split
        · rename_i h1; simp [h1, Ret.ok] at h
        · rfl
      · rfl
  | get k nn =>
    cases k <;> simp only [msEncCtl] <;> (try split) <;> (try split) <;> rfl
  | resetState =>
    simp only [msEncCtl] at h ⊢
    have hall := fanOut_all_ok (fun e => encCtl e .resetState) s.streams (fun e _ => rfl)
    exact absurd hall.1 h
  | getEncoderState id nn =>
    simp only [msEncCtl]; split
    · rfl
    · split <;> rfl
  | unknown id => rfl

/-- A legal fanned-out setter reaches EVERY stream, and the forwarded getter reads it back from
    the first one. -/
theorem msEncCtl_set_all {s : MsEncSt} (k : EncSetK) (v : Int) (hk : msEncFwdSet k = true)
    (hr : ¬ (k = .forceChannels ∧ v = 2 ∧ s.nbCoupled < s.nbStreams))
    (hleg : ∀ e ∈ s.streams, EncLegal e k v) :
    (msEncCtl s (.set k v)).2.code = 0 ∧
    (msEncCtl s (.set k v)).1 = { s with streams := s.streams.map (fun e => (encCtl e (.set k v)).1) } ∧
    (∀ e' ∈ (msEncCtl s (.set k v)).1.streams, ∀ g, readGetter k = some g → ∃ e ∈ s.streams,
        encGetVal e' g = readBack e k v) := by
  have hall := msFan_all_ok k v s.streams (fun e he => by
    have := encCtl_set_code e k v
    by_cases hc : (encCtl e (.set k v)).2.code = 0
    · exact hc
    · exact absurd (hleg e he) (this.mp hc))
  rw [msEncCtl_fwd s k v hk hr]
  refine ⟨hall.1, by rw [hall.2], ?_⟩
  intro e' he' g hg
  simp only [hall.2, List.mem_map] at he'
  obtain ⟨e, he, rfl⟩ := he'
  obtain ⟨s', h1, h2⟩ := encCtl_set_ok e k v (hleg e he)
  refine ⟨e, he, ?_⟩
  rw [h2]
  exact encSet_readBack e s' k v g h1 hg

theorem encCtl_channels (q : EncReq) (e : EncSt) : (encCtl e q).1.channels = e.channels := by
  cases q with
  | set k v =>
    simp only [encCtl]
    cases hs : encSet e k v with
    | none => rfl
    | some s' =>
      cases k <;> simp only [encSet, validFrameDuration] at hs <;>
        first
        | (obtain ⟨_, rfl⟩ := ite_none_some hs; rfl)
        | (obtain ⟨_, rfl⟩ := ite_some_none hs; rfl)
        | (simp only [Option.some.injEq] at hs; subst hs; rfl)
        | skip
      -- bitrate
      consts
      split at hs
      · split at hs
        · simp at hs
        · split at hs
          · simp only [Option.some.injEq] at hs; subst hs; rfl
          · split at hs <;> (simp only [Option.some.injEq] at hs; subst hs; rfl)
      · simp only [Option.some.injEq] at hs; subst hs; rfl
  | get k nn => cases nn <;> rfl
  | resetState => rfl
  | setEnergyMask p => rfl
  | celtGetMode nn => cases nn <;> rfl
  | unknown id => rfl

/-- Effect of a successful single-stream setter on `first` / `application`. -/
theorem encSet_first_app {e s' : EncSt} {k : EncSetK} {v : Int} (h : encSet e k v = some s') :
    s'.first = e.first ∧ s'.application = (if k = .application then v else e.application) := by
  cases k <;> simp only [encSet, validFrameDuration] at h <;>
    first
    | (obtain ⟨_, rfl⟩ := ite_none_some h; exact ⟨rfl, rfl⟩)
    | (obtain ⟨_, rfl⟩ := ite_some_none h; exact ⟨rfl, rfl⟩)
    | (simp only [Option.some.injEq] at h; subst h; exact ⟨rfl, rfl⟩)
    | skip
  consts
  split at h
  · split at h
    · simp at h
    · split at h
      · simp only [Option.some.injEq] at h; subst h; exact ⟨rfl, rfl⟩
      · split at h <;> (simp only [Option.some.injEq] at h; subst h; exact ⟨rfl, rfl⟩)
  · simp only [Option.some.injEq] at h; subst h; exact ⟨rfl, rfl⟩

/-- A multistream request preserves `MsInv`. -/
theorem msEncCtl_inv {s : MsEncSt} (hi : MsInv s) (r : MsEncReq) : MsInv (msEncCtl s r).1 := by
  -- a successful fan-out maps every stream through one single-stream request
  have ofMap : ∀ (q : EncReq), MsInv { s with streams := s.streams.map (fun e => (encCtl e q).1) } := by
    intro q
    refine ⟨?_, ?_⟩
    · intro e' he'
      simp only [List.mem_map] at he'
      obtain ⟨e, he, rfl⟩ := he'
      exact encCtl_inv (hi.streams e he) q
    · rcases hi.layout with h | h
      · exact Or.inl h
      · right
        intro e' he'
        simp only [List.mem_map] at he'
        obtain ⟨e, he, rfl⟩ := he'
        rw [encCtl_channels q e]; exact h e he
  by_cases hcode : (msEncCtl s r).2.code ≠ 0
  · rw [msEncCtl_error_unchanged hi r hcode]; exact hi
  have hcode : (msEncCtl s r).2.code = 0 := Decidable.not_not.mp hcode
  cases r with
  | set k v =>
    by_cases hk : msEncFwdSet k = true
    · by_cases hr : k = .forceChannels ∧ v = 2 ∧ s.nbCoupled < s.nbStreams
      · obtain ⟨rfl, hv, hlt⟩ := hr
        have : (msEncCtl s (.set .forceChannels v)).1 = s := by simp [msEncCtl, msEncFwdSet, hv, hlt]
        rw [this]; exact hi
      · rw [msEncCtl_fwd s k v hk hr] at hcode ⊢
        have hall := msFan_ok_all k v s.streams hcode
        rw [(msFan_all_ok k v s.streams hall).2]
        exact ofMap (.set k v)
    · have : (msEncCtl s (.set k v)).1 = s ∨ ∃ b, (msEncCtl s (.set k v)).1 = { s with bitrateBps := b } ∨
          (msEncCtl s (.set k v)).1 = { s with variableDuration := b } := by
        cases k <;> simp only [msEncFwdSet, not_true_eq_false] at hk <;> simp only [msEncCtl]
        · split
          · split
            · exact Or.inl rfl
            · exact Or.inr ⟨_, Or.inl rfl⟩
          · exact Or.inr ⟨_, Or.inl rfl⟩
        · exact Or.inl rfl
        · split
          · exact Or.inr ⟨_, Or.inr rfl⟩
          · exact Or.inl rfl
        · exact Or.inl rfl
      rcases this with h | ⟨b, h | h⟩ <;> rw [h] <;> exact ⟨hi.streams, hi.layout⟩
  | get k nn =>
    have : (msEncCtl s (.get k nn)).1 = s := by
      cases k <;> simp only [msEncCtl] <;> (try split) <;> (try split) <;> rfl
    rw [this]; exact hi
  | resetState =>
    simp only [msEncCtl] at hcode ⊢
    have hall := fanOut_ok_all (fun e => encCtl e .resetState) s.streams hcode
    rw [(fanOut_all_ok (fun e => encCtl e .resetState) s.streams hall).2]
    exact ofMap .resetState
  | getEncoderState id nn =>
    have : (msEncCtl s (.getEncoderState id nn)).1 = s := by
      simp only [msEncCtl]; split
      · rfl
      · split <;> rfl
    rw [this]; exact hi
  | unknown id => exact hi

/-- A freshly created multistream encoder satisfies `MsInv`. -/
theorem msEncInit_inv {fs channels streams coupled : Int} {mapping : List Nat} {app : Int} {sur amb : Bool} {lfe : Int}
    {s : MsEncSt} (h : msEncInit fs channels streams coupled mapping app sur amb lfe = .ok s) : MsInv s := by
  unfold msEncInit at h
  split at h
  · simp at h
  · split at h
    · simp at h
    · split at h
      · simp at h
      · split at h
        · simp at h
        · split at h
          · simp at h
          · rename_i hfa
            have hfa : (validFs fs && validApp app) = true := by
              cases hv : (validFs fs && validApp app) with
              | true => rfl
              | false => rw [hv] at hfa; simp at hfa
            simp only [Res.ok.injEq] at h
            subst h
            have hargs : ∀ c : Int, (c = 1 ∨ c = 2) → encArgsOk fs c app = true := by
              intro c hc
              simp only [Bool.and_eq_true] at hfa
              simp only [encArgsOk, Bool.and_eq_true, hfa.1, hfa.2, Bool.or_eq_true, decide_eq_true_eq, hc, and_self]
            have hmem : ∀ e ∈ msStreams fs streams coupled app lfe, ∃ n : Nat, n < streams.toNat ∧
                ((e = encInit fs (if (n : Int) < coupled then 2 else 1) app) ∨
                 (e = { encInit fs (if (n : Int) < coupled then 2 else 1) app with lfe := 1, celtLfe := 1 })) := by
              intro e he
              simp only [msStreams, List.mem_map, List.mem_range] at he
              obtain ⟨n, hn, rfl⟩ := he
              refine ⟨n, hn, ?_⟩
              split
              · right; rfl
              · left; rfl
            refine ⟨?_, ?_⟩
            · intro e he
              obtain ⟨n, _, hn | hn⟩ := hmem e he
              · rw [hn]; apply encInit_inv; apply hargs; split <;> simp
              · have hI : EncInv (encInit fs (if (n : Int) < coupled then 2 else 1) app) := by
                  apply encInit_inv; apply hargs; split <;> simp
                rw [hn]
                obtain ⟨hc, hd⟩ := hI
                exact ⟨{ hc with lfe := rfl }, { hd with }⟩
            · by_cases hlt : coupled < streams
              · exact Or.inl hlt
              · right
                intro e he
                obtain ⟨n, hn, hn' | hn'⟩ := hmem e he <;> rw [hn'] <;> simp only [encInit] <;>
                  (rw [if_pos (by omega)])

/-! ### Multistream / projection decoder -/

theorem decCtl_set_code (d : DecSt) (k : DecSetK) (v : Int) : (decCtl d (.set k v)).2.code ≠ 0 ↔ ¬ DecLegal k v := by
  by_cases h : DecLegal k v
  · obtain ⟨s', h2, _⟩ := decCtl_set_get d k v h
    rw [h2]; simp [Ret.ok, h]
  · constructor
    · intro _; exact h
    · intro _
      have hn : decSet d k v = none := by
        have := decSet_isSome_iff d k v
        cases hd : decSet d k v with
        | none => rfl
        | some x => rw [hd] at this; exact absurd (this.mp rfl) h
      simp [decCtl, hn, Ret.err, Err.code]

/-- A multistream (or projection) decoder ctl that reports an error has changed nothing. -/
theorem msDecCtl_error_unchanged (s : MsDecSt) (r : MsDecReq) (h : (msDecCtl s r).2.code ≠ 0) :
    (msDecCtl s r).1 = s := by
  cases r with
  | set k v =>
    by_cases hk : msDecFwdSet k = true
    · have hgen : msDecCtl s (.set k v) =
          ({ s with streams := (fanOut (fun d => decCtl d (.set k v)) s.streams).1 },
           (fanOut (fun d => decCtl d (.set k v)) s.streams).2) := by
        cases k <;> simp only [msDecFwdSet, Bool.false_eq_true] at hk <;> simp [msDecCtl, msDecFwdSet]
      rw [hgen] at h ⊢
      have := fanOut_fail_unchanged (fun d => decCtl d (.set k v)) s.streams
        (fun d _ hc => (decCtl_error_unchanged d (.set k v) hc).1)
        (fun d _ d' _ => by rw [decCtl_set_code, decCtl_set_code])
        h
      simp only [this]
    · cases k <;> simp only [msDecFwdSet, not_true_eq_false] at hk <;> rfl
  | get k nn =>
    cases k <;> simp only [msDecCtl] <;> (try split) <;> (try split) <;> rfl
  | resetState =>
    simp only [msDecCtl] at h
    exact absurd (fanOut_all_ok (fun d => decCtl d .resetState) s.streams (fun e _ => rfl)).1 h
  | getDecoderState id nn =>
    simp only [msDecCtl]; split
    · rfl
    · split <;> rfl
  | unknown id => rfl

end Opus.Ctl
