import OpusProofs.EncDecide
/-
  OpusProofs.EncDecideChain — the decision chain of opus_encode_native (opus_encoder.c:1355-1613):
  range invariant, what the settings force, and what that means for the TOC byte.
-/
namespace Opus.EncDecide
open Opus Opus.Framing

/-- The DSP-dependent inputs have the types the C code gives them. -/
structure OracleOk (o : Oracle) : Prop where
  ch : o.autoChannels = 1 ∨ o.autoChannels = 2
  mode : o.autoMode = 1000 ∨ o.autoMode = 1002
  bw : 1101 ≤ o.autoBandwidth ∧ o.autoBandwidth ≤ 1105
  det : o.detected = 0 ∨ (1101 ≤ o.detected ∧ o.detected ≤ 1105)

/-- Range invariant of the decision state: every setting in the range its ctl admits, the running
    state in range, `first` ⇒ no previous mode, and a low-delay encoder never has a SILK/hybrid
    previous mode. -/
structure DInv (s : DSt) : Prop where
  fs : s.fs ∈ rates
  ch : s.channels = 1 ∨ s.channels = 2
  force : s.forceChannels = -1000 ∨ (1 ≤ s.forceChannels ∧ s.forceChannels ≤ s.channels)
  maxBw : 1101 ≤ s.maxBandwidth ∧ s.maxBandwidth ≤ 1105
  userBw : s.userBandwidth = -1000 ∨ (1101 ≤ s.userBandwidth ∧ s.userBandwidth ≤ 1105)
  forcedMode : s.userForcedMode = -1000 ∨ (1000 ≤ s.userForcedMode ∧ s.userForcedMode ≤ 1002)
  mode : 1000 ≤ s.mode ∧ s.mode ≤ 1002
  prevMode : s.prevMode = 0 ∨ (1000 ≤ s.prevMode ∧ s.prevMode ≤ 1002)
  bw : 1101 ≤ s.bandwidth ∧ s.bandwidth ≤ 1105
  streamCh : 1 ≤ s.streamChannels ∧ s.streamChannels ≤ s.channels
  prevCh : 0 ≤ s.prevChannels ∧ s.prevChannels ≤ s.channels
  toMono : s.toMono = 0 ∨ s.toMono = 1
  firstPrev : s.first = true → s.prevMode = 0
  lowdelay : s.application = 2051 → s.prevMode = 0 ∨ s.prevMode = 1002

/-- The mode after the transition logic, and the bandwidth at :1606, as used by `chain`. -/
def trOf (s : DSt) (o : Oracle) (f : Int) : Trans := modeTransition (modeDecision s o f) s.prevMode f s.fs
def bwOf (s : DSt) (o : Oracle) (f b : Int) : Int :=
  finishBw s o (trOf s o f).mode (clampBw s (trOf s o f).mode ((s.fs / f) * b * 8) (autoBw s o (trOf s o f).mode))

theorem chain_mode (s o f b) : (chain s o f b).mode = modeFix (trOf s o f).mode (bwOf s o f b) := rfl
theorem chain_bandwidth (s o f b) : (chain s o f b).bandwidth = bwOf s o f b := rfl
theorem chain_streamChannels (s o f b) : (chain s o f b).streamChannels =
    (monoDelay (chanDecision s o) s.prevChannels s.toMono (trOf s o f).mode s.prevMode).1 := rfl
theorem chain_toMono (s o f b) : (chain s o f b).toMono =
    (monoDelay (chanDecision s o) s.prevChannels s.toMono (trOf s o f).mode s.prevMode).2 := rfl
theorem chain_toCelt (s o f b) : (chain s o f b).toCelt = (trOf s o f).toCelt := rfl

/-! ### Ranges -/

theorem chanDecision_range {s : DSt} {o : Oracle} (hs : DInv s) (ho : OracleOk o) :
    1 ≤ chanDecision s o ∧ chanDecision s o ≤ s.channels := by
  unfold chanDecision
  have := hs.ch; have := hs.force; have := ho.ch
  consts
  split
  · omega
  · split <;> omega

theorem modeDecision_range {s : DSt} {o : Oracle} (hs : DInv s) (ho : OracleOk o) (f : Int) :
    1000 ≤ modeDecision s o f ∧ modeDecision s o f ≤ 1002 := by
  unfold modeDecision
  have := hs.forcedMode; have := ho.mode
  consts
  grind

theorem modeTransition_range {m pm f fs : Int} (hm : 1000 ≤ m ∧ m ≤ 1002)
    (hp : pm = 0 ∨ (1000 ≤ pm ∧ pm ≤ 1002)) :
    1000 ≤ (modeTransition m pm f fs).mode ∧ (modeTransition m pm f fs).mode ≤ 1002 := by
  unfold modeTransition
  consts
  grind

theorem trOf_range {s : DSt} {o : Oracle} (hs : DInv s) (ho : OracleOk o) (f : Int) :
    1000 ≤ (trOf s o f).mode ∧ (trOf s o f).mode ≤ 1002 :=
  modeTransition_range (modeDecision_range hs ho f) hs.prevMode

/-- Frames shorter than 10 ms are coded by the MDCT layer alone, whatever the state. -/
theorem trOf_short {s : DSt} {o : Oracle} {f : Int} (h : f < s.fs / 100) : (trOf s o f).mode = 1002 := by
  unfold trOf modeTransition modeDecision
  consts
  grind

/-- A low-delay stream is coded by the MDCT layer alone if no SILK/hybrid frame precedes. -/
theorem trOf_lowdelay {s : DSt} {o : Oracle} {f : Int} (happ : s.application = 2051)
    (hp : s.prevMode = 0 ∨ s.prevMode = 1002) : (trOf s o f).mode = 1002 ∧ (trOf s o f).toCelt = false := by
  unfold trOf modeTransition modeDecision
  consts
  grind

theorem modeFix_range {m bw : Int} (hm : 1000 ≤ m ∧ m ≤ 1002) :
    1000 ≤ modeFix m bw ∧ modeFix m bw ≤ 1002 := by
  unfold modeFix; consts; grind

theorem modeFix_celt (m bw : Int) : modeFix m bw = 1002 ↔ m = 1002 := by
  unfold modeFix; consts; grind

/-- After :1610-1613 SILK-only means at most wideband, hybrid means above wideband. -/
theorem modeFix_bw {m bw : Int} (hm : 1000 ≤ m ∧ m ≤ 1002) :
    (modeFix m bw = 1000 → bw ≤ 1103) ∧ (modeFix m bw = 1001 → 1104 ≤ bw) := by
  unfold modeFix; consts; grind

theorem autoBw_range {s : DSt} {o : Oracle} (hs : DInv s) (ho : OracleOk o) (m : Int) :
    1101 ≤ autoBw s o m ∧ autoBw s o m ≤ 1105 := by
  unfold autoBw
  have := hs.bw; have := ho.bw
  split <;> omega

/-- `clampBw` step by step (:1550-1571): the result is in range, at most the forced bandwidth
    (else the maximum bandwidth) and at most the Nyquist bandwidth. -/
theorem clampBw_spec {s : DSt} (hs : DInv s) (m r bw : Int) (hb : 1101 ≤ bw ∧ bw ≤ 1105) :
    clampBw s m r bw ≤ (if s.userBandwidth ≠ -1000 then s.userBandwidth else s.maxBandwidth) ∧
    clampBw s m r bw ≤ nyquistBw s.fs ∧ 1101 ≤ clampBw s m r bw ∧ clampBw s m r bw ≤ 1105 := by
  have h1 := hs.maxBw; have h2 := hs.userBw
  unfold clampBw nyquistBw
  extract_lets b1 b2 b3 b4 b5 b6 b7
  consts
  have e1 : b1 ≤ s.maxBandwidth ∧ 1101 ≤ b1 ∧ b1 ≤ 1105 := by simp only [b1]; consts; split <;> omega
  clear_value b1
  have e2 : b2 ≤ (if ¬ s.userBandwidth = -1000 then s.userBandwidth else s.maxBandwidth) ∧ 1101 ≤ b2 ∧ b2 ≤ 1105 := by
    simp only [b2]; consts; split <;> simp_all <;> omega
  clear_value b2
  have e3 : b3 ≤ b2 ∧ 1101 ≤ b3 := by simp only [b3]; consts; split <;> omega
  clear_value b3
  have e4 : b4 ≤ b3 ∧ 1101 ≤ b4 ∧ (s.fs ≤ 24000 → b4 ≤ 1104) := by simp only [b4]; consts; split <;> omega
  clear_value b4
  have e5 : b5 ≤ b4 ∧ 1101 ≤ b5 ∧ (s.fs ≤ 16000 → b5 ≤ 1103) := by simp only [b5]; consts; split <;> omega
  clear_value b5
  have e6 : b6 ≤ b5 ∧ 1101 ≤ b6 ∧ (s.fs ≤ 12000 → b6 ≤ 1102) := by simp only [b6]; consts; split <;> omega
  clear_value b6
  have e7 : b7 ≤ b6 ∧ 1101 ≤ b7 ∧ (s.fs ≤ 8000 → b7 ≤ 1101) := by simp only [b7]; consts; split <;> omega
  clear_value b7
  refine ⟨by omega, ?_, by omega, by omega⟩
  repeat' split
  all_goals omega

theorem clampBw_range {s : DSt} (hs : DInv s) {m r bw : Int} (hb : 1101 ≤ bw ∧ bw ≤ 1105) :
    1101 ≤ clampBw s m r bw ∧ clampBw s m r bw ≤ 1105 :=
  ⟨(clampBw_spec hs m r bw hb).2.2.1, (clampBw_spec hs m r bw hb).2.2.2⟩

theorem finishBw_range {s : DSt} {o : Oracle} (ho : OracleOk o) {m bw : Int} (hb : 1101 ≤ bw ∧ bw ≤ 1105) :
    1101 ≤ finishBw s o m bw ∧ finishBw s o m bw ≤ 1105 := by
  unfold finishBw
  have := ho.det
  consts
  grind

theorem bwOf_range {s : DSt} {o : Oracle} (hs : DInv s) (ho : OracleOk o) (f b : Int) :
    1101 ≤ bwOf s o f b ∧ bwOf s o f b ≤ 1105 :=
  finishBw_range ho (clampBw_range hs (autoBw_range hs ho _))

/-! ### The bandwidth limit -/

/-- The forced bandwidth if any, else the maximum bandwidth. -/
def userLimit (s : DSt) : Int := if s.userBandwidth ≠ OPUS_AUTO then s.userBandwidth else s.maxBandwidth

theorem clampBw_le {s : DSt} (hs : DInv s) (m r bw : Int) (hb : 1101 ≤ bw ∧ bw ≤ 1105) :
    clampBw s m r bw ≤ userLimit s ∧ clampBw s m r bw ≤ nyquistBw s.fs := by
  have h := clampBw_spec hs m r bw hb
  unfold userLimit; consts
  exact ⟨h.1, h.2.1⟩

/-- :1574-1604 only lower the bandwidth, except for the MDCT layer's missing medium band. -/
theorem finishBw_le {s : DSt} {o : Oracle} (m bw : Int) (hb : 1101 ≤ bw) :
    finishBw s o m bw ≤ bw ∨ (m = 1002 ∧ finishBw s o m bw = 1103 ∧ bw ≥ 1102) := by
  unfold finishBw
  consts
  grind

theorem bwLimit_eq (s : DSt) (mode : Int) :
    bwLimit s mode = if mode = 1002 ∧ min (userLimit s) (nyquistBw s.fs) = 1102 then 1103
                     else min (userLimit s) (nyquistBw s.fs) := by
  unfold bwLimit userLimit; consts

/-- **Bandwidth clamp chain.**  For all DSP inputs the bandwidth at :1606 is at most the forced
    bandwidth (else the maximum bandwidth) and at most the Nyquist bandwidth of the input rate;
    the only exception is that the MDCT layer codes a medium-band limit as wideband. -/
theorem bwOf_le {s : DSt} {o : Oracle} (hs : DInv s) (ho : OracleOk o) (f b : Int) :
    bwOf s o f b ≤ bwLimit s (modeFix (trOf s o f).mode (bwOf s o f b)) := by
  rw [bwLimit_eq]
  have hc := clampBw_le hs (trOf s o f).mode ((s.fs / f) * b * 8) (autoBw s o (trOf s o f).mode) (autoBw_range hs ho _)
  have hr := clampBw_range hs (m := (trOf s o f).mode) (r := (s.fs / f) * b * 8) (autoBw_range hs ho (trOf s o f).mode)
  have hf := finishBw_le (s := s) (o := o) (trOf s o f).mode _ hr.1
  have hfix := modeFix_celt (trOf s o f).mode (bwOf s o f b)
  unfold bwOf at *
  generalize clampBw s (trOf s o f).mode (s.fs / f * b * 8) (autoBw s o (trOf s o f).mode) = c at *
  generalize finishBw s o (trOf s o f).mode c = r at *
  have hmin : min (userLimit s) (nyquistBw s.fs) = userLimit s ∨ min (userLimit s) (nyquistBw s.fs) = nyquistBw s.fs := by
    omega
  split <;> omega

/-! ### Channels -/

theorem monoDelay_range {c pc tm m pm : Int} (hc : 1 ≤ c) :
    1 ≤ (monoDelay c pc tm m pm).1 ∧ ((monoDelay c pc tm m pm).2 = 0 ∨ (monoDelay c pc tm m pm).2 = 1) := by
  unfold monoDelay; split <;> simp <;> omega

theorem monoDelay_le {c pc tm m pm ch : Int} (hc : c ≤ ch) (hp : pc ≤ ch) : (monoDelay c pc tm m pm).1 ≤ ch := by
  unfold monoDelay; split <;> simp <;> omega

/-- Stereo is coded when it is forced on a stereo encoder. -/
theorem chain_forced_stereo {s : DSt} {o : Oracle} {f b : Int} (hc : s.channels = 2) (hf : s.forceChannels = 2) :
    (chain s o f b).streamChannels = 2 := by
  rw [chain_streamChannels]; unfold monoDelay chanDecision; consts
  simp [hc, hf]

/-- A mono encoder codes mono. -/
theorem chain_mono_encoder {s : DSt} {o : Oracle} {f b : Int} (hs : DInv s) (hc : s.channels = 1) :
    (chain s o f b).streamChannels = 1 := by
  rw [chain_streamChannels]; unfold monoDelay chanDecision; consts
  have := hs.prevCh
  grind

/-- Forced mono: the packet is mono unless this is the one delayed frame, which arms `toMono`. -/
theorem chain_forced_mono {s : DSt} {o : Oracle} {f b : Int} (hc : s.channels = 2) (hf : s.forceChannels = 1) :
    ((chain s o f b).streamChannels = 1 ∧ (chain s o f b).toMono = 0) ∨
    ((chain s o f b).streamChannels = 2 ∧ (chain s o f b).toMono = 1 ∧ s.toMono = 0 ∧ s.prevChannels = 2) := by
  rw [chain_streamChannels, chain_toMono]; unfold monoDelay chanDecision; consts
  grind

end Opus.EncDecide
