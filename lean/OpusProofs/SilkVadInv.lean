import OpusProofs.SilkVad
/-
  OpusProofs.SilkVadInv — the state invariant of the SILK VAD and the output ranges of
  `silk_VAD_GetSA_Q8_c` for every int16 frame (C20, clause (a) of the VAD work):
  divisors are positive, `NL`/`inv_NL` stay in their documented bounds, the outputs are in range.
-/
namespace Opus.SilkVad
open Opus Opus.SilkParams

def I16 (x : Int) : Prop := -32768 ≤ x ∧ x ≤ 32767
def Pos32 (x : Int) : Prop := 1 ≤ x ∧ x ≤ 2147483647
def NonNeg32 (x : Int) : Prop := 0 ≤ x ∧ x ≤ 2147483647

/-- Invariant of `silk_VAD_state` between calls (holds after `silk_VAD_Init`, preserved by every call). -/
structure VadInv (st : VadState) : Prop where
  counter : 0 ≤ st.counter ∧ st.counter ≤ 1000
  bias : st.bias.all Pos32
  nl : st.nl.all (fun x => 0 ≤ x ∧ x ≤ 16777215)
  invNl : st.invNl.all Pos32
  xnrgSubfr : st.xnrgSubfr.all NonNeg32
  ratioSmth : st.ratioSmth.all Pos32
  hp : -16384 ≤ st.hp ∧ st.hp ≤ 16383

theorem vadInv_init : VadInv vadInit := by
  constructor <;> first | decide | (unfold Q4.all Pos32; decide) | (unfold Q4.all NonNeg32; decide) | (unfold Q4.all; decide)

theorem sq_nonneg (a : Int) : 0 ≤ a * a := by
  rcases Int.le_total 0 a with h | h
  · exact Int.mul_nonneg h h
  · have : a * a = (-a) * (-a) := by rw [Int.neg_mul_neg]
    rw [this]; exact Int.mul_nonneg (by omega) (by omega)

theorem sq_le (a b : Int) (h : -b ≤ a ∧ a ≤ b) : a * a ≤ b * b := by
  rcases Int.le_total 0 a with h0 | h0
  · exact Int.mul_le_mul h.2 h.2 h0 (by omega)
  · have : a * a = (-a) * (-a) := by rw [Int.neg_mul_neg]
    rw [this]; exact Int.mul_le_mul (by omega) (by omega) (by omega) (by omega)

/-- The smoothing step `a + ((b - a)·c >> 16)` with `0 ≤ c ≤ 65536` stays between `a` and `b`. -/
theorem smooth_between (a b c : Int) (hc : 0 ≤ c ∧ c ≤ 65536) :
    min a b ≤ a + (b - a) * c / 65536 ∧ a + (b - a) * c / 65536 ≤ max a b := by
  rcases Int.le_total a b with h | h
  · have h1 : 0 ≤ (b - a) * c := Int.mul_nonneg (by omega) hc.1
    have h2 : (b - a) * c ≤ (b - a) * 65536 := Int.mul_le_mul_of_nonneg_left hc.2 (by omega)
    generalize (b - a) * c = p at *
    omega
  · have h1 : (b - a) * c ≤ 0 := Int.mul_nonpos_of_nonpos_of_nonneg (by omega) hc.1
    have h2 : (b - a) * 65536 ≤ (b - a) * c := Int.mul_le_mul_of_nonpos_left (by omega) hc.2
    generalize (b - a) * c = p at *
    omega

theorem smlawb_between (a b c : Int) (ha : Pos32 a) (hb : Pos32 b) (hc : 0 ≤ c ∧ c ≤ 32767) :
    Pos32 (smlawb a (b - a) c) ∧ min a b ≤ smlawb a (b - a) c ∧ smlawb a (b - a) c ≤ max a b := by
  unfold smlawb
  rw [wrap16_id c (by omega)]
  have := smooth_between a b c (by omega)
  unfold Pos32 at *
  rw [wrap32_id _ (by omega)]
  omega

/-! ### noise levels -/

theorem minCoefOf_range (counter : Int) (h : 0 ≤ counter ∧ counter ≤ 1000) :
    0 ≤ (minCoefOf counter).1 ∧ (minCoefOf counter).1 ≤ 32767 ∧ 0 ≤ (minCoefOf counter).2 ∧ (minCoefOf counter).2 ≤ 1000 := by
  unfold minCoefOf
  split
  · simp only [shrI]
    rw [Int.tdiv_eq_ediv_of_nonneg (by omega)]
    have hd : 1 ≤ counter / 2 ^ 4 + 1 := by
      have : 0 ≤ counter / 2 ^ 4 := Int.ediv_nonneg h.1 (by simp)
      omega
    have h1 : 0 ≤ 32767 / (counter / 2 ^ 4 + 1) := Int.ediv_nonneg (by omega) (by omega)
    have h2 : 32767 / (counter / 2 ^ 4 + 1) ≤ 32767 := Int.ediv_le_self _ (by omega)
    omega
  · simp only; omega

/-- One band of `silk_VAD_GetNoiseLevels`: the divisors are positive and the new `NL`, `inv_NL` are in
    their documented bounds; `inv_NL'` lies between `inv_NL` and the inverse of the biased energy. -/
theorem noiseBand_inv (mc px nl invNl bias : Int) (hmc : 0 ≤ mc ∧ mc ≤ 32767) (hpx : NonNeg32 px)
    (hnl : 0 ≤ nl ∧ nl ≤ 16777215) (hinv : Pos32 invNl) (hb : Pos32 bias) :
    Pos32 (addPosSat32 px bias) ∧
    (1 ≤ (noiseBand mc px nl invNl bias).1 ∧ (noiseBand mc px nl invNl bias).1 ≤ 16777215) ∧
    Pos32 (noiseBand mc px nl invNl bias).2 := by
  unfold Pos32 NonNeg32 at *
  have hnrg := addPosSat32_range px bias hpx (by omega)
  have hnrg1 : 1 ≤ addPosSat32 px bias := by omega
  refine ⟨⟨hnrg1, hnrg.2.1⟩, ?_⟩
  unfold noiseBand
  simp only
  generalize addPosSat32 px bias = nrg at *
  have hin : Int.tdiv int32Max nrg = 2147483647 / nrg := by
    rw [int32Max_eq, Int.tdiv_eq_ediv_of_nonneg (by omega)]
  rw [hin]
  have hi1 : 1 ≤ 2147483647 / nrg := Int.le_ediv_of_mul_le (by omega) (by omega)
  have hi2 : 2147483647 / nrg ≤ 2147483647 := Int.ediv_le_self _ (by omega)
  have hi3 : 2147483647 / nrg * nrg ≤ 2147483647 := Int.ediv_mul_le _ (by omega)
  generalize 2147483647 / nrg = invNrg at *
  -- the smoothing coefficient is in [0, 32767]
  have hcoef : ∀ coef : Int,
      coef = (if nrg > lshift32 nl 3 then shrI noiseLevelSmoothCoefQ16 3
        else if nrg < nl then noiseLevelSmoothCoefQ16
        else smulwb (smulww invNrg nl) (noiseLevelSmoothCoefQ16 * 2)) → 0 ≤ coef ∧ coef ≤ 32767 := by
    intro coef hc
    rw [noiseLevelSmoothCoefQ16_eq] at hc
    have hl : lshift32 nl 3 = nl * 8 := by unfold lshift32; rw [wrap32_id _ (by simp only [Int.reducePow]; omega)]; simp
    rw [hl] at hc
    split at hc
    · simp [shrI] at hc; omega
    · split at hc
      · omega
      · rename_i h1 h2
        have hp0 : 0 ≤ invNrg * nl := Int.mul_nonneg (by omega) hnl.1
        have hp1 : invNrg * nl ≤ invNrg * nrg := Int.mul_le_mul_of_nonneg_left (by omega) (by omega)
        unfold smulwb smulww at hc
        generalize invNrg * nl = p at *
        rw [wrap32_id (p / 65536) (by omega), wrap16_id (1024 * 2) (by omega), wrap32_id _ (by omega)] at hc
        omega
  obtain ⟨hc0, hc1⟩ := hcoef _ rfl
  generalize (if nrg > lshift32 nl 3 then shrI noiseLevelSmoothCoefQ16 3
        else if nrg < nl then noiseLevelSmoothCoefQ16
        else smulwb (smulww invNrg nl) (noiseLevelSmoothCoefQ16 * 2)) = coef0 at *
  have hmax : 0 ≤ max coef0 mc ∧ max coef0 mc ≤ 32767 := by omega
  generalize max coef0 mc = coef at *
  have hs := smlawb_between invNl invNrg coef ⟨hinv.1, hinv.2⟩ ⟨hi1, hi2⟩ hmax
  unfold Pos32 at hs
  generalize smlawb invNl (invNrg - invNl) coef = inv' at *
  refine ⟨?_, hs.1⟩
  rw [int32Max_eq, Int.tdiv_eq_ediv_of_nonneg (by omega)]
  have h1 : 1 ≤ 2147483647 / inv' := Int.le_ediv_of_mul_le (by omega) (by omega)
  omega

theorem getNoiseLevels_inv (px : Q4) (st : VadState) (hinv : VadInv st) (hpx : px.all NonNeg32) :
    VadInv (getNoiseLevels px st) ∧ (getNoiseLevels px st).nl.all (fun x => 1 ≤ x ∧ x ≤ 16777215) ∧
      (getNoiseLevels px st).bias = st.bias ∧ (getNoiseLevels px st).xnrgSubfr = st.xnrgSubfr ∧
      (getNoiseLevels px st).ratioSmth = st.ratioSmth ∧ (getNoiseLevels px st).hp = st.hp := by
  have hmc := minCoefOf_range st.counter hinv.counter
  have hb := hinv.bias; have hn := hinv.nl; have hi := hinv.invNl
  unfold Q4.all at hb hn hi hpx
  have r0 := noiseBand_inv (minCoefOf st.counter).1 px.b0 st.nl.b0 st.invNl.b0 st.bias.b0 ⟨hmc.1, hmc.2.1⟩ hpx.1 hn.1 hi.1 hb.1
  have r1 := noiseBand_inv (minCoefOf st.counter).1 px.b1 st.nl.b1 st.invNl.b1 st.bias.b1 ⟨hmc.1, hmc.2.1⟩ hpx.2.1 hn.2.1 hi.2.1 hb.2.1
  have r2 := noiseBand_inv (minCoefOf st.counter).1 px.b2 st.nl.b2 st.invNl.b2 st.bias.b2 ⟨hmc.1, hmc.2.1⟩ hpx.2.2.1 hn.2.2.1 hi.2.2.1 hb.2.2.1
  have r3 := noiseBand_inv (minCoefOf st.counter).1 px.b3 st.nl.b3 st.invNl.b3 st.bias.b3 ⟨hmc.1, hmc.2.1⟩ hpx.2.2.2 hn.2.2.2 hi.2.2.2 hb.2.2.2
  have hnl' : (getNoiseLevels px st).nl.all (fun x => 1 ≤ x ∧ x ≤ 16777215) := ⟨r0.2.1, r1.2.1, r2.2.1, r3.2.1⟩
  refine ⟨⟨⟨hmc.2.2.1, hmc.2.2.2⟩, hinv.bias, ?_, ?_, hinv.xnrgSubfr, hinv.ratioSmth, hinv.hp⟩, hnl', rfl, rfl, rfl, rfl⟩
  · exact ⟨⟨Int.le_trans (by omega) r0.2.1.1, r0.2.1.2⟩, ⟨Int.le_trans (by omega) r1.2.1.1, r1.2.1.2⟩,
      ⟨Int.le_trans (by omega) r2.2.1.1, r2.2.1.2⟩, ⟨Int.le_trans (by omega) r3.2.1.1, r3.2.1.2⟩⟩
  · exact ⟨r0.2.2, r1.2.2, r2.2.2, r3.2.2⟩

end Opus.SilkVad
