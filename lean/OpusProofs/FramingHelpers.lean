import OpusProofs.FramingSafe
/-
  OpusProofs.FramingHelpers — what the TOC / packet helpers of src/opus_decoder.c return, stated against the
  packet the parser accepts (both framings): frame count, sample count and the 120 ms rule, the LBRR flag bit.
-/
namespace Opus.FramingProofs
open Opus Opus.Framing Opus.FramingSpec

/-- The frame-count helper reads the same count the parser reports, in BOTH framings (the count byte
    of a code-3 packet sits right after the TOC byte in the self-delimited framing too). -/
theorem getNbFrames_agrees_any (sd : Bool) (bs : Bytes) (hb : BytesOk bs) (r : Parsed)
    (h : parseImpl sd bs = .ok r) : getNbFrames bs = .ok r.count := by
  obtain ⟨p, rest, hv, hbs, _, hview⟩ := parse_sound sd bs hb r h
  subst hview
  have h4 : p.toc % 4 < 4 := Nat.mod_lt _ (by decide)
  have hcases : p.code = 0 ∨ p.code = 1 ∨ p.code = 2 ∨ p.code = 3 := by unfold Packet.code; omega
  have hser : serialize sd p = p.toc :: ((if p.code = 3 then [countByte p] ++ padHdrOf p else []) ++
      (lenFields sd p).flatMap encLen ++ p.frames.flatten ++ padBytes p) := by
    simp [serialize, header, padHdrOf]
    by_cases hc3 : p.code = 3
    · simp [hc3]; cases p.pad <;> rfl
    · simp [hc3]
  rw [hbs, hser]
  unfold getNbFrames
  simp only [view, List.cons_append]
  rcases hcases with hc | hc | hc | hc
  · have : p.toc % 4 = 0 := hc
    simp [this, (hv.code0 hc).1]
  · have : p.toc % 4 = 1 := hc
    simp [this, (hv.code1 hc).1]
  · have : p.toc % 4 = 2 := hc
    simp [this, (hv.code2 hc).1]
  · have h3 : p.toc % 4 = 3 := hc
    obtain ⟨h1, h2, _⟩ := hv.code3 hc
    have hge := frameDur48_ge p.toc (List.mem_range.mpr hv.toc_byte)
    have hn : p.frames.length < 64 := by
      apply Decidable.byContradiction; intro hgt
      have : 120 * 64 ≤ frameDur48 p.toc * p.frames.length := Nat.mul_le_mul hge (by omega)
      omega
    simp [h3, hc, countByte_mod p hn]

/-! ### opus_packet_get_nb_samples -/

theorem spf_rates : ∀ toc ∈ List.range 256, ∀ fs ∈ [8000, 12000, 16000, 24000, 48000],
    samplesPerFrame toc fs * (48000 / fs) = frameDur48 toc ∧ frameDur48 toc ≤ 2880 := by decide +kernel

/-- For a TOC byte, a frame count `c` and one of the five API rates: `opus_packet_get_nb_samples` fails with
    OPUS_INVALID_PACKET exactly when the packet would hold more than 120 ms (5760 samples at 48 kHz), and
    otherwise returns `c · samples_per_frame`. -/
theorem getNbSamples_cases (toc : Nat) (rest : Bytes) (htoc : toc < 256) (c : Nat) (fs : Nat)
    (hfs : fs ∈ [8000, 12000, 16000, 24000, 48000]) (hc : getNbFrames (toc :: rest) = .ok c) :
    (getNbSamples (toc :: rest) fs = .err .invalidPacket ↔ 5760 < c * frameDur48 toc) ∧
    (c * frameDur48 toc ≤ 5760 → getNbSamples (toc :: rest) fs = .ok (c * samplesPerFrame toc fs)) := by
  have hr := (spf_rates toc (List.mem_range.mpr htoc) fs hfs).1
  have hm : c * samplesPerFrame toc fs * (48000 / fs) = c * frameDur48 toc := by rw [Nat.mul_assoc, hr]
  unfold getNbSamples
  rw [hc]
  show ((if c * samplesPerFrame toc fs * 25 > fs * 3 then (Res.err Err.invalidPacket : Res Nat)
      else Res.ok (c * samplesPerFrame toc fs)) = Res.err Err.invalidPacket ↔ 5760 < c * frameDur48 toc) ∧
    (c * frameDur48 toc ≤ 5760 → (if c * samplesPerFrame toc fs * 25 > fs * 3 then (Res.err Err.invalidPacket : Res Nat)
      else Res.ok (c * samplesPerFrame toc fs)) = Res.ok (c * samplesPerFrame toc fs))
  simp only [List.mem_cons, List.not_mem_nil, or_false] at hfs
  rcases hfs with rfl | rfl | rfl | rfl | rfl <;>
  · refine ⟨⟨fun h => ?_, fun h => ?_⟩, fun h => ?_⟩
    · split at h
      · omega
      · cases h
    · rw [if_pos (by omega)]
    · rw [if_neg (by omega)]

/-- On every accepted packet (either framing) and each API rate, the sample-count helper returns
    `count · samples_per_frame`, which is the packet's duration (≤ 120 ms) at that rate. -/
theorem getNbSamples_of_parse (sd : Bool) (bs : Bytes) (hb : BytesOk bs) (r : Parsed)
    (h : parseImpl sd bs = .ok r) (fs : Nat) (hfs : fs ∈ [8000, 12000, 16000, 24000, 48000]) :
    getNbSamples bs fs = .ok (r.count * samplesPerFrame r.toc fs) ∧
    r.count * samplesPerFrame r.toc fs * (48000 / fs) = r.count * frameDur48 r.toc ∧
    r.count * frameDur48 r.toc ≤ 5760 := by
  have hn := getNbFrames_agrees_any sd bs hb r h
  obtain ⟨p, rest, hv, hbs, _, hview⟩ := parse_sound sd bs hb r h
  have htoc : r.toc = p.toc := by rw [hview]; rfl
  have hcnt : r.count = p.frames.length := by rw [hview]; rfl
  have hhead : ∃ tl, bs = p.toc :: tl := by
    cases bs with
    | nil => simp [parseImpl] at h
    | cons t tl =>
      have := congrArg List.head? hbs
      simp [serialize, header] at this
      exact ⟨tl, by rw [this]⟩
  obtain ⟨tl, htl⟩ := hhead
  have hsp := spf_rates p.toc (List.mem_range.mpr hv.toc_byte) fs hfs
  have hdur : p.frames.length * frameDur48 p.toc ≤ 5760 := by
    have h4 : p.toc % 4 < 4 := Nat.mod_lt _ (by decide)
    have hcases : p.code = 0 ∨ p.code = 1 ∨ p.code = 2 ∨ p.code = 3 := by unfold Packet.code; omega
    rcases hcases with hc | hc | hc | hc
    · rw [(hv.code0 hc).1]; omega
    · rw [(hv.code1 hc).1]; omega
    · rw [(hv.code2 hc).1]; omega
    · have := (hv.code3 hc).2.1; rw [Nat.mul_comm]; exact this
  rw [htl] at hn
  have hcs := getNbSamples_cases p.toc tl hv.toc_byte r.count fs hfs hn
  rw [htoc, hcnt] at *
  refine ⟨?_, ?_, hdur⟩
  · rw [htl]; exact hcs.2 hdur
  · rw [Nat.mul_assoc, hsp.1]

/-! ### opus_packet_has_lbrr -/

/-- Number of 20 ms SILK frames in one Opus frame, as `opus_packet_has_lbrr` computes it from the TOC
    (opus_decoder.c:1213-1217): 1 for 10 / 20 ms, 2 for 40 ms, 3 for 60 ms. -/
def lbrrSilkFrames (toc : Nat) : Nat := if frameDur48 toc > 960 then frameDur48 toc / 960 else 1

theorem toc_facts : ∀ toc ∈ List.range 256,
    samplesPerFrame toc 48000 = frameDur48 toc ∧
    (getMode toc = MODE_CELT_ONLY ↔ 16 ≤ toc / 8 % 32) ∧
    (toc / 8 % 32 < 16 → lbrrSilkFrames toc = 1 ∨ lbrrSilkFrames toc = 2 ∨ lbrrSilkFrames toc = 3) ∧
    (getNbChannels toc = 2 ↔ toc / 4 % 2 = 1) := by decide +kernel

/-- The value of `opus_packet_has_lbrr` on a packet the parser accepts: 0 for CELT-only packets and for an
    empty first frame; otherwise the LBRR bit(s) of the first byte `f0` of the first frame — bit `7 − n` (mono /
    mid channel) or-ed, for stereo, with bit `6 − 2n` (side channel), `n` = SILK frames per Opus frame: the
    bits that follow the `n` VAD flags of each channel in the SILK header (RFC 6716 §4.2.3/4.2.4). -/
theorem hasLbrr_value (bs : Bytes) (hb : BytesOk bs) (r : Parsed) (h : parseImpl false bs = .ok r) :
    (16 ≤ r.toc / 8 % 32 → hasLbrr bs = .ok 0) ∧
    (r.toc / 8 % 32 < 16 →
      ∃ s0 ss, r.sizes = s0 :: ss ∧
        (s0 = 0 → hasLbrr bs = .ok 0) ∧
        (0 < s0 → ∃ f0, bs[r.payloadOffset]? = some f0 ∧
          hasLbrr bs = .ok (
            if r.toc / 4 % 2 = 1 then
              (if f0 / 2 ^ (7 - lbrrSilkFrames r.toc) % 2 ≠ 0 ∨ f0 / 2 ^ (6 - 2 * lbrrSilkFrames r.toc) % 2 ≠ 0 then 1 else 0)
            else f0 / 2 ^ (7 - lbrrSilkFrames r.toc) % 2))) := by
  obtain ⟨p, rest, hv, hbs, hrr, hview⟩ := parse_sound false bs hb r h
  have hrest := hrr rfl
  subst hrest
  have htoc : r.toc = p.toc := by rw [hview]; rfl
  cases bs with
  | nil => simp [parseImpl] at h
  | cons toc data =>
    have ht : toc = p.toc := by
      have := congrArg List.head? hbs
      simp [serialize, header] at this
      exact this
    obtain ⟨hspf, hcelt, hn, hch⟩ := toc_facts p.toc (List.mem_range.mpr hv.toc_byte)
    rw [htoc]
    subst ht
    unfold hasLbrr
    simp only
    rw [h]
    constructor
    · intro hc
      rw [if_pos (hcelt.mpr hc)]
    · intro hc
      have hnc : ¬ getMode p.toc = MODE_CELT_ONLY := fun hm => by have := hcelt.mp hm; omega
      rw [if_neg hnc]
      subst hview
      simp only [view]
      cases hfr : p.frames with
      | nil =>
        exfalso
        have h4 : p.toc % 4 < 4 := Nat.mod_lt _ (by decide)
        have hcases : p.code = 0 ∨ p.code = 1 ∨ p.code = 2 ∨ p.code = 3 := by unfold Packet.code; omega
        rcases hcases with hc' | hc' | hc' | hc'
        · have := (hv.code0 hc').1; rw [hfr] at this; simp at this
        · have := (hv.code1 hc').1; rw [hfr] at this; simp at this
        · have := (hv.code2 hc').1; rw [hfr] at this; simp at this
        · have := (hv.code3 hc').1; rw [hfr] at this; simp at this
      | cons fr0 fs =>
        refine ⟨fr0.length, fs.map List.length, by simp [Packet.lens, hfr], ?_, ?_⟩
        · intro h0
          simp only [Packet.lens, hfr, List.map_cons, h0, if_true]
        · intro hpos
          have hdrop : (p.toc :: data).drop (header false p).length = p.frames.flatten ++ padBytes p := by
            rw [hbs, List.append_nil]; simp [serialize]
          cases fr0 with
          | nil => simp at hpos
          | cons b f0' =>
            refine ⟨b, ?_, ?_⟩
            · rw [← List.head?_drop, hdrop, hfr]; simp
            · simp only [Packet.lens, hfr, List.map_cons, List.length_cons]
              rw [if_neg (by omega), hdrop, hfr]
              simp only [List.flatten_cons, List.cons_append]
              rw [hspf]
              unfold lbrrSilkFrames
              by_cases hst : p.toc / 4 % 2 = 1
              · rw [if_pos (hch.mpr hst), if_pos hst]
              · rw [if_neg (fun hh => hst (hch.mp hh)), if_neg hst]

/-- On a SILK / hybrid packet the parser rejects, `opus_packet_has_lbrr` returns the parser's error. -/
theorem hasLbrr_err (toc : Nat) (data : Bytes) (htoc : toc < 256) (hm : toc / 8 % 32 < 16) (e : Err)
    (h : parseImpl false (toc :: data) = .err e) : hasLbrr (toc :: data) = .err e := by
  obtain ⟨_, hcelt, _, _⟩ := toc_facts toc (List.mem_range.mpr htoc)
  unfold hasLbrr
  simp only
  rw [if_neg (fun hh => by have := hcelt.mp hh; omega), h]

end Opus.FramingProofs
