import OpusModel.RangeCoderCodes
import OpusProofs.RangeCoderRoundTrip
import OpusProofs.CwrsCache
import OpusProofs.LaplaceMain
/-
  OpusProofs.RangeCoderCodes — C08 ∘ C17: the Laplace code and the PVQ code, run through the range
  coder, are inverted by their decoders.  C17 supplies the interval-level facts (`laplace_decode_encode`,
  `icwrs_table`, `cache_reachable_fits`), C08 the round trip of the range-coder calls.
  The C17 facts are taken from C17's proof modules (OpusProofs/Laplace*.lean, OpusProofs/Cwrs*.lean) and
  re-assembled here in the form `OpusProps.C17` states them (`C17.*` below), so that this file does not
  depend on the whole of OpusProps/C17.lean (which also carries C17's unrelated CELT-header work).
-/
namespace Opus.RangeCoder
open Opus
open Opus.Cwrs (Utab V sumAbs sumSq cwrsi decodePulsesFt encodePulses)
open OpusProofs.Laplace (LaplaceOk)
open OpusProofs.CwrsCache (Reach)

/-- Side conditions of a coding step: the Laplace parameters are a usable pair (every pair of the
    energy model is, C17 `eprob_pairs_ok`); the pulse vector has a size and pulse count the codec can
    use (`Reach`, C17) and `K` is its number of pulses. -/
def Code.Ok : Code → Prop
  | .op _ => True
  | .laplace _ fs decay => LaplaceOk fs decay = true
  | .pulses y k => 2 ≤ y.length ∧ sumAbs y = k ∧ ∃ b, Reach y.length k b

/-- The decoder's result agrees with what the coding step encoded: a Laplace value decodes to the value
    the encoder wrote back through `*value` (the clamped value), a pulse vector to itself. -/
def Code.Matches : Code → CodeVal → Prop
  | .op o, .sym x => o.Matches x
  | .laplace value fs decay, .lap v => ∃ fl fh, Laplace.encode value fs decay = .ok (fl, fh, v)
  | .pulses y _, .vec ys => ys = y
  | _, _ => False

def MatchAllC : List Code → List CodeVal → Prop
  | [], [] => True
  | c :: cs, v :: vs => c.Matches v ∧ MatchAllC cs vs
  | _, _ => False

namespace C17
open Opus.Cwrs (icwrs Tab)
open OpusProofs.CwrsModel (Agree)

/-- `OpusProps.C17.laplace_decode_encode` (first four clauses). -/
theorem laplace_decode_encode (fs decay : Nat) (h : LaplaceOk fs decay = true) (value : Int) :
    ∃ fl fh v', Laplace.encode value fs decay = .ok (fl, fh, v') ∧ fl < fh ∧ fh ≤ 32768 ∧
      (∀ fm, fl ≤ fm → fm < fh → Laplace.decode fm fs decay = .ok (v', fl, fh)) := by
  obtain ⟨T, hp⟩ := OpusProofs.Laplace.par_of_ok h
  obtain ⟨fl, fh, v', h1, h2, h3, h4, _⟩ := OpusProofs.Laplace.encode_then_decode hp value
  exact ⟨fl, fh, v', h1, h2, h3, h4⟩

/-- `OpusProps.C17.icwrs_cwrsi`. -/
theorem icwrs_cwrsi (tab : Tab) (y : List Int) (h : Agree tab y.length (sumAbs y)) (hn : 2 ≤ y.length)
    (hk : 1 ≤ sumAbs y) :
    ∃ i, icwrs tab y = .ok i ∧ i < V y.length (sumAbs y) ∧ cwrsi tab y.length (sumAbs y) i = .ok (y, sumSq y) := by
  obtain ⟨hlt, hdec⟩ := OpusProofs.CwrsBij.encS_spec y
  refine ⟨_, OpusProofs.CwrsModel.icwrs_agree h hn, hlt, ?_⟩
  rw [OpusProofs.CwrsModel.cwrsi_agree h hn hk hlt, hdec]

/-- `C17.cache_reachable_fits`. -/
theorem cache_reachable_fits (N K b : Nat) (h : Reach N K b) : 1 ≤ K ∧ V N K < 4294967296 ∧ Agree Utab N K := by
  obtain ⟨h1, h2, h3, _⟩ := OpusProofs.CwrsCache.reach_facts h
  exact ⟨h1, h3, h2⟩

/-- `OpusProps.C17.cwrsi_table` (first clause). -/
theorem decodePulsesFt_table (N K b : Nat) (h : Reach N K b) : decodePulsesFt Utab N K = .ok (V N K) := by
  obtain ⟨_, hA, _, _⟩ := OpusProofs.CwrsCache.reach_facts h
  exact OpusProofs.CwrsModel.pvqV_agree hA (Nat.le_refl _) (Nat.le_refl _)

/-- `C17.icwrs_table`. -/
theorem icwrs_table (N K b : Nat) (y : List Int) (h : Reach N K b) (hn : 2 ≤ N) (hl : y.length = N)
    (hs : sumAbs y = K) :
    ∃ i, encodePulses Utab y K = .ok (i, V N K) ∧ i < V N K ∧ V N K < 4294967296 ∧
      cwrsi Utab N K i = .ok (y, sumSq y) := by
  obtain ⟨hk, hA, hV, _⟩ := OpusProofs.CwrsCache.reach_facts h
  subst hl hs
  obtain ⟨i, h1, h2, h3⟩ := icwrs_cwrsi Utab y hA hn hk
  refine ⟨i, ?_, h2, hV, h3⟩
  unfold encodePulses
  rw [if_neg (by omega), h1, OpusProofs.CwrsModel.pvqV_agree hA (Nat.le_refl _) (Nat.le_refl _)]
  rfl

end C17

theorem V_pos (n : Nat) : ∀ k, 1 ≤ V (n + 1) k
  | 0 => by rw [OpusProofs.CwrsU.V_zero]; exact Nat.le_refl _
  | k + 1 => by
    have := V_pos n k
    cases n with
    | zero => rw [OpusProofs.CwrsU.V_rec]; omega
    | succ n => rw [OpusProofs.CwrsU.V_rec]; omega

theorem V_ge_two (n k : Nat) (hn : 2 ≤ n) (hk : 1 ≤ k) : 2 ≤ V n k := by
  obtain ⟨n', rfl⟩ : ∃ n', n = n' + 2 := ⟨n - 2, by omega⟩
  obtain ⟨k', rfl⟩ : ∃ k', k = k' + 1 := ⟨k - 1, by omega⟩
  rw [OpusProofs.CwrsU.V_rec]
  have h1 := V_pos n' (k' + 1)
  have h2 := V_pos (n' + 1) k'
  omega

/-- The range-coder call of `ec_laplace_encode` and what the decoder does with any answer to it. -/
theorem laplace_code (value : Int) (fs decay : Nat) (h : LaplaceOk fs decay = true) :
    ∃ fl fh v', Laplace.encode value fs decay = .ok (fl, fh, v') ∧
      (Code.laplace value fs decay).encOps = .ok [.encodeBin fl fh 15] ∧ (Op.encodeBin fl fh 15).Legal ∧
      ∀ fm, fl ≤ fm → fm < fh → Laplace.decode fm fs decay = .ok (v', fl, fh) := by
  obtain ⟨fl, fh, v', h1, h2, h3, h4⟩ := C17.laplace_decode_encode fs decay h value
  refine ⟨fl, fh, v', h1, ?_, ⟨h2, by simpa using h3, by decide, by decide⟩, h4⟩
  simp only [Code.encOps, h1]
  rfl

/-- The range-coder call of `encode_pulses` and what `decode_pulses` does with its answer. -/
theorem pulses_code (y : List Int) (k : Nat) (h : (Code.pulses y k).Ok) :
    ∃ i, (Code.pulses y k).encOps = .ok [.uint i (V y.length k)] ∧ (Op.uint i (V y.length k)).Legal ∧
      decodePulsesFt Utab y.length k = .ok (V y.length k) ∧
      cwrsi Utab y.length k i = .ok (y, sumSq y) := by
  obtain ⟨hn, hs, b, hr⟩ := h
  obtain ⟨i, h1, h2, h3, h4⟩ := C17.icwrs_table y.length k b y hr hn rfl hs
  obtain ⟨hk, _, _⟩ := C17.cache_reachable_fits y.length k b hr
  have hft := C17.decodePulsesFt_table y.length k b hr
  refine ⟨i, ?_, ⟨V_ge_two _ _ hn hk, by omega, h2⟩, hft, h4⟩
  simp only [Code.encOps, h1]
  rfl

/-- Every coding step that satisfies its side condition expands into range-coder calls. -/
theorem encOps_ok (c : Code) (h : c.Ok) : ∃ ops, c.encOps = .ok ops := by
  cases c with
  | op o => exact ⟨[o], rfl⟩
  | laplace value fs decay => obtain ⟨fl, fh, _, _, h2, _⟩ := laplace_code value fs decay h; exact ⟨_, h2⟩
  | pulses y k => obtain ⟨i, h1, _⟩ := pulses_code y k h; exact ⟨_, h1⟩

/-- Legality of a list of coding steps: side conditions, and plain range-coder calls legal where they
    are applied. -/
def LegalCodes : Enc → List Code → Prop
  | _, [] => True
  | c, code :: cs =>
    code.Ok ∧ (match code with | .op o => o.LegalAt c | _ => True) ∧
    ∀ ops, code.encOps = .ok ops → LegalCodes (encRun c ops) cs

theorem codesOps_cons {c : Code} {cs : List Code} {ops : List Op} (h : codesOps (c :: cs) = .ok ops) :
    ∃ a b, c.encOps = .ok a ∧ codesOps cs = .ok b ∧ ops = a ++ b := by
  simp only [codesOps] at h
  cases ha : c.encOps with
  | ok a =>
    rw [ha] at h
    cases hb : codesOps cs with
    | ok b => rw [hb] at h; exact ⟨a, b, rfl, rfl, by injection h with h; exact h.symm⟩
    | err e => rw [hb] at h; cases h
    | oob => rw [hb] at h; cases h
    | abort => rw [hb] at h; cases h
  | err e => rw [ha] at h; cases h
  | oob => rw [ha] at h; cases h
  | abort => rw [ha] at h; cases h

theorem legalRun_append' (a b : List Op) : ∀ (c : Enc), LegalRun c a → LegalRun (encRun c a) b →
    LegalRun c (a ++ b) := by
  induction a with
  | nil => intro c _ h; exact h
  | cons op a ih => intro c h1 h2; exact ⟨h1.1, ih _ h1.2 h2⟩

/-- Legal coding steps expand into a legal run of range-coder calls. -/
theorem legalRun_of_codes (cs : List Code) : ∀ (c : Enc), LegalCodes c cs →
    ∃ ops, codesOps cs = .ok ops ∧ LegalRun c ops := by
  induction cs with
  | nil => intro c _; exact ⟨[], rfl, trivial⟩
  | cons code cs ih =>
    intro c h
    obtain ⟨hok, hop, hrest⟩ := h
    obtain ⟨a, ha⟩ := encOps_ok code hok
    obtain ⟨b, hb, hlb⟩ := ih (encRun c a) (hrest a ha)
    have hla : LegalRun c a := by
      cases code with
      | op o => simp only [Code.encOps] at ha; injection ha with ha; subst ha; exact ⟨hop, trivial⟩
      | laplace value fs decay =>
        obtain ⟨fl, fh, _, _, h2, h3, _⟩ := laplace_code value fs decay hok
        rw [h2] at ha; injection ha with ha; subst ha
        exact ⟨h3, trivial⟩
      | pulses y k =>
        obtain ⟨i, h1, h2, _⟩ := pulses_code y k hok
        rw [h1] at ha; injection ha with ha; subst ha
        exact ⟨h2, trivial⟩
    refine ⟨a ++ b, ?_, legalRun_append' a b c hla hlb⟩
    simp only [codesOps, ha, hb]; rfl

/-- The decoder side of one coding step, given that the decoder mirrors the range-coder calls of the
    step: it does not assert, returns the encoded value and ends where the mirrored calls end. -/
theorem decCode_step (d : Dec) (c : Code) (a : List Op) (hok : c.Ok) (ha : c.encOps = .ok a)
    (hm : MatchAll a (decRun d a).1) :
    ∃ v, decCode d c = .ok (v, (decRun d a).2) ∧ c.Matches v := by
  cases c with
  | op o =>
    simp only [Code.encOps] at ha; injection ha with ha; subst ha
    simp only [decRun] at hm ⊢
    exact ⟨_, rfl, hm.1⟩
  | laplace value fs decay =>
    obtain ⟨fl, fh, v', h1, h2, _, h4⟩ := laplace_code value fs decay hok
    rw [h2] at ha; injection ha with ha; subst ha
    simp only [decRun, decOp] at hm ⊢
    have hfm := hm.1
    simp only [Op.Matches] at hfm
    refine ⟨.lap v', ?_, fl, fh, h1⟩
    simp only [decCode, h4 _ hfm.1 hfm.2]
    rfl
  | pulses y k =>
    obtain ⟨i, h1, _, h3, h4⟩ := pulses_code y k hok
    rw [h1] at ha; injection ha with ha; subst ha
    simp only [decRun, decOp] at hm ⊢
    have hi := hm.1
    simp only [Op.Matches] at hi
    refine ⟨.vec y, ?_, rfl⟩
    simp only [decCode, h3]
    show (do let ys ← cwrsi Utab y.length k (decUint d (V y.length k)).1
             pure (CodeVal.vec ys.1, (decUint d (V y.length k)).2)) = _
    rw [hi, h4]
    rfl

/-- The decoder over a whole list of coding steps stays in lock-step and returns the encoded values. -/
theorem run_decodeC (B : List Nat) (hB : BytesOk B) (S : Nat) (cs : List Code) : ∀ (e : Enc) (d : Dec) (ops : List Op),
    (∀ c ∈ cs, c.Ok) → codesOps cs = .ok ops → RunInv e → LegalRun e ops → DecAll B S e d B →
    (encRun e ops).nbitsTotal < 4294967296 → (encRun e ops).error = 0 →
    Contains B S (encRun e ops) → RawC B S (encRun e ops) →
    ∃ vals d', decCodes d cs = .ok (vals, d') ∧ MatchAllC cs vals ∧ DecAll B S (encRun e ops) d' B := by
  have hBy : ∀ i, byteAt B S i < 256 := fun i => byteAt_lt_bytesOk hB S i
  induction cs with
  | nil =>
    intro e d ops _ hops _ _ all _ _ _ _
    simp only [codesOps] at hops; injection hops with hops; subst hops
    exact ⟨[], d, rfl, trivial, all⟩
  | cons c cs ih =>
    intro e d ops hok hops ri hl all hn herr hc hr
    obtain ⟨a, b, ha, hb, rfl⟩ := codesOps_cons hops
    rw [encRun_append] at hn herr hc hr ⊢
    obtain ⟨hla, hlb⟩ := legalRun_append a b e hl
    have herrA : (encRun e a).error = 0 := by
      apply Classical.byContradiction; intro hne
      exact encRun_error_mono b _ hne herr
    have hnA : (encRun e a).nbitsTotal < 4294967296 := Nat.lt_of_le_of_lt (encRun_nbits_mono b _) hn
    obtain ⟨_, riA, _, _, _⟩ := run_back a e ri hla hnA herrA
    obtain ⟨_, _, _, b3, b4⟩ := run_back b (encRun e a) riA hlb hn herr
    obtain ⟨m1, a1⟩ := run_decode B hB S B (fun _ _ => rfl) hBy a e d ri hla all hnA herrA (b3 B S hBy hc) (b4 B S hr)
    obtain ⟨v, hv, hvm⟩ := decCode_step d c a (hok c (by simp)) ha m1
    obtain ⟨vals, d', i1, i2, i3⟩ := ih (encRun e a) (decRun d a).2 b (fun c hc => hok c (by simp [hc])) hb riA hlb
      a1 hn herr hc hr
    refine ⟨v :: vals, d', ?_, ⟨hvm, i2⟩, i3⟩
    simp only [decCodes, hv, Res.bind_ok, i1]
    rfl

theorem legalCodes_ok (cs : List Code) : ∀ (c : Enc), LegalCodes c cs → ∀ x ∈ cs, x.Ok := by
  induction cs with
  | nil => intro _ _ x hx; simp at hx
  | cons code cs ih =>
    intro c h x hx
    obtain ⟨hok, _, hrest⟩ := h
    rcases List.mem_cons.mp hx with rfl | hx
    · exact hok
    · obtain ⟨a, ha⟩ := encOps_ok code hok
      exact ih _ (hrest a ha) x hx

/-- **Laplace and PVQ codes through the range coder.**  For every list of coding steps — plain
    range-coder calls, `ec_laplace_encode` with any usable parameter pair, `encode_pulses` with any
    reachable `(N, K)`, in any interleaving — the steps expand into range-coder calls without
    assertion, and if `ec_enc_done` then reports no error the decoder side (`ec_laplace_decode`,
    `decode_pulses`, the mirrored calls) does not assert either, returns the clamped Laplace values and
    exactly the encoded pulse vectors, and ends in lock-step with the encoder. -/
theorem codes_roundtrip_all (buf : List Nat) (size : Nat) (cs : List Code) (hs : size ≤ buf.length)
    (hb : BytesOk buf) (hl : LegalCodes (encInit buf size) cs) :
    ∃ ops, codesOps cs = .ok ops ∧ encodeCodes buf size cs = .ok (encodeAll buf size ops) ∧
      LegalRun (encInit buf size) ops ∧
      ((encodeAll buf size ops).nbitsTotal < 4294967296 → (encodeAll buf size ops).error = 0 →
        ∃ vals d, decCodes (decInit ((encodeAll buf size ops).buf.take (encodeAll buf size ops).storage)
            (encodeAll buf size ops).storage) cs = .ok (vals, d) ∧
          MatchAllC cs vals ∧
          DecAll ((encodeAll buf size ops).buf.take (encodeAll buf size ops).storage)
            (encodeAll buf size ops).storage (encRun (encInit buf size) ops) d
            ((encodeAll buf size ops).buf.take (encodeAll buf size ops).storage)) := by
  obtain ⟨ops, hops, hlr⟩ := legalRun_of_codes cs _ hl
  refine ⟨ops, hops, by simp only [encodeCodes, hops]; rfl, hlr, ?_⟩
  intro hn herr
  obtain ⟨f1, f2, f3, f4, f5⟩ := encodeAll_facts buf size ops hs hb hlr hn herr
  exact run_decodeC _ f1 _ cs _ _ ops (legalCodes_ok cs _ hl) hops (runInv_encInit buf size hs hb) hlr
    (decInit_spec _ f1 _ buf size) f2 f3 f4 f5

end Opus.RangeCoder
