import OpusProofs.SilkApi
/-! Proofs for the C01 `SilkApi` slice: nSamplesOut (:373) and the samplesOut1_tmp extents of a configured channel. -/
namespace Opus.SilkApi

theorem nSamplesOut_ok {api : Int} {c : Chan} (ha : ApiOk api) (hc : ChanOk api c) :
    smulbb c.fs_kHz 1000 ≠ 0 ∧ wrap32 (c.frame_length * api) = c.frame_length * api ∧
    wrap32 (c.frame_length * api) / smulbb c.fs_kHz 1000 = c.nb_subfr * (api / 200) ∧
    0 < c.nb_subfr * (api / 200) ∧ c.nb_subfr * (api / 200) ≤ 960 := by
  obtain ⟨⟨hf, hnb, hfl, _⟩, _⟩ := hc
  rw [hfl]
  rcases hf with hf | hf | hf <;> rcases hnb with hnb | hnb <;> rcases ha with rfl | rfl | rfl | rfl | rfl <;>
    simp [hf, hnb, smulbb, sext16, wrap32]

theorem tmp_extents_ok {api : Int} {c : Chan} (hc : ChanOk api c) (nCh : Int) (hn : nCh = 1 ∨ nCh = 2) :
    let fl := c.frame_length
    let cap := nCh * (fl + 2)
    (∀ n, 0 ≤ n → n < nCh →
       Acc.InBounds { buf := "tmp", lo := n * (fl + 2) + 2, n := fl, cap := cap } ∧         -- silk_decode_frame output / memset :349, :358
       Acc.InBounds { buf := "tmp", lo := n * (fl + 2) + 1, n := fl, cap := cap } ∧         -- silk_resampler input :382, :401
       Acc.InBounds { buf := "resampler-1ms", lo := 0, n := c.rsIn, cap := fl }) ∧          -- resampler.c:184 inLen >= Fs_in_kHz
    Acc.InBounds { buf := "tmp", lo := 0, n := 2, cap := cap } ∧ Acc.InBounds { buf := "tmp", lo := fl, n := 2, cap := cap } ∧   -- :368-:369
    (nCh = 2 → ∀ a ∈ msAccs fl c.fs_kHz fl cap, a.InBounds) := by
  obtain ⟨⟨hf, hnb, hfl, _, _, _, _, _, _, hri, _⟩, _⟩ := hc
  intro fl cap
  have hfl' : fl = c.nb_subfr * 5 * c.fs_kHz := hfl
  refine ⟨fun n h0 h1 => ?_, ?_, ?_, ?_⟩
  · have hn' : n = 0 ∨ n = 1 := by omega
    rcases hf with hf | hf | hf <;> rcases hnb with hnb | hnb <;> rcases hn with rfl | rfl <;> rcases hn' with rfl | rfl <;>
      simp [Acc.InBounds, Acc.hi, cap, hfl', hf, hnb, hri] at * <;> omega
  · rcases hf with hf | hf | hf <;> rcases hnb with hnb | hnb <;> rcases hn with rfl | rfl <;>
      simp [Acc.InBounds, Acc.hi, cap, hfl', hf, hnb]
  · rcases hf with hf | hf | hf <;> rcases hnb with hnb | hnb <;> rcases hn with rfl | rfl <;>
      simp [Acc.InBounds, Acc.hi, cap, hfl', hf, hnb]
  · intro h2 a hmem
    subst h2
    rcases hf with hf | hf | hf <;> rcases hnb with hnb | hnb <;>
      simp [msAccs, cap, hfl', hf, hnb] at hmem <;> rcases hmem with rfl | rfl <;> simp [Acc.InBounds, Acc.hi]

end Opus.SilkApi
