import OpusModel.Layout
/-
  OpusProofs.Layout — lemmas about layout validation and the decode routing loop (C10).
  Core tactics only.
-/
namespace Opus.Layout
open Opus

/-! ### declarative validity -/

/-- The channels the C code reads: `mapping[0 .. nb_channels-1]`. -/
def ChannelLayout.chans (l : ChannelLayout) : List Nat := l.mapping.take l.nbChannels

/-- RFC 7845 §5.1.1: every mapping byte is an index below `streams + coupled` or 255, and the
    total number of decoded channels fits a byte. -/
def LayoutValid (l : ChannelLayout) : Prop :=
  l.nbStreams + l.nbCoupled ≤ 255 ∧ ∀ m ∈ l.chans, m < l.nbStreams + l.nbCoupled ∨ m = 255

theorem validateLayout_iff (l : ChannelLayout) : validateLayout l = true ↔ LayoutValid l := by
  unfold validateLayout LayoutValid ChannelLayout.chans
  by_cases h : l.nbStreams + l.nbCoupled > 255
  · simp only [h, if_true]
    constructor
    · intro h'; cases h'
    · intro h'; omega
  · simp only [h, if_false, List.all_eq_true]
    constructor
    · intro h'
      refine ⟨by omega, fun m hm => ?_⟩
      have := h' m hm
      simp only [Bool.not_eq_true', Bool.and_eq_false_imp, decide_eq_true_eq, decide_eq_false_iff_not,
        ge_iff_le, Decidable.not_not] at this
      by_cases h2 : m = 255
      · right; exact h2
      · left
        by_cases h3 : l.nbStreams + l.nbCoupled ≤ m
        · exact absurd (this h3) h2
        · omega
    · intro ⟨_, h'⟩ m hm
      rcases h' m hm with h2 | h2
      · simp only [Bool.not_eq_true', Bool.and_eq_false_imp, decide_eq_true_eq, decide_eq_false_iff_not,
          ge_iff_le, Decidable.not_not]
        intro h3; omega
      · simp [h2]

/-! ### the scan -/

theorem scanFrom_ne_iff (target : Nat) : ∀ (xs : List Nat) (i : Nat),
    scanFrom target xs i ≠ -1 ↔ target ∈ xs
  | [], _ => by simp [scanFrom]
  | x :: xs, i => by
    unfold scanFrom
    by_cases h : x = target
    · simp only [h, if_true, List.mem_cons, true_or, iff_true]; omega
    · simp only [h, if_false, List.mem_cons]
      rw [scanFrom_ne_iff target xs (i + 1)]
      constructor
      · intro h'; right; exact h'
      · intro h'; rcases h' with h' | h'
        · exact absurd h'.symm h
        · exact h'

theorem findChannel_first_ne_iff (l : ChannelLayout) (target : Nat) :
    findChannel l target (-1) ≠ -1 ↔ target ∈ l.chans := by
  unfold findChannel ChannelLayout.chans
  simp only [show ((-1 : Int) < 0) = True from by simp, if_true, List.drop_zero]
  exact scanFrom_ne_iff target _ 0

/-- What `validate_encoder_layout` demands: every stream is fed by some channel. -/
def EncoderLayoutValid (l : ChannelLayout) : Prop :=
  ∀ s, s < l.nbStreams →
    (s < l.nbCoupled → s * 2 ∈ l.chans ∧ s * 2 + 1 ∈ l.chans) ∧
    (¬ s < l.nbCoupled → s + l.nbCoupled ∈ l.chans)

theorem validateEncoderLayout_iff (l : ChannelLayout) :
    validateEncoderLayout l = true ↔ EncoderLayoutValid l := by
  unfold validateEncoderLayout EncoderLayoutValid
  simp only [List.all_eq_true, List.mem_range]
  constructor
  · intro h s hs
    have := h s hs
    unfold encoderStreamOk at this
    by_cases hc : s < l.nbCoupled
    · simp only [hc, if_true, Bool.and_eq_true, decide_eq_true_eq] at this
      refine ⟨fun _ => ⟨(findChannel_first_ne_iff l _).1 this.1, (findChannel_first_ne_iff l _).1 this.2⟩, fun h' => absurd hc h'⟩
    · simp only [hc, if_false, decide_eq_true_eq] at this
      exact ⟨fun h' => absurd h' hc, fun _ => (findChannel_first_ne_iff l _).1 this⟩
  · intro h s hs
    have := h s hs
    unfold encoderStreamOk
    by_cases hc : s < l.nbCoupled
    · simp only [hc, if_true, Bool.and_eq_true, decide_eq_true_eq]
      exact ⟨(findChannel_first_ne_iff l _).2 (this.1 hc).1, (findChannel_first_ne_iff l _).2 (this.1 hc).2⟩
    · simp only [hc, if_false, decide_eq_true_eq]
      exact (findChannel_first_ne_iff l _).2 (this.2 hc)

/-! ### the copy loop as one left-to-right scan -/

/-- All matches of one left-to-right scan of `mapping[i..]`. -/
def scanAll (target : Nat) (src : Src) (fs : Int) : List Nat → Nat → List Call
  | [], _ => []
  | x :: xs, i =>
    if x = target then { chan := i, src, frameSize := fs } :: scanAll target src fs xs (i + 1)
    else scanAll target src fs xs (i + 1)

theorem scanAll_of_scanFrom_neg (target : Nat) (src : Src) (fs : Int) : ∀ (xs : List Nat) (i : Nat),
    scanFrom target xs i = -1 → scanAll target src fs xs i = []
  | [], _, _ => rfl
  | x :: xs, i, h => by
    unfold scanFrom at h
    unfold scanAll
    by_cases hx : x = target
    · simp only [hx, if_true] at h; omega
    · simp only [hx, if_false] at h ⊢
      exact scanAll_of_scanFrom_neg target src fs xs (i + 1) h

theorem scanAll_of_scanFrom (target : Nat) (src : Src) (fs : Int) : ∀ (xs : List Nat) (i : Nat),
    scanFrom target xs i ≠ -1 →
    scanAll target src fs xs i =
      { chan := (scanFrom target xs i).toNat, src, frameSize := fs } ::
        scanAll target src fs (xs.drop ((scanFrom target xs i).toNat - i + 1)) ((scanFrom target xs i).toNat + 1)
  | [], _, h => by simp [scanFrom] at h
  | x :: xs, i, h => by
    unfold scanFrom at h ⊢
    rw [scanAll]
    by_cases hx : x = target
    · simp only [hx, if_true, Int.toNat_natCast, Nat.sub_self, Nat.zero_add, List.drop_succ_cons, List.drop_zero]
    · simp only [hx, if_false] at h ⊢
      have ih := scanAll_of_scanFrom target src fs xs (i + 1) h
      rcases scanFrom_bounds target xs (i + 1) with hb | hb
      · exact absurd hb h
      · rw [ih]
        have e : (scanFrom target xs (i + 1)).toNat - i + 1 = ((scanFrom target xs (i + 1)).toNat - (i + 1) + 1) + 1 := by omega
        rw [e, List.drop_succ_cons]

/-- `i = (prev<0) ? 0 : prev+1`. -/
def startOf (prev : Int) : Nat := if prev < 0 then 0 else prev.toNat + 1

theorem findChannel_eq (l : ChannelLayout) (target : Nat) (prev : Int) :
    findChannel l target prev = scanFrom target (l.chans.drop (startOf prev)) (startOf prev) := rfl

theorem whileLoop_eq_scanAll (l : ChannelLayout) (target : Nat) (src : Src) (fs : Int) (prev : Int) :
    whileLoop l target src fs prev =
      scanAll target src fs (l.chans.drop (startOf prev)) (startOf prev) := by
  fun_induction whileLoop l target src fs prev with
  | case1 prev h =>
    rw [findChannel_eq] at h
    exact (scanAll_of_scanFrom_neg target src fs _ _ h).symm
  | case2 prev h ih =>
    rw [ih]
    have hb := findChannel_bounds l target prev
    rcases hb with hb | hb
    · exact absurd hb h
    · have hs : (startOf prev : Int) ≤ findChannel l target prev := by
        unfold startOf; split at hb <;> split <;> omega
      rw [findChannel_eq] at h hs hb ⊢
      rw [scanAll_of_scanFrom target src fs _ _ h]
      generalize scanFrom target (l.chans.drop (startOf prev)) (startOf prev) = ch at *
      have e1 : startOf ch = ch.toNat + 1 := by unfold startOf; split <;> omega
      rw [e1, List.drop_drop]
      have e2 : startOf prev + (ch.toNat - startOf prev + 1) = ch.toNat + 1 := by omega
      first
        | rw [e2]
        | (have e3 : (ch.toNat - startOf prev + 1) + startOf prev = ch.toNat + 1 := by omega
           rw [e3])

theorem streamCalls_eq (l : ChannelLayout) (s : Nat) (fs : Int) :
    streamCalls l s fs =
      if s < l.nbCoupled then
        scanAll (s * 2) (.left s) fs l.chans 0 ++ scanAll (s * 2 + 1) (.right s) fs l.chans 0
      else scanAll (s + l.nbCoupled) (.mono s) fs l.chans 0 := by
  unfold streamCalls
  have e : startOf (-1) = 0 := rfl
  simp only [whileLoop_eq_scanAll, e, List.drop_zero]

/-! ### which calls reach channel `c` -/

theorem filter_scanAll (target : Nat) (src : Src) (fs : Int) (c : Nat) : ∀ (xs : List Nat) (i : Nat),
    (scanAll target src fs xs i).filter (fun k => k.chan = c) =
      if i ≤ c ∧ xs[c - i]? = some target then [{ chan := c, src, frameSize := fs }] else []
  | [], i => by simp [scanAll]
  | x :: xs, i => by
    unfold scanAll
    have ih := filter_scanAll target src fs c xs (i + 1)
    by_cases hic : i = c
    · subst hic
      have ih' : (scanAll target src fs xs (i + 1)).filter (fun k => k.chan = i) = [] := by
        rw [ih]; rw [if_neg]; omega
      by_cases hx : x = target
      · simp [hx, ih']
      · simp [hx, ih']
    · by_cases hlt : i < c
      · have e : c - i = (c - (i + 1)) + 1 := by omega
        have hle : (i + 1 ≤ c) = True := by simp; omega
        have hle' : (i ≤ c) = True := by simp; omega
        by_cases hx : x = target
        · simp only [hx, if_true, List.filter_cons, decide_eq_true_eq, hic, if_false, ih, e, List.getElem?_cons_succ, hle, hle']
        · simp only [hx, if_false, ih, e, List.getElem?_cons_succ, hle, hle']
      · have hle : ¬ (i + 1 ≤ c) := by omega
        have hle' : ¬ (i ≤ c) := by omega
        by_cases hx : x = target
        · simp only [hx, if_true, List.filter_cons, decide_eq_true_eq, hic, if_false, ih, hle, hle', false_and]
        · simp only [hx, if_false, ih, hle, hle', false_and]

theorem filter_mutedCalls (fs : Int) (c : Nat) : ∀ (xs : List Nat) (i : Nat),
    (mutedCalls fs xs i).filter (fun k => k.chan = c) =
      if i ≤ c ∧ xs[c - i]? = some 255 then [{ chan := c, src := .zero, frameSize := fs }] else []
  | [], i => by simp [mutedCalls]
  | x :: xs, i => by
    unfold mutedCalls
    have ih := filter_mutedCalls fs c xs (i + 1)
    by_cases hic : i = c
    · subst hic
      have ih' : (mutedCalls fs xs (i + 1)).filter (fun k => k.chan = i) = [] := by
        rw [ih]; rw [if_neg]; omega
      by_cases hx : x = 255
      · simp [hx, ih']
      · simp [hx, ih']
    · by_cases hlt : i < c
      · have e : c - i = (c - (i + 1)) + 1 := by omega
        have hle : (i + 1 ≤ c) = True := by simp; omega
        have hle' : (i ≤ c) = True := by simp; omega
        by_cases hx : x = 255
        · simp only [hx, if_true, List.filter_cons, decide_eq_true_eq, hic, if_false, ih, e, List.getElem?_cons_succ, hle, hle']
        · simp only [hx, if_false, ih, e, List.getElem?_cons_succ, hle, hle']
      · have hle : ¬ (i + 1 ≤ c) := by omega
        have hle' : ¬ (i ≤ c) := by omega
        by_cases hx : x = 255
        · simp only [hx, if_true, List.filter_cons, decide_eq_true_eq, hic, if_false, ih, hle, hle', false_and]
        · simp only [hx, if_false, ih, hle, hle', false_and]

/-! ### per-stream contribution to one channel -/

/-- Stream a valid, non-muted mapping byte `v` designates. -/
def streamOf (l : ChannelLayout) (v : Nat) : Nat :=
  if v < 2 * l.nbCoupled then v / 2 else v - l.nbCoupled

/-- Source a mapping byte designates (`expectedSrc` in terms of the byte). -/
def srcOfValue (l : ChannelLayout) (v : Nat) : Src :=
  if v = 255 then .zero
  else if v < 2 * l.nbCoupled then (if v % 2 = 0 then .left (v / 2) else .right (v / 2))
  else .mono (v - l.nbCoupled)

theorem expectedSrc_eq (l : ChannelLayout) (c v : Nat) (hv : l.chans[c]? = some v) :
    expectedSrc l c = srcOfValue l v := by
  unfold ChannelLayout.chans at hv
  rw [List.getElem?_take] at hv
  split at hv
  · unfold expectedSrc srcOfValue
    simp only [List.getD_eq_getElem?_getD, hv, Option.getD_some]
  · cases hv

theorem filter_streamCalls (l : ChannelLayout) (s c v : Nat) (fs : Int)
    (h255 : l.nbStreams + l.nbCoupled ≤ 255) (hcs : l.nbCoupled ≤ l.nbStreams) (hs : s < l.nbStreams)
    (hv : l.chans[c]? = some v) :
    (streamCalls l s fs).filter (fun k => k.chan = c) =
      if v ≠ 255 ∧ streamOf l v = s then [{ chan := c, src := srcOfValue l v, frameSize := fs }] else [] := by
  rw [streamCalls_eq]
  by_cases hc : s < l.nbCoupled
  · simp only [hc, if_true, List.filter_append, filter_scanAll, Nat.zero_le, true_and, Nat.sub_zero, hv,
      Option.some.injEq]
    by_cases h1 : v = s * 2
    · have h0 : ¬ v = s * 2 + 1 := by omega
      have hso : streamOf l v = s := by unfold streamOf; rw [if_pos (by omega)]; omega
      have hsv : srcOfValue l v = .left s := by
        unfold srcOfValue
        rw [if_neg (by omega), if_pos (by omega), if_pos (by omega)]
        congr 1; omega
      rw [if_pos h1, if_neg h0, if_pos ⟨by omega, hso⟩, hsv, List.append_nil]
    · by_cases h1' : v = s * 2 + 1
      · have hso : streamOf l v = s := by unfold streamOf; rw [if_pos (by omega)]; omega
        have hsv : srcOfValue l v = .right s := by
          unfold srcOfValue
          rw [if_neg (by omega), if_pos (by omega), if_neg (by omega)]
          congr 1; omega
        rw [if_neg h1, if_pos h1', if_pos ⟨by omega, hso⟩, hsv, List.nil_append]
      · have : ¬ (v ≠ 255 ∧ streamOf l v = s) := by
          intro ⟨_, h⟩; unfold streamOf at h; split at h <;> omega
        rw [if_neg h1, if_neg h1', if_neg this, List.append_nil]
  · simp only [hc, if_false, filter_scanAll, Nat.zero_le, true_and, Nat.sub_zero, hv, Option.some.injEq]
    by_cases h1 : v = s + l.nbCoupled
    · have hso : streamOf l v = s := by unfold streamOf; rw [if_neg (by omega)]; omega
      have hsv : srcOfValue l v = .mono s := by
        unfold srcOfValue
        rw [if_neg (by omega), if_neg (by omega)]
        congr 1; omega
      rw [if_pos h1, if_pos ⟨by omega, hso⟩, hsv]
    · have : ¬ (v ≠ 255 ∧ streamOf l v = s) := by
        intro ⟨_, h⟩; unfold streamOf at h; split at h <;> omega
      rw [if_neg h1, if_neg this]

/-! ### the stream loop on its success path -/

/-- Calls made from stream `s` on, when every remaining stream decodes successfully. -/
def tailCalls (l : ChannelLayout) : List StreamRet → Nat → Int → List Call
  | [], _, fs => mutedCalls fs l.chans 0
  | r :: rest, s, _ => streamCalls l s r.ret ++ tailCalls l rest (s + 1) r.ret

/-- The `frame_size` left after the loop: the last stream's return value. -/
def finalFs : List StreamRet → Int → Int
  | [], fs => fs
  | r :: rest, _ => finalFs rest r.ret

theorem routeLoop_success (l : ChannelLayout) (doPlc : Bool) : ∀ (rets : List StreamRet) (s : Nat) (len fs : Int)
    (acc : List Call), (routeLoop l doPlc rets s len fs acc).ret > 0 →
    (routeLoop l doPlc rets s len fs acc).calls = acc ++ tailCalls l rets s fs ∧
    (routeLoop l doPlc rets s len fs acc).ret = finalFs rets fs ∧ ∀ r ∈ rets, r.ret > 0
  | [], s, len, fs, acc, _ => by simp [routeLoop, tailCalls, finalFs, ChannelLayout.chans]
  | r :: rest, s, len, fs, acc, h => by
    unfold routeLoop at h ⊢
    by_cases h1 : (!doPlc) = true ∧ len ≤ 0
    · simp only [h1, and_self, if_true, Err.code] at h; omega
    · simp only [h1, if_false] at h ⊢
      by_cases h2 : r.ret ≤ 0
      · simp only [h2, if_true] at h; omega
      · simp only [h2, if_false] at h ⊢
        have ih := routeLoop_success l doPlc rest (s + 1) _ r.ret _ h
        refine ⟨?_, ?_, ?_⟩
        · rw [ih.1, tailCalls, List.append_assoc]
        · rw [ih.2.1, finalFs]
        · intro r' hr'
          rcases List.mem_cons.1 hr' with e | e
          · subst e; omega
          · exact ih.2.2 r' e

/-- The return value of the stream that feeds a non-muted channel, `none` for streams outside the
    range handled by the remaining loop iterations. -/
def retOf (rets : List StreamRet) (s0 s : Nat) : Option Int :=
  if s0 ≤ s then (rets[s - s0]?).map (·.ret) else none

theorem filter_tailCalls (l : ChannelLayout) (c v : Nat)
    (h255 : l.nbStreams + l.nbCoupled ≤ 255) (hcs : l.nbCoupled ≤ l.nbStreams)
    (hv : l.chans[c]? = some v) : ∀ (rets : List StreamRet) (s0 : Nat) (fs : Int),
    s0 + rets.length ≤ l.nbStreams →
    (tailCalls l rets s0 fs).filter (fun k => k.chan = c) =
      (if v ≠ 255 then
        match retOf rets s0 (streamOf l v) with
        | some r => [{ chan := c, src := srcOfValue l v, frameSize := r }]
        | none => []
       else []) ++
      (if v = 255 then [{ chan := c, src := .zero, frameSize := finalFs rets fs }] else [])
  | [], s0, fs, _ => by
    simp only [tailCalls, filter_mutedCalls, Nat.zero_le, true_and, Nat.sub_zero, hv, Option.some.injEq, finalFs,
      retOf, List.getElem?_nil, Option.map_none]
    by_cases h : v = 255 <;> simp [h]
  | r :: rest, s0, fs, hlen => by
    simp only [List.length_cons] at hlen
    rw [tailCalls, List.filter_append, filter_streamCalls l s0 c v r.ret h255 hcs (by omega) hv,
      filter_tailCalls l c v h255 hcs hv rest (s0 + 1) r.ret (by omega), finalFs]
    by_cases h : v = 255
    · simp [h]
    · simp only [h, ne_eq, not_false_eq_true, true_and, if_true, if_false, List.append_nil]
      unfold retOf
      by_cases he : streamOf l v = s0
      · have h1 : ¬ (s0 + 1 ≤ s0) := by omega
        simp [he, h1]
      · by_cases hlt : s0 + 1 ≤ streamOf l v
        · have h1 : s0 ≤ streamOf l v := by omega
          have e : streamOf l v - s0 = (streamOf l v - (s0 + 1)) + 1 := by omega
          simp only [he, if_false, hlt, if_true, h1, e, List.getElem?_cons_succ, List.nil_append]
        · have h1 : ¬ s0 ≤ streamOf l v := by omega
          simp only [he, if_false, hlt, h1, List.nil_append]

/-! ### the routing theorem -/

/-- Number of samples copied from a source: the return value of that stream's decoder, or the final
    `frame_size` for a muted channel. -/
def srcFrame (rets : List StreamRet) (final : Int) : Src → Int
  | .left s => ((rets[s]?).map (·.ret)).getD 0
  | .right s => ((rets[s]?).map (·.ret)).getD 0
  | .mono s => ((rets[s]?).map (·.ret)).getD 0
  | .zero => final

theorem srcFrame_srcOfValue (l : ChannelLayout) (rets : List StreamRet) (final : Int) (v : Nat) (h : v ≠ 255) :
    srcFrame rets final (srcOfValue l v) = ((rets[streamOf l v]?).map (·.ret)).getD 0 := by
  unfold srcOfValue streamOf
  rw [if_neg h]
  split
  · split <;> rfl
  · rfl

theorem mem_scanAll (target : Nat) (src : Src) (fs : Int) (k : Call) : ∀ (xs : List Nat) (i : Nat),
    k ∈ scanAll target src fs xs i → i ≤ k.chan ∧ k.chan < i + xs.length
  | [], _, h => by simp [scanAll] at h
  | x :: xs, i, h => by
    unfold scanAll at h
    simp only [List.length_cons]
    split at h
    · rcases List.mem_cons.1 h with e | e
      · subst e; simp only; omega
      · have := mem_scanAll target src fs k xs (i + 1) e; omega
    · have := mem_scanAll target src fs k xs (i + 1) h; omega

theorem mem_mutedCalls (fs : Int) (k : Call) : ∀ (xs : List Nat) (i : Nat),
    k ∈ mutedCalls fs xs i → i ≤ k.chan ∧ k.chan < i + xs.length
  | [], _, h => by simp [mutedCalls] at h
  | x :: xs, i, h => by
    unfold mutedCalls at h
    simp only [List.length_cons]
    split at h
    · rcases List.mem_cons.1 h with e | e
      · subst e; simp only; omega
      · have := mem_mutedCalls fs k xs (i + 1) e; omega
    · have := mem_mutedCalls fs k xs (i + 1) h; omega

theorem chans_length_le (l : ChannelLayout) : l.chans.length ≤ l.nbChannels := by
  unfold ChannelLayout.chans; simp only [List.length_take]; omega

theorem mem_tailCalls (l : ChannelLayout) (k : Call) : ∀ (rets : List StreamRet) (s0 : Nat) (fs : Int),
    k ∈ tailCalls l rets s0 fs → k.chan < l.nbChannels
  | [], _, fs, h => by
    have := mem_mutedCalls fs k _ _ h
    have := chans_length_le l; omega
  | r :: rest, s0, fs, h => by
    rw [tailCalls] at h
    rcases List.mem_append.1 h with h | h
    · rw [streamCalls_eq] at h
      have hl := chans_length_le l
      split at h
      · rcases List.mem_append.1 h with h | h <;> have := mem_scanAll _ _ _ k _ _ h <;> omega
      · have := mem_scanAll _ _ _ k _ _ h; omega
    · exact mem_tailCalls l k rest (s0 + 1) r.ret h

/-- Main routing lemma: on the success path of the stream loop each output channel receives exactly
    one copy call, whose source is the one its mapping byte designates. -/
theorem routing_calls (l : ChannelLayout) (doPlc : Bool) (rets : List StreamRet) (len fs : Int)
    (hvalid : validateLayout l = true) (hcs : l.nbCoupled ≤ l.nbStreams)
    (hmap : l.nbChannels ≤ l.mapping.length) (hlen : rets.length = l.nbStreams)
    (hok : (routeLoop l doPlc rets 0 len fs []).ret > 0) (c : Nat) (hc : c < l.nbChannels) :
    (routeLoop l doPlc rets 0 len fs []).calls.filter (fun k => k.chan = c) =
      [{ chan := c, src := expectedSrc l c,
         frameSize := srcFrame rets (routeLoop l doPlc rets 0 len fs []).ret (expectedSrc l c) }] := by
  obtain ⟨hcalls, hret, _⟩ := routeLoop_success l doPlc rets 0 len fs [] hok
  obtain ⟨h255, hvals⟩ := (validateLayout_iff l).1 hvalid
  have hclen : c < l.chans.length := by
    unfold ChannelLayout.chans; simp only [List.length_take]; omega
  have hv : l.chans[c]? = some l.chans[c] := List.getElem?_eq_getElem hclen
  generalize hvdef : l.chans[c] = v at hv
  have hvv : v < l.nbStreams + l.nbCoupled ∨ v = 255 := by
    rw [← hvdef]; exact hvals _ (List.getElem_mem hclen)
  rw [hcalls, List.nil_append, filter_tailCalls l c v h255 hcs hv rets 0 fs (by omega),
    expectedSrc_eq l c v hv, hret]
  by_cases h : v = 255
  · subst h
    simp [srcOfValue, srcFrame]
  · have hso : streamOf l v < l.nbStreams := by
      unfold streamOf; split <;> omega
    have hr : retOf rets 0 (streamOf l v) = some (rets[streamOf l v]'(by omega)).ret := by
      unfold retOf
      simp only [Nat.zero_le, if_true, Nat.sub_zero]
      rw [List.getElem?_eq_getElem (by omega)]; rfl
    rw [if_pos h, if_neg h, hr, List.append_nil, srcFrame_srcOfValue l rets _ v h,
      List.getElem?_eq_getElem (by omega)]
    rfl

theorem routing_in_range (l : ChannelLayout) (doPlc : Bool) (rets : List StreamRet) (len fs : Int)
    (hok : (routeLoop l doPlc rets 0 len fs []).ret > 0) :
    ∀ k ∈ (routeLoop l doPlc rets 0 len fs []).calls, k.chan < l.nbChannels := by
  obtain ⟨hcalls, _, _⟩ := routeLoop_success l doPlc rets 0 len fs [] hok
  intro k hk
  rw [hcalls, List.nil_append] at hk
  exact mem_tailCalls l k rets 0 fs hk

theorem expectedSrc_zero_iff (l : ChannelLayout) (c : Nat) (hc : c < l.nbChannels)
    (hmap : l.nbChannels ≤ l.mapping.length) :
    expectedSrc l c = .zero ↔ l.mapping[c]? = some 255 := by
  have hcl : c < l.mapping.length := by omega
  unfold expectedSrc
  simp only [List.getD_eq_getElem?_getD, List.getElem?_eq_getElem hcl, Option.getD_some, Option.some.injEq]
  constructor
  · intro h
    split at h
    · assumption
    · split at h
      · split at h <;> cases h
      · cases h
  · intro h; rw [if_pos h]

end Opus.Layout
