import OpusProofs.EncSkelWfPad
/-
  OpusProofs.EncSkelWfLow — the low-budget ToC-only / code-3 PLC packet (opus_encoder.c:1270-1332), unpadded and
  padded by `opus_packet_pad` on the C07 model.
-/
namespace Opus.EncSkel.WfProofs
open Opus Opus.Framing Opus.FramingSpec Opus.Repack Opus.RepackProofs
open Opus.EncSkel Opus.EncSkel.Proofs Opus.EncDecide

/-- The (empty) frames of the ToC-only packet. -/
def lowFrames (s : St) (fsz out : Int) : List Bytes := List.replicate (lowLens s fsz out).length []

theorem lowFrames_lens (s : St) (fsz out : Int) : (lowFrames s fsz out).map List.length = lowLens s fsz out := by
  unfold lowFrames lowLens
  simp

theorem low_wf (s : St) (fsz out : Int)
    (hfs : s.fs = 8000 ∨ s.fs = 12000 ∨ s.fs = 16000 ∨ s.fs = 24000 ∨ s.fs = 48000)
    (hlg : legalFrame s.fs fsz = true)
    (hmode : s.mode = 0 ∨ (EncDecide.MODE_SILK_ONLY ≤ s.mode ∧ s.mode ≤ EncDecide.MODE_CELT_ONLY))
    (hbw : BW_NB ≤ s.bandwidth ∧ s.bandwidth ≤ BW_FB)
    (hch : s.streamChannels = 1 ∨ s.streamChannels = 2)
    (hne : ¬ (out = 1 ∧ s.fs = fsz * 10)) (hfr : 1 ≤ s.fs / fsz) :
    (∃ v, parseImpl false (lowHdr0 s fsz out) = .ok v ∧ v.sizes = lowLens s fsz out ∧
      (v.count : Int) * samplesPerFrame v.toc s.fs.toNat = fsz ∧ v.toc / 4 * 4 = (lowBudgetToc s fsz out).1 ∧
      (v.packetOffset : Int) = lowRet0 s fsz out ∧ ((lowHdr0 s fsz out).length : Int) = lowRet0 s fsz out) ∧
    (∀ m : Int, lowRet0 s fsz out < m →
      ∃ r, padSpec (lowBudgetToc s fsz out).1 (lowLens s fsz out) (lowRet0 s fsz out) m = (OPUS_OK, some r) ∧
        packetPad (lowHdr0 s fsz out) m = .ok (pktBytes r.hdr (lowFrames s fsz out) r.size) ∧
        ∃ v, parseImpl false (pktBytes r.hdr (lowFrames s fsz out) r.size) = .ok v ∧ v.sizes = lowLens s fsz out ∧
          (v.count : Int) * samplesPerFrame v.toc s.fs.toNat = fsz ∧ v.toc / 4 * 4 = (lowBudgetToc s fsz out).1 ∧
          (v.packetOffset : Int) = m ∧ ((pktBytes r.hdr (lowFrames s fsz out) r.size).length : Int) = m) := by
  obtain ⟨f1, f2, f3, f4, f5⟩ := lowToc_wf s fsz out hfs hlg hmode hbw hch hne
  obtain ⟨hlne, hall, hbase⟩ := lowLens_spec s fsz out hfr
  have hfl := lowFrames_lens s fsz out
  have hflat : (lowFrames s fsz out).flatten = [] := by
    unfold lowFrames; simp
  have hspf : ∀ v : Parsed, v.toc / 4 * 4 = (lowBudgetToc s fsz out).1 →
      samplesPerFrame v.toc s.fs.toNat = samplesPerFrame (lowBudgetToc s fsz out).1 s.fs.toNat := by
    intro v hv
    unfold samplesPerFrame
    have e1 : v.toc / 128 = (lowBudgetToc s fsz out).1 / 128 := by omega
    have e2 : v.toc / 32 = (lowBudgetToc s fsz out).1 / 32 := by omega
    have e3 : v.toc / 8 = (lowBudgetToc s fsz out).1 / 8 := by omega
    rw [e1, e2, e3]
  have hr0 : 1 ≤ lowRet0 s fsz out := by unfold lowRet0; split <;> omega
  -- the unpadded packet
  have hsubeq : subPkt (lowBudgetToc s fsz out).1 (lowFrames s fsz out, baseSize ((lowFrames s fsz out).map List.length), false) =
      lowHdr0 s fsz out := by
    unfold subPkt
    simp only []
    rw [hfl]
    have hb : baseSize (lowLens s fsz out) = (lowRet0 s fsz out).toNat := by omega
    rw [hb, f5]
    simp only [pktBytes, hflat, List.append_nil, List.length_nil, Nat.sub_zero]
    have hle := outRange_hdr_le _ _ _ _ _ f5
    simp only at hle
    have : (lowRet0 s fsz out).toNat - (lowHdr0 s fsz out).length = 0 := by
      have hl : (lowHdr0 s fsz out).length = (lowRet0 s fsz out).toNat := by
        unfold lowHdr0 lowRet0
        rcases lowCode_cases s fsz out with h | h | ⟨h, _⟩ <;> rw [h] <;> simp
      omega
    rw [this]; simp
  have hhl : ((lowHdr0 s fsz out).length : Int) = lowRet0 s fsz out := by
    unfold lowHdr0 lowRet0
    rcases lowCode_cases s fsz out with h | h | ⟨h, _⟩ <;> rw [h] <;> simp
  refine ⟨?_, ?_⟩
  · obtain ⟨v, hv, hs, hc, ht, hpo⟩ := outRange_parses _ _ _ _ _ (lowFrames s fsz out) hfl f1 f2 hall f3 f5
    have hpb : pktBytes (lowHdr0 s fsz out) (lowFrames s fsz out) (lowRet0 s fsz out).toNat = lowHdr0 s fsz out := by
      simp only [pktBytes, hflat, List.append_nil, List.length_nil, Nat.sub_zero]
      have : (lowRet0 s fsz out).toNat - (lowHdr0 s fsz out).length = 0 := by omega
      rw [this]; simp
    simp only at hv hpo
    rw [hpb] at hv hpo
    refine ⟨v, hv, hs, ?_, ht, by rw [hpo]; exact hhl, hhl⟩
    rw [hspf v ht, hc]; exact f4
  · intro m hm
    have h8 := (frameDur48_spf8 (lowBudgetToc s fsz out).1 (List.mem_range.mpr f2)).1
    have hdur : (lowFrames s fsz out).length * samplesPerFrame (lowBudgetToc s fsz out).1 8000 ≤ 960 := by
      have : (lowFrames s fsz out).length = (lowLens s fsz out).length := by unfold lowFrames; simp
      rw [this]; rw [h8] at f3
      have : 6 * ((lowLens s fsz out).length * samplesPerFrame (lowBudgetToc s fsz out).1 8000) ≤ 5760 := by
        rw [Nat.mul_comm ((lowLens s fsz out).length), ← Nat.mul_assoc]; exact f3
      omega
    have hfne : lowFrames s fsz out ≠ [] := by
      intro h; apply hlne; rw [← hfl, h]; rfl
    have hle : ∀ f ∈ lowFrames s fsz out, f.length ≤ 1275 := by
      intro f hf; unfold lowFrames at hf; rw [List.mem_replicate] at hf; rw [hf.2]; simp
    obtain ⟨_, _, _, hpad⟩ := padSpec_model (lowBudgetToc s fsz out).1 (lowFrames s fsz out) f1 f2 hfne hle hdur m
    rw [hfl] at hpad
    obtain ⟨r, hr, hrs, hps, hpp⟩ := hpad (by omega)
    rw [hfl] at hsubeq
    rw [hsubeq] at hpp
    rw [hbase] at hps
    refine ⟨r, hps, hpp, ?_⟩
    obtain ⟨v, hv, hs, hc, ht, hpo⟩ := outRange_parses _ _ _ _ _ (lowFrames s fsz out) hfl f1 f2 hall f3 hr
    have hlen := pktBytes_length _ _ _ _ r (lowFrames s fsz out) hfl hr
    refine ⟨v, hv, hs, ?_, ht, by rw [hpo, hlen]; exact hrs, by rw [hlen]; exact hrs⟩
    rw [hspf v ht, hc]; exact f4

end Opus.EncSkel.WfProofs
