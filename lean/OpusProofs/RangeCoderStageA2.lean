import OpusProofs.RangeCoderStageA
/-
  OpusProofs.RangeCoderStageA2 — C08 Stage A, statements in the form used by OpusProps.C08.
-/
namespace Opus.RangeCoder

instance (c : Ctx) : Decidable (RngOk c) := by unfold RngOk; infer_instance

/-- One encoder operation: `rng` stays normalised and `(rng, nbits_total)` advances. -/
theorem encOp_stageA (c : Enc) (op : Op) (hr : RngOk c) (hl : op.Legal) :
    RngOk (encOp c op) ∧ Adv c.rng c.nbitsTotal (encOp c op).rng (encOp c op).nbitsTotal := by
  have h := encOp_rn c op hr hl
  have s := Op.rn_spec op hl c.nbitsTotal hr.1 hr.2
  rw [← h] at s
  exact ⟨⟨s.1, s.2.1⟩, s.2.2⟩

theorem encOp_tell_mono (c : Enc) (op : Op) (hr : RngOk c) (hl : op.Legal) (hn : 33 ≤ c.nbitsTotal)
    (hn2 : (encOp c op).nbitsTotal < 536870912) :
    tell c ≤ tell (encOp c op) ∧ tellFrac c ≤ tellFrac (encOp c op) := by
  obtain ⟨h1, h2⟩ := encOp_stageA c op hr hl
  exact ⟨tell_mono_of_adv hr h1 h2, tellFrac_mono_of_adv hr h1 hn hn2 h2⟩

theorem encInit_rngOk (buf : List Nat) (size : Nat) : RngOk (encInit buf size) := by
  unfold RngOk encInit; simp

theorem tell_eq_of_rn {c c' : Ctx} (h1 : c.rng = c'.rng) (h2 : c.nbitsTotal = c'.nbitsTotal) :
    tell c = tell c' ∧ tellFrac c = tellFrac c' := by
  unfold tell tellFrac; rw [h1, h2]; exact ⟨rfl, rfl⟩

/-- `ec_tell_frac` written with the reference (squaring) fractional bits. -/
theorem tellFrac_formula (c : Ctx) (hr : 32768 ≤ c.rng) :
    tellFrac c = sub32 (u32 (c.nbitsTotal * 8))
      (ilog c.rng * 8 + fracSquare (c.rng / 2 ^ (ilog c.rng - 16))) := by
  obtain ⟨a, b⟩ := top16_bounds hr
  rw [tellFrac_eq, fbits, (frac_facts a b).1]

end Opus.RangeCoder
