import OpusProofs.CtlMs
/-
  OpusProofs.CtlSurround — which (Fs, channels, family, application) the surround and the
  projection (ambisonics) encoder constructors accept, with the error kinds; projection encoder
  ctl (helper lemmas of property C11).  The layouts themselves (that they are the RFC 7845 /
  RFC 8486 layouts) are property C10's `surround_layout_valid` / `projection_layout_valid`.
-/
namespace Opus.Ctl
open Opus Opus.EncDecide

/-! ### Surround (mapping families 0, 1, 2, 255) -/

/-- RFC 8486 §3.1: `n²` or `n² + 2` channels for an order+1 `n` in 1..15 (at most 227). -/
def ambiB (ch : Nat) : Bool := (List.range 16).any fun k => decide (1 ≤ k) && (ch == k * k || ch == k * k + 2) && decide (ch ≤ 227)

/-- Channel counts for which a mapping family defines a layout (RFC 7845 §5.1.1, RFC 8486 §3.1). -/
def surroundLegalB (ch : Nat) (fam : Int) : Bool :=
  (fam == 0 && (ch == 1 || ch == 2)) || (fam == 1 && decide (1 ≤ ch ∧ ch ≤ 8)) || (fam == 255 && decide (1 ≤ ch ∧ ch ≤ 255)) ||
  (fam == 2 && ambiB ch)

/-- The checks of `opus_multistream_encoder_init_impl` that depend on the layout only. -/
def layoutPasses (ch : Int) (l : Int × Int × List Nat) (amb : Bool) : Bool :=
  msEncArgsOk ch l.1 l.2.1 && validateLayout ch l.1 l.2.1 l.2.2 && validateEncoderLayout ch l.1 l.2.1 l.2.2 &&
  (!amb || (validateAmbisonics ch).isSome)

theorem msEncInit_of_passes {fs ch st cp : Int} {mp : List Nat} {app : Int} {sur amb : Bool} {lfe : Int}
    (h : layoutPasses ch (st, cp, mp) amb = true) :
    msEncInit fs ch st cp mp app sur amb lfe =
      if (validFs fs && validApp app) = true then
        .ok { nbChannels := ch, nbStreams := st, nbCoupled := cp, bitrateBps := OPUS_AUTO, variableDuration := FRAMESIZE_ARG,
              application := app, lfeStream := lfe, surround := sur, ambisonics := amb,
              streams := msStreams fs st cp app lfe }
      else .err .badArg := by
  simp only [layoutPasses, Bool.and_eq_true, Bool.or_eq_true, Bool.not_eq_true'] at h
  obtain ⟨⟨⟨h1, h2⟩, h3⟩, h4⟩ := h
  unfold msEncInit
  have h4' : ¬ (amb = true ∧ (validateAmbisonics ch).isNone = true) := by
    rintro ⟨ha, hn⟩
    rcases h4 with h4 | h4
    · rw [ha] at h4; cases h4
    · cases hv : validateAmbisonics ch <;> simp [hv] at h4 hn
  simp only [h1, h2, h3, Bool.not_true, Bool.false_eq_true, ite_false, h4']
  by_cases hf : (validFs fs && validApp app) = true
  · simp [hf]
  · have : (validFs fs && validApp app) = false := by cases h : (validFs fs && validApp app) <;> simp_all
    simp [this]

/-- For every family in {0, 1, 2, 255} and every channel count 1..255: the layout exists exactly for
    the legal counts and then passes every layout check of the multistream encoder. -/
def surroundTable (fam : Int) (lo hi : Nat) : Bool :=
  (List.range (hi - lo)).all fun i =>
    let n := lo + i
    n == 0 ||
    (match surroundLayout (n : Int) fam with
     | .ok l => surroundLegalB n fam && layoutPasses (n : Int) l (fam == 2)
     | .err _ => !surroundLegalB n fam
     | _ => false)

theorem surroundTable_0 : surroundTable 0 0 256 = true := by decide +kernel
theorem surroundTable_1 : surroundTable 1 0 256 = true := by decide +kernel
theorem surroundTable_2 : surroundTable 2 0 256 = true := by decide +kernel
theorem surroundTable_255a : surroundTable 255 0 96 = true := by decide +kernel
theorem surroundTable_255b : surroundTable 255 96 160 = true := by decide +kernel
theorem surroundTable_255c : surroundTable 255 160 208 = true := by decide +kernel
theorem surroundTable_255d : surroundTable 255 208 256 = true := by decide +kernel

theorem surroundTable_get {fam : Int} {lo hi n : Nat} (h : surroundTable fam lo hi = true) (h1 : lo ≤ n) (h2 : n < hi) (h0 : 1 ≤ n) :
    (match surroundLayout (n : Int) fam with
     | .ok l => surroundLegalB n fam && layoutPasses (n : Int) l (fam == 2)
     | .err _ => !surroundLegalB n fam
     | _ => false) = true := by
  simp only [surroundTable, List.all_eq_true, List.mem_range] at h
  have := h (n - lo) (by omega)
  have e : lo + (n - lo) = n := by omega
  simp only [e, Bool.or_eq_true, beq_iff_eq] at this
  rcases this with h | h
  · omega
  · exact h

theorem surround_entry (fam : Int) (hf : fam = 0 ∨ fam = 1 ∨ fam = 2 ∨ fam = 255) (n : Nat) (h1 : 1 ≤ n) (h2 : n ≤ 255) :
    (match surroundLayout (n : Int) fam with
     | .ok l => surroundLegalB n fam && layoutPasses (n : Int) l (fam == 2)
     | .err _ => !surroundLegalB n fam
     | _ => false) = true := by
  rcases hf with rfl | rfl | rfl | rfl
  · exact surroundTable_get surroundTable_0 (by omega) (by omega) h1
  · exact surroundTable_get surroundTable_1 (by omega) (by omega) h1
  · exact surroundTable_get surroundTable_2 (by omega) (by omega) h1
  · by_cases a : n < 96
    · exact surroundTable_get surroundTable_255a (by omega) a h1
    · by_cases b : n < 160
      · exact surroundTable_get surroundTable_255b (by omega) b h1
      · by_cases c : n < 208
        · exact surroundTable_get surroundTable_255c (by omega) c h1
        · exact surroundTable_get surroundTable_255d (by omega) (by omega) h1

theorem surroundLayout_other (ch fam : Int) (hf : fam ≠ 0 ∧ fam ≠ 1 ∧ fam ≠ 2 ∧ fam ≠ 255) :
    surroundLayout ch fam = .err .unimplemented := by
  unfold surroundLayout
  simp [hf.1, hf.2.1, hf.2.2.1, hf.2.2.2]

/-- `opus_multistream_surround_encoder_create`: the full acceptance table. -/
theorem msSurroundCreate_spec (fs ch fam app : Int) (allocOk : Bool) :
    (ch < 1 ∨ ch > 255 → msSurroundCreate fs ch fam app allocOk = .err .badArg) ∧
    (1 ≤ ch ∧ ch ≤ 255 → surroundLegalB ch.toNat fam = false →
        msSurroundCreate fs ch fam app allocOk = .err .unimplemented) ∧
    (1 ≤ ch ∧ ch ≤ 255 → surroundLegalB ch.toNat fam = true → allocOk = false →
        msSurroundCreate fs ch fam app allocOk = .err .allocFail) ∧
    (1 ≤ ch ∧ ch ≤ 255 → surroundLegalB ch.toNat fam = true → allocOk = true → (validFs fs && validApp app) = false →
        msSurroundCreate fs ch fam app allocOk = .err .badArg) ∧
    (1 ≤ ch ∧ ch ≤ 255 → surroundLegalB ch.toNat fam = true → allocOk = true → (validFs fs && validApp app) = true →
        ∃ s st cp mp, msSurroundCreate fs ch fam app allocOk = .ok (s, st, cp, mp) ∧
          surroundLayout ch fam = .ok (st, cp, mp) ∧ s.streams = msStreams fs st cp app (if fam = 1 ∧ ch ≥ 6 then st - 1 else -1)) := by
  have hrange : ¬ (ch > 255 ∨ ch < 1) → ch = ((ch.toNat : Nat) : Int) ∧ 1 ≤ ch.toNat ∧ ch.toNat ≤ 255 := by
    intro h; omega
  refine ⟨?_, ?_, ?_, ?_, ?_⟩
  · intro h
    unfold msSurroundCreate
    rw [if_pos (by omega)]
  all_goals
    intro hc hl
    have hnr : ¬ (ch > 255 ∨ ch < 1) := by omega
    obtain ⟨hcn, h1, h2⟩ := hrange hnr
    unfold msSurroundCreate
    rw [if_neg hnr]
    by_cases hfam : fam = 0 ∨ fam = 1 ∨ fam = 2 ∨ fam = 255
    · have hent := surround_entry fam hfam ch.toNat h1 h2
      rw [← hcn] at hent
      cases hsl : surroundLayout ch fam with
      | err e =>
        rw [hsl] at hent
        first
        | rfl
        | (simp only [Bool.not_eq_true'] at hent; rw [hent] at hl; cases hl)
      | oob => rw [hsl] at hent; cases hent
      | abort => rw [hsl] at hent; cases hent
      | ok l =>
        rw [hsl] at hent
        obtain ⟨st, cp, mp⟩ := l
        simp only [Bool.and_eq_true] at hent
        first
        | (rw [hent.1] at hl; cases hl)
        | (intro ha; subst ha; rfl)
        | (intro ha hv; subst ha
           simp only [Bool.not_true, Bool.false_eq_true, ite_false]
           rw [msEncInit_of_passes (by simpa using hent.2), if_neg (by simp [hv])])
        | (intro ha hv; subst ha
           simp only [Bool.not_true, Bool.false_eq_true, ite_false]
           rw [msEncInit_of_passes (by simpa using hent.2), if_pos hv]
           exact ⟨_, st, cp, mp, rfl, rfl, rfl⟩)
    · have hother : fam ≠ 0 ∧ fam ≠ 1 ∧ fam ≠ 2 ∧ fam ≠ 255 := by omega
      rw [surroundLayout_other ch fam hother]
      first
      | rfl
      | (exfalso
         have : surroundLegalB ch.toNat fam = false := by
           simp [surroundLegalB, hother.1, hother.2.1, hother.2.2.1, hother.2.2.2]
         rw [this] at hl; cases hl)

/-! ### Projection (mapping family 3) -/

/-- Channel counts with a built-in mixing matrix: order 1..5, with or without the non-diegetic pair. -/
def projLegalB (ch : Nat) : Bool := [4, 6, 9, 11, 16, 18, 25, 27, 36, 38].contains ch

/-- Everything `opus_projection_ambisonics_encoder_create` checks that depends on the channel count
    only: order, built-in matrix, matrix dimensions, and the layout checks of the multistream init. -/
def projPasses (ch : Int) : Bool :=
  match projOrderPlusOne ch with
  | none => false
  | some o =>
    projMatrixDim o ≠ 0 && !(decide ((ch + 1) / 2 + ch / 2 > projMatrixDim o ∨ ch > projMatrixDim o)) &&
    layoutPasses ch ((ch + 1) / 2, ch / 2, List.range ch.toNat) false

def projTable : Bool :=
  (List.range 260).all fun n =>
    (projPasses (n : Int) == projLegalB n) &&
    (projLegalB n || (match projOrderPlusOne (n : Int) with | none => true | some o => projMatrixDim o == 0))

theorem projTable_true : projTable = true := by decide +kernel

theorem projOrderPlusOne_big (ch : Int) (h : ch < 1 ∨ ch > 227) : projOrderPlusOne ch = none := by
  unfold projOrderPlusOne; rw [if_pos h]

/-- `opus_projection_ambisonics_encoder_create`: the full acceptance table.  A refused family or
    channel count makes `_get_size` return 0, which the code reports as OPUS_ALLOC_FAIL. -/
theorem projEncCreate_spec (fs ch fam app : Int) (allocOk : Bool) :
    let legal := fam = 3 ∧ 0 ≤ ch ∧ projLegalB ch.toNat = true
    (¬ legal → projEncCreate fs ch fam app allocOk = .err .allocFail) ∧
    (legal → allocOk = false → projEncCreate fs ch fam app allocOk = .err .allocFail) ∧
    (legal → allocOk = true → (validFs fs && validApp app) = false → projEncCreate fs ch fam app allocOk = .err .badArg) ∧
    (legal → allocOk = true → (validFs fs && validApp app) = true →
        ∃ s, projEncCreate fs ch fam app allocOk = .ok (s, (ch + 1) / 2, ch / 2) ∧
          s.ms.streams = msStreams fs ((ch + 1) / 2) (ch / 2) app (-1) ∧ s.ms.nbChannels = ch) := by
  intro legal
  have ht := projTable_true
  simp only [projTable, List.all_eq_true, List.mem_range, Bool.and_eq_true, beq_iff_eq, Bool.or_eq_true] at ht
  -- facts about this channel count
  have hfacts : (0 ≤ ch ∧ ch < 260 → projPasses ch = projLegalB ch.toNat ∧
      (projLegalB ch.toNat = true ∨ (match projOrderPlusOne ch with | none => True | some o => projMatrixDim o = 0))) := by
    intro h
    have := ht ch.toNat (by omega)
    have e : ((ch.toNat : Nat) : Int) = ch := by omega
    rw [e] at this
    refine ⟨this.1, ?_⟩
    rcases this.2 with h2 | h2
    · exact Or.inl h2
    · right
      cases ho : projOrderPlusOne ch with
      | none => trivial
      | some o => rw [ho] at h2; simpa using h2
  refine ⟨?_, ?_, ?_, ?_⟩
  · intro hn
    unfold projEncCreate
    by_cases hf : fam = 3
    · rw [if_neg (by omega)]
      by_cases hr : 0 ≤ ch ∧ ch < 260
      · obtain ⟨hp, hz⟩ := hfacts hr
        have hnl : projLegalB ch.toNat = false := by
          cases hb : projLegalB ch.toNat with
          | false => rfl
          | true => exact absurd ⟨hf, hr.1, hb⟩ hn
        rw [hnl] at hz
        cases ho : projOrderPlusOne ch with
        | none => rfl
        | some o =>
          rw [ho] at hz
          rcases hz with hz | hz
          · cases hz
          · simp only [hz, ite_true]
      · rw [projOrderPlusOne_big ch (by omega)]
    · rw [if_pos hf]
  all_goals
    intro ⟨hf, h0, hb⟩
    have hlt : ch < 260 := by
      simp only [projLegalB, List.contains_iff_mem, List.mem_cons, List.mem_nil_iff, or_false] at hb
      omega
    obtain ⟨hp, _⟩ := hfacts ⟨h0, hlt⟩
    rw [hb] at hp
    unfold projPasses at hp
    unfold projEncCreate
    rw [if_neg (by omega)]
    cases ho : projOrderPlusOne ch with
    | none => rw [ho] at hp; cases hp
    | some o =>
      rw [ho] at hp
      simp only [Bool.and_eq_true, Bool.not_eq_true', decide_eq_false_iff_not, bne_iff_ne, ne_eq, decide_eq_true_eq] at hp
      obtain ⟨⟨hd, hsz⟩, hlp⟩ := hp
      simp only [hd, ite_false]
      first
      | (intro ha; subst ha; rfl)
      | (intro ha hv; subst ha
         simp only [Bool.not_true, Bool.false_eq_true, ite_false, hsz]
         rw [msEncInit_of_passes hlp, if_neg (by simp [hv])])
      | (intro ha hv; subst ha
         simp only [Bool.not_true, Bool.false_eq_true, ite_false, hsz]
         rw [msEncInit_of_passes hlp, if_pos hv]
         exact ⟨_, rfl, rfl, rfl⟩)

/-! ### Projection encoder ctl -/

/-- The three projection requests never change the state; everything else is the multistream ctl. -/
theorem projEncCtl_error_unchanged {s : ProjEncSt} (hi : MsInv s.ms) (r : ProjEncReq) (h : (projEncCtl s r).2.code ≠ 0) :
    (projEncCtl s r).1 = s := by
  cases r with
  | demixSize nn => cases nn <;> rfl
  | demixGain nn => cases nn <;> rfl
  | demixMatrix nn size =>
    simp only [projEncCtl]
    split
    · rfl
    · split <;> rfl
  | ms q =>
    simp only [projEncCtl] at h ⊢
    rw [msEncCtl_error_unchanged hi q h]

theorem projEncCtl_demix (s : ProjEncSt) :
    projEncCtl s (.demixSize true) = (s, .okv (s.ms.nbChannels * (s.ms.nbStreams + s.ms.nbCoupled) * 2)) ∧
    projEncCtl s (.demixGain true) = (s, .okv s.demixGain) ∧
    projEncCtl s (.demixSize false) = (s, .err .badArg) ∧ projEncCtl s (.demixGain false) = (s, .err .badArg) ∧
    (∀ size, projEncCtl s (.demixMatrix false size) = (s, .err .badArg)) ∧
    (∀ size, size ≠ (s.ms.nbStreams + s.ms.nbCoupled) * s.ms.nbChannels * 2 → projEncCtl s (.demixMatrix true size) = (s, .err .badArg)) ∧
    projEncCtl s (.demixMatrix true ((s.ms.nbStreams + s.ms.nbCoupled) * s.ms.nbChannels * 2)) = (s, .ok) := by
  refine ⟨rfl, rfl, rfl, rfl, fun _ => rfl, fun size h => ?_, ?_⟩
  · simp [projEncCtl, h]
  · simp [projEncCtl]

theorem projEncCtl_inv {s : ProjEncSt} (hi : MsInv s.ms) (r : ProjEncReq) : MsInv (projEncCtl s r).1.ms := by
  cases r with
  | demixSize nn => cases nn <;> exact hi
  | demixGain nn => cases nn <;> exact hi
  | demixMatrix nn size =>
    simp only [projEncCtl]
    split
    · exact hi
    · split <;> exact hi
  | ms q => exact msEncCtl_inv hi q

end Opus.Ctl
