import OpusProofs.CtlMs
/-
  OpusProofs.CtlSurround — which (Fs, channels, family, application) the surround and the
  projection (ambisonics) encoder constructors accept, with the error kinds; projection encoder
  ctl (helper lemmas of property C11).  The layouts themselves (that they are the RFC 7845 /
  RFC 8486 layouts) are property C10's `surround_layout_valid` / `projection_layout_valid`.
-/
namespace Opus.Ctl
open Opus Opus.EncDecide

/-! ### Surround (mapping families 0, 1, 2, 255) -/

/-- RFC 8486 §3.1: `n²` or `n² + 2` channels for an order+1 `n` in 1..15 (at most 227). -/
def ambiB (ch : Nat) : Bool := (List.range 16).any fun k => decide (1 ≤ k) && (ch == k * k || ch == k * k + 2) && decide (ch ≤ 227)

/-- Channel counts for which a mapping family defines a layout (RFC 7845 §5.1.1, RFC 8486 §3.1). -/
def surroundLegalB (ch : Nat) (fam : Int) : Bool :=
  (fam == 0 && (ch == 1 || ch == 2)) || (fam == 1 && decide (1 ≤ ch ∧ ch ≤ 8)) || (fam == 255 && decide (1 ≤ ch ∧ ch ≤ 255)) ||
  (fam == 2 && ambiB ch)

/-- The checks of `opus_multistream_encoder_init_impl` that depend on the layout only. -/
def layoutPasses (ch : Int) (l : Int × Int × List Nat) (amb : Bool) : Bool :=
  msEncArgsOk ch l.1 l.2.1 && validateLayout ch l.1 l.2.1 l.2.2 && validateEncoderLayout ch l.1 l.2.1 l.2.2 &&
  (!amb || (validateAmbisonics ch).isSome)

theorem msEncInit_of_passes {fs ch st cp : Int} {mp : List Nat} {app : Int} {sur amb : Bool} {lfe : Int}
    (h : layoutPasses ch (st, cp, mp) amb = true) :
    msEncInit fs ch st cp mp app sur amb lfe =
      if (validFs fs && validApp app) = true then
        .ok { nbChannels := ch, nbStreams := st, nbCoupled := cp, bitrateBps := OPUS_AUTO, variableDuration := FRAMESIZE_ARG,
              application := app, lfeStream := lfe, surround := sur, ambisonics := amb,
              streams := msStreams fs st cp app lfe }
      else .err .badArg := by
  simp only [layoutPasses, Bool.and_eq_true, Bool.or_eq_true, Bool.not_eq_true'] at h
  obtain ⟨⟨⟨h1, h2⟩, h3⟩, h4⟩ := h
  unfold msEncInit
  have h4' : ¬ (amb = true ∧ (validateAmbisonics ch).isNone = true) := by
    rintro ⟨ha, hn⟩
    rcases h4 with h4 | h4
    · rw [ha] at h4; cases h4
    · cases hv : validateAmbisonics ch <;> simp [hv] at h4 hn
  simp only [h1, h2, h3, Bool.not_true, Bool.false_eq_true, ite_false, h4']
  by_cases hf : (validFs fs && validApp app) = true
  · simp [hf]
  · have : (validFs fs && validApp app) = false := by cases h : (validFs fs && validApp app) <;> simp_all
    simp [this]

theorem surroundLayout_other (ch fam : Int) (hf : fam ≠ 0 ∧ fam ≠ 1 ∧ fam ≠ 2 ∧ fam ≠ 255) :
    surroundLayout ch fam = .err .unimplemented := by
  unfold surroundLayout
  simp [hf.1, hf.2.1, hf.2.2.1, hf.2.2.2]

/-- For every family in {0, 1, 2} and every channel count 1..255: the layout exists exactly for
    the legal counts and then passes every layout check of the multistream encoder. -/
def surroundTable (fam : Int) (lo hi : Nat) : Bool :=
  (List.range (hi - lo)).all fun i =>
    let n := lo + i
    n == 0 ||
    (match surroundLayout (n : Int) fam with
     | .ok l => surroundLegalB n fam && layoutPasses (n : Int) l (fam == 2)
     | .err _ => !surroundLegalB n fam
     | _ => false)

theorem surroundTable_0 : surroundTable 0 0 256 = true := by decide +kernel
theorem surroundTable_1 : surroundTable 1 0 256 = true := by decide +kernel
theorem surroundTable_2a : surroundTable 2 0 128 = true := by decide +kernel
theorem surroundTable_2b : surroundTable 2 128 256 = true := by decide +kernel

/-- Family 255 (one mono stream per channel, identity mapping) passes every layout check, for every
    channel count 1..255 — proved in general, not by enumeration. -/
theorem family255_passes (n : Nat) (h1 : 1 ≤ n) (h2 : n ≤ 255) :
    layoutPasses (n : Int) ((n : Int), 0, List.range n) false = true := by
  have htake : (List.range n).take (n : Int).toNat = List.range n := by
    simp
  simp only [layoutPasses, Bool.and_eq_true, Bool.or_eq_true, Bool.not_false, true_or, and_true]
  refine ⟨⟨?_, ?_⟩, ?_⟩
  · simp only [msEncArgsOk, Bool.not_eq_true', decide_eq_false_iff_not]; omega
  · simp only [validateLayout]
    rw [if_neg (by omega), htake]
    simp only [List.all_eq_true, List.mem_range, Bool.not_eq_true', Bool.and_eq_false_iff, decide_eq_false_iff_not]
    intro m hm; left; omega
  · simp only [validateEncoderLayout, List.all_eq_true, List.mem_range]
    intro k hk
    simp only [Int.toNat_natCast] at hk
    rw [if_neg (by omega)]
    simp only [hasChannel, htake, List.any_eq_true, List.mem_range, decide_eq_true_eq]
    exact ⟨k, hk, by omega⟩

theorem surroundTable_get {fam : Int} {lo hi n : Nat} (h : surroundTable fam lo hi = true) (h1 : lo ≤ n) (h2 : n < hi) (h0 : 1 ≤ n) :
    (match surroundLayout (n : Int) fam with
     | .ok l => surroundLegalB n fam && layoutPasses (n : Int) l (fam == 2)
     | .err _ => !surroundLegalB n fam
     | _ => false) = true := by
  simp only [surroundTable, List.all_eq_true, List.mem_range] at h
  have := h (n - lo) (by omega)
  have e : lo + (n - lo) = n := by omega
  simp only [e, Bool.or_eq_true, beq_iff_eq] at this
  rcases this with h | h
  · omega
  · exact h

/-- In range, either the family defines a layout for the count and it passes every check, or it
    defines none and `surroundLayout` refuses. -/
theorem surround_cases (ch fam : Int) (hc : 1 ≤ ch ∧ ch ≤ 255) :
    (surroundLegalB ch.toNat fam = true ∧ ∃ l, surroundLayout ch fam = .ok l ∧ layoutPasses ch l (fam == 2) = true) ∨
    (surroundLegalB ch.toNat fam = false ∧ ∃ e, surroundLayout ch fam = .err e) := by
  have hcn : ch = ((ch.toNat : Nat) : Int) := by omega
  have of_entry : (match surroundLayout ch fam with
     | .ok l => surroundLegalB ch.toNat fam && layoutPasses ch l (fam == 2)
     | .err _ => !surroundLegalB ch.toNat fam
     | _ => false) = true →
      ((surroundLegalB ch.toNat fam = true ∧ ∃ l, surroundLayout ch fam = .ok l ∧ layoutPasses ch l (fam == 2) = true) ∨
       (surroundLegalB ch.toNat fam = false ∧ ∃ e, surroundLayout ch fam = .err e)) := by
    intro hent
    cases hsl : surroundLayout ch fam with
    | err e =>
      rw [hsl] at hent
      right; exact ⟨by simpa using hent, e, rfl⟩
    | oob => rw [hsl] at hent; cases hent
    | abort => rw [hsl] at hent; cases hent
    | ok l =>
      rw [hsl] at hent
      simp only [Bool.and_eq_true] at hent
      left; exact ⟨hent.1, l, rfl, hent.2⟩
  by_cases h0 : fam = 0
  · subst h0; apply of_entry
    have := surroundTable_get surroundTable_0 (Nat.zero_le _) (show ch.toNat < 256 by omega) (by omega)
    rw [← hcn] at this; exact this
  by_cases h1 : fam = 1
  · subst h1; apply of_entry
    have := surroundTable_get surroundTable_1 (Nat.zero_le _) (show ch.toNat < 256 by omega) (by omega)
    rw [← hcn] at this; exact this
  by_cases h2 : fam = 2
  · subst h2; apply of_entry
    by_cases hlt : ch.toNat < 128
    · have := surroundTable_get surroundTable_2a (Nat.zero_le _) hlt (by omega)
      rw [← hcn] at this; exact this
    · have := surroundTable_get surroundTable_2b (by omega) (show ch.toNat < 256 by omega) (by omega)
      rw [← hcn] at this; exact this
  by_cases h255 : fam = 255
  · subst h255
    left
    refine ⟨by simp [surroundLegalB]; omega, (ch, 0, List.range ch.toNat), ?_, ?_⟩
    · unfold surroundLayout
      simp
    · have := family255_passes ch.toNat (by omega) (by omega)
      rw [← hcn] at this
      exact this
  · right
    refine ⟨by simp [surroundLegalB, h0, h1, h2, h255], .unimplemented, surroundLayout_other ch fam ⟨h0, h1, h2, h255⟩⟩

theorem msSurroundCreate_ok_eq {fs ch fam app : Int} {allocOk : Bool} (hc : 1 ≤ ch ∧ ch ≤ 255) {st cp : Int} {mp : List Nat}
    (hsl : surroundLayout ch fam = .ok (st, cp, mp)) (hp : layoutPasses ch (st, cp, mp) (fam == 2) = true) :
    msSurroundCreate fs ch fam app allocOk =
      if allocOk = false then .err .allocFail
      else if (validFs fs && validApp app) = true then
        .ok ({ nbChannels := ch, nbStreams := st, nbCoupled := cp, bitrateBps := OPUS_AUTO, variableDuration := FRAMESIZE_ARG,
               application := app, lfeStream := (if fam = 1 ∧ ch ≥ 6 then st - 1 else -1),
               surround := decide (ch > 2 ∧ fam = 1), ambisonics := decide (fam = 2),
               streams := msStreams fs st cp app (if fam = 1 ∧ ch ≥ 6 then st - 1 else -1) }, st, cp, mp)
      else .err .badArg := by
  unfold msSurroundCreate
  rw [if_neg (by omega), hsl]
  have hp' : layoutPasses ch (st, cp, mp) (decide (fam = 2)) = true := by
    have : (fam == 2) = decide (fam = 2) := by simp [BEq.beq]
    rw [← this]; exact hp
  cases allocOk
  · rfl
  · simp only [Bool.not_true, Bool.false_eq_true, ite_false]
    rw [msEncInit_of_passes hp']
    by_cases hv : (validFs fs && validApp app) = true
    · rw [if_pos hv, if_pos hv]; simp
    · rw [if_neg hv, if_neg hv]; simp

/-- `opus_multistream_surround_encoder_create`: the full acceptance table. -/
theorem msSurroundCreate_spec (fs ch fam app : Int) (allocOk : Bool) :
    (ch < 1 ∨ ch > 255 → msSurroundCreate fs ch fam app allocOk = .err .badArg) ∧
    (1 ≤ ch ∧ ch ≤ 255 → surroundLegalB ch.toNat fam = false →
        msSurroundCreate fs ch fam app allocOk = .err .unimplemented) ∧
    (1 ≤ ch ∧ ch ≤ 255 → surroundLegalB ch.toNat fam = true → allocOk = false →
        msSurroundCreate fs ch fam app allocOk = .err .allocFail) ∧
    (1 ≤ ch ∧ ch ≤ 255 → surroundLegalB ch.toNat fam = true → allocOk = true → (validFs fs && validApp app) = false →
        msSurroundCreate fs ch fam app allocOk = .err .badArg) ∧
    (1 ≤ ch ∧ ch ≤ 255 → surroundLegalB ch.toNat fam = true → allocOk = true → (validFs fs && validApp app) = true →
        ∃ s st cp mp, msSurroundCreate fs ch fam app allocOk = .ok (s, st, cp, mp) ∧
          surroundLayout ch fam = .ok (st, cp, mp) ∧ s.streams = msStreams fs st cp app (if fam = 1 ∧ ch ≥ 6 then st - 1 else -1)) := by
  refine ⟨?_, ?_, ?_, ?_, ?_⟩
  · intro h
    unfold msSurroundCreate
    rw [if_pos (by omega)]
  · intro hc hl
    rcases surround_cases ch fam hc with ⟨h1, _⟩ | ⟨_, e, he⟩
    · rw [h1] at hl; cases hl
    · unfold msSurroundCreate
      rw [if_neg (by omega), he]
  · intro hc hl ha
    rcases surround_cases ch fam hc with ⟨_, ⟨st, cp, mp⟩, hsl, hp⟩ | ⟨h1, _⟩
    · rw [msSurroundCreate_ok_eq hc hsl hp, if_pos ha]
    · rw [h1] at hl; cases hl
  · intro hc hl ha hv
    rcases surround_cases ch fam hc with ⟨_, ⟨st, cp, mp⟩, hsl, hp⟩ | ⟨h1, _⟩
    · rw [msSurroundCreate_ok_eq hc hsl hp, if_neg (by simp [ha]), if_neg (by simp [hv])]
    · rw [h1] at hl; cases hl
  · intro hc hl ha hv
    rcases surround_cases ch fam hc with ⟨_, ⟨st, cp, mp⟩, hsl, hp⟩ | ⟨h1, _⟩
    · rw [msSurroundCreate_ok_eq hc hsl hp, if_neg (by simp [ha]), if_pos hv]
      exact ⟨_, st, cp, mp, rfl, hsl, rfl⟩
    · rw [h1] at hl; cases hl

/-! ### Projection (mapping family 3) -/

/-- Channel counts with a built-in mixing matrix: order 1..5, with or without the non-diegetic pair. -/
def projLegalB (ch : Nat) : Bool := [4, 6, 9, 11, 16, 18, 25, 27, 36, 38].contains ch

/-- Everything `opus_projection_ambisonics_encoder_create` checks that depends on the channel count
    only: order, built-in matrix, matrix dimensions, and the layout checks of the multistream init. -/
def projPasses (ch : Int) : Bool :=
  match projOrderPlusOne ch with
  | none => false
  | some o =>
    projMatrixDim o ≠ 0 && !(decide ((ch + 1) / 2 + ch / 2 > projMatrixDim o ∨ ch > projMatrixDim o)) &&
    layoutPasses ch ((ch + 1) / 2, ch / 2, List.range ch.toNat) false

def projTable : Bool :=
  (List.range 260).all fun n =>
    (projPasses (n : Int) == projLegalB n) &&
    (projLegalB n || (match projOrderPlusOne (n : Int) with | none => true | some o => projMatrixDim o == 0))

theorem projTable_true : projTable = true := by decide +kernel

theorem projOrderPlusOne_big (ch : Int) (h : ch < 1 ∨ ch > 227) : projOrderPlusOne ch = none := by
  unfold projOrderPlusOne; rw [if_pos h]

/-- `opus_projection_ambisonics_encoder_create`: the full acceptance table.  A refused family or
    channel count makes `_get_size` return 0, which the code reports as OPUS_ALLOC_FAIL. -/
theorem projEncCreate_spec (fs ch fam app : Int) (allocOk : Bool) :
    let legal := fam = 3 ∧ 0 ≤ ch ∧ projLegalB ch.toNat = true
    (¬ legal → projEncCreate fs ch fam app allocOk = .err .allocFail) ∧
    (legal → allocOk = false → projEncCreate fs ch fam app allocOk = .err .allocFail) ∧
    (legal → allocOk = true → (validFs fs && validApp app) = false → projEncCreate fs ch fam app allocOk = .err .badArg) ∧
    (legal → allocOk = true → (validFs fs && validApp app) = true →
        ∃ s, projEncCreate fs ch fam app allocOk = .ok (s, (ch + 1) / 2, ch / 2) ∧
          s.ms.streams = msStreams fs ((ch + 1) / 2) (ch / 2) app (-1) ∧ s.ms.nbChannels = ch) := by
  intro legal
  have ht := projTable_true
  simp only [projTable, List.all_eq_true, List.mem_range, Bool.and_eq_true, beq_iff_eq, Bool.or_eq_true] at ht
  -- facts about this channel count
  have hfacts : (0 ≤ ch ∧ ch < 260 → projPasses ch = projLegalB ch.toNat ∧
      (projLegalB ch.toNat = true ∨ (match projOrderPlusOne ch with | none => True | some o => projMatrixDim o = 0))) := by
    intro h
    have := ht ch.toNat (by omega)
    have e : ((ch.toNat : Nat) : Int) = ch := by omega
    rw [e] at this
    refine ⟨this.1, ?_⟩
    rcases this.2 with h2 | h2
    · exact Or.inl h2
    · right
      cases ho : projOrderPlusOne ch with
      | none => trivial
      | some o => rw [ho] at h2; simpa using h2
  have hok : legal → projEncCreate fs ch fam app allocOk =
      if allocOk = false then .err .allocFail
      else if (validFs fs && validApp app) = true then
        .ok ({ ms := { nbChannels := ch, nbStreams := (ch + 1) / 2, nbCoupled := ch / 2, bitrateBps := OPUS_AUTO,
                       variableDuration := FRAMESIZE_ARG, application := app, lfeStream := -1, surround := false,
                       ambisonics := false, streams := msStreams fs ((ch + 1) / 2) (ch / 2) app (-1) },
               demixGain := projDemixGain ((projOrderPlusOne ch).getD 0) }, (ch + 1) / 2, ch / 2)
      else .err .badArg := by
    intro ⟨hf, h0, hb⟩
    have hlt : ch < 260 := by
      simp only [projLegalB, List.contains_iff_mem, List.mem_cons, List.mem_nil_iff, or_false] at hb
      omega
    obtain ⟨hp, _⟩ := hfacts ⟨h0, hlt⟩
    rw [hb] at hp
    unfold projPasses at hp
    unfold projEncCreate
    rw [if_neg (by omega)]
    cases ho : projOrderPlusOne ch with
    | none => rw [ho] at hp; cases hp
    | some o =>
      rw [ho] at hp
      simp only [Bool.and_eq_true, Bool.not_eq_true', decide_eq_false_iff_not, bne_iff_ne, ne_eq, decide_eq_true_eq] at hp
      obtain ⟨⟨hd, hsz⟩, hlp⟩ := hp
      simp only [hd, ite_false]
      cases allocOk
      · rfl
      · simp only [Bool.not_true, Bool.false_eq_true, ite_false, hsz]
        rw [msEncInit_of_passes hlp]
        by_cases hv : (validFs fs && validApp app) = true
        · rw [if_pos hv, if_pos hv]; simp
        · rw [if_neg hv, if_neg hv]; simp
  refine ⟨?_, ?_, ?_, ?_⟩
  · intro hn
    unfold projEncCreate
    by_cases hf : fam = 3
    · rw [if_neg (by omega)]
      by_cases hr : 0 ≤ ch ∧ ch < 260
      · obtain ⟨hp, hz⟩ := hfacts hr
        have hnl : projLegalB ch.toNat = false := by
          cases hb : projLegalB ch.toNat with
          | false => rfl
          | true => exact absurd ⟨hf, hr.1, hb⟩ hn
        rw [hnl] at hz
        cases ho : projOrderPlusOne ch with
        | none => rfl
        | some o =>
          rw [ho] at hz
          rcases hz with hz | hz
          · cases hz
          · simp only [hz, ite_true]
      · rw [projOrderPlusOne_big ch (by omega)]
    · rw [if_pos hf]
  · intro hl ha
    rw [hok hl, if_pos ha]
  · intro hl ha hv
    rw [hok hl, if_neg (by simp [ha]), if_neg (by simp [hv])]
  · intro hl ha hv
    rw [hok hl, if_neg (by simp [ha]), if_pos hv]
    exact ⟨_, rfl, rfl, rfl⟩

/-! ### Projection encoder ctl -/

/-- The three projection requests never change the state; everything else is the multistream ctl. -/
theorem projEncCtl_error_unchanged {s : ProjEncSt} (hi : MsInv s.ms) (r : ProjEncReq) (h : (projEncCtl s r).2.code ≠ 0) :
    (projEncCtl s r).1 = s := by
  cases r with
  | demixSize nn => cases nn <;> rfl
  | demixGain nn => cases nn <;> rfl
  | demixMatrix nn size =>
    simp only [projEncCtl]
    split
    · rfl
    · split <;> rfl
  | ms q =>
    simp only [projEncCtl] at h ⊢
    rw [msEncCtl_error_unchanged hi q h]

theorem projEncCtl_demix (s : ProjEncSt) :
    projEncCtl s (.demixSize true) = (s, .okv (s.ms.nbChannels * (s.ms.nbStreams + s.ms.nbCoupled) * 2)) ∧
    projEncCtl s (.demixGain true) = (s, .okv s.demixGain) ∧
    projEncCtl s (.demixSize false) = (s, .err .badArg) ∧ projEncCtl s (.demixGain false) = (s, .err .badArg) ∧
    (∀ size, projEncCtl s (.demixMatrix false size) = (s, .err .badArg)) ∧
    (∀ size, size ≠ (s.ms.nbStreams + s.ms.nbCoupled) * s.ms.nbChannels * 2 → projEncCtl s (.demixMatrix true size) = (s, .err .badArg)) ∧
    projEncCtl s (.demixMatrix true ((s.ms.nbStreams + s.ms.nbCoupled) * s.ms.nbChannels * 2)) = (s, .ok) := by
  refine ⟨rfl, rfl, rfl, rfl, fun _ => rfl, fun size h => ?_, ?_⟩
  · simp [projEncCtl, h]
  · simp [projEncCtl]

theorem projEncCtl_inv {s : ProjEncSt} (hi : MsInv s.ms) (r : ProjEncReq) : MsInv (projEncCtl s r).1.ms := by
  cases r with
  | demixSize nn => cases nn <;> exact hi
  | demixGain nn => cases nn <;> exact hi
  | demixMatrix nn size =>
    simp only [projEncCtl]
    split
    · exact hi
    · split <;> exact hi
  | ms q => exact msEncCtl_inv hi q

end Opus.Ctl
