import OpusProofs.SilkParamsSpec
/-
  OpusProofs.SilkParamsStab — silk_NLSF_stabilize establishes its post-condition for every
  int16 input vector and every admissible minimum-distance table.
-/
namespace Opus.SilkParams

theorem wrap16_id {x : Int} (h : I16 x) : wrap16 x = x := by
  unfold I16 at h; unfold wrap16; omega

theorem wrap16_I16 (x : Int) : I16 (wrap16 x) := by
  unfold wrap16 I16; omega

theorem sat16_I16 (x : Int) : I16 (sat16 x) := by
  unfold sat16 I16
  split
  · omega
  · split <;> omega

/-! ### early exit -/

theorem argMin_spec : ∀ (es : List Int) (m : Int) (I i : Nat),
    (argMin es m I i).1 ≤ m ∧ ∀ e ∈ es, (argMin es m I i).1 ≤ e := by
  intro es
  induction es with
  | nil => intro m I i; simp [argMin]
  | cons e es ih =>
    intro m I i
    unfold argMin
    split
    · have h := ih e i (i + 1)
      refine ⟨by omega, ?_⟩
      intro e' he'
      rcases List.mem_cons.mp he' with rfl | h'
      · exact h.1
      · exact h.2 e' h'
    · have h := ih m I (i + 1)
      refine ⟨h.1, ?_⟩
      intro e' he'
      rcases List.mem_cons.mp he' with rfl | h'
      · omega
      · exact h.2 e' h'

theorem diffsFrom_length : ∀ (x d : List Int) (p : Int), d.length = x.length + 1 →
    (diffsFrom p x d).length = x.length + 1 := by
  intro x
  induction x with
  | nil =>
    intro d p h
    match d, h with
    | [dL], _ => simp [diffsFrom]
  | cons x0 xs ih =>
    intro d p h
    match d, h with
    | d0 :: ds, h =>
      simp only [diffsFrom, List.length_cons]
      have := ih ds x0 (by simpa using h)
      omega

theorem spaced_of_diffs : ∀ (x d : List Int) (p : Int), d.length = x.length + 1 →
    (∀ e ∈ diffsFrom p x d, 0 ≤ e) → SpacedFrom p x d := by
  intro x
  induction x with
  | nil =>
    intro d p h hd
    match d, h with
    | [dL], _ =>
      simp only [diffsFrom, List.mem_singleton, forall_eq] at hd
      simp only [SpacedFrom]; omega
  | cons x0 xs ih =>
    intro d p h hd
    match d, h with
    | d0 :: ds, h =>
      simp only [diffsFrom, List.mem_cons, forall_eq_or_imp] at hd
      simp only [SpacedFrom]
      exact ⟨by omega, ih ds x0 (by simpa using h) hd.2⟩

/-! ### facts about `DeltaOk` -/

theorem DeltaOk_le : ∀ (n : Nat) (d : List Int) (P : Int), DeltaOk P n d → P ≤ 32767 := by
  intro n
  induction n with
  | zero =>
    intro d P h
    match d, h with
    | [dL], h => simp only [DeltaOk] at h; omega
  | succ n ih =>
    intro d P h
    match d, h with
    | d0 :: ds, h =>
      simp only [DeltaOk] at h
      have := ih ds (P + d0) h.2
      omega

theorem DeltaOk_length : ∀ (n : Nat) (d : List Int) (P : Int), DeltaOk P n d → d.length = n + 1 := by
  intro n
  induction n with
  | zero =>
    intro d P h
    match d, h with
    | [dL], _ => rfl
  | succ n ih =>
    intro d P h
    match d, h with
    | d0 :: ds, h =>
      simp only [DeltaOk] at h
      simp [ih ds (P + d0) h.2]

theorem DeltaOk_of_facts (dL : Int) : ∀ (ds : List Int) (P : Int), (∀ e ∈ ds, 0 ≤ e) → 1 ≤ dL →
    P + sumL ds + dL ≤ 32768 → DeltaOk P ds.length (ds ++ [dL]) := by
  intro ds
  induction ds with
  | nil => intro P _ h1 h2; simp only [sumL] at h2; simp only [List.length_nil, List.nil_append, DeltaOk]; omega
  | cons d ds ih =>
    intro P hpos h1 h2
    simp only [sumL] at h2
    simp only [List.length_cons, List.cons_append, DeltaOk]
    refine ⟨hpos d (by simp), ih (P + d) (fun e he => hpos e (by simp [he])) h1 (by omega)⟩

/-! ### the fallback: sort, forward pass, backward pass -/

/-- Lower bounds established by the forward pass: `y[0] ≥ P + d[0]`, `y[1] ≥ P + d[0] + d[1]`, … -/
def LB (P : Int) : List Int → List Int → Prop
  | [], _ => True
  | y :: ys, d :: ds => P + d ≤ y ∧ LB (P + d) ys ds
  | _ :: _, [] => False

theorem insR_length (v : Int) : ∀ l : List Int, (insR v l).length = l.length + 1 := by
  intro l
  induction l with
  | nil => simp [insR]
  | cons a as ih => unfold insR; split <;> simp [ih]

theorem insR_mem (v : Int) : ∀ (l : List Int) (e : Int), e ∈ insR v l → e = v ∨ e ∈ l := by
  intro l
  induction l with
  | nil => intro e h; simp [insR] at h; exact Or.inl h
  | cons a as ih =>
    intro e h
    unfold insR at h
    split at h
    · rcases List.mem_cons.mp h with rfl | h'
      · exact Or.inr (by simp)
      · rcases ih e h' with h'' | h''
        · exact Or.inl h''
        · exact Or.inr (by simp [h''])
    · rcases List.mem_cons.mp h with rfl | h'
      · exact Or.inl rfl
      · exact Or.inr h'

theorem foldl_insR_length : ∀ (x acc : List Int),
    (x.foldl (fun rev v => insR v rev) acc).length = acc.length + x.length := by
  intro x
  induction x with
  | nil => intro acc; simp
  | cons v vs ih => intro acc; simp only [List.foldl_cons, ih, insR_length, List.length_cons]; omega

theorem foldl_insR_mem : ∀ (x acc : List Int) (e : Int),
    e ∈ x.foldl (fun rev v => insR v rev) acc → e ∈ acc ∨ e ∈ x := by
  intro x
  induction x with
  | nil => intro acc e h; exact Or.inl (by simpa using h)
  | cons v vs ih =>
    intro acc e h
    simp only [List.foldl_cons] at h
    rcases ih _ e h with h' | h'
    · rcases insR_mem v acc e h' with rfl | h''
      · exact Or.inr (by simp)
      · exact Or.inl h''
    · exact Or.inr (by simp [h'])

theorem insertionSort_length (x : List Int) : (insertionSort x).length = x.length := by
  simp [insertionSort, foldl_insR_length]

theorem insertionSort_I16 (x : List Int) (h : AllI16 x) : AllI16 (insertionSort x) := by
  intro e he
  simp only [insertionSort, List.mem_reverse] at he
  rcases foldl_insR_mem x [] e he with h' | h'
  · simp at h'
  · exact h e h'

theorem stabFwd_spec : ∀ (xs ds : List Int) (prev P : Int), I16 prev → P ≤ prev → 0 ≤ P → AllI16 xs →
    DeltaOk P xs.length ds →
    (stabFwd prev xs ds).length = xs.length ∧ AllI16 (stabFwd prev xs ds) ∧ LB P (stabFwd prev xs ds) ds := by
  intro xs
  induction xs with
  | nil =>
    intro ds prev P _ _ _ _ hd
    match ds, hd with
    | [dL], _ => simp [stabFwd, LB, AllI16]
  | cons x xs ih =>
    intro ds prev P hprev hP hP0 hx hd
    match ds, hd with
    | d :: ds', hd =>
      simp only [List.length_cons, DeltaOk] at hd
      have hle := DeltaOk_le _ _ _ hd.2
      have hxI : I16 x := hx x (by simp)
      have hsat : I16 (sat16 (prev + d)) := sat16_I16 _
      have hadd : addSat16 prev d = sat16 (prev + d) := by unfold addSat16; exact wrap16_id hsat
      have hsatge : P + d ≤ sat16 (prev + d) := by
        unfold sat16; unfold I16 at hprev
        split
        · omega
        · split <;> omega
      have hmaxI : I16 (max x (sat16 (prev + d))) := by
        unfold I16 at *; omega
      have hy : wrap16 (max x (addSat16 prev d)) = max x (sat16 (prev + d)) := by
        rw [hadd]; exact wrap16_id hmaxI
      have hyge : P + d ≤ max x (sat16 (prev + d)) := by omega
      have ih' := ih ds' (max x (sat16 (prev + d))) (P + d) hmaxI hyge (by omega)
        (fun e he => hx e (by simp [he])) hd.2
      simp only [stabFwd, hy, List.length_cons, LB]
      refine ⟨by omega, ?_, hyge, ih'.2.2⟩
      intro e he
      rcases List.mem_cons.mp he with rfl | h'
      · exact hmaxI
      · exact ih'.2.1 e h'

theorem stabBwd_spec : ∀ (ys dt : List Int) (y B : Int), 0 ≤ B → B ≤ y → I16 y → AllI16 ys →
    LB B ys dt → DeltaOk B ys.length dt →
    ∃ z zs, stabBwd (y :: ys) dt = z :: zs ∧ zs.length = ys.length ∧ B ≤ z ∧ I16 z ∧ AllI16 zs ∧
      SpacedFrom z zs dt := by
  intro ys
  induction ys with
  | nil =>
    intro dt y B hB hBy hy _ _ hd
    match dt, hd with
    | [dL], hd =>
      simp only [List.length_nil, DeltaOk] at hd
      have hz : I16 (min y (32768 - dL)) := by unfold I16 at *; omega
      refine ⟨min y (32768 - dL), [], ?_, rfl, by omega, hz, by simp [AllI16], ?_⟩
      · simp [stabBwd, wrap16_id hz]
      · simp only [SpacedFrom]; omega
  | cons y1 ys ih =>
    intro dt y B hB hBy hy hys hlb hd
    match dt, hd with
    | d :: ds, hd =>
      simp only [List.length_cons, DeltaOk] at hd
      simp only [LB] at hlb
      obtain ⟨z1, zs1, he, hlen, hBz, hz1, hzs1, hsp⟩ :=
        ih ds y1 (B + d) (by omega) hlb.1 (hys y1 (by simp)) (fun e he => hys e (by simp [he])) hlb.2 hd.2
      have hz : I16 (min y (z1 - d)) := by unfold I16 at *; omega
      refine ⟨min y (z1 - d), z1 :: zs1, ?_, by simp [hlen], by omega, hz, ?_, ?_⟩
      · rw [stabBwd, he]; simp [wrap16_id hz]
      · intro e he'
        rcases List.mem_cons.mp he' with rfl | h'
        · exact hz1
        · exact hzs1 e h'
      · simp only [SpacedFrom]; exact ⟨by omega, hsp⟩

theorem stabFallback_spec (x d : List Int) (hx : AllI16 x) (hne : x ≠ [])
    (hd : DeltaOk 0 x.length d) :
    SpacedFrom 0 (stabFallback x d) d ∧ (stabFallback x d).length = x.length ∧ AllI16 (stabFallback x d) := by
  have hlen := insertionSort_length x
  have hI := insertionSort_I16 x hx
  unfold stabFallback
  match hs : insertionSort x, d, hd with
  | [], _, _ =>
    rw [hs] at hlen
    cases x with
    | nil => exact absurd rfl hne
    | cons a as => simp at hlen
  | s0 :: ss, d0 :: dt, hd =>
    rw [hs] at hlen hI
    have hxl : x.length = ss.length + 1 := by simpa using hlen.symm
    rw [hxl] at hd
    simp only [DeltaOk] at hd
    have hd0 : d0 ≤ 32767 := by have := DeltaOk_le _ _ _ hd.2; omega
    have hs0 : I16 s0 := hI s0 (by simp)
    have hy0I : I16 (max s0 d0) := by unfold I16 at *; omega
    have hy0 : wrap16 (max s0 d0) = max s0 d0 := wrap16_id hy0I
    have hfw := stabFwd_spec ss dt (max s0 d0) (0 + d0) hy0I (by omega) (by omega)
      (fun e he => hI e (by simp [he])) hd.2
    obtain ⟨z, zs, he, hzl, hBz, hzI, hzsI, hsp⟩ :=
      stabBwd_spec (stabFwd (max s0 d0) ss dt) dt (max s0 d0) (0 + d0) (by omega) (by omega) hy0I
        hfw.2.1 hfw.2.2 (by rw [hfw.1]; exact hd.2)
    simp only [hy0, he, SpacedFrom]
    refine ⟨⟨by omega, hsp⟩, by simp [hzl, hfw.1, hxl], ?_⟩
    intro e he'
    rcases List.mem_cons.mp he' with rfl | h'
    · exact hzI
    · exact hzsI e h'
  | _ :: _, [], hd =>
    have := DeltaOk_length _ _ _ hd
    simp at this

/-! ### the iterations -/

theorem set_I16 (x : List Int) (i : Nat) (v : Int) (hx : AllI16 x) : AllI16 (x.set i (wrap16 v)) := by
  intro e he
  rcases List.mem_or_eq_of_mem_set he with h | h
  · exact hx e h
  · rw [h]; exact wrap16_I16 v

theorem stabAdjust_spec (x d : List Int) (I : Nat) (hx : AllI16 x) :
    (stabAdjust x d I).length = x.length ∧ AllI16 (stabAdjust x d I) := by
  unfold stabAdjust
  simp only
  split
  · exact ⟨by simp, set_I16 _ _ _ hx⟩
  · split
    · exact ⟨by simp, set_I16 _ _ _ hx⟩
    · exact ⟨by simp, set_I16 _ _ _ (set_I16 _ _ _ hx)⟩

theorem stabLoop_spec (d : List Int) : ∀ (n : Nat) (x : List Int), AllI16 x → x ≠ [] →
    DeltaOk 0 x.length d →
    SpacedFrom 0 (stabLoop d n x) d ∧ (stabLoop d n x).length = x.length ∧ AllI16 (stabLoop d n x) := by
  intro n
  induction n with
  | zero => intro x hx hne hd; exact stabFallback_spec x d hx hne hd
  | succ n ih =>
    intro x hx hne hd
    have hdl := DeltaOk_length _ _ _ hd
    have hlen := diffsFrom_length x d 0 hdl
    unfold stabLoop
    match hdf : diffsFrom 0 x d with
    | [] => rw [hdf] at hlen; simp at hlen
    | e0 :: es =>
      simp only
      split
      · rename_i hge
        refine ⟨?_, rfl, hx⟩
        apply spaced_of_diffs x d 0 hdl
        rw [hdf]
        have hs := argMin_spec es e0 0 1
        intro e he
        rcases List.mem_cons.mp he with rfl | h'
        · omega
        · have := hs.2 e h'; omega
      · have ha := stabAdjust_spec x d (argMin es e0 0 1).2 hx
        have hne' : stabAdjust x d (argMin es e0 0 1).2 ≠ [] := by
          intro h; have := ha.1; rw [h] at this
          cases x with
          | nil => exact hne rfl
          | cons a as => simp at this
        have := ih _ ha.2 hne' (by rw [ha.1]; exact hd)
        exact ⟨this.1, by rw [this.2.1, ha.1], this.2.2⟩

/-- Post-condition of `silk_NLSF_stabilize` for every int16 vector and every admissible table. -/
theorem nlsfStabilize_spec (x d : List Int) (hx : AllI16 x) (hne : x ≠ [])
    (hd : DeltaOk 0 x.length d) :
    ∃ out, nlsfStabilize x d = .ok out ∧ SpacedFrom 0 out d ∧ out.length = x.length ∧ AllI16 out := by
  have hdl := DeltaOk_length _ _ _ hd
  have hl : x.length ≠ 0 := by
    cases x with
    | nil => exact absurd rfl hne
    | cons a as => simp
  refine ⟨stabLoop d Gen.SilkNlsf.nlsfStabilizeMaxLoops x, ?_, stabLoop_spec d _ x hx hne hd⟩
  unfold nlsfStabilize
  rw [if_neg]
  intro h
  rcases h with h | h
  · exact hl h
  · exact h hdl

end Opus.SilkParams
