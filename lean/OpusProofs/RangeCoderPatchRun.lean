import OpusProofs.RangeCoderPatch
import OpusProofs.RangeCoderRoundTrip
/-
  OpusProofs.RangeCoderPatchRun — C08: the round trip for patch-style streams (first operation
  `ec_encode_bin(fl, fl+1, n)`, later `ec_enc_patch_initial_bits(v, n)`): the decoder returns the last
  patched value for the first operation and the encoded values for all others.
-/
namespace Opus.RangeCoder

/-! ### Streams that differ in their first `n` bits -/

/-- The stream `B` with the first `n` bits replaced by `t`. -/
def setTop (B : List Nat) (n t : Nat) : List Nat := B.set 0 (B.getD 0 0 % 2 ^ (8 - n) + t * 2 ^ (8 - n))

theorem byteAt_setTop_succ (B : List Nat) (n t S i : Nat) (hi : 1 ≤ i) :
    byteAt (setTop B n t) S i = byteAt B S i := by
  unfold byteAt setTop
  split
  · rw [getD_set, if_neg (by omega)]
  · rfl

theorem byteAt_setTop_zero (B : List Nat) (n t S : Nat) (hS : 0 < S) (hB : 0 < B.length) :
    byteAt (setTop B n t) S 0 = byteAt B S 0 % 2 ^ (8 - n) + t * 2 ^ (8 - n) := by
  unfold byteAt setTop
  rw [if_pos hS, if_pos hS, getD_set, if_pos ⟨rfl, hB⟩]

/-- `codeVal` of the first `k+1` bytes splits into the first byte and the rest. -/
theorem codeVal_head (B : List Nat) (S : Nat) : ∀ k, ∃ R, codeVal B S (k + 1) = byteAt B S 0 * 256 ^ k + R ∧
    (∀ B', (∀ i, 1 ≤ i → byteAt B' S i = byteAt B S i) →
      codeVal B' S (k + 1) = byteAt B' S 0 * 256 ^ k + R) ∧
    ((∀ i, byteAt B S i < 256) → R < 256 ^ k)
  | 0 => ⟨0, by simp [codeVal], fun B' _ => by simp [codeVal], fun _ => by simp⟩
  | k + 1 => by
    obtain ⟨R, h1, h2, h3⟩ := codeVal_head B S k
    refine ⟨R * 256 + byteAt B S (k + 1), ?_, ?_, ?_⟩
    · rw [codeVal, h1, Nat.pow_succ, Nat.add_mul, Nat.mul_assoc]; omega
    · intro B' hag
      rw [codeVal, h2 B' hag, hag (k + 1) (by omega), Nat.pow_succ, Nat.add_mul, Nat.mul_assoc]; omega
    · intro hb
      have := h3 hb
      have := hb (k + 1)
      rw [Nat.pow_succ]; omega

theorem cell_two (M n : Nat) (hn : n ≤ 8) : 2 ^ (8 - n) * 256 ^ (M + 3) = 2 * (2 ^ (31 - n) * 256 ^ M) := by
  have e1 : (31 - n) = (8 - n) + 23 := by omega
  rw [e1, Nat.pow_add, Nat.pow_add]
  have : (256 : Nat) ^ 3 = 2 * 2 ^ 23 := by decide
  rw [this]
  simp only [Nat.mul_assoc, Nat.mul_comm, Nat.mul_left_comm]

/-- Replacing the first `n` bits of the stream moves the code value by whole cells. -/
theorem codeVal_setTop (B : List Nat) (S n t v : Nat) (c : Enc) (hn : n ≤ 8) (hS : 0 < S) (hB : 0 < B.length) :
    codeVal (setTop B n v) S (encM c + 4) / 2 + t * cellSz c n =
      codeVal (setTop B n t) S (encM c + 4) / 2 + v * cellSz c n := by
  obtain ⟨R, _, h2, _⟩ := codeVal_head B S (encM c + 3)
  have ht := h2 (setTop B n t) (fun i hi => byteAt_setTop_succ B n t S i hi)
  have hv := h2 (setTop B n v) (fun i hi => byteAt_setTop_succ B n v S i hi)
  rw [byteAt_setTop_zero B n t S hS hB] at ht
  rw [byteAt_setTop_zero B n v S hS hB] at hv
  have e4 : encM c + 4 = encM c + 3 + 1 := by omega
  rw [e4, ht, hv]
  have h2z := cell_two (encM c) n hn
  unfold cellSz
  generalize 2 ^ (31 - n) * 256 ^ encM c = Z at *
  generalize byteAt B S 0 % 2 ^ (8 - n) = m at *
  have ev : (m + v * 2 ^ (8 - n)) * 256 ^ (encM c + 3) + R = (m * 256 ^ (encM c + 3) + R) + 2 * (v * Z) := by
    rw [Nat.add_mul, Nat.mul_assoc, h2z]
    have : v * (2 * Z) = 2 * (v * Z) := Nat.mul_left_comm _ _ _
    omega
  have et : (m + t * 2 ^ (8 - n)) * 256 ^ (encM c + 3) + R = (m * 256 ^ (encM c + 3) + R) + 2 * (t * Z) := by
    rw [Nat.add_mul, Nat.mul_assoc, h2z]
    have : t * (2 * Z) = 2 * (t * Z) := Nat.mul_left_comm _ _ _
    omega
  rw [ev, et, Nat.add_mul_div_left _ _ (by decide : 0 < 2), Nat.add_mul_div_left _ _ (by decide : 0 < 2)]
  omega

theorem set_getD_self (B : List Nat) : B.set 0 (B.getD 0 0) = B := by
  cases B <;> rfl

/-- A stream whose code value lies in cell `w` starts with the bits `w`. -/
theorem setTop_self (B : List Nat) (S n w : Nat) (c : Enc) (hS : 0 < S) (hby : ∀ i, byteAt B S i < 256)
    (hc : Contains B S c) (hcell : Cell n w c) : setTop B n w = B := by
  obtain ⟨R, h1, _, h3⟩ := codeVal_head B S (encM c + 3)
  have hR := h3 hby
  obtain ⟨hn, _, c3, c4, _⟩ := hcell
  unfold Contains at hc
  have e4 : encM c + 4 = encM c + 3 + 1 := by omega
  rw [e4, h1] at hc
  have h2z := cell_two (encM c) n hn
  unfold cellSz at c3 c4
  have hb0 : byteAt B S 0 = B.getD 0 0 := by unfold byteAt; rw [if_pos hS]
  generalize 2 ^ (31 - n) * 256 ^ encM c = Z at *
  have hP : 0 < 256 ^ (encM c + 3) := Nat.pow_pos (by decide)
  generalize 256 ^ (encM c + 3) = P at *
  have k := (top_bits_core n w w (byteAt B S 0) P R hn hP hR
    (by rw [h2z]; have : w * (2 * Z) = 2 * (w * Z) := Nat.mul_left_comm _ _ _; omega)
    (by rw [h2z]; have : (w + 1) * (2 * Z) = 2 * ((w + 1) * Z) := Nat.mul_left_comm _ _ _; omega)).1
  have hb : byteAt B S 0 = byteAt B S 0 % 2 ^ (8 - n) + w * 2 ^ (8 - n) := by
    have := Nat.div_add_mod (byteAt B S 0) (2 ^ (8 - n))
    rw [k, Nat.mul_comm] at this; omega
  unfold setTop
  rw [← hb0, ← hb, hb0]
  exact set_getD_self B

theorem byteAt_setTop_lt (B : List Nat) (S n t : Nat) (hn : n ≤ 8) (ht : t < 2 ^ n)
    (hby : ∀ i, byteAt B S i < 256) (i : Nat) : byteAt (setTop B n t) S i < 256 := by
  by_cases hi : 1 ≤ i
  · rw [byteAt_setTop_succ B n t S i hi]; exact hby i
  · have hi0 : i = 0 := by omega
    subst hi0
    unfold byteAt setTop
    split
    · rw [getD_set]
      split
      · exact (patchByte_eq (B.getD 0 0) t n hn ht).2
      · have := hby 0; unfold byteAt at this; rename_i hS _; rw [if_pos hS] at this; exact this
    · omega

/-! ### Patch-style runs -/

/-- Operations allowed after the first one in a patch-style stream: those of the round-trip
    theorems, plus `ec_enc_patch_initial_bits(v, n)` with the stream's `n`. -/
def Op.LegalAtP (n : Nat) (c : Enc) : Op → Prop
  | .patchInitial v k => k = n ∧ v < 2 ^ n
  | op => op.LegalAt c

def LegalRunP (n : Nat) (c : Enc) : List Op → Prop
  | [] => True
  | op :: ops => op.LegalAtP n c ∧ LegalRunP n (encOp c op) ops

instance (n : Nat) (c : Enc) : (op : Op) → Decidable (op.LegalAtP n c)
  | .patchInitial v k => inferInstanceAs (Decidable (k = n ∧ v < 2 ^ n))
  | .encode fl fh ft => inferInstanceAs (Decidable ((Op.encode fl fh ft).LegalAt c))
  | .encodeBin fl fh nb => inferInstanceAs (Decidable ((Op.encodeBin fl fh nb).LegalAt c))
  | .bitLogp v l => inferInstanceAs (Decidable ((Op.bitLogp v l).LegalAt c))
  | .icdf s t f => inferInstanceAs (Decidable ((Op.icdf s t f).LegalAt c))
  | .icdf16 s t f => inferInstanceAs (Decidable ((Op.icdf16 s t f).LegalAt c))
  | .uint v ft => inferInstanceAs (Decidable ((Op.uint v ft).LegalAt c))
  | .bits v k => inferInstanceAs (Decidable ((Op.bits v k).LegalAt c))
  | .shrink sz => inferInstanceAs (Decidable ((Op.shrink sz).LegalAt c))

def decLegalRunP (n : Nat) : (ops : List Op) → (c : Enc) → Decidable (LegalRunP n c ops)
  | [], _ => isTrue trivial
  | op :: ops, c =>
    match (inferInstance : Decidable (op.LegalAtP n c)), decLegalRunP n ops (encOp c op) with
    | isTrue h1, isTrue h2 => isTrue ⟨h1, h2⟩
    | isFalse h1, _ => isFalse (fun h => h1 h.1)
    | _, isFalse h2 => isFalse (fun h => h2 h.2)

instance (n : Nat) (c : Enc) (ops : List Op) : Decidable (LegalRunP n c ops) := decLegalRunP n ops c

/-- The value of the first `n` bits after the operations: the last patched value, else `t`. -/
def lastPatch (t : Nat) : List Op → Nat
  | [] => t
  | .patchInitial v _ :: ops => lastPatch v ops
  | .encode .. :: ops => lastPatch t ops
  | .encodeBin .. :: ops => lastPatch t ops
  | .bitLogp .. :: ops => lastPatch t ops
  | .icdf .. :: ops => lastPatch t ops
  | .icdf16 .. :: ops => lastPatch t ops
  | .uint .. :: ops => lastPatch t ops
  | .bits .. :: ops => lastPatch t ops
  | .shrink .. :: ops => lastPatch t ops

/-- The value of the first bits after one operation. -/
def patchOf (t : Nat) : Op → Nat
  | .patchInitial v _ => v
  | _ => t

theorem lastPatch_cons (t : Nat) (op : Op) (ops : List Op) : lastPatch t (op :: ops) = lastPatch (patchOf t op) ops := by
  cases op <;> rfl

/-- One operation of a patch-style stream. -/
theorem stepP (n t : Nat) (c : Enc) (op : Op) (ri : RunInv c) (hcell : Cell n t c) (hl : op.LegalAtP n c)
    (hn : (encOp c op).nbitsTotal < 4294967296) (herr : (encOp c op).error = 0) :
    c.error = 0 ∧ RunInv (encOp c op) ∧ Cell n (patchOf t op) (encOp c op) ∧
    (∀ B S, 0 < S → 0 < B.length → (∀ i, byteAt B S i < 256) →
      Contains (setTop B n (patchOf t op)) S (encOp c op) → Contains (setTop B n t) S c) ∧
    (∀ B S, RawC B S (encOp c op) → RawC B S c) ∧
    (∀ B S (d : Dec), 0 < S → 0 < B.length → (op.LegalAt c → False) →
      DecAll B S c d (setTop B n t) → DecAll B S (encOp c op) d (setTop B n (patchOf t op))) := by
  have hn8 := hcell.n_le
  have ht := hcell.t_lt
  by_cases hp : op.LegalAt c
  · -- not a patch
    have hpo : patchOf t op = t := by
      cases op <;> first | rfl | exact absurd hp (by simp [Op.LegalAt])
    rw [hpo]
    have st := step_op c op ri hp hn herr
    refine ⟨st.err0, st.run, cell_op n t c op ri hp hn herr hcell, ?_, st.rawc, fun _ _ _ _ _ h => absurd hp h⟩
    intro B S _ _ hby h
    exact st.cont _ S (byteAt_setTop_lt B S n t hn8 ht hby) h
  · -- the patch
    cases op with
    | patchInitial v k =>
      obtain ⟨rfl, hv⟩ := hl
      obtain ⟨p1, p2, p3, p4, p5, p6, p7, p8, p9, p10⟩ := patch_spec c k t v ri hcell hv
      simp only [encOp, patchOf] at herr ⊢
      refine ⟨by rw [← p1]; exact herr, p2, p3, ?_, ?_, ?_⟩
      · intro B S hS hB _ h
        have hs := codeVal_setTop B S k t v c hn8 hS hB
        unfold Contains at h ⊢
        rw [p4, p5] at h
        omega
      · intro B S h
        unfold RawC at h ⊢
        rw [p9, p10] at h; exact h
      · intro B S d hS hB _ all
        obtain ⟨⟨ib, is, ir, inb, iv, io, irem⟩, derr, dn, nb, w1, w2, w3⟩ := all
        have hs := codeVal_setTop B S k t v c hn8 hS hB
        refine ⟨⟨ib, is, by rw [p5]; exact ir, by rw [p6]; exact inb, ?_, by rw [p4]; exact io,
          by rw [p4]; exact irem⟩, derr, dn, nb, w1, by rw [p9]; exact w2, by rw [p9]; exact w3⟩
        rw [p4, p5]
        omega
    | encode fl fh ft => exact absurd hl hp
    | encodeBin fl fh nb => exact absurd hl hp
    | bitLogp v logp => exact absurd hl hp
    | icdf s tbl ftb => exact absurd hl hp
    | icdf16 s tbl ftb => exact absurd hl hp
    | uint v ft => exact absurd hl hp
    | bits v k => exact absurd hl hp
    | shrink size => exact absurd hl hp

theorem run_backP (n : Nat) (ops : List Op) : ∀ (c : Enc) (t : Nat), RunInv c → Cell n t c → LegalRunP n c ops →
    (encRun c ops).nbitsTotal < 4294967296 → (encRun c ops).error = 0 →
    c.error = 0 ∧ RunInv (encRun c ops) ∧ Cell n (lastPatch t ops) (encRun c ops) ∧
    (∀ B S, 0 < S → 0 < B.length → (∀ i, byteAt B S i < 256) →
      Contains (setTop B n (lastPatch t ops)) S (encRun c ops) → Contains (setTop B n t) S c) ∧
    (∀ B S, RawC B S (encRun c ops) → RawC B S c) := by
  induction ops with
  | nil =>
    intro c t ri hcell _ _ herr
    exact ⟨herr, ri, hcell, fun _ _ _ _ _ h => h, fun _ _ h => h⟩
  | cons op ops ih =>
    intro c t ri hcell hl hn herr
    have herr1 : (encOp c op).error = 0 := by
      apply Classical.byContradiction; intro hne
      exact encRun_error_mono ops _ hne herr
    have hn1 : (encOp c op).nbitsTotal < 4294967296 :=
      Nat.lt_of_le_of_lt (encRun_nbits_mono ops _) hn
    obtain ⟨s0, s1, s2, s3, s4, _⟩ := stepP n t c op ri hcell hl.1 hn1 herr1
    obtain ⟨_, i1, i2, i3, i4⟩ := ih (encOp c op) (patchOf t op) s1 s2 hl.2 hn herr
    rw [lastPatch_cons]
    exact ⟨s0, i1, i2, fun B S hS hB hby h => s3 B S hS hB hby (i3 B S hS hB hby h),
      fun B S h => s4 B S (i4 B S h)⟩

theorem run_decodeP (n : Nat) (B : List Nat) (hB : BytesOk B) (S : Nat) (hS : 0 < S) (hBl : 0 < B.length)
    (ops : List Op) : ∀ (e : Enc) (d : Dec) (t : Nat),
    RunInv e → Cell n t e → LegalRunP n e ops → DecAll B S e d (setTop B n t) →
    (encRun e ops).nbitsTotal < 4294967296 → (encRun e ops).error = 0 →
    Contains (setTop B n (lastPatch t ops)) S (encRun e ops) → RawC B S (encRun e ops) →
    MatchAll ops (decRun d ops).1 ∧
    DecAll B S (encRun e ops) (decRun d ops).2 (setTop B n (lastPatch t ops)) := by
  have hby : ∀ i, byteAt B S i < 256 := fun i => byteAt_lt_bytesOk hB S i
  induction ops with
  | nil =>
    intro e d t _ _ _ all _ _ _ _
    exact ⟨trivial, all⟩
  | cons op ops ih =>
    intro e d t ri hcell hl all hn herr hc hr
    have herr1 : (encOp e op).error = 0 := by
      apply Classical.byContradiction; intro hne
      exact encRun_error_mono ops _ hne herr
    have hn1 : (encOp e op).nbitsTotal < 4294967296 :=
      Nat.lt_of_le_of_lt (encRun_nbits_mono ops _) hn
    obtain ⟨_, s1, s2, s3, s4, s5⟩ := stepP n t e op ri hcell hl.1 hn1 herr1
    rw [lastPatch_cons] at hc ⊢
    obtain ⟨_, _, _, b3, b4⟩ := run_backP n ops (encOp e op) (patchOf t op) s1 s2 hl.2 hn herr
    have hc1 := b3 B S hS hBl hby hc
    have hr1 := b4 B S hr
    have hstep : op.Matches (decOp d op).1 ∧
        DecAll B S (encOp e op) (decOp d op).2 (setTop B n (patchOf t op)) := by
      by_cases hp : op.LegalAt e
      · have hpo : patchOf t op = t := by
          cases op <;> first | rfl | exact absurd hp (by simp [Op.LegalAt])
        rw [hpo] at hc1 ⊢
        exact decOp_spec B hB S e d op _ (fun i hi => byteAt_setTop_succ B n t S i hi)
          (byteAt_setTop_lt B S n t hcell.n_le hcell.t_lt hby) ri hp all hn1 herr1 hc1 hr1
      · cases op with
        | patchInitial v k => exact ⟨trivial, s5 B S d hS hBl hp all⟩
        | encode fl fh ft => exact absurd hl.1 hp
        | encodeBin fl fh nb => exact absurd hl.1 hp
        | bitLogp v logp => exact absurd hl.1 hp
        | icdf s tbl ftb => exact absurd hl.1 hp
        | icdf16 s tbl ftb => exact absurd hl.1 hp
        | uint v ft => exact absurd hl.1 hp
        | bits v k => exact absurd hl.1 hp
        | shrink size => exact absurd hl.1 hp
    obtain ⟨m1, a1⟩ := hstep
    obtain ⟨m2, a2⟩ := ih (encOp e op) (decOp d op).2 (patchOf t op) s1 s2 hl.2 a1 hn herr hc hr
    simp only [decRun, encRun]
    exact ⟨⟨m1, m2⟩, a2⟩

/-! ### The first operation of a patch-style stream -/

theorem pow31_split (n : Nat) (hn : n ≤ 16) :
    2147483648 / 2 ^ n = 2 ^ (31 - n) ∧ 2 ^ (31 - n) * 2 ^ n = 2147483648 := by
  have hpow : 2 ^ n * 2 ^ (31 - n) = 2147483648 := by
    rw [← Nat.pow_add]; have : n + (31 - n) = 31 := by omega
    rw [this]
  exact ⟨Nat.div_eq_of_eq_mul_right (Nat.pow_pos (by decide)) hpow.symm, by rw [Nat.mul_comm]; exact hpow⟩

/-- The state after the subdivision of `ec_encode_bin(fl, fl+1, n)` on a fresh encoder: the
    interval is exactly cell `fl` of the first `n` bits. -/
theorem encSub_init (buf : List Nat) (size n fl : Nat) (hn : n ≤ 16) (hfl : fl < 2 ^ n) :
    (encSub (encInit buf size) (2147483648 / 2 ^ n) (2 ^ n - fl) (2 ^ n - (fl + 1)) (decide (fl = 0))).val =
      fl * 2 ^ (31 - n) ∧
    (encSub (encInit buf size) (2147483648 / 2 ^ n) (2 ^ n - fl) (2 ^ n - (fl + 1)) (decide (fl = 0))).rng =
      2 ^ (31 - n) := by
  obtain ⟨e1, e2⟩ := pow31_split n hn
  rw [e1]
  generalize 2 ^ (31 - n) = r at *
  generalize 2 ^ n = N at *
  have hsub : ∀ k, k ≤ N → r * (N - k) + r * k = 2147483648 := by
    intro k hk
    rw [← Nat.mul_add, Nat.sub_add_cancel hk]; exact e2
  unfold encSub
  by_cases h0 : fl = 0
  · subst h0
    simp only [decide_true, if_true, encInit, Nat.zero_add, Nat.zero_mul]
    have := hsub 1 (by omega)
    refine ⟨trivial, ?_⟩
    omega
  · simp only [h0, decide_false, Bool.false_eq_true, if_false, encInit]
    have h1 := hsub fl (by omega)
    have h2 : N - fl - (N - (fl + 1)) = 1 := by omega
    rw [h2, Nat.mul_one]
    have : fl * r = r * fl := Nat.mul_comm _ _
    omega

theorem encSub_init_abs (buf : List Nat) (size r a b : Nat) (first : Bool) :
    encM (encSub (encInit buf size) r a b first) = 0 ∧
    encLow (encSub (encInit buf size) r a b first) = (encSub (encInit buf size) r a b first).val := by
  have h1 : encM (encSub (encInit buf size) r a b first) = 0 := by rw [encSub_encM]; exact encInit_encM buf size
  refine ⟨h1, ?_⟩
  unfold encLow
  rw [encSub_digitsVal]
  have : digitsVal (encInit buf size) = 0 := by simp [digitsVal, pendCount, pendVal, encInit]
  rw [this]; simp

/-- After the first operation of a patch-style stream the interval is cell `fl`. -/
theorem cell_first (buf : List Nat) (size n fl : Nat) (hs : size ≤ buf.length) (hb : BytesOk buf) (hn1 : 1 ≤ n)
    (hn8 : n ≤ 8) (hfl : fl < 2 ^ n)
    (hnb : (encOp (encInit buf size) (.encodeBin fl (fl + 1) n)).nbitsTotal < 4294967296)
    (herr : (encOp (encInit buf size) (.encodeBin fl (fl + 1) n)).error = 0) :
    Cell n fl (encOp (encInit buf size) (.encodeBin fl (fl + 1) n)) := by
  have ri0 := runInv_encInit buf size hs hb
  have hleg : (Op.encodeBin fl (fl + 1) n).Legal := ⟨by omega, by omega, hn1, by omega⟩
  obtain ⟨ok, heq⟩ := encOp_sub (encInit buf size) (.encodeBin fl (fl + 1) n) ri0.inv hleg rfl
  rw [heq] at hnb herr ⊢
  obtain ⟨pre, _, _⟩ := encSub_spec (encInit buf size) _ _ _ (decide (fl = 0)) ri0.inv ok
  apply cell_encNormalize n fl _ pre hnb herr
  have hrng : (encInit buf size).rng = 2147483648 := rfl
  rw [hrng] at ok ⊢
  obtain ⟨v1, v2⟩ := encSub_init buf size n fl (by omega) hfl
  obtain ⟨a1, a2⟩ := encSub_init_abs buf size (2147483648 / 2 ^ n) (2 ^ n - fl) (2 ^ n - (fl + 1)) (decide (fl = 0))
  have hZ : cellSz (encSub (encInit buf size) (2147483648 / 2 ^ n) (2 ^ n - fl) (2 ^ n - (fl + 1))
      (decide (fl = 0))) n = 2 ^ (31 - n) := by unfold cellSz; rw [a1]; simp
  refine ⟨hn8, hfl, by rw [hZ, a2, v1]; exact Nat.le_refl _, by rw [hZ, a2, v1, v2, Nat.add_mul, Nat.one_mul]; exact Nat.le_refl _,
    fun h => by rw [a1] at h; omega⟩

/-- The decoder's first call on a patch-style stream: `ec_decode_bin` returns the first `n` bits `w` of
    the stream, and after `ec_dec_update(w, w+1)` the decoder mirrors the encoder state after
    `ec_encode_bin(fl, fl+1, n)` — relative to the stream whose first bits are `fl`. -/
theorem first_dec (B : List Nat) (hB : BytesOk B) (S : Nat) (hS : 0 < S) (hBl : 0 < B.length)
    (buf : List Nat) (size n fl w : Nat) (hs : size ≤ buf.length) (hb : BytesOk buf)
    (hn1 : 1 ≤ n) (hn8 : n ≤ 8) (hfl : fl < 2 ^ n) (hw : w < 2 ^ n) (hBw : setTop B n w = B)
    (hnb : (encOp (encInit buf size) (.encodeBin fl (fl + 1) n)).nbitsTotal < 4294967296)
    (herr : (encOp (encInit buf size) (.encodeBin fl (fl + 1) n)).error = 0)
    (hc : Contains (setTop B n fl) S (encOp (encInit buf size) (.encodeBin fl (fl + 1) n))) :
    (Op.encodeBin w (w + 1) n).Matches (decOp (decInit B S) (.encodeBin w (w + 1) n)).1 ∧
    DecAll B S (encOp (encInit buf size) (.encodeBin fl (fl + 1) n))
      (decOp (decInit B S) (.encodeBin w (w + 1) n)).2 (setTop B n fl) := by
  have hby : ∀ i, byteAt B S i < 256 := fun i => byteAt_lt_bytesOk hB S i
  have hbt := byteAt_setTop_lt B S n fl hn8 hfl hby
  have hag : ∀ i, 1 ≤ i → byteAt (setTop B n fl) S i = byteAt B S i :=
    fun i hi => byteAt_setTop_succ B n fl S i hi
  have ri0 := runInv_encInit buf size hs hb
  have all0 := decInit_spec B hB S buf size
  generalize he0 : encInit buf size = e0 at *
  have hrng0 : e0.rng = 2147483648 := by rw [← he0]; rfl
  have hlegf : (Op.encodeBin fl (fl + 1) n).Legal := ⟨by omega, by omega, hn1, by omega⟩
  have hlegw : (Op.encodeBin w (w + 1) n).Legal := ⟨by omega, by omega, hn1, by omega⟩
  -- encoder side: the subdivision states for `fl` (real) and for `w` (ghost)
  obtain ⟨okf, heqf⟩ := encOp_sub e0 (.encodeBin fl (fl + 1) n) ri0.inv hlegf rfl
  obtain ⟨okw, _⟩ := encOp_sub e0 (.encodeBin w (w + 1) n) ri0.inv hlegw rfl
  rw [heqf] at hnb herr hc ⊢
  rw [hrng0] at okf okw hnb herr hc ⊢
  obtain ⟨pref, _, _⟩ := encSub_spec e0 _ _ _ (decide (fl = 0)) ri0.inv (by rw [hrng0]; exact okf)
  obtain ⟨_, _, n2, _, _, _, n6, _, _, n9⟩ := encNormalize_spec _ pref hnb herr
  have hcf := n2 _ S hbt hc
  obtain ⟨vf1, vf2⟩ := encSub_init buf size n fl (by omega) hfl
  obtain ⟨vw1, vw2⟩ := encSub_init buf size n w (by omega) hw
  obtain ⟨af1, af2⟩ := encSub_init_abs buf size (2147483648 / 2 ^ n) (2 ^ n - fl) (2 ^ n - (fl + 1)) (decide (fl = 0))
  obtain ⟨aw1, aw2⟩ := encSub_init_abs buf size (2147483648 / 2 ^ n) (2 ^ n - w) (2 ^ n - (w + 1)) (decide (w = 0))
  rw [he0] at vf1 vf2 vw1 vw2 af1 af2 aw1 aw2
  generalize hpf : encSub e0 (2147483648 / 2 ^ n) (2 ^ n - fl) (2 ^ n - (fl + 1)) (decide (fl = 0)) = pf at *
  generalize hpw : encSub e0 (2147483648 / 2 ^ n) (2 ^ n - w) (2 ^ n - (w + 1)) (decide (w = 0)) = pw at *
  -- the two streams at the scale of the fresh encoder
  have hst := codeVal_setTop B S n fl w pf hn8 hS hBl
  rw [hBw] at hst
  have hZ : cellSz pf n = 2 ^ (31 - n) := by unfold cellSz; rw [af1]; simp
  rw [hZ, af1] at hst
  have hcw : Contains B S pw := by
    unfold Contains at hcf ⊢
    rw [af1, af2, vf1, vf2] at hcf
    rw [aw1, aw2, vw1, vw2]
    omega
  -- decoder side
  obtain ⟨hm, x, hx⟩ := decOp_prim_eq B S e0 (decInit B S) (.encodeBin w (w + 1) n) B ri0.inv hlegw
    (r := 2147483648 / 2 ^ n) (a := 2 ^ n - w) (b := 2 ^ n - (w + 1)) (first := decide (w = 0))
    (by simp only [Op.sub, hrng0]) all0.rc (by rw [hpw]; exact hcw)
  have dsub := (decSub_spec B S e0 { decInit B S with ext := x } (2147483648 / 2 ^ n) (2 ^ n - w) (2 ^ n - (w + 1))
    (decide (w = 0)) B ri0.inv (by rw [hrng0]; exact okw) (all0.rc.set_ext x) (by rw [hpw]; exact hcw)).1
  rw [hpw] at dsub
  refine ⟨hm, ?_⟩
  rw [hx]
  have hdraw : (decSub { decInit B S with ext := x } (2147483648 / 2 ^ n) (2 ^ n - w) (2 ^ n - (w + 1))
        (decide (w = 0))).error = (decInit B S).error ∧
      (decSub { decInit B S with ext := x } (2147483648 / 2 ^ n) (2 ^ n - w) (2 ^ n - (w + 1))
        (decide (w = 0))).nendBits = (decInit B S).nendBits ∧
      (decSub { decInit B S with ext := x } (2147483648 / 2 ^ n) (2 ^ n - w) (2 ^ n - (w + 1))
        (decide (w = 0))).endOffs = (decInit B S).endOffs ∧
      (decSub { decInit B S with ext := x } (2147483648 / 2 ^ n) (2 ^ n - w) (2 ^ n - (w + 1))
        (decide (w = 0))).endWindow = (decInit B S).endWindow := ⟨rfl, rfl, rfl, rfl⟩
  generalize decSub { decInit B S with ext := x } (2147483648 / 2 ^ n) (2 ^ n - w) (2 ^ n - (w + 1))
    (decide (w = 0)) = dpre at *
  obtain ⟨ib, is, ir, inb, iv, io, irem⟩ := dsub
  have nbf : pf.nbitsTotal = pw.nbitsTotal := by rw [← hpf, ← hpw, encSub_nbitsTotal, encSub_nbitsTotal]
  have dinv : DecInv B S pf dpre (setTop B n fl) := by
    refine ⟨ib, is, by rw [ir, vw2, vf2], by rw [inb, nbf], ?_, by rw [af1, ← aw1]; exact io,
      by rw [af1, ← aw1]; exact irem⟩
    rw [aw1, aw2, vw1, vw2] at iv
    rw [af1, af2, vf1, vf2]
    omega
  have dfin := decNormalize_spec B S hby pf dpre (setTop B n fl) hag hbt pref dinv hnb herr hc
  obtain ⟨_, derr, dn, nb, w1, w2, w3⟩ := all0
  have hraw0 : rawN (encNormalize pf) = rawN e0 := by
    unfold rawN; rw [n6, n9, ← hpf, encSub_endOffs, encSub_nendBits]
  refine ⟨dfin, by rw [decNormalize_error, hdraw.1]; exact derr, by rw [decNormalize_nendBits, hdraw.2.1]; exact dn,
    nb, by rw [decNormalize_endOffs, hdraw.2.2.1]; exact w1,
    by rw [decNormalize_nendBits, hdraw.2.1, hraw0]; exact w2,
    by rw [decNormalize_endWindow, decNormalize_nendBits, hdraw.2.2.2, hdraw.2.1, hraw0]; exact w3⟩

/-- **Round trip for patch-style streams.**  The first operation is `ec_encode_bin(fl, fl+1, n)`
    (`1 ≤ n ≤ 8`), the others are those of the round-trip theorem plus any number of
    `ec_enc_patch_initial_bits(v, n)`.  If `ec_enc_done` reports no error (into a non-empty buffer),
    decoding with the same calls — `ec_dec_update` of the first one with the decoded value — returns
    the last patched value `w` for the first operation and the encoded values for all others. -/
theorem decode_encode_patched_all (buf : List Nat) (size n fl : Nat) (rest : List Op) (hs : size ≤ buf.length)
    (hb : BytesOk buf) (hn1 : 1 ≤ n) (hn8 : n ≤ 8) (hfl : fl < 2 ^ n)
    (hl : LegalRunP n (encOp (encInit buf size) (.encodeBin fl (fl + 1) n)) rest)
    (hnb : (encodeAll buf size (.encodeBin fl (fl + 1) n :: rest)).nbitsTotal < 4294967296)
    (herr : (encodeAll buf size (.encodeBin fl (fl + 1) n :: rest)).error = 0) :
    MatchAll (.encodeBin (lastPatch fl rest) (lastPatch fl rest + 1) n :: rest)
      (decRun (decInit ((encodeAll buf size (.encodeBin fl (fl + 1) n :: rest)).buf.take
        (encodeAll buf size (.encodeBin fl (fl + 1) n :: rest)).storage)
        (encodeAll buf size (.encodeBin fl (fl + 1) n :: rest)).storage)
        (.encodeBin (lastPatch fl rest) (lastPatch fl rest + 1) n :: rest)).1 ∧
    DecAll ((encodeAll buf size (.encodeBin fl (fl + 1) n :: rest)).buf.take
        (encodeAll buf size (.encodeBin fl (fl + 1) n :: rest)).storage)
      (encodeAll buf size (.encodeBin fl (fl + 1) n :: rest)).storage
      (encRun (encInit buf size) (.encodeBin fl (fl + 1) n :: rest))
      (decRun (decInit ((encodeAll buf size (.encodeBin fl (fl + 1) n :: rest)).buf.take
        (encodeAll buf size (.encodeBin fl (fl + 1) n :: rest)).storage)
        (encodeAll buf size (.encodeBin fl (fl + 1) n :: rest)).storage)
        (.encodeBin (lastPatch fl rest) (lastPatch fl rest + 1) n :: rest)).2
      ((encodeAll buf size (.encodeBin fl (fl + 1) n :: rest)).buf.take
        (encodeAll buf size (.encodeBin fl (fl + 1) n :: rest)).storage) := by
  unfold encodeAll at hnb herr ⊢
  simp only [encRun] at hnb herr ⊢
  generalize he1 : encOp (encInit buf size) (.encodeBin fl (fl + 1) n) = e1 at *
  have herrF : (encRun e1 rest).error = 0 := by
    apply Classical.byContradiction; intro hne
    exact encDone_error_mono _ hne herr
  have hnF : (encRun e1 rest).nbitsTotal < 4294967296 := by
    have := encDone_nbitsTotal (encRun e1 rest); omega
  have herr1 : e1.error = 0 := by
    apply Classical.byContradiction; intro hne
    exact encRun_error_mono rest _ hne herrF
  have hn1' : e1.nbitsTotal < 4294967296 := Nat.lt_of_le_of_lt (encRun_nbits_mono rest _) hnF
  have ri0 := runInv_encInit buf size hs hb
  have hleg : (Op.encodeBin fl (fl + 1) n).LegalAt (encInit buf size) :=
    ⟨by omega, by omega, hn1, by omega⟩
  have ri1 : RunInv e1 := by
    rw [← he1]; exact (step_op _ _ ri0 hleg (by rw [he1]; exact hn1') (by rw [he1]; exact herr1)).run
  have hcell1 : Cell n fl e1 := by
    rw [← he1]; exact cell_first buf size n fl hs hb hn1 hn8 hfl (by rw [he1]; exact hn1') (by rw [he1]; exact herr1)
  obtain ⟨_, riF, cellF, b3, b4⟩ := run_backP n rest e1 fl ri1 hcell1 hl hnF herrF
  obtain ⟨_, d1, d2, d3, d4, d5⟩ := encDone_spec (encRun e1 rest) riF.inv riF.raw riF.bytes hnF herr
  have hS : 0 < (encRun e1 rest).storage := by
    apply encDone_storage_pos _ riF.inv hnF herr
    by_cases hM : 1 ≤ encM (encRun e1 rest)
    · exact Or.inl hM
    · right
      obtain ⟨_, c2, c3, c4, _⟩ := cellF
      have hM0 : encM (encRun e1 rest) = 0 := by omega
      unfold cellSz at c3 c4
      rw [hM0, Nat.pow_zero, Nat.mul_one, Nat.add_mul, Nat.one_mul] at c4
      rw [hM0, Nat.pow_zero, Nat.mul_one] at c3
      have : 2 ^ (31 - n) ≤ 2 ^ 30 := Nat.pow_le_pow_right (by decide) (by omega)
      omega
  generalize encDone (encRun e1 rest) = eD at *
  rw [d1]
  generalize hSS : (encRun e1 rest).storage = S at *
  generalize hw : lastPatch fl rest = w at *
  have hBt : BytesOk (eD.buf.take S) := bytesOk_take d3 _
  have hby : ∀ i, byteAt (eD.buf.take S) S i < 256 := fun i => byteAt_lt_bytesOk hBt S i
  have hBl : 0 < (eD.buf.take S).length := by
    rw [List.length_take, d2]
    have := riF.inv.wf.storage_le
    omega
  have hc : Contains (eD.buf.take S) S (encRun e1 rest) := by
    unfold Contains at d4 ⊢; rw [codeVal_take]; exact d4
  have hr : RawC (eD.buf.take S) S (encRun e1 rest) := by
    unfold RawC at d5 ⊢; rw [tailVal_take]; exact d5
  have hself := setTop_self (eD.buf.take S) S n w (encRun e1 rest) hS hby hc cellF
  have hc1 := b3 (eD.buf.take S) S hS hBl hby (by rw [hself]; exact hc)
  have hr1 := b4 (eD.buf.take S) S hr
  obtain ⟨m0, a0⟩ := first_dec (eD.buf.take S) hBt S hS hBl buf size n fl w hs hb hn1 hn8 hfl cellF.t_lt hself
    (by rw [he1]; exact hn1') (by rw [he1]; exact herr1) (by rw [he1]; exact hc1)
  rw [he1] at a0
  obtain ⟨m1, a1⟩ := run_decodeP n (eD.buf.take S) hBt S hS hBl rest e1 _ fl ri1 hcell1 hl a0 hnF herrF
    (by rw [hw, hself]; exact hc) hr
  rw [hw, hself] at a1
  simp only [decRun]
  exact ⟨⟨m0, m1⟩, a1⟩

end Opus.RangeCoder
