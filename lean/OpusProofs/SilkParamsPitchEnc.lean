import OpusModel.SilkParams
import OpusProofs.SilkParamsGains
/-
  OpusProofs.SilkParamsPitchEnc — the encoder's pitch-lag outputs equal what `silk_decode_pitch` rebuilds from the two
  transmitted indices (C18 clause "quantising on the encoder side and dequantising gives the values the decoder
  reconstructs", for pitch lags and contours).
-/
namespace Opus.SilkParams
open Opus Opus.Gen

theorem pitchEncLoop_eq (tab : List Int) (cbk : Nat) (c lag lo hi : Int) :
    ∀ (n k : Nat), pitchEncLoop tab cbk c lag lo hi n k = pitchLoop tab cbk c lag lo hi n k := by
  intro n
  induction n with
  | zero => intro k; rfl
  | succ n ih => intro k; unfold pitchEncLoop pitchLoop; rw [ih]

/-- Encoder and decoder select the same contour codebook for the same rate and sub-frame count. -/
theorem pitchEncCodebook_eq (fs : Int) (nb : Nat) (hfs : fs = 8 ∨ fs = 12 ∨ fs = 16) (hnb : nb = 2 ∨ nb = 4) :
    pitchCodebook fs nb = .ok (pitchEncCodebook fs nb) ∧ (pitchEncCodebook fs nb).2 ≤ 34 := by
  rcases hfs with rfl | rfl | rfl <;> rcases hnb with rfl | rfl <;> exact ⟨by decide +kernel, by decide⟩

theorem pitchEncTail_spec (fs : Int) (nb : Nat) (lag cbimax : Int)
    (hfs : fs = 8 ∨ fs = 12 ∨ fs = 16) (hnb : nb = 2 ∨ nb = 4)
    (hl : 2 * fs ≤ lag ∧ lag ≤ 18 * fs) (hc : 0 ≤ cbimax ∧ cbimax < ((pitchEncCodebook fs nb).2 : Int)) :
    ∃ o, pitchEncTail fs nb lag cbimax = .ok o ∧ o.lagIndex = lag - 2 * fs ∧ o.contourIndex = cbimax ∧
      decodePitch o.lagIndex o.contourIndex fs nb = .ok o.pitchOut ∧ o.pitchOut.length = nb ∧
      ∀ l ∈ o.pitchOut, 2 * fs ≤ l ∧ l ≤ 18 * fs := by
  obtain ⟨hcb, hsz⟩ := pitchEncCodebook_eq fs nb hfs hnb
  have hmin : pitchMinLag fs = 2 * fs ∧ pitchMaxLag fs = 18 * fs ∧ SilkNlsf.peMinLagMs * fs = 2 * fs ∧
      SilkNlsf.peMaxLagMs * fs = 18 * fs := by
    rcases hfs with rfl | rfl | rfl <;> decide
  obtain ⟨lags, hd, hlen, hr⟩ := decodePitch_spec (lag - 2 * fs) cbimax fs nb hfs hnb hc.1 (by
    intro cb h; rw [hcb] at h; cases h; exact hc.2)
  have hw16 : wrap16 (lag - 2 * fs) = lag - 2 * fs := by
    unfold wrap16; rcases hfs with rfl | rfl | rfl <;> omega
  have hw8 : wrap8 cbimax = cbimax := by unfold wrap8; omega
  refine ⟨⟨lags, lag - 2 * fs, cbimax⟩, ?_, rfl, rfl, hd, hlen, hr⟩
  unfold decodePitch at hd
  simp only [hcb, bind, Res.bind, hmin.1, hmin.2.1] at hd
  have he : 2 * fs + (lag - 2 * fs) = lag := by omega
  rw [he] at hd
  unfold pitchEncTail
  simp only [hmin.2.2.1, hmin.2.2.2, pitchEncLoop_eq, hd, bind, Res.bind, pure, hw16, hw8]

end Opus.SilkParams
