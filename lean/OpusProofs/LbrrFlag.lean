import OpusModel.RangeCoder
import OpusModel.Framing
/-
  OpusProofs.LbrrFlag — C09 `lbrr_flag_position`: a freshly initialised range decoder
  (celt/entdec.c `ec_dec_init`) returns, for its first eight `ec_dec_bit_logp(·, 1)` calls, the
  eight bits of the first byte of the frame, most significant first.  Hence the bit
  `opus_packet_has_lbrr` extracts from `frames[0][0]` is the bit `silk_Decode` decodes as the LBRR
  flag (dec_API.c:229-234: per channel, `nFramesPerPacket` VAD flags, then the LBRR flag).
  Uses only the model `OpusModel.RangeCoder` (no C08 proof file is imported).
-/
namespace Opus.LbrrFlag
open Opus Opus.RangeCoder

theorem low_eq (b0 h s2 s3 : Nat) :
    b0 * 8388608 + ((h * 256 + s2) * 256 + s3) = ((b0 * 128 + h) * 256 + s2) * 256 + s3 := by omega

theorem low_lt (h s2 s3 : Nat) (h1 : h < 128) (h2 : s2 < 256) (h3 : s3 < 256) : (h * 256 + s2) * 256 + s3 < 8388608 := by
  omega

/-- One iteration of `ec_dec_normalize` (entdec.c:104-116). -/
def stepOf (d : Dec) : Dec :=
  { (readByte d).2 with
    nbitsTotal := d.nbitsTotal + 8, rng := u32 (d.rng * 256), rem := ((readByte d).1 : Int),
    val := (u32 (d.val * 256) + (255 - (d.rem.toNat * 256 + (readByte d).1) / 2 % 256)) % 2147483648 }

theorem norm_step (d : Dec) (h : 0 < d.rng ∧ d.rng ≤ 8388608) : decNormalize d = decNormalize (stepOf d) := by
  rw [decNormalize]; simp only [h, and_self, dite_true]; rfl

theorem norm_done (d : Dec) (h : ¬ (0 < d.rng ∧ d.rng ≤ 8388608)) : decNormalize d = d := by
  rw [decNormalize]; simp only [h, dite_false]

theorem getD_lt (buf : List Nat) (hb : BytesOk buf) (i : Nat) : buf.getD i 0 < 256 := by
  rw [List.getD_eq_getElem?_getD]
  cases h : buf[i]? with
  | none => simp
  | some x =>
    simp only [Option.getD_some]
    obtain ⟨hi, hx⟩ := List.getElem?_eq_some_iff.mp h
    exact hb x (hx ▸ List.getElem_mem hi)

theorem readByte_lt (d : Dec) (hb : BytesOk d.buf) : (readByte d).1 < 256 := by
  unfold readByte
  split
  · exact getD_lt _ hb _
  · show (0 : Nat) < 256; decide

theorem readByte_buf (d : Dec) : (readByte d).2.buf = d.buf := by
  unfold readByte; split <;> rfl

/-- One normalisation step on a state `rng = R = 2^k ≤ 2^23`, `val = R − 1 − X`. -/
theorem step_shape (d : Dec) (R X r : Nat) (hR : d.rng = R) (hRpos : 0 < R) (hRle : R ≤ 8388608) (hX : X < R)
    (hv : d.val + X + 1 = R) (hrem : d.rem = (r : Int)) :
    decNormalize d = decNormalize (stepOf d) ∧ (stepOf d).rng = R * 256 ∧
      (stepOf d).val + (X * 256 + (r * 256 + (readByte d).1) / 2 % 256) + 1 = R * 256 ∧
      (stepOf d).rem = ((readByte d).1 : Int) ∧ (stepOf d).buf = d.buf := by
  refine ⟨norm_step d (by omega), ?_, ?_, rfl, readByte_buf d⟩
  · show u32 (d.rng * 256) = R * 256
    simp only [u32, hR]; omega
  · show (u32 (d.val * 256) + (255 - (d.rem.toNat * 256 + (readByte d).1) / 2 % 256)) % 2147483648 + _ + 1 = _
    have hs : (r * 256 + (readByte d).1) / 2 % 256 < 256 := Nat.mod_lt _ (by decide)
    simp only [u32, hrem, Int.toNat_natCast]
    generalize (r * 256 + (readByte d).1) / 2 % 256 = s at hs
    omega

/-- The state `ec_dec_init` hands to `ec_dec_normalize` (entdec.c:119-133). -/
def initDec (buf : List Nat) (storage offs val : Nat) (rem : Int) : Dec :=
  { buf := buf, storage := storage, endOffs := 0, endWindow := 0, nendBits := 0, nbitsTotal := 9,
    offs := offs, rng := 128, val := val, ext := 0, rem := rem, error := 0 }

theorem decInit_eq (buf : List Nat) (storage : Nat) (hs : 0 < storage) :
    decInit buf storage = decNormalize (initDec buf storage 1 (sub32 (128 - 1) (buf.getD 0 0 / 2)) (buf.getD 0 0 : Nat)) := by
  unfold decInit
  have hrb : readByte (initDec buf storage 0 0 0) = (buf.getD 0 0, initDec buf storage 1 0 0) := by
    unfold readByte initDec; simp only [hs, ↓reduceIte]
  show decNormalize { (readByte (initDec buf storage 0 0 0)).2 with
    rem := ((readByte (initDec buf storage 0 0 0)).1 : Int),
    val := sub32 (128 - 1) ((readByte (initDec buf storage 0 0 0)).1 / 2) } = _
  rw [hrb]; rfl

/-- After `ec_dec_init` on a non-empty frame: `rng = 2^31` and `val = 2^31 − 1 − (b0·2^23 + low)`
    with `low < 2^23`, where `b0` is the first byte of the frame. -/
theorem decInit_shape (buf : List Nat) (storage : Nat) (hb : BytesOk buf) (hs : 0 < storage) :
    ∃ low, low < 8388608 ∧ (decInit buf storage).rng = 2147483648 ∧
      (decInit buf storage).val + (buf.getD 0 0 * 8388608 + low) + 1 = 2147483648 := by
  have hb0 := getD_lt buf hb 0
  rw [decInit_eq buf storage hs]
  generalize buf.getD 0 0 = b0 at *
  have hsub : sub32 (128 - 1) (b0 / 2) = 127 - b0 / 2 := by unfold sub32; omega
  rw [hsub]
  -- three normalisation steps
  obtain ⟨e1, r1, v1, m1, bf1⟩ := step_shape (initDec buf storage 1 (127 - b0 / 2) (b0 : Nat)) 128 (b0 / 2) b0 rfl
    (by decide) (by decide) (by omega) (by show 127 - b0 / 2 + b0 / 2 + 1 = 128; omega) rfl
  have hb1 : (readByte (initDec buf storage 1 (127 - b0 / 2) (b0 : Nat))).1 < 256 := readByte_lt _ hb
  obtain ⟨b1, hb1e⟩ : ∃ b1, (readByte (initDec buf storage 1 (127 - b0 / 2) (b0 : Nat))).1 = b1 := ⟨_, rfl⟩
  rw [hb1e] at v1 m1 hb1
  obtain ⟨d1, hd1⟩ : ∃ d1, stepOf (initDec buf storage 1 (127 - b0 / 2) (b0 : Nat)) = d1 := ⟨_, rfl⟩
  rw [hd1] at e1 r1 v1 m1 bf1
  have hX1 : b0 / 2 * 256 + (b0 * 256 + b1) / 2 % 256 = b0 * 128 + b1 / 2 := by omega
  rw [hX1] at v1
  rw [e1]
  have bf1' : BytesOk d1.buf := by rw [bf1]; exact hb
  have hR2 : (128 : Nat) * 256 = 32768 := by decide
  rw [hR2] at r1 v1
  obtain ⟨e2, r2, v2, m2, bf2⟩ := step_shape d1 32768 (b0 * 128 + b1 / 2) b1 r1 (by decide) (by decide) (by omega) v1 m1
  have hb2 : (readByte d1).1 < 256 := readByte_lt _ bf1'
  obtain ⟨b2, hb2e⟩ : ∃ b2, (readByte d1).1 = b2 := ⟨_, rfl⟩
  rw [hb2e] at v2 m2 hb2
  obtain ⟨s2, hs2e⟩ : ∃ s2, (b1 * 256 + b2) / 2 % 256 = s2 := ⟨_, rfl⟩
  have hs2 : s2 < 256 := by rw [← hs2e]; exact Nat.mod_lt _ (by decide)
  rw [hs2e] at v2
  obtain ⟨d2, hd2⟩ : ∃ d2, stepOf d1 = d2 := ⟨_, rfl⟩
  rw [hd2] at e2 r2 v2 m2 bf2
  rw [e2]
  have hR3 : (32768 : Nat) * 256 = 8388608 := by decide
  rw [hR3] at r2 v2
  obtain ⟨e3, r3, v3, m3, bf3⟩ := step_shape d2 8388608 ((b0 * 128 + b1 / 2) * 256 + s2) b2 r2
    (by decide) (by decide) (by omega) v2 m2
  obtain ⟨s3, hs3e⟩ : ∃ s3, (b2 * 256 + (readByte d2).1) / 2 % 256 = s3 := ⟨_, rfl⟩
  have hs3 : s3 < 256 := by rw [← hs3e]; exact Nat.mod_lt _ (by decide)
  rw [hs3e] at v3
  obtain ⟨d3, hd3⟩ : ∃ d3, stepOf d2 = d3 := ⟨_, rfl⟩
  rw [hd3] at e3 r3 v3
  rw [e3]
  have hR4 : (8388608 : Nat) * 256 = 2147483648 := by decide
  rw [hR4] at r3 v3
  rw [norm_done d3 (by rw [r3]; decide)]
  have hh : b1 / 2 < 128 := by omega
  refine ⟨(b1 / 2 * 256 + s2) * 256 + s3, low_lt _ _ _ hh hs2 hs3, r3, ?_⟩
  rw [low_eq]; exact v3

/-- `ec_dec_bit_logp(·, 1)` on `rng = 2R`, `val = 2R − 1 − Y` with `R > 2^23` (no renormalisation):
    returns the top bit of `Y` and leaves `rng = R`, `val = R − 1 − (Y mod R)`. -/
theorem bit_step (d : Dec) (R Y : Nat) (hR : d.rng = 2 * R) (hv : d.val + Y + 1 = 2 * R) (hY : Y < 2 * R)
    (hbig : 8388608 < R) (hsmall : 2 * R ≤ 2147483648) :
    (decBitLogp d 1).1 = Y / R ∧ (decBitLogp d 1).2.rng = R ∧ (decBitLogp d 1).2.val + Y % R + 1 = R := by
  unfold decBitLogp
  have hs : d.rng / 2 ^ 1 = R := by rw [hR]; omega
  simp only [hs]
  by_cases hlt : Y < R
  · have hdiv : Y / R = 0 := Nat.div_eq_of_lt hlt
    have hmod : Y % R = Y := Nat.mod_eq_of_lt hlt
    have hnot : ¬ d.val < R := by omega
    simp only [hnot, decide_false, Bool.false_eq_true, ↓reduceIte, hdiv, hmod]
    rw [norm_done _ (by simp only [sub32]; omega)]
    refine ⟨trivial, ?_, ?_⟩ <;> simp only [sub32] <;> omega
  · have hdiv : Y / R = 1 := Nat.div_eq_of_lt_le (by omega) (by omega)
    have hmod : Y % R = Y - R := by rw [Nat.mod_eq_sub_mod (by omega), Nat.mod_eq_of_lt (by omega)]
    have hyes : d.val < R := by omega
    simp only [hyes, decide_true, ↓reduceIte, hdiv, hmod]
    rw [norm_done _ (by simp only; omega)]
    refine ⟨trivial, rfl, ?_⟩
    simp only; omega

/-- The returned bit alone, also valid for the last step (`R = 2^23`, after which the decoder
    renormalises). -/
theorem bit_value (d : Dec) (R Y : Nat) (hR : d.rng = 2 * R) (hv : d.val + Y + 1 = 2 * R) (hY : Y < 2 * R) (hRpos : 0 < R) :
    (decBitLogp d 1).1 = Y / R := by
  unfold decBitLogp
  have hs : d.rng / 2 ^ 1 = R := by rw [hR]; omega
  simp only [hs]
  by_cases hlt : Y < R
  · have hdiv : Y / R = 0 := Nat.div_eq_of_lt hlt
    have hnot : ¬ d.val < R := by omega
    simp only [hnot, decide_false, Bool.false_eq_true, ↓reduceIte, hdiv]
  · have hdiv : Y / R = 1 := Nat.div_eq_of_lt_le (by omega) (by omega)
    have hyes : d.val < R := by omega
    simp only [hyes, decide_true, ↓reduceIte, hdiv]

/-- The first `n` results of `ec_dec_bit_logp(·, 1)`. -/
def firstBits (d : Dec) : Nat → List Nat
  | 0 => []
  | n + 1 => (decBitLogp d 1).1 :: firstBits (decBitLogp d 1).2 n

/-- One more bit of the chain. -/
theorem firstBits_step (d : Dec) (R Y n : Nat) (hR : d.rng = 2 * R) (hv : d.val + Y + 1 = 2 * R) (hY : Y < 2 * R)
    (hbig : 8388608 < R) (hsmall : 2 * R ≤ 2147483648) :
    ∃ d' : Dec, firstBits d (n + 1) = Y / R :: firstBits d' n ∧ d'.rng = R ∧ d'.val + Y % R + 1 = R := by
  obtain ⟨a, r, v⟩ := bit_step d R Y hR hv hY hbig hsmall
  exact ⟨(decBitLogp d 1).2, by rw [firstBits, a], r, v⟩

/-- Eight bits from a state `rng = 2^31`, `val = 2^31 − 1 − Y`: the top eight bits of the 31-bit `Y`. -/
theorem firstBits_chain (d : Dec) (Y : Nat) (hr : d.rng = 2147483648) (hv : d.val + Y + 1 = 2147483648) (hY : Y < 2147483648) :
    firstBits d 8 = [Y / 1073741824, Y % 1073741824 / 536870912, Y % 536870912 / 268435456, Y % 268435456 / 134217728,
      Y % 134217728 / 67108864, Y % 67108864 / 33554432, Y % 33554432 / 16777216, Y % 16777216 / 8388608] := by
  obtain ⟨d1, e1, r1, v1⟩ := firstBits_step d 1073741824 Y 7 hr hv hY (by omega) (by omega)
  have m1 : Y % 1073741824 < 2 * 536870912 := by omega
  obtain ⟨d2, e2, r2, v2⟩ := firstBits_step d1 536870912 (Y % 1073741824) 6 r1 v1 m1 (by omega) (by omega)
  have q2 : Y % 1073741824 % 536870912 = Y % 536870912 := by omega
  rw [q2] at v2
  have m2 : Y % 536870912 < 2 * 268435456 := by omega
  obtain ⟨d3, e3, r3, v3⟩ := firstBits_step d2 268435456 (Y % 536870912) 5 r2 v2 m2 (by omega) (by omega)
  have q3 : Y % 536870912 % 268435456 = Y % 268435456 := by omega
  rw [q3] at v3
  have m3 : Y % 268435456 < 2 * 134217728 := by omega
  obtain ⟨d4, e4, r4, v4⟩ := firstBits_step d3 134217728 (Y % 268435456) 4 r3 v3 m3 (by omega) (by omega)
  have q4 : Y % 268435456 % 134217728 = Y % 134217728 := by omega
  rw [q4] at v4
  have m4 : Y % 134217728 < 2 * 67108864 := by omega
  obtain ⟨d5, e5, r5, v5⟩ := firstBits_step d4 67108864 (Y % 134217728) 3 r4 v4 m4 (by omega) (by omega)
  have q5 : Y % 134217728 % 67108864 = Y % 67108864 := by omega
  rw [q5] at v5
  have m5 : Y % 67108864 < 2 * 33554432 := by omega
  obtain ⟨d6, e6, r6, v6⟩ := firstBits_step d5 33554432 (Y % 67108864) 2 r5 v5 m5 (by omega) (by omega)
  have q6 : Y % 67108864 % 33554432 = Y % 33554432 := by omega
  rw [q6] at v6
  have m6 : Y % 33554432 < 2 * 16777216 := by omega
  obtain ⟨d7, e7, r7, v7⟩ := firstBits_step d6 16777216 (Y % 33554432) 1 r6 v6 m6 (by omega) (by omega)
  have q7 : Y % 33554432 % 16777216 = Y % 16777216 := by omega
  rw [q7] at v7
  have m7 : Y % 16777216 < 2 * 8388608 := by omega
  have a8 := bit_value d7 8388608 (Y % 16777216) r7 v7 m7 (by omega)
  rw [e1, e2, e3, e4, e5, e6, e7, firstBits, a8, firstBits]

/-- The top eight bits of `b0·2^23 + low` are the bits of `b0`. -/
theorem top_bits (b0 low : Nat) (hb : b0 < 256) (hl : low < 8388608) :
    [(b0 * 8388608 + low) / 1073741824, (b0 * 8388608 + low) % 1073741824 / 536870912,
      (b0 * 8388608 + low) % 536870912 / 268435456, (b0 * 8388608 + low) % 268435456 / 134217728,
      (b0 * 8388608 + low) % 134217728 / 67108864, (b0 * 8388608 + low) % 67108864 / 33554432,
      (b0 * 8388608 + low) % 33554432 / 16777216, (b0 * 8388608 + low) % 16777216 / 8388608] =
    [b0 / 128 % 2, b0 / 64 % 2, b0 / 32 % 2, b0 / 16 % 2, b0 / 8 % 2, b0 / 4 % 2, b0 / 2 % 2, b0 % 2] := by
  simp only [List.cons.injEq, and_true]
  refine ⟨?_, ?_, ?_, ?_, ?_, ?_, ?_, ?_⟩ <;> omega

/-- The first eight one-bit symbols of a fresh range decoder are the bits of the first byte of the
    frame, most significant first. -/
theorem firstBits_eq (buf : List Nat) (storage : Nat) (hb : BytesOk buf) (hs : 0 < storage) :
    firstBits (decInit buf storage) 8 =
      [buf.getD 0 0 / 128 % 2, buf.getD 0 0 / 64 % 2, buf.getD 0 0 / 32 % 2, buf.getD 0 0 / 16 % 2,
       buf.getD 0 0 / 8 % 2, buf.getD 0 0 / 4 % 2, buf.getD 0 0 / 2 % 2, buf.getD 0 0 % 2] := by
  have hb0 := getD_lt buf hb 0
  obtain ⟨low, hlow, hr, hv⟩ := decInit_shape buf storage hb hs
  rw [firstBits_chain _ (buf.getD 0 0 * 8388608 + low) hr hv (by omega)]
  exact top_bits _ _ hb0 hlow

end Opus.LbrrFlag
