import Mathlib.Analysis.SpecialFunctions.Trigonometric.Basic
import Mathlib.Algebra.BigOperators.Intervals
import Mathlib.Tactic.Ring
import Mathlib.Tactic.Linarith
import Mathlib.Tactic.FieldSimp
import OpusProofs.MdctTdac
/-
  OpusProofs.MdctDct4 — the mathematics behind the structure of celt/mdct.c (property C04):

    (1) `mdct_eq_dct4`  : the MDCT of a block of 2M = 4Q samples is the DCT-IV (size M) of the block folded
                          ("time-domain aliased") to M samples:  X = DCT4 (tdaFold b);
    (2) `imdct_eq_dct4` : the middle half of the IMDCT output is a reversed, negated DCT-IV of the coefficients:
                          imdct X (Q + n) = − DCT4 X (M − 1 − n);
    (3) `rot_core_*`    : a DCT-IV of size M = 2Q is computed by   pre-rotation by e^{-iθ_i}, θ_i = 2π(i + 1/8)/N,
                          N = 4Q  →  Q-point complex DFT  →  post-rotation by e^{-iθ_p}   on the Q complex numbers
                          u(2i) + i·u(M−1−2i)  — the pairing, the twiddles `trig[i] = cos(2π(i+1/8)/N)` and the
                          output interleaving (2p, M−1−2p) are those of clt_mdct_forward_c / clt_mdct_backward_c.
  The complex DFT is written on (re, im) pairs of reals (`dftRe`, `dftIm`): F_k = Σ_j c_j · e^{-2πi·jk/n}.
-/
namespace Opus.MdctR
open Finset Real

/-- DCT-IV kernel `cos(π/M·(m + 1/2)·(k + 1/2))`. -/
noncomputable def c4 (M m k : ℕ) : ℝ := cos (π / M * ((m : ℝ) + 1 / 2) * ((k : ℝ) + 1 / 2))

/-- DCT-IV of size `M` (no normalisation). -/
noncomputable def dct4 (M : ℕ) (u : ℕ → ℝ) (k : ℕ) : ℝ := ∑ n ∈ range M, u n * c4 M n k

/-- The MDCT kernel is the DCT-IV kernel shifted by a quarter block. -/
theorem kern_eq_c4 (Q n k : ℕ) : kern (2 * Q) n k = c4 (2 * Q) (n + Q) k := by
  unfold kern c4
  congr 1
  push_cast
  ring

/-- `c4 (2M − 1 − m) = − c4 m` (odd symmetry about `M − 1/2`, in additive form). -/
theorem c4_reflect (M m m' k : ℕ) (hM : 0 < M) (h : m + m' + 1 = 2 * M) : c4 M m' k = - c4 M m k := by
  unfold c4
  have hM' : (M : ℝ) ≠ 0 := by exact_mod_cast hM.ne'
  have hm : (m' : ℝ) = 2 * M - 1 - m := by
    have := congrArg (Nat.cast : ℕ → ℝ) h
    push_cast at this
    linarith
  have : π / M * ((m' : ℝ) + 1 / 2) * ((k : ℝ) + 1 / 2)
      = (π - π / M * ((m : ℝ) + 1 / 2) * ((k : ℝ) + 1 / 2)) + (k : ℝ) * (2 * π) := by
    rw [hm]; field_simp; ring
  rw [this, cos_add_nat_mul_two_pi, cos_pi_sub]

/-- `c4 (m + 2M) = − c4 m`. -/
theorem c4_shift (M m k : ℕ) (hM : 0 < M) : c4 M (m + 2 * M) k = - c4 M m k := by
  unfold c4
  have hM' : (M : ℝ) ≠ 0 := by exact_mod_cast hM.ne'
  have : π / M * (((m + 2 * M : ℕ) : ℝ) + 1 / 2) * ((k : ℝ) + 1 / 2)
      = (π / M * ((m : ℝ) + 1 / 2) * ((k : ℝ) + 1 / 2) + π) + (k : ℝ) * (2 * π) := by
    push_cast; field_simp; ring
  rw [this, cos_add_nat_mul_two_pi, cos_add_pi]

/-- Time-domain aliasing: the `2M = 4Q` block folded to `M = 2Q` samples. -/
noncomputable def tdaFold (Q : ℕ) (b : ℕ → ℝ) (p : ℕ) : ℝ :=
  if p < Q then - b (3 * Q - 1 - p) - b (3 * Q + p) else b (p - Q) - b (3 * Q - 1 - p)

theorem sum_range_four (Q : ℕ) (f : ℕ → ℝ) :
    ∑ n ∈ range (2 * (2 * Q)), f n
      = ∑ n ∈ range Q, f n + ∑ n ∈ range Q, f (Q + n) + ∑ n ∈ range Q, f (2 * Q + n) + ∑ n ∈ range Q, f (3 * Q + n) := by
  have e : 2 * (2 * Q) = Q + Q + Q + Q := by ring
  rw [e, sum_range_add, sum_range_add, sum_range_add]
  congr 1
  · congr 1
    exact sum_congr rfl fun n _ => by congr 1; ring
  · exact sum_congr rfl fun n _ => by congr 1; ring

theorem sum_range_two (Q : ℕ) (f : ℕ → ℝ) :
    ∑ n ∈ range (2 * Q), f n = ∑ n ∈ range Q, f n + ∑ n ∈ range Q, f (Q + n) := by
  have e : 2 * Q = Q + Q := by ring
  rw [e, sum_range_add]

/-- (1) MDCT = DCT-IV of the folded block. -/
theorem mdct_eq_dct4 (Q : ℕ) (hQ : 0 < Q) (b : ℕ → ℝ) (k : ℕ) :
    mdct (2 * Q) b k = dct4 (2 * Q) (tdaFold Q b) k := by
  have hM : 0 < 2 * Q := by omega
  unfold mdct dct4
  rw [sum_range_four, sum_range_two]
  -- right-hand side, second half: p = Q + n
  have hR2 : ∑ n ∈ range Q, tdaFold Q b (Q + n) * c4 (2 * Q) (Q + n) k
      = ∑ n ∈ range Q, b n * c4 (2 * Q) (Q + n) k - ∑ n ∈ range Q, b (2 * Q - 1 - n) * c4 (2 * Q) (Q + n) k := by
    rw [← sum_sub_distrib]
    refine sum_congr rfl fun n hn => ?_
    have hn' : n < Q := mem_range.mp hn
    unfold tdaFold
    have h1 : ¬ (Q + n < Q) := by omega
    have h2 : Q + n - Q = n := by omega
    have h3 : 3 * Q - 1 - (Q + n) = 2 * Q - 1 - n := by omega
    rw [if_neg h1, h2, h3]; ring
  -- right-hand side, first half
  have hR1 : ∑ n ∈ range Q, tdaFold Q b n * c4 (2 * Q) n k
      = - ∑ n ∈ range Q, b (3 * Q - 1 - n) * c4 (2 * Q) n k - ∑ n ∈ range Q, b (3 * Q + n) * c4 (2 * Q) n k := by
    rw [← sum_neg_distrib, ← sum_sub_distrib]
    refine sum_congr rfl fun n hn => ?_
    have hn' : n < Q := mem_range.mp hn
    unfold tdaFold
    rw [if_pos hn']; ring
  -- the four quarters of the left-hand side
  have hL1 : ∑ n ∈ range Q, b n * kern (2 * Q) n k = ∑ n ∈ range Q, b n * c4 (2 * Q) (Q + n) k := by
    refine sum_congr rfl fun n _ => ?_
    rw [kern_eq_c4, Nat.add_comm n Q]
  have hL2 : ∑ n ∈ range Q, b (Q + n) * kern (2 * Q) (Q + n) k
      = - ∑ n ∈ range Q, b (2 * Q - 1 - n) * c4 (2 * Q) (Q + n) k := by
    rw [← sum_range_reflect (fun n => b (2 * Q - 1 - n) * c4 (2 * Q) (Q + n) k) Q, ← sum_neg_distrib]
    refine sum_congr rfl fun n hn => ?_
    have hn' : n < Q := mem_range.mp hn
    have e1 : 2 * Q - 1 - (Q - 1 - n) = Q + n := by omega
    rw [kern_eq_c4, e1, c4_reflect (2 * Q) (Q + (Q - 1 - n)) (Q + n + Q) k hM (by omega)]
    ring
  have hL3 : ∑ n ∈ range Q, b (2 * Q + n) * kern (2 * Q) (2 * Q + n) k
      = - ∑ n ∈ range Q, b (3 * Q - 1 - n) * c4 (2 * Q) n k := by
    rw [← sum_range_reflect (fun n => b (3 * Q - 1 - n) * c4 (2 * Q) n k) Q, ← sum_neg_distrib]
    refine sum_congr rfl fun n hn => ?_
    have hn' : n < Q := mem_range.mp hn
    have e1 : 3 * Q - 1 - (Q - 1 - n) = 2 * Q + n := by omega
    rw [kern_eq_c4, e1, c4_reflect (2 * Q) (Q - 1 - n) (2 * Q + n + Q) k hM (by omega)]
    ring
  have hL4 : ∑ n ∈ range Q, b (3 * Q + n) * kern (2 * Q) (3 * Q + n) k
      = - ∑ n ∈ range Q, b (3 * Q + n) * c4 (2 * Q) n k := by
    rw [← sum_neg_distrib]
    refine sum_congr rfl fun n _ => ?_
    have e1 : 3 * Q + n + Q = n + 2 * (2 * Q) := by ring
    rw [kern_eq_c4, e1, c4_shift (2 * Q) n k hM]
    ring
  rw [hL1, hL2, hL3, hL4, hR1, hR2]
  ring

/-- (2) The middle half `[Q, 3Q)` of the IMDCT output is the reversed, negated DCT-IV of the coefficients. -/
theorem imdct_eq_dct4 (Q : ℕ) (hQ : 0 < Q) (X : ℕ → ℝ) (n n' : ℕ) (h : n + n' + 1 = 2 * Q) :
    imdct (2 * Q) X (Q + n) = - dct4 (2 * Q) X n' := by
  have hM : 0 < 2 * Q := by omega
  unfold imdct dct4
  rw [← sum_neg_distrib]
  refine sum_congr rfl fun k _ => ?_
  -- kern M (Q+n) k = cos(π/M (k+1/2)(Q+n+Q+1/2)); the DCT-IV kernel is symmetric in (m, k)
  have hsym : ∀ a c : ℕ, c4 (2 * Q) a c = c4 (2 * Q) c a := fun a c => by unfold c4; congr 1; ring
  rw [kern_eq_c4, hsym k n', c4_reflect (2 * Q) n' (Q + n + Q) k hM (by omega)]
  ring

/-! ### DCT-IV by rotation – DFT – rotation -/

/-- `trig[i]` of clt_mdct_init for transform size `N` (celt/mdct.c:99-100). -/
noncomputable def trigR (N i : ℕ) : ℝ := cos (2 * π * ((i : ℝ) + 1 / 8) / N)

/-- The rotation angle `θ_i = 2π(i + 1/8)/N`. -/
noncomputable def theta (N i : ℕ) : ℝ := 2 * π * ((i : ℝ) + 1 / 8) / N

theorem trigR_lo (N i : ℕ) : trigR N i = cos (theta N i) := rfl

/-- `trig[N/4 + i] = −sin θ_i` (a quarter period further). -/
theorem trigR_hi (Q i : ℕ) (hQ : 0 < Q) : trigR (4 * Q) (Q + i) = - sin (theta (4 * Q) i) := by
  unfold trigR theta
  have hQ' : (Q : ℝ) ≠ 0 := by exact_mod_cast hQ.ne'
  have : 2 * π * (((Q + i : ℕ) : ℝ) + 1 / 8) / ((4 * Q : ℕ) : ℝ)
      = 2 * π * ((i : ℝ) + 1 / 8) / ((4 * Q : ℕ) : ℝ) + π / 2 := by
    push_cast; field_simp; ring
  rw [this, cos_add_pi_div_two]

/-- Real part of the `n`-point DFT `F_k = Σ_j (re_j + i·im_j)·e^{-2πi·jk/n}` (what `opus_fft` computes, unscaled). -/
noncomputable def dftRe (n : ℕ) (re im : ℕ → ℝ) (k : ℕ) : ℝ :=
  ∑ j ∈ range n, (re j * cos (2 * π * ((j * k : ℕ) : ℝ) / n) + im j * sin (2 * π * ((j * k : ℕ) : ℝ) / n))

/-- Imaginary part of the same DFT. -/
noncomputable def dftIm (n : ℕ) (re im : ℕ → ℝ) (k : ℕ) : ℝ :=
  ∑ j ∈ range n, (im j * cos (2 * π * ((j * k : ℕ) : ℝ) / n) - re j * sin (2 * π * ((j * k : ℕ) : ℝ) / n))

/-- The angle of the DCT-IV kernel at (2i, 2p). -/
noncomputable def beta (Q i p : ℕ) : ℝ := π / ((2 * Q : ℕ) : ℝ) * (2 * (i : ℝ) + 1 / 2) * (2 * (p : ℝ) + 1 / 2)

theorem angle_sum (Q i p : ℕ) (hQ : 0 < Q) :
    theta (4 * Q) i + 2 * π * ((i * p : ℕ) : ℝ) / Q + theta (4 * Q) p = beta Q i p := by
  unfold theta beta
  have hQ' : (Q : ℝ) ≠ 0 := by exact_mod_cast hQ.ne'
  push_cast; field_simp; ring

/-- The rotated pair sequence: `(a_i + i·b_i)·e^{-iθ_i}`. -/
noncomputable def rotRe (N : ℕ) (a b : ℕ → ℝ) (i : ℕ) : ℝ := a i * cos (theta N i) + b i * sin (theta N i)
noncomputable def rotIm (N : ℕ) (a b : ℕ → ℝ) (i : ℕ) : ℝ := b i * cos (theta N i) - a i * sin (theta N i)

/-- (3a) `Re(F_p·e^{-iθ_p}) = Σ_i a_i·cos β + b_i·sin β`. -/
theorem rot_core_re (Q : ℕ) (hQ : 0 < Q) (a b : ℕ → ℝ) (p : ℕ) :
    dftRe Q (rotRe (4 * Q) a b) (rotIm (4 * Q) a b) p * cos (theta (4 * Q) p)
      + dftIm Q (rotRe (4 * Q) a b) (rotIm (4 * Q) a b) p * sin (theta (4 * Q) p)
      = ∑ i ∈ range Q, (a i * cos (beta Q i p) + b i * sin (beta Q i p)) := by
  unfold dftRe dftIm
  rw [sum_mul, sum_mul, ← sum_add_distrib]
  refine sum_congr rfl fun i _ => ?_
  rw [← angle_sum Q i p hQ]
  unfold rotRe rotIm
  simp only [cos_add, sin_add]
  ring

/-- (3b) `Im(F_p·e^{-iθ_p}) = Σ_i b_i·cos β − a_i·sin β`. -/
theorem rot_core_im (Q : ℕ) (hQ : 0 < Q) (a b : ℕ → ℝ) (p : ℕ) :
    dftIm Q (rotRe (4 * Q) a b) (rotIm (4 * Q) a b) p * cos (theta (4 * Q) p)
      - dftRe Q (rotRe (4 * Q) a b) (rotIm (4 * Q) a b) p * sin (theta (4 * Q) p)
      = ∑ i ∈ range Q, (b i * cos (beta Q i p) - a i * sin (beta Q i p)) := by
  unfold dftRe dftIm
  rw [sum_mul, sum_mul, ← sum_sub_distrib]
  refine sum_congr rfl fun i _ => ?_
  rw [← angle_sum Q i p hQ]
  unfold rotRe rotIm
  simp only [cos_add, sin_add]
  ring

theorem sum_range_even_odd (Q : ℕ) (f : ℕ → ℝ) :
    ∑ n ∈ range (2 * Q), f n = ∑ i ∈ range Q, f (2 * i) + ∑ i ∈ range Q, f (2 * i + 1) := by
  induction Q with
  | zero => simp
  | succ q ih =>
    have e : 2 * (q + 1) = 2 * q + 1 + 1 := by ring
    rw [e, sum_range_succ, sum_range_succ, ih, sum_range_succ, sum_range_succ]
    ring

/-- Even / reflected-odd split of a sum over `[0, 2Q)`: `n = 2i` and `n = 2Q − 1 − 2i`. -/
theorem sum_range_pairs (Q : ℕ) (f : ℕ → ℝ) :
    ∑ n ∈ range (2 * Q), f n = ∑ i ∈ range Q, (f (2 * i) + f (2 * Q - 1 - 2 * i)) := by
  rw [sum_range_even_odd, sum_add_distrib]
  congr 1
  rw [← sum_range_reflect (fun i => f (2 * i + 1)) Q]
  refine sum_congr rfl fun i hi => ?_
  have : i < Q := mem_range.mp hi
  congr 1; omega

/-- Kernel values on the pairing, even output `k = 2p`. -/
theorem c4_even_even (Q i p : ℕ) : c4 (2 * Q) (2 * i) (2 * p) = cos (beta Q i p) := by
  unfold c4 beta; congr 1; push_cast; ring

theorem c4_odd_even (Q i p m : ℕ) (hQ : 0 < Q) (hm : m + 2 * i + 1 = 2 * Q) :
    c4 (2 * Q) m (2 * p) = sin (beta Q i p) := by
  unfold c4 beta
  have hQ' : (Q : ℝ) ≠ 0 := by exact_mod_cast hQ.ne'
  have hmr : (m : ℝ) = 2 * Q - 1 - 2 * i := by
    have := congrArg (Nat.cast : ℕ → ℝ) hm
    push_cast at this; linarith
  have : π / ((2 * Q : ℕ) : ℝ) * ((m : ℝ) + 1 / 2) * (((2 * p : ℕ) : ℝ) + 1 / 2)
      = (π / 2 - π / ((2 * Q : ℕ) : ℝ) * (2 * (i : ℝ) + 1 / 2) * (2 * (p : ℝ) + 1 / 2)) + (p : ℝ) * (2 * π) := by
    rw [hmr]; push_cast; field_simp; ring
  rw [this, cos_add_nat_mul_two_pi, cos_pi_div_two_sub]

/-- Kernel values on the pairing, odd output `k = 2Q − 1 − 2p`. -/
theorem c4_even_odd (Q i p k : ℕ) (hQ : 0 < Q) (hk : k + 2 * p + 1 = 2 * Q) :
    c4 (2 * Q) (2 * i) k = sin (beta Q i p) := by
  unfold c4 beta
  have hQ' : (Q : ℝ) ≠ 0 := by exact_mod_cast hQ.ne'
  have hkr : (k : ℝ) = 2 * Q - 1 - 2 * p := by
    have := congrArg (Nat.cast : ℕ → ℝ) hk
    push_cast at this; linarith
  have : π / ((2 * Q : ℕ) : ℝ) * (((2 * i : ℕ) : ℝ) + 1 / 2) * ((k : ℝ) + 1 / 2)
      = (π / 2 - π / ((2 * Q : ℕ) : ℝ) * (2 * (i : ℝ) + 1 / 2) * (2 * (p : ℝ) + 1 / 2)) + (i : ℝ) * (2 * π) := by
    rw [hkr]; push_cast; field_simp; ring
  rw [this, cos_add_nat_mul_two_pi, cos_pi_div_two_sub]

theorem c4_odd_odd (Q i p m k : ℕ) (hQ : 0 < Q) (hm : m + 2 * i + 1 = 2 * Q) (hk : k + 2 * p + 1 = 2 * Q) :
    c4 (2 * Q) m k = - cos (beta Q i p) := by
  unfold c4 beta
  have hQ' : (Q : ℝ) ≠ 0 := by exact_mod_cast hQ.ne'
  have hmr : (m : ℝ) = 2 * Q - 1 - 2 * i := by
    have := congrArg (Nat.cast : ℕ → ℝ) hm
    push_cast at this; linarith
  have hkr : (k : ℝ) = 2 * Q - 1 - 2 * p := by
    have := congrArg (Nat.cast : ℕ → ℝ) hk
    push_cast at this; linarith
  have : π / ((2 * Q : ℕ) : ℝ) * ((m : ℝ) + 1 / 2) * ((k : ℝ) + 1 / 2)
      = (π / ((2 * Q : ℕ) : ℝ) * (2 * (i : ℝ) + 1 / 2) * (2 * (p : ℝ) + 1 / 2) - π)
        + (((Q : ℤ) - i - p : ℤ) : ℝ) * (2 * π) := by
    rw [hmr, hkr]; push_cast; field_simp; ring
  rw [this, cos_add_int_mul_two_pi, cos_sub_pi]

/-- (3c) even outputs: `Σ_i u(2i)·cos β + u(M−1−2i)·sin β = DCT4 u (2p)`. -/
theorem dct4_even (Q : ℕ) (hQ : 0 < Q) (u : ℕ → ℝ) (p : ℕ) :
    dct4 (2 * Q) u (2 * p)
      = ∑ i ∈ range Q, (u (2 * i) * cos (beta Q i p) + u (2 * Q - 1 - 2 * i) * sin (beta Q i p)) := by
  unfold dct4
  rw [sum_range_pairs]
  refine sum_congr rfl fun i hi => ?_
  have : i < Q := mem_range.mp hi
  rw [c4_even_even, c4_odd_even Q i p (2 * Q - 1 - 2 * i) hQ (by omega)]

/-- (3d) odd outputs: `Σ_i u(M−1−2i)·cos β − u(2i)·sin β = − DCT4 u (M−1−2p)`. -/
theorem dct4_odd (Q : ℕ) (hQ : 0 < Q) (u : ℕ → ℝ) (p k : ℕ) (hk : k + 2 * p + 1 = 2 * Q) :
    - dct4 (2 * Q) u k
      = ∑ i ∈ range Q, (u (2 * Q - 1 - 2 * i) * cos (beta Q i p) - u (2 * i) * sin (beta Q i p)) := by
  unfold dct4
  rw [sum_range_pairs, ← sum_neg_distrib]
  refine sum_congr rfl fun i hi => ?_
  have : i < Q := mem_range.mp hi
  rw [c4_even_odd Q i p k hQ hk, c4_odd_odd Q i p (2 * Q - 1 - 2 * i) k hQ (by omega) hk]
  ring

/-- `dftRe` / `dftIm` are the real and imaginary parts of the complex DFT `F_k = Σ_j c_j·exp(−2πi·jk/n)`,
    `c_j = re_j + i·im_j` — the transform `opus_fft` is defined to compute (celt/kiss_fft.c, unscaled). -/
theorem dft_complex (n : ℕ) (re im : ℕ → ℝ) (k : ℕ) :
    ((dftRe n re im k : ℂ) + (dftIm n re im k : ℂ) * Complex.I)
      = ∑ j ∈ range n, ((re j : ℂ) + (im j : ℂ) * Complex.I)
          * Complex.exp (-(2 * π * ((j * k : ℕ) : ℝ) / n : ℝ) * Complex.I) := by
  unfold dftRe dftIm
  push_cast
  rw [Finset.sum_mul, ← Finset.sum_add_distrib]
  refine sum_congr rfl fun j _ => ?_
  rw [Complex.exp_mul_I]
  simp only [Complex.cos_neg, Complex.sin_neg]
  ring_nf
  rw [Complex.I_sq]
  ring

end Opus.MdctR
