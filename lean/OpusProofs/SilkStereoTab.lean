import OpusModel.SilkStereo
/-
  OpusProofs.SilkStereoTab — facts about the complete regenerated tables of slice C18 Stereo, by kernel evaluation.
-/
namespace OpusProofs.SilkStereoTab
open Opus Opus.SilkParams Opus.SilkStereo

/-- `l` is strictly increasing (adjacent comparison over the whole list). -/
def strictIncr : List Int → Bool
  | [] => true
  | [_] => true
  | a :: b :: r => decide (a < b) && strictIncr (b :: r)

theorem tab_length : tab.length = 16 ∧ tabSize = 16 ∧ subSteps = 5 ∧ halfSubStepQ16 = 6554 ∧ int32Max = 2147483647 := by
  decide +kernel

theorem tab_strictIncr : strictIncr tab = true := by decide +kernel

theorem tab_symmetric : (List.range 16).all (fun i => tab.getD (15 - i) 0 == - tab.getD i 0) = true := by decide +kernel

theorem tab_int16 : tab.all (fun v => decide (-32768 ≤ v ∧ v ≤ 32767)) = true := by decide +kernel

theorem levels_length : levels.length = 75 ∧ visitOrder.length = 75 := by decide +kernel

theorem levels_strictIncr : strictIncr levels = true := by decide +kernel

/-- Every step is positive, fits 16 bits, and ten half-sub-steps do not exceed the table interval. -/
theorem steps_fit : (List.range 15).all (fun i => decide (0 < step i ∧ step i ≤ 368 ∧ 10 * step i ≤ low (i + 1) - low i ∧
    low (i + 1) - low i - 10 * step i ≤ 9)) = true := by decide +kernel

/-- Adjacent levels are at most 736 (= 2 * 368) apart. -/
def gapsLe (g : Int) : List Int → Bool
  | [] => true
  | [_] => true
  | a :: b :: r => decide (b - a ≤ g) && gapsLe g (b :: r)

theorem levels_gaps : gapsLe 736 levels = true := by decide +kernel

theorem levels_ends : levels.head? = some (-13364) ∧ levels.getLast? = some 13362 := by decide +kernel

/-- The level grid is the mirror image of itself up to the rounding remainder of the step (0..9). -/
theorem levels_mirror : (List.range 75).all (fun k => decide (0 ≤ -(levels.getD k 0) - levels.getD (74 - k) 0 ∧
    -(levels.getD k 0) - levels.getD (74 - k) 0 ≤ 9)) = true := by decide +kernel

/-- iCDF tables: sizes, strictly decreasing, final 0 (so that every symbol below the size has non-zero probability). -/
def strictDecr : List Nat → Bool
  | [] => true
  | [_] => true
  | a :: b :: r => decide (b < a) && strictDecr (b :: r)

theorem icdf_tables :
    Gen.SilkStereoTabs.predJointIcdf.length = 25 ∧ Gen.SilkStereoTabs.uniform3Icdf.length = 3 ∧
    Gen.SilkStereoTabs.uniform5Icdf.length = 5 ∧ Gen.SilkStereoTabs.onlyCodeMidIcdf.length = 2 ∧
    strictDecr (256 :: Gen.SilkStereoTabs.predJointIcdf) = true ∧ strictDecr (256 :: Gen.SilkStereoTabs.uniform3Icdf) = true ∧
    strictDecr (256 :: Gen.SilkStereoTabs.uniform5Icdf) = true ∧ strictDecr (256 :: Gen.SilkStereoTabs.onlyCodeMidIcdf) = true ∧
    Gen.SilkStereoTabs.predJointIcdf.getLast? = some 0 ∧ Gen.SilkStereoTabs.uniform3Icdf.getLast? = some 0 ∧
    Gen.SilkStereoTabs.uniform5Icdf.getLast? = some 0 ∧ Gen.SilkStereoTabs.onlyCodeMidIcdf.getLast? = some 0 := by
  decide +kernel

/-- The dequantiser on every index triple: defined, and the value is the level `(a + 3c, b)`, inside the span. -/
theorem decodeOne_all : (List.range 3).all (fun a => (List.range 5).all fun b => (List.range 5).all fun c =>
    decodeOne a b c == .ok (level (a + 3 * c) b) && decide (-13364 ≤ level (a + 3 * c) b ∧ level (a + 3 * c) b ≤ 13362)) = true := by
  decide +kernel

end OpusProofs.SilkStereoTab
