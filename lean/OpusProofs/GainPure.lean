import OpusProofs.GainIndep
/-
  OpusProofs.GainPure — OPUS_SET_GAIN is a pure post-multiplication (C19, slice `Gain`), part 1: CALL HISTORIES.

  `OpusProofs/GainIndep.lean` proves, for every function `f` of the decoder skeleton (`OpusModel/DecSkel.lean`, C01),
  `f (gz r) = gz (f r)` where `gz` = "set decode_gain to 0 and erase the gain-pass events".  Here the simulation is
  lifted to the three API entry points (`decodeApi`: opus_decode / opus_decode24 / opus_decode_float) and to whole call
  histories (`Call`: decode / lost packet / FEC via `.decode` and `.native`, OPUS_RESET_STATE, OPUS_SET_GAIN), with the
  per-call event log as part of the observable result.

  The history of the gain-0 twin is `calls.map gzCall`: every accepted `OPUS_SET_GAIN(v)` becomes `OPUS_SET_GAIN(0)`
  (a rejected one stays: it is rejected for both and changes nothing).
-/
namespace Opus.DecSkel

/-! ### the API wrappers -/

/-- the clamp of :852-859 (16/24-bit entry points) -/
def apiClamp (Fs : Int) (data : Option Bytes) (len frame_size fec : Int) : Option Int :=
  if data.isSome ∧ len > 0 ∧ fec = 0 then
    let nb := nbSamples ((data.getD []).take len.toNat) Fs
    if nb > 0 then some (min frame_size nb) else none
  else some frame_size

/-- the 16/24-bit entry points after the clamp -/
def apiTail (o : Oracle) (sc : Bool) (data : Option Bytes) (len fec : Int) (cl : Option Int) (r : Run) : NativeOut :=
  match cl with
  | none => { ret := .ret INVALID_PACKET, packetOffset := 0, run := r }
  | some fsz =>
    if ¬ (r.st.channels = 1 ∨ r.st.channels = 2) then { ret := .abort, packetOffset := 0, run := r }
    else decodeNative o data len { buf := .pcm, off := 0, cap := fsz * r.st.channels } fsz fec false sc r

theorem decodeApi_eq (o : Oracle) (fmt : Fmt) (data : Option Bytes) (len frame_size fec : Int) (r : Run) :
    decodeApi o fmt data len frame_size fec r =
      if frame_size ≤ 0 then { ret := .ret BAD_ARG, packetOffset := 0, run := r }
      else match fmt with
        | .f32 => decodeNative o data len { buf := .pcm, off := 0, cap := frame_size * r.st.channels } frame_size fec false false r
        | .i16 => apiTail o true data len fec (apiClamp r.st.Fs data len frame_size fec) r
        | .i24 => apiTail o false data len fec (apiClamp r.st.Fs data len frame_size fec) r := by
  cases fmt <;> rfl

theorem apiTail_gz (o : Oracle) (sc : Bool) (data : Option Bytes) (len fec : Int) (cl : Option Int) (r : Run) :
    (apiTail o sc data len fec cl (gz r)).ret = (apiTail o sc data len fec cl r).ret ∧
    (apiTail o sc data len fec cl (gz r)).packetOffset = (apiTail o sc data len fec cl r).packetOffset ∧
    (apiTail o sc data len fec cl (gz r)).run = gz (apiTail o sc data len fec cl r).run := by
  cases cl with
  | none => exact ⟨rfl, rfl, rfl⟩
  | some fsz =>
    by_cases c1 : ¬(r.st.channels = 1 ∨ r.st.channels = 2)
    · have L : apiTail o sc data len fec (some fsz) (gz r) = { ret := .abort, packetOffset := 0, run := gz r } := if_pos c1
      have R : apiTail o sc data len fec (some fsz) r = { ret := .abort, packetOffset := 0, run := r } := if_pos c1
      rw [L, R]; exact ⟨rfl, rfl, rfl⟩
    · have L : apiTail o sc data len fec (some fsz) (gz r) =
          decodeNative o data len { buf := .pcm, off := 0, cap := fsz * r.st.channels } fsz fec false sc (gz r) := if_neg c1
      have R : apiTail o sc data len fec (some fsz) r =
          decodeNative o data len { buf := .pcm, off := 0, cap := fsz * r.st.channels } fsz fec false sc r := if_neg c1
      rw [L, R]; exact decodeNative_gz o data len _ _ fec false _ r

theorem decodeApi_gz (o : Oracle) (fmt : Fmt) (data : Option Bytes) (len frame_size fec : Int) (r : Run) :
    (decodeApi o fmt data len frame_size fec (gz r)).ret = (decodeApi o fmt data len frame_size fec r).ret ∧
    (decodeApi o fmt data len frame_size fec (gz r)).packetOffset = (decodeApi o fmt data len frame_size fec r).packetOffset ∧
    (decodeApi o fmt data len frame_size fec (gz r)).run = gz (decodeApi o fmt data len frame_size fec r).run := by
  rw [decodeApi_eq, decodeApi_eq]
  simp only [gz_st, zg_channels, zg_Fs]
  by_cases c0 : frame_size ≤ 0
  · simp only [if_pos c0]; exact ⟨trivial, trivial, trivial⟩
  · simp only [if_neg c0]
    cases fmt with
    | f32 => exact decodeNative_gz o data len _ frame_size fec false false r
    | i16 => exact apiTail_gz o true data len fec _ r
    | i24 => exact apiTail_gz o false data len fec _ r

/-! ### call histories -/

/-- What one call of a history lets the caller observe: the return value (or abort / hang), `*packet_offset`, and the
    events of this call (oracle calls with their arguments, buffer accesses of the skeleton, newest first). -/
structure CallObs where
  ret : Out Int
  packetOffset : Int
  log : List Ev

/-- One call on a decoder state, started with an empty log and call counter (as C01's `stepCall`), returning the
    observation and the state afterwards.  `.reset` = OPUS_RESET_STATE, `.gain v` = OPUS_SET_GAIN(v) (their return
    codes are the `ret`). -/
def callObs (o : Oracle) (st : DecState) : Call → CallObs × DecState
  | .decode fmt data len fsz fec =>
    let x := decodeApi o fmt data len fsz fec { st, k := 0, log := [] }
    ({ ret := x.ret, packetOffset := x.packetOffset, log := x.run.log }, x.run.st)
  | .native data len fsz fec sd sc =>
    let x := decodeNative o data len { buf := .pcm, off := 0, cap := fsz * st.channels } fsz fec sd sc { st, k := 0, log := [] }
    ({ ret := x.ret, packetOffset := x.packetOffset, log := x.run.log }, x.run.st)
  | .reset => ({ ret := .ret 0, packetOffset := 0, log := [] }, reset st)
  | .gain v => ({ ret := .ret (setGain st v).1, packetOffset := 0, log := [] }, (setGain st v).2)

theorem callObs_st (o : Oracle) (st : DecState) (c : Call) : (callObs o st c).2 = stepCall o st c := by
  cases c <;> rfl

/-- The observations of a whole history and the final state; `os i` is the oracle (the DSP) of call `i`. -/
def runCalls (os : Nat → Oracle) : Nat → DecState → List Call → List CallObs × DecState
  | _, st, [] => ([], st)
  | i, st, c :: cs =>
    ((callObs (os i) st c).1 :: (runCalls os (i + 1) (callObs (os i) st c).2 cs).1,
     (runCalls os (i + 1) (callObs (os i) st c).2 cs).2)

theorem runCalls_st (os : Nat → Oracle) (cs : List Call) : ∀ (i : Nat) (st : DecState),
    (runCalls os i st cs).2 = runHistory os i st cs := by
  induction cs with
  | nil => intro i st; rfl
  | cons c cs ih => intro i st; show (runCalls os (i + 1) (callObs (os i) st c).2 cs).2 = _; rw [ih, callObs_st]; rfl

/-- The same call for the gain-0 twin. -/
def gzCall : Call → Call
  | .gain v => if v < -32768 ∨ v > 32767 then .gain v else .gain 0
  | c => c

/-- Forget the gain events of an observation. -/
def gzObs (x : CallObs) : CallObs := { x with log := x.log.filter notGain }

theorem callObs_gz (o : Oracle) (st : DecState) (c : Call) :
    callObs o (zg st) (gzCall c) = (gzObs (callObs o st c).1, zg (callObs o st c).2) := by
  cases c with
  | decode fmt data len fsz fec =>
    obtain ⟨h1, h2, h3⟩ := decodeApi_gz o fmt data len fsz fec { st, k := 0, log := [] }
    show (({ ret := (decodeApi o fmt data len fsz fec (gz { st, k := 0, log := [] })).ret,
             packetOffset := (decodeApi o fmt data len fsz fec (gz { st, k := 0, log := [] })).packetOffset,
             log := (decodeApi o fmt data len fsz fec (gz { st, k := 0, log := [] })).run.log } : CallObs),
          (decodeApi o fmt data len fsz fec (gz { st, k := 0, log := [] })).run.st) = _
    rw [h1, h2, h3]; rfl
  | native data len fsz fec sd sc =>
    obtain ⟨h1, h2, h3⟩ := decodeNative_gz o data len { buf := .pcm, off := 0, cap := fsz * st.channels } fsz fec sd sc
      { st, k := 0, log := [] }
    show (({ ret := (decodeNative o data len { buf := .pcm, off := 0, cap := fsz * st.channels } fsz fec sd sc
                      (gz { st, k := 0, log := [] })).ret,
             packetOffset := (decodeNative o data len { buf := .pcm, off := 0, cap := fsz * st.channels } fsz fec sd sc
                      (gz { st, k := 0, log := [] })).packetOffset,
             log := (decodeNative o data len { buf := .pcm, off := 0, cap := fsz * st.channels } fsz fec sd sc
                      (gz { st, k := 0, log := [] })).run.log } : CallObs),
          (decodeNative o data len { buf := .pcm, off := 0, cap := fsz * st.channels } fsz fec sd sc
                      (gz { st, k := 0, log := [] })).run.st) = _
    rw [h1, h2, h3]; rfl
  | reset => rfl
  | gain v =>
    by_cases hv : v < -32768 ∨ v > 32767
    · have e : gzCall (.gain v) = .gain v := if_pos hv
      rw [e]
      have s1 : setGain st v = (BAD_ARG, st) := if_pos hv
      have s2 : setGain (zg st) v = (BAD_ARG, zg st) := if_pos hv
      show (({ ret := .ret (setGain (zg st) v).1, packetOffset := 0, log := [] } : CallObs), (setGain (zg st) v).2) =
        (gzObs { ret := .ret (setGain st v).1, packetOffset := 0, log := [] }, zg (setGain st v).2)
      rw [s1, s2]; rfl
    · have e : gzCall (.gain v) = .gain 0 := if_neg hv
      rw [e]
      have s1 : setGain st v = (0, { st with decode_gain := v }) := if_neg hv
      have s2 : setGain (zg st) 0 = (0, { zg st with decode_gain := 0 }) := if_neg (by omega)
      show (({ ret := .ret (setGain (zg st) 0).1, packetOffset := 0, log := [] } : CallObs), (setGain (zg st) 0).2) =
        (gzObs { ret := .ret (setGain st v).1, packetOffset := 0, log := [] }, zg (setGain st v).2)
      rw [s1, s2]; rfl

/-- **Histories.**  The gain-0 twin of any history observes, call by call, the same return values and packet offsets and
    the same events minus the gain passes, and ends in the same state except `decode_gain`. -/
theorem runCalls_gz (os : Nat → Oracle) (cs : List Call) : ∀ (i : Nat) (st : DecState),
    runCalls os i (zg st) (cs.map gzCall) = ((runCalls os i st cs).1.map gzObs, zg (runCalls os i st cs).2) := by
  induction cs with
  | nil => intro i st; rfl
  | cons c cs ih =>
    intro i st
    show ((callObs (os i) (zg st) (gzCall c)).1 :: (runCalls os (i + 1) (callObs (os i) (zg st) (gzCall c)).2 (cs.map gzCall)).1,
          (runCalls os (i + 1) (callObs (os i) (zg st) (gzCall c)).2 (cs.map gzCall)).2) = _
    rw [callObs_gz, ih]
    rfl

/-! ### where the gain pass sits in a frame -/

/-- The gain pass is the last thing a frame logs: it comes after the redundancy frames, the redundancy cross-fades and
    the transition cross-fade, and the state update after it (`prev_mode`, `prev_redundancy`) logs nothing. -/
theorem celtStage_log (o : Oracle) (b : Body) (red : Red) (tr : Bool) (r : Run) :
    (celtStage o b red tr r).2.log =
      (stepGain b (stepTransFade b tr (stepRedCopy b red (stepRedS2C o b red (stepMainCelt o b red (stepRedC2S o b red r)).2)))).log ∧
    (celtStage o b red tr r).1 =
      .ret (if (stepMainCelt o b red (stepRedC2S o b red r)).1 < 0 then (stepMainCelt o b red (stepRedC2S o b red r)).1
            else b.audiosize) :=
  ⟨rfl, rfl⟩

end Opus.DecSkel
