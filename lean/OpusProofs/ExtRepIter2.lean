import OpusProofs.ExtRepIter1
/-
  C16 helper lemmas, part 13: one repeated extension inside a repeat block.
-/
set_option linter.unusedVariables false
namespace Opus.ExtProofs
open Opus Opus.Ext

/-! ### Inside a repeat block -/

theorem matchB_iff {x e : Ext} : matchB x e = true ↔ (x.id = e.id ∧ (x.id < 32 → x.len = e.len)) := by
  unfold matchB
  simp only [Bool.and_eq_true, decide_eq_true_eq, Bool.not_eq_true', Bool.and_eq_false_iff, decide_eq_false_iff_not,
    Decidable.not_not, ne_eq]
  constructor
  · rintro ⟨h1, h2⟩; refine ⟨h1, fun h => ?_⟩; rcases h2 with h2 | h2; exact absurd h h2; exact h2
  · rintro ⟨h1, h2⟩; refine ⟨h1, ?_⟩
    by_cases h : x.id < 32
    · exact Or.inr (h2 h)
    · exact Or.inl h

/-- Iterator state in the middle of replaying a repeat block: repeating into frame `g`; the source region
    is `[p0, p0+plen)`, the next source extension starts at `sq` with `sl` source bytes left; the next
    payload is read at `p`. -/
structure RSt (d : Array Nat) (nbF f g L p0 plen sq sl p : Nat) (ll : Option Nat) (T : Int) (it : Iter) : Prop where
  data : it.data = d
  len : it.len = d.size
  nf : it.nbFrames = nbF
  fm : it.frameMax = nbF
  cf : it.currFrame = f
  rf : it.repeatFrame = g
  rl : it.repeatL = L
  rd : it.repeatData = p0
  rlen : it.repeatLen = plen
  sd : it.srcData = sq
  sl : it.srcLen = sl
  cd : it.currData = p
  cl : it.currLen = (d.size : Int) - p
  ll : it.lastLong = ll
  tsl : it.tsl = T

theorem idByte_facts {nbF : Nat} {a : Ext} (hv : ValidExt nbF a) (flag : Bool) :
    idByte a flag / 2 = a.id.toNat ∧
    (a.id < 32 → idByte a flag % 2 = a.len.toNat) ∧
    (¬ a.id < 32 → idByte a flag % 2 = if flag then 0 else 1) := by
  have h1 := hv.id_lo; have h2 := hv.id_hi; have h3 := hv.len_lo
  by_cases hs : a.id < 32
  · have hl := hv.short hs
    have e : idByte a flag = (a.id * 2 + a.len).toNat := by simp [idByte, hs]
    rw [e]
    exact ⟨by omega, fun _ => by omega, fun h => absurd hs h⟩
  · cases flag
    · have e : idByte a false = (a.id * 2 + 1).toNat := by simp [idByte, hs]
      rw [e]
      exact ⟨by omega, fun h => absurd h hs, fun _ => by simp; omega⟩
    · have e : idByte a true = (a.id * 2 + 0).toNat := by simp [idByte, hs]
      rw [e]
      exact ⟨by omega, fun h => absurd h hs, fun _ => by simp; omega⟩

/-- One repeated extension: source extension `a` (of the region), target `x` of frame `g` whose payload
    (with length bytes unless `forced`) is read at `p`. -/
theorem rep_step {d : Array Nat} {nbF f g L p0 plen sq sl' p : Nat} {ll : Option Nat} {T : Int} {it : Iter}
    {a x : Ext} {rest : List Nat}
    (hR : RSt d nbF f g L p0 plen sq ((extBytes a false).length + sl') p ll T it)
    (hg0 : 0 < g) (hg : g < nbF) (hva : ValidExt nbF a) (hvx : ValidExt nbF x) (hxf : x.frame.toNat = g)
    (hm : matchB x a = true)
    (forced : Bool) (hforced : forced = decide (L = 0 ∧ g + 1 ≥ nbF ∧ some (sq + (extBytes a false).length) = ll))
    (hfl : forced = true → 32 ≤ a.id)
    (hsrc : At d sq (extBytes a false))
    (hat : At d p ((extBytes x forced).tail ++ rest))
    (hend : p + (extBytes x forced).tail.length + rest.length = d.size)
    (hT : forced = true → (rest.length : Int) = T) :
    ∃ it', Steps d it it' [normExt x] ∧
      RSt d nbF f g L p0 plen (sq + (extBytes a false).length) sl' (p + (extBytes x forced).tail.length) ll T it' := by
  obtain ⟨hmid, hmlen⟩ := matchB_iff.mp hm
  obtain ⟨ha2, hasm, halm⟩ := idByte_facts hva false
  have hal := extBytes_length hva false
  have hxl := extBytes_length hvx forced
  have hxpl := payload_length hvx
  have ha_id := hva.id_lo; have ha_id2 := hva.id_hi; have ha_len := hva.len_lo
  have hx_len := hvx.len_lo
  have htl : (extBytes x forced).tail.length = hdrLen x forced + x.len.toNat := by
    have e : (extBytes x forced).tail = (if x.id < 32 ∨ forced = true then ([] : List Nat) else lenBytes x.len.toNat) ++ payload x := rfl
    rw [e, List.length_append, hdr_length]; omega
  rw [htl] at hend ⊢
  -- the source side
  have hsrc0 : d[sq]? = some (idByte a false) := by
    unfold extBytes at hsrc; exact (At.head hsrc).1
  have hskip : skipExtension d sq (((extBytes a false).length + sl' : Nat) : Int) =
      .ok (some (sq + (extBytes a false).length, (sl' : Int), 1 + hdrLen a false)) := by
    by_cases hs : a.id < 32
    · have hh : hdrLen a false = 0 := by simp [hdrLen, hs]
      have := skip_short d sq (((extBytes a false).length + sl' : Nat) : Int) (idByte a false) hsrc0 (by omega) (by omega)
        (by rw [hasm hs, hal, hh]; omega)
      rw [this, hasm hs, hal, hh]
      simp only [Res.ok.injEq, Option.some.injEq, Prod.mk.injEq]
      refine ⟨by omega, by omega, by first | trivial | omega⟩
    · have hh : hdrLen a false = a.len.toNat / 255 + 1 := by simp [hdrLen, hs]
      have hsrc1 : At d (sq + 1) (lenBytes a.len.toNat) := by
        unfold extBytes at hsrc
        have := (At.head hsrc).2
        have hc : ¬ (a.id < 32 ∨ false = true) := by simp [hs]
        simp only [hc, if_false] at this
        exact (this.append).1
      have := skip_long d sq (((extBytes a false).length + sl' : Nat) : Int) (idByte a false) a.len.toNat hsrc0 (by omega)
        (by have := halm hs; simpa using this) hsrc1 (by rw [hal, hh]; omega)
      rw [this, hal, hh]
      simp only [Res.ok.injEq, Option.some.injEq, Prod.mk.injEq]
      refine ⟨by omega, by omega, by first | trivial | omega⟩
  -- payload of `x` sits after its length bytes
  have hatp : At d (p + hdrLen x forced) (payload x) := by
    unfold extBytes at hat
    simp only [List.tail_cons] at hat
    have h1 := (hat.append).1
    have h3 := (h1.append).2
    rw [hdr_length] at h3
    exact h3
  have hrb3 : ¬ (idByte a false ≤ 3) := by omega
  have hcl0 : ¬ it.currLen < 0 := by rw [hR.cl]; omega
  have hrf0 : 0 < it.repeatFrame := by rw [hR.rf]; exact hg0
  have hnext : ∀ r it', repeatBody it = .ok (.ret it' (.ext r)) → next it = .ok (it', .ext r) := by
    intro r it' hb
    have c1 : it.repeatFrame < it.nbFrames := by rw [hR.rf, hR.nf]; exact hg
    have c2 : 0 < it.srcLen := by rw [hR.sl, hal]; omega
    have hrp : repeatPhase it = .ok (it', some (.ext r)) := by
      rw [repeatPhase]
      simp only [c1, c2, if_true]
      split <;> simp_all
    unfold next
    simp only [hcl0, hrf0, if_false, if_true, hrp]
  have hfm : ¬ (it.frameMax ≤ (it.repeatFrame : Int)) := by rw [hR.fm, hR.rf]; omega
  have hfcond : (it.repeatL = 0 ∧ it.repeatFrame + 1 ≥ it.nbFrames ∧ some (sq + (extBytes a false).length) = it.lastLong) ↔
      forced = true := by
    rw [hforced, hR.rl, hR.rf, hR.nf, hR.ll]; simp
  unfold repeatBody at hnext
  rw [hR.data, hR.sd, hR.sl, hsrc0] at hnext
  simp only [hskip, hrb3, if_false] at hnext
  rw [hR.cd, hR.cl, hR.tsl, hR.len] at hnext
  by_cases hs : a.id < 32
  · -- short
    have hnf : ¬ forced = true := by intro h; have := hfl h; omega
    have hff : forced = false := by cases forced; rfl; exact absurd rfl ‹¬ true = true›
    have hxs : x.id < 32 := by omega
    have hxlen : x.len = a.len := hmlen hxs
    have hxshort := hvx.short hxs
    have hhx : hdrLen x forced = 0 := by simp [hdrLen, hxs]
    rw [hhx] at hend hatp ⊢
    have hnc : ¬ (it.repeatL = 0 ∧ it.repeatFrame + 1 ≥ it.nbFrames ∧ some (sq + (extBytes a false).length) = it.lastLong) := by
      rw [hfcond]; exact hnf
    rw [if_neg hnc] at hnext
    rw [skipPayload_short_at d p ((d.size : Int) - p) (idByte a false) T (by omega) (by omega)
      (by rw [hasm hs]; omega)] at hnext
    simp only at hnext
    have hassert : ¬ (((p + idByte a false % 2 : Nat) : Int) ≠ (d.size : Int) - ((d.size : Int) - p - ((idByte a false % 2 : Nat) : Int))) := by
      omega
    simp only [hassert, hfm, if_false] at hnext
    refine ⟨_, Steps.of_next (hnext _ _ rfl) ?_, ?_⟩
    · have : ({ id := idByte a false / 2, frame := it.repeatFrame, off := p + 0,
                len := ((p + idByte a false % 2 : Nat) : Int) - p - ((0 : Nat) : Int) } : ExtRef) =
          { id := x.id.toNat, frame := g, off := p + 0, len := x.len } := by
        rw [ha2, hR.rf, hasm hs]; congr 1
        · omega
        · omega
      rw [this]
      exact toExt_eq hvx g hxf hatp
    · exact ⟨rfl, rfl, hR.nf, hR.fm, hR.cf, hR.rf, hR.rl, hR.rd, hR.rlen, rfl, rfl, by simp only; omega, by simp only; omega, hR.ll, rfl⟩
  · have hxl32 : ¬ x.id < 32 := by omega
    by_cases hfo : forced = true
    · -- last long extension of the last frame, decoded with L = 0
      have hhx : hdrLen x forced = 0 := by simp [hdrLen, hfo]
      rw [hhx] at hend hatp ⊢
      have hc : (it.repeatL = 0 ∧ it.repeatFrame + 1 ≥ it.nbFrames ∧ some (sq + (extBytes a false).length) = it.lastLong) := by
        rw [hfcond]; exact hfo
      rw [if_pos hc] at hnext
      have hTT := hT hfo
      have hb2 : (idByte a false - idByte a false % 2) / 2 = a.id.toNat ∧ (idByte a false - idByte a false % 2) % 2 = 0 := by
        have := halm hs; simp at this; omega
      rw [skipPayload_forced d p ((d.size : Int) - p) _ T (by omega) hb2.2 (by omega)] at hnext
      simp only at hnext
      have hassert : ¬ (((p + ((d.size : Int) - p - T).toNat : Nat) : Int) ≠ (d.size : Int) - T) := by omega
      simp only [hassert, hfm, if_false] at hnext
      refine ⟨_, Steps.of_next (hnext _ _ rfl) ?_, ?_⟩
      · have : ({ id := (idByte a false - idByte a false % 2) / 2, frame := it.repeatFrame, off := p + 0,
                  len := ((p + ((d.size : Int) - p - T).toNat : Nat) : Int) - p - ((0 : Nat) : Int) } : ExtRef) =
            { id := x.id.toNat, frame := g, off := p + 0, len := x.len } := by
          rw [hb2.1, hR.rf]; congr 1
          · omega
          · omega
        rw [this]
        exact toExt_eq hvx g hxf hatp
      · exact ⟨rfl, rfl, hR.nf, hR.fm, hR.cf, hR.rf, hR.rl, hR.rd, hR.rlen, rfl, rfl, by simp only; omega, by simp only; omega, hR.ll, rfl⟩
    · -- long extension with its length bytes
      have hff : forced = false := by cases forced; rfl; exact absurd rfl ‹¬ true = true›
      have hhx : hdrLen x forced = x.len.toNat / 255 + 1 := by simp [hdrLen, hxl32, hff]
      rw [hhx] at hend hatp ⊢
      have hnc : ¬ (it.repeatL = 0 ∧ it.repeatFrame + 1 ≥ it.nbFrames ∧ some (sq + (extBytes a false).length) = it.lastLong) := by
        rw [hfcond]; exact hfo
      rw [if_neg hnc] at hnext
      have hatl : At d p (lenBytes x.len.toNat) := by
        unfold extBytes at hat
        simp only [List.tail_cons] at hat
        have h1 := (hat.append).1
        have hc : ¬ (x.id < 32 ∨ forced = true) := by simp [hxl32, hff]
        simp only [hc, if_false] at h1
        exact (h1.append).1
      rw [skipPayload_long_at d p ((d.size : Int) - p) (idByte a false) x.len.toNat T (by omega)
        (by have := halm hs; simpa using this) hatl (by omega)] at hnext
      simp only at hnext
      have hassert : ¬ (((p + (x.len.toNat / 255 + 1) + x.len.toNat : Nat) : Int) ≠
          (d.size : Int) - ((d.size : Int) - p - (((x.len.toNat / 255 + 1 : Nat) : Int) + x.len.toNat))) := by
        omega
      simp only [hassert, hfm, if_false] at hnext
      refine ⟨_, Steps.of_next (hnext _ _ rfl) ?_, ?_⟩
      · have : ({ id := idByte a false / 2, frame := it.repeatFrame, off := p + (x.len.toNat / 255 + 1),
                  len := ((p + (x.len.toNat / 255 + 1) + x.len.toNat : Nat) : Int) - p - ((x.len.toNat / 255 + 1 : Nat) : Int) } : ExtRef) =
            { id := x.id.toNat, frame := g, off := p + (x.len.toNat / 255 + 1), len := x.len } := by
          rw [ha2, hR.rf]; congr 1
          · omega
          · omega
        rw [this]
        exact toExt_eq hvx g hxf hatp
      · exact ⟨rfl, rfl, hR.nf, hR.fm, hR.cf, hR.rf, hR.rl, hR.rd, hR.rlen, rfl, rfl, by simp only; omega, by simp only; omega, hR.ll, rfl⟩

def itSwitch (it : Iter) : Iter := { it with srcData := it.repeatData, srcLen := it.repeatLen, repeatFrame := it.repeatFrame + 1 }
def itRepStart (it : Iter) (p : Nat) (cl : Int) (l : Nat) : Iter := { it with currData := p, currLen := cl, repeatL := l, repeatFrame := it.currFrame + 1, repeatLen := (it.currData : Int) - it.repeatData, srcData := it.repeatData, srcLen := (it.currData : Int) - it.repeatData }

/-- All source extensions of the current frame were replayed: go on with the next frame. -/
theorem rep_switch {d : Array Nat} {nbF f g L p0 plen sq p : Nat} {ll : Option Nat} {T : Int} {it : Iter}
    (hR : RSt d nbF f g L p0 plen sq 0 p ll T it) (hg0 : 0 < g) (hg : g < nbF) (hp : p ≤ d.size) :
    ∃ it', Steps d it it' [] ∧ RSt d nbF f (g + 1) L p0 plen p0 plen p ll T it' := by
  refine ⟨itSwitch it, ?_, ?_⟩
  · apply Steps.of_next_eq
    have hcl0 : ¬ it.currLen < 0 := by rw [hR.cl]; omega
    have hrf0 : 0 < it.repeatFrame := by rw [hR.rf]; exact hg0
    have c1 : it.repeatFrame < it.nbFrames := by rw [hR.rf, hR.nf]; exact hg
    have c2 : ¬ 0 < it.srcLen := by rw [hR.sl]; omega
    have hrp : repeatPhase it = repeatPhase (itSwitch it) := by
      conv => lhs; rw [repeatPhase]
      simp only [c1, c2, if_true, if_false]
      rfl
    have hcl1 : ¬ (itSwitch it).currLen < 0 := hcl0
    have hrf1 : 0 < (itSwitch it).repeatFrame := by unfold itSwitch; simp
    conv => lhs; unfold next
    conv => rhs; unfold next
    simp only [hcl0, hrf0, hcl1, hrf1, if_false, if_true, hrp]
  · exact ⟨hR.data, hR.len, hR.nf, hR.fm, hR.cf, by unfold itSwitch; simp only; rw [hR.rf], hR.rl, hR.rd, hR.rlen, hR.rd, hR.rlen, hR.cd, hR.cl, hR.ll, hR.tsl⟩

/-- The repeat block is finished (`repeat_frame = nb_frames`): back to the main loop, in the next frame
    when the indicator had `L = 0`. -/
theorem rep_end {d : Array Nat} {nbF f L p0 plen sq sl p : Nat} {ll : Option Nat} {T : Int} {it : Iter}
    (hR : RSt d nbF f nbF L p0 plen sq sl p ll T it) (hf : f + 1 < nbF) (hp : p ≤ d.size) :
    ∃ it', Steps d it it' [] ∧ St d nbF p (if L = 0 then f + 1 else f) it' ∧ Reg it' p none T := by
  refine ⟨repeatEnd it, ?_, ?_, ?_⟩
  · apply Steps.of_next_eq
    have hcl0 : ¬ it.currLen < 0 := by rw [hR.cl]; omega
    have hrf0 : 0 < it.repeatFrame := by rw [hR.rf]; omega
    have c1 : ¬ it.repeatFrame < it.nbFrames := by rw [hR.rf, hR.nf]; omega
    have hrp : repeatPhase it = .ok (repeatEnd it, none) := by
      rw [repeatPhase]; simp only [c1, if_false]
    have e1 : ¬ (repeatEnd it).currLen < 0 := by
      unfold repeatEnd; simp only; split
      · simp only; split <;> omega
      · simp only; omega
    have e2 : ¬ 0 < (repeatEnd it).repeatFrame := by unfold repeatEnd; simp
    conv => lhs; unfold next
    conv => rhs; unfold next
    simp only [hcl0, hrf0, if_false, if_true, hrp, e1, e2]
  · unfold repeatEnd
    by_cases hl : L = 0
    · have hl' : it.repeatL = 0 := by rw [hR.rl]; exact hl
      have hc : ¬ (it.currFrame + 1 ≥ it.nbFrames) := by rw [hR.cf, hR.nf]; omega
      simp only [hl', if_true, hc, if_false, hl]
      exact ⟨hR.data, hR.len, hR.cd, hR.cl, by simp only; rw [hR.cf], rfl, hR.nf, hR.fm⟩
    · have hl' : ¬ it.repeatL = 0 := by rw [hR.rl]; exact hl
      simp only [hl', if_false, hl]
      exact ⟨hR.data, hR.len, hR.cd, hR.cl, hR.cf, rfl, hR.nf, hR.fm⟩
  · unfold repeatEnd Reg
    by_cases hl' : it.repeatL = 0
    · simp only [hl', if_true]; exact ⟨hR.cd, trivial, hR.tsl⟩
    · simp only [hl', if_false]; exact ⟨hR.cd, trivial, hR.tsl⟩

/-- The "repeat these extensions" indicator (`04`: L = 0, `05`: L = 1) starts a repeat block. -/
theorem rep_start {d : Array Nat} {nbF p f p0 : Nat} {ll : Option Nat} {T : Int} {it : Iter} {b : Nat}
    (hs : St d nbF p f it) (hr : Reg it p0 ll T) (hb : d[p]? = some b) (hb2 : b / 2 = 2) (hp0 : p0 ≤ p)
    (hf : f + 1 < nbF) (hp : p + 1 ≤ d.size) :
    ∃ it', Steps d it it' [] ∧ RSt d nbF f (f + 1) (b % 2) p0 (p - p0) p0 (p - p0) (p + 1) ll T it' := by
  obtain ⟨r1, r2, r3⟩ := hr
  have hcl : 0 < it.currLen := by rw [hs.cl]; omega
  have hsk : skipExtension d p ((d.size : Int) - p) = .ok (some (p + 1, (d.size : Int) - p - 1, 1)) := by
    unfold skipExtension
    have h1 : ¬ ((d.size : Int) - p = 0) := by omega
    have h2 : ¬ ((d.size : Int) - p < 1) := by omega
    simp only [h1, h2, if_false, hb]
    unfold skipPayload
    simp [hb2]
  have hmb : mainBody it = .ok (.rep (itRepStart it (p + 1) ((d.size : Int) - p - 1) (b % 2))) := by
    unfold mainBody
    rw [hs.data, hs.cd, hs.cl, hb, hsk]
    have ha : ¬ (((p + 1 : Nat) : Int) ≠ it.len - ((d.size : Int) - p - 1)) := by rw [hs.len]; omega
    have c1 : ¬ (b / 2 = 1) := by omega
    have c2' : ¬ ((2 : Nat) = 1) := by decide
    simp only [ha, c2', hb2, if_false, if_true]
    unfold itRepStart
    simp only [hs.data, hs.cd]
  refine ⟨itRepStart it (p + 1) ((d.size : Int) - p - 1) (b % 2), ?_, ?_⟩
  · apply Steps.of_next_eq
    have a1 : ¬ it.currLen < 0 := by omega
    have a2 : ¬ 0 < it.repeatFrame := by rw [hs.rf]; omega
    have a3 : ¬ it.frameMax ≤ (it.currFrame : Int) := by rw [hs.fm, hs.cf]; omega
    conv => lhs; unfold next
    simp only [a1, a2, a3, if_false]
    rw [mainLoop_eq]
    simp only [hcl, if_true, hmb]
    conv => rhs; unfold next
    have b1 : ¬ ((itRepStart it (p + 1) ((d.size : Int) - p - 1) (b % 2)).currLen < 0) := by unfold itRepStart; simp only; omega
    have b2 : 0 < (itRepStart it (p + 1) ((d.size : Int) - p - 1) (b % 2)).repeatFrame := by unfold itRepStart; simp
    simp only [b1, b2, if_false, if_true]
    cases hrp : repeatPhase (itRepStart it (p + 1) ((d.size : Int) - p - 1) (b % 2)) with
    | ok v => obtain ⟨i3, o⟩ := v; cases o <;> rfl
    | err e => rfl
    | oob => rfl
    | abort => rfl
  · unfold itRepStart
    exact ⟨hs.data, hs.len, hs.nf, hs.fm, hs.cf, by simp only; rw [hs.cf], rfl, r1, by simp only; rw [hs.cd, r1]; omega, r1, by simp only; rw [hs.cd, r1]; omega, rfl, by simp only; omega, r2, r3⟩

/-- A padding byte `01` inside the source region is skipped when the region is replayed
    (`if (repeat_id_byte <= 3) continue;`, extensions.c:176). -/
theorem rep_skip_one {d : Array Nat} {nbF f g L p0 plen sq sl p : Nat} {ll : Option Nat} {T : Int} {it : Iter}
    (hR : RSt d nbF f g L p0 plen sq (sl + 1) p ll T it) (hg0 : 0 < g) (hg : g < nbF) (hb : d[sq]? = some 1) (hp : p ≤ d.size) :
    ∃ it', Steps d it it' [] ∧ RSt d nbF f g L p0 plen (sq + 1) sl p ll T it' := by
  have hsk : skipExtension d sq (((sl + 1 : Nat)) : Int) = .ok (some (sq + 1, (sl : Int), 1)) := by
    unfold skipExtension
    have h1 : ¬ (((sl + 1 : Nat) : Int) = 0) := by omega
    have h2 : ¬ (((sl + 1 : Nat) : Int) < 1) := by omega
    simp only [h1, h2, if_false, hb]
    unfold skipPayload
    simp only [show (1 : Nat) / 2 = 0 from rfl, show (1 : Nat) % 2 = 1 from rfl, true_and, true_or, if_true]
    simp only [Res.ok.injEq, Option.some.injEq, Prod.mk.injEq, and_true, true_and]
    omega
  have hbody : repeatBody it = .ok (.cont { it with srcData := sq + 1, srcLen := (sl : Int) }) := by
    unfold repeatBody
    rw [hR.data, hR.sd, hR.sl, hb]
    simp only [hsk]
    have : (1 : Nat) ≤ 3 := by omega
    simp only [this, if_true]
  refine ⟨{ it with srcData := sq + 1, srcLen := (sl : Int) }, ?_, ?_⟩
  · apply Steps.of_next_eq
    have hcl0 : ¬ it.currLen < 0 := by rw [hR.cl]; omega
    have hrf0 : 0 < it.repeatFrame := by rw [hR.rf]; exact hg0
    have c1 : it.repeatFrame < it.nbFrames := by rw [hR.rf, hR.nf]; exact hg
    have c2 : 0 < it.srcLen := by rw [hR.sl]; omega
    have hrp : repeatPhase it = repeatPhase { it with srcData := sq + 1, srcLen := (sl : Int) } := by
      conv => lhs; rw [repeatPhase]
      simp only [c1, c2, if_true]
      split <;> simp_all
    conv => lhs; unfold next
    conv => rhs; unfold next
    simp only [hcl0, hrf0, if_false, if_true, hrp]
  · exact ⟨hR.data, hR.len, hR.nf, hR.fm, hR.cf, hR.rf, hR.rl, hR.rd, hR.rlen, rfl, rfl, hR.cd, hR.cl, hR.ll, hR.tsl⟩

theorem rep_skip_ones {d : Array Nat} {nbF f g L p0 plen p : Nat} {ll : Option Nat} {T : Int} (hg0 : 0 < g) (hg : g < nbF)
    (hp : p ≤ d.size) : ∀ (k sq sl : Nat) (it : Iter), RSt d nbF f g L p0 plen sq (k + sl) p ll T it →
    At d sq (List.replicate k 1) → ∃ it', Steps d it it' [] ∧ RSt d nbF f g L p0 plen (sq + k) sl p ll T it' := by
  intro k
  induction k with
  | zero => intro sq sl it hR _; exact ⟨it, Steps.refl d it, by simpa using hR⟩
  | succ k ih =>
    intro sq sl it hR hat
    rw [List.replicate_succ] at hat
    obtain ⟨h0, hrest⟩ := At.head hat
    obtain ⟨it1, hs1, hR1⟩ := rep_skip_one (sl := k + sl) (by rw [show k + sl + 1 = k + 1 + sl by omega]; exact hR) hg0 hg h0 hp
    obtain ⟨it2, hs2, hR2⟩ := ih (sq + 1) sl it1 hR1 hrest
    exact ⟨it2, by simpa using hs1.trans hs2, by rw [show sq + (k + 1) = sq + 1 + k by omega]; exact hR2⟩

/-- Padding bytes `01` before the first extension are skipped by the main loop; `repeat_data` stays. -/
theorem ones_steps {d : Array Nat} {nbF cur : Nat} : ∀ (k p : Nat) (it : Iter), St d nbF p cur it → cur < nbF →
    At d p (List.replicate k 1) → p + k ≤ d.size →
    ∃ it', Steps d it it' [] ∧ St d nbF (p + k) cur it' ∧ it'.repeatData = it.repeatData ∧ it'.lastLong = it.lastLong := by
  intro k
  induction k with
  | zero => intro p it hs _ _ _; exact ⟨it, Steps.refl d it, by simpa using hs, rfl, rfl⟩
  | succ k ih =>
    intro p it hs hcur hat hend
    rw [List.replicate_succ] at hat
    obtain ⟨h0, hrest⟩ := At.head hat
    have hcl : 0 < it.currLen := by rw [hs.cl]; omega
    have hsk : skipExtension d p ((d.size : Int) - p) = .ok (some (p + 1, (d.size : Int) - p - 1, 1)) := by
      unfold skipExtension
      have h1 : ¬ ((d.size : Int) - p = 0) := by omega
      have h2 : ¬ ((d.size : Int) - p < 1) := by omega
      simp only [h1, h2, if_false, h0]
      unfold skipPayload
      simp only [show (1 : Nat) / 2 = 0 from rfl, show (1 : Nat) % 2 = 1 from rfl, true_and, true_or, if_true]
    have hmb : mainBody it = .ok (.cont { it with currData := p + 1, currLen := (d.size : Int) - p - 1 }) := by
      unfold mainBody
      rw [hs.data, hs.cd, hs.cl, h0, hsk]
      have ha : ¬ (((p + 1 : Nat) : Int) ≠ it.len - ((d.size : Int) - p - 1)) := by rw [hs.len]; omega
      simp only [ha, if_false, show (1 : Nat) / 2 = 0 from rfl]
      simp
    have hst1 : St d nbF (p + 1) cur { it with currData := p + 1, currLen := (d.size : Int) - p - 1 } :=
      ⟨hs.data, hs.len, rfl, by simp only; omega, hs.cf, hs.rf, hs.nf, hs.fm⟩
    obtain ⟨it2, hs2, hst2, hr2, hl2⟩ := ih (p + 1) _ hst1 hcur hrest (by omega)
    refine ⟨it2, ?_, by rw [show p + (k + 1) = p + 1 + k by omega]; exact hst2, hr2, hl2⟩
    have hstep : Steps d it { it with currData := p + 1, currLen := (d.size : Int) - p - 1 } [] := by
      apply Steps.of_next_eq
      have a1 : ¬ it.currLen < 0 := by omega
      have a2 : ¬ 0 < it.repeatFrame := by rw [hs.rf]; omega
      have a3 : ¬ it.frameMax ≤ (it.currFrame : Int) := by rw [hs.fm, hs.cf]; omega
      conv => lhs; unfold next
      simp only [a1, a2, a3, if_false]
      rw [mainLoop_eq]
      simp only [hcl, if_true, hmb]
      conv => rhs; unfold next
      have b1 : ¬ ((d.size : Int) - p - 1 < 0) := by omega
      simp only [b1, a2, a3, if_false]
    simpa using hstep.trans hs2

end Opus.ExtProofs
