import OpusProofs.CeltBandsSync2
import OpusProofs.CeltBandsFault
/-
  OpusProofs.CeltFrameMain — the CELT frame round trip: header (OpusProofs/CeltHdrMain.lean) followed by everything
  behind `clt_compute_allocation` — fine energy, `quant_all_bands`, anti-collapse bit, `quant_energy_finalise` — up to
  the final range.
-/
namespace OpusProofs.CeltHdr
open Opus Opus.RangeCoder Opus.CeltSymsEnc
open Opus.CeltBandsEnc (ESt)
open Opus.CeltBands (BSt)

/-- The two sides call `quant_all_bands` with the same arguments. -/
theorem bandsIn_eq (cfg : EncCfg) (hdr : EncHdr) (dh : Opus.CeltSyms.CeltHdr) (len : Nat) (hlen : len = hdr.size)
    (h1 : dh.isTransient = hdr.isTransient) (h2 : dh.tfRes = hdr.tfRes) (h3 : dh.antiCollapseRsv = hdr.antiCollapseRsv) :
    Opus.CeltBands.bandsIn (cfgD cfg) len dh hdr.alloc = Opus.CeltBandsEnc.bandsIn cfg hdr := by
  unfold Opus.CeltBands.bandsIn Opus.CeltBandsEnc.bandsIn
  rw [h1, h2, h3, hlen]

/-- Everything behind the allocation, in lock-step. -/
theorem afterAlloc_step (w : World) (P0 : List Op) (cfg : EncCfg) (hdr : EncHdr) (dh : Opus.CeltSyms.CeltHdr) (len : Nat)
    (hlen : len = hdr.size) (h1 : dh.isTransient = hdr.isTransient) (h2 : dh.tfRes = hdr.tfRes)
    (h3 : dh.antiCollapseRsv = hdr.antiCollapseRsv) :
    Step w P0 (Opus.CeltBandsEnc.afterAlloc cfg hdr) (Opus.CeltBands.afterAlloc (cfgD cfg) len dh hdr.alloc) := by
  intro e d
  unfold Opus.CeltBandsEnc.afterAlloc Opus.CeltBands.afterAlloc
  rw [bandsIn_eq cfg hdr dh len hlen h1 h2 h3, h3, hlen]
  simp only []
  have a := Step.comp (fineLoop_step w P0 cfg.C (hdr.alloc.bands.map (·.ebits)))
    (bandLoop_step w P0 (Opus.CeltBandsEnc.bandsIn cfg hdr) (cfg.end_ - cfg.start) cfg.start (hdr.alloc.dualStereo ≠ 0)
      hdr.alloc.balance) e d
  simp only [] at a
  generalize Opus.CeltBandsEnc.bandLoop (Opus.CeltBandsEnc.bandsIn cfg hdr) (cfg.end_ - cfg.start) cfg.start
    (decide (hdr.alloc.dualStereo ≠ 0)) hdr.alloc.balance
    (Opus.CeltBandsEnc.fineLoop cfg.C (hdr.alloc.bands.map (·.ebits)) e) = e1 at a ⊢
  generalize Opus.CeltBands.bandLoop (Opus.CeltBandsEnc.bandsIn cfg hdr) (cfg.end_ - cfg.start) cfg.start
    (decide (hdr.alloc.dualStereo ≠ 0)) hdr.alloc.balance
    (Opus.CeltBands.fineLoop cfg.C (hdr.alloc.bands.map (·.ebits)) d) = d1 at a ⊢
  -- the anti-collapse bit
  have b : Ext0 e1.s (if hdr.antiCollapseRsv > 0 then (e1.raw 1).2 else e1).s ∧
      (∀ {A : List Op}, Sim w P0 A e1 d1 → w.IsPrefix (P0 ++ (if hdr.antiCollapseRsv > 0 then (e1.raw 1).2 else e1).s.ops) →
        Sim w P0 A (if hdr.antiCollapseRsv > 0 then (e1.raw 1).2 else e1) (if hdr.antiCollapseRsv > 0 then (d1.raw 1).2 else d1)) := by
    by_cases hc : hdr.antiCollapseRsv > 0
    · simp only [hc, if_true]
      exact (raw_step w P0 1).snd e1 d1
    · simp only [hc, if_false]
      exact ⟨Ext0.refl _, fun h _ => h⟩
  generalize (if hdr.antiCollapseRsv > 0 then (e1.raw 1).2 else e1) = e2 at b ⊢
  generalize (if hdr.antiCollapseRsv > 0 then (d1.raw 1).2 else d1) = d2 at b ⊢
  have c := finalise_step w P0 cfg.C (hdr.alloc.bands.map fun x => (x.ebits, x.prio)) (((hdr.size * 8 : Nat) : Int) - tell e2.s.e) e2 d2
  refine ⟨(a.1.trans b.1).trans c.1, fun hs hp => ?_⟩
  have p2 := prefix_of_ext0 c.1 hp
  have p1 := prefix_of_ext0 b.1 p2
  have s2 := b.2 (a.2 hs p1) p2
  obtain ⟨t, _⟩ := s2.tells p2
  rw [t]
  exact c.2 s2 hp

/-! ### The decoder model's trace -/

open Opus.CeltSyms (CEv)

/-- the events C03's model records for one encoder call, with the encoder's values: `ec_dec_uint`, `ec_dec_bits` and
    `ec_dec_bit_logp` return the coded value; `ec_decode` returns a point of the coded interval and `ec_dec_update` is
    called with the encoder's `fl`, `fh`, `ft` -/
def EvOk : Op → List CEv → Prop
  | .uint v ft, evs => evs = [.uint ft v]
  | .bits v n, evs => evs = [.raw n v]
  | .bitLogp v logp, evs => evs = [.bit logp (if v ≠ 0 then 1 else 0)]
  | .encode fl fh ft, evs => ∃ fs, fl ≤ fs ∧ fs < fh ∧ evs = [.dec ft fs, .upd fl fh ft]
  | _, evs => evs = []

/-- a trace that is, call by call, what the encoder's calls `ops` stand for -/
def TraceOk : List Op → List CEv → Prop
  | [], evs => evs = []
  | op :: r, evs => ∃ e1 e2, evs = e1 ++ e2 ∧ EvOk op e1 ∧ TraceOk r e2

theorem evOf_ok (w : World) (P : List Op) (op : Op) (h : w.IsPrefix (P ++ [op])) : EvOk op (evOf (w.decAt P) op) := by
  obtain ⟨m, _⟩ := w.next P op h
  cases op with
  | uint v ft => show _ = _; have m' : (decUint (w.decAt P) ft).1 = v := m; simp only [evOf, m']
  | bits v n => show _ = _; have m' : (decBits (w.decAt P) n).1 = v := m; simp only [evOf, m']
  | bitLogp v logp =>
    show _ = _
    have m' : (decBitLogp (w.decAt P) logp).1 = if v ≠ 0 then 1 else 0 := m
    simp only [evOf, m']
  | encode fl fh ft =>
    have m' : fl ≤ (RangeCoder.decode (w.decAt P) ft).1 ∧ (RangeCoder.decode (w.decAt P) ft).1 < fh := m
    exact ⟨_, m'.1, m'.2, rfl⟩
  | encodeBin _ _ _ => rfl
  | icdf _ _ _ => rfl
  | icdf16 _ _ _ => rfl
  | patchInitial _ _ => rfl
  | shrink _ => rfl

theorem traceOk_evs (w : World) : ∀ (δ P : List Op), w.IsPrefix (P ++ δ) → TraceOk δ (evsFrom w P δ)
  | [], _, _ => rfl
  | op :: r, P, h => by
    have h1 : w.IsPrefix (P ++ [op]) := by
      have : P ++ op :: r = (P ++ [op]) ++ r := by simp
      rw [this] at h; exact World.isPrefix_of_append h
    have h2 : w.IsPrefix ((P ++ [op]) ++ r) := by simpa using h
    exact ⟨_, _, rfl, evOf_ok w P op h1, traceOk_evs w r (P ++ [op]) h2⟩

/-- the band data only appends calls -/
theorem afterAlloc_ext (w : World) (P0 : List Op) (cfg : EncCfg) (hdr : EncHdr) (e : ESt) :
    Ext0 e.s (Opus.CeltBandsEnc.afterAlloc cfg hdr e).s := by
  unfold Opus.CeltBandsEnc.afterAlloc
  simp only []
  have d : BSt := { rem := 0, c := e.s.e, tr := [], fault := false }
  have a := (Step.comp (fineLoop_step w P0 cfg.C (hdr.alloc.bands.map (·.ebits)))
    (bandLoop_step w P0 (Opus.CeltBandsEnc.bandsIn cfg hdr) (cfg.end_ - cfg.start) cfg.start (hdr.alloc.dualStereo ≠ 0)
      hdr.alloc.balance) e d).1
  simp only [] at a
  generalize Opus.CeltBandsEnc.bandLoop (Opus.CeltBandsEnc.bandsIn cfg hdr) (cfg.end_ - cfg.start) cfg.start
    (decide (hdr.alloc.dualStereo ≠ 0)) hdr.alloc.balance
    (Opus.CeltBandsEnc.fineLoop cfg.C (hdr.alloc.bands.map (·.ebits)) e) = e1 at a ⊢
  have b : Ext0 e1.s (if hdr.antiCollapseRsv > 0 then (e1.raw 1).2 else e1).s := by
    by_cases hc : hdr.antiCollapseRsv > 0
    · simp only [hc, if_true]; exact Ext0.step _ _
    · simp only [hc, if_false]; exact Ext0.refl _
  generalize (if hdr.antiCollapseRsv > 0 then (e1.raw 1).2 else e1) = e2 at b ⊢
  exact (a.trans b).trans (finalise_step w P0 cfg.C _ _ e2 d).1

/-- What the frame round trip adds to `HdrAgree`: C03's decoder model of the rest of the frame (`afterAlloc`: fine
    energy, band data, anti-collapse bit, finalise), started where the allocation left the decoder, ends in lock-step
    with the encoder — same final range. -/
structure FrameAgree (w : World) (P0 : List Op) (cfg : EncCfg) (fr : Opus.CeltBandsEnc.EncFrame)
    (dh : Opus.CeltSyms.CeltHdr) : Prop where
  hdr : HdrAgree w P0 cfg fr.hdr dh
  /-- the encoder's calls of the frame extend those of the header -/
  opsExt : ∃ δ, fr.ops = fr.hdr.ops ++ δ
  encFin : fr.fin = w.encAt (P0 ++ fr.ops)
  decFin : (Opus.CeltBands.afterAlloc (cfgD cfg) w.len dh fr.hdr.alloc
      { rem := 0, c := w.decAt (P0 ++ fr.hdr.ops), tr := [], fault := false }).c = w.decAt (P0 ++ fr.ops)
  noFault : (Opus.CeltBands.afterAlloc (cfgD cfg) w.len dh fr.hdr.alloc
      { rem := 0, c := w.decAt (P0 ++ fr.hdr.ops), tr := [], fault := false }).fault = false
  /-- the decoder model's trace of entropy-decoder calls (in call order) is the encoder's call list behind the
      allocation with the encoder's values -/
  trace : ∃ δ, fr.ops = fr.hdr.ops ++ δ ∧ TraceOk δ (Opus.CeltBands.afterAlloc (cfgD cfg) w.len dh fr.hdr.alloc
      { rem := 0, c := w.decAt (P0 ++ fr.hdr.ops), tr := [], fault := false }).tr.reverse
  /-- `OPUS_GET_FINAL_RANGE` agrees -/
  rngFin : (Opus.CeltBands.afterAlloc (cfgD cfg) w.len dh fr.hdr.alloc
      { rem := 0, c := w.decAt (P0 ++ fr.hdr.ops), tr := [], fault := false }).c.rng = fr.fin.rng
  tellFin : tell (Opus.CeltBands.afterAlloc (cfgD cfg) w.len dh fr.hdr.alloc
      { rem := 0, c := w.decAt (P0 ++ fr.hdr.ops), tr := [], fault := false }).c = tell fr.fin
  tellFracFin : tellFrac (Opus.CeltBands.afterAlloc (cfgD cfg) w.len dh fr.hdr.alloc
      { rem := 0, c := w.decAt (P0 ++ fr.hdr.ops), tr := [], fault := false }).c = tellFrac fr.fin

/-- **The CELT frame round trip** (non-silent frame), decoder side stated with C03's `celtHeader` and `afterAlloc`. -/
theorem frame_roundtrip (w : World) (P0 : List Op) (cfg : EncCfg) (s0 : St) (hs0 : s0.ops = [])
    (he0 : s0.e = w.encAt P0) (hst0 : s0.e.storage = cfg.size)
    (fr : Opus.CeltBandsEnc.EncFrame) (hrun : Opus.CeltBandsEnc.encFrame cfg s0 = .ok fr) (hsil : fr.hdr.silence = 0)
    (hp : w.IsPrefix (P0 ++ fr.ops))
    (hcfg : cfg.start < cfg.end_ ∧ cfg.end_ ≤ 21 ∧ (cfg.C = 1 ∨ cfg.C = 2) ∧ cfg.LM ≤ 3)
    (hsz : cfg.size ≤ 1275) (hlen : w.len = fr.hdr.size)
    (hmargin : w.len = cfg.size ∨ (tell (w.encAt (P0 ++ fr.hdr.opsHdr)) + 16 ≤ ((w.len * 8 : Nat) : Int) ∧
       (tellFrac (w.encAt (P0 ++ fr.hdr.opsHdr)) : Int) + fr.hdr.totalBoost + 48 < ((w.len * 8 * 8 : Nat) : Int)))
    (hroom : tell s0.e < ((w.len * 8 : Nat) : Int))
    (htap : fr.hdr.pf.on ≠ 0 → tell (w.encAt (P0 ++ fr.hdr.opsPf.dropLast)) + 2 ≤ ((w.len * 8 : Nat) : Int))
    (hint : (cfg.start : Int) ≤ fr.hdr.allocInp.intensity)
    (hdual : fr.hdr.allocInp.dualStereo = 0 ∨ fr.hdr.allocInp.dualStereo = 1) :
    ∃ dh, Opus.CeltSyms.celtHeader (cfgD cfg) w.len (w.decAt P0) = .ok dh ∧ FrameAgree w P0 cfg fr dh := by
  unfold Opus.CeltBandsEnc.encFrame at hrun
  cases hh : encHeader cfg s0 with
  | ok h =>
    rw [hh] at hrun
    simp only [] at hrun
    injection hrun with hrun
    subst hrun
    simp only [] at hsil hp hlen hmargin htap hint hdual ⊢
    -- the band data only appends calls
    have hx := afterAlloc_ext w P0 cfg h { rem := 0, s := { e := h.enc, ops := h.ops, ds := h.rest } }
    have pH : w.IsPrefix (P0 ++ h.ops) := prefix_of_ext0 (s := { e := h.enc, ops := h.ops, ds := h.rest }) hx hp
    obtain ⟨dh, hd, ag⟩ := header_roundtrip w P0 cfg s0 hs0 he0 hst0 h hh hsil pH hcfg hsz hlen hmargin hroom htap hint hdual
    have st := afterAlloc_step w P0 cfg h dh w.len hlen ag.isTransient ag.tfRes ag.antiCollapseRsv
      { rem := 0, s := { e := h.enc, ops := h.ops, ds := h.rest } }
      { rem := 0, c := w.decAt (P0 ++ h.ops), tr := [], fault := false }
    have sim := st.2 (A := h.ops) ⟨⟨ag.encAtBands, rfl⟩, rfl, ⟨[], by simp, rfl⟩⟩ hp
    obtain ⟨t1, t2, _, _⟩ := w.sync _ hp
    refine ⟨dh, hd, ⟨ag, hx, sim.here.enc, sim.here.dec, ?_, ?_, ?_, ?_, ?_⟩⟩
    · exact Opus.CeltBandsProofs.afterAlloc_fault (cfgD cfg) w.len dh h.alloc _ (by have := hcfg.2.2.2; show cfg.LM < 4; omega)
        (by show cfg.start ≤ cfg.end_; have := hcfg.1; omega) hcfg.2.1 rfl
    · obtain ⟨B, hB, hT⟩ := sim.tr
      refine ⟨B, hB, ?_⟩
      rw [hT]
      exact traceOk_evs w B (P0 ++ h.ops) (by rw [List.append_assoc, ← hB]; exact hp)
    · rw [sim.here.dec, sim.here.enc]; exact w.sync_rng _ hp
    · rw [sim.here.dec, sim.here.enc]; exact t1
    · rw [sim.here.dec, sim.here.enc]; exact t2
  | err e => rw [hh] at hrun; cases hrun
  | oob => rw [hh] at hrun; cases hrun
  | abort => rw [hh] at hrun; cases hrun

end OpusProofs.CeltHdr
