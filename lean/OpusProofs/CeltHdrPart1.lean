import OpusProofs.CeltHdrCoarse
/-
  OpusProofs.CeltHdrPart1 — first part of the header round trip: silence flag, post-filter, transient, intra and
  coarse energy of a non-silent frame.
-/
namespace OpusProofs.CeltHdr
open Opus Opus.RangeCoder Opus.CeltSymsEnc

/-- A context with `ec_tell == 1` is a fresh one (`rng = 2^31`, 33 bits), and after the silence flag `0`
    (`logp = 15`) `ec_tell` is 2. -/
theorem tell_after_silence0 (e : Enc) (hr : RngOk e) (hn : 33 ≤ e.nbitsTotal) (ht : tell e = 1) :
    tell (encOp e (.bitLogp 0 15)) = 2 := by
  have h32 := ilog_le_32 hr
  unfold tell at ht
  have hnb : e.nbitsTotal = 33 := by omega
  have hil : ilog e.rng = 32 := by omega
  have hne : e.rng ≠ 0 := by have := hr.1; omega
  have hb := ilog_bounds hne
  rw [hil] at hb
  have hrng : e.rng = 2147483648 := by have := hr.2; have := hb.1; omega
  show tell (encBitLogp e 0 15) = 2
  unfold encBitLogp
  simp only [hrng, ne_eq, not_true_eq_false, if_false]
  have hs : sub32 2147483648 (2147483648 / 2 ^ 15) = 2147418112 := by decide
  rw [hs, encNormalize, dif_neg (by simp)]
  unfold tell
  have : ilog 2147418112 = 31 := ilog_eq_of_bounds (k := 30) (by decide) (by decide)
  simp only [this, hnb]
  decide

/-- What the first part of the header encoder does. -/
structure Part1 (cfg : EncCfg) (s0 : St) where
  s1 : St
  s2 : St
  s3 : St
  s4 : St
  size1 : Nat
  tv : Int
  pf : PfOut
  isT : Nat
  intra : Nat
  qs : List Int
  qds : List Int
  h1 : encSilence cfg s0 = (0, size1, tv, s1)
  h2 : encPostFilter cfg ((size1 * 8 : Nat) : Int) tv s1 = (pf, s2)
  h3 : encTransient cfg ((size1 * 8 : Nat) : Int) s2 = (isT, s3)
  h4 : encCoarse cfg ((size1 * 8 : Nat) : Int) s3 = .ok (intra, qs, qds, s4)

theorem encCoarse_ext (cfg : EncCfg) (totE : Int) (s : St) (intra : Nat) (qs qds : List Int) (s' : St)
    (h : encCoarse cfg totE s = .ok (intra, qs, qds, s')) : Ext s s' := by
  unfold encCoarse at h
  cases hb : encCoarseBands cfg ((Opus.CeltSymsFrozen.eProbModel.getD cfg.LM []).getD (encIntra totE s).1 []) totE
      (cfg.end_ - cfg.start) cfg.start (encIntra totE s).2 with
  | ok v =>
    obtain ⟨a, b, s2⟩ := v
    rw [hb] at h
    simp only [] at h
    injection h with h; injection h with _ h; injection h with _ h; injection h with _ h
    rw [← h]
    exact (encIntra_ext totE s).trans (encCoarseBands_ext _ _ _ _ _ _ a b s2 hb)
  | err e => rw [hb] at h; cases h
  | oob => rw [hb] at h; cases h
  | abort => rw [hb] at h; cases h


/-- the budget tests of encoder (`total_bits`) and decoder (`len*8`) agree at every point `s'` of the header that the
    encoder has reached in lock-step (`Here`) before the point `sEnd` the margin speaks about -/
theorem budOk_of_margin {w : World} {P0 : List Op} {s' sEnd : St} {d' : Dec} (size1 : Nat)
    (h : Here w P0 s' d') (hx : Ext s' sEnd) (hp : w.IsPrefix (P0 ++ sEnd.ops)) (hlen : w.len ≤ size1)
    (hmargin : w.len = size1 ∨ tell (w.encAt (P0 ++ sEnd.ops)) + 16 ≤ ((w.len * 8 : Nat) : Int)) :
    BudOk ((size1 * 8 : Nat) : Int) ((w.len * 8 : Nat) : Int) (tell s'.e) := by
  intro k hk0 hk16
  obtain ⟨δ, hδ, _⟩ := hx
  have hm := (w.tell_mono δ (P0 ++ s'.ops) (by rw [List.append_assoc, ← hδ]; exact hp)).1
  rw [List.append_assoc, ← hδ, ← h.enc] at hm
  constructor
  · intro hE
    rcases hmargin with e | e
    · rw [e]; exact hE
    · omega
  · intro hD; omega

/-- **Round trip, part 1.**  Non-silent frame: the decoder's `readFlags` and `coarseEnergy` on the finished packet
    return the silence flag 0, the post-filter parameters, the transient and intra flags and the coarse energy
    values (as the written symbols mean them) of the encoder, and end in lock-step with it. -/
theorem part1_roundtrip (w : World) (P0 : List Op) (cfg : EncCfg) (s0 : St) (hs0 : s0.ops = [])
    (he0 : s0.e = w.encAt P0) (p : Part1 cfg s0)
    (hp : w.IsPrefix (P0 ++ p.s4.ops)) (hLM : cfg.LM < 4) (hlen : w.len ≤ p.size1)
    (hmargin : w.len = p.size1 ∨ tell (w.encAt (P0 ++ p.s4.ops)) + 16 ≤ ((w.len * 8 : Nat) : Int))
    (hroom : tell s0.e < ((w.len * 8 : Nat) : Int))
    (htap : p.pf.on ≠ 0 → tell (w.encAt (P0 ++ p.s2.ops.dropLast)) + 2 ≤ ((w.len * 8 : Nat) : Int)) :
    ∃ (pfD : Opus.CeltSyms.PostFilter) (c5 : Dec) (tr : List Opus.CeltSyms.CEv) (c6 : Dec) (tr' : List Opus.CeltSyms.CEv),
      Opus.CeltSyms.readFlags ⟨cfg.start, cfg.end_, cfg.C, cfg.LM⟩ ((w.len * 8 : Nat) : Int) (w.decAt P0) =
        ((0, pfD, p.isT, p.intra), c5, tr) ∧
      pfD.on = p.pf.on ∧ pfD.octave = p.pf.octave ∧ pfD.pitch = p.pf.pitch ∧ pfD.qg = p.pf.qg ∧ pfD.tapset = p.pf.tapset ∧
      Opus.CeltSyms.coarseEnergy ⟨cfg.start, cfg.end_, cfg.C, cfg.LM⟩ p.intra c5 = .ok (p.qds, c6, tr') ∧
      Here w P0 p.s4 c6 := by
  generalize htotD : ((w.len * 8 : Nat) : Int) = totD at *
  generalize htotE : ((p.size1 * 8 : Nat) : Int) = totE at *
  have hH0 : Here w P0 s0 (w.decAt P0) := ⟨by rw [hs0, List.append_nil]; exact he0, by rw [hs0, List.append_nil]⟩
  -- the chain of states
  have x01 : Ext s0 p.s1 := by have := encSilence_ext cfg s0 (by rw [p.h1]); rw [p.h1] at this; exact this
  have x12 : Ext p.s1 p.s2 := by have := encPostFilter_ext cfg totE p.tv p.s1; rw [← htotE, p.h2] at this; exact this
  have x23 : Ext p.s2 p.s3 := by have := encTransient_ext cfg totE p.s2; rw [← htotE, p.h3] at this; exact this
  have x34 : Ext p.s3 p.s4 := encCoarse_ext cfg _ p.s3 p.intra p.qs p.qds p.s4 p.h4
  have p3 := prefix_of_ext x34 hp
  have p2 := prefix_of_ext x23 p3
  have p1 := prefix_of_ext x12 p2
  have p0 := prefix_of_ext x01 p1
  have bud : ∀ (s' : St) (d' : Dec), Here w P0 s' d' → Ext s' p.s4 → BudOk totE totD (tell s'.e) := by
    intro s' d' h hx
    have := budOk_of_margin p.size1 h hx hp hlen (by rw [htotD]; exact hmargin)
    rw [htotE, htotD] at this; exact this
  have hEDle : totD ≤ totE := by rw [← htotD, ← htotE]; omega
  -- 1. silence
  obtain ⟨a1, a2, a3, a4, a5⟩ := silence0_sync hH0 cfg totD (by rw [p.h1]) (by rw [p.h1]; exact p1) hroom
  rw [p.h1] at a2 a3 a4
  simp only at a2 a3 a4
  generalize hc1 : (Opus.CeltSyms.readSilence totD (w.decAt P0)).2.1 = c1 at *
  -- 2. post-filter
  have b16 := bud s0 _ hH0 (((x01.trans x12).trans x23).trans x34) 16 (by omega) (by omega)
  obtain ⟨b1, b2, b3, b4, b5, b6, b7⟩ := postfilter_sync a2 cfg totE totD p.tv (by rw [← htotE, p.h2]; exact p2)
    (by rw [a3]; exact b16)
    (by
      intro s3 d3 h3 hx2 hon
      rw [← htotE, p.h2] at hx2 hon
      obtain ⟨op, hop⟩ := hx2
      have := htap hon
      simp only [] at hop
      rw [hop, List.dropLast_concat, ← h3.enc] at this
      exact this)
  rw [← htotE, p.h2] at b1 b2 b3 b4 b5 b6 b7
  simp only at b1 b2 b3 b4 b5 b6 b7
  generalize hrp : Opus.CeltSyms.readPostFilter cfg.start totD p.tv c1 = rp at *
  -- 3. transient: the decoder's `tell` is fresh or stale
  have hstale : ∀ t : Int, (t = tell rp.2.2.1 ∨ (t = p.tv ∧ p.s2 = p.s1)) → (tell p.s2.e + 3 ≤ totE ↔ t + 3 ≤ totD) := by
    intro t ht
    rcases ht with ht | ⟨ht, hs⟩
    · obtain ⟨tt, _, _, _⟩ := b6.tells p2
      rw [ht, tt]
      exact bud p.s2 _ b6 (x23.trans x34) 3 (by omega) (by omega)
    · rw [ht, hs, a3]
      by_cases h1 : tell s0.e = 1
      · -- the silence flag has been written: ec_tell went from 1 to 2
        obtain ⟨_, _, _, hr0⟩ := hH0.tells p0
        have hn0 := (w.nbits_bounds (P0 ++ s0.ops) p0).1
        rw [← hH0.enc] at hn0
        have hs1 : p.s1 = s0.pop.2.emit (.bitLogp 0 15) := by
          have := p.h1
          unfold encSilence at this
          rw [if_pos h1] at this
          by_cases hv : s0.pop.1 ≠ 0
          · rw [if_pos hv] at this; injection this with this; exact absurd this (by decide)
          · rw [if_neg hv] at this
            injection this with _ this; injection this with _ this; injection this with _ this
            exact this.symm
        have h2 : tell p.s1.e = 2 := by
          rw [hs1]; exact tell_after_silence0 s0.e hr0 hn0 h1
        rw [h2, h1]
        have : (8 : Int) ≤ totD := by rw [← htotD] at hroom ⊢; omega
        constructor <;> intro _ <;> omega
      · have hs1 : p.s1 = s0 := by
          have := p.h1
          unfold encSilence at this
          rw [if_neg h1] at this
          injection this with _ this; injection this with _ this; injection this with _ this
          exact this.symm
        rw [hs1]
        exact bud s0 _ hH0 (((x01.trans x12).trans x23).trans x34) 3 (by omega) (by omega)
  obtain ⟨c1', c2', c3'⟩ := transient_sync b6 cfg totE totD rp.2.1 (by rw [← htotE, p.h3]; exact p3) (hstale _ b7)
  rw [← htotE, p.h3] at c1' c2' c3'
  simp only at c1' c2' c3'
  generalize hrt : Opus.CeltSyms.readTransient cfg.LM totD rp.2.1 rp.2.2.1 = rt at *
  -- 4. intra flag and coarse energy
  have hcz := p.h4
  unfold encCoarse at hcz
  rw [htotE] at hcz
  cases hb : encCoarseBands cfg ((Opus.CeltSymsFrozen.eProbModel.getD cfg.LM []).getD (encIntra totE p.s3).1 []) totE
      (cfg.end_ - cfg.start) cfg.start (encIntra totE p.s3).2 with
  | ok v =>
    obtain ⟨qa, qb, sb⟩ := v
    rw [hb] at hcz
    simp only [] at hcz
    injection hcz with hcz; injection hcz with ei hcz; injection hcz with eq1 hcz; injection hcz with eq2 es
    subst eq1 eq2 es
    have xi4 := encCoarseBands_ext _ _ _ _ _ _ _ _ _ hb
    have pi := prefix_of_ext xi4 hp
    have hbudI : (tell p.s3.e + 3 ≤ totE) ↔ (rt.2.1 + 3 ≤ totD) := by
      rcases c3' with c3' | ⟨c3', hs⟩
      · obtain ⟨tt, _, _, _⟩ := c2'.tells p3
        rw [c3', tt]
        exact bud p.s3 _ c2' x34 3 (by omega) (by omega)
      · rw [c3', hs]; exact hstale _ b7
    obtain ⟨i1, i2⟩ := intra_sync c2' totE totD rt.2.1 pi hbudI
    generalize hri : Opus.CeltSyms.readIntra totD rt.2.1 rt.2.2.1 = ri at *
    have hintra2 : (encIntra totE p.s3).1 < 2 := by unfold encIntra; split <;> (try split) <;> simp
    obtain ⟨c6, tr6, k1, k2⟩ := coarseBands_sync cfg _ totE p.s4
      (fun s' d' h hx => by have := bud s' d' h hx; rw [← htotD] at this; exact this)
      (fun i => frozen_laplace_ok cfg.LM hLM _ hintra2 (min i 20) (by omega))
      (cfg.end_ - cfg.start) cfg.start _ ri.2.1 _ _ p.s4 i2 hb hp (Ext.refl _)
    refine ⟨rp.1, ri.2.1, (Opus.CeltSyms.readSilence totD (w.decAt P0)).2.2 ++ rp.2.2.2 ++ rt.2.2.2 ++ ri.2.2, c6, tr6, ?_,
      b1, b2, b3, b4, b5, ?_, k2⟩
    · unfold Opus.CeltSyms.readFlags
      have hsil : Opus.CeltSyms.readSilence totD (w.decAt P0) = (0, c1, (Opus.CeltSyms.readSilence totD (w.decAt P0)).2.2) := by
        rw [← a1, ← hc1]
      rw [hsil]
      simp only [Opus.CeltSyms.applySilence, ne_eq, not_true_eq_false, if_false, a5, ← a3, hrp, hrt, hri]
      rw [← c1', ← ei, ← i1]
    · unfold Opus.CeltSyms.coarseEnergy
      rw [← ei]
      exact k1
  | err e => rw [hb] at hcz; cases hcz
  | oob => rw [hb] at hcz; cases hcz
  | abort => rw [hb] at hcz; cases hcz

end OpusProofs.CeltHdr
