import OpusProofs.CtlMs
import OpusProofs.CtlStepRun
/-
  OpusProofs.CtlMsExtra — read-back through the multistream objects, stream by stream (helpers of
  property C11): the encoder fan-out as an exact per-stream map, and OPUS_SET_GAIN /
  OPUS_SET_PHASE_INVERSION_DISABLED through `opus_multistream_decoder_ctl`.
-/
namespace Opus.Ctl
open Opus Opus.EncDecide

/-- After a legal fanned-out setter the list of values the streams' getters report is, stream by
    stream, the list of read-back values of the streams before. -/
theorem msEncCtl_set_map {s : MsEncSt} (k : EncSetK) (v : Int) (hk : msEncFwdSet k = true)
    (hr : ¬ (k = .forceChannels ∧ v = 2 ∧ s.nbCoupled < s.nbStreams))
    (hleg : ∀ e ∈ s.streams, EncLegal e k v) :
    (∀ g, readGetter k = some g →
      (msEncCtl s (.set k v)).1.streams.map (fun e' => encGetVal e' g) = s.streams.map (fun e => readBack e k v)) ∧
    (∀ e' ∈ (msEncCtl s (.set k v)).1.streams,
      (k = .bandwidth → e'.userBandwidth = v) ∧ (k = .forceMode → e'.userForcedMode = v) ∧ (k = .lfe → e'.lfe = v)) := by
  have h2 := (msEncCtl_set_all k v hk hr hleg).2.1
  rw [h2]
  refine ⟨fun g hg => ?_, fun e' he' => ?_⟩
  · simp only [List.map_map]
    apply List.map_congr_left
    intro e he
    obtain ⟨s', h1, h3⟩ := encCtl_set_ok e k v (hleg e he)
    simp only [Function.comp, h3]
    exact encSet_readBack e s' k v g h1 hg
  · simp only [List.mem_map] at he'
    obtain ⟨e, he, rfl⟩ := he'
    obtain ⟨s', h1, h3⟩ := encCtl_set_ok e k v (hleg e he)
    rw [h3]
    have := encSet_stored e s' k v h1
    exact ⟨this.1, this.2.1, fun hk => (this.2.2 hk).1⟩

/-- OPUS_SET_GAIN / OPUS_SET_PHASE_INVERSION_DISABLED on a multistream (or projection) decoder: a legal
    value is accepted, reaches EVERY stream decoder, each reports it, and so does the multistream
    getter (answered by the first stream). -/
theorem msDecCtl_set_get (s : MsDecSt) (k : DecSetK) (v : Int) (hk : msDecFwdSet k = true) (h : DecLegal k v) :
    (msDecCtl s (.set k v)).2.code = 0 ∧
    (msDecCtl s (.set k v)).1 = { s with streams := s.streams.map (fun d => (decCtl d (.set k v)).1) } ∧
    (∀ d' ∈ (msDecCtl s (.set k v)).1.streams, decCtl d' (.get (decReadGetter k) true) = (d', .okv v)) ∧
    (s.streams ≠ [] →
      msDecCtl (msDecCtl s (.set k v)).1 (.get (decReadGetter k) true) = ((msDecCtl s (.set k v)).1, .okv v)) := by
  have hgen : msDecCtl s (.set k v) =
      ({ s with streams := (fanOut (fun d => decCtl d (.set k v)) s.streams).1 },
       (fanOut (fun d => decCtl d (.set k v)) s.streams).2) := by
    cases k <;> simp only [msDecFwdSet, Bool.false_eq_true] at hk <;> simp [msDecCtl, msDecFwdSet]
  have hall := fanOut_all_ok (fun d => decCtl d (.set k v)) s.streams (fun d _ => by
    obtain ⟨s', h2, _⟩ := decCtl_set_get d k v h
    show (decCtl d (.set k v)).2.code = 0
    rw [h2]; rfl)
  have hmem : ∀ d' ∈ s.streams.map (fun d => (decCtl d (.set k v)).1),
      decCtl d' (.get (decReadGetter k) true) = (d', .okv v) := by
    intro d' hd'
    simp only [List.mem_map] at hd'
    obtain ⟨d, _, rfl⟩ := hd'
    obtain ⟨s', h2, h3⟩ := decCtl_set_get d k v h
    rw [h2]; exact h3
  rw [hgen]
  refine ⟨hall.1, by rw [hall.2], by simp only [hall.2]; exact hmem, ?_⟩
  intro hne
  simp only [hall.2]
  cases hs : s.streams with
  | nil => exact absurd hs hne
  | cons d ds =>
    have := hmem (decCtl d (.set k v)).1 (by rw [hs]; simp)
    cases k <;> simp only [msDecFwdSet, Bool.false_eq_true] at hk <;>
      simp only [decReadGetter] at this ⊢ <;> simp [msDecCtl, msDecFwdGet, this]

end Opus.Ctl
