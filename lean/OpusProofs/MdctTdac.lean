import Mathlib.Analysis.SpecialFunctions.Trigonometric.Basic
import Mathlib.Algebra.BigOperators.Group.Finset.Basic
import Mathlib.Tactic.Ring
import Mathlib.Tactic.Linarith
import Mathlib.Tactic.FieldSimp
/-
  OpusProofs.MdctTdac — time-domain alias cancellation of the MDCT over ℝ (property C04).

  Definitions (the same formulas as `Opus.Mdct.mdctDirect` / `imdctDirect` in the executable model):
      kern M n k  = cos(π/M · (n + 1/2 + M/2) · (k + 1/2))
      mdct  M x k = Σ_{n<2M} x n · kern M n k
      imdct M X n = Σ_{k<M}  X k · kern M n k

  Results:
    (a) `imdct_mdct_lo`, `imdct_mdct_hi` (alias form):
          imdct (mdct x) n = M/2 · (x n − x (M−1−n))        n < M
          imdct (mdct x) n = M/2 · (x n + x (3M−1−n))   M ≤ n < 2M
        via the orthogonality sums of cosines (`cosSum_eq_zero`, `cosSum_zero`, `cosSum_twoM`, `cosSum_fourM`).
    (b) `tdac_symm`: for a window with `w (2M−1−n) = w n`, overlap-adding the windowed IMDCT of the windowed
        MDCT of two consecutive blocks gives  M/2 · (w n² + w (n+M)²) · x  — the aliases cancel exactly;
        `tdac` (Princen–Bradley window ⇒ exactly M/2 · x) and `tdac_approx` (|w n² + w (n+M)² − 1| ≤ ε ⇒
        error ≤ M/2 · ε · |x|).
-/
namespace Opus.MdctR
open Finset Real

/-- MDCT kernel. -/
noncomputable def kern (M n k : ℕ) : ℝ := cos (π / M * ((n : ℝ) + 1 / 2 + (M : ℝ) / 2) * ((k : ℝ) + 1 / 2))

/-- Forward MDCT of a block of `2M` samples. -/
noncomputable def mdct (M : ℕ) (x : ℕ → ℝ) (k : ℕ) : ℝ := ∑ n ∈ range (2 * M), x n * kern M n k

/-- Inverse MDCT (`2M` outputs from `M` coefficients), no normalisation. -/
noncomputable def imdct (M : ℕ) (X : ℕ → ℝ) (n : ℕ) : ℝ := ∑ k ∈ range M, X k * kern M n k

/-- `Σ_{k<N} cos((k + 1/2)·θ)`. -/
noncomputable def cosSum (N : ℕ) (θ : ℝ) : ℝ := ∑ k ∈ range N, cos (((k : ℝ) + 1 / 2) * θ)

/-- Telescoping (Dirichlet-kernel) identity: `2·sin(θ/2)·Σ_{k<N} cos((k+1/2)θ) = sin(Nθ)`. -/
theorem two_sin_mul_cosSum (N : ℕ) (θ : ℝ) : 2 * sin (θ / 2) * cosSum N θ = sin (N * θ) := by
  induction N with
  | zero => simp [cosSum]
  | succ n ih =>
    unfold cosSum at ih ⊢
    rw [sum_range_succ, mul_add, ih]
    have h1 : ((n + 1 : ℕ) : ℝ) * θ = ((n : ℝ) + 1 / 2) * θ + θ / 2 := by push_cast; ring
    have h2 : (n : ℝ) * θ = ((n : ℝ) + 1 / 2) * θ - θ / 2 := by ring
    rw [h1, h2, sin_add, sin_sub]
    ring

/-- For an integer `j` that is not a multiple of `2M`, the cosine sum at `θ = π·j/M` vanishes. -/
theorem cosSum_eq_zero (M : ℕ) (hM : 0 < M) (j : ℤ) (hj : ¬ (2 * (M : ℤ)) ∣ j) :
    cosSum M (π / M * j) = 0 := by
  have hM' : (M : ℝ) ≠ 0 := by exact_mod_cast hM.ne'
  have h := two_sin_mul_cosSum M (π / M * j)
  have hs : sin ((M : ℝ) * (π / M * j)) = 0 := by
    have : (M : ℝ) * (π / M * j) = (j : ℝ) * π := by field_simp
    rw [this]; exact sin_int_mul_pi j
  rw [hs] at h
  have hne : sin (π / M * j / 2) ≠ 0 := by
    intro h0
    obtain ⟨n, hn⟩ := sin_eq_zero_iff.mp h0
    apply hj
    refine ⟨n, ?_⟩
    have hpi : (π : ℝ) ≠ 0 := pi_ne_zero
    have : (j : ℝ) = 2 * (M : ℝ) * n := by
      field_simp at hn
      linarith
    exact_mod_cast this
  rcases mul_eq_zero.mp h with h' | h'
  · rcases mul_eq_zero.mp h' with h'' | h''
    · norm_num at h''
    · exact absurd h'' hne
  · exact h'

theorem cosSum_zero (M : ℕ) : cosSum M 0 = M := by
  simp [cosSum]

/-- `j = 2M`: every term is `cos(2πk + π) = −1`. -/
theorem cosSum_twoM (M : ℕ) (hM : 0 < M) : cosSum M (π / M * ((2 * M : ℕ) : ℤ)) = -(M : ℝ) := by
  have hM' : (M : ℝ) ≠ 0 := by exact_mod_cast hM.ne'
  unfold cosSum
  have : ∀ k ∈ range M, cos (((k : ℝ) + 1 / 2) * (π / M * ((2 * M : ℕ) : ℤ))) = -1 := by
    intro k _
    have : ((k : ℝ) + 1 / 2) * (π / M * ((2 * M : ℕ) : ℤ)) = (k : ℝ) * (2 * π) + π := by
      push_cast; field_simp
    rw [this]; exact cos_nat_mul_two_pi_add_pi k
  rw [sum_congr rfl this]; simp

/-- `j = 4M`: every term is `cos(4πk + 2π) = 1`. -/
theorem cosSum_fourM (M : ℕ) (hM : 0 < M) : cosSum M (π / M * ((4 * M : ℕ) : ℤ)) = (M : ℝ) := by
  have hM' : (M : ℝ) ≠ 0 := by exact_mod_cast hM.ne'
  unfold cosSum
  have : ∀ k ∈ range M, cos (((k : ℝ) + 1 / 2) * (π / M * ((4 * M : ℕ) : ℤ))) = 1 := by
    intro k _
    have : ((k : ℝ) + 1 / 2) * (π / M * ((4 * M : ℕ) : ℤ)) = ((2 * k + 1 : ℕ) : ℝ) * (2 * π) := by
      push_cast; field_simp; ring
    rw [this]; exact cos_nat_mul_two_pi _
  rw [sum_congr rfl this]; simp

/-- Product of two kernels summed over the frequency index, by product-to-sum. -/
theorem kern_sum (M n m : ℕ) (hM : 0 < M) :
    ∑ k ∈ range M, kern M m k * kern M n k
      = (cosSum M (π / M * ((n : ℤ) - (m : ℤ) : ℤ)) + cosSum M (π / M * ((n + m + 1 + M : ℕ) : ℤ))) / 2 := by
  have hM' : (M : ℝ) ≠ 0 := by exact_mod_cast hM.ne'
  unfold cosSum kern
  rw [← sum_add_distrib, eq_div_iff (two_ne_zero), sum_mul]
  refine sum_congr rfl fun k _ => ?_
  set a := π / M * ((m : ℝ) + 1 / 2 + (M : ℝ) / 2) * ((k : ℝ) + 1 / 2) with ha
  set b := π / M * ((n : ℝ) + 1 / 2 + (M : ℝ) / 2) * ((k : ℝ) + 1 / 2) with hb
  have h1 : ((k : ℝ) + 1 / 2) * (π / M * (((n : ℤ) - (m : ℤ) : ℤ) : ℝ)) = b - a := by
    push_cast; rw [ha, hb]; ring
  have h2 : ((k : ℝ) + 1 / 2) * (π / M * (((n + m + 1 + M : ℕ) : ℤ) : ℝ)) = b + a := by
    push_cast; rw [ha, hb]; field_simp; ring
  rw [h1, h2, cos_sub, cos_add]; ring

/-- The Gram matrix of the kernels: identity minus/plus the two anti-diagonals. -/
theorem kern_gram (M n m : ℕ) (hM : 0 < M) (hn : n < 2 * M) (hm : m < 2 * M) :
    ∑ k ∈ range M, kern M m k * kern M n k
      = (M : ℝ) / 2 * ((if m = n then 1 else 0) - (if n + m + 1 = M then 1 else 0)
                        + (if n + m + 1 = 3 * M then 1 else 0)) := by
  rw [kern_sum M n m hM]
  -- first sum: j = n − m
  have hA : cosSum M (π / M * ((n : ℤ) - (m : ℤ) : ℤ)) = if m = n then (M : ℝ) else 0 := by
    split
    · next h => subst h; simp [cosSum_zero]
    · next h =>
      apply cosSum_eq_zero M hM
      rintro ⟨c, hc⟩
      have hc0 : c = 0 := by
        rcases lt_trichotomy c 0 with hlt | heq | hgt
        · exfalso; nlinarith
        · exact heq
        · exfalso; nlinarith
      subst hc0; apply h; omega
  -- second sum: j = n + m + 1 + M ∈ [M+1, 5M−1]
  have hB : cosSum M (π / M * ((n + m + 1 + M : ℕ) : ℤ))
      = (if n + m + 1 = 3 * M then (M : ℝ) else 0) - (if n + m + 1 = M then (M : ℝ) else 0) := by
    by_cases h1 : n + m + 1 = M
    · have : n + m + 1 + M = 2 * M := by omega
      rw [this, cosSum_twoM M hM]
      have h3 : ¬ (n + m + 1 = 3 * M) := by omega
      rw [if_pos h1, if_neg h3]; ring
    · by_cases h3 : n + m + 1 = 3 * M
      · have : n + m + 1 + M = 4 * M := by omega
        rw [this, cosSum_fourM M hM]
        rw [if_pos h3, if_neg h1]; ring
      · rw [cosSum_eq_zero M hM]
        · rw [if_neg h3, if_neg h1]; ring
        · rintro ⟨c, hc⟩
          have hc' : (n + m + 1 + M : ℤ) = 2 * M * c := by exact_mod_cast hc
          have hc1 : 0 < c := by nlinarith
          have hc3 : c < 3 := by nlinarith
          have : c = 1 ∨ c = 2 := by omega
          rcases this with rfl | rfl
          · apply h1; omega
          · apply h3; omega
  rw [hA, hB]
  split <;> split <;> split <;> ring

/-- IMDCT ∘ MDCT as a single sum against the Gram matrix. -/
theorem imdct_mdct_sum (M : ℕ) (x : ℕ → ℝ) (n : ℕ) :
    imdct M (mdct M x) n = ∑ m ∈ range (2 * M), x m * ∑ k ∈ range M, kern M m k * kern M n k := by
  unfold imdct mdct
  simp_rw [sum_mul, mul_sum]
  rw [sum_comm]
  refine sum_congr rfl fun m _ => sum_congr rfl fun k _ => ?_
  ring

/-- (a), first half: `imdct (mdct x) n = M/2·(x n − x (M−1−n))` for `n < M`. -/
theorem imdct_mdct_lo (M : ℕ) (x : ℕ → ℝ) (n : ℕ) (hn : n < M) :
    imdct M (mdct M x) n = (M : ℝ) / 2 * (x n - x (M - 1 - n)) := by
  have hM : 0 < M := by omega
  rw [imdct_mdct_sum]
  have : ∀ m ∈ range (2 * M), x m * ∑ k ∈ range M, kern M m k * kern M n k
      = (M : ℝ) / 2 * ((if m = n then x m else 0) - (if m = M - 1 - n then x m else 0)) := by
    intro m hm
    rw [kern_gram M n m hM (by omega) (by simpa using hm)]
    have h3 : ¬ (n + m + 1 = 3 * M) := by have := mem_range.mp hm; omega
    have h1 : (n + m + 1 = M) ↔ (m = M - 1 - n) := by omega
    simp only [h3, h1, if_false]
    split <;> split <;> ring
  rw [sum_congr rfl this, ← mul_sum, sum_sub_distrib]
  rw [sum_ite_eq' (range (2 * M)) n, sum_ite_eq' (range (2 * M)) (M - 1 - n)]
  have hn2 : n ∈ range (2 * M) := by simp; omega
  have hr2 : M - 1 - n ∈ range (2 * M) := by simp; omega
  simp [hn2, hr2]

/-- (a), second half: `imdct (mdct x) n = M/2·(x n + x (3M−1−n))` for `M ≤ n < 2M`. -/
theorem imdct_mdct_hi (M : ℕ) (x : ℕ → ℝ) (n : ℕ) (hn : M ≤ n) (hn2 : n < 2 * M) :
    imdct M (mdct M x) n = (M : ℝ) / 2 * (x n + x (3 * M - 1 - n)) := by
  have hM : 0 < M := by omega
  rw [imdct_mdct_sum]
  have : ∀ m ∈ range (2 * M), x m * ∑ k ∈ range M, kern M m k * kern M n k
      = (M : ℝ) / 2 * ((if m = n then x m else 0) + (if m = 3 * M - 1 - n then x m else 0)) := by
    intro m hm
    rw [kern_gram M n m hM hn2 (by simpa using hm)]
    have h1 : ¬ (n + m + 1 = M) := by omega
    have h3 : (n + m + 1 = 3 * M) ↔ (m = 3 * M - 1 - n) := by omega
    simp only [h1, h3, if_false]
    split <;> split <;> ring
  rw [sum_congr rfl this, ← mul_sum, sum_add_distrib]
  rw [sum_ite_eq' (range (2 * M)) n, sum_ite_eq' (range (2 * M)) (3 * M - 1 - n)]
  have hn2' : n ∈ range (2 * M) := by simp; omega
  have hr2 : 3 * M - 1 - n ∈ range (2 * M) := by simp; omega
  simp [hn2', hr2]

/-- Windowed analysis/synthesis of the block that starts at sample `s`:
    `w n · imdct (mdct (w · x(s + ·))) n`. -/
noncomputable def wola (M : ℕ) (w : ℕ → ℝ) (x : ℕ → ℝ) (s n : ℕ) : ℝ :=
  w n * imdct M (mdct M (fun m => w m * x (s + m))) n

/-- (b) with a symmetric window only: the aliases of consecutive blocks cancel exactly, what remains is the
    input scaled by `M/2·(w n² + w (n+M)²)`. -/
theorem tdac_symm (M : ℕ) (w x : ℕ → ℝ) (hsym : ∀ n, n < 2 * M → w (2 * M - 1 - n) = w n)
    (t n : ℕ) (hn : n < M) :
    wola M w x ((t + 1) * M) n + wola M w x (t * M) (n + M)
      = (M : ℝ) / 2 * (w n ^ 2 + w (n + M) ^ 2) * x ((t + 1) * M + n) := by
  unfold wola
  rw [imdct_mdct_lo M _ n hn, imdct_mdct_hi M _ (n + M) (by omega) (by omega)]
  have e1 : 3 * M - 1 - (n + M) = 2 * M - 1 - n := by omega
  have e2 : t * M + (n + M) = (t + 1) * M + n := by ring
  have e3 : t * M + (2 * M - 1 - n) = (t + 1) * M + (M - 1 - n) := by
    have : 2 * M - 1 - n = M + (M - 1 - n) := by omega
    rw [this]; ring
  have s1 : w (2 * M - 1 - n) = w n := hsym n (by omega)
  have s2 : w (M - 1 - n) = w (n + M) := by
    have := hsym (n + M) (by omega)
    have e : 2 * M - 1 - (n + M) = M - 1 - n := by omega
    rw [e] at this; exact this
  simp only [e1, e2, e3, s1, s2]
  ring

/-- (b) Princen–Bradley window: overlap-add returns the input (normalisation `M/2`). -/
theorem tdac (M : ℕ) (w x : ℕ → ℝ) (hsym : ∀ n, n < 2 * M → w (2 * M - 1 - n) = w n)
    (hpb : ∀ n, n < M → w n ^ 2 + w (n + M) ^ 2 = 1) (t n : ℕ) (hn : n < M) :
    wola M w x ((t + 1) * M) n + wola M w x (t * M) (n + M) = (M : ℝ) / 2 * x ((t + 1) * M + n) := by
  rw [tdac_symm M w x hsym t n hn, hpb n hn, mul_one]

/-- (b) approximately power-complementary window: the reconstruction error is bounded by the window defect. -/
theorem tdac_approx (M : ℕ) (w x : ℕ → ℝ) (ε : ℝ) (hsym : ∀ n, n < 2 * M → w (2 * M - 1 - n) = w n)
    (hpb : ∀ n, n < M → |w n ^ 2 + w (n + M) ^ 2 - 1| ≤ ε) (t n : ℕ) (hn : n < M) :
    |wola M w x ((t + 1) * M) n + wola M w x (t * M) (n + M) - (M : ℝ) / 2 * x ((t + 1) * M + n)|
      ≤ (M : ℝ) / 2 * ε * |x ((t + 1) * M + n)| := by
  rw [tdac_symm M w x hsym t n hn]
  have : (M : ℝ) / 2 * (w n ^ 2 + w (n + M) ^ 2) * x ((t + 1) * M + n) - (M : ℝ) / 2 * x ((t + 1) * M + n)
      = (M : ℝ) / 2 * ((w n ^ 2 + w (n + M) ^ 2 - 1) * x ((t + 1) * M + n)) := by ring
  rw [this, abs_mul, abs_mul]
  have hM : |(M : ℝ) / 2| = (M : ℝ) / 2 := abs_of_nonneg (by positivity)
  rw [hM, mul_assoc]
  exact mul_le_mul_of_nonneg_left (mul_le_mul_of_nonneg_right (hpb n hn) (abs_nonneg _)) (by positivity)

end Opus.MdctR
