import OpusProofs.RangeCoderRaw
/-
  OpusProofs.RangeCoderFrame — C08: the encoder never touches a byte at an index `≥ storage`
  (no assumption on errors or parameters; only `ec_enc_shrink` must respect its assert).
-/
namespace Opus.RangeCoder

/-- `c` is a state reached from a state with buffer `B0` and size `S0`: the physical buffer keeps
    its length, everything from index `S0` on is untouched, the cursors stay inside `storage ≤ S0`. -/
structure Frame (B0 : List Nat) (S0 : Nat) (c : Enc) : Prop where
  len : c.buf.length = B0.length
  out : c.buf.drop S0 = B0.drop S0
  sto : c.storage ≤ S0
  cur : c.offs + c.endOffs ≤ c.storage
  fit : S0 ≤ B0.length

theorem Frame.set {B0 : List Nat} {S0 : Nat} {c : Enc} (h : Frame B0 S0 c) (i v : Nat) (hi : i < c.storage) :
    (c.buf.set i v).length = B0.length ∧ (c.buf.set i v).drop S0 = B0.drop S0 := by
  refine ⟨by rw [List.length_set]; exact h.len, ?_⟩
  rw [List.drop_set_of_lt (by have := h.sto; omega)]; exact h.out

theorem writeByte_frame {B0 : List Nat} {S0 : Nat} (c : Enc) (v : Nat) (h : Frame B0 S0 c) :
    Frame B0 S0 (writeByte c v) := by
  unfold writeByte
  split
  · exact ⟨h.len, h.out, h.sto, h.cur, h.fit⟩
  · obtain ⟨h1, h2⟩ := h.set c.offs (v % 256) (by omega)
    exact ⟨h1, h2, h.sto, by simp only; omega, h.fit⟩

theorem writeByteAtEnd_frame {B0 : List Nat} {S0 : Nat} (c : Enc) (v : Nat) (h : Frame B0 S0 c) :
    Frame B0 S0 (writeByteAtEnd c v) := by
  unfold writeByteAtEnd
  split
  · exact ⟨h.len, h.out, h.sto, h.cur, h.fit⟩
  · obtain ⟨h1, h2⟩ := h.set (c.storage - (c.endOffs + 1)) (v % 256) (by omega)
    exact ⟨h1, h2, h.sto, by simp only; omega, h.fit⟩

theorem carryOut_frame' {B0 : List Nat} {S0 : Nat} (c : Enc) (cc : Nat) (h : Frame B0 S0 c) :
    Frame B0 S0 (carryOut c cc) :=
  carryOut_pres (Frame B0 S0) writeByte_frame (fun _ _ h => ⟨h.len, h.out, h.sto, h.cur, h.fit⟩)
    (fun _ _ h => ⟨h.len, h.out, h.sto, h.cur, h.fit⟩) c cc h

theorem encNormalize_frame {B0 : List Nat} {S0 : Nat} (c : Enc) (h : Frame B0 S0 c) :
    Frame B0 S0 (encNormalize c) :=
  encNormalize_pres (Frame B0 S0) writeByte_frame (fun _ _ h => ⟨h.len, h.out, h.sto, h.cur, h.fit⟩)
    (fun _ _ h => ⟨h.len, h.out, h.sto, h.cur, h.fit⟩) (fun _ _ _ _ h => ⟨h.len, h.out, h.sto, h.cur, h.fit⟩) c h

theorem encBitsFlush_frame' {B0 : List Nat} {S0 : Nat} (c : Enc) (w u : Nat) (h : Frame B0 S0 c) :
    Frame B0 S0 (encBitsFlush c w u).1 := by
  fun_induction encBitsFlush c w u with
  | case1 c w u c1 h' ih => exact ih (writeByteAtEnd_frame _ _ h)
  | case2 c w u c1 h' => exact writeByteAtEnd_frame _ _ h

theorem encBits_frame {B0 : List Nat} {S0 : Nat} (c : Enc) (v n : Nat) (h : Frame B0 S0 c) :
    Frame B0 S0 (encBits c v n) := by
  unfold encBits
  simp only
  split
  · have := encBitsFlush_frame' c c.endWindow c.nendBits h
    exact ⟨this.len, this.out, this.sto, this.cur, this.fit⟩
  · exact ⟨h.len, h.out, h.sto, h.cur, h.fit⟩

/-- `ec_enc_shrink` obeys its assert and only shrinks. -/
def ShrinkOk (c : Enc) : Op → Prop
  | .shrink size => c.offs + c.endOffs ≤ size ∧ size ≤ c.storage
  | _ => True

instance (c : Enc) : (op : Op) → Decidable (ShrinkOk c op)
  | .shrink size => inferInstanceAs (Decidable (c.offs + c.endOffs ≤ size ∧ size ≤ c.storage))
  | .encode .. => isTrue trivial
  | .encodeBin .. => isTrue trivial
  | .bitLogp .. => isTrue trivial
  | .icdf .. => isTrue trivial
  | .icdf16 .. => isTrue trivial
  | .uint .. => isTrue trivial
  | .bits .. => isTrue trivial
  | .patchInitial .. => isTrue trivial

theorem encShrink_frame {B0 : List Nat} {S0 : Nat} (c : Enc) (size : Nat) (h : Frame B0 S0 c)
    (h1 : c.offs + c.endOffs ≤ size) (h2 : size ≤ c.storage) : Frame B0 S0 (encShrink c size) := by
  have hl := h.len
  have hs := h.sto
  have hf := h.fit
  have hlen : (encShrink c size).buf.length = c.buf.length := by
    unfold encShrink
    simp only [List.length_append, List.length_take, List.length_drop]
    omega
  refine ⟨by rw [hlen]; exact hl, ?_, by show size ≤ S0; omega, h1, hf⟩
  rw [← h.out]
  unfold encShrink
  simp only
  have e1 : ((c.buf.take (size - c.endOffs) ++ (c.buf.drop (c.storage - c.endOffs)).take c.endOffs) ++
      c.buf.drop size).drop S0 = (c.buf.drop size).drop (S0 - size) := by
    have hl1 : (c.buf.take (size - c.endOffs) ++ (c.buf.drop (c.storage - c.endOffs)).take c.endOffs).length = size := by
      simp only [List.length_append, List.length_take, List.length_drop]; omega
    rw [List.drop_append, hl1, List.drop_of_length_le (by omega), List.nil_append]
  rw [e1, List.drop_drop]
  congr 1
  omega

theorem encOp_frame {B0 : List Nat} {S0 : Nat} (c : Enc) (op : Op) (h : Frame B0 S0 c) (hs : ShrinkOk c op) :
    Frame B0 S0 (encOp c op) := by
  have upd : ∀ (c : Enc) v r, Frame B0 S0 c → Frame B0 S0 { c with val := v, rng := r } :=
    fun _ _ _ h => ⟨h.len, h.out, h.sto, h.cur, h.fit⟩
  have updr : ∀ (c : Enc) r, Frame B0 S0 c → Frame B0 S0 { c with rng := r } :=
    fun _ _ h => ⟨h.len, h.out, h.sto, h.cur, h.fit⟩
  cases op with
  | encode fl fh ft =>
    simp only [encOp, encode]; apply encNormalize_frame; split
    · exact upd _ _ _ h
    · exact updr _ _ h
  | encodeBin fl fh nb =>
    simp only [encOp, encodeBin]; apply encNormalize_frame; split
    · exact upd _ _ _ h
    · exact updr _ _ h
  | bitLogp v logp =>
    simp only [encOp, encBitLogp]; apply encNormalize_frame; split
    · exact upd _ _ _ h
    · exact updr _ _ h
  | icdf s tbl ftb =>
    simp only [encOp, encIcdf]; apply encNormalize_frame; split
    · exact upd _ _ _ h
    · exact updr _ _ h
  | icdf16 s tbl ftb =>
    simp only [encOp, encIcdf16, encIcdf]; apply encNormalize_frame; split
    · exact upd _ _ _ h
    · exact updr _ _ h
  | uint v ft =>
    simp only [encOp, encUint]
    split
    · apply encBits_frame
      simp only [encode]; apply encNormalize_frame; split
      · exact upd _ _ _ h
      · exact updr _ _ h
    · simp only [encode]; apply encNormalize_frame; split
      · exact upd _ _ _ h
      · exact updr _ _ h
  | bits v n => exact encBits_frame c v n h
  | patchInitial v n =>
    simp only [encOp, encPatchInitialBits]
    split
    · rename_i ho
      obtain ⟨h1, h2⟩ := h.set 0 (patchByte (c.buf.getD 0 0) v n % 256) (by have := h.cur; omega)
      exact ⟨h1, h2, h.sto, h.cur, h.fit⟩
    · split
      · exact ⟨h.len, h.out, h.sto, h.cur, h.fit⟩
      · split
        · exact ⟨h.len, h.out, h.sto, h.cur, h.fit⟩
        · split <;> exact ⟨h.len, h.out, h.sto, h.cur, h.fit⟩
  | shrink size => exact encShrink_frame c size h hs.1 hs.2

/-- Every `ec_enc_shrink` of the list obeys its assert in the state it is applied to. -/
def ShrinksOk (c : Enc) : List Op → Prop
  | [] => True
  | op :: ops => ShrinkOk c op ∧ ShrinksOk (encOp c op) ops

def decShrinksOk : (ops : List Op) → (c : Enc) → Decidable (ShrinksOk c ops)
  | [], _ => isTrue trivial
  | op :: ops, c =>
    match (inferInstance : Decidable (ShrinkOk c op)), decShrinksOk ops (encOp c op) with
    | isTrue h1, isTrue h2 => isTrue ⟨h1, h2⟩
    | isFalse h1, _ => isFalse (fun h => h1 h.1)
    | _, isFalse h2 => isFalse (fun h => h2 h.2)

instance (c : Enc) (ops : List Op) : Decidable (ShrinksOk c ops) := decShrinksOk ops c

theorem encRun_frame {B0 : List Nat} {S0 : Nat} (ops : List Op) : ∀ (c : Enc), Frame B0 S0 c →
    ShrinksOk c ops → Frame B0 S0 (encRun c ops) := by
  induction ops with
  | nil => intro c h _; exact h
  | cons op ops ih => intro c h hs; exact ih _ (encOp_frame c op h hs.1) hs.2

theorem clearMiddle_frame {B0 : List Nat} {S0 : Nat} (c : Enc) (h : Frame B0 S0 c) : Frame B0 S0 (clearMiddle c) := by
  have hl := h.len
  have hs := h.sto
  have hf := h.fit
  have hc := h.cur
  have e : c.offs + (c.storage - c.offs - c.endOffs) = c.storage - c.endOffs := by omega
  refine ⟨?_, ?_, hs, hc, hf⟩
  · unfold clearMiddle
    simp only [List.length_append, List.length_take, List.length_replicate, List.length_drop]
    omega
  · rw [← h.out]
    unfold clearMiddle
    simp only
    have hl1 : (c.buf.take c.offs ++ List.replicate (c.storage - c.offs - c.endOffs) 0).length =
        c.storage - c.endOffs := by
      simp only [List.length_append, List.length_take, List.length_replicate]; omega
    rw [List.drop_append, hl1, List.drop_of_length_le (by omega), List.nil_append, e,
      List.drop_drop]
    congr 1
    omega

theorem encDone_frame {B0 : List Nat} {S0 : Nat} (c : Enc) (h : Frame B0 S0 c) : Frame B0 S0 (encDone c) := by
  have keep : ∀ (c : Enc) n, Frame B0 S0 c → Frame B0 S0 { c with ext := n } :=
    fun _ _ h => ⟨h.len, h.out, h.sto, h.cur, h.fit⟩
  have keepr : ∀ (c : Enc) r, Frame B0 S0 c → Frame B0 S0 { c with rem := r } :=
    fun _ _ h => ⟨h.len, h.out, h.sto, h.cur, h.fit⟩
  unfold encDone
  simp only
  have h1 := encDoneOut_pres (Frame B0 S0) writeByte_frame keep keepr c (encDoneEnd c).2 (encDoneEnd c).1 h
  generalize (encDoneOut c (encDoneEnd c).2 (encDoneEnd c).1) = r1 at *
  have h2 : Frame B0 S0 (if r1.1.rem ≥ 0 ∨ r1.1.ext > 0 then carryOut r1.1 0 else r1.1) := by
    split
    · exact carryOut_frame' _ _ h1
    · exact h1
  generalize (if r1.1.rem ≥ 0 ∨ r1.1.ext > 0 then carryOut r1.1 0 else r1.1) = c2 at *
  have h3 := encDoneFlush_pres (Frame B0 S0) writeByteAtEnd_frame c2 c2.endWindow c2.nendBits h2
  generalize (encDoneFlush c2 c2.endWindow c2.nendBits) = r3 at *
  unfold encDoneTail
  split
  · have h4 := clearMiddle_frame r3.1 h3
    simp only
    split
    · split
      · exact ⟨h4.len, h4.out, h4.sto, h4.cur, h4.fit⟩
      · rename_i hlt
        have hi : (clearMiddle r3.1).storage - (clearMiddle r3.1).endOffs - 1 < (clearMiddle r3.1).storage := by
          omega
        split
        · obtain ⟨g1, g2⟩ := h4.set _ ((clearMiddle r3.1).buf.getD ((clearMiddle r3.1).storage -
            (clearMiddle r3.1).endOffs - 1) 0 ||| (r3.2.1 % 2 ^ (-r1.2).toNat % 256)) hi
          exact ⟨g1, g2, h4.sto, h4.cur, h4.fit⟩
        · obtain ⟨g1, g2⟩ := h4.set _ ((clearMiddle r3.1).buf.getD ((clearMiddle r3.1).storage -
            (clearMiddle r3.1).endOffs - 1) 0 ||| (r3.2.1 % 256)) hi
          exact ⟨g1, g2, h4.sto, h4.cur, h4.fit⟩
    · exact h4
  · exact h3

theorem frame_encInit (buf : List Nat) (size : Nat) (hs : size ≤ buf.length) : Frame buf size (encInit buf size) :=
  ⟨rfl, rfl, Nat.le_refl _, by simp [encInit], hs⟩

end Opus.RangeCoder
