import OpusProofs.CeltAllocMain
/-
  OpusProofs.CeltAllocStereo — coding of the intensity / dual-stereo parameters and the distribution of the
  left-over bits.
-/
namespace OpusProofs.CeltAlloc
open Opus Opus.CeltAlloc
open Opus.Gen.CeltTables

theorem codeStereo_spec (p : Inp) (s : SkipOut) (d : Int) (hd : d = 0 ∨ d = 8)
    (hcb : p.start < s.codedBands)
    (hir : 0 ≤ s.irsv) (hirCb : 0 < s.irsv → s.irsv = (log2FracTable.getD (s.codedBands - p.start) 0 : Int))
    (henc : s.coder.encode = true → (p.dualStereo = 0 ∨ p.dualStereo = 1) ∧ 0 ≤ p.intensity) :
    let st := codeStereo p s d
    0 ≤ st.1 ∧ st.1 ≤ s.codedBands ∧ (st.2.1 = 0 ∨ st.2.1 = 1) ∧
    s.total ≤ st.2.2.1 ∧ st.2.2.1 ≤ s.total + d ∧
    st.2.2.1 + opsCost st.2.2.2.ops = s.total + d + s.irsv + opsCost s.coder.ops ∧
    st.2.2.2.encode = s.coder.encode := by
  intro st
  simp only [st, codeStereo]
  -- the intensity parameter
  generalize hic : (if s.irsv > 0 then
      if s.coder.encode = true then
        (min p.intensity (s.codedBands : Int),
          s.coder.encUint (min p.intensity (s.codedBands : Int) - (p.start : Int)).toNat (s.codedBands + 1 - p.start))
      else ((p.start : Int) + ((s.coder.decUint (s.codedBands + 1 - p.start)).1 : Nat),
          (s.coder.decUint (s.codedBands + 1 - p.start)).2)
    else (0, s.coder)) = ic
  have hicf : 0 ≤ ic.1 ∧ ic.1 ≤ s.codedBands ∧ opsCost ic.2.ops = opsCost s.coder.ops + s.irsv ∧
      ic.2.encode = s.coder.encode := by
    rw [← hic]
    by_cases hpos : s.irsv > 0
    · have e : s.codedBands + 1 - p.start - 1 = s.codedBands - p.start := by omega
      by_cases he : s.coder.encode = true
      · have := (henc he).2
        simp only [hpos, he, if_true, Coder.encUint, opsCost, opCost, e]
        rw [← hirCb hpos]
        exact ⟨by omega, by omega, by omega, trivial⟩
      · simp only [hpos, he, if_true, Bool.false_eq_true, if_false, Coder.decUint, opsCost, opCost, e]
        rw [← hirCb hpos]
        have hm : s.coder.oracle.headD 0 % (s.codedBands + 1 - p.start) < s.codedBands + 1 - p.start :=
          Nat.mod_lt _ (by omega)
        exact ⟨by omega, by omega, by omega, trivial⟩
    · simp only [hpos, if_false]
      exact ⟨by omega, by omega, by omega, trivial⟩
  obtain ⟨h1, h2, h3, h4⟩ := hicf
  by_cases hle : ic.1 ≤ (p.start : Int)
  · simp only [hle, if_true, show ¬ (0 : Int) > 0 by omega, if_false]
    exact ⟨h1, h2, Or.inl trivial, by omega, by omega, by omega, h4⟩
  · simp only [hle, if_false]
    rcases hd with hd | hd
    · subst hd
      simp only [show ¬ (0 : Int) > 0 by omega, if_false]
      exact ⟨h1, h2, Or.inl trivial, by omega, by omega, by omega, h4⟩
    · subst hd
      simp only [show (8 : Int) > 0 by omega, if_true]
      by_cases he : ic.2.encode = true
      · have := (henc (by rw [← h4]; exact he)).1
        simp only [he, if_true, Coder.encBit, opsCost, opCost]
        exact ⟨h1, h2, this, by omega, by omega, by omega, by rw [← h4, he]⟩
      · simp only [he, Bool.false_eq_true, if_false, Coder.decBit, opsCost, opCost]
        have hm : ic.2.oracle.headD 0 % 2 < 2 := Nat.mod_lt _ (by omega)
        refine ⟨h1, h2, by omega, by omega, by omega, by omega, ?_⟩
        rw [← h4]; simpa using he

end OpusProofs.CeltAlloc
