import OpusModel.SilkSynthIdxParams
import OpusProofs.SilkSynthIdxCore
import OpusProofs.SilkSymsIndices
/-
  OpusProofs.SilkSynthIdxParams — silk_decode_parameters reads its side-information arrays, the LTP
  codebooks and the LTP scale table in bounds for every index set the SILK symbol decoder can
  produce (C03 `IndicesOk`, read-only), and fills the control arrays in bounds.
-/
namespace Opus.SilkSynthIdx
open Opus Opus.Gen

theorem consts3 : SilkSynth.szGainsIndices = 4 ∧ SilkSynth.szLtpIndex = 4 ∧ SilkSynth.szNlsfIndices = 17 ∧
    SilkSynth.nbLtpCbks = 3 ∧ SilkSynth.szLtpVq0 = 40 ∧ SilkSynth.szLtpVq1 = 80 ∧ SilkSynth.szLtpVq2 = 160 ∧
    SilkSynth.szLtpScales = 3 ∧ SilkSynth.szPrevNlsf = 16 := by decide

/-- The regenerated LTP tables are consistent: the pointer table points at the three codebooks in order, each
    codebook has `silk_LTP_vq_sizes[k]` rows of `LTP_ORDER` entries, and those sizes are `8 << k` — the number
    of symbols of the LTP-index alphabets of the bit-stream layer (C03). -/
theorem ltpTables_ok : SilkSynth.ltpVqPtrsOk = 1 ∧
    SilkSynth.szLtpVq0 = SilkSynth.ltpVqSize0 * SilkSynth.ltpOrder ∧
    SilkSynth.szLtpVq1 = SilkSynth.ltpVqSize1 * SilkSynth.ltpOrder ∧
    SilkSynth.szLtpVq2 = SilkSynth.ltpVqSize2 * SilkSynth.ltpOrder ∧
    SilkSynth.ltpVqSize0 = 8 ∧ SilkSynth.ltpVqSize1 = 16 ∧ SilkSynth.ltpVqSize2 = 32 := by decide

/-- What the symbol decoder guarantees about the indices silk_decode_parameters uses as subscripts. -/
structure ParamsOk (x : ParamsIn) : Prop where
  fs : x.fsKHz = 8 ∨ x.fsKHz = 12 ∨ x.fsKHz = 16
  nb : x.nbSubfr = 2 ∨ x.nbSubfr = 4
  per : x.signalType = 2 → 0 ≤ x.perIndex ∧ x.perIndex ≤ 2
  ltp : x.signalType = 2 → ∀ k, k < x.nbSubfr → 0 ≤ x.ltpIndex.getD k 0 ∧ x.ltpIndex.getD k 0 < 8 * 2 ^ x.perIndex.toNat
  scale : x.signalType = 2 → 0 ≤ x.ltpScaleIndex ∧ x.ltpScaleIndex ≤ 2

theorem ltpRows_ok (c : Cfg) (cbk : Arr) (rows : Int) (hsz : cbk.size c = rows * 5) (ltpIndex : List Int) (nb : Nat)
    (hnb : nb ≤ 4) (hl : ∀ k, k < nb → 0 ≤ ltpIndex.getD k 0 ∧ ltpIndex.getD k 0 < rows) :
    ∀ (n k : Nat), k + n = nb → AllIn c (ltpRows cbk ltpIndex n k) := by
  obtain ⟨c1, c2, c3, c4, c5, c6, c7, c8, c9, c10, c11, c12, c13, c14, c15⟩ := consts
  obtain ⟨e1, e2, e3, e4, e5, e6, e7, e8, e9⟩ := consts3
  intro n
  induction n with
  | zero => intro k _; exact allIn_nil _
  | succ n ih =>
    intro k hk
    have hlk := hl k (by omega)
    unfold ltpRows
    simp only
    rw [c3]
    refine allIn_append (allIn_append (allIn_append ?_ ?_) ?_) (ih (k + 1) (by omega))
    · apply allIn_rd; intro _; simp only [Arr.size, e2]; omega
    · apply allIn_rd; intro _; rw [hsz]; omega
    · apply allIn_wrt; intro _; simp only [Arr.size, c7]; omega

theorem paramsAccesses_ok (x : ParamsIn) (h : ParamsOk x) : AllIn x.cfg (paramsAccesses x) := by
  have hc : CfgNum x.cfg := cfgOf_num x.fsKHz x.nbSubfr h.fs h.nb
  have hcnb : x.cfg.nbSubfr = x.nbSubfr := rfl
  obtain ⟨hcase, hframe, hnb⟩ := hc
  obtain ⟨c1, c2, c3, c4, c5, c6, c7, c8, c9, c10, c11, c12, c13, c14, c15⟩ := consts
  obtain ⟨e1, e2, e3, e4, e5, e6, e7, e8, e9⟩ := consts3
  unfold paramsAccesses
  simp only
  generalize hcdef : x.cfg = c at *
  have hnbI : (c.nbSubfr : Int) = 2 ∨ (c.nbSubfr : Int) = 4 := by rcases hnb with h' | h' <;> omega
  have hO : c.lpcOrder = 10 ∨ c.lpcOrder = 16 := by
    rcases hcase with ⟨_, _, _, h'⟩ | ⟨_, _, _, h'⟩ | ⟨_, _, _, h'⟩ <;> omega
  rw [c1, c3, c5]
  refine allIn_append (allIn_append (allIn_append (allIn_append (allIn_append (allIn_append (allIn_append ?_ ?_) ?_) ?_) ?_) ?_) ?_) ?_
  · apply allIn_rd; intro _; simp only [Arr.size, e1]; omega
  · apply allIn_wrt; intro _; simp only [Arr.size, c8]; omega
  · apply allIn_rd; intro _; simp only [Arr.size, e3]; omega
  · apply allIn_wrt; intro _; simp only [Arr.size, c5, c6]; omega
  · apply allIn_ite
    · intro _; apply allIn_append
      · apply allIn_rd; intro _; simp only [Arr.size, e9]; omega
      · apply allIn_wrt; intro _; simp only [Arr.size, c5, c6]; omega
    · intro _; apply allIn_append
      · apply allIn_rd; intro _; simp only [Arr.size, c5, c6]; omega
      · apply allIn_wrt; intro _; simp only [Arr.size, c5, c6]; omega
  · apply allIn_wrt; intro _; simp only [Arr.size, e9]; omega
  · apply allIn_ite
    · intro _
      refine allIn_append (allIn_append (allIn_append ?_ ?_) ?_) ?_ <;> (first | apply allIn_rd | apply allIn_wrt) <;>
        intro _ <;> simp only [Arr.size, c5, c6] <;> omega
    · intro _; exact allIn_nil _
  · apply allIn_ite
    · intro hv
      have hper := h.per hv
      have hltp := h.ltp hv
      have hsc := h.scale hv
      refine allIn_append (allIn_append (allIn_append (allIn_append ?_ ?_) ?_) ?_) ?_
      · apply allIn_wrt; intro _; simp only [Arr.size, c9]; omega
      · apply allIn_rd; intro _; simp only [Arr.size, c9]; omega
      · apply allIn_rd; intro _; simp only [Arr.size, e4]; omega
      · have hp3 : x.perIndex = 0 ∨ x.perIndex = 1 ∨ x.perIndex = 2 := by omega
        have hn4 : c.nbSubfr ≤ 4 := by rcases hnb with h' | h' <;> omega
        rcases hp3 with hp | hp | hp <;> rw [hp] at hltp ⊢
        · exact ltpRows_ok c .ltpVq0 8 (by simp only [Arr.size, e5]; decide) x.ltpIndex c.nbSubfr hn4
            (fun k hk => by have := hltp k (by rw [← hcnb]; exact hk); simpa using this) c.nbSubfr 0 (by omega)
        · exact ltpRows_ok c .ltpVq1 16 (by simp only [Arr.size, e6]; decide) x.ltpIndex c.nbSubfr hn4
            (fun k hk => by have := hltp k (by rw [← hcnb]; exact hk); simpa using this) c.nbSubfr 0 (by omega)
        · exact ltpRows_ok c .ltpVq2 32 (by simp only [Arr.size, e7]; decide) x.ltpIndex c.nbSubfr hn4
            (fun k hk => by have := hltp k (by rw [← hcnb]; exact hk); simpa using this) c.nbSubfr 0 (by omega)
      · apply allIn_rd; intro _; simp only [Arr.size, e8]; omega
    · intro _
      apply allIn_append
      · apply allIn_wrt; intro _; simp only [Arr.size, c9]; omega
      · apply allIn_wrt; intro _; simp only [Arr.size, c7]; omega

/-- The inputs of silk_decode_parameters for an index set of the C03 symbol layer. -/
def paramsInOf (rate : Opus.SilkSyms.Rate) (nb : Nat) (ix : Opus.SilkSyms.Indices) (interp : Int) (ffar : Bool)
    (lossCnt : Int) : ParamsIn :=
  { fsKHz := rate.kHz, nbSubfr := nb, signalType := ix.signalType, perIndex := ix.perIndex,
    ltpIndex := ix.ltp.map (fun (l : Nat) => (l : Int)), ltpScaleIndex := ix.ltpScale,
    interpCoefQ2 := interp, firstFrameAfterReset := ffar, lossCnt := lossCnt }

/-- From C03: whatever `silk_decode_indices` returns satisfies `ParamsOk`. -/
theorem paramsOk_of_indicesOk {rate : Opus.SilkSyms.Rate} {nb cc ps : Nat} {pl : Int} {ix : Opus.SilkSyms.Indices}
    (h : Opus.SilkSymsProofs.IndicesOk rate nb cc ps pl ix) (hnb : nb = 2 ∨ nb = 4) (interp : Int) (ffar : Bool)
    (lossCnt : Int) : ParamsOk (paramsInOf rate nb ix interp ffar lossCnt) := by
  unfold paramsInOf
  exact
  { fs := by cases rate <;> simp [Opus.SilkSyms.Rate.kHz],
    nb := hnb,
    per := fun _ => ⟨by simp, by have := h.per; simp; omega⟩,
    ltp := fun hv k hk => by
      have hv' : ix.signalType = 2 := by
        have : ((ix.signalType : Nat) : Int) = 2 := hv
        exact_mod_cast this
      have hlen := h.ltpLen hv'
      have hk' : k < ix.ltp.length := by rw [hlen]; exact hk
      have hmem : ix.ltp[k] ∈ ix.ltp := List.getElem_mem hk'
      have hb := h.ltp _ hmem
      simp only [List.getD_eq_getElem?_getD, List.getElem?_map, List.getElem?_eq_getElem hk', Option.map_some,
        Option.getD_some, Int.toNat_natCast]
      constructor
      · exact Int.natCast_nonneg _
      · exact_mod_cast hb,
    scale := fun _ => ⟨by simp, by have := h.ltpScale; simp; omega⟩ }

end Opus.SilkSynthIdx
