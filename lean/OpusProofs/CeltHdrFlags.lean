import OpusProofs.CeltHdrStep
/-
  OpusProofs.CeltHdrFlags — silence flag, post-filter parameters, intra flag: decoder reads what the encoder wrote.
-/
namespace OpusProofs.CeltHdr
open Opus Opus.RangeCoder Opus.CeltSymsEnc

/-- the model only appends calls -/
def Ext (s s' : St) : Prop := ∃ δ, s'.ops = s.ops ++ δ

theorem Ext.refl (s : St) : Ext s s := ⟨[], by simp⟩
theorem Ext.trans {a b c : St} (h1 : Ext a b) (h2 : Ext b c) : Ext a c := by
  obtain ⟨x, hx⟩ := h1; obtain ⟨y, hy⟩ := h2
  exact ⟨x ++ y, by rw [hy, hx, List.append_assoc]⟩
theorem Ext.emit (s : St) (op : Op) : Ext s (s.emit op) := ⟨[op], rfl⟩
theorem Ext.pop (s : St) : Ext s s.pop.2 := ⟨[], by simp [pop_ops]⟩

theorem prefix_of_ext {w : World} {P0 : List Op} {s s' : St} (h : Ext s s') (hp : w.IsPrefix (P0 ++ s'.ops)) :
    w.IsPrefix (P0 ++ s.ops) := by
  obtain ⟨δ, hδ⟩ := h
  rw [hδ, ← List.append_assoc] at hp
  exact World.isPrefix_of_append hp

/-! ### Silence flag (frame not silent) -/

theorem silenceShrink_ext (cfg : EncCfg) (t : Int) (s : St) : Ext s (silenceShrink cfg t s).2 := by
  unfold silenceShrink; split
  · exact Ext.emit _ _
  · exact Ext.refl s

theorem encSilence_ext (cfg : EncCfg) (s : St) : Ext s (encSilence cfg s).2.2.2 := by
  unfold encSilence
  split
  · split
    · obtain ⟨δ, hδ⟩ := ((Ext.pop s).trans (Ext.emit _ (.bitLogp 1 15))).trans
        (silenceShrink_ext cfg (tell s.e) (s.pop.2.emit (.bitLogp 1 15)))
      exact ⟨δ, hδ⟩
    · exact (Ext.pop s).trans (Ext.emit _ _)
  · exact Ext.refl s

/-- The silence flag of a non-silent frame: the encoder writes `0` with `logp = 15` iff `tell == 1`, the decoder reads
    it iff `tell == 1` (and `tell < total`), and both go on with the entry value of `tell`. -/
theorem silence0_sync {w : World} {P0 : List Op} {s : St} {d : Dec} (h : Here w P0 s d) (cfg : EncCfg) (totD : Int)
    (hsil : (encSilence cfg s).1 = 0)
    (hp : w.IsPrefix (P0 ++ (encSilence cfg s).2.2.2.ops))
    (hroom : tell s.e < totD) :
    (Opus.CeltSyms.readSilence totD d).1 = 0 ∧
    Here w P0 (encSilence cfg s).2.2.2 (Opus.CeltSyms.readSilence totD d).2.1 ∧ (encSilence cfg s).2.2.1 = tell s.e ∧
    (encSilence cfg s).2.1 = cfg.size ∧ tell d = tell s.e := by
  have hpre := prefix_of_ext (encSilence_ext cfg s) hp
  obtain ⟨ht, _, _, _⟩ := h.tells hpre
  simp only [Opus.CeltSyms.readSilence, ht, show ¬ tell s.e ≥ totD by omega, if_false]
  unfold encSilence at hsil hp ⊢
  by_cases h1 : tell s.e = 1
  · simp only [h1, if_true] at hsil hp ⊢
    by_cases hv0 : s.pop.1 = 0
    · simp only [hv0, ne_eq, not_true_eq_false, if_false] at hsil hp ⊢
      obtain ⟨e1, e2⟩ := h.pop.emit_bit 0 15 (by omega) hp
      exact ⟨e1, e2, trivial, trivial, trivial⟩
    · simp only [hv0, ne_eq, not_false_eq_true, if_true] at hsil
      exact absurd hsil (by decide)
  · simp only [h1, if_false] at hp ⊢
    exact ⟨trivial, h, trivial, trivial, trivial⟩

/-! ### Intra flag -/

/-- the intra flag as `encCoarse` writes it -/
def encIntra (totE : Int) (s : St) : Nat × St :=
  if tell s.e + 3 ≤ totE then
    ((if s.pop.1 ≠ 0 then 1 else 0 : Nat), s.pop.2.emit (.bitLogp (if s.pop.1 ≠ 0 then 1 else 0) 3))
  else (0, s)

theorem encIntra_ext (totE : Int) (s : St) : Ext s (encIntra totE s).2 := by
  unfold encIntra; split
  · exact (Ext.pop s).trans (Ext.emit _ _)
  · exact Ext.refl s

theorem intra_sync {w : World} {P0 : List Op} {s : St} {d : Dec} (h : Here w P0 s d) (totE totD : Int)
    (hp : w.IsPrefix (P0 ++ (encIntra totE s).2.ops))
    (hbud : (tell s.e + 3 ≤ totE) ↔ (tell s.e + 3 ≤ totD)) :
    (Opus.CeltSyms.readIntra totD (tell d) d).1 = (encIntra totE s).1 ∧
    Here w P0 (encIntra totE s).2 (Opus.CeltSyms.readIntra totD (tell d) d).2.1 := by
  have hpre := prefix_of_ext (encIntra_ext totE s) hp
  obtain ⟨ht, _, _, _⟩ := h.tells hpre
  simp only [Opus.CeltSyms.readIntra, encIntra, ht] at hp ⊢
  by_cases hc : tell s.e + 3 ≤ totE
  · simp only [hc, hbud.mp hc, if_true] at hp ⊢
    exact h.pop.emit_bit (if s.pop.1 ≠ 0 then 1 else 0) 3 (by split <;> omega) hp
  · have hc' : ¬ tell s.e + 3 ≤ totD := fun hh => hc (hbud.mpr hh)
    simp only [hc, hc', if_false]
    exact ⟨trivial, h⟩

/-! ### Transient: extension fact -/

theorem encTransient_ext (cfg : EncCfg) (totE : Int) (s : St) : Ext s (encTransient cfg totE s).2 := by
  unfold encTransient; split
  · exact (Ext.pop s).trans (Ext.emit _ _)
  · exact Ext.refl s

end OpusProofs.CeltHdr
