import OpusProofs.CeltHdrStep
import OpusProofs.CeltHdrStorage
/-
  OpusProofs.CeltHdrFlags — silence flag, post-filter parameters, intra flag: decoder reads what the encoder wrote.
-/
namespace OpusProofs.CeltHdr
open Opus Opus.RangeCoder Opus.CeltSymsEnc

/-- the model only appends calls, and (in the stages this relation is used for) none of them is `ec_enc_shrink` -/
def Ext (s s' : St) : Prop := ∃ δ, s'.ops = s.ops ++ δ ∧ ∀ op ∈ δ, NotShrink op

theorem Ext.refl (s : St) : Ext s s := ⟨[], by simp, by simp⟩
theorem Ext.trans {a b c : St} (h1 : Ext a b) (h2 : Ext b c) : Ext a c := by
  obtain ⟨x, hx, nx⟩ := h1; obtain ⟨y, hy, ny⟩ := h2
  refine ⟨x ++ y, by rw [hy, hx, List.append_assoc], ?_⟩
  intro op hop
  rcases List.mem_append.mp hop with h | h
  · exact nx op h
  · exact ny op h
theorem Ext.emit (s : St) (op : Op) (h : NotShrink op) : Ext s (s.emit op) :=
  ⟨[op], rfl, by intro o ho; simp at ho; rw [ho]; exact h⟩
theorem Ext.pop (s : St) : Ext s s.pop.2 := ⟨[], by simp [pop_ops], by simp⟩

theorem prefix_of_ext {w : World} {P0 : List Op} {s s' : St} (h : Ext s s') (hp : w.IsPrefix (P0 ++ s'.ops)) :
    w.IsPrefix (P0 ++ s.ops) := by
  obtain ⟨δ, hδ, _⟩ := h
  rw [hδ, ← List.append_assoc] at hp
  exact World.isPrefix_of_append hp

/-- no shrink in between: the encoder's `storage` is unchanged -/
theorem storage_of_ext {w : World} {P0 : List Op} {s s' : St} {d d' : Dec} (h : Ext s s') (hs : Here w P0 s d)
    (hs' : Here w P0 s' d') : s'.e.storage = s.e.storage := by
  obtain ⟨δ, hδ, hn⟩ := h
  rw [hs'.enc, hs.enc, hδ, ← List.append_assoc]
  unfold World.encAt
  rw [encRun_append (P0 ++ s.ops) δ]
  exact encRun_storage δ _ hn

/-! ### Silence flag (frame not silent) -/

theorem encSilence_ext (cfg : EncCfg) (s : St) (hsil : (encSilence cfg s).1 = 0) : Ext s (encSilence cfg s).2.2.2 := by
  unfold encSilence at hsil ⊢
  split
  · rename_i h1
    rw [if_pos h1] at hsil
    split
    · rename_i hv; rw [if_pos hv] at hsil; simp at hsil
    · exact (Ext.pop s).trans (Ext.emit _ _ (by exact True.intro))
  · exact Ext.refl s

/-- The silence flag of a non-silent frame: the encoder writes `0` with `logp = 15` iff `tell == 1`, the decoder reads
    it iff `tell == 1` (and `tell < total`), and both go on with the entry value of `tell`. -/
theorem silence0_sync {w : World} {P0 : List Op} {s : St} {d : Dec} (h : Here w P0 s d) (cfg : EncCfg) (totD : Int)
    (hsil : (encSilence cfg s).1 = 0)
    (hp : w.IsPrefix (P0 ++ (encSilence cfg s).2.2.2.ops))
    (hroom : tell s.e < totD) :
    (Opus.CeltSyms.readSilence totD d).1 = 0 ∧
    Here w P0 (encSilence cfg s).2.2.2 (Opus.CeltSyms.readSilence totD d).2.1 ∧ (encSilence cfg s).2.2.1 = tell s.e ∧
    (encSilence cfg s).2.1 = cfg.size ∧ tell d = tell s.e := by
  have hpre := prefix_of_ext (encSilence_ext cfg s hsil) hp
  obtain ⟨ht, _, _, _⟩ := h.tells hpre
  simp only [Opus.CeltSyms.readSilence, ht, show ¬ tell s.e ≥ totD by omega, if_false]
  unfold encSilence at hsil hp ⊢
  by_cases h1 : tell s.e = 1
  · simp only [h1, if_true] at hsil hp ⊢
    by_cases hv0 : s.pop.1 = 0
    · simp only [hv0, ne_eq, not_true_eq_false, if_false] at hsil hp ⊢
      obtain ⟨e1, e2⟩ := h.pop.emit_bit 0 15 (by omega) hp
      exact ⟨e1, e2, trivial, trivial, trivial⟩
    · simp only [hv0, ne_eq, not_false_eq_true, if_true] at hsil
      exact absurd hsil (by decide)
  · simp only [h1, if_false] at hp ⊢
    exact ⟨trivial, h, trivial, trivial, trivial⟩

/-! ### Intra flag -/

theorem encIntra_ext (totE : Int) (s : St) : Ext s (encIntra totE s).2 := by
  unfold encIntra; split
  · exact (Ext.pop s).trans (Ext.emit _ _ (by exact True.intro))
  · exact Ext.refl s

/-- `tvD` is the decoder's C local `tell` (possibly stale). -/
theorem intra_sync {w : World} {P0 : List Op} {s : St} {d : Dec} (h : Here w P0 s d) (totE totD tvD : Int)
    (hp : w.IsPrefix (P0 ++ (encIntra totE s).2.ops))
    (hbud : (tell s.e + 3 ≤ totE) ↔ (tvD + 3 ≤ totD)) :
    (Opus.CeltSyms.readIntra totD tvD d).1 = (encIntra totE s).1 ∧
    Here w P0 (encIntra totE s).2 (Opus.CeltSyms.readIntra totD tvD d).2.1 := by
  simp only [Opus.CeltSyms.readIntra, encIntra] at hp ⊢
  by_cases hc : tell s.e + 3 ≤ totE
  · simp only [hc, hbud.mp hc, if_true] at hp ⊢
    exact h.pop.emit_bit (if s.pop.1 ≠ 0 then 1 else 0) 3 (by split <;> omega) hp
  · have hc' : ¬ tvD + 3 ≤ totD := fun hh => hc (hbud.mpr hh)
    simp only [hc, hc', if_false]
    exact ⟨trivial, h⟩

/-! ### Transient flag -/

theorem encTransient_ext (cfg : EncCfg) (totE : Int) (s : St) : Ext s (encTransient cfg totE s).2 := by
  unfold encTransient; split
  · exact (Ext.pop s).trans (Ext.emit _ _ (by exact True.intro))
  · exact Ext.refl s

/-- `tvD` is the decoder's C local `tell`, which may be stale (it is only refreshed inside the blocks that read). -/
theorem transient_sync {w : World} {P0 : List Op} {s : St} {d : Dec} (h : Here w P0 s d) (cfg : EncCfg)
    (totE totD tvD : Int)
    (hp : w.IsPrefix (P0 ++ (encTransient cfg totE s).2.ops))
    (hbud : (tell s.e + 3 ≤ totE) ↔ (tvD + 3 ≤ totD)) :
    (Opus.CeltSyms.readTransient cfg.LM totD tvD d).1 = (encTransient cfg totE s).1 ∧
    Here w P0 (encTransient cfg totE s).2 (Opus.CeltSyms.readTransient cfg.LM totD tvD d).2.2.1 ∧
    ((Opus.CeltSyms.readTransient cfg.LM totD tvD d).2.1 = tell (Opus.CeltSyms.readTransient cfg.LM totD tvD d).2.2.1 ∨
     ((Opus.CeltSyms.readTransient cfg.LM totD tvD d).2.1 = tvD ∧ (encTransient cfg totE s).2 = s)) := by
  simp only [Opus.CeltSyms.readTransient, encTransient] at hp ⊢
  by_cases hc : cfg.LM > 0 ∧ tell s.e + 3 ≤ totE
  · have hc' : cfg.LM > 0 ∧ tvD + 3 ≤ totD := ⟨hc.1, hbud.mp hc.2⟩
    simp only [hc, hc', and_self, if_true] at hp ⊢
    obtain ⟨e1, e2⟩ := h.pop.emit_bit (if s.pop.1 ≠ 0 then 1 else 0) 3 (by split <;> omega) hp
    exact ⟨e1, e2, Or.inl trivial⟩
  · have hc' : ¬ (cfg.LM > 0 ∧ tvD + 3 ≤ totD) := fun hh => hc ⟨hh.1, hbud.mpr hh.2⟩
    simp only [hc, hc', if_false]
    exact ⟨trivial, h, Or.inr ⟨trivial, trivial⟩⟩

/-! ### Post-filter -/

theorem pfOnWrite_ext (s : St) : Ext s (pfOnWrite s).2 := by
  unfold pfOnWrite
  simp only []
  exact ((((((((Ext.pop _).trans (Ext.emit _ _ (by exact True.intro))).trans (Ext.pop _)).trans (Ext.emit _ _ (by exact True.intro))).trans (Ext.pop _)).trans
    (Ext.emit _ _ (by exact True.intro))).trans (Ext.pop _)).trans (Ext.emit _ _ (by exact True.intro)))

theorem encPostFilter_ext (cfg : EncCfg) (totE tv : Int) (s : St) : Ext s (encPostFilter cfg totE tv s).2 := by
  unfold encPostFilter
  split
  · split
    · exact (Ext.pop s).trans (Ext.emit _ _ (by exact True.intro))
    · exact ((Ext.pop s).trans (Ext.emit _ _ (by exact True.intro))).trans (pfOnWrite_ext _)
  · exact Ext.refl s

/-- The post-filter block.  `htap`: when the filter is on, the tapset — which the encoder writes without a budget
    test — still passes the decoder's test `tell+2 <= total_bits` (guaranteed by `nbAvailableBytes > 12*C`); `s3` is the state in front of the tapset. -/
theorem postfilter_sync {w : World} {P0 : List Op} {s : St} {d : Dec} (h : Here w P0 s d) (cfg : EncCfg)
    (totE totD tv : Int)
    (hp : w.IsPrefix (P0 ++ (encPostFilter cfg totE tv s).2.ops))
    (hbud : (tv + 16 ≤ totE) ↔ (tv + 16 ≤ totD))
    (htap : ∀ (s3 : St) (d3 : Dec), Here w P0 s3 d3 → (∃ op, (encPostFilter cfg totE tv s).2.ops = s3.ops ++ [op]) →
      (encPostFilter cfg totE tv s).1.on ≠ 0 → tell s3.e + 2 ≤ totD) :
    let r := Opus.CeltSyms.readPostFilter cfg.start totD tv d
    let e := encPostFilter cfg totE tv s
    r.1.on = e.1.on ∧ r.1.octave = e.1.octave ∧ r.1.pitch = e.1.pitch ∧ r.1.qg = e.1.qg ∧ r.1.tapset = e.1.tapset ∧
    Here w P0 e.2 r.2.2.1 ∧ (r.2.1 = tell r.2.2.1 ∨ (r.2.1 = tv ∧ e.2 = s)) := by
  intro r e
  simp only [r, e, Opus.CeltSyms.readPostFilter, encPostFilter] at hp htap ⊢
  by_cases hc : cfg.start = 0 ∧ tv + 16 ≤ totE
  · have hc' : cfg.start = 0 ∧ tv + 16 ≤ totD := ⟨hc.1, hbud.mp hc.2⟩
    simp only [hc, hc', and_self, if_true] at hp htap ⊢
    by_cases hon : s.pop.1 = 0
    · simp only [hon, if_true] at hp ⊢
      obtain ⟨e1, e2⟩ := h.pop.emit_bit 0 1 (by omega) hp
      simp only [e1, ne_eq, not_true_eq_false, if_false]
      exact ⟨trivial, trivial, trivial, trivial, trivial, e2, Or.inl trivial⟩
    · simp only [hon, if_false] at hp htap ⊢
      -- flag 1, octave, pitch bits, gain, tapset
      have hx := pfOnWrite_ext (s.pop.2.emit (.bitLogp 1 1))
      unfold pfOnWrite at hp htap hx ⊢
      simp only [] at hp htap hx ⊢
      generalize hs1 : s.pop.2.emit (.bitLogp 1 1) = s1 at *
      generalize hs2 : s1.pop.2.emit (.uint s1.pop.1.toNat 6) = s2 at *
      generalize hs3 : s2.pop.2.emit (.bits s2.pop.1.toNat (4 + s1.pop.1.toNat)) = s3 at *
      generalize hs4 : s3.pop.2.emit (.bits s3.pop.1.toNat 3) = s4 at *
      have x12 : Ext s1 s2 := hs2 ▸ (Ext.pop _).trans (Ext.emit _ _ (by exact True.intro))
      have x23 : Ext s2 s3 := hs3 ▸ (Ext.pop _).trans (Ext.emit _ _ (by exact True.intro))
      have x34 : Ext s3 s4 := hs4 ▸ (Ext.pop _).trans (Ext.emit _ _ (by exact True.intro))
      have x45 : Ext s4 (s4.pop.2.emit (.icdf s4.pop.1.toNat Opus.CeltSymsFrozen.tapsetIcdf 2)) := (Ext.pop _).trans (Ext.emit _ _ (by exact True.intro))
      have x01 : Ext s s1 := hs1 ▸ (Ext.pop _).trans (Ext.emit _ _ (by exact True.intro))
      have p4 := prefix_of_ext x45 hp
      have p3 := prefix_of_ext x34 p4
      have p2 := prefix_of_ext x23 p3
      have p1 := prefix_of_ext x12 p2
      obtain ⟨a1, a2⟩ := h.pop.emit_bit 1 1 (by omega) (hs1 ▸ p1)
      rw [hs1] at a2
      obtain ⟨b1, b2⟩ := a2.pop.emit_uint s1.pop.1.toNat 6 (hs2 ▸ p2)
      rw [hs2] at b2
      obtain ⟨c1, c2⟩ := b2.pop.emit_bits s2.pop.1.toNat (4 + s1.pop.1.toNat) (hs3 ▸ p3)
      rw [hs3] at c2
      obtain ⟨d1, d2⟩ := c2.pop.emit_bits s3.pop.1.toNat 3 (hs4 ▸ p4)
      rw [hs4] at d2
      obtain ⟨f1, f2⟩ := d2.pop.emit_icdf s4.pop.1.toNat Opus.CeltSymsFrozen.tapsetIcdf 2 hp
      -- the decoder's tapset test
      obtain ⟨t4, _, _, _⟩ := d2.tells p4
      have hroom := htap s4 _ d2 ⟨_, rfl⟩ (by decide)
      simp only [a1, ne_eq, Nat.succ_ne_zero, not_false_eq_true, if_true, Opus.CeltSyms.readPostFilterOn, b1, c1, d1,
        t4, hroom, f1]
      exact ⟨trivial, trivial, trivial, trivial, trivial, f2, Or.inl trivial⟩
  · have hc' : ¬ (cfg.start = 0 ∧ tv + 16 ≤ totD) := fun hh => hc ⟨hh.1, hbud.mpr hh.2⟩
    simp only [hc, hc', if_false]
    exact ⟨trivial, trivial, trivial, trivial, trivial, h, Or.inr ⟨trivial, trivial⟩⟩

end OpusProofs.CeltHdr
