import OpusModel.CeltIdx
/-
  OpusProofs.CeltIdx — the index extents of the CELT decoder interior lie inside their allocations
  (first milestone: decoder-state layout, decode_mem shift, post-filter).
-/
namespace Opus.CeltIdx
open Opus.Gen.CeltIdxConsts

/-! ## Interval algebra -/

/-- Empty, or contained in `[lo, hi]`. -/
def Ext.sub (e : Ext) (lo hi : Int) : Prop := e.isEmpty = true ∨ (lo ≤ e.lo ∧ e.hi ≤ hi)

theorem Ext.empty_sub (lo hi : Int) : Ext.empty.sub lo hi := Or.inl (by decide)

theorem Ext.mk_sub {l h lo hi : Int} (h1 : lo ≤ l) (h2 : h ≤ hi) : (Ext.mk l h).sub lo hi := Or.inr ⟨h1, h2⟩

theorem Ext.union_sub {a b : Ext} {lo hi : Int} (ha : a.sub lo hi) (hb : b.sub lo hi) : (a.union b).sub lo hi := by
  unfold Ext.union
  by_cases ea : a.isEmpty = true
  · rw [if_pos ea]; exact hb
  · rw [if_neg ea]
    by_cases eb : b.isEmpty = true
    · rw [if_pos eb]; exact ha
    · rw [if_neg eb]
      rcases ha with ha | ha
      · exact absurd ha ea
      rcases hb with hb | hb
      · exact absurd hb eb
      exact Or.inr ⟨by show lo ≤ min a.lo b.lo; omega, by show max a.hi b.hi ≤ hi; omega⟩

theorem Ext.shift_sub {e : Ext} {lo hi : Int} (d : Int) (h : e.sub lo hi) : (e.shift d).sub (lo + d) (hi + d) := by
  unfold Ext.shift
  by_cases ee : e.isEmpty = true
  · rw [if_pos ee]; exact Or.inl ee
  · rw [if_neg ee]
    rcases h with h | h
    · exact absurd h ee
    exact Or.inr ⟨by show lo + d ≤ e.lo + d; omega, by show e.hi + d ≤ hi + d; omega⟩

theorem Ext.sub_within {e : Ext} {lo hi n : Int} (h : e.sub lo hi) (h0 : 0 ≤ lo) (hn : hi < n) : e.within n := by
  rcases h with h | h
  · exact Or.inl h
  · exact Or.inr ⟨by omega, by omega⟩

theorem Ext.sub_mono {e : Ext} {lo hi lo' hi' : Int} (h : e.sub lo hi) (h1 : lo' ≤ lo) (h2 : hi ≤ hi') : e.sub lo' hi' := by
  rcases h with h | h
  · exact Or.inl h
  · exact Or.inr ⟨by omega, by omega⟩

/-! ## Decoder state layout -/

/-- The arrays behind the struct tile the allocation in the order the code computes the pointers: each starts where the
    previous one ends, and the last ends `szStruct − offMem − szSig` (struct tail padding) bytes before
    `opus_custom_decoder_get_size`. -/
theorem layout_tiles (CC : Int) :
    memOff 0 = offMem ∧ (∀ c, memOff (c + 1) = memOff c + memLen * szSig) ∧
    lpcOff CC = memOff CC ∧
    oldBandEOff CC = lpcOff CC + CC * CELT_LPC_ORDER * szVal16 ∧
    oldLogEOff CC = oldBandEOff CC + 2 * nbEBands * szGlog ∧
    oldLogE2Off CC = oldLogEOff CC + 2 * nbEBands * szGlog ∧
    backgroundOff CC = oldLogE2Off CC + 2 * nbEBands * szGlog ∧
    stateEnd CC = backgroundOff CC + 2 * nbEBands * szGlog ∧
    stateEnd CC + (szStruct - offMem - szSig) = getSize CC := by
  refine ⟨?_, ?_, rfl, rfl, rfl, rfl, rfl, rfl, ?_⟩
  · simp only [memOff, memLen, offMem, szSig, DECODE_BUFFER_SIZE, overlap]; omega
  · intro c; simp only [memOff, memLen, offMem, szSig, DECODE_BUFFER_SIZE, overlap]; omega
  · simp only [stateEnd, backgroundOff, oldLogE2Off, oldLogEOff, oldBandEOff, lpcOff, getSize, memLen, offMem, szSig, szVal16,
      szGlog, szStruct, DECODE_BUFFER_SIZE, overlap, CELT_LPC_ORDER, nbEBands]
    omega

/-- The struct's own `_decode_mem[1]` lies inside the struct, so the tail padding is non-negative and everything up to
    `stateEnd` is inside the `get_size` bytes. -/
theorem stateEnd_le_getSize (CC : Int) : stateEnd CC ≤ getSize CC := by
  have h := (layout_tiles CC).2.2.2.2.2.2.2.2
  have : (0 : Int) ≤ szStruct - offMem - szSig := by decide
  omega

/-- The model's size formula agrees with what the library returned when the constants were extracted. -/
theorem getSize_values : getSize 1 = getSize1 ∧ getSize 2 = getSize2 := by decide

/-- Element `i` of `decode_mem[c]` (`0 ≤ i < DECODE_BUFFER_SIZE+overlap`, `0 ≤ c < CC`) lies inside the `_decode_mem`
    region, before `lpc`. -/
theorem mem_elem_in_state {CC c i : Int} (hc : 0 ≤ c ∧ c < CC) (hi : 0 ≤ i ∧ i < memLen) :
    offMem ≤ memOff c + i * szSig ∧ memOff c + i * szSig + szSig ≤ lpcOff CC := by
  simp only [memOff, lpcOff, memLen, offMem, szSig, DECODE_BUFFER_SIZE, overlap] at *
  constructor
  · have : 0 ≤ c * 2168 := by omega
    omega
  · have : (c + 1) * 2168 ≤ CC * 2168 := by omega
    omega

/-! ## comb_filter -/

theorem clampT_ge (T : Int) : COMBFILTER_MINPERIOD ≤ clampT T ∧ T ≤ clampT T := by
  unfold clampT; omega

theorem combOv_cases (a : CombArgs) : combOv a = 0 ∨ combOv a = a.ovl := by
  unfold combOv; split
  · exact Or.inl rfl
  · exact Or.inr rfl

/-- Reads of `comb_filter` stay within `[−max(T0,T1)−2, n−1]` of `x` (periods after the `IMAX` clamp). -/
theorem combRead_sub (a : CombArgs) (hov : 0 ≤ a.ovl ∧ a.ovl ≤ a.n) :
    (combRead a).sub (-(max (clampT a.T0) (clampT a.T1)) - 2) (a.n - 1) := by
  have h0 := clampT_ge a.T0
  have h1 := clampT_ge a.T1
  have hm : (15 : Int) = COMBFILTER_MINPERIOD := rfl
  unfold combRead
  split
  · split
    · exact Ext.empty_sub _ _
    · exact Ext.mk_sub (by omega) (by omega)
  · rcases combOv_cases a with ho | ho
    · simp only [ho]
      refine Ext.union_sub (Ext.union_sub (Ext.mk_sub (by omega) (by omega)) ?_) ?_
      · rw [if_neg (by omega)]; exact Ext.empty_sub _ _
      · split
        · split
          · exact Ext.empty_sub _ _
          · exact Ext.mk_sub (by omega) (by omega)
        · split
          · exact Ext.mk_sub (by omega) (by omega)
          · exact Ext.mk_sub (by omega) (by omega)
    · simp only [ho]
      refine Ext.union_sub (Ext.union_sub (Ext.mk_sub (by omega) (by omega)) ?_) ?_
      · split
        · exact Ext.mk_sub (by omega) (by omega)
        · exact Ext.empty_sub _ _
      · split
        · split
          · exact Ext.empty_sub _ _
          · exact Ext.mk_sub (by omega) (by omega)
        · split
          · exact Ext.mk_sub (by omega) (by omega)
          · exact Ext.mk_sub (by omega) (by omega)

/-- Writes of `comb_filter` stay within `[0, n−1]` of `y`. -/
theorem combWrite_sub (a : CombArgs) (hov : 0 ≤ a.ovl ∧ a.ovl ≤ a.n) : (combWrite a).sub 0 (a.n - 1) := by
  unfold combWrite
  split
  · split
    · exact Ext.empty_sub _ _
    · exact Ext.mk_sub (by omega) (by omega)
  · rcases combOv_cases a with ho | ho
    · simp only [ho]
      refine Ext.union_sub ?_ ?_
      · rw [if_neg (by omega)]; exact Ext.empty_sub _ _
      · split
        · split
          · exact Ext.empty_sub _ _
          · exact Ext.mk_sub (by omega) (by omega)
        · split
          · exact Ext.mk_sub (by omega) (by omega)
          · exact Ext.empty_sub _ _
    · simp only [ho]
      refine Ext.union_sub ?_ ?_
      · split
        · exact Ext.mk_sub (by omega) (by omega)
        · exact Ext.empty_sub _ _
      · split
        · split
          · exact Ext.empty_sub _ _
          · exact Ext.mk_sub (by omega) (by omega)
        · split
          · exact Ext.mk_sub (by omega) (by omega)
          · exact Ext.empty_sub _ _

/-! ## Legal frames and periods -/

theorem legalFrame_cases {N LM : Int} (h : LegalFrame N LM) :
    (LM = 0 ∧ N = 120) ∨ (LM = 1 ∧ N = 240) ∨ (LM = 2 ∧ N = 480) ∨ (LM = 3 ∧ N = 960) := by
  obtain ⟨h0, h1, h2⟩ := h
  have hm : maxLM = 3 := rfl
  have : LM = 0 ∨ LM = 1 ∨ LM = 2 ∨ LM = 3 := by omega
  rcases this with rfl | rfl | rfl | rfl <;> simp [h2, frameN, shortMdctSize]

theorem periodOk_clamp {p : Int} (h : PeriodOk p) : COMBFILTER_MINPERIOD ≤ clampT p ∧ clampT p < MAX_PERIOD := by
  have hm : (15 : Int) = COMBFILTER_MINPERIOD := rfl
  have hM : (1024 : Int) = MAX_PERIOD := rfl
  unfold clampT
  rcases h with h | h <;> omega

/-- The post-filter state stays legal: the periods after the frame are again 0 or in `[MINPERIOD, MAX_PERIOD)`, provided
    the decoded pitch is (C03 `celtHdr_total_in_range`: a transmitted period lies in [15, 1022]; 0 when absent). -/
theorem pfNext_periodOk {LM pOld pCur pNew : Int} (hc : PeriodOk pCur) (hn : PeriodOk pNew) :
    PeriodOk (pfNext LM pOld pCur pNew).1 ∧ PeriodOk (pfNext LM pOld pCur pNew).2 := by
  unfold pfNext
  split
  · exact ⟨hn, hn⟩
  · exact ⟨Or.inr (periodOk_clamp hc), hn⟩

/-! ## The post-filter calls -/

/-- Every read and write of every post-filter `comb_filter` call of a legal frame, for any gains / tapsets, lies inside
    `decode_mem[c][0 .. DECODE_BUFFER_SIZE+overlap)`; more precisely reads start at `DECODE_BUFFER_SIZE − N − 1025` or
    later, and nothing at or above `DECODE_BUFFER_SIZE` (the overlap tail) is touched. -/
theorem pfCalls_in_bounds {N LM pOld pCur pNew : Int} (hf : LegalFrame N LM) (ho : PeriodOk pOld) (hc : PeriodOk pCur)
    (hn : PeriodOk pNew) (k : PfCall) (hk : k ∈ pfCalls N LM pOld pCur pNew) (g0z g1z gsame : Bool) :
    (k.read g0z g1z gsame).sub (DECODE_BUFFER_SIZE - N - MAX_PERIOD - 1) (DECODE_BUFFER_SIZE - 1) ∧
    (k.write g0z g1z gsame).sub (DECODE_BUFFER_SIZE - N) (DECODE_BUFFER_SIZE - 1) := by
  have co := periodOk_clamp ho
  have cc := periodOk_clamp hc
  have cn := periodOk_clamp hn
  have hm : (15 : Int) = COMBFILTER_MINPERIOD := rfl
  have hM : (1024 : Int) = MAX_PERIOD := rfl
  have hD : (2048 : Int) = DECODE_BUFFER_SIZE := rfl
  have hs : (120 : Int) = shortMdctSize := rfl
  have hv : (120 : Int) = overlap := rfl
  have hN := legalFrame_cases hf
  have idem : ∀ T, COMBFILTER_MINPERIOD ≤ T → clampT T = T := by intro T h; unfold clampT; omega
  unfold pfCalls at hk
  rcases List.mem_cons.mp hk with rfl | hk
  · -- first call: x = out_syn[c], n = shortMdctSize
    have hr := combRead_sub (PfCall.args ⟨outSynOff N, clampT pOld, clampT pCur, shortMdctSize, overlap⟩ g0z g1z gsame)
      (by show 0 ≤ overlap ∧ overlap ≤ shortMdctSize; omega)
    have hw := combWrite_sub (PfCall.args ⟨outSynOff N, clampT pOld, clampT pCur, shortMdctSize, overlap⟩ g0z g1z gsame)
      (by show 0 ≤ overlap ∧ overlap ≤ shortMdctSize; omega)
    constructor
    · refine Ext.sub_mono (Ext.shift_sub (outSynOff N) hr) ?_ ?_
      · show DECODE_BUFFER_SIZE - N - MAX_PERIOD - 1 ≤ -(max (clampT (clampT pOld)) (clampT (clampT pCur))) - 2 + outSynOff N
        rw [idem _ co.1, idem _ cc.1]; unfold outSynOff; omega
      · show shortMdctSize - 1 + outSynOff N ≤ DECODE_BUFFER_SIZE - 1
        unfold outSynOff; omega
    · refine Ext.sub_mono (Ext.shift_sub (outSynOff N) hw) ?_ ?_
      · show DECODE_BUFFER_SIZE - N ≤ 0 + outSynOff N
        unfold outSynOff; omega
      · show shortMdctSize - 1 + outSynOff N ≤ DECODE_BUFFER_SIZE - 1
        unfold outSynOff; omega
  · -- second call (LM ≠ 0): x = out_syn[c] + shortMdctSize, n = N − shortMdctSize
    by_cases hl : LM ≠ 0
    · rw [if_pos hl] at hk
      rcases List.mem_cons.mp hk with rfl | hk
      · have hov : 0 ≤ overlap ∧ overlap ≤ N - shortMdctSize := by omega
        have hr := combRead_sub (PfCall.args ⟨outSynOff N + shortMdctSize, clampT pCur, pNew, N - shortMdctSize, overlap⟩ g0z g1z gsame) hov
        have hw := combWrite_sub (PfCall.args ⟨outSynOff N + shortMdctSize, clampT pCur, pNew, N - shortMdctSize, overlap⟩ g0z g1z gsame) hov
        constructor
        · refine Ext.sub_mono (Ext.shift_sub (outSynOff N + shortMdctSize) hr) ?_ ?_
          · show DECODE_BUFFER_SIZE - N - MAX_PERIOD - 1 ≤ -(max (clampT (clampT pCur)) (clampT pNew)) - 2 + (outSynOff N + shortMdctSize)
            rw [idem _ cc.1]; unfold outSynOff; omega
          · show N - shortMdctSize - 1 + (outSynOff N + shortMdctSize) ≤ DECODE_BUFFER_SIZE - 1
            unfold outSynOff; omega
        · refine Ext.sub_mono (Ext.shift_sub (outSynOff N + shortMdctSize) hw) ?_ ?_
          · show DECODE_BUFFER_SIZE - N ≤ 0 + (outSynOff N + shortMdctSize)
            unfold outSynOff; omega
          · show N - shortMdctSize - 1 + (outSynOff N + shortMdctSize) ≤ DECODE_BUFFER_SIZE - 1
            unfold outSynOff; omega
      · exact absurd hk List.not_mem_nil
    · rw [if_neg hl] at hk; exact absurd hk List.not_mem_nil

/-- `OPUS_MOVE(decode_mem[c], decode_mem[c]+N, DECODE_BUFFER_SIZE−N+overlap)`: source and destination inside
    `decode_mem[c]`; the source ends exactly at the end of the channel's buffer. -/
theorem memMove_in_bounds {N LM : Int} (hf : LegalFrame N LM) :
    (memMoveSrc N).within memLen ∧ (memMoveDst N).within memLen ∧ (memMoveSrc N).hi = memLen - 1 := by
  have hN := legalFrame_cases hf
  have hD : (2048 : Int) = DECODE_BUFFER_SIZE := rfl
  have hv : (120 : Int) = overlap := rfl
  refine ⟨Or.inr ⟨?_, ?_⟩, Or.inr ⟨?_, ?_⟩, ?_⟩ <;> simp only [memMoveSrc, memMoveDst, memLen] <;> omega

end Opus.CeltIdx
