import OpusModel.SilkSyms
/-
  C03 helper lemmas, part 1: the scan of `ec_dec_icdf` stops at the first zero entry of the table it is
  given, whatever the decoder state — so the symbol returned is bounded by the position of that zero.
  Everything about "decoded index lies inside the table" reduces to this and to facts about the
  regenerated tables (OpusProofs/SilkSymsTables.lean).
-/
namespace Opus.SilkSymsProofs
open Opus Opus.RangeCoder Opus.SilkSyms

/-- Position of the first `0` entry (the list length if there is none). -/
def zeroPos : List Nat → Nat
  | [] => 0
  | x :: xs => if x = 0 then 0 else zeroPos xs + 1

/-- Well-formed ICDF slice for 8-bit precision: first entry below 256, strictly decreasing down to a `0`
    (entries behind the first `0` belong to the next table of the same C array and are never reached). -/
def icdfSliceOk : List Nat → Bool
  | [] => false
  | [x] => x == 0
  | x :: y :: t => decide (x < 256) && (x == 0 || (decide (y < x) && icdfSliceOk (y :: t)))

theorem decIcdfLoop_le (r d : Nat) : ∀ (xs : List Nat) (t k : Nat),
    (decIcdfLoop r d xs t k).1 ≤ k + zeroPos xs
  | [], t, k => by simp [decIcdfLoop, zeroPos]
  | x :: xs, t, k => by
    unfold decIcdfLoop zeroPos
    by_cases hx : x = 0
    · subst hx
      have : mul32 r 0 = 0 := by simp [mul32]
      simp [this]
    · simp only [hx, if_false]
      split
      · have := decIcdfLoop_le r d xs (mul32 r x) (k + 1)
        omega
      · simp

theorem decIcdf_le (c : Dec) (tbl : List Nat) (ftb : Nat) : (decIcdf c tbl ftb).1 ≤ zeroPos tbl := by
  unfold decIcdf
  have := decIcdfLoop_le (c.rng / 2 ^ ftb) c.val tbl c.rng 0
  simp only [Nat.zero_add] at this
  exact this

/-- One symbol is at most the position of the first zero of its table. -/
theorem sym_le (c : Dec) (tbl : List Nat) : (sym c tbl).1 ≤ zeroPos tbl := decIcdf_le c tbl 8

theorem sym_le_of {n : Nat} (c : Dec) (tbl : List Nat) (h : zeroPos tbl = n) : (sym c tbl).1 ≤ n := by
  rw [← h]; exact sym_le c tbl

theorem symLoop_length (tbl : List Nat) : ∀ (n : Nat) (c : Dec), (symLoop tbl n c).1.length = n
  | 0, c => by simp [symLoop]
  | n + 1, c => by simp [symLoop, symLoop_length tbl n]

theorem symLoop_le (tbl : List Nat) : ∀ (n : Nat) (c : Dec), ∀ x ∈ (symLoop tbl n c).1, x ≤ zeroPos tbl
  | 0, c => by simp [symLoop]
  | n + 1, c => by
    intro x hx
    simp only [symLoop, List.mem_cons] at hx
    rcases hx with h | h
    · rw [h]; exact sym_le c tbl
    · exact symLoop_le tbl n _ x h

theorem decBitLogp_le (c : Dec) (logp : Nat) : (decBitLogp c logp).1 ≤ 1 := by
  unfold decBitLogp; simp only; split <;> omega

end Opus.SilkSymsProofs
