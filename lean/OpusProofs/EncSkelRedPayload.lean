import OpusProofs.EncSkelRed
import OpusProofs.EncSkelInv
/-
  OpusProofs.EncSkelRedPayload — the frame the encoder skeleton emits when it signalled redundancy:
  `(frameNative s fi e).payload` (the bytes after the ToC that reach `opus_decode_frame` as `len`) is
  `⌈tellB/8⌉ + redundancy_bytes` in SILK-only mode and `max_data_bytes − 1` in hybrid mode with VBR off —
  which ties the `len` on which the redundancy-mirror theorems run the decoder to the encoder's own output.
-/
namespace Opus.EncSkel.Proofs
open Opus Opus.EncSkel Opus.EncDecide

/-- What the contracts along the path say once the SILK block continued with `x`. -/
theorem frameOk_cont (s : St) (fi : FrameIn) (e : FrameOr) (x : Mid) (hx : frSilk fi (frPre s fi) e = .cont x)
    (hok : frameOk s fi e = true) :
    tellsOk (frPre s fi).st.mode fi.maxDataBytes x.redundancy e = true ∧
    coderOk (frRedSig fi x e).2.2 fi (frRedSig fi x e).1 x.celtToSilk (frRedSig fi x e).2.1 e = true ∧
    finishOk (frRedSig fi x e).2.2 fi e = true := by
  unfold frameOk at hok
  dsimp only at hok
  rw [hx] at hok
  simp only [Bool.and_eq_true] at hok
  exact ⟨hok.2.1, hok.2.2.1, hok.2.2.2⟩

theorem frSilk_mode (s : St) (fi : FrameIn) (e : FrameOr) (x : Mid) (hx : frSilk fi (frPre s fi) e = .cont x) :
    x.st.mode = (frPre s fi).st.mode := by
  have h := ((frSilk_st s fi e).2 x hx).1
  have h2 := frPre_keeps s fi
  rw [h.mode, h2.mode]

/-- **SILK-only frame with redundancy: the payload is the coded bytes plus the redundancy bytes.**  Whenever the call
    returns a packet (`ret ≥ 1`, not the DTX return) whose range coder did not bust the budget, under the oracle
    contracts `frameOk`. -/
theorem silk_red_payload (s : St) (fi : FrameIn) (e : FrameOr) (x : Mid)
    (hx : frSilk fi (frPre s fi) e = .cont x) (hmode : x.st.mode = MODE_SILK_ONLY)
    (hred : (frRedSig fi x e).1 = true) (hok : frameOk s fi e = true)
    (hdtx : (frameNative s fi e).dtx = false) (hret : 1 ≤ (frameNative s fi e).ret)
    (hbust : e.tellE ≤ (fi.maxDataBytes - 1) * 8) :
    (frameNative s fi e).payload = (e.tellB + 7) / 8 + (frRedSig fi x e).2.1 := by
  obtain ⟨ht, hc, hf⟩ := frameOk_cont s fi e x hx hok
  rw [← frSilk_mode s fi e x hx, hmode] at ht
  have hrb : readsB MODE_SILK_ONLY fi.maxDataBytes x.redundancy e = true ∧ (frRedSig fi x e).2.2 = x.st ∧
      2 ≤ (frRedSig fi x e).2.1 := by
    unfold frRedSig at hred ⊢
    dsimp only at hred ⊢
    rw [hmode] at hred ⊢
    split at hred
    · rename_i hb; rw [if_pos hb]; exact ⟨hb, rfl, by dsimp only; omega⟩
    · cases hred
  obtain ⟨hb, hst, hrb2⟩ := hrb
  have htc : e.tellC = e.tellB := by
    unfold tellsOk at ht
    rw [if_neg (by decide), hb] at ht
    simp only [Bool.and_eq_true, decide_eq_true_eq, if_true] at ht
    exact ht.2
  unfold frameNative at hdtx hret ⊢
  dsimp only at hdtx hret ⊢
  rw [hx] at hdtx hret ⊢
  dsimp only at hdtx hret ⊢
  generalize hrs : frRedSig fi x e = rs at *
  obtain ⟨red, rb, s'⟩ := rs
  dsimp only at hred hst hrb2 hc hf hdtx hret ⊢
  subst hred hst
  -- the coding block in SILK-only mode
  have hfc : (∃ c cs, frCode x.st fi true x.celtToSilk rb e = (.ok c, cs) ∧ c.ret = (e.tellC + 7) / 8) ∨
      (∃ cs, frCode x.st fi true x.celtToSilk rb e = (.ierr, cs)) := by
    unfold frCode runMain nbCompr0
    simp only [hmode, MODE_SILK_ONLY, MODE_HYBRID, ne_eq, not_true_eq_false, false_and, if_false, if_true,
      decide_false, Bool.false_eq_true, true_and, show ¬ ((1000 : Int) = 1001) by decide]
    split
    · exact Or.inr ⟨_, rfl⟩
    · split
      · split
        · exact Or.inr ⟨_, rfl⟩
        · exact Or.inl ⟨_, _, rfl, rfl⟩
      · exact Or.inl ⟨_, _, rfl, rfl⟩
  rcases hfc with ⟨c, cs, hfc, hcr⟩ | ⟨cs', hfc⟩
  · rw [hfc] at hdtx hret ⊢
    dsimp only at hdtx hret ⊢
    have hfr : finishRet x.st fi true rb c.ret e = c.ret + 1 + rb := by
      unfold finishRet
      rw [if_neg (by omega), if_neg (by simp)]
    unfold frFinish at hdtx hret ⊢
    dsimp only at hdtx hret ⊢
    rw [hfr] at hdtx hret ⊢
    by_cases hd : (dtxDecision x.st fi e).1 ≠ 0
    · rw [if_pos hd] at hdtx; cases hdtx
    · rw [if_neg hd] at hret ⊢
      rw [if_neg (by omega)] at hret ⊢
      by_cases hcbr : x.st.useVbr = 0
      · rw [if_pos hcbr] at hret ⊢
        split at hret
        · simp only [errRes, OPUS_INTERNAL_ERROR] at hret; omega
        · rename_i hpad
          rw [if_neg hpad]
          dsimp only
          rw [hcr, htc]; omega
      · rw [if_neg hcbr]
        dsimp only
        rw [hcr, htc]; omega
  · rw [hfc] at hret
    simp only [errRes, OPUS_INTERNAL_ERROR] at hret
    omega

/-- SILK-only, redundancy signalled: the flag bit did not move `ec_tell` backwards (contract `tellsOk`). -/
theorem silk_red_mono (s : St) (fi : FrameIn) (e : FrameOr) (x : Mid)
    (hx : frSilk fi (frPre s fi) e = .cont x) (hmode : x.st.mode = MODE_SILK_ONLY)
    (hred : (frRedSig fi x e).1 = true) (hok : frameOk s fi e = true) : e.tellA ≤ e.tellB := by
  obtain ⟨ht, -, -⟩ := frameOk_cont s fi e x hx hok
  rw [← frSilk_mode s fi e x hx, hmode] at ht
  have hb : readsB MODE_SILK_ONLY fi.maxDataBytes x.redundancy e = true := by
    unfold frRedSig at hred
    dsimp only at hred
    rw [hmode] at hred
    split at hred
    · assumption
    · cases hred
  unfold tellsOk at ht
  rw [if_neg (by decide), hb] at ht
  simp only [Bool.and_eq_true, decide_eq_true_eq, if_true, Bool.not_true, Bool.false_or,
    show ¬ (MODE_SILK_ONLY = MODE_HYBRID) by decide, if_false] at ht
  omega

/-- When the main CELT call runs, `ret` of the coding block is what it returned. -/
theorem frCode_ok_ret (s : St) (fi : FrameIn) (red c2s : Bool) (rb : Int) (o : FrameOr) (c : Coded) (cs : List Call)
    (h : frCode s fi red c2s rb o = (.ok c, cs)) (hrun : runMain s fi rb o = true) : c.ret = o.celtMain := by
  have h1 := congrArg Prod.fst h
  unfold frCode at h1
  dsimp only at h1
  rw [hrun] at h1
  simp only [apply_ite Prod.fst, if_true] at h1
  split at h1
  · cases h1
  · split at h1
    · cases h1
    · split at h1
      · cases h1
      · split at h1
        · split at h1
          · cases h1
          · split at h1
            · cases h1
            · simp only [CodeRes.ok.injEq] at h1
              rw [← h1]
        · simp only [CodeRes.ok.injEq] at h1
          rw [← h1]

/-- **Hybrid frame with redundancy, VBR off: the payload is the whole budget `max_data_bytes − 1`.**  The main CELT
    call runs (the gate of :2220 and the clamp of :2239 leave it room), in CBR it returns exactly its budget
    `max_data_bytes − 1 − redundancy_bytes` (contract `coderOk`), and the redundant frame follows. -/
theorem hybrid_cbr_payload (s : St) (fi : FrameIn) (e : FrameOr) (x : Mid)
    (hx : frSilk fi (frPre s fi) e = .cont x) (hmode : x.st.mode = MODE_HYBRID) (hcbr : x.st.useVbr = 0)
    (hred : (frRedSig fi x e).1 = true) (hok : frameOk s fi e = true)
    (hdtx : (frameNative s fi e).dtx = false) (hret : 1 ≤ (frameNative s fi e).ret)
    (hbust : e.tellE ≤ (fi.maxDataBytes - 1) * 8) :
    (frameNative s fi e).payload = fi.maxDataBytes - 1 ∧ e.tellA + 17 + 20 ≤ 8 * (fi.maxDataBytes - 1) ∧
    2 ≤ (frRedSig fi x e).2.1 ∧ (frRedSig fi x e).2.1 ≤ 257 ∧
    e.tellD ≤ 8 * (fi.maxDataBytes - 1 - (frRedSig fi x e).2.1) := by
  obtain ⟨ht, hc, hf⟩ := frameOk_cont s fi e x hx hok
  rw [← frSilk_mode s fi e x hx, hmode] at ht
  have hrb : readsB MODE_HYBRID fi.maxDataBytes x.redundancy e = true ∧ (frRedSig fi x e).2.2 = x.st ∧
      2 ≤ (frRedSig fi x e).2.1 ∧ (frRedSig fi x e).2.1 ≤ 257 ∧
      ((frRedSig fi x e).2.1 ≤ (fi.maxDataBytes - 1) - (e.tellB + 8 + 3 + 7) / 8 ∨ (frRedSig fi x e).2.1 = 2) := by
    unfold frRedSig at hred ⊢
    dsimp only at hred ⊢
    rw [hmode] at hred ⊢
    split at hred
    · rename_i hb; rw [if_pos hb]; simp only [if_true]; exact ⟨hb, trivial, by omega, by omega, by omega⟩
    · cases hred
  obtain ⟨hb, hst, hrb2, hrb257, hrbmax⟩ := hrb
  have hgate : e.tellA + 17 + 20 ≤ 8 * (fi.maxDataBytes - 1) := by
    unfold readsB redGate at hb
    simp only [Bool.and_eq_true, decide_eq_true_eq, if_true] at hb
    exact hb.1.2
  have htl : e.tellA ≤ e.tellB ∧ e.tellB ≤ e.tellA + 13 ∧ e.tellD ≤ e.tellB + 8 ∧ 1 ≤ e.tellA := by
    unfold tellsOk at ht
    rw [if_neg (by decide), hb] at ht
    simp only [Bool.and_eq_true, decide_eq_true_eq, if_true, Bool.not_true, Bool.false_or,
      show ¬ (MODE_HYBRID = MODE_SILK_ONLY) by decide, if_false] at ht
    omega
  refine ⟨?_, hgate, hrb2, hrb257, by omega⟩
  unfold frameNative at hdtx hret ⊢
  dsimp only at hdtx hret ⊢
  rw [hx] at hdtx hret ⊢
  dsimp only at hdtx hret ⊢
  generalize hrs : frRedSig fi x e = rs at *
  obtain ⟨red, rb, s'⟩ := rs
  dsimp only at hred hst hrb2 hrb257 hrbmax hc hf hdtx hret ⊢
  subst hred hst
  have htd : e.tellD ≤ 8 * (fi.maxDataBytes - 1 - rb) := by omega
  have hnb2 : 2 ≤ fi.maxDataBytes - 1 - rb := by omega
  have hcm : e.celtMain = fi.maxDataBytes - 1 - rb := by
    unfold coderOk runMain nbCompr0 at hc
    simp only [hmode, Bool.and_eq_true, decide_eq_true_eq, show ¬ (MODE_HYBRID = MODE_SILK_ONLY) by decide, if_false] at hc
    exact hc.2 ⟨by decide, htd⟩ hcbr hnb2
  have hrun : runMain x.st fi rb e = true := by
    unfold runMain nbCompr0
    rw [hmode, if_neg (by decide)]
    simp only [decide_eq_true_eq]
    exact ⟨by decide, htd⟩
  rcases hfc : frCode x.st fi true x.celtToSilk rb e with ⟨cr, cs⟩
  rw [hfc] at hdtx hret
  cases cr with
  | abort => simp only [abortRes] at hret; omega
  | ierr => simp only [errRes, OPUS_INTERNAL_ERROR] at hret; omega
  | ok c =>
    have hcr := frCode_ok_ret x.st fi true x.celtToSilk rb e c cs hfc hrun
    dsimp only at hdtx hret ⊢
    have hfr : finishRet x.st fi true rb c.ret e = c.ret + 1 + rb := by
      unfold finishRet
      rw [if_neg (by omega), if_neg (by rw [hmode]; decide)]
    unfold frFinish at hdtx hret ⊢
    dsimp only at hdtx hret ⊢
    rw [hfr] at hdtx hret ⊢
    by_cases hd : (dtxDecision x.st fi e).1 ≠ 0
    · rw [if_pos hd] at hdtx; cases hdtx
    · rw [if_neg hd] at hret ⊢
      rw [if_neg (by omega)] at hret ⊢
      rw [if_pos hcbr] at hret ⊢
      split at hret
      · simp only [errRes, OPUS_INTERNAL_ERROR] at hret; omega
      · rename_i hpad
        rw [if_neg hpad]
        dsimp only
        rw [hcr, hcm]; omega

end Opus.EncSkel.Proofs
