import OpusProofs.EncSkelRed
import OpusProofs.EncSkelInv
/-
  OpusProofs.EncSkelRedPayload — the frame the encoder skeleton emits when it signalled redundancy:
  `(frameNative s fi e).payload` (the bytes after the ToC that reach `opus_decode_frame` as `len`) is
  `⌈tellB/8⌉ + redundancy_bytes` in SILK-only mode and `max_data_bytes − 1` in hybrid mode with VBR off —
  which ties the `len` on which the redundancy-mirror theorems run the decoder to the encoder's own output.
-/
namespace Opus.EncSkel.Proofs
open Opus Opus.EncSkel Opus.EncDecide

/-- What the contracts along the path say once the SILK block continued with `x`. -/
theorem frameOk_cont (s : St) (fi : FrameIn) (e : FrameOr) (x : Mid) (hx : frSilk fi (frPre s fi) e = .cont x)
    (hok : frameOk s fi e = true) :
    tellsOk (frPre s fi).st.mode fi.maxDataBytes x.redundancy e = true ∧
    coderOk (frRedSig fi x e).2.2 fi (frRedSig fi x e).1 x.celtToSilk (frRedSig fi x e).2.1 e = true ∧
    finishOk (frRedSig fi x e).2.2 fi e = true := by
  unfold frameOk at hok
  dsimp only at hok
  rw [hx] at hok
  simp only [Bool.and_eq_true] at hok
  exact ⟨hok.1.2.1, hok.2.1.1, hok.2.2⟩

theorem frSilk_mode (s : St) (fi : FrameIn) (e : FrameOr) (x : Mid) (hx : frSilk fi (frPre s fi) e = .cont x) :
    x.st.mode = (frPre s fi).st.mode := by
  have h := ((frSilk_st s fi e).2 x hx).1
  have h2 := frPre_keeps s fi
  rw [h.mode, h2.mode]

/-- **SILK-only frame with redundancy: the payload is the coded bytes plus the redundancy bytes.**  Whenever the call
    returns a packet (`ret ≥ 1`, not the DTX return) whose range coder did not bust the budget, under the oracle
    contracts `frameOk`. -/
theorem silk_red_payload (s : St) (fi : FrameIn) (e : FrameOr) (x : Mid)
    (hx : frSilk fi (frPre s fi) e = .cont x) (hmode : x.st.mode = MODE_SILK_ONLY)
    (hred : (frRedSig fi x e).1 = true) (hok : frameOk s fi e = true)
    (hdtx : (frameNative s fi e).dtx = false) (hret : 1 ≤ (frameNative s fi e).ret)
    (hbust : e.tellE ≤ (fi.maxDataBytes - 1) * 8) :
    (frameNative s fi e).payload = (e.tellB + 7) / 8 + (frRedSig fi x e).2.1 := by
  obtain ⟨ht, hc, hf⟩ := frameOk_cont s fi e x hx hok
  rw [← frSilk_mode s fi e x hx, hmode] at ht
  have hrb : readsB MODE_SILK_ONLY fi.maxDataBytes x.redundancy e = true ∧ (frRedSig fi x e).2.2 = x.st ∧
      2 ≤ (frRedSig fi x e).2.1 := by
    unfold frRedSig at hred ⊢
    dsimp only at hred ⊢
    rw [hmode] at hred ⊢
    split at hred
    · rename_i hb; rw [if_pos hb]; exact ⟨hb, rfl, by dsimp only; omega⟩
    · cases hred
  obtain ⟨hb, hst, hrb2⟩ := hrb
  have htc : e.tellC = e.tellB := by
    unfold tellsOk at ht
    rw [if_neg (by decide), hb] at ht
    simp only [Bool.and_eq_true, decide_eq_true_eq, if_true] at ht
    exact ht.2
  unfold frameNative at hdtx hret ⊢
  dsimp only at hdtx hret ⊢
  rw [hx] at hdtx hret ⊢
  dsimp only at hdtx hret ⊢
  generalize hrs : frRedSig fi x e = rs at *
  obtain ⟨red, rb, s'⟩ := rs
  dsimp only at hred hst hrb2 hc hf hdtx hret ⊢
  subst hred hst
  -- the coding block in SILK-only mode
  have hfc : ∃ cs nb, frCode x.st fi true x.celtToSilk rb e = (.ok { ret := (e.tellC + 7) / 8, nbCompr := nb }, cs) ∨
      (∃ cs, frCode x.st fi true x.celtToSilk rb e = (.ierr, cs)) := by
    unfold frCode runMain nbCompr0
    simp only [hmode, MODE_SILK_ONLY, MODE_HYBRID, ne_eq, not_true_eq_false, false_and, if_false, if_true,
      decide_false, Bool.false_eq_true, true_and, show ¬ ((1000 : Int) = 1001) by decide]
    split
    · exact ⟨_, 0, Or.inr ⟨_, rfl⟩⟩
    · split
      · split
        · exact ⟨_, 0, Or.inr ⟨_, rfl⟩⟩
        · exact ⟨_, _, Or.inl rfl⟩
      · exact ⟨_, _, Or.inl rfl⟩
  obtain ⟨cs, nb, hfc | ⟨cs', hfc⟩⟩ := hfc
  · rw [hfc] at hdtx hret ⊢
    dsimp only at hdtx hret ⊢
    unfold frFinish finishRet at hdtx hret ⊢
    dsimp only at hdtx hret ⊢
    split at hdtx
    · cases hdtx
    · rename_i hnd
      rw [if_neg hnd] at hret ⊢
      rw [if_neg (by omega)] at hret ⊢
      split at hret
      · split at hret
        · simp only [errRes, OPUS_INTERNAL_ERROR] at hret; omega
        · rename_i hcbr hpad
          rw [if_pos hcbr, if_neg hpad]
          dsimp only
          rw [if_neg (by omega), if_neg (by simp), htc]
          omega
      · rename_i hcbr
        rw [if_neg hcbr]
        dsimp only
        rw [if_neg (by omega), if_neg (by simp), htc]
        omega
  · rw [hfc] at hret
    simp only [errRes, OPUS_INTERNAL_ERROR] at hret
    omega

end Opus.EncSkel.Proofs
