import OpusProofs.DecSkelDecode
import OpusProps.C06
/-
  OpusProofs.DecSkelNative — `opus_decode_native` (:681-822) and the three format wrappers:
  the return value is the pure function `nativeRet` of the arguments, the invariant is preserved,
  every logged inner call / access is legal, no assertion of the skeleton is reachable.
-/
namespace Opus.DecSkel
open Opus Opus.Framing

theorem validateOk_of_inv {st : DecState} (h : DecInv st) : validateOk st = true := by
  have h1 := h.fs; have h2 := h.ch; have h3 := h.api; have h4 := h.nca; have h5 := h.isr; have h6 := h.nci
  have h7 := h.ps; have h8 := h.sch
  unfold FsOk at h1
  unfold validateOk
  simp only [Bool.and_eq_true, Bool.or_eq_true, beq_iff_eq]
  refine ⟨⟨⟨⟨⟨⟨⟨?_, ?_⟩, ?_⟩, ?_⟩, ?_⟩, ?_⟩, ?_⟩, ?_⟩ <;> omega

/-- Every TOC byte announces a mode / bandwidth / frame duration combination that `TocOk` lists. -/
theorem toc_table : ∀ fs ∈ [8000, 12000, 16000, 24000, 48000], ∀ toc ∈ List.range 256,
    TocOk ((fs : Nat) : Int) ((getMode toc : Nat) : Int) ((getBandwidth toc : Nat) : Int) ((samplesPerFrame toc fs : Nat) : Int) ∧
    ((getMode toc : Nat) : Int) ≠ 0 ∧ (getNbChannels toc = 1 ∨ getNbChannels toc = 2) := by
  decide +kernel

theorem toc_ok {st : DecState} (hfs : FsOk st.Fs) {toc : Nat} (ht : toc < 256) :
    TocOk st.Fs ((getMode toc : Nat) : Int) ((getBandwidth toc : Nat) : Int) ((samplesPerFrame toc st.Fs.toNat : Nat) : Int) ∧
    ((getMode toc : Nat) : Int) ≠ 0 ∧ (getNbChannels toc = 1 ∨ getNbChannels toc = 2) := by
  have hm := List.mem_range.mpr ht
  rcases hfs with h | h | h | h | h <;> rw [h]
  · exact toc_table 8000 (by simp) toc hm
  · exact toc_table 12000 (by simp) toc hm
  · exact toc_table 16000 (by simp) toc hm
  · exact toc_table 24000 (by simp) toc hm
  · exact toc_table 48000 (by simp) toc hm

/-- The state update of :776-779 / :796-799 keeps the invariant. -/
theorem setToc_inv {st : DecState} (h : DecInv st) {toc : Nat} (ht : toc < 256) :
    DecInv (setToc st ((getMode toc : Nat) : Int) ((getBandwidth toc : Nat) : Int)
      ((samplesPerFrame toc st.Fs.toNat : Nat) : Int) ((getNbChannels toc : Nat) : Int)) := by
  obtain ⟨h1, _, h3⟩ := toc_ok h.fs ht
  unfold setToc
  exact { fs := h.fs, ch := h.ch, api := h.api, nca := h.nca, isr := h.isr, nci := h.nci, ps := h.ps,
          sch := by simp only; omega, toc := h1, pm := h.pm, pr := h.pr, silkReady := h.silkReady, gain := h.gain,
          lpd := h.lpd }

theorem DecInv.setLpd {st : DecState} (h : DecInv st) {n : Int} (hn : 0 ≤ n) :
    DecInv { st with last_packet_duration := n } :=
  { fs := h.fs, ch := h.ch, api := h.api, nca := h.nca, isr := h.isr, nci := h.nci, ps := h.ps, sch := h.sch,
    toc := h.toc, pm := h.pm, pr := h.pr, silkReady := h.silkReady, gain := h.gain, lpd := hn }

/-- `opus_decode_native(st, NULL, 0, pcm, frame_size, …)` once `frame_size` is known to be a multiple
    of 2.5 ms (possibly ≤ 0). -/
theorem nativePlcLoop_top {o : Oracle} (ho : OracleOk o) {st0 : DecState} {cap0 : Int} {pcm : Ptr} {frame_size : Int}
    {r : Run} {u : Int} (hg : Good st0 cap0 r) (hu : Units r.st u) (hmul : cmod frame_size (r.st.Fs / 400) = 0)
    (hroom : 0 ≤ pcm.off ∧ pcm.off + frame_size * r.st.channels ≤ pcm.cap) (hcap : PtrCapOk st0 cap0 pcm) :
    ∃ r', nativePlcLoop o frame_size pcm 0 r = (.ret (plcRet r.st frame_size), r') ∧ Good st0 cap0 r' ∧
      (0 < frame_size → ∃ r1 : Run, FrameRel r.st r1.st ∧ r'.st = { r1.st with last_packet_duration := frame_size }) ∧
      (frame_size ≤ 0 → r' = r) := by
  have hupos := hu.pos
  have hch := hg.inv.ch
  rw [hu.u400] at hmul
  unfold plcRet
  rw [hu.u400]
  by_cases hpos : 0 < frame_size
  · rw [cmod_nonneg (by omega)] at hmul
    have hK : frame_size = ((frame_size / u).toNat : Int) * u := by
      have h1 : 0 ≤ frame_size / u := Int.ediv_nonneg (by omega) (by omega)
      rw [Int.toNat_of_nonneg h1]
      have := Int.emod_add_mul_ediv frame_size u
      rw [Int.mul_comm] at this
      omega
    have hge : u ≤ frame_size := by
      apply Decidable.byContradiction; intro hlt
      have : frame_size % u = frame_size := Int.emod_eq_of_lt (by omega) (by omega)
      omega
    have hK1 : 1 ≤ (frame_size / u).toNat := by
      apply mul_u_pos (u := u) (by omega); rw [← hK]; exact hpos
    obtain ⟨r1, r', e, g, f, hst⟩ := nativePlcLoop_spec ho (frame_size := frame_size) (u := u) (frame_size / u).toNat hK hcap
      (frame_size / u).toNat 0 0 r (by omega) (by omega) (by simp) hg hu
      ⟨hroom.1, by rcases hch with h | h <;> rw [h] <;> omega, hroom.2⟩
    have : ¬ frame_size < u := by omega
    simp only [this, ↓reduceIte]
    exact ⟨r', e, g, fun _ => ⟨r1, f, hst⟩, fun h => by omega⟩
  · have hlt : frame_size < u := by omega
    simp only [hlt, ↓reduceIte]
    refine ⟨r, ?_, hg, fun h => absurd h hpos, fun _ => rfl⟩
    rw [nativePlcLoop]
    have : decodeFrame o none 0 (pcm.add (0 * r.st.channels)) (frame_size - 0) 0 r = (.ret BUFFER_TOO_SMALL, r) := by
      unfold decodeFrame
      dsimp only
      have : frame_size - 0 < F2_5 r.st := by rw [hu.f25]; omega
      simp only [this, ↓reduceIte]
    simp only [this]
    have : BUFFER_TOO_SMALL < 0 := by decide
    simp only [this, ↓reduceIte]

/-- The recursive call `opus_decode_native(st, NULL, 0, pcm, frame_size, 0, …)` of the FEC paths. -/
theorem nativePlc_spec {o : Oracle} (ho : OracleOk o) {st0 : DecState} {cap0 : Int} {pcm : Ptr} {frame_size : Int}
    {r : Run} {u : Int} (hg : Good st0 cap0 r) (hu : Units r.st u) (hmul : cmod frame_size (r.st.Fs / 400) = 0)
    (hroom : 0 ≤ pcm.off ∧ pcm.off + frame_size * r.st.channels ≤ pcm.cap) (hcap : PtrCapOk st0 cap0 pcm) :
    ∃ r', nativePlc o pcm frame_size r = (.ret (plcRet r.st frame_size), r') ∧ Good st0 cap0 r' ∧
      (0 < frame_size → ∃ r1 : Run, FrameRel r.st r1.st ∧ r'.st = { r1.st with last_packet_duration := frame_size }) ∧
      (frame_size ≤ 0 → r' = r) := by
  unfold nativePlc
  have hv : ¬ ¬ validateOk r.st = true := by simp [validateOk_of_inv hg.inv]
  have hm : ¬ cmod frame_size (r.st.Fs / 400) ≠ 0 := by simp [hmul]
  simp only [hv, hm, ↓reduceIte]
  exact nativePlcLoop_top ho hg hu hmul hroom hcap

theorem Good.setSt {st0 : DecState} {cap0 : Int} {r : Run} {s : DecState} (h : Good st0 cap0 r) (hinv : DecInv s)
    (e1 : s.Fs = r.st.Fs) (e2 : s.channels = r.st.channels) : Good st0 cap0 (r.setSt s) :=
  ⟨hinv, by simp only [Run.setSt_st]; rw [e1]; exact h.fs, by simp only [Run.setSt_st]; rw [e2]; exact h.ch, h.log⟩

/-- :765-774 under the contracts: the gap is concealed completely, `celt_assert` :773 holds. -/
theorem fecGap_spec {o : Oracle} (ho : OracleOk o) {st0 : DecState} {cap0 : Int} {pcm : Ptr} {gap : Int}
    {r : Run} {u : Int} (hg : Good st0 cap0 r) (hu : Units r.st u) (hmul : cmod gap (r.st.Fs / 400) = 0) (hgap : 0 ≤ gap)
    (hroom : 0 ≤ pcm.off ∧ pcm.off + gap * r.st.channels ≤ pcm.cap) (hcap : PtrCapOk st0 cap0 pcm) :
    ∃ r1, fecGap o pcm gap r = (.ret 0, r1) ∧ Good st0 cap0 r1 ∧
      ∃ r0 : Run, FrameRel r.st r0.st ∧ (r1.st = r0.st ∨ r1.st = { r0.st with last_packet_duration := gap }) := by
  unfold fecGap
  by_cases h0 : gap = 0
  · simp only [h0, ne_eq, not_true_eq_false, ↓reduceIte]
    exact ⟨r, rfl, hg, r, FrameRel.refl _, Or.inl rfl⟩
  · have hpos : 0 < gap := by omega
    obtain ⟨r', e, g, h1, _⟩ := nativePlc_spec ho hg hu hmul hroom hcap
    obtain ⟨r0, f0, hst⟩ := h1 hpos
    have hret : plcRet r.st gap = gap := by
      unfold plcRet
      rw [hu.u400]
      rw [hu.u400, cmod_nonneg hgap] at hmul
      have hupos := hu.pos
      have : ¬ gap < u := by
        intro hlt
        have : gap % u = gap := Int.emod_eq_of_lt hgap hlt
        omega
      simp only [this, ↓reduceIte]
    rw [hret] at e
    simp only [ne_eq, h0, not_false_eq_true, ↓reduceIte, e]
    have : ¬ gap < 0 := by omega
    simp only [this, ↓reduceIte, not_true_eq_false]
    exact ⟨r', rfl, g, r0, f0, Or.inr hst⟩

theorem emod_sub_multiple {a u : Int} (k : Int) (h : a % u = 0) : (a - k * u) % u = 0 := by
  apply Int.emod_eq_zero_of_dvd
  exact Int.dvd_sub (Int.dvd_of_emod_eq_zero h) (Int.dvd_mul_left k u)

/-- The frame durations `TocOk` allows, as explicit multiples. -/
theorem tocOk_pfs {fs mode bw pfs u : Int} (h : TocOk fs mode bw pfs) (hu : fs / 400 = u) (hm : mode ≠ 0) :
    pfs = 1 * u ∨ pfs = 2 * u ∨ pfs = 4 * u ∨ pfs = 8 * u ∨ pfs = 16 * u ∨ pfs = 24 * u := by
  unfold TocOk at h
  simp only [hu] at h
  omega

/-- :756-790 under the contracts. -/
theorem nativeFec_spec {o : Oracle} (ho : OracleOk o) {st0 : DecState} {cap0 : Int} {pcm : Ptr} {frame_size : Int}
    {toc : Nat} {off0 sz0 : Int} {r : Run} {u : Int} (hg : Good st0 cap0 r) (hu : Units r.st u) (ht : toc < 256)
    (hmul : cmod frame_size (r.st.Fs / 400) = 0) (hoff : 0 ≤ off0) (hsz : 0 ≤ sz0 ∧ sz0 ≤ 1275)
    (hroom : 0 ≤ pcm.off ∧ pcm.off + frame_size * r.st.channels ≤ pcm.cap) (hcap : PtrCapOk st0 cap0 pcm) :
    ∃ r', nativeFec o pcm frame_size ((samplesPerFrame toc r.st.Fs.toNat : Nat) : Int) ((getMode toc : Nat) : Int)
        ((getBandwidth toc : Nat) : Int) ((getNbChannels toc : Nat) : Int) off0 sz0 r = (.ret (plcRet r.st frame_size), r') ∧
      Good st0 cap0 r' ∧ (0 < frame_size → r'.st.last_packet_duration = frame_size) ∧ (frame_size ≤ 0 → r' = r) := by
  have hupos := hu.pos
  have hch := hg.inv.ch
  obtain ⟨htoc, hm0, _⟩ := toc_ok hg.inv.fs ht
  have hpfs := tocOk_pfs htoc hu.u400 hm0
  generalize hpfs_eq : ((samplesPerFrame toc r.st.Fs.toNat : Nat) : Int) = pfs at *
  unfold nativeFec
  split
  · obtain ⟨r', e, g, h1, h2⟩ := nativePlc_spec ho hg hu hmul hroom hcap
    refine ⟨r', e, g, ?_, h2⟩
    intro hp; obtain ⟨r1, _, hst⟩ := h1 hp; rw [hst]
  · rename_i hcond
    have hge : pfs ≤ frame_size := by omega
    have hfpos : 0 < frame_size := by omega
    have hmul' := hmul
    rw [hu.u400, cmod_nonneg (by omega)] at hmul'
    have hgapmul : cmod (frame_size - pfs) (r.st.Fs / 400) = 0 := by
      rw [hu.u400, cmod_nonneg (by omega)]
      rcases hpfs with h | h | h | h | h | h <;> rw [h] <;> exact emod_sub_multiple _ hmul'
    have hroomgap : 0 ≤ pcm.off ∧ pcm.off + (frame_size - pfs) * r.st.channels ≤ pcm.cap := by
      refine ⟨hroom.1, ?_⟩
      rcases hch with h | h <;> rw [h] at hroom ⊢ <;> omega
    obtain ⟨r1, e1, g1, r0, f0, hst1⟩ := fecGap_spec ho hg hu hgapmul (by omega) hroomgap hcap
    simp only [e1]
    have : ¬ (0 : Int) < 0 := by omega
    simp only [this, ↓reduceIte]
    -- state after the TOC update
    have hfs1 : r1.st.Fs = r.st.Fs := by rw [g1.fs, hg.fs]
    have hch1 : r1.st.channels = r.st.channels := by rw [g1.ch, hg.ch]
    have hinv2 := setToc_inv g1.inv ht
    rw [hfs1] at hinv2
    rw [hpfs_eq] at hinv2
    have g2 : Good st0 cap0 (r1.setSt (setToc r1.st ((getMode toc : Nat) : Int) ((getBandwidth toc : Nat) : Int) pfs
        ((getNbChannels toc : Nat) : Int))) := g1.setSt hinv2 rfl rfl
    have hu2 : Units (r1.setSt (setToc r1.st ((getMode toc : Nat) : Int) ((getBandwidth toc : Nat) : Int) pfs
        ((getNbChannels toc : Nat) : Int))).st u := hu.congr (by simp only [Run.setSt_st, setToc]; exact hfs1)
    have hroom2 : (pcm.add (r.st.channels * (frame_size - pfs))).room (pfs * r.st.channels) := by
      refine ⟨?_, ?_, ?_⟩
      · simp only [Ptr.add_off]; rcases hch with h | h <;> rw [h] <;> omega
      · rcases hch with h | h <;> rw [h] <;> omega
      · simp only [Ptr.add_off, Ptr.add_cap]; rcases hch with h | h <;> rw [h] at hroom ⊢ <;> omega
    -- the LBRR frame
    have hlast : ∃ v r3, decodeFrame o (some off0) sz0 (pcm.add (r.st.channels * (frame_size - pfs))) pfs 1
        (r1.setSt (setToc r1.st ((getMode toc : Nat) : Int) ((getBandwidth toc : Nat) : Int) pfs
          ((getNbChannels toc : Nat) : Int))) = (.ret v, r3) ∧ Good st0 cap0 r3 ∧ 0 < v := by
      by_cases h2 : 2 ≤ sz0
      · obtain ⟨r3, e3, g3, _⟩ := decodeFrame_data ho (off := off0) (len := sz0)
          (pcm := pcm.add (r.st.channels * (frame_size - pfs))) (frame_size := pfs) (fec := 1) g2 hu2
          (by simp only [Run.setSt_st, setToc]; exact hm0) (by omega) hoff
          (by simp only [Run.setSt_st, setToc]; omega)
          (by simp only [Run.setSt_st, setToc]; rw [hch1]; exact hroom2) (hcap.add _)
        simp only [Run.setSt_st, setToc] at e3
        exact ⟨pfs, r3, e3, g3, by omega⟩
      · have hmin : min (min pfs (48 * u)) (r1.setSt (setToc r1.st ((getMode toc : Nat) : Int)
            ((getBandwidth toc : Nat) : Int) pfs ((getNbChannels toc : Nat) : Int))).st.frame_size = pfs := by
          simp only [Run.setSt_st, setToc]; omega
        have hk : ∃ k : Nat, 1 ≤ k ∧ pfs = k * u := by
          rcases hpfs with h | h | h | h | h | h
          · exact ⟨1, by omega, by rw [h]; simp⟩
          · exact ⟨2, by omega, by rw [h]; simp⟩
          · exact ⟨4, by omega, by rw [h]; simp⟩
          · exact ⟨8, by omega, by rw [h]; simp⟩
          · exact ⟨16, by omega, by rw [h]; simp⟩
          · exact ⟨24, by omega, by rw [h]; simp⟩
        obtain ⟨k, hk1, hk⟩ := hk
        obtain ⟨v, r3, e3, g3, _, hv0, _⟩ := decodeFrame_null ho (data := some off0) (len := sz0)
          (pcm := pcm.add (r.st.channels * (frame_size - pfs))) (frame_size := pfs) (fec := 1) k g2 hu2
          (Or.inl (by omega)) (by omega) (by rw [hmin]; exact hk) hk1
          (by rw [hmin]; simp only [Run.setSt_st, setToc]; rw [hch1]; exact hroom2) (hcap.add _)
        exact ⟨v, r3, e3, g3, hv0⟩
    obtain ⟨v, r3, e3, g3, hv0⟩ := hlast
    simp only [e3]
    have hn : ¬ v < 0 := by omega
    simp only [hn, ↓reduceIte]
    have hret : plcRet r.st frame_size = frame_size := by
      unfold plcRet; rw [hu.u400]
      have : ¬ frame_size < u := by omega
      simp only [this, ↓reduceIte]
    rw [hret]
    refine ⟨_, rfl, g3.setSt (g3.inv.setLpd (by omega)) rfl rfl, fun _ => rfl, fun h => by omega⟩

/-- :796-821 under the contracts. -/
theorem nativeFrames_spec {o : Oracle} (ho : OracleOk o) {st0 : DecState} {cap0 : Int} {pcm : Ptr} {frame_size : Int}
    {toc : Nat} {sizes : List Nat} {off0 : Int} {sc : Bool} {r : Run} {u : Int} (hg : Good st0 cap0 r) (hu : Units r.st u)
    (ht : toc < 256) (hoff : 0 ≤ off0) (hsz : ∀ s ∈ sizes, s ≤ 1275) (hcnt : 1 ≤ sizes.length)
    (hfit : (sizes.length : Int) * ((samplesPerFrame toc r.st.Fs.toNat : Nat) : Int) ≤ frame_size)
    (hroom : 0 ≤ pcm.off ∧ pcm.off + frame_size * r.st.channels ≤ pcm.cap) (hcap : PtrCapOk st0 cap0 pcm) :
    ∃ r', nativeFrames o pcm frame_size ((samplesPerFrame toc r.st.Fs.toNat : Nat) : Int) ((getMode toc : Nat) : Int)
        ((getBandwidth toc : Nat) : Int) ((getNbChannels toc : Nat) : Int) sizes off0 sc r =
        (.ret ((sizes.length : Int) * ((samplesPerFrame toc r.st.Fs.toNat : Nat) : Int)), r') ∧
      Good st0 cap0 r' ∧
      r'.st.last_packet_duration = (sizes.length : Int) * ((samplesPerFrame toc r.st.Fs.toNat : Nat) : Int) ∧
      0 < (sizes.length : Int) * ((samplesPerFrame toc r.st.Fs.toNat : Nat) : Int) := by
  have hupos := hu.pos
  have hch := hg.inv.ch
  obtain ⟨htoc, hm0, _⟩ := toc_ok hg.inv.fs ht
  have hpfs := tocOk_pfs htoc hu.u400 hm0
  have hinv1 := setToc_inv hg.inv ht
  generalize ((samplesPerFrame toc r.st.Fs.toNat : Nat) : Int) = pfs at *
  have hpfspos : 0 < pfs := by omega
  have hnn : 0 ≤ (sizes.length : Int) * pfs := Int.mul_nonneg (by omega) (by omega)
  have hpos : 0 < (sizes.length : Int) * pfs := Int.mul_pos (by omega) hpfspos
  have g1 : Good st0 cap0 (r.setSt (setToc r.st ((getMode toc : Nat) : Int) ((getBandwidth toc : Nat) : Int) pfs
      ((getNbChannels toc : Nat) : Int))) := hg.setSt hinv1 rfl rfl
  have hu1 : Units (r.setSt (setToc r.st ((getMode toc : Nat) : Int) ((getBandwidth toc : Nat) : Int) pfs
      ((getNbChannels toc : Nat) : Int))).st u := hu.congr rfl
  obtain ⟨r2, e2, g2, f2⟩ := frameLoop_spec ho (pcm := pcm) (frame_size := frame_size) (pfs := pfs) hcap sizes off0 0 _ g1 hu1
    (by simp only [Run.setSt_st, setToc]; exact hm0) (by simp only [Run.setSt_st, setToc]) hsz hoff (by omega) (by omega)
    (by
      simp only [Run.setSt_st, setToc, Int.zero_add]
      refine ⟨hroom.1, ?_, ?_⟩
      · rcases hch with h | h <;> rw [h] <;> omega
      · rcases hch with h | h <;> rw [h] at hroom ⊢ <;> omega)
  simp only [Int.zero_add] at e2
  unfold nativeFrames
  simp only [e2]
  have hn : ¬ (sizes.length : Int) * pfs < 0 := by omega
  simp only [hn, ↓reduceIte]
  have g3 : Good st0 cap0 (r2.setSt { r2.st with last_packet_duration := (sizes.length : Int) * pfs }) :=
    g2.setSt (g2.inv.setLpd hnn) rfl rfl
  split
  · refine ⟨_, rfl, ?_, rfl, hpos⟩
    apply g3.push
    refine ⟨?_, ?_⟩
    · show Ptr.room _ _
      refine ⟨hroom.1, ?_, ?_⟩
      · rcases hch with h | h <;> rw [h] <;> omega
      · rcases hch with h | h <;> rw [h] at hroom ⊢ <;> omega
    · intro q hq; simp only [Ev.ptr?, Option.some.injEq] at hq; subst hq; exact hcap
  · exact ⟨_, rfl, g3, rfl, hpos⟩

theorem plcRet_cases {st : DecState} {u frame_size : Int} (hu : Units st u) (hmul : cmod frame_size (st.Fs / 400) = 0) :
    (0 < frame_size ∧ plcRet st frame_size = frame_size) ∨ (frame_size ≤ 0 ∧ plcRet st frame_size = BUFFER_TOO_SMALL) := by
  have hupos := hu.pos
  unfold plcRet
  rw [hu.u400] at hmul ⊢
  by_cases hpos : 0 < frame_size
  · left
    rw [cmod_nonneg (by omega)] at hmul
    have : ¬ frame_size < u := by
      intro hlt
      have : frame_size % u = frame_size := Int.emod_eq_of_lt (by omega) hlt
      omega
    exact ⟨hpos, by rw [if_neg this]⟩
  · right
    have : frame_size < u := by omega
    exact ⟨by omega, by rw [if_pos this]⟩

theorem bytesOk_take {bs : Bytes} (h : BytesOk bs) (n : Nat) : BytesOk (bs.take n) :=
  fun b hb => h b (List.mem_of_mem_take hb)

theorem headD_lt {bs : Bytes} (h : BytesOk bs) : bs.headD 0 < 256 := by
  cases bs with
  | nil => simp
  | cons b t => exact h b (by simp)

/-- What `decodeNative_spec` establishes about one call. -/
structure NativeOk (st0 : DecState) (cap0 : Int) (r : Run) (v : Int) (x : NativeOut) : Prop where
  ret : x.ret = .ret v
  good : Good st0 cap0 x.run
  lpd : 0 < v → x.run.st.last_packet_duration = v
  err : v < 0 → x.run = r

/-- `opus_decode_native` under the oracle contracts, for every state satisfying the invariant and
    every argument combination: returns `nativeRet` (a function of the arguments only), keeps the
    invariant, logs only legal inner calls and in-bounds accesses, leaves the state alone on error,
    and sets `last_packet_duration` to the sample count on success. -/
theorem decodeNative_spec {o : Oracle} (ho : OracleOk o) {st0 : DecState} {cap0 : Int} {r : Run} (hg : Good st0 cap0 r)
    (data : Option Bytes) (hb : ∀ bs, data = some bs → BytesOk bs) (len : Int) (pcm : Ptr) (frame_size fec : Int)
    (sd sc : Bool) (hroom : 0 ≤ pcm.off ∧ pcm.off + frame_size * r.st.channels ≤ pcm.cap) (hcap : PtrCapOk st0 cap0 pcm) :
    NativeOk st0 cap0 r (nativeRet r.st data len frame_size fec sd) (decodeNative o data len pcm frame_size fec sd sc r) := by
  obtain ⟨u, hu⟩ := units_of_fs hg.inv.fs
  have hv : ¬ ¬ validateOk r.st = true := by simp [validateOk_of_inv hg.inv]
  have hbad : ∀ e : Int, e < 0 → NativeOk st0 cap0 r e (NativeOut.mk' (.ret e, r) 0) := by
    intro e he; exact ⟨rfl, hg, fun h => by omega, fun _ => rfl⟩
  have hneg1 : BAD_ARG < 0 := by decide
  have hneg2 : BUFFER_TOO_SMALL < 0 := by decide
  unfold decodeNative nativeRet
  simp only [hv, ↓reduceIte]
  by_cases h1 : fec < 0 ∨ fec > 1
  · simp only [if_pos h1]; exact hbad _ hneg1
  simp only [if_neg h1]
  by_cases h2 : (fec ≠ 0 ∨ len = 0 ∨ data.isNone = true) ∧ cmod frame_size (r.st.Fs / 400) ≠ 0
  · simp only [if_pos h2]; exact hbad _ hneg1
  simp only [if_neg h2]
  by_cases h3 : len = 0 ∨ data.isNone = true
  · simp only [if_pos h3]
    have hmul : cmod frame_size (r.st.Fs / 400) = 0 := by
      apply Decidable.byContradiction; intro hne
      exact h2 ⟨Or.inr h3, hne⟩
    obtain ⟨r', e, g, hp1, hp2⟩ := nativePlcLoop_top ho hg hu hmul hroom hcap
    rcases plcRet_cases hu hmul with ⟨hpos, hret⟩ | ⟨hnp, hret⟩
    · refine ⟨by simp only [NativeOut.mk', e], by simp only [NativeOut.mk', e]; exact g, ?_, ?_⟩
      · intro _
        obtain ⟨r1, _, hst⟩ := hp1 hpos
        simp only [NativeOut.mk', e, hst, hret]
      · intro h; rw [hret] at h; omega
    · refine ⟨by simp only [NativeOut.mk', e], by simp only [NativeOut.mk', e]; exact g, ?_, ?_⟩
      · intro h; rw [hret] at h; omega
      · intro _; simp only [NativeOut.mk', e]; exact hp2 hnp
  simp only [if_neg h3]
  by_cases h4 : len < 0
  · simp only [if_pos h4]; exact hbad _ hneg1
  simp only [if_neg h4]
  -- the packet bytes
  have hbs : BytesOk ((data.getD []).take len.toNat) := by
    cases hd : data with
    | none => intro b hb'; simp at hb'
    | some bs0 => exact bytesOk_take (hb bs0 hd) _
  have htoc := headD_lt hbs
  generalize (data.getD []).take len.toNat = bs at *
  have hnf := FramingProofs.parseImpl_nofault sd bs
  rcases hp : parseImpl sd bs with p | e | _ | _
  · simp only
    obtain ⟨hcnt, hc1, _, hsz, _, _, _⟩ := OpusProps.C06.parse_in_bounds sd bs hbs p hp
    by_cases h5 : fec ≠ 0
    · simp only [if_pos h5]
      have hmul : cmod frame_size (r.st.Fs / 400) = 0 := by
        apply Decidable.byContradiction; intro hne
        exact h2 ⟨Or.inl h5, hne⟩
      have hsz0 : 0 ≤ ((p.sizes.headD 0 : Nat) : Int) ∧ ((p.sizes.headD 0 : Nat) : Int) ≤ 1275 := by
        refine ⟨by omega, ?_⟩
        cases hs : p.sizes with
        | nil => simp
        | cons a t => have := hsz a (by rw [hs]; simp); simp; omega
      obtain ⟨r', e, g, hp1, hp2⟩ := nativeFec_spec ho (pcm := pcm) (frame_size := frame_size) (off0 := p.payloadOffset)
        (sz0 := ((p.sizes.headD 0 : Nat) : Int)) hg hu htoc hmul (by omega) hsz0 hroom hcap
      rcases plcRet_cases hu hmul with ⟨hpos, hret⟩ | ⟨hnp, hret⟩
      · refine ⟨by simp only [NativeOut.mk', e], by simp only [NativeOut.mk', e]; exact g, ?_, ?_⟩
        · intro _; simp only [NativeOut.mk', e, hret]; exact hp1 hpos
        · intro h; rw [hret] at h; omega
      · refine ⟨by simp only [NativeOut.mk', e], by simp only [NativeOut.mk', e]; exact g, ?_, ?_⟩
        · intro h; rw [hret] at h; omega
        · intro _; simp only [NativeOut.mk', e]; exact hp2 hnp
    · simp only [if_neg h5]
      by_cases h6 : (p.count : Int) * ((samplesPerFrame (bs.headD 0) r.st.Fs.toNat : Nat) : Int) > frame_size
      · simp only [if_pos h6]
        exact ⟨rfl, hg, fun h => by omega, fun _ => rfl⟩
      · simp only [if_neg h6]
        rw [hcnt] at h6 ⊢
        obtain ⟨r', e, g, hl, hpos⟩ := nativeFrames_spec ho (pcm := pcm) (frame_size := frame_size) (sizes := p.sizes)
          (off0 := p.payloadOffset) (sc := sc) hg hu htoc (by omega) hsz (by omega) (by omega) hroom hcap
        exact ⟨by simp only [NativeOut.mk', e], by simp only [NativeOut.mk', e]; exact g,
          fun _ => by simp only [NativeOut.mk', e]; exact hl, fun h => by omega⟩
  · have := FramingProofs.parseImpl_err_invalid sd bs e hp
    subst this
    simp only
    exact hbad _ (by decide)
  · rw [hp] at hnf; simp [FramingProofs.fault] at hnf
  · rw [hp] at hnf; simp [FramingProofs.fault] at hnf

end Opus.DecSkel
