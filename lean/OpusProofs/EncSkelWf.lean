import OpusProofs.EncSkelParse
/-
  OpusProofs.EncSkelWf — `encode_wellformed` (C02): on every return path of `opus_encode_native` the
  emitted structure (header bytes, frame lengths, size) is an output of the repacketiser contract for a
  ToC that announces the coded duration, hence parses (C06 parser) to frames totalling `frame_size`.
-/
namespace Opus.EncSkel.Proofs
open Opus Opus.EncDecide Opus.EncSkel Opus.FramingSpec

theorem genToc_ch (mode fr bw ch : Int) : genToc mode fr bw ch = genToc mode fr bw (if ch = 2 then 2 else 1) := by
  unfold genToc
  by_cases h : ch = 2 <;> simp [h]

/-- Which (mode, duration in 2.5 ms units, bandwidth) a coded frame can have. -/
def ComboOk (mode fs fsz bw : Int) : Prop :=
  (mode = 1000 ∧ 1101 ≤ bw ∧ bw ≤ 1103 ∧ (fsz = 4 * (fs / 400) ∨ fsz = 8 * (fs / 400) ∨ fsz = 16 * (fs / 400) ∨ fsz = 24 * (fs / 400))) ∨
  (mode = 1001 ∧ 1104 ≤ bw ∧ bw ≤ 1105 ∧ (fsz = 4 * (fs / 400) ∨ fsz = 8 * (fs / 400))) ∨
  (mode = 1002 ∧ 1101 ≤ bw ∧ bw ≤ 1105 ∧ (fsz = 1 * (fs / 400) ∨ fsz = 2 * (fs / 400) ∨ fsz = 4 * (fs / 400) ∨ fsz = 8 * (fs / 400)))

set_option maxHeartbeats 1000000 in
/-- The ToC of a coded frame is a byte with code bits 00 that announces exactly the frame size
    (at the encoder's rate and, scaled, at 48 kHz). -/
theorem toc_wf (fs fsz mode bw ch : Int)
    (hfs : fs = 8000 ∨ fs = 12000 ∨ fs = 16000 ∨ fs = 24000 ∨ fs = 48000) (hc : ComboOk mode fs fsz bw) :
    genToc mode (fs / fsz) bw ch % 4 = 0 ∧ genToc mode (fs / fsz) bw ch < 256 ∧
    (Framing.samplesPerFrame (genToc mode (fs / fsz) bw ch) fs.toNat : Int) = fsz ∧
    (frameDur48 (genToc mode (fs / fsz) bw ch) : Int) * fs = 48000 * fsz := by
  rw [genToc_ch]
  unfold ComboOk at hc
  have hch : (if ch = 2 then (2 : Int) else 1) = 2 ∨ (if ch = 2 then (2 : Int) else 1) = 1 := by
    by_cases h : ch = 2 <;> simp [h]
  generalize (if ch = 2 then (2 : Int) else 1) = c at hch
  rcases hc with ⟨rfl, h1, h2, hk⟩ | ⟨rfl, h1, h2, hk⟩ | ⟨rfl, h1, h2, hk⟩
  · have hb : bw = 1101 ∨ bw = 1102 ∨ bw = 1103 := by omega
    rcases hfs with rfl | rfl | rfl | rfl | rfl <;> norm_num at hk <;>
      rcases hk with rfl | rfl | rfl | rfl <;> rcases hb with rfl | rfl | rfl <;> rcases hch with rfl | rfl <;> decide
  · have hb : bw = 1104 ∨ bw = 1105 := by omega
    rcases hfs with rfl | rfl | rfl | rfl | rfl <;> norm_num at hk <;>
      rcases hk with rfl | rfl <;> rcases hb with rfl | rfl <;> rcases hch with rfl | rfl <;> decide
  · have hb : bw = 1101 ∨ bw = 1102 ∨ bw = 1103 ∨ bw = 1104 ∨ bw = 1105 := by omega
    rcases hfs with rfl | rfl | rfl | rfl | rfl <;> norm_num at hk <;>
      rcases hk with rfl | rfl | rfl | rfl <;> rcases hb with rfl | rfl | rfl | rfl | rfl <;> rcases hch with rfl | rfl <;> decide

/-- The low-budget ToC-only packet, all facts the parser theorem needs, by exhaustive evaluation. -/
theorem lowToc_wf_all :
    ∀ fs ∈ [(8000 : Nat), 12000, 16000, 24000, 48000], ∀ k ∈ [(1 : Int), 2, 4, 8, 16, 24, 32, 40, 48],
    ∀ mode ∈ [(0 : Int), 1000, 1001, 1002], ∀ bw ∈ [(1101 : Int), 1102, 1103, 1104, 1105], ∀ ch ∈ [(1 : Int), 2],
    ∀ out ∈ [(1 : Int), 2],
      ¬ (out = 1 ∧ k = 40) →
      (lowBudgetToc (lowSt fs mode bw ch) (fs / 400 * k) out).1 % 4 = 0 ∧
      (lowBudgetToc (lowSt fs mode bw ch) (fs / 400 * k) out).1 < 256 ∧
      frameDur48 (lowBudgetToc (lowSt fs mode bw ch) (fs / 400 * k) out).1 *
        (lowLens (lowSt fs mode bw ch) (fs / 400 * k) out).length ≤ 5760 ∧
      ((lowLens (lowSt fs mode bw ch) (fs / 400 * k) out).length : Int) *
        Framing.samplesPerFrame (lowBudgetToc (lowSt fs mode bw ch) (fs / 400 * k) out).1 fs = fs / 400 * k ∧
      outRange (lowBudgetToc (lowSt fs mode bw ch) (fs / 400 * k) out).1 (lowLens (lowSt fs mode bw ch) (fs / 400 * k) out)
        (lowRet0 (lowSt fs mode bw ch) (fs / 400 * k) out).toNat false =
        .ok { size := (lowRet0 (lowSt fs mode bw ch) (fs / 400 * k) out).toNat,
              hdr := lowHdr0 (lowSt fs mode bw ch) (fs / 400 * k) out } := by
  decide +kernel


/-- What `encode_wellformed` needs of the emitted packet. -/
structure PktOk (fs fsz : Int) (r : NatRes) : Prop where
  out : ∃ maxlen pad, outRange r.pkt.tocCfg r.pkt.lens maxlen pad = .ok { size := r.pkt.size, hdr := r.pkt.hdr }
  size : (r.pkt.size : Int) = r.ret
  toc4 : r.pkt.tocCfg % 4 = 0
  toc256 : r.pkt.tocCfg < 256
  lens : ∀ l ∈ r.pkt.lens, l ≤ 1275
  dur48 : frameDur48 r.pkt.tocCfg * r.pkt.lens.length ≤ 5760
  dur : (r.pkt.lens.length : Int) * Framing.samplesPerFrame r.pkt.tocCfg fs.toNat = fsz

/-! ### Low-budget path -/

theorem low_state_bridge (s : St) (fsz out : Int) :
    lowBudgetToc s fsz out = lowBudgetToc (lowSt s.fs s.mode s.bandwidth s.streamChannels) fsz out ∧
    lowLens s fsz out = lowLens (lowSt s.fs s.mode s.bandwidth s.streamChannels) fsz out ∧
    lowRet0 s fsz out = lowRet0 (lowSt s.fs s.mode s.bandwidth s.streamChannels) fsz out ∧
    lowHdr0 s fsz out = lowHdr0 (lowSt s.fs s.mode s.bandwidth s.streamChannels) fsz out :=
  ⟨rfl, rfl, rfl, rfl⟩

theorem low_out_bridge (s : St) (fsz out out' : Int) (h : out = 1 ↔ out' = 1) :
    lowBudgetToc s fsz out = lowBudgetToc s fsz out' ∧ lowLens s fsz out = lowLens s fsz out' ∧
    lowRet0 s fsz out = lowRet0 s fsz out' ∧ lowHdr0 s fsz out = lowHdr0 s fsz out' := by
  have ht : lowToSilk s fsz out = lowToSilk s fsz out' := by unfold lowToSilk; simp only [h]
  have hc : lowCode s fsz out = lowCode s fsz out' := by unfold lowCode; rw [ht]
  have hn : lowNumMulti s fsz out = lowNumMulti s fsz out' := by unfold lowNumMulti; rw [ht]
  have hb : lowBudgetToc s fsz out = lowBudgetToc s fsz out' := by
    unfold lowBudgetToc lowTocBw lowTocMode lowTocRate; rw [ht, hc, hn]
  refine ⟨hb, ?_, ?_, ?_⟩
  · unfold lowLens; rw [hc, hn]
  · unfold lowRet0; rw [hc]
  · unfold lowHdr0; rw [hc, hn, hb]

/-- The low-budget ToC-only packet for any state within `stOk`. -/
theorem lowToc_wf (s : St) (fsz out : Int)
    (hfs : s.fs = 8000 ∨ s.fs = 12000 ∨ s.fs = 16000 ∨ s.fs = 24000 ∨ s.fs = 48000)
    (hlg : legalFrame s.fs fsz = true)
    (hmode : s.mode = 0 ∨ (MODE_SILK_ONLY ≤ s.mode ∧ s.mode ≤ MODE_CELT_ONLY))
    (hbw : BW_NB ≤ s.bandwidth ∧ s.bandwidth ≤ BW_FB)
    (hch : s.streamChannels = 1 ∨ s.streamChannels = 2)
    (hne : ¬ (out = 1 ∧ s.fs = fsz * 10)) :
    (lowBudgetToc s fsz out).1 % 4 = 0 ∧ (lowBudgetToc s fsz out).1 < 256 ∧
    frameDur48 (lowBudgetToc s fsz out).1 * (lowLens s fsz out).length ≤ 5760 ∧
    ((lowLens s fsz out).length : Int) * Framing.samplesPerFrame (lowBudgetToc s fsz out).1 s.fs.toNat = fsz ∧
    outRange (lowBudgetToc s fsz out).1 (lowLens s fsz out) (lowRet0 s fsz out).toNat false =
      .ok { size := (lowRet0 s fsz out).toNat, hdr := lowHdr0 s fsz out } := by
  obtain ⟨n, hn, hfsn⟩ : ∃ n ∈ [(8000 : Nat), 12000, 16000, 24000, 48000], s.fs = (n : Int) := by
    rcases hfs with h | h | h | h | h
    · exact ⟨8000, by decide, h⟩
    · exact ⟨12000, by decide, h⟩
    · exact ⟨16000, by decide, h⟩
    · exact ⟨24000, by decide, h⟩
    · exact ⟨48000, by decide, h⟩
  obtain ⟨k, hk, hfk⟩ : ∃ k ∈ [(1 : Int), 2, 4, 8, 16, 24, 32, 40, 48], fsz = s.fs / 400 * k := by
    have hl := legal_fsz s.fs fsz hlg
    rcases hl with h | h | h | h | h | h | h | h | h
    · exact ⟨1, by decide, by omega⟩
    · exact ⟨2, by decide, by omega⟩
    · exact ⟨4, by decide, by omega⟩
    · exact ⟨8, by decide, by omega⟩
    · exact ⟨16, by decide, by omega⟩
    · exact ⟨24, by decide, by omega⟩
    · exact ⟨32, by decide, by omega⟩
    · exact ⟨40, by decide, by omega⟩
    · exact ⟨48, by decide, by omega⟩
  have hm : s.mode ∈ [(0 : Int), 1000, 1001, 1002] := by
    simp only [MODE_SILK_ONLY, MODE_CELT_ONLY] at hmode
    have : s.mode = 0 ∨ s.mode = 1000 ∨ s.mode = 1001 ∨ s.mode = 1002 := by omega
    simpa using this
  have hb : s.bandwidth ∈ [(1101 : Int), 1102, 1103, 1104, 1105] := by
    simp only [BW_NB, BW_FB] at hbw
    have : s.bandwidth = 1101 ∨ s.bandwidth = 1102 ∨ s.bandwidth = 1103 ∨ s.bandwidth = 1104 ∨ s.bandwidth = 1105 := by omega
    simpa using this
  have hc : s.streamChannels ∈ [(1 : Int), 2] := by simpa using hch
  have ho : (if out = 1 then (1 : Int) else 2) ∈ [(1 : Int), 2] := by split <;> simp
  have hne' : ¬ ((if out = 1 then (1 : Int) else 2) = 1 ∧ k = 40) := by
    intro ⟨h1, h2⟩
    apply hne
    constructor
    · by_cases h : out = 1
      · exact h
      · rw [if_neg h] at h1; omega
    · subst h2; omega
  have F := lowToc_wf_all n hn k hk s.mode hm s.bandwidth hb s.streamChannels hc _ ho hne'
  rw [← hfsn, ← hfk] at F
  obtain ⟨a1, a2, a3, a4⟩ := low_state_bridge s fsz out
  obtain ⟨b1, b2, b3, b4⟩ := low_out_bridge (lowSt s.fs s.mode s.bandwidth s.streamChannels) fsz out
    (if out = 1 then (1 : Int) else 2) (by split <;> simp_all)
  rw [a1, a2, a3, a4, b1, b2, b3, b4]
  have hto : s.fs.toNat = n := by rw [hfsn]; simp
  rw [hto]
  exact F


/-- Shape of a successful `opus_packet_pad` on an unpadded packet: nothing to do, or the padded
    repacketiser output of exactly `new_len` bytes. -/
theorem padSpec_shape (toc : Nat) (lens : List Nat) (len newLen : Int) (hne : lens ≠ [])
    (hall : ∀ l ∈ lens, l ≤ 1275) (hbase : (baseSize lens : Int) = len) (hle : len ≤ newLen) :
    (len = newLen ∧ (padSpec toc lens len newLen).2 = none) ∨
    (∃ r, outRange toc lens newLen.toNat true = .ok r ∧ (padSpec toc lens len newLen).2 = some r ∧
       r.size = newLen.toNat) := by
  have hb1 := baseSize_pos lens hne
  unfold padSpec
  rw [if_neg (by omega)]
  by_cases he : len = newLen
  · rw [if_pos he]; exact Or.inl ⟨he, rfl⟩
  · have hany : lens.any (fun x => decide (x > 1275)) = false := by
      rw [List.any_eq_false]; intro x hx; simp; exact hall x hx
    rw [if_neg he, if_neg (by omega), hany]
    simp only [Bool.false_eq_true, if_false]
    obtain ⟨r, hr, hs⟩ := outRange_pad toc lens newLen.toNat hne (by omega)
    rw [hr]
    exact Or.inr ⟨r, rfl, rfl, hs⟩

/-- Low-budget path: the ToC-only packet (padded in CBR) is a repacketiser-contract output for a ToC
    announcing the submitted frame size. -/
theorem low_pkt (s0 s : St) (fsz out : Int) (b : SizeBudget) (hst : stOk s0 = true)
    (hlg : legalFrame s0.fs fsz = true) (he : entryCheck s0 fsz out = none)
    (hfs : s.fs = s0.fs) (hmd : s.mode = s0.mode) (hbw : s.bandwidth = s0.bandwidth)
    (hsc : s.streamChannels = s0.streamChannels) (hb1 : 1 ≤ b.maxDataBytes) :
    PktOk s0.fs fsz (lowBudget s fsz out b) := by
  have hs := hst
  unfold stOk at hs
  simp only [decide_eq_true_eq] at hs
  obtain ⟨h1, h2c, -, -, -, -, -, h8, h9, -, -, -, h13, -⟩ := hs
  have hent : 1 ≤ out ∧ ¬ (out = 1 ∧ s.fs = fsz * 10) := by
    unfold entryCheck at he
    dsimp only at he
    split at he
    · cases he
    · split at he
      · cases he
      · rename_i h2 h3
        rw [hfs]
        constructor
        · omega
        · intro ⟨ha, hb⟩; apply h3; exact ⟨by omega, hb⟩
  obtain ⟨f1, f2, f3, f4, f5⟩ := lowToc_wf s fsz out (by rw [hfs]; exact h1) (by rw [hfs]; exact hlg)
    (by rw [hmd]; exact Or.inr h13) (by rw [hbw]; exact h9) (by rw [hsc]; omega) hent.2
  have hfr : 1 ≤ s.fs / fsz := by
    have hfs0 : 0 < s0.fs := by omega
    obtain ⟨hf0, _⟩ := legal_le s0.fs fsz hfs0 hlg
    rw [hfs]
    refine (Int.le_ediv_iff_mul_le hf0).mpr ?_
    have := legal_fsz s0.fs fsz hlg; omega
  obtain ⟨hne, hall, hbase⟩ := lowLens_spec s fsz out hfr
  have hr0 : 1 ≤ lowRet0 s fsz out := by unfold lowRet0; split <;> omega
  rw [hfs] at f4
  unfold lowBudget
  dsimp only
  by_cases hv : s.useVbr = 0
  · rw [if_pos hv]
    have hpad := padSpec_ok (lowBudgetToc s fsz out).1 (lowLens s fsz out) (lowRet0 s fsz out)
      (max b.maxDataBytes (lowRet0 s fsz out)) hne hall hbase (by omega)
    rw [if_neg (by rw [hpad.1]; simp)]
    rcases padSpec_shape (lowBudgetToc s fsz out).1 (lowLens s fsz out) (lowRet0 s fsz out)
      (max b.maxDataBytes (lowRet0 s fsz out)) hne hall hbase (by omega) with ⟨heq, hnone⟩ | ⟨r, hr, hsome, hsz⟩
    · refine ⟨⟨(lowRet0 s fsz out).toNat, false, ?_⟩, by dsimp only; omega, f1, f2, hall, f3, f4⟩
      dsimp only
      rw [hnone, ← heq]
      exact f5
    · refine ⟨⟨(max b.maxDataBytes (lowRet0 s fsz out)).toNat, true, ?_⟩, by dsimp only; omega, f1, f2, hall, f3, f4⟩
      dsimp only
      rw [hsome, hr]
      dsimp only
      rw [← hsz]
  · rw [if_neg hv]
    exact ⟨⟨(lowRet0 s fsz out).toNat, false, f5⟩, by dsimp only; omega, f1, f2, hall, f3, f4⟩


theorem outRange_code0 (toc L : Nat) (pad : Bool) :
    outRange toc [L] (L + 1) pad = .ok { size := L + 1, hdr := [toc] } := by
  rw [outRange, if_neg (by omega), if_neg (by omega)]

theorem combo_of (mode fs fsz bw sbw : Int)
    (hfs5 : fs = 8000 ∨ fs = 12000 ∨ fs = 16000 ∨ fs = 24000 ∨ fs = 48000)
    (hl : 400 * fsz = fs ∨ 200 * fsz = fs ∨ 100 * fsz = fs ∨ 50 * fsz = fs ∨ 25 * fsz = fs ∨ 50 * fsz = 3 * fs ∨
          50 * fsz = 4 * fs ∨ 50 * fsz = 5 * fs ∨ 50 * fsz = 6 * fs)
    (hmode : mode = 1000 ∨ mode = 1001 ∨ mode = 1002) (hbwd : 1101 ≤ sbw ∧ sbw ≤ 1105)
    (hb1 : mode ≠ 1000 → bw = sbw) (hb2 : mode = 1000 → bw = 1101 ∨ bw = 1102 ∨ bw = 1103)
    (hwH : mode = 1001 → 1104 ≤ sbw) (hshort : mode ≠ 1002 → fs / 100 ≤ fsz)
    (hnm : ¬ ((fsz > fs / 50 ∧ mode ≠ 1000) ∨ fsz > 3 * fs / 50)) : ComboOk mode fs fsz bw := by
  unfold ComboOk
  rcases hmode with hm | hm | hm
  · left
    have := hb2 hm
    have := hshort (by omega)
    refine ⟨hm, by omega, by omega, ?_⟩
    rcases hfs5 with h | h | h | h | h <;> subst h <;> omega
  · right; left
    have := hb1 (by omega)
    have := hwH hm
    have := hshort (by omega)
    refine ⟨hm, by omega, by omega, ?_⟩
    rcases hfs5 with h | h | h | h | h <;> subst h <;> omega
  · right; right
    have := hb1 (by omega)
    refine ⟨hm, by omega, by omega, ?_⟩
    rcases hfs5 with h | h | h | h | h <;> subst h <;> omega

/-- Single-frame path: the packet is a repacketiser-contract output (code 0, or code 3 with padding
    in CBR) for a ToC announcing the submitted frame size. -/
theorem single_pkt (s0 s1 : St) (fuzz : Bool) (o : NatOr) (fsz out m isSil : Int) (fo : FrameOr) (okb : Bool)
    (hfs5 : s0.fs = 8000 ∨ s0.fs = 12000 ∨ s0.fs = 16000 ∨ s0.fs = 24000 ∨ s0.fs = 48000)
    (hlg : legalFrame s0.fs fsz = true) (hfs : s1.fs = s0.fs)
    (hs : Settings s1) (hb : BwOk s1.bandwidth) (hm1 : 3 ≤ m) (hm2 : m ≤ 1276)
    (hnm : ¬ isMulti (decide' s1 fuzz o fsz m).st fsz = true)
    (hok : frameOk (decide' s1 fuzz o fsz m).st (singleIn (decide' s1 fuzz o fsz m) isSil fsz m) fo = true) :
    PktOk s0.fs fsz
      (singleRes (frameNative (decide' s1 fuzz o fsz m).st (singleIn (decide' s1 fuzz o fsz m) isSil fsz m) fo) okb) := by
  have hpre := decide'_pre s1 fuzz o fsz m isSil hs hb hm1 hm2
  have hpost := frameNative_post _ _ fo hpre hok
  obtain ⟨hsame, hmode, hbwd, hwS, hwH, hshort⟩ := decide'_spec s1 fuzz o fsz m hs hb
  have hdfs : (decide' s1 fuzz o fsz m).st.fs = s0.fs := by rw [hsame.cfg.fs, hfs]
  have hmi : (singleIn (decide' s1 fuzz o fsz m) isSil fsz m).maxDataBytes = m := rfl
  have hfi : (singleIn (decide' s1 fuzz o fsz m) isSil fsz m).frameSize = fsz := rfl
  unfold isMulti at hnm
  simp only [decide_eq_true_eq] at hnm
  generalize decide' s1 fuzz o fsz m = d at *
  generalize frameNative d.st (singleIn d isSil fsz m) fo = r at *
  obtain ⟨p1, p2, p3, p4, p5, p6, p7, ⟨bw, ht, hb1, hb2⟩, p9⟩ := hpost
  rw [hmi] at p3 p6
  rw [hfi, hdfs] at ht
  rw [hfs] at hshort
  rw [hdfs] at hnm
  have hl := legal_fsz s0.fs fsz hlg
  -- the (mode, frame size, bandwidth) combination is a legal one
  have hcombo : ComboOk d.st.mode s0.fs fsz bw :=
    combo_of d.st.mode s0.fs fsz bw d.st.bandwidth hfs5 hl hmode hbwd hb1 hb2 hwH hshort hnm
  obtain ⟨t1, t2, t3, t4⟩ := toc_wf s0.fs fsz d.st.mode bw d.st.streamChannels hfs5 hcombo
  rw [← ht] at t1 t2 t3 t4
  have hd48 : frameDur48 r.toc * 1 ≤ 5760 := by
    have hle : fsz ≤ 3 * s0.fs / 50 := by omega
    rcases hfs5 with h | h | h | h | h <;> rw [h] at t4 hle <;> omega
  unfold singleRes
  refine ⟨?_, by dsimp only; omega, t1, t2, ?_, by simpa using hd48, by simpa using t3⟩
  · dsimp only
    by_cases hd : r.dtx = true
    · obtain ⟨d1, d2, d3⟩ := p5 hd
      refine ⟨1, false, ?_⟩
      rw [d1, d2, d3]
      exact outRange_code0 r.toc 0 false
    · have hd' : r.dtx = false := by simpa using hd
      by_cases hv : d.st.useVbr = 0
      · obtain ⟨c1, c2, c3⟩ := p6 hv hd'
        have hLL : ((r.payload.toNat : Nat) : Int) + 1 = r.payload + 1 := by omega
        rcases padSpec_shape r.toc [r.payload.toNat] (r.payload + 1) m (by simp) (by intro l hl; simp at hl; omega)
          (by simp [baseSize]; omega) c3 with ⟨heq, hnone⟩ | ⟨q, hq, hsome, hsz⟩
        · refine ⟨r.payload.toNat + 1, false, ?_⟩
          rw [c2]
          unfold cbrHdr
          rw [hnone, c1]
          have : m.toNat = r.payload.toNat + 1 := by omega
          rw [this]
          exact outRange_code0 r.toc r.payload.toNat false
        · refine ⟨m.toNat, true, ?_⟩
          rw [c2]
          unfold cbrHdr
          rw [hsome, hq, c1]
          dsimp only
          rw [← hsz]
      · obtain ⟨v1, v2⟩ := p7 hv hd'
        refine ⟨r.payload.toNat + 1, false, ?_⟩
        rw [v2, v1]
        have : (r.payload + 1).toNat = r.payload.toNat + 1 := by omega
        rw [this]
        exact outRange_code0 r.toc r.payload.toNat false
  · intro l hl
    simp only [List.mem_singleton] at hl
    omega


theorem combo_multi (mode fs encFs bw sbw : Int)
    (hmode : mode = 1000 ∨ mode = 1001 ∨ mode = 1002) (hbwd : 1101 ≤ sbw ∧ sbw ≤ 1105)
    (hb1 : mode ≠ 1000 → bw = sbw) (hb2 : mode = 1000 → bw = 1101 ∨ bw = 1102 ∨ bw = 1103)
    (hwH : mode = 1001 → sbw = 1104 ∨ sbw = 1105)
    (henc : encFs = 8 * (fs / 400) ∨ (mode = 1000 ∧ (encFs = 16 * (fs / 400) ∨ encFs = 24 * (fs / 400)))) :
    ComboOk mode fs encFs bw := by
  unfold ComboOk
  rcases hmode with hm | hm | hm
  · left; have := hb2 hm; exact ⟨hm, by omega, by omega, by omega⟩
  · right; left; have := hb1 (by omega); have := hwH hm; exact ⟨hm, by omega, by omega, by omega⟩
  · right; right; have := hb1 (by omega); exact ⟨hm, by omega, by omega, by omega⟩

/-- Multi-frame path: the repacketised packet is a repacketiser-contract output for a ToC announcing
    the sub-frame size, with `nb_frames` frames totalling the submitted frame size. -/
theorem multi_pkt (s : St) (fuzz : Bool) (fsz out : Int) (o : NatOr)
    (he : entryCheck s fsz out = none) (htm : takesMulti s fuzz fsz out o = true)
    (hst : stOk s = true) (hlg : legalFrame s.fs fsz = true)
    (hmok : (multiOf s fuzz fsz out o).ok = true) : PktOk s.fs fsz (multiOf s fuzz fsz out o) := by
  obtain ⟨_, hpk, hnf, hpre, hdfs⟩ := multi_branch s fuzz fsz out o he htm hst hlg hmok
  obtain ⟨hfs5, _, _⟩ := stOk_fs s hst
  generalize multiOf s fuzz fsz out o = r at *
  generalize decOf s fuzz fsz out o = d at *
  generalize ctxOf s fuzz fsz out o = c at *
  obtain ⟨⟨bw, ht, hb1, hb2⟩, hlen, hlens, ⟨pad, hout⟩, hsize⟩ := hpk
  obtain ⟨hmode, hbwS, hbwH, hbwC, ⟨hn2, hn6⟩, _, _, _, henc⟩ := hpre
  rw [hdfs] at ht henc
  have hcombo : ComboOk d.st.mode s.fs c.encFs bw := by
    unfold ModeOk at hmode
    unfold BwOk at hbwC
    simp only [MODE_SILK_ONLY, MODE_HYBRID, MODE_CELT_ONLY, BW_NB, BW_MB, BW_WB, BW_SWB, BW_FB] at *
    exact combo_multi d.st.mode s.fs c.encFs bw d.st.bandwidth hmode hbwC hb1 hb2 hbwH henc
  obtain ⟨t1, t2, t3, t4⟩ := toc_wf s.fs c.encFs d.st.mode bw d.st.streamChannels hfs5 hcombo
  rw [← ht] at t1 t2 t3 t4
  have hl := legal_fsz s.fs fsz hlg
  refine ⟨⟨_, pad, hout⟩, hsize, t1, t2, hlens, ?_, ?_⟩
  · have hnb : r.pkt.lens.length = c.nbFrames.toNat := by omega
    rw [hnb]
    have hcases : c.nbFrames = 2 ∨ c.nbFrames = 3 ∨ c.nbFrames = 4 ∨ c.nbFrames = 5 ∨ c.nbFrames = 6 := by omega
    have key : (frameDur48 r.pkt.tocCfg : Int) * c.nbFrames ≤ 5760 := by
      rcases hfs5 with h | h | h | h | h <;> rw [h] at t4 hl <;>
        rcases hcases with h' | h' | h' | h' | h' <;> rw [h'] at hnf ⊢ <;> omega
    have : ((frameDur48 r.pkt.tocCfg * c.nbFrames.toNat : Nat) : Int) ≤ 5760 := by
      push_cast
      rw [show ((c.nbFrames.toNat : Nat) : Int) = c.nbFrames by omega]
      exact key
    exact_mod_cast this
  · rw [hlen, t3]; exact hnf


theorem outCode3_hdr_le (cfg : Nat) (lens : List Nat) (maxlen : Nat) (pad : Bool) (r : OutRes)
    (h : outCode3 cfg lens maxlen pad = .ok r) : r.hdr.length + sumN lens ≤ r.size := by
  unfold outCode3 at h
  dsimp only at h
  generalize hvbr : (!allEq (lens.headD 0) lens) = vbr at h
  have htot : (if vbr = true then 2 + vbrBody lens else lens.length * lens.headD 0 + 2) =
      2 + (if vbr = true then (vbrLens lens).length else 0) + sumN lens := by
    cases vbr
    · simp only [Bool.false_eq_true, if_false]
      have : allEq (lens.headD 0) lens = true := by simpa using hvbr
      rw [allEq_sum _ _ this]; omega
    · simp only [if_true]; rw [vbrBody_eq]; omega
  rw [htot] at h
  generalize htv : 2 + (if vbr = true then (vbrLens lens).length else 0) + sumN lens = tot at h
  split at h
  · cases h
  · generalize hpa : (if pad = true then maxlen - tot else 0) = pa at h
    by_cases hpa0 : pa = 0
    · rw [if_neg (by simp [hpa0])] at h
      cases h
      cases vbr <;> simp at htv ⊢ <;> omega
    · rw [if_pos (by simpa using hpa0)] at h
      split at h
      · cases h
      · cases h
        have := padLenBytes_length pa
        cases vbr <;> simp [this] at htv ⊢ <;> omega

theorem outRange_hdr_le (cfg : Nat) (lens : List Nat) (maxlen : Nat) (pad : Bool) (r : OutRes)
    (h : outRange cfg lens maxlen pad = .ok r) : r.hdr.length + sumN lens ≤ r.size := by
  match lens with
  | [] => simp [outRange] at h
  | [l0] =>
    rw [outRange] at h
    split at h
    · cases h
    · split at h
      · exact outCode3_hdr_le _ _ _ _ _ h
      · cases h; simp; omega
  | [l0, l1] =>
    rw [outRange] at h
    split at h
    · split at h
      · cases h
      · split at h
        · exact outCode3_hdr_le _ _ _ _ _ h
        · cases h; simp; omega
    · dsimp only at h
      generalize htt : l0 + l1 + 2 + (if l0 ≥ 252 then 1 else 0) = tt at h
      split at h
      · cases h
      · split at h
        · exact outCode3_hdr_le _ _ _ _ _ h
        · cases h
          have : (Framing.encodeSize l0).length = if l0 < 252 then 1 else 2 := by
            unfold Framing.encodeSize; split <;> simp
          simp [this]
          split at htt <;> split <;> omega
  | a :: b :: c :: rest =>
    rw [outRange] at h
    · exact outCode3_hdr_le _ _ _ _ _ h
    all_goals simp

theorem PktOk.withOk {fs fsz : Int} {r : NatRes} (h : PktOk fs fsz r) (b : Bool) : PktOk fs fsz { r with ok := b } :=
  ⟨h.out, h.size, h.toc4, h.toc256, h.lens, h.dur48, h.dur⟩

/-- Every success return of `opus_encode_native`: the emitted packet structure. -/
theorem encodeNative_pkt (s : St) (fuzz : Bool) (fsz out : Int) (o : NatOr)
    (he : entryCheck s fsz out = none) (hok : (encodeNative s fuzz fsz out o).ok = true) :
    PktOk s.fs fsz (encodeNative s fuzz fsz out o) := by
  unfold encodeNative at hok ⊢
  rw [he] at hok ⊢
  dsimp only at hok ⊢
  have hout : 1 ≤ out := by
    unfold entryCheck at he
    dsimp only at he
    split at he
    · cases he
    · omega
  have hbs := budgetSt_same s o fsz out
  have hfs1 : (budgetSt s o fsz out).fs = s.fs := by unfold BudSame at hbs; rw [hbs]
  have hmd1 : (budgetSt s o fsz out).mode = s.mode := by unfold BudSame at hbs; rw [hbs]
  have hbw1' : (budgetSt s o fsz out).bandwidth = s.bandwidth := by unfold BudSame at hbs; rw [hbs]
  have hsc1 : (budgetSt s o fsz out).streamChannels = s.streamChannels := by unfold BudSame at hbs; rw [hbs]
  by_cases hg : lowBudgetGate (budgetSt s o fsz out) fsz (sizeBudget (analysisUpd s o) fsz out) = true
  · rw [if_pos hg] at hok ⊢
    dsimp only at hok
    simp only [Bool.and_eq_true] at hok
    obtain ⟨hb1, _, _, _⟩ := budget_spec s o fsz out hok.1 hok.2 hout
    exact (low_pkt s _ fsz out _ hok.1 hok.2 he hfs1 hmd1 hbw1' hsc1 hb1).withOk _
  · rw [if_neg hg] at hok ⊢
    by_cases hm : isMulti (decide' (budgetSt s o fsz out) fuzz o fsz
        (sizeBudget (analysisUpd s o) fsz out).maxDataBytes).st fsz = true
    · rw [if_pos hm] at hok ⊢
      dsimp only at hok ⊢
      simp only [Bool.and_eq_true] at hok
      have htm : takesMulti s fuzz fsz out o = true := by unfold takesMulti; simp [hg, hm]
      exact (multi_pkt s fuzz fsz out o he htm hok.1.1 hok.1.2 hok.2).withOk _
    · rw [if_neg hm] at hok ⊢
      unfold singleRes at hok
      dsimp only at hok
      simp only [Bool.and_eq_true] at hok
      obtain ⟨⟨hst, hlg⟩, hfok⟩ := hok
      obtain ⟨hb1, hb2, _, _⟩ := budget_spec s o fsz out hst hlg hout
      obtain ⟨hset, hbw⟩ := stOk_settings s hst
      obtain ⟨hset1, hbw1⟩ := hbs.settings hset hbw
      obtain ⟨hfs5, _, _⟩ := stOk_fs s hst
      have hm3 : 3 ≤ (sizeBudget (analysisUpd s o) fsz out).maxDataBytes := by
        unfold lowBudgetGate at hg
        simp only [decide_eq_true_eq] at hg
        omega
      exact single_pkt s _ fuzz o fsz out _ _ _ _ hfs5 hlg hfs1 hset1 hbw1 hm3 (by omega) hm hfok

/-- **encode_wellformed.**  For every success return, ANY frame contents of the recorded lengths:
    `header ++ frames ++ zero padding` parses (C06 parser) to exactly those frames, consumes exactly
    `ret` bytes, and announces `count · samples_per_frame(Fs) = frame_size`. -/
theorem encode_parses (s : St) (fuzz : Bool) (fsz out : Int) (o : NatOr)
    (he : entryCheck s fsz out = none) (hok : (encodeNative s fuzz fsz out o).ok = true)
    (frames : List Bytes) (hfl : frames.map List.length = (encodeNative s fuzz fsz out o).pkt.lens) :
    ∃ v, Framing.parseImpl false
        (pktBytes (encodeNative s fuzz fsz out o).pkt.hdr frames (encodeNative s fuzz fsz out o).pkt.size) = .ok v ∧
      v.sizes = (encodeNative s fuzz fsz out o).pkt.lens ∧
      (v.count : Int) * Framing.samplesPerFrame v.toc s.fs.toNat = fsz ∧
      (v.packetOffset : Int) = (encodeNative s fuzz fsz out o).ret ∧
      (pktBytes (encodeNative s fuzz fsz out o).pkt.hdr frames (encodeNative s fuzz fsz out o).pkt.size).length =
        v.packetOffset := by
  have hp := encodeNative_pkt s fuzz fsz out o he hok
  generalize encodeNative s fuzz fsz out o = r at *
  obtain ⟨⟨maxlen, pad, hout⟩, hsize, h4, h256, hlens, hd48, hdur⟩ := hp
  obtain ⟨v, hv, hs, hc, ht, hpo⟩ := outRange_parses r.pkt.tocCfg r.pkt.lens maxlen pad _ frames hfl h4 h256 hlens hd48 hout
  have hle := outRange_hdr_le r.pkt.tocCfg r.pkt.lens maxlen pad _ hout
  dsimp only at hv hpo
  refine ⟨v, hv, hs, ?_, ?_, hpo.symm⟩
  · have hspf : Framing.samplesPerFrame v.toc s.fs.toNat = Framing.samplesPerFrame r.pkt.tocCfg s.fs.toNat := by
      unfold Framing.samplesPerFrame
      have e1 : v.toc / 128 = r.pkt.tocCfg / 128 := by omega
      have e2 : v.toc / 32 = r.pkt.tocCfg / 32 := by omega
      have e3 : v.toc / 8 = r.pkt.tocCfg / 8 := by omega
      rw [e1, e2, e3]
    rw [hspf, hc]; exact hdur
  · rw [hpo, ← hsize]
    dsimp only at hle
    unfold pktBytes
    have hfl' : frames.flatten.length = sumN r.pkt.lens := by rw [flatten_length, hfl]
    simp only [List.length_append, List.length_replicate]
    omega


end Opus.EncSkel.Proofs
