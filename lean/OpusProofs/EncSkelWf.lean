import OpusProofs.EncSkelParse
/-
  OpusProofs.EncSkelWf — `encode_wellformed` (C02): on every return path of `opus_encode_native` the
  emitted structure (header bytes, frame lengths, size) is an output of the repacketiser contract for a
  ToC that announces the coded duration, hence parses (C06 parser) to frames totalling `frame_size`.
-/
namespace Opus.EncSkel.Proofs
open Opus Opus.EncDecide Opus.EncSkel Opus.FramingSpec

theorem genToc_ch (mode fr bw ch : Int) : genToc mode fr bw ch = genToc mode fr bw (if ch = 2 then 2 else 1) := by
  unfold genToc
  by_cases h : ch = 2 <;> simp [h]

/-- Which (mode, duration in 2.5 ms units, bandwidth) a coded frame can have. -/
def ComboOk (mode fs fsz bw : Int) : Prop :=
  (mode = 1000 ∧ 1101 ≤ bw ∧ bw ≤ 1103 ∧ (fsz = 4 * (fs / 400) ∨ fsz = 8 * (fs / 400) ∨ fsz = 16 * (fs / 400) ∨ fsz = 24 * (fs / 400))) ∨
  (mode = 1001 ∧ 1104 ≤ bw ∧ bw ≤ 1105 ∧ (fsz = 4 * (fs / 400) ∨ fsz = 8 * (fs / 400))) ∨
  (mode = 1002 ∧ 1101 ≤ bw ∧ bw ≤ 1105 ∧ (fsz = 1 * (fs / 400) ∨ fsz = 2 * (fs / 400) ∨ fsz = 4 * (fs / 400) ∨ fsz = 8 * (fs / 400)))

set_option maxHeartbeats 1000000 in
/-- The ToC of a coded frame is a byte with code bits 00 that announces exactly the frame size
    (at the encoder's rate and, scaled, at 48 kHz). -/
theorem toc_wf (fs fsz mode bw ch : Int)
    (hfs : fs = 8000 ∨ fs = 12000 ∨ fs = 16000 ∨ fs = 24000 ∨ fs = 48000) (hc : ComboOk mode fs fsz bw) :
    genToc mode (fs / fsz) bw ch % 4 = 0 ∧ genToc mode (fs / fsz) bw ch < 256 ∧
    (Framing.samplesPerFrame (genToc mode (fs / fsz) bw ch) fs.toNat : Int) = fsz ∧
    (frameDur48 (genToc mode (fs / fsz) bw ch) : Int) * fs = 48000 * fsz := by
  rw [genToc_ch]
  unfold ComboOk at hc
  have hch : (if ch = 2 then (2 : Int) else 1) = 2 ∨ (if ch = 2 then (2 : Int) else 1) = 1 := by
    by_cases h : ch = 2 <;> simp [h]
  generalize (if ch = 2 then (2 : Int) else 1) = c at hch
  rcases hc with ⟨rfl, h1, h2, hk⟩ | ⟨rfl, h1, h2, hk⟩ | ⟨rfl, h1, h2, hk⟩
  · have hb : bw = 1101 ∨ bw = 1102 ∨ bw = 1103 := by omega
    rcases hfs with rfl | rfl | rfl | rfl | rfl <;> norm_num at hk <;>
      rcases hk with rfl | rfl | rfl | rfl <;> rcases hb with rfl | rfl | rfl <;> rcases hch with rfl | rfl <;> decide
  · have hb : bw = 1104 ∨ bw = 1105 := by omega
    rcases hfs with rfl | rfl | rfl | rfl | rfl <;> norm_num at hk <;>
      rcases hk with rfl | rfl <;> rcases hb with rfl | rfl <;> rcases hch with rfl | rfl <;> decide
  · have hb : bw = 1101 ∨ bw = 1102 ∨ bw = 1103 ∨ bw = 1104 ∨ bw = 1105 := by omega
    rcases hfs with rfl | rfl | rfl | rfl | rfl <;> norm_num at hk <;>
      rcases hk with rfl | rfl | rfl | rfl <;> rcases hb with rfl | rfl | rfl | rfl | rfl <;> rcases hch with rfl | rfl <;> decide

/-- The low-budget ToC-only packet, all facts the parser theorem needs, by exhaustive evaluation. -/
theorem lowToc_wf_all :
    ∀ fs ∈ [(8000 : Nat), 12000, 16000, 24000, 48000], ∀ k ∈ [(1 : Int), 2, 4, 8, 16, 24, 32, 40, 48],
    ∀ mode ∈ [(0 : Int), 1000, 1001, 1002], ∀ bw ∈ [(1101 : Int), 1102, 1103, 1104, 1105], ∀ ch ∈ [(1 : Int), 2],
    ∀ out ∈ [(1 : Int), 2],
      ¬ (out = 1 ∧ k = 40) →
      (lowBudgetToc (lowSt fs mode bw ch) (fs / 400 * k) out).1 % 4 = 0 ∧
      (lowBudgetToc (lowSt fs mode bw ch) (fs / 400 * k) out).1 < 256 ∧
      frameDur48 (lowBudgetToc (lowSt fs mode bw ch) (fs / 400 * k) out).1 *
        (lowLens (lowSt fs mode bw ch) (fs / 400 * k) out).length ≤ 5760 ∧
      ((lowLens (lowSt fs mode bw ch) (fs / 400 * k) out).length : Int) *
        Framing.samplesPerFrame (lowBudgetToc (lowSt fs mode bw ch) (fs / 400 * k) out).1 fs = fs / 400 * k ∧
      outRange (lowBudgetToc (lowSt fs mode bw ch) (fs / 400 * k) out).1 (lowLens (lowSt fs mode bw ch) (fs / 400 * k) out)
        (lowRet0 (lowSt fs mode bw ch) (fs / 400 * k) out).toNat false =
        .ok { size := (lowRet0 (lowSt fs mode bw ch) (fs / 400 * k) out).toNat,
              hdr := lowHdr0 (lowSt fs mode bw ch) (fs / 400 * k) out } := by
  decide +kernel


/-- What `encode_wellformed` needs of the emitted packet. -/
structure PktOk (fs fsz : Int) (r : NatRes) : Prop where
  out : ∃ maxlen pad, outRange r.pkt.tocCfg r.pkt.lens maxlen pad = .ok { size := r.pkt.size, hdr := r.pkt.hdr }
  size : (r.pkt.size : Int) = r.ret
  toc4 : r.pkt.tocCfg % 4 = 0
  toc256 : r.pkt.tocCfg < 256
  lens : ∀ l ∈ r.pkt.lens, l ≤ 1275
  dur48 : frameDur48 r.pkt.tocCfg * r.pkt.lens.length ≤ 5760
  dur : (r.pkt.lens.length : Int) * Framing.samplesPerFrame r.pkt.tocCfg fs.toNat = fsz

/-! ### Low-budget path -/

theorem low_state_bridge (s : St) (fsz out : Int) :
    lowBudgetToc s fsz out = lowBudgetToc (lowSt s.fs s.mode s.bandwidth s.streamChannels) fsz out ∧
    lowLens s fsz out = lowLens (lowSt s.fs s.mode s.bandwidth s.streamChannels) fsz out ∧
    lowRet0 s fsz out = lowRet0 (lowSt s.fs s.mode s.bandwidth s.streamChannels) fsz out ∧
    lowHdr0 s fsz out = lowHdr0 (lowSt s.fs s.mode s.bandwidth s.streamChannels) fsz out :=
  ⟨rfl, rfl, rfl, rfl⟩

theorem low_out_bridge (s : St) (fsz out out' : Int) (h : out = 1 ↔ out' = 1) :
    lowBudgetToc s fsz out = lowBudgetToc s fsz out' ∧ lowLens s fsz out = lowLens s fsz out' ∧
    lowRet0 s fsz out = lowRet0 s fsz out' ∧ lowHdr0 s fsz out = lowHdr0 s fsz out' := by
  have ht : lowToSilk s fsz out = lowToSilk s fsz out' := by unfold lowToSilk; simp only [h]
  have hc : lowCode s fsz out = lowCode s fsz out' := by unfold lowCode; rw [ht]
  have hn : lowNumMulti s fsz out = lowNumMulti s fsz out' := by unfold lowNumMulti; rw [ht]
  have hb : lowBudgetToc s fsz out = lowBudgetToc s fsz out' := by
    unfold lowBudgetToc lowTocBw lowTocMode lowTocRate; rw [ht, hc, hn]
  refine ⟨hb, ?_, ?_, ?_⟩
  · unfold lowLens; rw [hc, hn]
  · unfold lowRet0; rw [hc]
  · unfold lowHdr0; rw [hc, hn, hb]

/-- The low-budget ToC-only packet for any state within `stOk`. -/
theorem lowToc_wf (s : St) (fsz out : Int)
    (hfs : s.fs = 8000 ∨ s.fs = 12000 ∨ s.fs = 16000 ∨ s.fs = 24000 ∨ s.fs = 48000)
    (hlg : legalFrame s.fs fsz = true)
    (hmode : s.mode = 0 ∨ (MODE_SILK_ONLY ≤ s.mode ∧ s.mode ≤ MODE_CELT_ONLY))
    (hbw : BW_NB ≤ s.bandwidth ∧ s.bandwidth ≤ BW_FB)
    (hch : s.streamChannels = 1 ∨ s.streamChannels = 2)
    (hne : ¬ (out = 1 ∧ s.fs = fsz * 10)) :
    (lowBudgetToc s fsz out).1 % 4 = 0 ∧ (lowBudgetToc s fsz out).1 < 256 ∧
    frameDur48 (lowBudgetToc s fsz out).1 * (lowLens s fsz out).length ≤ 5760 ∧
    ((lowLens s fsz out).length : Int) * Framing.samplesPerFrame (lowBudgetToc s fsz out).1 s.fs.toNat = fsz ∧
    outRange (lowBudgetToc s fsz out).1 (lowLens s fsz out) (lowRet0 s fsz out).toNat false =
      .ok { size := (lowRet0 s fsz out).toNat, hdr := lowHdr0 s fsz out } := by
  obtain ⟨n, hn, hfsn⟩ : ∃ n ∈ [(8000 : Nat), 12000, 16000, 24000, 48000], s.fs = (n : Int) := by
    rcases hfs with h | h | h | h | h
    · exact ⟨8000, by decide, h⟩
    · exact ⟨12000, by decide, h⟩
    · exact ⟨16000, by decide, h⟩
    · exact ⟨24000, by decide, h⟩
    · exact ⟨48000, by decide, h⟩
  obtain ⟨k, hk, hfk⟩ : ∃ k ∈ [(1 : Int), 2, 4, 8, 16, 24, 32, 40, 48], fsz = s.fs / 400 * k := by
    have hl := legal_fsz s.fs fsz hlg
    rcases hl with h | h | h | h | h | h | h | h | h
    · exact ⟨1, by decide, by omega⟩
    · exact ⟨2, by decide, by omega⟩
    · exact ⟨4, by decide, by omega⟩
    · exact ⟨8, by decide, by omega⟩
    · exact ⟨16, by decide, by omega⟩
    · exact ⟨24, by decide, by omega⟩
    · exact ⟨32, by decide, by omega⟩
    · exact ⟨40, by decide, by omega⟩
    · exact ⟨48, by decide, by omega⟩
  have hm : s.mode ∈ [(0 : Int), 1000, 1001, 1002] := by
    simp only [MODE_SILK_ONLY, MODE_CELT_ONLY] at hmode
    have : s.mode = 0 ∨ s.mode = 1000 ∨ s.mode = 1001 ∨ s.mode = 1002 := by omega
    simpa using this
  have hb : s.bandwidth ∈ [(1101 : Int), 1102, 1103, 1104, 1105] := by
    simp only [BW_NB, BW_FB] at hbw
    have : s.bandwidth = 1101 ∨ s.bandwidth = 1102 ∨ s.bandwidth = 1103 ∨ s.bandwidth = 1104 ∨ s.bandwidth = 1105 := by omega
    simpa using this
  have hc : s.streamChannels ∈ [(1 : Int), 2] := by simpa using hch
  have ho : (if out = 1 then (1 : Int) else 2) ∈ [(1 : Int), 2] := by split <;> simp
  have hne' : ¬ ((if out = 1 then (1 : Int) else 2) = 1 ∧ k = 40) := by
    intro ⟨h1, h2⟩
    apply hne
    constructor
    · by_cases h : out = 1
      · exact h
      · rw [if_neg h] at h1; omega
    · subst h2; omega
  have F := lowToc_wf_all n hn k hk s.mode hm s.bandwidth hb s.streamChannels hc _ ho hne'
  rw [← hfsn, ← hfk] at F
  obtain ⟨a1, a2, a3, a4⟩ := low_state_bridge s fsz out
  obtain ⟨b1, b2, b3, b4⟩ := low_out_bridge (lowSt s.fs s.mode s.bandwidth s.streamChannels) fsz out
    (if out = 1 then (1 : Int) else 2) (by split <;> simp_all)
  rw [a1, a2, a3, a4, b1, b2, b3, b4]
  have hto : s.fs.toNat = n := by rw [hfsn]; simp
  rw [hto]
  exact F


/-- Shape of a successful `opus_packet_pad` on an unpadded packet: nothing to do, or the padded
    repacketiser output of exactly `new_len` bytes. -/
theorem padSpec_shape (toc : Nat) (lens : List Nat) (len newLen : Int) (hne : lens ≠ [])
    (hall : ∀ l ∈ lens, l ≤ 1275) (hbase : (baseSize lens : Int) = len) (hle : len ≤ newLen) :
    (len = newLen ∧ (padSpec toc lens len newLen).2 = none) ∨
    (∃ r, outRange toc lens newLen.toNat true = .ok r ∧ (padSpec toc lens len newLen).2 = some r ∧
       r.size = newLen.toNat) := by
  have hb1 := baseSize_pos lens hne
  unfold padSpec
  rw [if_neg (by omega)]
  by_cases he : len = newLen
  · rw [if_pos he]; exact Or.inl ⟨he, rfl⟩
  · have hany : lens.any (fun x => decide (x > 1275)) = false := by
      rw [List.any_eq_false]; intro x hx; simp; exact hall x hx
    rw [if_neg he, if_neg (by omega), hany]
    simp only [Bool.false_eq_true, if_false]
    obtain ⟨r, hr, hs⟩ := outRange_pad toc lens newLen.toNat hne (by omega)
    rw [hr]
    exact Or.inr ⟨r, rfl, rfl, hs⟩

/-- Low-budget path: the ToC-only packet (padded in CBR) is a repacketiser-contract output for a ToC
    announcing the submitted frame size. -/
theorem low_pkt (s0 s : St) (fsz out : Int) (b : SizeBudget) (hst : stOk s0 = true)
    (hlg : legalFrame s0.fs fsz = true) (he : entryCheck s0 fsz out = none)
    (hfs : s.fs = s0.fs) (hmd : s.mode = s0.mode) (hbw : s.bandwidth = s0.bandwidth)
    (hsc : s.streamChannels = s0.streamChannels) (hb1 : 1 ≤ b.maxDataBytes) :
    PktOk s0.fs fsz (lowBudget s fsz out b) := by
  have hs := hst
  unfold stOk at hs
  simp only [decide_eq_true_eq] at hs
  obtain ⟨h1, _, _, _, _, _, _, h8, h9, _, _, _, h13⟩ := hs
  have hent : 1 ≤ out ∧ ¬ (out = 1 ∧ s.fs = fsz * 10) := by
    unfold entryCheck at he
    dsimp only at he
    split at he
    · cases he
    · split at he
      · cases he
      · rename_i h2 h3
        rw [hfs]
        constructor
        · omega
        · intro ⟨ha, hb⟩; apply h3; exact ⟨by omega, hb⟩
  obtain ⟨f1, f2, f3, f4, f5⟩ := lowToc_wf s fsz out (by rw [hfs]; exact h1) (by rw [hfs]; exact hlg)
    (by rw [hmd]; exact h13) (by rw [hbw]; exact h9) (by rw [hsc]; exact h8) hent.2
  have hfr : 1 ≤ s.fs / fsz := by
    have hfs0 : 0 < s0.fs := by omega
    obtain ⟨hf0, _⟩ := legal_le s0.fs fsz hfs0 hlg
    rw [hfs]
    refine (Int.le_ediv_iff_mul_le hf0).mpr ?_
    have := legal_fsz s0.fs fsz hlg; omega
  obtain ⟨hne, hall, hbase⟩ := lowLens_spec s fsz out hfr
  have hr0 : 1 ≤ lowRet0 s fsz out := by unfold lowRet0; split <;> omega
  rw [hfs] at f4
  unfold lowBudget
  dsimp only
  by_cases hv : s.useVbr = 0
  · rw [if_pos hv]
    have hpad := padSpec_ok (lowBudgetToc s fsz out).1 (lowLens s fsz out) (lowRet0 s fsz out)
      (max b.maxDataBytes (lowRet0 s fsz out)) hne hall hbase (by omega)
    rw [if_neg (by rw [hpad.1]; simp)]
    rcases padSpec_shape (lowBudgetToc s fsz out).1 (lowLens s fsz out) (lowRet0 s fsz out)
      (max b.maxDataBytes (lowRet0 s fsz out)) hne hall hbase (by omega) with ⟨heq, hnone⟩ | ⟨r, hr, hsome, hsz⟩
    · refine ⟨⟨(lowRet0 s fsz out).toNat, false, ?_⟩, by dsimp only; omega, f1, f2, hall, f3, f4⟩
      dsimp only
      rw [hnone, ← heq]
      exact f5
    · refine ⟨⟨(max b.maxDataBytes (lowRet0 s fsz out)).toNat, true, ?_⟩, by dsimp only; omega, f1, f2, hall, f3, f4⟩
      dsimp only
      rw [hsome, hr]
      dsimp only
      rw [← hsz]
  · rw [if_neg hv]
    exact ⟨⟨(lowRet0 s fsz out).toNat, false, f5⟩, by dsimp only; omega, f1, f2, hall, f3, f4⟩


end Opus.EncSkel.Proofs
