import OpusProofs.ExtSer
import OpusProofs.ExtGenArg
/-
  C16 helper lemmas, part 9: what the first loop nest of the generator (`frame_min_idx`,
  `frame_max_idx`) computes, and that repeat detection finds nothing on lists without a
  repeat-eligible first extension.
-/
set_option linter.unusedVariables false
namespace Opus.ExtProofs
open Opus Opus.Ext

/-- ID and frame index of an extension are what the API allows (the payload length is not constrained). -/
structure IFExt (nbF : Nat) (e : Ext) : Prop where
  id_lo : 3 ≤ e.id
  id_hi : e.id ≤ 127
  fr_lo : 0 ≤ e.frame
  fr_hi : e.frame < nbF

/-- Every array entry has a valid ID and frame index. -/
def AllIF (exts : Array Ext) (nbF : Nat) : Prop := ∀ (j : Nat) (e : Ext), exts[j]? = some e → IFExt nbF e

/-- The payload length is admissible: non-negative, and 0 or 1 for a short ID. -/
def LenOk (e : Ext) : Prop := 0 ≤ e.len ∧ (e.id < 32 → e.len ≤ 1)

instance (e : Ext) : Decidable (LenOk e) := by unfold LenOk; infer_instance

theorem ValidExt.toIF {nbF : Nat} {e : Ext} (h : ValidExt nbF e) : IFExt nbF e := ⟨h.id_lo, h.id_hi, h.fr_lo, h.fr_hi⟩
theorem ValidExt.lenOk {nbF : Nat} {e : Ext} (h : ValidExt nbF e) : LenOk e := ⟨h.len_lo, h.short⟩
theorem validExt_of {nbF : Nat} {e : Ext} (h1 : IFExt nbF e) (h2 : LenOk e) (h3 : e.len ≤ e.data.length) : ValidExt nbF e :=
  ⟨h1.id_lo, h1.id_hi, h1.fr_lo, h1.fr_hi, h2.1, h2.2, h3⟩

/-- What `frame_min_idx[]` / `frame_max_idx[]` satisfy after the first `i` extensions were scanned. -/
structure ScanInv (exts : Array Ext) (nbF i : Nat) (mn mx : List Nat) : Prop where
  lmn : mn.length = nbF
  lmx : mx.length = nbF
  cover : ∀ (j : Nat) (e : Ext), j < i → exts[j]? = some e → ∀ f, e.frame.toNat = f → f < nbF →
    mn.getD f 0 ≤ j ∧ j < mx.getD f 0
  mxle : ∀ f, f < nbF → mx.getD f 0 ≤ i
  first : ∀ f, f < nbF → mn.getD f 0 = exts.size ∨
    (mn.getD f 0 < i ∧ ∃ e, exts[mn.getD f 0]? = some e ∧ e.frame.toNat = f)
  lastp : ∀ f, f < nbF → mx.getD f 0 = 0 ∨ ∃ e, exts[mx.getD f 0 - 1]? = some e ∧ e.frame.toNat = f

theorem getD_set_eq (l : List Nat) (i v : Nat) (h : i < l.length) : (l.set i v).getD i 0 = v := by
  simp [List.getD, h]

theorem getD_set_ne (l : List Nat) (i j v : Nat) (h : i ≠ j) : (l.set i v).getD j 0 = l.getD j 0 := by
  simp [List.getD, List.getElem?_set_ne h]

theorem scanLoop_specIF (exts : Array Ext) (nbF : Nat) (hv : AllIF exts nbF)
    (i : Nat) (mn mx : List Nat) :
    ScanInv exts nbF i mn mx → i ≤ exts.size →
    ∃ mn' mx', scanLoop exts (nbF : Int) i mn mx = .ok (mn', mx') ∧ ScanInv exts nbF exts.size mn' mx' := by
  fun_induction scanLoop exts (nbF : Int) i mn mx with
  | case1 i mn mx hlt hnone =>
    intro _ _
    have : exts.size ≤ i := by simpa using hnone
    omega
  | case2 i mn mx hlt e hsome hbad =>
    intro _ _
    have hve := hv i e hsome
    have := hve.fr_lo; have := hve.fr_hi; omega
  | case3 i mn mx hlt e hsome hfr hbad =>
    intro _ _
    have hve := hv i e hsome
    have := hve.id_lo; have := hve.id_hi; omega
  | case4 i mn mx hlt e hsome hfr hid f ih =>
    intro hI hle
    have hve := hv i e hsome
    have hf : f < nbF := by have := hve.fr_lo; have := hve.fr_hi; omega
    apply ih _ (by omega)
    refine ⟨by simp [hI.lmn], by simp [hI.lmx], ?_, ?_, ?_, ?_⟩
    · intro j e' hj hj' g hg hgn
      by_cases hfg : f = g
      · subst hfg
        rw [getD_set_eq _ _ _ (by rw [hI.lmn]; exact hf), getD_set_eq _ _ _ (by rw [hI.lmx]; exact hf)]
        by_cases hji : j = i
        · subst hji; omega
        · have := hI.cover j e' (by omega) hj' f hg hf
          omega
      · rw [getD_set_ne _ _ _ _ hfg, getD_set_ne _ _ _ _ hfg]
        by_cases hji : j = i
        · subst hji; rw [hsome] at hj'; cases hj'; exact absurd hg hfg
        · exact hI.cover j e' (by omega) hj' g hg hgn
    · intro g hgn
      by_cases hfg : f = g
      · subst hfg
        rw [getD_set_eq _ _ _ (by rw [hI.lmx]; exact hf)]
        have := hI.mxle f hf; omega
      · rw [getD_set_ne _ _ _ _ hfg]
        have := hI.mxle g hgn; omega
    · intro g hgn
      by_cases hfg : f = g
      · subst hfg
        rw [getD_set_eq _ _ _ (by rw [hI.lmn]; exact hf)]
        right
        rcases hI.first f hf with h | ⟨h1, e', h2, h3⟩
        · have : min (mn.getD f 0) i = i := by omega
          rw [this]
          exact ⟨by omega, e, hsome, rfl⟩
        · have : min (mn.getD f 0) i = mn.getD f 0 := by omega
          rw [this]
          exact ⟨by omega, e', h2, h3⟩
      · rw [getD_set_ne _ _ _ _ hfg]
        rcases hI.first g hgn with h | ⟨h1, e', h2, h3⟩
        · exact Or.inl h
        · exact Or.inr ⟨by omega, e', h2, h3⟩
    · intro g hgn
      by_cases hfg : f = g
      · subst hfg
        rw [getD_set_eq _ _ _ (by rw [hI.lmx]; exact hf)]
        right
        have hmxi := hI.mxle f hf
        have : max (mx.getD f 0) (i + 1) = i + 1 := by omega
        rw [this]
        exact ⟨e, by simpa using hsome, rfl⟩
      · rw [getD_set_ne _ _ _ _ hfg]
        exact hI.lastp g hgn
  | case5 i mn mx hge =>
    intro hI hle
    have : i = exts.size := by omega
    subst this
    exact ⟨mn, mx, rfl, hI⟩

theorem scanLoop_spec (exts : Array Ext) (nbF : Nat) (hv : ∀ (j : Nat) (e : Ext), exts[j]? = some e → ValidExt nbF e)
    (i : Nat) (mn mx : List Nat) :
    ScanInv exts nbF i mn mx → i ≤ exts.size →
    ∃ mn' mx', scanLoop exts (nbF : Int) i mn mx = .ok (mn', mx') ∧ ScanInv exts nbF exts.size mn' mx' :=
  scanLoop_specIF exts nbF (fun j e h => (hv j e h).toIF) i mn mx

theorem scanInv_init (exts : Array Ext) (nbF : Nat) :
    ScanInv exts nbF 0 (List.replicate nbF exts.size) (List.replicate nbF 0) := by
  refine ⟨by simp, by simp, ?_, ?_, ?_, ?_⟩
  · intro j e hj; omega
  · intro f hf; simp [List.getD, hf]
  · intro f hf; left; simp [List.getD, hf]
  · intro f hf; left; simp [List.getD, hf]

/-- `e` at index `i` is the first extension of frame `f` in array order. -/
def IsFirst (exts : Array Ext) (f i : Nat) (e : Ext) : Prop :=
  exts[i]? = some e ∧ e.frame.toNat = f ∧ ∀ (j : Nat) (e' : Ext), j < i → exts[j]? = some e' → e'.frame.toNat ≠ f

/-- No extension of the array belongs to frame `g`. -/
def FrameEmpty (exts : Array Ext) (g : Nat) : Prop := ∀ (j : Nat) (e' : Ext), exts[j]? = some e' → e'.frame.toNat ≠ g

/-- The generator finds nothing to repeat: for every frame `f` but the last, the first extension of
    frame `f` cannot be repeated because some later frame `g` is empty or starts with a different
    extension (different ID, or same short ID with a different length).  Holds trivially for
    `nb_frames = 1`, and whenever the last frame carries no extension. -/
def NoRepeat (exts : Array Ext) (nbF : Nat) : Prop :=
  ∀ (f i : Nat) (e : Ext), f + 1 < nbF → IsFirst exts f i e →
    ∃ g, f < g ∧ g < nbF ∧
      (FrameEmpty exts g ∨ ∃ (k : Nat) (x : Ext), IsFirst exts g k x ∧ (x.id ≠ e.id ∨ (x.id < 32 ∧ x.len ≠ e.len)))

theorem IsFirst.unique {exts : Array Ext} {f i i' : Nat} {e e' : Ext} (h : IsFirst exts f i e) (h' : IsFirst exts f i' e') :
    i = i' ∧ e = e' := by
  have hi : i = i' := by
    apply Decidable.byContradiction; intro hne
    rcases Nat.lt_or_gt_of_ne hne with hlt | hgt
    · exact h'.2.2 i e hlt h.1 h.2.1
    · exact h.2.2 i' e' hgt h'.1 h'.2.1
  subst hi
  have := h.1.symm.trans h'.1
  exact ⟨rfl, by simpa using this⟩

theorem scan_first {exts : Array Ext} {nbF : Nat} {mn mx : List Nat} (hI : ScanInv exts nbF exts.size mn mx)
    {g : Nat} (hg : g < nbF) :
    (mn.getD g 0 < mx.getD g 0 → ∃ x, IsFirst exts g (mn.getD g 0) x) ∧
    (¬ mn.getD g 0 < mx.getD g 0 → FrameEmpty exts g) := by
  constructor
  · intro hlt
    have hmx := hI.mxle g hg
    rcases hI.first g hg with h | ⟨h1, x, h2, h3⟩
    · omega
    · refine ⟨x, h2, h3, ?_⟩
      intro j e' hj hj' hfr
      have hjn : j < exts.size := by
        apply Decidable.byContradiction; intro hc
        rw [Array.getElem?_eq_none (by omega)] at hj'; cases hj'
      have := hI.cover j e' hjn hj' g hfr hg
      omega
  · intro hnlt j e' hj' hfr
    have hjn : j < exts.size := by
      apply Decidable.byContradiction; intro hc
      rw [Array.getElem?_eq_none (by omega)] at hj'; cases hj'
    have := hI.cover j e' hjn hj' g hfr hg
    omega

theorem rdN_getD {l : List Nat} {i : Nat} (h : i < l.length) : rdN l i = .ok (l.getD i 0) := by
  simp [rdN, List.getD, h]

/-- The repeat test fails somewhere at or before frame `g0`. -/
theorem canRepeat_false (exts : Array Ext) (nbF : Nat) (hv : ∀ (j : Nat) (e : Ext), exts[j]? = some e → ValidExt nbF e)
    (mn mx : List Nat) (hI : ScanInv exts nbF exts.size mn mx) (e : Ext) (g0 : Nat) (hg0 : g0 < nbF)
    (hw : FrameEmpty exts g0 ∨ ∃ (k : Nat) (x : Ext), IsFirst exts g0 k x ∧ (x.id ≠ e.id ∨ (x.id < 32 ∧ x.len ≠ e.len)))
    (g : Nat) : g ≤ g0 → canRepeat exts mx mn nbF e g = .ok false := by
  fun_induction canRepeat exts mx mn nbF e g with
  | case1 g hlt r m hm hr hle => intro _; rfl
  | case2 g hlt r m hm hr hle x hx hfr => 
    intro hgle
    exfalso
    rw [rdN_getD (by rw [hI.lmn]; exact hlt)] at hr
    rw [rdN_getD (by rw [hI.lmx]; exact hlt)] at hm
    cases hr; cases hm
    obtain ⟨x', hx'⟩ := (scan_first hI hlt).1 (by omega)
    have : x' = x := by
      have h1 := hx'.1
      simp only [rdE] at hx
      rw [h1] at hx
      simpa using hx
    subst this
    have hvx := hv _ _ hx'.1
    have := hvx.fr_lo
    have := hx'.2.1
    omega
  | case3 => intro _; rfl
  | case4 => intro _; rfl
  | case5 g hlt r m hm hr hle x hx hfr hid hlen ih =>
    intro hgle
    apply ih
    -- we passed every test at `g`, so `g` is not the witness frame
    apply Decidable.byContradiction; intro hc
    have hgg : g = g0 := by omega
    subst hgg
    rw [rdN_getD (by rw [hI.lmn]; exact hlt)] at hr
    rw [rdN_getD (by rw [hI.lmx]; exact hlt)] at hm
    cases hr; cases hm
    obtain ⟨x', hx'⟩ := (scan_first hI hlt).1 (by omega)
    have hxx : x' = x := by
      have h1 := hx'.1
      simp only [rdE] at hx
      rw [h1] at hx
      simpa using hx
    subst hxx
    rcases hw with hemp | ⟨k, y, hy, hdiff⟩
    · exact hemp _ _ hx'.1 hx'.2.1
    · obtain ⟨_, rfl⟩ := hx'.unique hy
      rcases hdiff with h | h
      · exact hid h
      · exact hlen h
  | case6 g hlt r m hm hr hle er hx =>
    intro _; exfalso
    rw [rdN_getD (by rw [hI.lmn]; exact hlt)] at hr
    rw [rdN_getD (by rw [hI.lmx]; exact hlt)] at hm
    cases hr; cases hm
    obtain ⟨x', hx'⟩ := (scan_first hI hlt).1 (by omega)
    simp only [rdE, hx'.1] at hx; cases hx
  | case7 g hlt r m hm hr hle hx =>
    intro _; exfalso
    rw [rdN_getD (by rw [hI.lmn]; exact hlt)] at hr
    rw [rdN_getD (by rw [hI.lmx]; exact hlt)] at hm
    cases hr; cases hm
    obtain ⟨x', hx'⟩ := (scan_first hI hlt).1 (by omega)
    simp only [rdE, hx'.1] at hx; cases hx
  | case8 g hlt r m hm hr hle hx =>
    intro _; exfalso
    rw [rdN_getD (by rw [hI.lmn]; exact hlt)] at hr
    rw [rdN_getD (by rw [hI.lmx]; exact hlt)] at hm
    cases hr; cases hm
    obtain ⟨x', hx'⟩ := (scan_first hI hlt).1 (by omega)
    simp only [rdE, hx'.1] at hx; cases hx
  | case9 g hlt hne =>
    intro _; exfalso
    exact hne _ _ (rdN_getD (by rw [hI.lmn]; exact hlt)) (rdN_getD (by rw [hI.lmx]; exact hlt))
  | case10 g hge => intro hgle; omega

end Opus.ExtProofs
