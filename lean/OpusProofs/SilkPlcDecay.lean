import OpusProofs.SilkPlcInv
import Mathlib.Tactic.Linarith
/-
  OpusProofs.SilkPlcDecay — the quantitative decay clause of C09 for the SILK concealment excitation gain: from the
  second lost frame of a burst every concealed frame multiplies `randScale_Q14` by at most 29491/32768 (0.9, the larger
  of the two regenerated `PLC_RAND_ATTENUATE_*_Q15[1]`), so after n such frames it is ≤ 0.9^n of its value.
-/
namespace Opus.SilkPlc
open Opus Opus.SilkParams Opus.Gen.PlcConsts Opus.Gen.SilkPlcCngConsts

/-- From the second lost frame on the table index is 1 and both random-gain tables are ≤ 29491 (0.9 in Q15) there. -/
theorem randGain0_le (lossCnt : Int) (hl : 1 ≤ lossCnt) (voiced : Bool) :
    0 < SilkPlcGains.randGain0 lossCnt voiced ∧ SilkPlcGains.randGain0 lossCnt voiced ≤ 29491 := by
  have h1 : SilkPlcGains.attIdx lossCnt = 1 := by
    unfold SilkPlcGains.attIdx
    have : NB_ATT = 2 := rfl
    rw [this]; omega
  unfold SilkPlcGains.randGain0
  rw [h1]
  cases voiced <;> decide

/-- One sub-frame: `32768 · rs' ≤ rg · rs`. -/
theorem randStep_scaled (rs rg : Int) (hrs : 0 ≤ rs ∧ rs ≤ 32767) (hrg : 0 ≤ rg ∧ rg ≤ 32767) :
    32768 * SilkPlcGains.randStep rs rg ≤ rs * rg := by
  unfold SilkPlcGains.randStep SilkPlcGains.rshift SilkPlcGains.smulbb
  have h1 : SilkPlcGains.toI16 rs = rs := by unfold SilkPlcGains.toI16; omega
  have h2 : SilkPlcGains.toI16 rg = rg := by unfold SilkPlcGains.toI16; omega
  rw [h1, h2, pow15]
  have a : 0 ≤ rs * rg := Int.mul_nonneg hrs.1 hrg.1
  have b : rs * rg ≤ rs * 32767 := Int.mul_le_mul_of_nonneg_left hrg.2 hrs.1
  unfold SilkPlcGains.toI16
  omega

theorem subfrLoop_rs_le (g rg : Int) (hrg : 0 ≤ rg ∧ rg ≤ 32767) : ∀ (n : Nat) (B : List Int) (rs : Int),
    0 ≤ rs ∧ rs ≤ 32767 → 0 ≤ (SilkPlcGains.subfrLoop g rg n (B, rs)).2 ∧ (SilkPlcGains.subfrLoop g rg n (B, rs)).2 ≤ rs
  | 0, _, _, h => by unfold SilkPlcGains.subfrLoop; exact ⟨h.1, Int.le_refl _⟩
  | n + 1, B, rs, h => by
    unfold SilkPlcGains.subfrLoop
    have s := randStep_le rs rg h hrg
    have r := subfrLoop_rs_le g rg hrg n (B.map (SilkPlcGains.harmStep g)) (SilkPlcGains.randStep rs rg) ⟨s.1, by omega⟩
    exact ⟨r.1, by omega⟩

/-- One concealed frame of a loss in progress (`lossCnt ≥ 1`, at least one sub-frame): `32768 · rs' ≤ 29491 · rs`. -/
theorem silkPLC_decay_step (d : Dec) (c : Ctrl) (o : ConcealOut) (h : silkPLC d c true = .ok o)
    (hl : 1 ≤ d.lossCnt) (hn : 0 < d.nbSubfr) (hrs : 0 ≤ d.plc.randScale ∧ d.plc.randScale ≤ 32767) :
    0 ≤ o.dec.plc.randScale ∧ 32768 * o.dec.plc.randScale ≤ 29491 * d.plc.randScale := by
  obtain ⟨o', h1, _, hp, _, _⟩ := silkPLC_lost d c o h
  obtain ⟨ig, hg, _⟩ := plcConceal_gains d _ o' h1
  obtain ⟨rl, rr, rp⟩ := plcRateCheck_gains d
  rw [rl, rr, rp] at hg
  rw [hp]
  have hrs' : o'.dec.plc.randScale =
      (SilkPlcGains.conceal d.lossCnt (decide (d.prevSignalType = TYPE_VOICED)) d.nbSubfr d.plc.ltpCoef d.plc.randScale
        d.plc.prevLtpScale ig).2 := by rw [← hg]
  rw [hrs']
  unfold SilkPlcGains.conceal SilkPlcGains.gainSetup
  have h0 : ¬ d.lossCnt = 0 := by omega
  simp only [h0, ↓reduceIte]
  obtain ⟨n, hnn⟩ : ∃ n, d.nbSubfr = n + 1 := ⟨d.nbSubfr - 1, by omega⟩
  rw [hnn]
  have g := randGain0_le d.lossCnt hl (decide (d.prevSignalType = TYPE_VOICED))
  generalize SilkPlcGains.randGain0 d.lossCnt (decide (d.prevSignalType = TYPE_VOICED)) = rg at g
  unfold SilkPlcGains.subfrLoop
  have s := randStep_le d.plc.randScale rg hrs ⟨by omega, by omega⟩
  have sc := randStep_scaled d.plc.randScale rg hrs ⟨by omega, by omega⟩
  have r := subfrLoop_rs_le (SilkPlcGains.harmGain d.lossCnt) rg ⟨by omega, by omega⟩ n
    (d.plc.ltpCoef.map (SilkPlcGains.harmStep (SilkPlcGains.harmGain d.lossCnt))) _ ⟨s.1, by omega⟩
  refine ⟨r.1, ?_⟩
  have : d.plc.randScale * rg ≤ d.plc.randScale * 29491 := Int.mul_le_mul_of_nonneg_left g.2 hrs.1
  omega

/-- A burst continues: every event is a lost frame with `lossCnt ≥ 1` at a legal decoder configuration. -/
def BurstEv : PlcEv → Prop
  | .frame d _ lost => lost = true ∧ DecCfg d ∧ 1 ≤ d.lossCnt
  | .reset => False

/-- After n further lost frames of a burst: `32768^n · randScale_n ≤ 29491^n · randScale_0` (and the run never aborts,
    the invariant holds). -/
theorem burst_decay : ∀ (evs : List PlcEv) (p : Plc), PlcInv p → (∀ e ∈ evs, BurstEv e) →
    ∃ q, plcRun p evs = some q ∧ PlcInv q ∧ 0 ≤ q.randScale ∧
      (32768 : Int) ^ evs.length * q.randScale ≤ (29491 : Int) ^ evs.length * p.randScale
  | [], p, hi, _ => ⟨p, rfl, hi, hi.rs.1, by simp⟩
  | .reset :: _, _, _, h => absurd (h _ List.mem_cons_self) (by simp [BurstEv])
  | .frame d c lost :: rest, p, hi, h => by
    obtain ⟨hlost, hc, hl⟩ := h _ List.mem_cons_self
    subst hlost
    have hc' : DecCfg { d with plc := p } := ⟨hc.fs, hc.nb, hc.sl, hc.fl, hc.mem, hc.order⟩
    obtain ⟨o, ho, h1, _⟩ := silkPLC_inv { d with plc := p } c true hc' (fun hf => by simp at hf) hi
    have hn : 0 < d.nbSubfr := by rcases hc.nb with n | n <;> omega
    obtain ⟨_, st⟩ := silkPLC_decay_step { d with plc := p } c o ho hl hn hi.rs
    obtain ⟨q, hq, hqi, hq0, hqd⟩ := burst_decay rest o.dec.plc h1 (fun e he => h e (List.mem_cons_of_mem _ he))
    refine ⟨q, ?_, hqi, hq0, ?_⟩
    · unfold plcRun; rw [ho]; exact hq
    · simp only [List.length_cons, pow_succ]
      have e1 : (0 : Int) ≤ 29491 ^ rest.length := by positivity
      have e2 : (0 : Int) ≤ 32768 ^ rest.length := by positivity
      have st' : 32768 * o.dec.plc.randScale ≤ 29491 * p.randScale := st
      nlinarith [Int.mul_le_mul_of_nonneg_left st' e1, Int.mul_le_mul_of_nonneg_left hqd (by omega : (0 : Int) ≤ 32768)]

end Opus.SilkPlc
