import OpusModel.Delay
/-
  OpusProofs.Delay — lemmas about the look-ahead model (`OpusModel/Delay.lean`), core tactics only.
-/
namespace Opus.Delay
open Opus Opus.Gen.Window

theorem validFs_cases {fs : Nat} (h : validFs fs = true) :
    fs = 48000 ∨ fs = 24000 ∨ fs = 16000 ∨ fs = 12000 ∨ fs = 8000 := by
  simp [validFs] at h; omega

theorem validApp_cases {app : Int} (h : validApp app = true) :
    app = APP_VOIP ∨ app = APP_AUDIO ∨ app = APP_RESTRICTED_LOWDELAY := by
  simp [validApp] at h
  rcases h with (h | h) | h
  · exact Or.inl h
  · exact Or.inr (Or.inl h)
  · exact Or.inr (Or.inr h)

/-- The model's constants are the ones of include/opus_defines.h as compiled. -/
theorem app_constants :
    APP_VOIP = applicationVoip ∧ APP_AUDIO = applicationAudio ∧
    APP_RESTRICTED_LOWDELAY = applicationRestrictedLowdelay := by decide

/-- `init` succeeds exactly on the argument combinations opus_encoder_init accepts. -/
theorem init_ok_iff (fs ch : Nat) (app : Int) :
    (∃ st, init fs ch app = .ok st) ↔ (validFs fs = true ∧ (ch = 1 ∨ ch = 2) ∧ validApp app = true) := by
  unfold init
  by_cases h1 : validFs fs = true <;> by_cases h2 : validApp app = true <;>
    by_cases h3 : ch = 1 <;> by_cases h4 : ch = 2 <;> simp [h1, h2, h3, h4]

theorem init_err (fs ch : Nat) (app : Int)
    (h : ¬ (validFs fs = true ∧ (ch = 1 ∨ ch = 2) ∧ validApp app = true)) :
    init fs ch app = .err .badArg := by
  unfold init
  by_cases h1 : validFs fs = true <;> by_cases h2 : validApp app = true <;>
    by_cases h3 : ch = 1 <;> by_cases h4 : ch = 2 <;> simp_all

/-- Fields of a successfully initialised encoder. -/
theorem init_fields {fs ch : Nat} {app : Int} {st : Enc} (h : init fs ch app = .ok st) :
    st.fs = fs ∧ st.channels = ch ∧ st.application = app ∧ st.delayCompensation = fs / 250 ∧
    st.encoderBuffer = fs / 100 ∧ st.first = true ∧ validFs fs = true ∧ validApp app = true := by
  unfold init at h
  split at h
  · cases h
  · next hc =>
    injection h with h; subst h
    have : validFs fs = true ∧ validApp app = true := by
      by_cases h1 : validFs fs = true <;> by_cases h2 : validApp app = true <;> simp_all
    exact ⟨rfl, rfl, rfl, rfl, rfl, rfl, this.1, this.2⟩

/-- State invariant: the stored compensation is Fs/250 for a valid rate, the application is a valid one. -/
def Inv (st : Enc) : Prop :=
  validFs st.fs = true ∧ validApp st.application = true ∧ st.delayCompensation = st.fs / 250 ∧
  st.encoderBuffer = st.fs / 100

theorem init_inv {fs ch : Nat} {app : Int} {st : Enc} (h : init fs ch app = .ok st) : Inv st := by
  obtain ⟨a, _, c, d, e, _, g, i⟩ := init_fields h
  exact ⟨a ▸ g, c ▸ i, by rw [d, a], by rw [e, a]⟩

theorem setApplication_ok {st st' : Enc} {v : Int} (h : setApplication st v = .ok st') :
    st' = { st with application := v } ∧ validApp v = true ∧ (st.first = true ∨ st.application = v) := by
  unfold setApplication at h
  split at h
  · cases h
  · next hc =>
    injection h with h
    refine ⟨h.symm, ?_, ?_⟩
    · by_cases h2 : validApp v = true <;> simp_all
    · by_cases h3 : st.first = true
      · exact Or.inl h3
      · right
        by_cases h4 : st.application = v
        · exact h4
        · simp_all

theorem setApplication_inv {st st' : Enc} {v : Int} (hi : Inv st) (h : setApplication st v = .ok st') : Inv st' := by
  obtain ⟨e, hv, _⟩ := setApplication_ok h
  subst e
  exact ⟨hi.1, hv, hi.2.2.1, hi.2.2.2⟩

theorem afterEncode_inv {st : Enc} (hi : Inv st) : Inv (afterEncode st) := hi
theorem resetState_inv {st : Enc} (hi : Inv st) : Inv (resetState st) := hi

/-- Under the invariant the reported look-ahead is the closed form of the current (Fs, application). -/
theorem getLookahead_of_inv {st : Enc} (hi : Inv st) : getLookahead st = lookahead st.fs st.application := by
  unfold getLookahead lookahead
  rw [hi.2.2.1]
  by_cases h : st.application = APP_RESTRICTED_LOWDELAY <;> simp [h]

/-- Once a frame has been encoded the application — hence the look-ahead — can no longer change. -/
theorem setApplication_after_first {st st' : Enc} {v : Int} (hf : st.first = false)
    (h : setApplication st v = .ok st') : getLookahead st' = getLookahead st := by
  obtain ⟨e, _, h3⟩ := setApplication_ok h
  rcases h3 with h3 | h3
  · rw [hf] at h3; cases h3
  · subst e; subst h3; rfl

/-- Client operations that can touch the look-ahead inputs. -/
inductive Op where
  | setApp (v : Int)
  | encode
  | reset
  deriving Repr

/-- A rejected ctl leaves the state unchanged (the C code `break`s before any store). -/
def step (st : Enc) : Op → Enc
  | .setApp v => match setApplication st v with
    | .ok st' => st'
    | _ => st
  | .encode => afterEncode st
  | .reset => resetState st

def run (st : Enc) (ops : List Op) : Enc := ops.foldl step st

theorem step_inv {st : Enc} (hi : Inv st) (op : Op) : Inv (step st op) := by
  cases op with
  | setApp v =>
    show Inv (match setApplication st v with | .ok st' => st' | _ => st)
    split
    · next st' h => exact setApplication_inv hi h
    · exact hi
  | encode => exact hi
  | reset => exact hi

theorem run_inv {st : Enc} (hi : Inv st) (ops : List Op) : Inv (run st ops) := by
  induction ops generalizing st with
  | nil => exact hi
  | cons op ops ih => exact ih (step_inv hi op)

theorem step_fs (st : Enc) (op : Op) : (step st op).fs = st.fs := by
  cases op with
  | setApp v =>
    show (match setApplication st v with | .ok st' => st' | _ => st).fs = st.fs
    split
    · next st' h => rw [(setApplication_ok h).1]
    · rfl
  | encode => rfl
  | reset => rfl

theorem run_fs (st : Enc) (ops : List Op) : (run st ops).fs = st.fs := by
  induction ops generalizing st with
  | nil => rfl
  | cons op ops ih => exact (ih (step st op)).trans (step_fs st op)

/-- The closed form in time units: exactly 2.5 ms (low-delay) or 6.5 ms, no rounding at any API rate. -/
theorem lookahead_ms {fs : Nat} (h : validFs fs = true) (app : Int) :
    lookahead fs app * 2000 = fs * (if app = APP_RESTRICTED_LOWDELAY then 5 else 13) := by
  unfold lookahead
  rcases validFs_cases h with rfl | rfl | rfl | rfl | rfl <;>
    by_cases ha : app = APP_RESTRICTED_LOWDELAY <;> simp [ha]

/-- Look-ahead = MDCT overlap of the CELT layer at the API rate + the encoder's delay buffer. -/
theorem lookahead_decomp {st : Enc} (hi : Inv st) :
    getLookahead st = celtOverlapAtFs st.fs + totalBuffer st := by
  unfold getLookahead totalBuffer celtOverlapAtFs
  have : st.fs / 400 = overlap / (48000 / st.fs) := by
    rcases validFs_cases hi.1 with h | h | h | h | h <;> rw [h] <;> decide
  rw [this]
  by_cases h : st.application = APP_RESTRICTED_LOWDELAY <;> simp [h]

/-- The model's `init` reproduces the struct fields read from real encoders (regenerated `encInit`). -/
theorem init_matches_code :
    ∀ e ∈ encInit, ∀ ch ∈ [1, 2], ∀ app ∈ allApps,
      (init e.1 ch app).isOk = true ∧
      ∀ st, init e.1 ch app = .ok st → st.delayCompensation = e.2.1 ∧ st.encoderBuffer = e.2.2 := by
  intro e he ch hch app happ
  have hfs : validFs e.1 = true ∧ e.2.1 = e.1 / 250 ∧ e.2.2 = e.1 / 100 := by
    revert e; decide
  have hc : ch = 1 ∨ ch = 2 := by simpa using hch
  have ha : validApp app = true := by revert app; decide
  obtain ⟨st, hst⟩ := (init_ok_iff e.1 ch app).mpr ⟨hfs.1, hc, ha⟩
  refine ⟨by rw [hst]; rfl, ?_⟩
  intro st' hst'
  obtain ⟨_, _, _, d, eb, _⟩ := init_fields hst'
  rw [d, eb, hfs.2.1, hfs.2.2]; exact ⟨rfl, rfl⟩

/-- The model's table for every (Fs, application) equals what OPUS_GET_LOOKAHEAD answered on real encoders when
    the tables were regenerated (`lookaheadTable`), entry by entry. -/
theorem table_matches_code :
    lookaheadTable = allFs.flatMap fun fs => allApps.map fun app =>
      (fs, app, ((init fs 1 app).bind fun st => Res.ok (getLookahead st : Int)) |> fun r =>
        match r with | .ok v => v | _ => -1) := by
  decide

end Opus.Delay
