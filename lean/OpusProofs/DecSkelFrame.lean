import OpusProofs.DecSkelSilk
/-
  OpusProofs.DecSkelFrame — `opus_decode_frame` from :354 on (`frameBody`): redundancy parse,
  CELT stage and cross-fades, and the whole body under the oracle contracts.
-/
namespace Opus.DecSkel
open Opus

/-- What the redundancy parse guarantees. -/
structure RedOk (len : Int) (r : Run) (x : Red × Run) : Prop where
  st : x.2.st = r.st
  log : x.2.log = r.log
  len0 : 0 ≤ x.1.len
  lenle : x.1.len ≤ len
  red : x.1.redundancy ≠ 0 → 0 ≤ x.1.bytes ∧ x.1.len + x.1.bytes = len

theorem redFinish_spec (redundancy c2s bytes len tell3 : Int) (r r3 : Run) (hst : r3.st = r.st) (hlog : r3.log = r.log)
    (hl : 0 ≤ len) (ht : 1 ≤ tell3) (hb : 0 ≤ bytes) : RedOk len r (redFinish redundancy c2s bytes len tell3 r3) := by
  unfold redFinish
  split
  · exact ⟨hst, hlog, by simp, by simpa using hl, by simp⟩
  · exact ⟨hst, hlog, by simp; omega, by simp; omega, by intro _; simp; omega⟩

theorem redTail_spec {o : Oracle} (ho : OracleOk o) (mode len redundancy tell1 : Int) (r r1 : Run) (hst : r1.st = r.st)
    (hlog : r1.log = r.log) (hl : 0 ≤ len) (ht : 1 ≤ tell1) (hcond : mode ≠ MODE_HYBRID → tell1 + 16 ≤ 8 * len) :
    RedOk len r (redTail o mode len redundancy tell1 r1) := by
  unfold redTail
  have hb := ho.bit r1.k 1 tell1 (by decide)
  split
  · have hu := ho.uint r1.tick.k 256 (o.bit r1.k 1 tell1).2 (by decide)
    exact redFinish_spec _ _ _ _ _ r _ hst hlog hl (by omega) (by omega)
  · rename_i hm
    have := hcond hm
    exact redFinish_spec _ _ _ _ _ r _ hst hlog hl (by omega) (by omega)

theorem parseRedundancy_spec {o : Oracle} (ho : OracleOk o) (mode len tell : Int) (r : Run) (hl : 0 ≤ len) (ht : 1 ≤ tell) :
    RedOk len r (parseRedundancy o mode len tell r) := by
  unfold parseRedundancy
  have hb := ho.bit r.k 12 tell (by decide)
  by_cases hm : mode = MODE_HYBRID
  · simp only [hm, ↓reduceIte]
    split
    · split
      · exact redTail_spec ho _ _ _ _ r _ rfl rfl hl (by omega) (by intro h; exact absurd rfl h)
      · exact ⟨rfl, rfl, hl, by simp, by simp⟩
    · exact ⟨rfl, rfl, hl, by simp, by simp⟩
  · simp only [hm, ↓reduceIte]
    split
    · exact redTail_spec ho _ _ _ _ r _ rfl rfl hl ht (by intro _; omega)
    · exact ⟨rfl, rfl, hl, by simp, by simp⟩

theorem redStage_spec {o : Oracle} (ho : OracleOk o) (b : Body) (tell : Int) (r : Run) (hl : 0 ≤ b.len) (ht : 1 ≤ tell) :
    RedOk b.len r (redStage o b tell r) ∧
    ((redStage o b tell r).1.redundancy ≠ 0 → b.mode ≠ MODE_CELT ∧ b.data.isSome) := by
  unfold redStage
  split
  · rename_i h
    exact ⟨parseRedundancy_spec ho _ _ _ r hl ht, fun _ => ⟨h.2.1, h.2.2⟩⟩
  · exact ⟨⟨rfl, rfl, hl, by simp, by simp⟩, by simp⟩

/-! ### pointer arithmetic -/

theorem Ptr.room_of_le {p : Ptr} {n m : Int} (h : p.room n) (h0 : 0 ≤ m) (hle : m ≤ n) : p.room m := by
  obtain ⟨a, b, c⟩ := h; exact ⟨a, h0, by omega⟩

theorem Ptr.room_add {p : Ptr} {n k m : Int} (h : p.room n) (hk : 0 ≤ k) (hm : 0 ≤ m) (hle : k + m ≤ n) :
    (p.add k).room m := by
  obtain ⟨a, b, c⟩ := h
  refine ⟨by simp; omega, hm, by simp; omega⟩

theorem Good.of_eq {st0 : DecState} {cap0 : Int} {r r' : Run} (h : Good st0 cap0 r) (e1 : r'.st = r.st)
    (e2 : r'.log = r.log) : Good st0 cap0 r' :=
  ⟨by rw [e1]; exact h.inv, by rw [e1]; exact h.fs, by rw [e1]; exact h.ch, by unfold LogGood; rw [e2]; exact h.log⟩

theorem evGood_acc {st0 : DecState} {cap0 : Int} {site : Nat} {p : Ptr} {n : Int} (h : p.room n) (hc : PtrCapOk st0 cap0 p) :
    EvGood st0 cap0 (.acc site p n) :=
  ⟨h, by intro q hq; simp only [Ev.ptr?, Option.some.injEq] at hq; subst hq; exact hc⟩

/-! ### CELT calls -/

theorem celtCall_spec {o : Oracle} (ho : OracleOk o) {st0 : DecState} {cap0 : Int} {a : CeltArgs} {p : Ptr} {r : Run}
    (hg : Good st0 cap0 r) (ha : CeltArgsOk a) (hroom : p.room (a.frame_size * a.channels)) (hcap : PtrCapOk st0 cap0 p)
    (hav : a.len ≤ a.avail) (hoff : ∀ off, a.dataOff = some off → 0 ≤ off) :
    (celtCall o a p r).1 = a.frame_size ∧ Good st0 cap0 (celtCall o a p r).2 ∧ (celtCall o a p r).2.st = r.st := by
  have hc := ho.celt r.k a ha
  unfold celtCall
  refine ⟨hc, ?_, rfl⟩
  apply Good.push hg.tick
  refine ⟨⟨ha, hc, hroom, hav, hoff⟩, ?_⟩
  intro q hq; simp only [Ev.ptr?, Option.some.injEq] at hq; subst hq; exact hcap

/-- What the CELT stage needs of the frame and of the redundancy parse. -/
structure CeltPre (u : Int) (b : Body) (red : Red) : Prop where
  mode : b.mode = MODE_SILK ∨ b.mode = MODE_HYBRID ∨ b.mode = MODE_CELT
  aud : b.audiosize = u ∨ b.audiosize = 2 * u ∨ b.audiosize = 3 * u ∨ b.audiosize = 4 * u ∨
        b.audiosize = 8 * u ∨ b.audiosize = 16 * u ∨ b.audiosize = 24 * u
  audCelt : b.mode ≠ MODE_SILK → (b.audiosize = u ∨ b.audiosize = 2 * u ∨ b.audiosize = 4 * u ∨ b.audiosize = 8 * u)
  len : 0 ≤ red.len ∧ red.len ≤ b.len ∧ b.len ≤ 1275
  red : red.redundancy ≠ 0 → 0 ≤ red.bytes ∧ red.len + red.bytes = b.len ∧ 4 * u ≤ b.audiosize
  off : ∀ off, b.data = some off → 0 ≤ off

theorem redBuf_cap {st0 : DecState} {cap0 : Int} {st : DecState} {red : Red} (e1 : st.Fs = st0.Fs)
    (e2 : st.channels = st0.channels) (hr : red.redundancy ≠ 0) : PtrCapOk st0 cap0 (redBuf st red) := by
  simp [PtrCapOk, redBuf, F5, F10, F20, e1, e2, hr]

theorem transBuf_cap {st0 : DecState} {cap0 : Int} {st : DecState} (e1 : st.Fs = st0.Fs)
    (e2 : st.channels = st0.channels) : PtrCapOk st0 cap0 (transBuf st) := by
  simp [PtrCapOk, transBuf, F5, F10, F20, e1, e2]

theorem redBuf_room {st : DecState} {red : Red} {u : Int} (hu : Units st u) (hch : st.channels = 1 ∨ st.channels = 2)
    (hr : red.redundancy ≠ 0) : (redBuf st red).room (2 * u * st.channels) := by
  have := hu.pos
  simp only [Ptr.room, redBuf, hr, ne_eq, not_false_eq_true, ↓reduceIte, hu.f5]
  rcases hch with h | h <;> rw [h] <;> omega

theorem transBuf_room {st : DecState} {u : Int} (hu : Units st u) (hch : st.channels = 1 ∨ st.channels = 2) :
    (transBuf st).room (2 * u * st.channels) := by
  have := hu.pos
  simp only [Ptr.room, transBuf, hu.f5]
  rcases hch with h | h <;> rw [h] <;> omega

/-- One of the two redundancy-frame CELT calls. -/
theorem redCall_spec {o : Oracle} (ho : OracleOk o) {st0 : DecState} {cap0 : Int} {b : Body} {red : Red} {r : Run} {u : Int}
    (site : Nat) (hg : Good st0 cap0 r) (hu : Units r.st u) (hp : CeltPre u b red) (hr : red.redundancy ≠ 0) :
    Good st0 cap0 (celtCall o (redArgs r.st b red site) (redBuf r.st red) r).2 ∧
    (celtCall o (redArgs r.st b red site) (redBuf r.st red) r).2.st = r.st := by
  obtain ⟨hb0, hsum, _⟩ := hp.red hr
  have hch := hg.inv.ch
  have hupos := hu.pos
  have hlen := hp.len
  have hargs : CeltArgsOk (redArgs r.st b red site) := by
    refine ⟨hu.fsOk, ?_, hb0, ?_, hch⟩
    · simp only [redArgs, hu.f5, hu.u200, hu.u400, hu.u100, hu.u50]; simp
    · simp only [redArgs]; omega
  have hroom : (redBuf r.st red).room ((redArgs r.st b red site).frame_size * (redArgs r.st b red site).channels) := by
    simp only [redArgs, hu.f5]; exact redBuf_room hu hch hr
  have hav : (redArgs r.st b red site).len ≤ (redArgs r.st b red site).avail := by
    simp only [redArgs]; omega
  have hoff : ∀ off, (redArgs r.st b red site).dataOff = some off → 0 ≤ off := by
    intro off hoff
    simp only [redArgs, Option.map_eq_some_iff] at hoff
    obtain ⟨x, hx, rfl⟩ := hoff
    have := hp.off x hx; omega
  have := celtCall_spec ho hg hargs hroom (redBuf_cap hg.fs hg.ch hr) hav hoff
  exact ⟨this.2.1, this.2.2⟩

theorem stepRedC2S_spec {o : Oracle} (ho : OracleOk o) {st0 : DecState} {cap0 : Int} {b : Body} {red : Red} {r : Run} {u : Int}
    (hg : Good st0 cap0 r) (hu : Units r.st u) (hp : CeltPre u b red) :
    Good st0 cap0 (stepRedC2S o b red r) ∧ (stepRedC2S o b red r).st = r.st := by
  unfold stepRedC2S
  split
  · rename_i h; exact redCall_spec ho 0 hg hu hp h.1
  · exact ⟨hg, rfl⟩

/-- Arguments of the main CELT call (:573). -/
def mainArgs (st : DecState) (b : Body) (red : Red) : CeltArgs :=
  { fs := st.Fs, site := 1, dataOff := if b.fec ≠ 0 then none else b.data, avail := b.len, len := red.len,
    frame_size := min (F20 st) b.audiosize, withDec := true, accum := if b.mode ≠ MODE_CELT then 1 else 0,
    channels := st.channels }

/-- Arguments of the silence-frame CELT call (:591). -/
def silenceArgs (st : DecState) (b : Body) : CeltArgs :=
  { fs := st.Fs, site := 2, dataOff := none, avail := 2, len := 2, frame_size := F2_5 st, withDec := false,
    accum := if b.mode ≠ MODE_CELT then 1 else 0, channels := st.channels }

theorem stepMainCelt_eq (o : Oracle) (b : Body) (red : Red) (r : Run) :
    stepMainCelt o b red r =
      if b.mode ≠ MODE_SILK then celtCall o (mainArgs r.st b red) b.pcm r
      else if r.st.prev_mode = MODE_HYBRID ∧ ¬(red.redundancy ≠ 0 ∧ red.celt_to_silk ≠ 0 ∧ r.st.prev_redundancy ≠ 0) then
        (0, (celtCall o (silenceArgs r.st b) b.pcm r).2)
      else (0, r) := rfl

theorem stepMainCelt_spec {o : Oracle} (ho : OracleOk o) {st0 : DecState} {cap0 : Int} {b : Body} {red : Red} {r : Run} {u : Int}
    (hg : Good st0 cap0 r) (hu : Units r.st u) (hp : CeltPre u b red)
    (hroom : b.pcm.room (b.audiosize * r.st.channels)) (hcap : PtrCapOk st0 cap0 b.pcm) :
    0 ≤ (stepMainCelt o b red r).1 ∧ Good st0 cap0 (stepMainCelt o b red r).2 ∧ (stepMainCelt o b red r).2.st = r.st := by
  have hch := hg.inv.ch
  have hupos := hu.pos
  have hlen := hp.len
  rw [stepMainCelt_eq]
  by_cases hm : b.mode ≠ MODE_SILK
  · simp only [hm, ne_eq, not_false_eq_true, ↓reduceIte]
    have haud := hp.audCelt hm
    have hargs : CeltArgsOk (mainArgs r.st b red) := by
      refine ⟨hu.fsOk, ?_, by simp only [mainArgs]; omega, by simp only [mainArgs]; omega, hch⟩
      simp only [mainArgs, hu.f20, hu.u200, hu.u400, hu.u100, hu.u50]; omega
    have hrm : b.pcm.room ((mainArgs r.st b red).frame_size * (mainArgs r.st b red).channels) := by
      simp only [mainArgs, hu.f20]
      apply Ptr.room_of_le hroom <;> rcases hch with h | h <;> rw [h] <;> omega
    have hoff : ∀ off, (mainArgs r.st b red).dataOff = some off → 0 ≤ off := by
      intro off hoff
      simp only [mainArgs] at hoff
      split at hoff
      · cases hoff
      · exact hp.off off hoff
    have := celtCall_spec ho hg hargs hrm hcap (by simp only [mainArgs]; omega) hoff
    refine ⟨?_, this.2.1, this.2.2⟩
    rw [this.1]; simp only [mainArgs, hu.f20]; omega
  · simp only [hm, ↓reduceIte]
    split
    · have hargs : CeltArgsOk (silenceArgs r.st b) := by
        refine ⟨hu.fsOk, ?_, by simp [silenceArgs], by simp [silenceArgs], hch⟩
        simp only [silenceArgs, hu.f25, hu.u200, hu.u400, hu.u100, hu.u50]; simp
      have hrm : b.pcm.room ((silenceArgs r.st b).frame_size * (silenceArgs r.st b).channels) := by
        simp only [silenceArgs, hu.f25]
        apply Ptr.room_of_le hroom <;> rcases hch with h | h <;> rw [h] <;>
          rcases hp.aud with h | h | h | h | h | h | h <;> omega
      have := celtCall_spec ho hg hargs hrm hcap (by simp [silenceArgs]) (by intro off hoff; cases hoff)
      exact ⟨Int.le_refl 0, this.2.1, this.2.2⟩
    · exact ⟨Int.le_refl 0, hg, rfl⟩

theorem stepRedS2C_spec {o : Oracle} (ho : OracleOk o) {st0 : DecState} {cap0 : Int} {b : Body} {red : Red} {r : Run} {u : Int}
    (hg : Good st0 cap0 r) (hu : Units r.st u) (hp : CeltPre u b red)
    (hroom : b.pcm.room (b.audiosize * r.st.channels)) (hcap : PtrCapOk st0 cap0 b.pcm) :
    Good st0 cap0 (stepRedS2C o b red r) ∧ (stepRedS2C o b red r).st = r.st := by
  have hch := hg.inv.ch
  have hupos := hu.pos
  unfold stepRedS2C
  dsimp only
  split
  · rename_i h
    obtain ⟨hg1, hst1⟩ := redCall_spec ho 3 hg hu hp h.1
    obtain ⟨_, _, h4u⟩ := hp.red h.1
    refine ⟨?_, ?_⟩
    · apply Good.push (Good.push hg1 _) _
      · apply evGood_acc _ (hcap.add _)
        simp only [hu.f25]
        apply Ptr.room_add hroom
        · rcases hch with h | h <;> rw [h] <;> omega
        · rcases hch with h | h <;> rw [h] <;> omega
        · rcases hch with h | h <;> rw [h] <;> omega
      · apply evGood_acc _ ((redBuf_cap hg.fs hg.ch h.1).add _)
        have hrb := redBuf_room hu hch h.1
        simp only [hu.f25]
        apply Ptr.room_add hrb <;> rcases hch with h | h <;> rw [h] <;> omega
    · simp only [Run.push_st]; exact hst1
  · exact ⟨hg, rfl⟩

theorem stepRedCopy_spec {st0 : DecState} {cap0 : Int} {b : Body} {red : Red} {r : Run} {u : Int}
    (hg : Good st0 cap0 r) (hu : Units r.st u) (hp : CeltPre u b red)
    (hroom : b.pcm.room (b.audiosize * r.st.channels)) (hcap : PtrCapOk st0 cap0 b.pcm) :
    Good st0 cap0 (stepRedCopy b red r) ∧ (stepRedCopy b red r).st = r.st := by
  have hch := hg.inv.ch
  have hupos := hu.pos
  unfold stepRedCopy
  dsimp only
  split
  · rename_i h
    obtain ⟨_, _, h4u⟩ := hp.red h.1
    refine ⟨?_, rfl⟩
    apply Good.push (Good.push hg _) _
    · apply evGood_acc _ (redBuf_cap hg.fs hg.ch h.1)
      simp only [hu.f25]
      apply Ptr.room_of_le (redBuf_room hu hch h.1) <;> rcases hch with h | h <;> rw [h] <;> omega
    · apply evGood_acc _ hcap
      simp only [hu.f25]
      apply Ptr.room_of_le hroom <;> rcases hch with h | h <;> rw [h] <;> omega
  · exact ⟨hg, rfl⟩

theorem stepTransFade_spec {st0 : DecState} {cap0 : Int} {b : Body} {red : Red} {tr : Bool} {r : Run} {u : Int}
    (hg : Good st0 cap0 r) (hu : Units r.st u) (hp : CeltPre u b red)
    (hroom : b.pcm.room (b.audiosize * r.st.channels)) (hcap : PtrCapOk st0 cap0 b.pcm) :
    Good st0 cap0 (stepTransFade b tr r) ∧ (stepTransFade b tr r).st = r.st := by
  have hch := hg.inv.ch
  have hupos := hu.pos
  have htb := transBuf_room hu hch
  unfold stepTransFade
  dsimp only
  split
  · split
    · rename_i h5
      rw [hu.f5] at h5
      refine ⟨?_, rfl⟩
      apply Good.push (Good.push hg _) _
      · apply evGood_acc _ (transBuf_cap hg.fs hg.ch)
        simp only [hu.f25]
        apply Ptr.room_of_le htb <;> rcases hch with h | h <;> rw [h] <;> omega
      · apply evGood_acc _ hcap
        simp only [hu.f25]
        apply Ptr.room_of_le hroom <;> rcases hch with h | h <;> rw [h] <;> omega
    · refine ⟨?_, rfl⟩
      apply Good.push (Good.push hg _) _
      · apply evGood_acc _ (transBuf_cap hg.fs hg.ch)
        simp only [hu.f25]
        apply Ptr.room_of_le htb <;> rcases hch with h | h <;> rw [h] <;> omega
      · apply evGood_acc _ hcap
        simp only [hu.f25]
        apply Ptr.room_of_le hroom <;> rcases hch with h | h <;> rw [h] <;>
          rcases hp.aud with h | h | h | h | h | h | h <;> omega
  · exact ⟨hg, rfl⟩

theorem stepGain_spec {st0 : DecState} {cap0 : Int} {b : Body} {r : Run}
    (hg : Good st0 cap0 r) (hroom : b.pcm.room (b.audiosize * r.st.channels)) (hcap : PtrCapOk st0 cap0 b.pcm) :
    Good st0 cap0 (stepGain b r) ∧ (stepGain b r).st = r.st := by
  unfold stepGain
  split
  · exact ⟨hg.push (evGood_acc hroom hcap), rfl⟩
  · exact ⟨hg, rfl⟩

/-- The CELT stage and the output cross-fades: returns `audiosize`, every access in bounds. -/
theorem celtStage_spec {o : Oracle} (ho : OracleOk o) {st0 : DecState} {cap0 : Int} {b : Body} {red : Red} {tr : Bool}
    {r : Run} {u : Int} (hg : Good st0 cap0 r) (hu : Units r.st u) (hp : CeltPre u b red)
    (hroom : b.pcm.room (b.audiosize * r.st.channels)) (hcap : PtrCapOk st0 cap0 b.pcm)
    (hready : b.mode ≠ MODE_CELT → r.st.dc.internalSampleRate ≠ 0 ∧ r.st.dc.nChannelsInternal ≠ 0) :
    ∃ r', celtStage o b red tr r = (.ret b.audiosize, r') ∧ Good st0 cap0 r' ∧ FrameRel r.st r'.st ∧
      r'.st.prev_mode = b.mode := by
  obtain ⟨g1, s1⟩ := stepRedC2S_spec ho hg hu hp
  have hu1 : Units (stepRedC2S o b red r).st u := by rw [s1]; exact hu
  have room1 : b.pcm.room (b.audiosize * (stepRedC2S o b red r).st.channels) := by rw [s1]; exact hroom
  obtain ⟨m0, g2, s2⟩ := stepMainCelt_spec ho g1 hu1 hp room1 hcap
  have hu2 : Units (stepMainCelt o b red (stepRedC2S o b red r)).2.st u := by rw [s2]; exact hu1
  have room2 : b.pcm.room (b.audiosize * (stepMainCelt o b red (stepRedC2S o b red r)).2.st.channels) := by
    rw [s2]; exact room1
  obtain ⟨g3, s3⟩ := stepRedS2C_spec ho g2 hu2 hp room2 hcap
  have hu3 : Units (stepRedS2C o b red (stepMainCelt o b red (stepRedC2S o b red r)).2).st u := by rw [s3]; exact hu2
  have room3 : b.pcm.room (b.audiosize * (stepRedS2C o b red (stepMainCelt o b red (stepRedC2S o b red r)).2).st.channels) := by
    rw [s3]; exact room2
  obtain ⟨g4, s4⟩ := stepRedCopy_spec g3 hu3 hp room3 hcap
  have hu4 : Units (stepRedCopy b red (stepRedS2C o b red (stepMainCelt o b red (stepRedC2S o b red r)).2)).st u := by
    rw [s4]; exact hu3
  have room4 : b.pcm.room (b.audiosize *
      (stepRedCopy b red (stepRedS2C o b red (stepMainCelt o b red (stepRedC2S o b red r)).2)).st.channels) := by
    rw [s4]; exact room3
  obtain ⟨g5, s5⟩ := stepTransFade_spec (tr := tr) g4 hu4 hp room4 hcap
  have room5 : b.pcm.room (b.audiosize * (stepTransFade b tr
      (stepRedCopy b red (stepRedS2C o b red (stepMainCelt o b red (stepRedC2S o b red r)).2))).st.channels) := by
    rw [s5]; exact room4
  obtain ⟨g6, s6⟩ := stepGain_spec g5 room5 hcap
  have hst6 : (stepGain b (stepTransFade b tr
      (stepRedCopy b red (stepRedS2C o b red (stepMainCelt o b red (stepRedC2S o b red r)).2)))).st = r.st := by
    rw [s6, s5, s4, s3, s2, s1]
  unfold celtStage
  have hm : ¬ (stepMainCelt o b red (stepRedC2S o b red r)).1 < 0 := by omega
  simp only [hm, ↓reduceIte]
  refine ⟨_, rfl, ?_, ?_, ?_⟩
  · unfold stepFinish
    refine ⟨?_, ?_, ?_, ?_⟩
    · simp only [Run.setSt_st, hst6]
      have hinv := hg.inv
      refine { fs := hinv.fs, ch := hinv.ch, api := hinv.api, nca := hinv.nca, isr := hinv.isr, nci := hinv.nci,
               ps := hinv.ps, sch := hinv.sch, toc := hinv.toc, pm := ?_, pr := ?_, silkReady := ?_,
               gain := hinv.gain, lpd := hinv.lpd }
      · have := hp.mode; simp only; omega
      · simp only; split <;> simp
      · intro hm'
        apply hready
        simp only at hm'
        rcases hm' with h | h <;> rw [h] <;> decide
    · simp only [Run.setSt_st, hst6]; exact hg.fs
    · simp only [Run.setSt_st, hst6]; exact hg.ch
    · simp only [LogGood_setSt]; exact g6.log
  · unfold stepFinish
    simp only [Run.setSt_st, hst6]
    constructor <;> first | rfl | exact id
  · unfold stepFinish
    simp only [Run.setSt_st]

/-! ### the whole body -/

/-- What `frameBody` needs of its inputs (established by `opus_decode_frame`'s prologue). -/
structure BodyOk (st : DecState) (u : Int) (b : Body) : Prop where
  mode : b.mode = MODE_SILK ∨ b.mode = MODE_HYBRID ∨ b.mode = MODE_CELT
  aud : b.audiosize = u ∨ b.audiosize = 2 * u ∨ b.audiosize = 3 * u ∨ b.audiosize = 4 * u ∨
        b.audiosize = 8 * u ∨ b.audiosize = 16 * u ∨ b.audiosize = 24 * u
  audCelt : b.mode ≠ MODE_SILK → (b.audiosize = u ∨ b.audiosize = 2 * u ∨ b.audiosize = 4 * u ∨ b.audiosize = 8 * u)
  fits : b.audiosize ≤ b.frame_size
  len : 0 ≤ b.len ∧ b.len ≤ 1275
  isData : b.data.isSome → (∀ off, b.data = some off → 0 ≤ off) ∧
    (b.mode = MODE_SILK → (b.bandwidth = BW_NB ∨ b.bandwidth = BW_MB ∨ b.bandwidth = BW_WB)) ∧
    endbandOk b.bandwidth = true ∧ (b.mode ≠ MODE_CELT → 4 * u ≤ b.audiosize)
  isNull : b.data.isNone → b.bandwidth = 0 ∧
    (b.mode ≠ MODE_CELT → st.dc.internalSampleRate ≠ 0 ∧ st.dc.nChannelsInternal ≠ 0)

/-- Contract of the recursive concealment call used for mode transitions (:376 / :514). -/
def TransOk (st0 : DecState) (cap0 : Int) (u : Int) (trans : Ptr → Int → Run → Res') : Prop :=
  ∀ (r : Run) (n : Int), Good st0 cap0 r → Units r.st u → (n = u ∨ n = 2 * u) →
    ∃ v r', trans (transBuf r.st) n r = (.ret v, r') ∧ Good st0 cap0 r' ∧ FrameRel r.st r'.st

theorem isSome_or_isNone {α : Type} (x : Option α) : x.isSome = true ∨ x.isNone = true := by
  cases x <;> simp

theorem wantTransition_data {st : DecState} {b : Body} (h : wantTransition st b = true) : b.data.isSome = true := by
  unfold wantTransition at h
  simp only [Bool.and_eq_true] at h
  exact h.1.1

/-- Replacing the gain keeps the invariant / the run predicate (the gain is only range-constrained). -/
theorem DecInv.withGain {st : DecState} (h : DecInv st) (g : Int) (hg : -32768 ≤ g ∧ g ≤ 32767) :
    DecInv { st with decode_gain := g } :=
  ⟨h.fs, h.ch, h.api, h.nca, h.isr, h.nci, h.ps, h.sch, h.toc, h.pm, h.pr, h.silkReady, hg, h.lpd⟩

theorem Good.withGain {st0 : DecState} {cap0 : Int} {r : Run} (h : Good st0 cap0 r) (g : Int)
    (hg : -32768 ≤ g ∧ g ≤ 32767) : Good st0 cap0 (r.setSt { r.st with decode_gain := g }) :=
  ⟨h.inv.withGain g hg, h.fs, h.ch, h.log⟩

/-- The call as the code makes it since 7e7e38ec — gain saved, cleared, restored (`gain0Call`) — meets the contract of
    the transition call whenever the plain recursive call does; the caller's gain is back afterwards (`FrameRel.gain`). -/
theorem gain0Call_transOk {st0 : DecState} {cap0 u : Int} {inner : Ptr → Int → Run → Res'}
    (h : TransOk st0 cap0 u inner) : TransOk st0 cap0 u (gain0Call inner) := by
  intro r n hg hu hn
  have hg0 := hg.withGain 0 (by omega)
  have hu0 : Units (r.setSt { r.st with decode_gain := 0 }).st u := hu.congr rfl
  obtain ⟨v, r', h1, h2, h3⟩ := h (r.setSt { r.st with decode_gain := 0 }) n hg0 hu0 hn
  have hbuf : transBuf (r.setSt { r.st with decode_gain := 0 }).st = transBuf r.st := rfl
  rw [hbuf] at h1
  refine ⟨v, r'.setSt { r'.st with decode_gain := r.st.decode_gain }, ?_, ?_, ?_⟩
  · unfold gain0Call; simp only [h1]
  · exact h2.withGain _ hg.inv.gain
  · exact ⟨h3.fs, h3.ch, rfl, h3.sch, h3.bw, h3.mode, h3.fsz, h3.lpd, h3.api, h3.nca, h3.isr, h3.nci⟩

/-- The inner call sees gain 0 (so its own gain pass `stepGain` is skipped) and the same log / call counter. -/
theorem gain0Call_inner (inner : Ptr → Int → Run → Res') (p : Ptr) (n : Int) (r : Run) :
    (gain0Call inner p n r).1 = (inner p n (r.setSt { r.st with decode_gain := 0 })).1 ∧
    (gain0Call inner p n r).2.log = (inner p n (r.setSt { r.st with decode_gain := 0 })).2.log ∧
    (gain0Call inner p n r).2.k = (inner p n (r.setSt { r.st with decode_gain := 0 })).2.k ∧
    (gain0Call inner p n r).2.st.decode_gain = r.st.decode_gain :=
  ⟨rfl, rfl, rfl, rfl⟩

/-- A (possibly skipped) transition concealment call. -/
theorem transStep_spec {st0 : DecState} {cap0 : Int} {trans : Ptr → Int → Run → Res'} {b : Body} {r : Run} {u : Int}
    (c : Prop) [Decidable c] (hg : Good st0 cap0 r) (hu : Units r.st u)
    (haud : b.audiosize = u ∨ b.audiosize = 2 * u ∨ b.audiosize = 3 * u ∨ b.audiosize = 4 * u ∨
        b.audiosize = 8 * u ∨ b.audiosize = 16 * u ∨ b.audiosize = 24 * u)
    (htr : c → TransOk st0 cap0 u trans) :
    ∃ r', (if c then transCall trans b r else (.ret (), r)) = (.ret (), r') ∧ Good st0 cap0 r' ∧ FrameRel r.st r'.st := by
  have hupos := hu.pos
  split
  · rename_i hc
    obtain ⟨v, r', h1, h2, h3⟩ := gain0Call_transOk (htr hc) r (min (F5 r.st) b.audiosize) hg hu (by rw [hu.f5]; omega)
    unfold transCall
    rw [h1]
    exact ⟨r', rfl, h2, h3⟩
  · exact ⟨r, rfl, hg, FrameRel.refl _⟩

/-- `opus_decode_frame` from :354 on, under the oracle contracts: returns `audiosize`, preserves the
    invariant, and every inner call / buffer access is legal. -/
theorem frameBody_spec {o : Oracle} (ho : OracleOk o) {st0 : DecState} {cap0 : Int} {trans : Ptr → Int → Run → Res'}
    {b : Body} {r : Run} {u : Int} (hg : Good st0 cap0 r) (hu : Units r.st u) (hb : BodyOk r.st u b)
    (hroom : b.pcm.room (b.audiosize * r.st.channels)) (hcap : PtrCapOk st0 cap0 b.pcm)
    (htr : b.data.isSome → TransOk st0 cap0 u trans) :
    ∃ r', frameBody o trans b r = (.ret b.audiosize, r') ∧ Good st0 cap0 r' ∧ FrameRel r.st r'.st ∧
      r'.st.prev_mode = b.mode := by
  have hupos := hu.pos
  have hlen := hb.len
  -- A: transition concealment before a CELT frame
  obtain ⟨rA, eA, gA, fA⟩ := transStep_spec (b := b) (wantTransition r.st b = true ∧ b.mode = MODE_CELT) hg hu hb.aud
    (fun h => htr (wantTransition_data h.1))
  have huA : Units rA.st u := hu.congr fA.fs
  have roomA : b.pcm.room (b.audiosize * rA.st.channels) := by rw [fA.ch]; exact hroom
  -- B: capacity check
  have hfit : ¬ b.audiosize > b.frame_size := by have := hb.fits; omega
  -- C: SILK
  have hC : ∃ tell rC, (if b.mode ≠ MODE_CELT then silkStage o b rA else (.ret (0, 1), rA)) = (.ret (0, tell), rC) ∧
      Good st0 cap0 rC ∧ FrameRel rA.st rC.st ∧ 1 ≤ tell ∧
      (b.mode ≠ MODE_CELT → rC.st.dc.internalSampleRate ≠ 0 ∧ rC.st.dc.nChannelsInternal ≠ 0) := by
    split
    · rename_i hm
      have hpre : SilkPre rA.st u b := by
        refine ⟨hb.aud, fun hd => (hb.isData hd).2.1, fun hn => ?_⟩
        obtain ⟨h1, h2⟩ := (hb.isNull hn).2 hm
        exact ⟨fA.isr h1, fA.nci h2⟩
      obtain ⟨tell, rC, h1, h2, h3, _, _, h6, h7, h8⟩ := silkStage_spec ho gA huA hpre roomA hcap
      exact ⟨tell, rC, h1, h2, h3, h8, fun _ => ⟨h6, h7⟩⟩
    · rename_i hm
      exact ⟨1, rA, rfl, gA, FrameRel.refl _, by omega, fun h => absurd h hm⟩
  obtain ⟨tell, rC, eC, gC, fC, htell, hreadyC⟩ := hC
  -- D: redundancy parse
  obtain ⟨hred, hredm⟩ := redStage_spec ho b tell rC hlen.1 htell
  have gD : Good st0 cap0 (redStage o b tell rC).2 := gC.of_eq hred.st hred.log
  have huD : Units (redStage o b tell rC).2.st u := by rw [hred.st]; exact huA.congr fC.fs
  -- E: transition concealment before a SILK / hybrid frame
  obtain ⟨rE, eE, gE, fE⟩ := transStep_spec (b := b)
    ((if (redStage o b tell rC).1.redundancy ≠ 0 then false else wantTransition r.st b) = true ∧ b.mode ≠ MODE_CELT)
    gD huD hb.aud
    (fun h => htr (by
      have h1 := h.1
      split at h1
      · cases h1
      · exact wantTransition_data h1))
  have fDE : FrameRel rC.st rE.st := by rw [← hred.st]; exact fE
  have huE : Units rE.st u := huD.congr fE.fs
  have fAE : FrameRel r.st rE.st := (fA.trans fC).trans fDE
  -- F: bandwidth switch
  have hend : endbandOk b.bandwidth = true := by
    rcases isSome_or_isNone b.data with h | h
    · exact (hb.isData h).2.2.1
    · rw [(hb.isNull h).1]; decide
  -- G: CELT and cross-fades
  have hpre : CeltPre u b (redStage o b tell rC).1 := by
    refine ⟨hb.mode, hb.aud, hb.audCelt, ⟨hred.len0, hred.lenle, hlen.2⟩, ?_, ?_⟩
    · intro hr
      obtain ⟨h1, h2⟩ := hred.red hr
      obtain ⟨h3, h4⟩ := hredm hr
      exact ⟨h1, h2, (hb.isData h4).2.2.2 h3⟩
    · intro off hoff
      exact (hb.isData (by rw [hoff]; rfl)).1 off hoff
  obtain ⟨r', eG, gG, fG, hpm⟩ := celtStage_spec ho
    (tr := if (redStage o b tell rC).1.redundancy ≠ 0 then false else wantTransition r.st b) gE huE hpre
    (by rw [fAE.ch]; exact hroom) hcap
    (fun hm => by
      obtain ⟨h1, h2⟩ := hreadyC hm
      exact ⟨fDE.isr h1, fDE.nci h2⟩)
  refine ⟨r', ?_, gG, fAE.trans fG, hpm⟩
  unfold frameBody
  simp only [eA, bindRun_ret, hfit, ↓reduceIte, eC, ne_eq, not_true_eq_false, hend]
  simp only [ne_eq] at eE eG
  simp only [eE, bindRun_ret, eG]

end Opus.DecSkel
