import OpusProofs.RepackExtOut
/-
  C07 helper lemmas, part 13: reading back the padding the repacketizer writes with extensions:
  `0x01` fill bytes (ID 0, L = 1: no payload) followed by the canonical serialisation.  Built on
  C16's reader lemmas (`St`, `next_ser`, `iterAll_ser`, `serRefs_toExt`).
-/
namespace Opus.RepackProofs
open Opus Opus.Framing Opus.FramingSpec Opus.FramingProofs Opus.Repack Opus.Ext Opus.ExtProofs

/-- The main-loop body on a `0x01` fill byte: `continue`. -/
theorem mainBody_one {d : Array Nat} {nbF p cur : Nat} {it : Iter} (hs : St d nbF p cur it)
    (h0 : d[p]? = some 1) (hsz : p + 1 ≤ d.size) :
    ∃ it1, mainBody it = .ok (.cont it1) ∧ St d nbF (p + 1) cur it1 := by
  unfold mainBody
  rw [hs.data, hs.cd, hs.cl, h0]
  simp only []
  have hsk : skipExtension d p ((d.size : Int) - p) = .ok (some (p + 1, (d.size : Int) - p - 1, 1)) := by
    unfold skipExtension
    have h1 : ¬ ((d.size : Int) - p = 0) := by omega
    have h2 : ¬ ((d.size : Int) - p < 1) := by omega
    simp only [h1, h2, if_false, h0]
    unfold skipPayload
    simp
  rw [hsk]
  simp only []
  have ha : ¬ (((p + 1 : Nat) : Int) ≠ it.len - ((d.size : Int) - p - 1)) := by rw [hs.len]; omega
  simp only [ha, if_false]
  have c1 : ¬ ((1 : Nat) / 2 = 1) := by decide
  have c2 : ¬ ((1 : Nat) / 2 = 2) := by decide
  have c3 : ¬ (2 < (1 : Nat) / 2) := by decide
  simp only [c1, c2, c3, if_false]
  exact ⟨_, rfl, ⟨rfl, hs.len, rfl, by simp; omega, hs.cf, hs.rf, hs.nf, hs.fm⟩⟩

theorem next_eq_mainLoop {d : Array Nat} {nbF p cur : Nat} {it : Iter} (hs : St d nbF p cur it)
    (hp : p ≤ d.size) (hcur : cur < nbF) : next it = mainLoop it := by
  unfold next
  have a1 : ¬ it.currLen < 0 := by rw [hs.cl]; omega
  have a2 : ¬ 0 < it.repeatFrame := by rw [hs.rf]; omega
  have a3 : ¬ it.frameMax ≤ (it.currFrame : Int) := by rw [hs.fm, hs.cf]; omega
  simp only [a1, a2, a3, if_false]

/-- `next` skips leading fill bytes. -/
theorem next_skip_ones {d : Array Nat} {nbF cur : Nat} (hcur : cur < nbF) : ∀ (k p : Nat) (it : Iter) (rest : List Nat),
    St d nbF p cur it → At d p (List.replicate k 1 ++ rest) → rest ≠ [] → p + k + rest.length = d.size →
    ∃ it', St d nbF (p + k) cur it' ∧ next it = next it' := by
  intro k
  induction k with
  | zero => intro p it rest hs _ _ _; exact ⟨it, by simpa using hs, rfl⟩
  | succ k ih =>
    intro p it rest hs hat hrest hend
    have hrl : 0 < rest.length := List.length_pos_iff.mpr hrest
    rw [List.replicate_succ, List.cons_append] at hat
    obtain ⟨h0, hat1⟩ := At.head hat
    obtain ⟨it1, hb, hs1⟩ := mainBody_one hs h0 (by omega)
    obtain ⟨it', hs', hn⟩ := ih (p + 1) it1 rest hs1 hat1 hrest (by omega)
    refine ⟨it', by rw [show p + (k + 1) = p + 1 + k by omega]; exact hs', ?_⟩
    rw [← hn, next_eq_mainLoop hs (by omega) hcur, next_eq_mainLoop hs1 (by omega) hcur, mainLoop_eq it]
    have hcl : 0 < it.currLen := by rw [hs.cl]; omega
    simp only [hcl, if_true, hb]

/-- Reading `0x01 … 0x01 ++ serBytes 0 l`: the fill is ignored, the list comes back. -/
theorem parse_ones_ser (k : Nat) (l : List Ext) (hl : l ≠ []) (nbF : Nat) (hnf : nbF ≤ 48) (hn0 : 0 < nbF)
    (hv : ∀ e ∈ l, ValidExt nbF e) (hs : FrameSorted 0 l) (cap : Int) (hcap : (l.length : Int) ≤ cap) :
    parse (List.replicate k 1 ++ serBytes 0 l) (List.replicate k 1 ++ serBytes 0 l).length cap nbF = .ok (serRefs k 0 l) ∧
    (serRefs k 0 l).map (ExtRef.toExt (List.replicate k 1 ++ serBytes 0 l)) = l.map normExt := by
  have hne : serBytes 0 l ≠ [] := by
    cases l with
    | nil => exact absurd rfl hl
    | cons e l' => exact serBytes_ne_nil
  constructor
  · let bs := List.replicate k 1 ++ serBytes 0 l
    have hinit : ∃ it, iterInit bs bs.length nbF = .ok it ∧ St bs.toArray nbF 0 0 it := by
      unfold iterInit
      have h1 : ¬ ((bs.length : Int) < 0) := by omega
      have h2 : ¬ ((nbF : Int) < 0 ∨ (nbF : Int) > 48) := by omega
      simp only [h1, h2, if_false]
      refine ⟨_, rfl, ⟨by simp, by simp, rfl, by simp, rfl, rfl, by simp, rfl⟩⟩
    obtain ⟨it, hit, hst⟩ := hinit
    have hat : At bs.toArray 0 (List.replicate k 1 ++ serBytes 0 l) := by
      intro i hi; simp [bs]
    obtain ⟨it', hst', hnext⟩ := next_skip_ones hn0 k 0 it (serBytes 0 l) hst hat hne (by simp [bs])
    have hat' : At bs.toArray (0 + k) (serBytes 0 l) := (hat.append).2 |> fun h => by simpa using h
    have hall := iterAll_ser bs.toArray nbF l (0 + k) 0 it' hst' hv hs hat' (by simp [bs])
    have hall0 : iterAll it = .ok (serRefs (0 + k) 0 l, .done) := by
      rw [iterAll_eq, hnext, ← iterAll_eq]; exact hall
    show parse bs bs.length cap nbF = _
    unfold parse
    rw [hit]
    simp only
    rw [parseLoop_iterAll it _ _ hall0 cap #[] (by simp; omega)]
    have : ¬ (cap < ((#[] : Array ExtRef).size : Int) + ((serRefs (0 + k) 0 l).length : Int)) := by
      rw [serRefs_length]; simp; omega
    rw [if_neg this]
    simp
  · have := serRefs_toExt nbF l (List.replicate k 1) 0 hv
    simpa using this

end Opus.RepackProofs
