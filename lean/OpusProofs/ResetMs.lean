import OpusProofs.ResetDecode
import OpusModel.ResetMs
/-
  OpusProofs.ResetMs — the per-stream reset theorems lifted through the multistream fan-out.
-/
namespace Opus.ResetState
open Opus

/-- A fan-out whose per-stream request always succeeds applies it to every stream and returns OPUS_OK. -/
theorem fanOut_ok {α : Type} (g : α → α) (l : List α) :
    Ctl.fanOut (fun e => (g e, Ctl.Ret.ok)) l = (l.map g, Ctl.Ret.ok) := by
  induction l with
  | nil => rfl
  | cons e es ih =>
    simp only [Ctl.fanOut, List.map]
    have : (Ctl.Ret.ok).code = 0 := rfl
    simp [this, ih]

theorem allPairs_map {α β γ : Type} {R : β → γ → Prop} (f : α → β) (g : α → γ) (l : List α)
    (h : ∀ e ∈ l, R (f e) (g e)) : AllPairs R (l.map f) (l.map g) := by
  induction l with
  | nil => exact .nil
  | cons e es ih =>
    exact .cons (h e (List.mem_cons_self ..)) (ih (fun x hx => h x (List.mem_cons_of_mem _ hx)))

/-- Multistream encoder invariant: every stream encoder is reachable; outside the surround mapping the
    analysis memories are never written (only surround_analysis touches them). -/
structure MsInv (m : MsEnc) : Prop where
  streams : ∀ e ∈ m.streams, Reach e
  mems : m.mappingType ≠ MAPPING_TYPE_SURROUND → m.mems = .fresh

theorem msEncReset_eq_fresh (m : MsEnc) (h : MsInv m) :
    MsObsEq (msEncReset m).1 (msEncFresh m) ∧ (msEncReset m).2 = Ctl.Ret.ok := by
  have hf : Ctl.fanOut encResetCtl m.streams = (m.streams.map encReset, Ctl.Ret.ok) := fanOut_ok encReset m.streams
  simp only [msEncReset, hf]
  refine ⟨⟨rfl, rfl, rfl, rfl, rfl, rfl, rfl, rfl, rfl, rfl, ?_, ?_⟩, trivial⟩
  · by_cases hs : m.mappingType = MAPPING_TYPE_SURROUND
    · simp [msEncFresh, hs]
    · simp [msEncFresh, hs, h.mems hs]
  · exact allPairs_map _ _ _ (fun e he => view_reset_eq_fresh (reach_inv (h.streams e he)))

theorem msDecReset_eq_fresh (m : MsDec) (h : ∀ d ∈ m.streams, DecInv d) :
    MsDecObsEq (msDecReset m).1 (msDecFresh m) ∧ (msDecReset m).2 = Ctl.Ret.ok := by
  have hf : Ctl.fanOut decResetCtl m.streams = (m.streams.map decReset, Ctl.Ret.ok) := fanOut_ok decReset m.streams
  simp only [msDecReset, hf]
  exact ⟨⟨rfl, rfl, rfl, rfl, allPairs_map _ _ _ (fun d hd => decView_reset_eq_fresh (h d hd))⟩, trivial⟩

/-- Position by position, related stream encoders answer every later per-stream call sequence identically. -/
theorem allPairs_run (O : Oracles) (G : GetOracle) (ops : List Op) {as bs : List Enc} (h : AllPairs ObsEq as bs) :
    as.map (fun e => run O G e ops) = bs.map (fun e => run O G e ops) := by
  induction h with
  | nil => rfl
  | cons hr _ ih => simp only [List.map]; rw [run_congr O G ops hr, ih]

theorem allPairs_runDec (O : DOracles) (ops : List DOp) {as bs : List Dec} (h : AllPairs DecObsEq as bs) :
    as.map (fun d => runDec O d ops) = bs.map (fun d => runDec O d ops) := by
  induction h with
  | nil => rfl
  | cons hr _ ih => simp only [List.map]; rw [runDec_congr O ops hr, ih]

end Opus.ResetState
