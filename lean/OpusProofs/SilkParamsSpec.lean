import OpusModel.SilkParams
/-
  OpusProofs.SilkParamsSpec — the vocabulary in which the C18 theorems are stated.
-/
namespace Opus.SilkParams

/-- `x` is representable as `opus_int16`. -/
def I16 (x : Int) : Prop := -32768 ≤ x ∧ x ≤ 32767

instance (x : Int) : Decidable (I16 x) := by unfold I16; infer_instance

/-- All entries are representable as `opus_int16`. -/
def AllI16 (l : List Int) : Prop := ∀ e ∈ l, I16 e

/-- The post-condition of the NLSF stabiliser for a vector `x[0..L-1]` and minimum distances
    `d[0..L]`, relative to the preceding value `prev` (0 for the whole vector):
    `x[0] ≥ prev + d[0]`, `x[i] ≥ x[i-1] + d[i]`, and `x[L-1] + d[L] ≤ 2^15`.
    False when `d` does not have exactly one entry more than `x`. -/
def SpacedFrom (prev : Int) : List Int → List Int → Prop
  | [], [dL] => prev + dL ≤ 32768
  | x :: xs, d :: ds => prev + d ≤ x ∧ SpacedFrom x xs ds
  | _, _ => False

/-- The facts about a minimum-distance table that the stabiliser relies on, relative to a
    partial sum `P` and the number `n` of coefficients still to come: `n+1` entries, all
    non-negative, the last one at least 1, and `P` plus their sum at most `2^15`. -/
def DeltaOk (P : Int) : Nat → List Int → Prop
  | 0, [dL] => 1 ≤ dL ∧ P + dL ≤ 32768
  | n + 1, d :: ds => 0 ≤ d ∧ DeltaOk (P + d) n ds
  | _, _ => False

/-- Strictly increasing list. -/
def StrictInc : List Int → Prop
  | a :: b :: rest => a < b ∧ StrictInc (b :: rest)
  | _ => True

end Opus.SilkParams
