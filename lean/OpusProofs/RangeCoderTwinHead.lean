import OpusProofs.RangeCoderCanon
/-
  C08: `ec_enc_patch_initial_bits` versus coding the true bits.

  A stream whose first `k ≤ 7` bits are coded as a placeholder (symbol 0 of `2^k` equiprobable ones) and patched
  afterwards to `w` is, byte for byte, the stream obtained by coding the bits of `w` in the first place.
  `twin k w c` is the state the second encoder is in when the first is in `c` (before the patch): the first output
  digit — still in `val`, pending in `rem`, or already in `buf[0]` — carries `w` in its top `k` bits.  That the low
  bits never carry into the top ones is the cell invariant of OpusProofs/RangeCoderPatch.lean.
-/
namespace Opus.RangeCoder

/-- the first digit's share of `w` -/
def dlt (k w : Nat) : Nat := w * 2 ^ (8 - k)

/-- first digit committed: in `buf[0]` -/
def setBuf0 (x : Nat) (c : Enc) : Enc := { c with buf := c.buf.set 0 x }
def setRem (r : Int) (c : Enc) : Enc := { c with rem := r }
def setExt (e : Nat) (c : Enc) : Enc := { c with ext := e }
def twinB (δ : Nat) (c : Enc) : Enc := setBuf0 (c.buf.getD 0 0 + δ) c
/-- first digit pending in `rem` (a digit 0xFF is counted in `ext` instead) -/
def twinR (δ : Nat) (c : Enc) : Enc :=
  if c.rem.toNat + δ = 255 then setRem (-1) (setExt (u32 (c.ext + 1)) c)
  else setRem ((c.rem.toNat + δ : Nat) : Int) c
/-- first digit still in `val` -/
def twinV (D : Nat) (c : Enc) : Enc := { c with val := c.val + D }

def twin (k w : Nat) (c : Enc) : Enc :=
  if c.offs ≥ 1 then twinB (dlt k w) c
  else if c.rem ≥ 0 then twinR (dlt k w) c
  else twinV (w * 2 ^ (31 - k)) c

theorem pow_ext_one {e : Nat} (h : 256 ^ e < 2) : e = 0 := by
  cases e with
  | zero => rfl
  | succ n =>
    have : 0 < 256 ^ n := Nat.pow_pos (by decide)
    rw [Nat.pow_succ] at h; omega

/-- What the cell invariant says about a state that has not committed a byte yet. -/
theorem cell0_facts (k : Nat) (c : Enc) (hk1 : 1 ≤ k) (hc : Cell k 0 c) (ho : c.offs = 0) (rp : 0 < c.rng) :
    (c.rem < 0 → c.ext = 0 ∧ c.val + c.rng ≤ 2 ^ (31 - k)) ∧
    (c.rem ≥ 0 → c.rem.toNat < 2 ^ (8 - k) ∧ (2147483648 ≤ c.val → c.rem.toNat + 1 < 2 ^ (8 - k))) := by
  have hk8 := hc.n_le
  have hi := hc.hi
  have htk0 : c.buf.take c.offs = [] := by rw [ho]; rfl
  unfold encLow digitsVal at hi
  rw [htk0, bytesVal_nil, Nat.zero_mul, Nat.zero_add, Nat.zero_add, Nat.one_mul] at hi
  unfold cellSz encM at hi
  rw [ho, Nat.zero_add] at hi
  have hX : 0 < 256 ^ c.ext := Nat.pow_pos (by decide)
  constructor
  · intro hr
    have pc : pendCount c = c.ext := by unfold pendCount; rw [if_neg (by omega)]; omega
    have pv : pendVal c = 256 ^ c.ext - 1 := by unfold pendVal; rw [if_neg (by omega)]; omega
    rw [pc, pv] at hi
    have hP : 2 ^ (31 - k) ≤ 1073741824 := by
      have : (1073741824 : Nat) = 2 ^ 30 := by decide
      rw [this]; exact Nat.pow_le_pow_right (by decide) (by omega)
    have h1 : 2 ^ (31 - k) * 256 ^ c.ext ≤ 1073741824 * 256 ^ c.ext := Nat.mul_le_mul_right _ hP
    have hX2 : 256 ^ c.ext < 2 := by
      generalize 256 ^ c.ext = X at *
      have hsub : (X - 1) * 2147483648 = X * 2147483648 - 2147483648 := by rw [Nat.sub_mul]
      omega
    have he0 := pow_ext_one hX2
    rw [he0] at hi
    simp only [Nat.pow_zero, Nat.sub_self, Nat.zero_mul, Nat.zero_add, Nat.mul_one] at hi
    exact ⟨he0, hi⟩
  · intro hr
    have pc : pendCount c = 1 + c.ext := by unfold pendCount; rw [if_pos hr]
    have pv : pendVal c = c.rem.toNat * 256 ^ c.ext + (256 ^ c.ext - 1) := by unfold pendVal; rw [if_pos hr]
    rw [pc, pv] at hi
    have e31 : 2 ^ (31 - k) * 256 = 2 ^ (8 - k) * 2147483648 := by
      have : 31 - k = (8 - k) + 23 := by omega
      rw [this, Nat.pow_add, Nat.mul_assoc]
    have eR : 2 ^ (31 - k) * 256 ^ (1 + c.ext) = (2 ^ (8 - k) * 256 ^ c.ext) * 2147483648 := by
      rw [Nat.add_comm 1 c.ext, Nat.pow_succ, ← Nat.mul_assoc, Nat.mul_right_comm, e31, Nat.mul_right_comm]
    rw [eR] at hi
    have eA : (c.rem.toNat + 1) * 256 ^ c.ext = c.rem.toNat * 256 ^ c.ext + 256 ^ c.ext := by
      rw [Nat.add_mul, Nat.one_mul]
    constructor
    · have h2 : (c.rem.toNat + 1) * 256 ^ c.ext ≤ 2 ^ (8 - k) * 256 ^ c.ext := by
        rw [eA]
        generalize c.rem.toNat * 256 ^ c.ext = A at *
        generalize 2 ^ (8 - k) * 256 ^ c.ext = QX at *
        generalize 256 ^ c.ext = X at *
        omega
      have := Nat.le_of_mul_le_mul_right h2 hX
      omega
    · intro hv
      have h2 : (c.rem.toNat + 1) * 256 ^ c.ext < 2 ^ (8 - k) * 256 ^ c.ext := by
        rw [eA]
        generalize c.rem.toNat * 256 ^ c.ext = A at *
        generalize 2 ^ (8 - k) * 256 ^ c.ext = QX at *
        generalize 256 ^ c.ext = X at *
        omega
      exact Nat.lt_of_mul_lt_mul_right h2

/-! ### Field updates as functions (robust under `rw`) -/

section upd
variable (c : Enc) (x : Nat) (r r' : Int) (e : Nat)
@[simp] theorem setBuf0_offs : (setBuf0 x c).offs = c.offs := rfl
@[simp] theorem setBuf0_rem : (setBuf0 x c).rem = c.rem := rfl
@[simp] theorem setBuf0_ext : (setBuf0 x c).ext = c.ext := rfl
@[simp] theorem setRem_offs : (setRem r c).offs = c.offs := rfl
@[simp] theorem setRem_rem : (setRem r c).rem = r := rfl
@[simp] theorem setRem_ext : (setRem r c).ext = c.ext := rfl
@[simp] theorem setRem_buf : (setRem r c).buf = c.buf := rfl
@[simp] theorem setExt_offs : (setExt e c).offs = c.offs := rfl
@[simp] theorem setExt_rem : (setExt e c).rem = c.rem := rfl
@[simp] theorem setExt_ext : (setExt e c).ext = e := rfl
theorem setRem_setRem : setRem r (setRem r' c) = setRem r c := rfl
theorem setBuf0_setRem : setBuf0 x (setRem r c) = setRem r (setBuf0 x c) := rfl
theorem setExt_self (h : c.ext = e) : setExt e c = c := by subst h; rfl
theorem setExt_setRem : setExt e (setRem r c) = setRem r (setExt e c) := rfl
theorem setExt_setExt (e' : Nat) : setExt e (setExt e' c) = setExt e c := rfl
end upd

theorem writeByte_setRem (c : Enc) (r : Int) (v : Nat) : writeByte (setRem r c) v = setRem r (writeByte c v) := by
  unfold writeByte setRem; split <;> rfl

theorem writeByte_setExt (c : Enc) (e v : Nat) : writeByte (setExt e c) v = setExt e (writeByte c v) := by
  unfold writeByte setExt; split <;> rfl

theorem flushExt_setRem (sym : Nat) (r : Int) : ∀ (n : Nat) (c : Enc),
    flushExt sym n (setRem r c) = setRem r (flushExt sym n c)
  | 0, _ => rfl
  | n + 1, c => by
    have hstep : ∀ d : Enc, flushExt sym (n + 1) d = flushExt sym n (setExt n (writeByte d sym)) := fun _ => rfl
    rw [hstep, hstep, writeByte_setRem, setExt_setRem]
    exact flushExt_setRem sym r n _

theorem carryOut_ne' (c : Enc) (cc : Nat) (h : cc ≠ 255) : carryOut c cc =
    setRem ((cc % 256 : Nat) : Int)
      (if (if c.rem ≥ 0 then writeByte c (c.rem.toNat + cc / 256) else c).ext > 0 then
        flushExt ((255 + cc / 256) % 256) (if c.rem ≥ 0 then writeByte c (c.rem.toNat + cc / 256) else c).ext
          (if c.rem ≥ 0 then writeByte c (c.rem.toNat + cc / 256) else c)
       else (if c.rem ≥ 0 then writeByte c (c.rem.toNat + cc / 256) else c)) := by
  rw [carryOut_ne _ _ h]; rfl

theorem carryOut_255' (c : Enc) : carryOut c 255 = setExt (u32 (c.ext + 1)) c := by rw [carryOut_255]; rfl

/-- pending digit present: everything pending is flushed behind it -/
theorem carryOut_rem (c : Enc) (cc : Nat) (h : cc ≠ 255) (hr : 0 ≤ c.rem) : carryOut c cc =
    setRem ((cc % 256 : Nat) : Int) (flushExt ((255 + cc / 256) % 256) c.ext (writeByte c (c.rem.toNat + cc / 256))) := by
  rw [carryOut_ne' _ _ h, if_pos hr, writeByte_ext]
  by_cases he : c.ext > 0
  · rw [if_pos he]
  · rw [if_neg he]
    have : c.ext = 0 := by omega
    rw [this]; rfl

/-- no pending digit, but buffered 0xFFs -/
theorem carryOut_norem (c : Enc) (cc : Nat) (h : cc ≠ 255) (hr : ¬ 0 ≤ c.rem) : carryOut c cc =
    setRem ((cc % 256 : Nat) : Int) (flushExt ((255 + cc / 256) % 256) c.ext c) := by
  rw [carryOut_ne' _ _ h, if_neg hr]
  by_cases he : c.ext > 0
  · rw [if_pos he]
  · rw [if_neg he]
    have : c.ext = 0 := by omega
    rw [this]; rfl

/-! ### Phase B: the first digit is in the buffer -/

theorem writeByte_set0 (c : Enc) (x v : Nat) (ho : 1 ≤ c.offs) :
    writeByte (setBuf0 x c) v = setBuf0 x (writeByte c v) := by
  unfold writeByte
  by_cases h : c.offs + c.endOffs ≥ c.storage
  · rw [if_pos h, if_pos (show (setBuf0 x c).offs + (setBuf0 x c).endOffs ≥ (setBuf0 x c).storage from h)]
    rfl
  · rw [if_neg h, if_neg (show ¬ ((setBuf0 x c).offs + (setBuf0 x c).endOffs ≥ (setBuf0 x c).storage) from h)]
    show ({ c with buf := (c.buf.set 0 x).set c.offs (v % 256), offs := c.offs + 1 } : Enc) =
      { c with buf := (c.buf.set c.offs (v % 256)).set 0 x, offs := c.offs + 1 }
    rw [List.set_comm _ _ (by omega : (0 : Nat) ≠ c.offs)]

theorem writeByte_get0 (c : Enc) (v : Nat) (ho : 1 ≤ c.offs) :
    (writeByte c v).buf.getD 0 0 = c.buf.getD 0 0 ∧ 1 ≤ (writeByte c v).offs := by
  unfold writeByte
  split
  · exact ⟨rfl, ho⟩
  · refine ⟨?_, by show 1 ≤ c.offs + 1; omega⟩
    show (c.buf.set c.offs (v % 256)).getD 0 0 = c.buf.getD 0 0
    rw [getD_set, if_neg (by omega)]

theorem flushExt_set0 (sym x : Nat) : ∀ (n : Nat) (c : Enc), 1 ≤ c.offs →
    flushExt sym n (setBuf0 x c) = setBuf0 x (flushExt sym n c) ∧
    (flushExt sym n c).buf.getD 0 0 = c.buf.getD 0 0 ∧ 1 ≤ (flushExt sym n c).offs
  | 0, c, ho => ⟨rfl, rfl, ho⟩
  | n + 1, c, ho => by
    have hstep : ∀ d : Enc, flushExt sym (n + 1) d = flushExt sym n (setExt n (writeByte d sym)) := fun _ => rfl
    rw [hstep, hstep, writeByte_set0 c x sym ho]
    obtain ⟨g1, g2⟩ := writeByte_get0 c sym ho
    obtain ⟨a1, a2, a3⟩ := flushExt_set0 sym x n (setExt n (writeByte c sym)) g2
    exact ⟨a1, by rw [a2]; exact g1, a3⟩

theorem carryOut_set0 (c : Enc) (x cc : Nat) (ho : 1 ≤ c.offs) :
    carryOut (setBuf0 x c) cc = setBuf0 x (carryOut c cc) ∧
    (carryOut c cc).buf.getD 0 0 = c.buf.getD 0 0 ∧ 1 ≤ (carryOut c cc).offs := by
  by_cases h : cc = 255
  · subst h
    rw [carryOut_255', carryOut_255']
    exact ⟨rfl, rfl, ho⟩
  · by_cases hr : 0 ≤ c.rem
    · rw [carryOut_rem _ _ h hr, carryOut_rem _ _ h (show 0 ≤ (setBuf0 x c).rem from hr)]
      rw [setBuf0_rem, setBuf0_ext, writeByte_set0 c x _ ho]
      obtain ⟨g1, g2⟩ := writeByte_get0 c (c.rem.toNat + cc / 256) ho
      obtain ⟨a1, a2, a3⟩ := flushExt_set0 ((255 + cc / 256) % 256) x c.ext _ g2
      rw [a1]
      exact ⟨rfl, by show (flushExt _ _ _).buf.getD 0 0 = _; rw [a2, g1], a3⟩
    · rw [carryOut_norem _ _ h hr, carryOut_norem _ _ h (show ¬ 0 ≤ (setBuf0 x c).rem from hr)]
      rw [setBuf0_ext]
      obtain ⟨a1, a2, a3⟩ := flushExt_set0 ((255 + cc / 256) % 256) x c.ext c ho
      rw [a1]
      exact ⟨rfl, a2, a3⟩

theorem carryOut_twinB (δ : Nat) (c : Enc) (cc : Nat) (ho : 1 ≤ c.offs) :
    carryOut (twinB δ c) cc = twinB δ (carryOut c cc) ∧ 1 ≤ (carryOut c cc).offs := by
  obtain ⟨a1, a2, a3⟩ := carryOut_set0 c (c.buf.getD 0 0 + δ) cc ho
  refine ⟨?_, a3⟩
  unfold twinB
  rw [a1, a2]

/-! ### Phase R: the first digit is pending in `rem` -/

theorem carryOut_twinR (δ : Nat) (c : Enc) (cc : Nat) (hcc : cc ≠ 255) (ho : c.offs = 0) (hr : 0 ≤ c.rem)
    (hsp : c.offs + c.endOffs < c.storage) (hlen : c.storage ≤ c.buf.length)
    (hδ : c.rem.toNat + cc / 256 + δ ≤ 255) (hext : c.ext + 1 < 4294967296) :
    carryOut (twinR δ c) cc = twinB δ (carryOut c cc) ∧ 1 ≤ (carryOut c cc).offs := by
  have hbl : 0 < c.buf.length := by omega
  have hW : ∀ a : Nat, a ≤ 255 → writeByte c a = { c with buf := c.buf.set 0 a, offs := 1 } := by
    intro a ha
    rw [writeByte_eq a hsp, ho, Nat.mod_eq_of_lt (by omega)]
  have hWW : ∀ a b : Nat, a ≤ 255 → b ≤ 255 → writeByte c b = setBuf0 b (writeByte c a) := by
    intro a b ha hb
    rw [hW a ha, hW b hb]
    show _ = ({ c with buf := (c.buf.set 0 a).set 0 b, offs := 1 } : Enc)
    rw [List.set_set]
  have hW1 : 1 ≤ (writeByte c (c.rem.toNat + cc / 256)).offs := by rw [hW _ (by omega)]; exact Nat.le_refl _
  have hW0 : (writeByte c (c.rem.toNat + cc / 256)).buf.getD 0 0 = c.rem.toNat + cc / 256 := by
    rw [hW _ (by omega)]
    show (c.buf.set 0 (c.rem.toNat + cc / 256)).getD 0 0 = _
    rw [getD_set, if_pos ⟨rfl, hbl⟩]
  obtain ⟨f1, f2, f3⟩ := flushExt_set0 ((255 + cc / 256) % 256) (c.rem.toNat + cc / 256 + δ) c.ext
    (writeByte c (c.rem.toNat + cc / 256)) hW1
  have hF := carryOut_rem c cc hcc hr
  refine ⟨?_, by rw [hF]; exact f3⟩
  have hRHS : twinB δ (carryOut c cc) = setRem ((cc % 256 : Nat) : Int)
      (flushExt ((255 + cc / 256) % 256) c.ext (writeByte c (c.rem.toNat + cc / 256 + δ))) := by
    rw [hF]
    unfold twinB
    rw [setRem_buf, f2, hW0, setBuf0_setRem, ← f1, ← hWW _ _ (by omega) (by omega)]
  rw [hRHS]
  by_cases hcor : c.rem.toNat + δ = 255
  · -- the shifted digit is 0xFF: it is counted in `ext`
    have hc0 : cc / 256 = 0 := by omega
    have ht : twinR δ c = setRem (-1) (setExt (c.ext + 1) c) := by
      unfold twinR; rw [if_pos hcor]
      have : u32 (c.ext + 1) = c.ext + 1 := Nat.mod_eq_of_lt hext
      rw [this]
    rw [ht, carryOut_norem _ _ hcc (by show ¬ (0 : Int) ≤ -1; decide)]
    rw [setRem_ext, setExt_ext, hc0]
    have hsym : (255 + 0) % 256 = 255 := by decide
    rw [hsym]
    have hstep : ∀ d : Enc, flushExt 255 (c.ext + 1) d = flushExt 255 c.ext (setExt c.ext (writeByte d 255)) := fun _ => rfl
    rw [hstep, writeByte_setRem, writeByte_setExt, setExt_setRem, setExt_setExt,
      setExt_self _ _ (writeByte_ext c 255), flushExt_setRem, setRem_setRem]
    have e2 : c.rem.toNat + 0 + δ = 255 := by omega
    rw [e2]
  · have ht : twinR δ c = setRem ((c.rem.toNat + δ : Nat) : Int) c := by
      unfold twinR; rw [if_neg hcor]
    rw [ht, carryOut_rem _ _ hcc (by rw [setRem_rem]; omega)]
    rw [setRem_rem, setRem_ext, writeByte_setRem, flushExt_setRem, setRem_setRem]
    have e0 : ((c.rem.toNat + δ : Nat) : Int).toNat + cc / 256 = c.rem.toNat + cc / 256 + δ := by omega
    rw [e0]

/-! ### One normalisation step -/

def nsUpd (v r n : Nat) (x : Enc) : Enc := { x with val := v, rng := r, nbitsTotal := n }

theorem normStep_eq (c : Enc) : normStep c =
    nsUpd (c.val * 256 % 2147483648) (u32 (c.rng * 256)) (c.nbitsTotal + 8) (carryOut c (c.val / 8388608)) := rfl

theorem ctx_ext {a b : Enc} (h1 : a.buf = b.buf) (h2 : a.storage = b.storage) (h3 : a.endOffs = b.endOffs)
    (h4 : a.endWindow = b.endWindow) (h5 : a.nendBits = b.nendBits) (h6 : a.nbitsTotal = b.nbitsTotal)
    (h7 : a.offs = b.offs) (h8 : a.rng = b.rng) (h9 : a.val = b.val) (h10 : a.ext = b.ext) (h11 : a.rem = b.rem)
    (h12 : a.error = b.error) : a = b := by
  cases a; cases b
  simp only at h1 h2 h3 h4 h5 h6 h7 h8 h9 h10 h11 h12
  subst h1 h2 h3 h4 h5 h6 h7 h8 h9 h10 h11 h12
  rfl

theorem twinB_nsUpd (δ v r n : Nat) (x : Enc) : twinB δ (nsUpd v r n x) = nsUpd v r n (twinB δ x) := rfl
theorem twinR_nsUpd (δ v r n : Nat) (x : Enc) : twinR δ (nsUpd v r n x) = nsUpd v r n (twinR δ x) := by
  unfold twinR
  show (if x.rem.toNat + δ = 255 then _ else _) = _
  split <;> rfl

theorem twinB_fields (δ : Nat) (c : Enc) : (twinB δ c).val = c.val ∧ (twinB δ c).rng = c.rng ∧
    (twinB δ c).nbitsTotal = c.nbitsTotal := ⟨rfl, rfl, rfl⟩
theorem twinR_fields (δ : Nat) (c : Enc) : (twinR δ c).val = c.val ∧ (twinR δ c).rng = c.rng ∧
    (twinR δ c).nbitsTotal = c.nbitsTotal := by
  unfold twinR; split <;> exact ⟨rfl, rfl, rfl⟩

theorem twin_B (k w : Nat) (c : Enc) (ho : 1 ≤ c.offs) : twin k w c = twinB (dlt k w) c := by
  unfold twin; rw [if_pos ho]
theorem twin_R (k w : Nat) (c : Enc) (ho : c.offs = 0) (hr : 0 ≤ c.rem) : twin k w c = twinR (dlt k w) c := by
  unfold twin; rw [if_neg (by omega), if_pos hr]
theorem twin_V (k w : Nat) (c : Enc) (ho : c.offs = 0) (hr : ¬ 0 ≤ c.rem) :
    twin k w c = twinV (w * 2 ^ (31 - k)) c := by
  unfold twin; rw [if_neg (by omega), if_neg hr]

/-- the powers of two involved, with `Q = 2^(8-k)` as the only non-numeral -/
theorem kfacts (k w : Nat) (hk1 : 1 ≤ k) (hk8 : k ≤ 8) (hw : w < 2 ^ k) :
    2 ^ (31 - k) = 2 ^ (8 - k) * 8388608 ∧ w * 2 ^ (31 - k) = dlt k w * 8388608 ∧
    dlt k w + 2 ^ (8 - k) ≤ 256 ∧ 1 ≤ 2 ^ (8 - k) ∧ 2 ^ (8 - k) ≤ 128 := by
  have e1 : 2 ^ (31 - k) = 2 ^ (8 - k) * 8388608 := by
    have : 31 - k = (8 - k) + 23 := by omega
    rw [this, Nat.pow_add]
  have h8 := pow_split8 k hk8
  have h2 : (w + 1) * 2 ^ (8 - k) ≤ 2 ^ k * 2 ^ (8 - k) := Nat.mul_le_mul_right _ hw
  rw [h8, Nat.add_mul, Nat.one_mul] at h2
  have h3 : 2 ^ (8 - k) ≤ 2 ^ 7 := Nat.pow_le_pow_right (by decide) (by omega)
  refine ⟨e1, by unfold dlt; rw [e1, Nat.mul_assoc], by unfold dlt; exact h2, Nat.pow_pos (by decide), h3⟩


end Opus.RangeCoder
