import OpusProofs.FramingSound
/-
  C06 / C01 memory-safety core: on every input, in both framings, the parser model never reads a
  byte outside the supplied buffer (`.oob`) and trips no assertion (`.abort`).
-/
namespace Opus.FramingProofs
open Opus Opus.Framing Opus.FramingSpec

/-- A modelled call "faults" when it would read outside the supplied bytes or trip an assertion. -/
def fault {α} : Res α → Bool
  | .oob => true
  | .abort => true
  | _ => false

theorem parseSize_nofault (data : Bytes) (len : Int) (hl : len ≤ data.length) :
    fault (parseSize data len) = false := by
  unfold parseSize
  split
  · rfl
  · cases data with
    | nil => simp at hl; omega
    | cons b0 rest =>
      simp only
      split
      · rfl
      · split
        · rfl
        · cases rest with
          | nil => simp at hl; omega
          | cons b1 r => rfl

theorem padChain_nofault (data : Bytes) (len : Int) (pad : Nat) (hl : len ≤ data.length) :
    fault (padChain data len pad) = false ∧
    ∀ d l p', padChain data len pad = .ok (d, l, p') → l ≤ d.length := by
  induction data generalizing len pad with
  | nil =>
    unfold padChain
    have : len ≤ 0 := by simpa using hl
    simp [this, fault]
  | cons p rest ih =>
    unfold padChain
    split
    · simp [fault]
    · simp only
      split
      · exact ih _ _ (by simp at hl; omega)
      · refine ⟨rfl, ?_⟩
        intro d l p' h; simp at h; simp at hl; rw [← h.1, ← h.2.1]; omega

theorem vbrSizes_nofault (n : Nat) (data : Bytes) (len last : Int) (hl : len ≤ data.length) :
    fault (vbrSizes n data len last) = false ∧
    ∀ ss d l la, vbrSizes n data len last = .ok (ss, d, l, la) → l ≤ d.length := by
  induction n generalizing data len last with
  | zero =>
    simp only [vbrSizes]
    refine ⟨rfl, ?_⟩
    intro ss d l la h; simp at h; rw [← h.2.1, ← h.2.2.1]; exact hl
  | succ n ih =>
    unfold vbrSizes
    have hpf := parseSize_nofault data len hl
    split
    · rename_i bytes sz hps
      simp only
      split
      · simp [fault]
      · rename_i hc
        have hshape := parseSize_shape data len bytes sz hps
        have hl' : len - bytes ≤ ((data.drop bytes.toNat).length : Int) := by
          simp only [List.length_drop]; omega
        have ih' := ih (data.drop bytes.toNat) (len - bytes) (last - (bytes + sz)) hl'
        split
        · rename_i ss d l la hrec
          refine ⟨rfl, ?_⟩
          intro ss' d' l' la' h; simp at h
          rw [← h.2.1, ← h.2.2.1]; exact ih'.2 _ _ _ _ hrec
        · simp [fault]
        · rename_i hrec; rw [hrec] at ih'; simp [fault] at ih'
        · rename_i hrec; rw [hrec] at ih'; simp [fault] at ih'
    · simp [fault]
    · rename_i hps; rw [hps] at hpf; simp [fault] at hpf
    · rename_i hps; rw [hps] at hpf; simp [fault] at hpf



theorem finish_nofault (sd : Bool) (total toc : Nat) (h : Hdr) (hl : h.len ≤ h.data.length) :
    fault (finish sd total toc h) = false := by
  unfold finish
  have hpf := parseSize_nofault h.data h.len hl
  cases sd with
  | false =>
    simp only [Bool.false_eq_true, if_false]
    split
    · rfl
    · split <;> rfl
  | true =>
    simp only [if_true]
    split
    · split
      · rfl
      · split
        · split <;> rfl
        · split <;> rfl
    · rfl
    · rename_i hps; rw [hps] at hpf; simp [fault] at hpf
    · rename_i hps; rw [hps] at hpf; simp [fault] at hpf

theorem parseCode3_nofault (sd : Bool) (fs : Nat) (data : Bytes) :
    fault (parseCode3 sd fs data data.length) = false ∧
    ∀ h, parseCode3 sd fs data data.length = .ok h → h.len ≤ h.data.length := by
  unfold parseCode3
  split
  · simp [fault]
  · cases data with
    | nil => rename_i h; simp at h
    | cons ch data1 =>
      simp only
      split
      · simp [fault]
      · have hlen1 : ((ch :: data1).length : Int) - 1 = data1.length := by simp
        rw [hlen1]
        have hpc := padChain_nofault data1 data1.length 0 (Int.le_refl _)
        cases hps : (if ch / 64 % 2 = 1 then padChain data1 data1.length 0 else Res.ok (data1, (data1.length : Int), 0)) with
        | err e => simp [fault]
        | oob =>
          exfalso
          by_cases hq : ch / 64 % 2 = 1
          · rw [if_pos hq] at hps; rw [hps] at hpc; simp [fault] at hpc
          · rw [if_neg hq] at hps; simp at hps
        | abort =>
          exfalso
          by_cases hq : ch / 64 % 2 = 1
          · rw [if_pos hq] at hps; rw [hps] at hpc; simp [fault] at hpc
          · rw [if_neg hq] at hps; simp at hps
        | ok tr =>
          obtain ⟨data2, len2, pad⟩ := tr
          have hl2 : len2 ≤ data2.length := by
            by_cases hq : ch / 64 % 2 = 1
            · rw [if_pos hq] at hps; exact hpc.2 _ _ _ hps
            · rw [if_neg hq] at hps; simp at hps; rw [← hps.1, ← hps.2.1]; exact Int.le_refl _
          simp only
          split
          · simp [fault]
          · split
            · have hv := vbrSizes_nofault (ch % 64 - 1) data2 len2 len2 hl2
              split
              · rename_i ss d l last hvs
                split
                · simp [fault]
                · refine ⟨rfl, ?_⟩
                  intro h hh; simp at hh; rw [← hh]; exact hv.2 _ _ _ _ hvs
              · simp [fault]
              · rename_i hvs; rw [hvs] at hv; simp [fault] at hv
              · rename_i hvs; rw [hvs] at hv; simp [fault] at hv
            · split
              · refine ⟨rfl, ?_⟩
                intro h hh; simp at hh; rw [← hh]; exact hl2
              · split
                · simp [fault]
                · refine ⟨rfl, ?_⟩
                  intro h hh; simp at hh; rw [← hh]; exact hl2

theorem parseHdr_nofault (sd : Bool) (toc : Nat) (data : Bytes) :
    fault (parseHdr sd toc data data.length) = false ∧
    ∀ h, parseHdr sd toc data data.length = .ok h → h.len ≤ h.data.length := by
  unfold parseHdr
  split
  · refine ⟨rfl, ?_⟩; intro h hh; simp at hh; rw [← hh]; exact Int.le_refl _
  · split
    · split
      · refine ⟨rfl, ?_⟩; intro h hh; simp at hh; rw [← hh]; exact Int.le_refl _
      · split
        · simp [fault]
        · refine ⟨rfl, ?_⟩; intro h hh; simp at hh; rw [← hh]; exact Int.le_refl _
    · split
      · have hpf := parseSize_nofault data data.length (Int.le_refl _)
        split
        · rename_i bytes sz hps
          simp only
          split
          · simp [fault]
          · refine ⟨rfl, ?_⟩
            intro h hh; simp at hh; rw [← hh]
            have := parseSize_shape data _ bytes sz hps
            simp only [List.length_drop]; omega
        · simp [fault]
        · rename_i hps; rw [hps] at hpf; simp [fault] at hpf
        · rename_i hps; rw [hps] at hpf; simp [fault] at hpf
      · exact parseCode3_nofault sd _ data

/-- The parser never reads outside the supplied bytes and trips no assertion, on any input. -/
theorem parseImpl_nofault (sd : Bool) (bs : Bytes) : fault (parseImpl sd bs) = false := by
  unfold parseImpl
  cases bs with
  | nil => rfl
  | cons toc data =>
    simp only
    have hh := parseHdr_nofault sd toc data
    split
    · rename_i h hhdr; exact finish_nofault sd _ toc h (hh.2 h hhdr)
    · rfl
    · rename_i hhdr; rw [hhdr] at hh; simp [fault] at hh
    · rename_i hhdr; rw [hhdr] at hh; simp [fault] at hh



/-! ### Error kinds: every failure of the parser is OPUS_INVALID_PACKET -/

def errInv {α} (r : Res α) : Prop := ∀ e, r = .err e → e = .invalidPacket

theorem parseSize_errInv (data : Bytes) (len : Int) : errInv (parseSize data len) := by
  intro e h
  unfold parseSize at h
  split at h
  · simp at h
  · cases data with
    | nil => simp at h
    | cons b0 rest =>
      simp only at h
      split at h
      · simp at h
      · split at h
        · simp at h
        · cases rest <;> simp at h

theorem padChain_errInv (data : Bytes) (len : Int) (pad : Nat) : errInv (padChain data len pad) := by
  induction data generalizing len pad with
  | nil => intro e h; unfold padChain at h; split at h <;> simp at h; exact h.symm
  | cons p rest ih =>
    intro e h
    unfold padChain at h
    split at h
    · simp at h; exact h.symm
    · simp only at h
      split at h
      · exact ih _ _ e h
      · simp at h

theorem vbrSizes_errInv (n : Nat) (data : Bytes) (len last : Int) : errInv (vbrSizes n data len last) := by
  induction n generalizing data len last with
  | zero => intro e h; simp [vbrSizes] at h
  | succ n ih =>
    intro e h
    unfold vbrSizes at h
    repeat' (first
      | (simp at h; done)
      | (simp at h; exact Eq.symm h)
      | (simp at h; subst h; first
          | exact parseSize_errInv _ _ _ ‹_›
          | exact ih _ _ _ _ ‹_›)
      | (split at h)
      | (simp only at h))

theorem parseCode3_errInv (sd : Bool) (fs : Nat) (data : Bytes) (len : Int) : errInv (parseCode3 sd fs data len) := by
  intro e h
  unfold parseCode3 at h
  repeat' (first
    | (simp at h; done)
    | (simp at h; exact Eq.symm h)
    | (simp at h; subst h; first
        | exact vbrSizes_errInv _ _ _ _ _ ‹_›
        | exact padChain_errInv _ _ _ _ ‹_›
        | (rename_i hps; split at hps
           · exact padChain_errInv _ _ _ _ hps
           · simp at hps))
    | (split at h)
    | (simp only at h))

theorem parseHdr_errInv (sd : Bool) (toc : Nat) (data : Bytes) (len : Int) : errInv (parseHdr sd toc data len) := by
  intro e h
  unfold parseHdr at h
  repeat' (first
    | (simp at h; done)
    | (simp at h; exact Eq.symm h)
    | exact parseCode3_errInv _ _ _ _ _ h
    | (simp at h; subst h; exact parseSize_errInv _ _ _ ‹_›)
    | (split at h)
    | (simp only at h))

theorem finish_errInv (sd : Bool) (total toc : Nat) (hh : Hdr) : errInv (finish sd total toc hh) := by
  intro e h
  unfold finish at h
  repeat' (first
    | (simp at h; done)
    | (simp at h; exact Eq.symm h)
    | (simp at h; subst h; exact parseSize_errInv _ _ _ ‹_›)
    | (split at h)
    | (simp only at h))

theorem parseImpl_err_invalid (sd : Bool) (bs : Bytes) (e : Err) (h : parseImpl sd bs = .err e) :
    e = .invalidPacket := by
  unfold parseImpl at h
  cases bs with
  | nil => simp at h; exact h.symm
  | cons toc data =>
    simp only at h
    split at h
    · exact finish_errInv _ _ _ _ _ h
    · rename_i e' hhdr; simp at h; subst h; exact parseHdr_errInv _ _ _ _ _ hhdr
    · simp at h
    · simp at h



/-! ### Helpers -/

/-- On an accepted packet the frame-count helper agrees with the parser. -/
theorem getNbFrames_agrees (bs : Bytes) (hb : BytesOk bs) (r : Parsed) (h : parseImpl false bs = .ok r) :
    getNbFrames bs = .ok r.count := by
  obtain ⟨p, rest, hv, hbs, hr, hview⟩ := parse_sound false bs hb r h
  subst hview
  have hrest := hr rfl
  subst hrest
  have h4 : p.toc % 4 < 4 := Nat.mod_lt _ (by decide)
  have hcases : p.code = 0 ∨ p.code = 1 ∨ p.code = 2 ∨ p.code = 3 := by unfold Packet.code; omega
  have hser : serialize false p = p.toc :: ((if p.code = 3 then [countByte p] ++ padHdrOf p else []) ++
      (lenFields false p).flatMap encLen ++ p.frames.flatten ++ padBytes p) := by
    simp [serialize, header, padHdrOf]
    by_cases hc3 : p.code = 3
    · simp [hc3]; cases p.pad <;> rfl
    · simp [hc3]
  rw [hbs, List.append_nil, hser]
  unfold getNbFrames
  simp only [view]
  rcases hcases with hc | hc | hc | hc
  · have : p.toc % 4 = 0 := hc
    simp [this, (hv.code0 hc).1]
  · have : p.toc % 4 = 1 := hc
    simp [this, (hv.code1 hc).1]
  · have : p.toc % 4 = 2 := hc
    simp [this, (hv.code2 hc).1]
  · have h3 : p.toc % 4 = 3 := hc
    obtain ⟨h1, h2, _⟩ := hv.code3 hc
    have hge := frameDur48_ge p.toc (List.mem_range.mpr hv.toc_byte)
    have hn : p.frames.length < 64 := by
      apply Decidable.byContradiction; intro hgt
      have : 120 * 64 ≤ frameDur48 p.toc * p.frames.length := Nat.mul_le_mul hge (by omega)
      omega
    simp [h3, hc, countByte_mod p hn]

/-- `opus_packet_has_lbrr` (repaired code) never reads outside the packet. -/
theorem hasLbrr_nofault (bs : Bytes) (hb : BytesOk bs) : fault (hasLbrr bs) = false := by
  unfold hasLbrr
  cases bs with
  | nil => rfl
  | cons toc data =>
    simp only
    split
    · rfl
    · have hnf := parseImpl_nofault false (toc :: data)
      split
      · rename_i r hr
        obtain ⟨p, rest, hv, hbs, hrr, hview⟩ := parse_sound false (toc :: data) hb r hr
        have hrest := hrr rfl
        subst hrest
        subst hview
        simp only [view]
        cases hfr : p.frames with
        | nil =>
          exfalso
          have h4 : p.toc % 4 < 4 := Nat.mod_lt _ (by decide)
          have hcases : p.code = 0 ∨ p.code = 1 ∨ p.code = 2 ∨ p.code = 3 := by unfold Packet.code; omega
          rcases hcases with hc | hc | hc | hc
          · have := (hv.code0 hc).1; rw [hfr] at this; simp at this
          · have := (hv.code1 hc).1; rw [hfr] at this; simp at this
          · have := (hv.code2 hc).1; rw [hfr] at this; simp at this
          · have := (hv.code3 hc).1; rw [hfr] at this; simp at this
        | cons f0 fs =>
          simp only [Packet.lens, hfr, List.map_cons]
          split
          · rfl
          · rename_i hne
            have hdrop : (toc :: data).drop (header false p).length = p.frames.flatten ++ padBytes p := by
              rw [hbs, List.append_nil]; simp [serialize]
            rw [hdrop, hfr]
            cases f0 with
            | nil => simp at hne
            | cons b f0' =>
              simp only [List.flatten_cons, List.cons_append]
              split <;> rfl
      · rfl
      · rename_i h; rw [h] at hnf; simp [fault] at hnf
      · rename_i h; rw [h] at hnf; simp [fault] at hnf


end Opus.FramingProofs
