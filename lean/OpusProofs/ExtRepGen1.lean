import OpusProofs.ExtRepSpec
/-
  C16 helper lemmas, part 18: the index arrays of the generator (`frame_min_idx`, `frame_repeat_idx`) as
  queues; the repeat test, and advancing the repeat pointers.
-/
set_option linter.unusedVariables false
namespace Opus.ExtProofs
open Opus Opus.Ext

theorem seg_empty (exts : Array Ext) {i hi : Nat} (f : Nat) (h : hi ≤ i) : seg exts i hi f = [] := by
  unfold seg; have : hi - i = 0 := by omega
  simp [this]

theorem seg_split (exts : Array Ext) {i j hi : Nat} (f : Nat) (h1 : i ≤ j) (h2 : j ≤ hi) :
    seg exts i hi f = seg exts i j f ++ seg exts j hi f := by
  unfold seg
  rw [show hi - i = (j - i) + (hi - j) by omega, List.take_add, List.filter_append, List.drop_drop,
    show i + (j - i) = j by omega]

/-- `frame_repeat_idx[g]` / `frame_min_idx[g]` is "clean": past the end of frame `g`, or at an extension of frame `g`. -/
def Clean (exts : Array Ext) (mx : List Nat) (i g : Nat) : Prop :=
  ∀ e, exts[i]? = some e → i < mx.getD g 0 → e.frame.toNat = g

/-- The queue of frame `g` as seen through an index array. -/
def remQ (exts : Array Ext) (mx idx : List Nat) (g : Nat) : List Ext := seg exts (idx.getD g 0) (mx.getD g 0) g

/-- The queues of frames `g0, g0+1, …, nbF-1`. -/
def remsFrom (exts : Array Ext) (mx idx : List Nat) (nbF g0 : Nat) : List (List Ext) :=
  (List.range' g0 (nbF - g0)).map (remQ exts mx idx)

theorem remsFrom_succ (exts : Array Ext) (mx idx : List Nat) {nbF g : Nat} (h : g < nbF) :
    remsFrom exts mx idx nbF g = remQ exts mx idx g :: remsFrom exts mx idx nbF (g + 1) := by
  unfold remsFrom
  rw [show nbF - g = (nbF - (g + 1)) + 1 by omega, List.range'_succ, List.map_cons]

theorem remsFrom_end (exts : Array Ext) (mx idx : List Nat) {nbF g : Nat} (h : nbF ≤ g) : remsFrom exts mx idx nbF g = [] := by
  unfold remsFrom; have : nbF - g = 0 := by omega
  simp [this]

theorem remsFrom_length (exts : Array Ext) (mx idx : List Nat) (nbF g : Nat) : (remsFrom exts mx idx nbF g).length = nbF - g := by
  simp [remsFrom]

theorem clean_head {exts : Array Ext} {mx : List Nat} {i g : Nat} (hc : Clean exts mx i g) (hlt : i < mx.getD g 0)
    (hmx : mx.getD g 0 ≤ exts.size) :
    ∃ e, exts[i]? = some e ∧ e.frame.toNat = g ∧ seg exts i (mx.getD g 0) g = e :: seg exts (i + 1) (mx.getD g 0) g := by
  have hin : i < exts.size := by omega
  have hget : exts[i]? = some exts[i] := by simp [hin]
  refine ⟨exts[i], hget, hc _ hget hlt, ?_⟩
  rw [seg_step exts i _ g _ hlt hget]
  simp [hc _ hget hlt]

section
variable {exts : Array Ext} {nbF : Nat} {mx : List Nat}

theorem canRepeat_spec (hv : AllIF exts nbF) (hmxl : mx.length = nbF) (hmx : ∀ g, g < nbF → mx.getD g 0 ≤ exts.size)
    (rep : List Nat) (hrl : rep.length = nbF) (e : Ext) (g0 : Nat) :
    (∀ g, g0 ≤ g → g < nbF → Clean exts mx (rep.getD g 0) g) →
    canRepeat exts mx rep nbF e g0 = .ok (headsMatch (remsFrom exts mx rep nbF g0) e) := by
  fun_induction canRepeat exts mx rep nbF e g0 with
  | case1 g hlt r m hm hr hle =>
    intro hc
    rw [rdN_getD (by rw [hrl]; exact hlt)] at hr
    rw [rdN_getD (by rw [hmxl]; exact hlt)] at hm
    cases hr; cases hm
    rw [remsFrom_succ _ _ _ hlt]
    simp only [headsMatch, List.all_cons, remQ, seg_empty exts g hle, List.head?_nil, Bool.false_and]
  | case2 g hlt r m hm hr hle x hx hfr =>
    intro hc
    exfalso
    rw [rdN_getD (by rw [hrl]; exact hlt)] at hr
    rw [rdN_getD (by rw [hmxl]; exact hlt)] at hm
    cases hr; cases hm
    obtain ⟨x', hx1, hx2, _⟩ := clean_head (hc g (Nat.le_refl _) hlt) (by omega) (hmx g hlt)
    simp only [rdE, hx1] at hx; cases hx
    have := (hv _ _ hx1).fr_lo
    omega
  | case3 g hlt r m hm hr hle x hx hfr hid =>
    intro hc
    rw [rdN_getD (by rw [hrl]; exact hlt)] at hr
    rw [rdN_getD (by rw [hmxl]; exact hlt)] at hm
    cases hr; cases hm
    obtain ⟨x', hx1, hx2, hx3⟩ := clean_head (hc g (Nat.le_refl _) hlt) (by omega) (hmx g hlt)
    simp only [rdE, hx1] at hx; cases hx
    rw [remsFrom_succ _ _ _ hlt]
    simp only [headsMatch, List.all_cons, remQ, hx3, List.head?_cons, matchB]
    simp [hid]
  | case4 g hlt r m hm hr hle x hx hfr hid hlen =>
    intro hc
    rw [rdN_getD (by rw [hrl]; exact hlt)] at hr
    rw [rdN_getD (by rw [hmxl]; exact hlt)] at hm
    cases hr; cases hm
    obtain ⟨x', hx1, hx2, hx3⟩ := clean_head (hc g (Nat.le_refl _) hlt) (by omega) (hmx g hlt)
    simp only [rdE, hx1] at hx; cases hx
    rw [remsFrom_succ _ _ _ hlt]
    simp only [headsMatch, List.all_cons, remQ, hx3, List.head?_cons, matchB]
    simp [hlen.1, hlen.2]
  | case5 g hlt r m hm hr hle x hx hfr hid hlen ih =>
    intro hc
    rw [rdN_getD (by rw [hrl]; exact hlt)] at hr
    rw [rdN_getD (by rw [hmxl]; exact hlt)] at hm
    cases hr; cases hm
    obtain ⟨x', hx1, hx2, hx3⟩ := clean_head (hc g (Nat.le_refl _) hlt) (by omega) (hmx g hlt)
    simp only [rdE, hx1] at hx; cases hx
    rw [ih (fun g' h1 h2 => hc g' (by omega) h2), remsFrom_succ _ _ _ hlt]
    have hmb : matchB x e = true := by
      have h1 : x.id = e.id := Decidable.not_not.mp hid
      show (decide (x.id = e.id) && !(decide (x.id < 32) && decide (x.len ≠ e.len))) = true
      rw [decide_eq_true h1, Bool.true_and]
      by_cases h2 : x.id < 32
      · have h3 : ¬ (x.len ≠ e.len) := fun h => hlen ⟨h2, h⟩
        rw [decide_eq_true h2, Bool.true_and, decide_eq_false h3]; rfl
      · rw [decide_eq_false h2, Bool.false_and]; rfl
    simp only [headsMatch, List.all_cons, remQ, hx3, List.head?_cons, hmb, Bool.true_and]
  | case6 g hlt r m hm hr hle er hx =>
    intro hc; exfalso
    rw [rdN_getD (by rw [hrl]; exact hlt)] at hr
    rw [rdN_getD (by rw [hmxl]; exact hlt)] at hm
    cases hr; cases hm
    obtain ⟨x', hx1, _⟩ := clean_head (hc g (Nat.le_refl _) hlt) (by omega) (hmx g hlt)
    simp only [rdE, hx1] at hx; cases hx
  | case7 g hlt r m hm hr hle hx =>
    intro hc; exfalso
    rw [rdN_getD (by rw [hrl]; exact hlt)] at hr
    rw [rdN_getD (by rw [hmxl]; exact hlt)] at hm
    cases hr; cases hm
    obtain ⟨x', hx1, _⟩ := clean_head (hc g (Nat.le_refl _) hlt) (by omega) (hmx g hlt)
    simp only [rdE, hx1] at hx; cases hx
  | case8 g hlt r m hm hr hle hx =>
    intro hc; exfalso
    rw [rdN_getD (by rw [hrl]; exact hlt)] at hr
    rw [rdN_getD (by rw [hmxl]; exact hlt)] at hm
    cases hr; cases hm
    obtain ⟨x', hx1, _⟩ := clean_head (hc g (Nat.le_refl _) hlt) (by omega) (hmx g hlt)
    simp only [rdE, hx1] at hx; cases hx
  | case9 g hlt hne =>
    intro _; exfalso
    exact hne _ _ (rdN_getD (by rw [hrl]; exact hlt)) (rdN_getD (by rw [hmxl]; exact hlt))
  | case10 g hge =>
    intro _
    rw [remsFrom_end _ _ _ (by omega)]
    rfl

theorem skipToFrame_spec (hv : AllIF exts nbF) (g j hi : Nat) (hhi : hi ≤ exts.size) :
    ∃ j', skipToFrame exts g j hi = .ok j' ∧ j ≤ j' ∧ (j ≤ hi → j' ≤ hi) ∧
      (∀ e, exts[j']? = some e → j' < hi → e.frame.toNat = g) ∧ seg exts j' hi g = seg exts j hi g ∧ seg exts j j' g = [] := by
  fun_induction skipToFrame exts g j hi with
  | case1 j hlt x hx hfr ih =>
    obtain ⟨j', h1, h2, h3, h4, h5, h6⟩ := ih
    have hget : exts[j]? = some x := by
      simp only [rdE] at hx; split at hx
      · rename_i v hv'; simp only [Res.ok.injEq] at hx; subst hx; exact hv'
      · cases hx
    have hfn : ¬ x.frame.toNat = g := by have := (hv _ _ hget).fr_lo; omega
    refine ⟨j', h1, by omega, fun _ => h3 (by omega), h4, ?_, ?_⟩
    · rw [h5, seg_step exts j hi g x hlt hget]; simp [hfn]
    · by_cases hjj : j + 1 ≤ j'
      · rw [seg_split exts g (show j ≤ j + 1 by omega) hjj, h6]
        have : seg exts j (j + 1) g = [] := by
          rw [seg_step exts j (j + 1) g x (by omega) hget, seg_empty exts g (Nat.le_refl _)]; simp [hfn]
        rw [this]; rfl
      · omega
  | case2 j hlt x hx hfr =>
    have hget : exts[j]? = some x := by
      simp only [rdE] at hx; split at hx
      · rename_i v hv'; simp only [Res.ok.injEq] at hx; subst hx; exact hv'
      · cases hx
    refine ⟨j, rfl, Nat.le_refl _, fun h => h, ?_, rfl, seg_empty exts g (Nat.le_refl _)⟩
    intro e he _
    rw [hget] at he; cases he
    have := (hv _ _ hget).fr_lo
    have : x.frame = (g : Int) := Decidable.not_not.mp hfr
    omega
  | case3 j hlt er hx =>
    exfalso; simp only [rdE] at hx
    have : exts[j]? = some exts[j] := Array.getElem?_eq_getElem (by omega)
    rw [this] at hx; cases hx
  | case4 j hlt hx =>
    exfalso; simp only [rdE] at hx
    have : exts[j]? = some exts[j] := Array.getElem?_eq_getElem (by omega)
    rw [this] at hx; cases hx
  | case5 j hlt hx =>
    exfalso; simp only [rdE] at hx
    have : exts[j]? = some exts[j] := Array.getElem?_eq_getElem (by omega)
    rw [this] at hx; cases hx
  | case6 j hge =>
    refine ⟨j, rfl, Nat.le_refl _, fun h => h, fun e _ h => by omega, rfl, seg_empty exts g (Nat.le_refl _)⟩

theorem getD_set_eq' (l : List Nat) (i v : Nat) (h : i < l.length) : (l.set i v).getD i 0 = v := by
  simp [List.getD, h]

theorem getD_set_ne' (l : List Nat) (i j v : Nat) (h : i ≠ j) : (l.set i v).getD j 0 = l.getD j 0 := by
  simp [List.getD, List.getElem?_set_ne h]

/-- "Advance the repeat pointers": every queue from `g0` on loses its head. -/
theorem advanceRep_spec (hv : AllIF exts nbF) (hmxl : mx.length = nbF) (hmx : ∀ g, g < nbF → mx.getD g 0 ≤ exts.size)
    (g0 : Nat) (rep : List Nat) :
    rep.length = nbF →
    (∀ g, g0 ≤ g → g < nbF → Clean exts mx (rep.getD g 0) g ∧ rep.getD g 0 < mx.getD g 0) →
    ∃ rep', advanceRep exts mx nbF g0 rep = .ok rep' ∧ rep'.length = nbF ∧
      (∀ g, g < g0 → rep'.getD g 0 = rep.getD g 0) ∧
      ∀ g, g0 ≤ g → g < nbF →
        Clean exts mx (rep'.getD g 0) g ∧ rep.getD g 0 < rep'.getD g 0 ∧ rep'.getD g 0 ≤ mx.getD g 0 ∧
        remQ exts mx rep' g = (remQ exts mx rep g).tail ∧
        seg exts (rep.getD g 0) (rep'.getD g 0) g = (remQ exts mx rep g).take 1 := by
  fun_induction advanceRep exts mx nbF g0 rep with
  | case1 g rep hlt r m hm hr j hj ih =>
    intro hrl hc
    rw [rdN_getD (by rw [hrl]; exact hlt)] at hr
    rw [rdN_getD (by rw [hmxl]; exact hlt)] at hm
    cases hr; cases hm
    obtain ⟨hcg, hltg⟩ := hc g (Nat.le_refl _) hlt
    obtain ⟨e, he1, he2, he3⟩ := clean_head hcg hltg (hmx g hlt)
    obtain ⟨j', hj1, hj2, hj3, hj4, hj5, hj6⟩ := skipToFrame_spec hv g (rep.getD g 0 + 1) (mx.getD g 0) (hmx g hlt)
    rw [hj] at hj1; cases hj1
    obtain ⟨rep', h1, h2, h3, h4⟩ := ih (by simp [hrl]) (fun g' hg1 hg2 => by
      rw [getD_set_ne' _ _ _ _ (by omega)]; exact hc g' (by omega) hg2)
    refine ⟨rep', h1, h2, ?_, ?_⟩
    · intro g' hg'; rw [h3 g' (by omega), getD_set_ne' _ _ _ _ (by omega)]
    · intro g' hg1 hg2
      by_cases hgg : g' = g
      · subst hgg
        have hval : rep'.getD g' 0 = j := by rw [h3 g' (by omega), getD_set_eq' _ _ _ (by rw [hrl]; exact hlt)]
        rw [hval]
        refine ⟨fun e' he' hlt' => hj4 e' he' hlt', by omega, hj3 (by omega), ?_, ?_⟩
        · unfold remQ; rw [hval, hj5, he3]; rfl
        · rw [seg_split exts g' (show rep.getD g' 0 ≤ rep.getD g' 0 + 1 by omega) hj2, hj6]
          unfold remQ; rw [he3]
          rw [seg_step exts _ _ g' e (by omega) he1, seg_empty exts g' (Nat.le_refl _)]
          simp [he2]
      · have hne : g ≠ g' := fun h => hgg h.symm
        have := h4 g' (by omega) hg2
        rw [getD_set_ne' _ _ _ _ hne] at this
        unfold remQ at this ⊢
        rw [getD_set_ne' _ _ _ _ hne] at this
        exact this
  | case2 g rep hlt r m hm hr er hj =>
    intro hrl hc; exfalso
    rw [rdN_getD (by rw [hmxl]; exact hlt)] at hm; cases hm
    obtain ⟨j', hj1, _⟩ := skipToFrame_spec hv g (r + 1) (mx.getD g 0) (hmx g hlt)
    rw [hj] at hj1; cases hj1
  | case3 g rep hlt r m hm hr hj =>
    intro hrl hc; exfalso
    rw [rdN_getD (by rw [hmxl]; exact hlt)] at hm; cases hm
    obtain ⟨j', hj1, _⟩ := skipToFrame_spec hv g (r + 1) (mx.getD g 0) (hmx g hlt)
    rw [hj] at hj1; cases hj1
  | case4 g rep hlt r m hm hr hj =>
    intro hrl hc; exfalso
    rw [rdN_getD (by rw [hmxl]; exact hlt)] at hm; cases hm
    obtain ⟨j', hj1, _⟩ := skipToFrame_spec hv g (r + 1) (mx.getD g 0) (hmx g hlt)
    rw [hj] at hj1; cases hj1
  | case5 g rep hlt hne =>
    intro hrl _; exfalso
    exact hne _ _ (rdN_getD (by rw [hrl]; exact hlt)) (rdN_getD (by rw [hmxl]; exact hlt))
  | case6 g rep hge =>
    intro hrl _
    exact ⟨rep, rfl, hrl, fun _ _ => rfl, fun g' h1 h2 => by omega⟩

end
end Opus.ExtProofs
