import OpusProofs.RepackOutRange
/-
  C07 helper lemmas, part 8: `opus_packet_pad` / `opus_packet_unpad` on serialised valid packets.
-/
namespace Opus.RepackProofs
open Opus Opus.Framing Opus.FramingSpec Opus.FramingProofs Opus.Repack Opus.Ext

theorem frameDur48_spf8 : ∀ toc ∈ List.range 256,
    frameDur48 toc = 6 * samplesPerFrame toc 8000 ∧ samplesPerFrame toc 8000 ≤ 480 ∧ 20 ≤ samplesPerFrame toc 8000 := by
  decide +kernel

/-- A valid packet holds at most 120 ms. -/
theorem valid_dur (p : Packet) (hv : Valid p) : p.frames.length * samplesPerFrame p.toc 8000 ≤ 960 := by
  obtain ⟨h6, h480, _⟩ := frameDur48_spf8 p.toc (List.mem_range.mpr hv.toc_byte)
  have h4 : p.toc % 4 < 4 := Nat.mod_lt _ (by decide)
  have hcases : p.code = 0 ∨ p.code = 1 ∨ p.code = 2 ∨ p.code = 3 := by unfold Packet.code; omega
  rcases hcases with hc | hc | hc | hc
  · rw [(hv.code0 hc).1]; omega
  · rw [(hv.code1 hc).1]; omega
  · rw [(hv.code2 hc).1]; omega
  · have := (hv.code3 hc).2.1
    rw [h6, Nat.mul_assoc, Nat.mul_comm (samplesPerFrame p.toc 8000)] at this
    omega

theorem valid_ne (p : Packet) (hv : Valid p) : p.frames ≠ [] := by
  have h4 : p.toc % 4 < 4 := Nat.mod_lt _ (by decide)
  have hcases : p.code = 0 ∨ p.code = 1 ∨ p.code = 2 ∨ p.code = 3 := by unfold Packet.code; omega
  intro h
  rcases hcases with hc | hc | hc | hc
  · have := (hv.code0 hc).1; simp [h] at this
  · have := (hv.code1 hc).1; simp [h] at this
  · have := (hv.code2 hc).1; simp [h] at this
  · have := (hv.code3 hc).1; simp [h] at this

/-- The repacketizer state after `cat` of a valid packet on an empty repacketizer. -/
def firstState (p : Packet) : Rp :=
  { toc := p.toc, framesize := samplesPerFrame p.toc 8000, frames := p.frames,
    pads := (padBytes p, p.frames.length) :: List.replicate (p.frames.length - 1) ([], 0) }

theorem serialize_cons (sd : Bool) (p : Packet) (rest : Bytes) :
    ∃ t, serialize sd p ++ rest = p.toc :: t := by
  simp [serialize, header]

theorem cat_first (sd : Bool) (p : Packet) (hv : Valid p) (rest : Bytes) (hrest : sd = false → rest = []) :
    catImpl Rp.empty (serialize sd p ++ rest) sd = (firstState p, .ok ()) := by
  obtain ⟨t, ht⟩ := serialize_cons sd p rest
  obtain ⟨hparse, hfr⟩ := parse_serialize_frames sd p hv rest hrest
  have h20 := (frameDur48_spf8 p.toc (List.mem_range.mpr hv.toc_byte)).2.2
  have hne := valid_ne p hv
  have hpos : 1 ≤ p.frames.length := List.length_pos_iff.mpr hne
  have hcat : catImpl Rp.empty (serialize sd p ++ rest) sd = catBody (withToc Rp.empty p.toc) (serialize sd p ++ rest) sd := by
    rw [ht, catImpl_eq, if_neg (by simp [Rp.empty, Rp.nbFrames])]
  have hw : withToc Rp.empty p.toc = { toc := p.toc, framesize := samplesPerFrame p.toc 8000, frames := [], pads := [] } := by
    simp [withToc, Rp.empty, Rp.nbFrames]
  rw [hcat, hw]
  have hacc := catBody_accept' { toc := p.toc, framesize := samplesPerFrame p.toc 8000, frames := [], pads := [] }
    (serialize sd p ++ rest) sd (view sd p) hparse (getNbFrames_serialize sd p hv rest) hpos
    (by simp [view, Rp.nbFrames]; exact valid_dur p hv) h20
  obtain ⟨r, hr, _, he⟩ := catBody_ok _ _ _ hacc
  rw [hparse] at hr; cases hr
  rw [he]
  congr 1
  simp only [catNew, List.nil_append, hfr, firstState]
  congr 2
  simp only [view, Parsed.padOffset, Packet.lens, sumN_map_length]
  have : serialize sd p ++ rest = (header sd p ++ p.frames.flatten) ++ (padBytes p ++ rest) := by simp [serialize]
  rw [this, ← List.length_append, List.drop_left, List.take_left]

/-- The canonical (unpadded, minimal) packet with these configuration bits and frames. -/
def canonPacket (toc : Nat) (frames : List Bytes) : Packet := outPacket toc frames 0 false false

theorem outPacket_nopad (toc : Nat) (frames : List Bytes) (maxlen : Int) (sd : Bool) :
    outPacket toc frames maxlen sd false = outPacket toc frames 0 sd false := by
  simp [outPacket, useLow, highPacket]

theorem canonPacket_congr (toc toc' : Nat) (frames : List Bytes) (h : toc / 4 = toc' / 4) :
    canonPacket toc frames = canonPacket toc' frames := by
  simp [canonPacket, outPacket, lowPacket, highPacket, h]

theorem extFree_cleared (pads : List (Bytes × Nat)) : ExtFree (pads.map fun _ => (([] : Bytes), 0)) := by
  intro pn hpn
  simp only [List.mem_map] at hpn
  obtain ⟨_, _, rfl⟩ := hpn
  exact count_nil 0 (by omega)

theorem selFrames_all (rp : Rp) : selFrames rp 0 rp.nbFrames = rp.frames := by
  simp [selFrames, Rp.nbFrames]

theorem inv_firstState (p : Packet) (hv : Valid p) : Inv (firstState p) := by
  have hpos : 1 ≤ p.frames.length := List.length_pos_iff.mpr (valid_ne p hv)
  refine ⟨fun _ => hv.toc_byte, fun _ => rfl, valid_dur p hv, hv.frame_max, ?_⟩
  simp [firstState]; omega

/-- `opus_packet_unpad` of a serialised valid packet is the canonical packet. -/
theorem unpad_serialize (p : Packet) (hv : Valid p) :
    packetUnpad (serialize false p) = .ok (serialize false (canonPacket p.toc p.frames)) := by
  have hne := valid_ne p hv
  have hlen : 1 ≤ (serialize false p).length := by
    obtain ⟨t, ht⟩ := serialize_cons false p []
    simp at ht; rw [ht]; simp
  have hcat := cat_first false p hv [] (fun _ => rfl)
  simp only [List.append_nil] at hcat
  unfold packetUnpad
  rw [if_neg (by omega)]
  simp only [cat, show init Rp.empty = Rp.empty from rfl, hcat]
  have hinv := inv_firstState p hv
  have hinv' : Inv { firstState p with pads := (firstState p).pads.map fun _ => (([] : Bytes), 0) } :=
    ⟨hinv.toc_lt, hinv.fs, hinv.dur, hinv.le, by simp [hinv.pads_len]⟩
  have hnb : ({ firstState p with pads := (firstState p).pads.map fun _ => (([] : Bytes), 0) } : Rp).nbFrames = p.frames.length := rfl
  have hpos : 0 < p.frames.length := List.length_pos_iff.mpr hne
  have hout := outRangeImpl_noext { firstState p with pads := (firstState p).pads.map fun _ => (([] : Bytes), 0) }
    0 p.frames.length hpos (by rw [hnb]; exact Nat.le_refl _) (extFree_cleared _) (serialize false p).length false false
  have hsel : selFrames { firstState p with pads := (firstState p).pads.map fun _ => (([] : Bytes), 0) } 0 p.frames.length = p.frames := by
    simp [selFrames, firstState]
  rw [hsel] at hout
  have hmin := minSize_minimal false p hv
  simp only [Packet.lens] at hmin
  rw [if_neg (by omega)] at hout
  rw [hnb]
  simp only [Int.ofNat_zero] at hout ⊢
  rw [hout]
  simp only []
  have hl := outPacket_len (firstState p).toc p.frames hne (serialize false p).length false false (by simpa using hmin)
  simp only [Bool.false_eq_true, if_false] at hl
  have hm1 : 1 ≤ minSize false (p.frames.map List.length) := by
    have := (minSize_le_tot3 false _ (by simpa using hne : p.frames.map List.length ≠ []))
    match hf : p.frames.map List.length with
    | [] => simp [hne] at hf
    | [l0] => simp [minSize, sdSize]; omega
    | [l0, l1] => simp [minSize, sdSize]; split <;> omega
    | l0 :: l1 :: l2 :: ls =>
      rw [tot3_le_of_min false _ (by simp), tot3_eq _ (by simp)]; simp [sdSize]; omega
  rw [if_pos (by constructor <;> omega)]
  rw [outPacket_nopad]; rfl

/-- The padding of `p` carries no extensions. -/
def PadFree (p : Packet) : Prop := Ext.count (padBytes p) (padBytes p).length p.frames.length = .ok 0

theorem extFree_firstState (p : Packet) (h : PadFree p) : ExtFree (firstState p).pads := by
  intro pn hpn
  simp only [firstState, List.mem_cons, List.mem_replicate] at hpn
  rcases hpn with rfl | ⟨_, rfl⟩
  · exact h
  · exact count_nil 0 (by omega)

/-- `opus_packet_pad` of a serialised valid packet (padding without extensions) to a larger size. -/
theorem pad_serialize (p : Packet) (hv : Valid p) (hfree : PadFree p) (newLen : Int)
    (hgt : ((serialize false p).length : Int) < newLen) :
    packetPad (serialize false p) newLen = .ok (serialize false (outPacket p.toc p.frames newLen false true)) := by
  have hne := valid_ne p hv
  have hlen : 1 ≤ (serialize false p).length := by
    obtain ⟨t, ht⟩ := serialize_cons false p []
    simp at ht; rw [ht]; simp
  have hcat := cat_first false p hv [] (fun _ => rfl)
  simp only [List.append_nil] at hcat
  unfold packetPad padImpl
  rw [if_neg (by omega), if_neg (by omega), if_neg (by omega)]
  simp only [cat, show init Rp.empty = Rp.empty from rfl, hcat]
  have hnb : (firstState p).nbFrames = p.frames.length := rfl
  have hpos : 0 < p.frames.length := List.length_pos_iff.mpr hne
  have hout := outRangeImpl_noext (firstState p) 0 p.frames.length hpos (by rw [hnb]; exact Nat.le_refl _)
    (extFree_firstState p hfree) newLen false true
  have hsel : selFrames (firstState p) 0 p.frames.length = p.frames := by simp [selFrames, firstState]
  rw [hsel] at hout
  have hmin := minSize_minimal false p hv
  simp only [Packet.lens] at hmin
  rw [if_neg (by omega)] at hout
  rw [hnb]
  simp only [Int.ofNat_zero] at hout ⊢
  rw [hout]; rfl

theorem pad_same (bs : Bytes) (h : 1 ≤ bs.length) : packetPad bs bs.length = .ok bs := by
  unfold packetPad padImpl
  rw [if_neg (by omega), if_pos rfl]

theorem pad_bad_arg (bs : Bytes) (newLen : Int) (h : bs.length < 1 ∨ newLen < bs.length) :
    packetPad bs newLen = .err .badArg := by
  unfold packetPad padImpl
  by_cases h1 : bs.length < 1
  · rw [if_pos h1]
  · rw [if_neg h1, if_neg (by omega), if_pos (by omega)]

/-- On a byte string that is not a valid packet `cat` on an empty repacketizer fails with
    `OPUS_INVALID_PACKET`. -/
theorem cat_first_invalid (bs : Bytes) (hb : BytesOk bs) (hne : bs ≠ []) (sd : Bool)
    (h : ∀ r, parseImpl sd bs ≠ .ok r) : (catImpl Rp.empty bs sd).2 = .err .invalidPacket := by
  cases bs with
  | nil => exact absurd rfl hne
  | cons b0 t =>
    have hb0 : b0 < 256 := hb b0 (by simp)
    have hw : withToc Rp.empty b0 = { toc := b0, framesize := samplesPerFrame b0 8000, frames := [], pads := [] } := by
      simp [withToc, Rp.empty, Rp.nbFrames]
    rw [catImpl_eq, if_neg (by simp [Rp.empty, Rp.nbFrames]), hw]
    apply catBody_err _ _ _ hb
    · exact (frameDur48_spf8 b0 (List.mem_range.mpr hb0)).2.2
    · intro hok
      obtain ⟨r, hr, _⟩ := catBody_ok _ _ _ hok
      exact h r hr

theorem unpad_invalid (bs : Bytes) (hb : BytesOk bs) (hne : bs ≠ []) (h : ∀ r, parseImpl false bs ≠ .ok r) :
    packetUnpad bs = .err .invalidPacket := by
  have hlen : ¬ bs.length < 1 := by
    cases bs with
    | nil => exact absurd rfl hne
    | cons => simp
  have hc := cat_first_invalid bs hb hne false h
  unfold packetUnpad
  rw [if_neg hlen]
  simp only [cat, show init Rp.empty = Rp.empty from rfl]
  generalize catImpl Rp.empty bs false = x at hc
  obtain ⟨rp, res⟩ := x
  simp only [] at hc
  subst hc
  rfl

theorem pad_invalid (bs : Bytes) (hb : BytesOk bs) (newLen : Int) (hlt : (bs.length : Int) < newLen) (hne : bs ≠ [])
    (h : ∀ r, parseImpl false bs ≠ .ok r) : packetPad bs newLen = .err .invalidPacket := by
  have hlen : ¬ bs.length < 1 := by
    cases bs with
    | nil => exact absurd rfl hne
    | cons => simp
  have hc := cat_first_invalid bs hb hne false h
  unfold packetPad padImpl
  rw [if_neg hlen, if_neg (by omega), if_neg (by omega)]
  simp only [cat, show init Rp.empty = Rp.empty from rfl]
  generalize catImpl Rp.empty bs false = x at hc
  obtain ⟨rp, res⟩ := x
  simp only [] at hc
  subst hc
  rfl

end Opus.RepackProofs
