import OpusProofs.CeltAllocFinal
/-
  OpusProofs.CeltAllocAgree — encoder/decoder agreement: the decoder-side run of `clt_compute_allocation`, fed with
  the values the encoder-side run handed to the range coder, reproduces every output.
-/
namespace OpusProofs.CeltAlloc
open Opus Opus.CeltAlloc
open Opus.Gen.CeltTables

/-- the value carried by a coder call -/
def opVal : Op → Nat
  | .bit v => v
  | .uint v _ => v

/-- The decoder's call: same frame parameters; `*intensity`, `*dual_stereo` are outputs only and `prev`,
    `signalBandwidth` are not used on the decoder side (celt_decoder.c passes 0, 0). -/
def decInp (p : Inp) (i d pv sb : Int) : Inp :=
  { p with intensity := i, dualStereo := d, prev := pv, signalBandwidth := sb }

/-- decoder coder state that has made the same calls as `ce` and still has `orc` to read -/
def decOf (ce : Coder) (orc : List Nat) : Coder := { encode := false, oracle := orc, ops := ce.ops }

theorem skipStep_agree (p : Inp) (i d pv sb : Int) (b : Band) (bits psum total irsv : Int) (ce : Coder)
    (he : ce.encode = true) :
    ∃ k, (skipStep p b bits psum total irsv ce).coder.ops = k ++ ce.ops ∧
      (skipStep p b bits psum total irsv ce).coder.encode = true ∧
      ∀ rest,
        let re := skipStep p b bits psum total irsv ce
        let rd := skipStep (decInp p i d pv sb) b bits psum total irsv (decOf ce (k.reverse.map opVal ++ rest))
        rd.stop = re.stop ∧ rd.psum = re.psum ∧ rd.irsv = re.irsv ∧ rd.newBits = re.newBits ∧
        rd.coder = decOf re.coder rest := by
  by_cases hc : bandBitsOf b bits psum total ≥ max b.thresh (allocFloor p.C + 2 ^ BITRES)
  · -- a flag is coded
    generalize hst : (decide (b.j + 1 ≤ p.start + 2) ||
        (decide (bandBitsOf b bits psum total > (if b.j + 1 > 17 then (if (b.j : Int) < p.prev then 7 else 9) else 0) *
          (b.w : Int) * 2 ^ p.LM * 2 ^ BITRES / 16) && decide ((b.j : Int) ≤ p.signalBandwidth))) = stop
    refine ⟨[.bit (if stop then 1 else 0)], ?_, ?_, ?_⟩
    · simp only [skipStep, hc, decide_true, if_true, he, Coder.encBit, hst, List.singleton_append]
    · simp only [skipStep, hc, decide_true, if_true, he, Coder.encBit]
    · intro rest
      simp only [skipStep, decInp, decOf, hc, decide_true, if_true, he, Coder.encBit, Coder.decBit, hst,
        Bool.false_eq_true, if_false, List.reverse_singleton, List.map_cons, List.map_nil, List.singleton_append,
        List.headD_cons, List.tail_cons, opVal]
      cases stop <;> simp
  · refine ⟨[], ?_, ?_, ?_⟩
    · simp only [skipStep, hc, decide_false, Bool.false_eq_true, if_false, List.nil_append]
    · simp only [skipStep, hc, decide_false, Bool.false_eq_true, if_false, he]
    · intro rest
      simp only [skipStep, decInp, decOf, hc, decide_false, Bool.false_eq_true, if_false, List.reverse_nil,
        List.map_nil, List.nil_append]
      exact ⟨trivial, trivial, trivial, trivial, trivial⟩


theorem skipLoop_agree (p : Inp) (i d pv sb : Int) (ss : Nat) (rsv : Int) :
    ∀ (l : List (Band × Int)) (psum total irsv : Int) (ce : Coder) (acc : List (Band × Int)) (s : SkipOut),
    ce.encode = true → skipLoop p ss rsv l psum total irsv ce acc = .ok s →
    ∃ k, s.coder.ops = k ++ ce.ops ∧ s.coder.encode = true ∧
      ∀ rest, skipLoop (decInp p i d pv sb) ss rsv l psum total irsv (decOf ce (k.reverse.map opVal ++ rest)) acc =
        .ok { s with coder := decOf s.coder rest } := by
  intro l
  induction l with
  | nil => intro _ _ _ _ _ _ _ h; simp [skipLoop] at h
  | cons hd tl ih =>
    intro psum total irsv ce acc s he h
    obtain ⟨b, bits⟩ := hd
    rw [skipLoop] at h
    by_cases hj : b.j ≤ ss
    · simp only [hj, if_true] at h
      injection h with h
      subst h
      refine ⟨[], by simp, he, fun rest => ?_⟩
      rw [skipLoop]
      simp only [hj, if_true, List.reverse_nil, List.map_nil, List.nil_append]
    · simp only [hj, if_false] at h
      obtain ⟨k1, hk1, he1, hstep⟩ := skipStep_agree p i d pv sb b bits psum total irsv ce he
      by_cases hst : (skipStep p b bits psum total irsv ce).stop = true
      · simp only [hst, if_true] at h
        injection h with h
        subst h
        refine ⟨k1, hk1, he1, fun rest => ?_⟩
        obtain ⟨a1, a2, a3, a4, a5⟩ := hstep rest
        rw [skipLoop]
        simp only [hj, if_false, a1, hst, if_true, a5]
      · simp only [hst, Bool.false_eq_true, if_false] at h
        obtain ⟨k2, hk2, he2, hrec⟩ := ih _ total _ _ _ s he1 h
        refine ⟨k2 ++ k1, by rw [hk2, hk1, List.append_assoc], he2, fun rest => ?_⟩
        obtain ⟨a1, a2, a3, a4, a5⟩ := hstep (k2.reverse.map opVal ++ rest)
        rw [skipLoop]
        have e : (k2 ++ k1).reverse.map opVal ++ rest = k1.reverse.map opVal ++ (k2.reverse.map opVal ++ rest) := by
          simp [List.reverse_append, List.map_append, List.append_assoc]
        simp only [hj, if_false, e, a1, hst, Bool.false_eq_true, a2, a3, a4, a5]
        exact hrec rest

theorem codeStereo_agree (p : Inp) (i d pv sb : Int) (s : SkipOut) (ds : Int) (he : s.coder.encode = true)
    (hcb : p.start < s.codedBands) (hint : (p.start : Int) ≤ p.intensity)
    (hdual : p.dualStereo = 0 ∨ p.dualStereo = 1) :
    ∃ k, (codeStereo p s ds).2.2.2.ops = k ++ s.coder.ops ∧
      ∀ rest, codeStereo (decInp p i d pv sb) { s with coder := decOf s.coder (k.reverse.map opVal ++ rest) } ds =
        ((codeStereo p s ds).1, (codeStereo p s ds).2.1, (codeStereo p s ds).2.2.1, decOf (codeStereo p s ds).2.2.2 rest) := by
  -- which calls are made
  by_cases hir : s.irsv > 0
  · have hv : (min p.intensity (s.codedBands : Int) - (p.start : Int)).toNat % (s.codedBands + 1 - p.start) =
        (min p.intensity (s.codedBands : Int) - (p.start : Int)).toNat := Nat.mod_eq_of_lt (by omega)
    have hback : (p.start : Int) + ((min p.intensity (s.codedBands : Int) - (p.start : Int)).toNat : Nat) =
        min p.intensity (s.codedBands : Int) := by omega
    by_cases hle : min p.intensity (s.codedBands : Int) ≤ (p.start : Int)
    · refine ⟨[.uint (min p.intensity (s.codedBands : Int) - (p.start : Int)).toNat (s.codedBands + 1 - p.start)], ?_, ?_⟩
      · simp only [codeStereo, hir, he, if_true, hle, Coder.encUint, show ¬ (0 : Int) > 0 by omega, if_false,
          List.singleton_append]
      · intro rest
        simp only [codeStereo, decInp, decOf, hir, he, if_true, Bool.false_eq_true, if_false, Coder.decUint,
          Coder.encUint, List.reverse_singleton, List.map_cons, List.map_nil, List.singleton_append, List.headD_cons,
          List.tail_cons, opVal, hv, hback, hle, show ¬ (0 : Int) > 0 by omega]
    · by_cases hds : ds > 0
      · refine ⟨[.bit (if p.dualStereo ≠ 0 then 1 else 0),
          .uint (min p.intensity (s.codedBands : Int) - (p.start : Int)).toNat (s.codedBands + 1 - p.start)], ?_, ?_⟩
        · simp only [codeStereo, hir, he, if_true, hle, if_false, hds, Coder.encUint, Coder.encBit,
            List.cons_append, List.nil_append]
        · intro rest
          simp only [codeStereo, decInp, decOf, hir, he, if_true, Bool.false_eq_true, if_false, Coder.decUint,
            Coder.encUint, Coder.encBit, Coder.decBit, List.reverse_cons, List.reverse_nil, List.nil_append,
            List.map_cons, List.map_nil, List.cons_append, List.singleton_append, List.headD_cons, List.tail_cons,
            opVal, hv, hback, hle, hds]
          rcases hdual with h | h <;> simp [h]
      · refine ⟨[.uint (min p.intensity (s.codedBands : Int) - (p.start : Int)).toNat (s.codedBands + 1 - p.start)], ?_, ?_⟩
        · simp only [codeStereo, hir, he, if_true, hle, if_false, hds, Coder.encUint, List.singleton_append]
        · intro rest
          simp only [codeStereo, decInp, decOf, hir, he, if_true, Bool.false_eq_true, if_false, Coder.decUint,
            Coder.encUint, List.reverse_singleton, List.map_cons, List.map_nil, List.singleton_append, List.headD_cons,
            List.tail_cons, opVal, hv, hback, hle, hds]
  · refine ⟨[], ?_, ?_⟩
    · simp only [codeStereo, hir, if_false, show (0 : Int) ≤ (p.start : Int) by omega, if_true,
        show ¬ (0 : Int) > 0 by omega, List.nil_append]
    · intro rest
      simp only [codeStereo, decInp, decOf, hir, if_false, show (0 : Int) ≤ (p.start : Int) by omega, if_true,
        show ¬ (0 : Int) > 0 by omega, List.reverse_nil, List.map_nil, List.nil_append]


theorem splitLoop_decInp (p : Inp) (i d pv sb : Int) (inten dual : Int) : ∀ (l : List (Band × Int)) (bal : Int),
    splitLoop (decInp p i d pv sb) inten dual l bal = splitLoop p inten dual l bal := by
  intro l
  induction l with
  | nil => intro bal; rfl
  | cons x t ih =>
    intro bal
    obtain ⟨b, bits⟩ := x
    simp only [splitLoop]
    have e : splitBand (decInp p i d pv sb) inten dual b bits bal = splitBand p inten dual b bits bal := rfl
    rw [e, ih]

/-- **Encoder/decoder agreement.**  If the encoder-side run (any dual-stereo decision in {0,1}, any intensity
    `≥ start`, any `prev` / `signalBandwidth`) returns `o`, then the decoder-side run — same frame parameters, its own
    (ignored) values for the in/out parameters, fed with the values the encoder handed to the range coder followed by
    anything — returns exactly `o`: same `codedBands`, `balance`, `intensity`, `dual_stereo`, `pulses[]`, `ebits[]`,
    `fine_priority[]`, and the same sequence of coder calls. -/
theorem alloc_agree (p : Inp) (hp : Dom p) (orc : List Nat) (o : Out)
    (hint : (p.start : Int) ≤ p.intensity) (hdual : p.dualStereo = 0 ∨ p.dualStereo = 1)
    (h : computeAllocation p { encode := true, oracle := orc, ops := [] } = .ok o)
    (i d pv sb : Int) (rest : List Nat) :
    computeAllocation (decInp p i d pv sb) { encode := false, oracle := o.ops.map opVal ++ rest, ops := [] } = .ok o := by
  -- the encoder run, step by step
  obtain ⟨o', ho', hcb, _⟩ := alloc_main p hp { encode := true, oracle := orc, ops := [] }
    (fun _ => ⟨hdual, by omega⟩)
  rw [h] at ho'
  injection ho' with ho'
  subst ho'
  rw [computeAllocation_eq] at h
  have hfin : ∀ (c : Coder), finish p (bands p) (b12 p) (skipStart p.start (bands p)) (tot p) (skipRsv p)
      (irsv p) (dsrsv p) (ilo p) c =
      (skipLoop p (skipStart p.start (bands p)) (skipRsv p) (l0 p) (sumInt (bits0 p)) (tot p) (irsv p) c [] >>=
        fun s => pure (finishTail p s (dsrsv p))) := fun _ => rfl
  have hfinD : ∀ (c : Coder), finish (decInp p i d pv sb) (bands p) (b12 p) (skipStart p.start (bands p)) (tot p)
      (skipRsv p) (irsv p) (dsrsv p) (ilo p) c =
      (skipLoop (decInp p i d pv sb) (skipStart p.start (bands p)) (skipRsv p) (l0 p) (sumInt (bits0 p)) (tot p)
        (irsv p) c [] >>= fun s => pure (finishTail (decInp p i d pv sb) s (dsrsv p))) := fun _ => rfl
  rw [hfin] at h
  cases hs : skipLoop p (skipStart p.start (bands p)) (skipRsv p) (l0 p) (sumInt (bits0 p)) (tot p) (irsv p)
      { encode := true, oracle := orc, ops := [] } [] with
  | ok s =>
    rw [hs] at h
    have ho : o = finishTail p s (dsrsv p) := by
      have : (Res.ok (finishTail p s (dsrsv p)) : Res Out) = .ok o := h
      injection this with this; exact this.symm
    obtain ⟨k1, hk1, he1, hloop⟩ := skipLoop_agree p i d pv sb _ _ _ _ _ _ _ [] s rfl hs
    have hcb' : p.start < s.codedBands := by rw [ho] at hcb; exact hcb
    obtain ⟨k2, hk2, hst⟩ := codeStereo_agree p i d pv sb s (dsrsv p) he1 hcb' hint hdual
    -- the oracle the decoder gets is exactly the encoder's calls in order
    have hops : o.ops = k1.reverse ++ k2.reverse := by
      rw [ho]
      simp only [finishTail, hk2, hk1, List.append_nil, List.reverse_append]
    have horc : o.ops.map opVal ++ rest = k1.reverse.map opVal ++ (k2.reverse.map opVal ++ rest) := by
      rw [hops, List.map_append, List.append_assoc]
    have hdec : computeAllocation (decInp p i d pv sb) { encode := false, oracle := o.ops.map opVal ++ rest, ops := [] } =
        finish (decInp p i d pv sb) (bands p) (b12 p) (skipStart p.start (bands p)) (tot p) (skipRsv p) (irsv p)
          (dsrsv p) (ilo p) { encode := false, oracle := o.ops.map opVal ++ rest, ops := [] } := rfl
    rw [hdec, hfinD, horc]
    have := hloop (k2.reverse.map opVal ++ rest)
    simp only [decOf] at this
    rw [this]
    show Res.ok (finishTail (decInp p i d pv sb) _ (dsrsv p)) = Res.ok o
    congr 1
    rw [ho]
    have hst' := hst rest
    simp only [decOf] at hst'
    simp only [finishTail, hst']
    have hdist : ∀ (t : Int) (c : Coder), distribute (decInp p i d pv sb) { s with coder := c } t = distribute p s t :=
      fun _ _ => rfl
    rw [hdist, splitLoop_decInp]
    rfl
  | err e => rw [hs] at h; cases h
  | oob => rw [hs] at h; cases h
  | abort => rw [hs] at h; cases h

end OpusProofs.CeltAlloc
