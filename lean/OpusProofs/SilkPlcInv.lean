import OpusProofs.SilkPlcConceal
/-
  OpusProofs.SilkPlcInv — the state invariant `PlcInv` of `silk_PLC_struct` (the bounds that are TRUE of the code):
  established by the zeroed state and by silk_PLC_Reset, preserved by silk_PLC( …, lost = 0 ) (silk_PLC_update) for every
  in-range decoder control and by silk_PLC( …, lost = 1 ) (silk_PLC_conceal, which under the invariant never aborts),
  hence after every history of received / lost frames and decoder resets.
-/
namespace Opus.SilkPlc
open Opus Opus.SilkParams Opus.Gen.PlcConsts Opus.Gen.SilkPlcCngConsts

/-- `opus_int16` range (same predicate as `SilkPlcGains.I16`). -/
abbrev J16 (x : Int) : Prop := -32768 ≤ x ∧ x ≤ 32767

/-- A SILK internal rate. -/
def FsOk (fs : Int) : Prop := fs = 8 ∨ fs = 12 ∨ fs = 16

/-- The invariant of `silk_PLC_struct`.  Unconditional part: array sizes, int16 taps, `randScale_Q14 ∈ [0, 32767]`
    (NOT `≤ 2^14`: see `ltp_limit_counterexample`), `prevLTP_scale_Q14 ∈ [0, 2^14]`.  Once the structure has been used
    at an internal rate (`fs_kHz ∈ {8,12,16}`): `2 ms ≤ pitchL_Q8 ≤ 18 ms` in Q8 samples and two positive `prevGain_Q16`. -/
structure PlcInv (p : Plc) : Prop where
  tapsLen : p.ltpCoef.length = 5
  tapsI16 : ∀ b ∈ p.ltpCoef, J16 b
  lpcLen : p.prevLPC.length = 16
  rs : 0 ≤ p.randScale ∧ p.randScale ≤ 32767
  plt : 0 ≤ p.prevLtpScale ∧ p.prevLtpScale ≤ 16384
  live : FsOk p.fsKHz → (512 * p.fsKHz ≤ p.pitchLQ8 ∧ p.pitchLQ8 ≤ 4608 * p.fsKHz) ∧
           p.prevGain.length = 2 ∧ ∀ g ∈ p.prevGain, 0 < g ∧ g ≤ 2147483647

/-- The decoder configuration silk_decoder_set_fs establishes (decoder_set_fs.c:44-104). -/
structure DecCfg (d : Dec) : Prop where
  fs : FsOk d.fsKHz
  nb : d.nbSubfr = 2 ∨ d.nbSubfr = 4
  sl : (d.subfrLength : Int) = 5 * d.fsKHz
  fl : d.frameLength = d.nbSubfr * d.subfrLength
  mem : (d.ltpMemLength : Int) = 20 * d.fsKHz
  order : (d.lpcOrder = 10 ∧ d.fsKHz ≠ 16) ∨ (d.lpcOrder = 16 ∧ d.fsKHz = 16)

/-- What silk_decode_parameters guarantees about the control structure of a decoded frame (C18): pitch lags within
    [2 ms, 18 ms] on voiced frames, positive gains, `LTP_scale_Q14 ∈ [0, 2^14]`, 16 LPC coefficients, 20 LTP taps (any
    int16 values — so every LTP codebook entry is covered). -/
structure CtrlOk (d : Dec) (c : Ctrl) : Prop where
  pitch : d.signalType = TYPE_VOICED → ∀ i, i < d.nbSubfr → 2 * d.fsKHz ≤ c.pitchL.getD i 0 ∧ c.pitchL.getD i 0 ≤ 18 * d.fsKHz
  gains : ∀ i, i < d.nbSubfr → 0 < c.gains.getD i 0 ∧ c.gains.getD i 0 ≤ 2147483647
  scale : 0 ≤ c.ltpScale ∧ c.ltpScale ≤ 16384
  lpc : c.predCoef1.length = 16

/-- The zeroed structure (silk_init_decoder / silk_reset_decoder memset). -/
def plcZero : Plc :=
  { pitchLQ8 := 0, ltpCoef := [0, 0, 0, 0, 0], prevLPC := List.replicate 16 0, lastFrameLost := 0, randSeed := 0,
    randScale := 0, concEnergy := 0, concEnergyShift := 0, prevLtpScale := 0, prevGain := [0, 0], fsKHz := 0,
    nbSubfr := 0, subfrLength := 0 }

theorem plcZero_inv : PlcInv plcZero :=
  { tapsLen := rfl, tapsI16 := by decide, lpcLen := rfl, rs := by decide, plt := by decide,
    live := fun h => by simp [FsOk, plcZero] at h }

theorem pow7 : (2 : Int) ^ 7 = 128 := by decide
theorem pow8 : (2 : Int) ^ 8 = 256 := by decide

/-- After the rate check of silk_PLC (PLC.c:84-87, silk_PLC_Reset included) the invariant holds with `fs_kHz` = the
    decoder's rate. -/
theorem plcRateCheck_inv (d : Dec) (hc : DecCfg d) (hi : PlcInv d.plc) :
    PlcInv (plcRateCheck d) ∧ (plcRateCheck d).fsKHz = d.fsKHz := by
  unfold plcRateCheck
  by_cases h : d.fsKHz ≠ d.plc.fsKHz
  · rw [if_pos h]
    refine ⟨?_, rfl⟩
    unfold plcReset
    refine ⟨hi.tapsLen, hi.tapsI16, hi.lpcLen, hi.rs, hi.plt, ?_⟩
    intro _
    dsimp only
    have hfl : (d.frameLength : Int) = d.nbSubfr * (5 * d.fsKHz) := by
      rw [hc.fl, ← hc.sl]; simp
    refine ⟨?_, rfl, by decide⟩
    unfold lshift32 wrap32
    rw [pow7, hfl]
    rcases hc.fs with h | h | h <;> rcases hc.nb with n | n <;> rw [h, n] <;> decide
  · rw [if_neg h]
    have h' : d.fsKHz = d.plc.fsKHz := by
      by_cases hh : d.fsKHz = d.plc.fsKHz
      · exact hh
      · exact absurd hh h
    exact ⟨hi, h'.symm⟩

theorem wrap16_J16 (x : Int) : J16 (wrap16 x) := by unfold J16 wrap16; omega

theorem updLtpCoef_ok (g : Int) : (updLtpCoef g).length = 5 ∧ ∀ b ∈ updLtpCoef g, J16 b := by
  unfold updLtpCoef
  dsimp only
  split
  · refine ⟨by simp, fun b hb => ?_⟩
    obtain ⟨a, _, rfl⟩ := List.mem_map.mp hb
    exact wrap16_J16 _
  · split
    · refine ⟨by simp, fun b hb => ?_⟩
      obtain ⟨a, _, rfl⟩ := List.mem_map.mp hb
      exact wrap16_J16 _
    · refine ⟨rfl, fun b hb => ?_⟩
      simp only [List.mem_cons, List.mem_nil_iff, or_false] at hb
      rcases hb with rfl | rfl | rfl | rfl | rfl
      all_goals first | exact wrap16_J16 _ | (unfold J16; omega)

/-- The scan PLC.c:135-151 returns as `pitchL_Q8` either the value it started from or `pitchL[k] << 8` of a sub-frame. -/
theorem updScan_pitch (Q : Int → Prop) (nb : Nat) (sl : Int) (pitchL ltp : List Int) (hnb : 0 < nb)
    (hq : ∀ i, i < nb → Q (lshift32 (pitchL.getD i 0) 8)) :
    ∀ (n j : Nat) (s : Int × Int), Q s.2 → Q (updScan nb sl pitchL ltp n j s).2
  | 0, _, _, h => h
  | n + 1, j, (g, p), h => by
    unfold updScan
    split
    · apply updScan_pitch Q nb sl pitchL ltp hnb hq n (j + 1)
      split
      · exact hq _ (by omega)
      · exact h
    · exact h

/-- silk_PLC_update (PLC.c:119-190) preserves the invariant, for every in-range control structure. -/
theorem plcUpdate_inv (d : Dec) (c : Ctrl) (p : Plc) (hc : DecCfg d) (hk : CtrlOk d c) (hi : PlcInv p)
    (hfs : p.fsKHz = d.fsKHz) : PlcInv (plcUpdate d c p).plc ∧ (plcUpdate d c p).plc.fsKHz = d.fsKHz := by
  have hnb : 2 ≤ d.nbSubfr := by rcases hc.nb with h | h <;> omega
  have hfsb : 8 ≤ d.fsKHz ∧ d.fsKHz ≤ 16 := by rcases hc.fs with h | h | h <;> omega
  have hlive := hi.live (by rw [hfs]; exact hc.fs)
  have hq : ∀ x : Int, 2 * d.fsKHz ≤ x ∧ x ≤ 18 * d.fsKHz → 512 * d.fsKHz ≤ lshift32 x 8 ∧ lshift32 x 8 ≤ 4608 * d.fsKHz := by
    intro x hx; unfold lshift32 wrap32; rw [pow8]; omega
  have hlpc : (List.take d.lpcOrder c.predCoef1 ++ List.drop d.lpcOrder p.prevLPC).length = 16 := by
    have := hk.lpc; have := hi.lpcLen
    simp only [List.length_append, List.length_take, List.length_drop]
    rcases hc.order with ⟨h, _⟩ | ⟨h, _⟩ <;> omega
  have hg : ([c.gains.getD (d.nbSubfr - 2) 0, c.gains.getD (d.nbSubfr - 1) 0] : List Int).length = 2 ∧
      ∀ g ∈ [c.gains.getD (d.nbSubfr - 2) 0, c.gains.getD (d.nbSubfr - 1) 0], 0 < g ∧ g ≤ 2147483647 := by
    refine ⟨rfl, fun g hg => ?_⟩
    simp only [List.mem_cons, List.mem_nil_iff, or_false] at hg
    rcases hg with rfl | rfl
    · exact hk.gains _ (by omega)
    · exact hk.gains _ (by omega)
  have hplt : 0 ≤ wrap16 c.ltpScale ∧ wrap16 c.ltpScale ≤ 16384 := by
    have := hk.scale; unfold wrap16; omega
  unfold plcUpdate
  by_cases hv : d.signalType = TYPE_VOICED
  · simp only [hv, ↓reduceIte]
    refine ⟨⟨(updLtpCoef_ok _).1, (updLtpCoef_ok _).2, hlpc, hi.rs, hplt, fun _ => ⟨?_, hg⟩⟩, hfs⟩
    dsimp only
    rw [hfs]
    exact updScan_pitch (fun x => 512 * d.fsKHz ≤ x ∧ x ≤ 4608 * d.fsKHz) d.nbSubfr _ _ _ (by omega)
      (fun i hi' => hq _ (hk.pitch hv i hi')) _ _ _ (by rw [← hfs]; exact hlive.1)
  · simp only [hv, ↓reduceIte]
    refine ⟨⟨rfl, (by decide : ∀ b ∈ ([0, 0, 0, 0, 0] : List Int), J16 b), hlpc, hi.rs, hplt, fun _ => ⟨?_, hg⟩⟩, hfs⟩
    dsimp only
    rw [hfs]
    rcases hc.fs with h | h | h <;> rw [h] <;> decide

/-! ### silk_PLC_conceal -/

theorem toI16_J16 (x : Int) : J16 (SilkPlcGains.toI16 x) := by unfold J16 SilkPlcGains.toI16; omega

theorem pow14 : (2 : Int) ^ 14 = 16384 := by decide
theorem pow15 : (2 : Int) ^ 15 = 32768 := by decide

/-- One attenuation step of the random scale (PLC.c:357) with ANY Q15 gain in [0, 32767] keeps it in [0, rs]. -/
theorem randStep_le (rs rg : Int) (hrs : 0 ≤ rs ∧ rs ≤ 32767) (hrg : 0 ≤ rg ∧ rg ≤ 32767) :
    0 ≤ SilkPlcGains.randStep rs rg ∧ SilkPlcGains.randStep rs rg ≤ rs := by
  unfold SilkPlcGains.randStep SilkPlcGains.rshift SilkPlcGains.smulbb
  have h1 : SilkPlcGains.toI16 rs = rs := by unfold SilkPlcGains.toI16; omega
  have h2 : SilkPlcGains.toI16 rg = rg := by unfold SilkPlcGains.toI16; omega
  rw [h1, h2, pow15]
  have a : 0 ≤ rs * rg := Int.mul_nonneg hrs.1 hrg.1
  have b : rs * rg ≤ rs * 32767 := Int.mul_le_mul_of_nonneg_left hrg.2 hrs.1
  unfold SilkPlcGains.toI16
  omega

theorem maxPitchQ8_eq (fs : Int) (h : FsOk fs) : maxPitchQ8 fs = 4608 * fs := by
  rcases h with h | h | h <;> rw [h] <;> decide

/-- The pitch-lag drift PLC.c:360-361 keeps `pitchL_Q8` in (0, 18 ms]. -/
theorem pitchDrift_range (fs pq8 : Int) (h : FsOk fs) (hp : 512 * fs ≤ pq8 ∧ pq8 ≤ 4608 * fs) :
    512 * fs ≤ pitchDrift fs pq8 ∧ pitchDrift fs pq8 ≤ 4608 * fs := by
  unfold pitchDrift
  rw [maxPitchQ8_eq fs h]
  have hc : PITCH_DRIFT_FAC_Q16 = 655 := rfl
  rw [hc]
  have hf : 8 ≤ fs ∧ fs ≤ 16 := by rcases h with h | h | h <;> omega
  have hw : wrap16 655 = 655 := by decide
  have hs : smlawb pq8 pq8 655 = pq8 + pq8 * 655 / 65536 := by
    unfold smlawb; rw [hw]; unfold wrap32; omega
  rw [hs]
  omega

/-- What the sub-frame loop PLC.c:331-363 keeps true of the members it carries. -/
def LoopGood (fs : Int) (s : LtpLoop) : Prop :=
  s.B.length = 5 ∧ (∀ b ∈ s.B, J16 b) ∧ (0 ≤ s.rs ∧ s.rs ≤ 32767) ∧ (512 * fs ≤ s.pq8 ∧ s.pq8 ≤ 4608 * fs)

theorem ltpLoop_good (rnd : Array Int) (roff : Int) (sl : Nat) (fs harm rg : Int) (hfs : FsOk fs)
    (hrg : 0 ≤ rg ∧ rg ≤ 32767) : ∀ (k : Nat) (s : LtpLoop), LoopGood fs s →
      LoopGood fs (ltpLoop rnd roff sl fs harm rg k s)
  | 0, s, h => by unfold ltpLoop; exact h
  | k + 1, s, h => by
    unfold ltpLoop
    apply ltpLoop_good rnd roff sl fs harm rg hfs hrg k
    obtain ⟨h1, h2, h3, h4⟩ := h
    refine ⟨by simp [h1], fun b hb => ?_, ?_, pitchDrift_range fs _ hfs h4⟩
    · obtain ⟨a, _, rfl⟩ := List.mem_map.mp hb
      exact toI16_J16 _
    · have := randStep_le s.rs rg h3 hrg
      dsimp only
      omega

theorem lagOf_eq (x : Int) : lagOf x = (x / 128 + 1) / 2 := by
  unfold lagOf rshiftRound
  simp [pow7]

theorem foldl_toI16 : ∀ (B : List Int) (v : Int), J16 v →
    J16 (List.foldl (fun rs b => SilkPlcGains.toI16 (rs - b)) v B)
  | [], _, h => h
  | b :: B, v, _ => by rw [List.foldl_cons]; exact foldl_toI16 B _ (toI16_J16 _)

/-- `rand_scale_Q14` / `rand_Gain_Q15` the loop starts from (PLC.c:272-311) are in [0, 32767]. -/
theorem gainSetup_range (lossCnt : Int) (voiced : Bool) (B : List Int) (rs plt ig : Int)
    (hrs : 0 ≤ rs ∧ rs ≤ 32767) (hplt : 0 ≤ plt ∧ plt ≤ 16384) :
    (0 ≤ (SilkPlcGains.gainSetup lossCnt voiced B rs plt ig).1 ∧ (SilkPlcGains.gainSetup lossCnt voiced B rs plt ig).1 ≤ 32767) ∧
    (0 ≤ (SilkPlcGains.gainSetup lossCnt voiced B rs plt ig).2 ∧ (SilkPlcGains.gainSetup lossCnt voiced B rs plt ig).2 ≤ 32767) := by
  have g0 := SilkPlcGains.randGain0_range lossCnt voiced
  unfold SilkPlcGains.gainSetup
  dsimp only
  split
  · split
    · refine ⟨?_, by omega⟩
      unfold SilkPlcGains.randScaleVoiced
      dsimp only
      have hv : J16 (List.foldl (fun rs b => SilkPlcGains.toI16 (rs - b)) (2 ^ 14) B) :=
        foldl_toI16 B _ (by rw [pow14]; unfold J16; omega)
      generalize List.foldl (fun rs b => SilkPlcGains.toI16 (rs - b)) (2 ^ 14) B = v at hv
      have hm : 3277 ≤ max 3277 v := Int.le_max_left _ _
      have hm2 : max 3277 v ≤ 32767 := Int.max_le.mpr ⟨by omega, hv.2⟩
      generalize max 3277 v = m at hm hm2
      unfold SilkPlcGains.rshift SilkPlcGains.smulbb
      have h1 : SilkPlcGains.toI16 m = m := by unfold SilkPlcGains.toI16; omega
      have h2 : SilkPlcGains.toI16 plt = plt := by unfold SilkPlcGains.toI16; omega
      rw [h1, h2, pow14]
      have a : 0 ≤ m * plt := Int.mul_nonneg (by omega) hplt.1
      have b : m * plt ≤ m * 16384 := Int.mul_le_mul_of_nonneg_left hplt.2 (by omega)
      unfold SilkPlcGains.toI16
      omega
    · have := SilkPlcGains.randGainUnvoiced_range ig _ (SilkPlcGains.randGain0_range lossCnt false)
      have g1 := SilkPlcGains.randGain0_range lossCnt false
      refine ⟨by dsimp only; rw [pow14]; omega, ?_⟩
      rename_i hv
      have : voiced = false := by cases voiced <;> simp_all
      subst this
      omega
  · exact ⟨hrs, by omega⟩

/-- silk_PLC_conceal (PLC.c:216-430) on a state satisfying the invariant at the decoder's rate: no assert fires and
    the invariant holds afterwards. -/
theorem plcConceal_inv (d : Dec) (p0 : Plc) (hc : DecCfg d) (hi : PlcInv p0) (hfs : p0.fsKHz = d.fsKHz) :
    ∃ o, plcConceal d p0 = .ok o ∧ PlcInv o.dec.plc ∧ o.dec.plc.fsKHz = d.fsKHz ∧ o.dec.lossCnt = d.lossCnt := by
  have hlive := hi.live (by rw [hfs]; exact hc.fs)
  rw [hfs] at hlive
  have hfsb : 8 ≤ d.fsKHz ∧ d.fsKHz ≤ 16 := by rcases hc.fs with h | h | h <;> omega
  have hmem := hc.mem
  have hord : 10 ≤ d.lpcOrder ∧ d.lpcOrder ≤ 16 ∧ d.lpcOrder % 2 = 0 := by
    rcases hc.order with ⟨h, _⟩ | ⟨h, _⟩ <;> omega
  have hlag : 0 ≤ lagOf p0.pitchLQ8 ∧ lagOf p0.pitchLQ8 ≤ 18 * d.fsKHz := by rw [lagOf_eq]; omega
  obtain ⟨o, ho⟩ := plcConceal_total d p0 hord hi.lpcLen hlag.1 (by
    rcases hc.order with ⟨h, h'⟩ | ⟨h, h'⟩
    · rcases hc.fs with f | f | f <;> omega
    · omega)
  refine ⟨o, ho, ?_⟩
  have key : ∀ (ig harm roff : Int) (rnd buf0 : Array Int) (seed : Int), LoopGood d.fsKHz
      (ltpLoop rnd roff d.subfrLength d.fsKHz harm
        (SilkPlcGains.gainSetup d.lossCnt (decide (d.prevSignalType = TYPE_VOICED)) p0.ltpCoef p0.randScale p0.prevLtpScale ig).2
        d.nbSubfr { buf := buf0, seed := seed, B := p0.ltpCoef,
                    rs := (SilkPlcGains.gainSetup d.lossCnt (decide (d.prevSignalType = TYPE_VOICED)) p0.ltpCoef
                            p0.randScale p0.prevLtpScale ig).1, pq8 := p0.pitchLQ8 }) := by
    intro ig harm roff rnd buf0 seed
    have g := gainSetup_range d.lossCnt (decide (d.prevSignalType = TYPE_VOICED)) p0.ltpCoef p0.randScale p0.prevLtpScale ig
      hi.rs hi.plt
    exact ltpLoop_good rnd roff d.subfrLength d.fsKHz harm _ hc.fs g.2 d.nbSubfr _ ⟨hi.tapsLen, hi.tapsI16, g.1, hlive.1⟩
  unfold plcConceal at ho
  dsimp only at ho
  split at ho
  · exact absurd ho (by simp)
  · split at ho
    · injection ho with ho
      subst ho
      dsimp only
      refine ⟨⟨(key _ _ _ _ _ _).1, (key _ _ _ _ _ _).2.1, ?_, (key _ _ _ _ _ _).2.2.1, hi.plt, fun _ => ⟨?_, hlive.2⟩⟩, hfs, rfl⟩
      · have hl : (if d.firstFrameAfterReset ≠ 0 then List.replicate MAX_LPC_ORDER 0 else p0.prevLPC).length = 16 := by
          split
          · simp [show MAX_LPC_ORDER = 16 from rfl]
          · exact hi.lpcLen
        generalize (if d.firstFrameAfterReset ≠ 0 then List.replicate MAX_LPC_ORDER 0 else p0.prevLPC) = l at hl
        simp only [List.length_take, List.length_append, bwexp16, bwexpGo_length, List.length_drop, hl]
        omega
      · dsimp only
        rw [hfs]
        exact (key _ _ _ _ _ _).2.2.2
    all_goals exact absurd ho (by simp)

/-- silk_PLC (PLC.c:72-114), both branches: under the decoder configuration, an in-range control structure (received
    frame) and the invariant, the call never aborts and the invariant holds afterwards, at the decoder's rate. -/
theorem silkPLC_inv (d : Dec) (c : Ctrl) (lost : Bool) (hc : DecCfg d) (hk : lost = false → CtrlOk d c)
    (hi : PlcInv d.plc) : ∃ o, silkPLC d c lost = .ok o ∧ PlcInv o.dec.plc ∧ o.dec.plc.fsKHz = d.fsKHz := by
  obtain ⟨hr, hrfs⟩ := plcRateCheck_inv d hc hi
  unfold silkPLC
  dsimp only
  cases lost with
  | true =>
    obtain ⟨o, ho, h1, h2, _⟩ := plcConceal_inv d _ hc hr hrfs
    simp only [↓reduceIte, ho]
    exact ⟨_, rfl, h1, h2⟩
  | false =>
    simp only [Bool.false_eq_true, ↓reduceIte]
    obtain ⟨h1, h2⟩ := plcUpdate_inv d c _ hc (hk rfl) hr hrfs
    exact ⟨_, rfl, h1, h2⟩

/-! ### every history -/

/-- One event in the life of a SILK channel decoder as far as `sPLC` is concerned: a frame (the rest of the decoder
    state `d` and the decoded control `c` are arbitrary — only `d.plc` is threaded), or a decoder reset (memset). -/
inductive PlcEv where
  | frame (d : Dec) (c : Ctrl) (lost : Bool)
  | reset

/-- Thread the PLC state through a history; `none` = some call aborted. -/
def plcRun : Plc → List PlcEv → Option Plc
  | p, [] => some p
  | p, .frame d c lost :: rest =>
    match silkPLC { d with plc := p } c lost with
    | .ok o => plcRun o.dec.plc rest
    | _ => none
  | _, .reset :: rest => plcRun plcZero rest

/-- The events a real decoder produces: any of the configurations of silk_decoder_set_fs (the rate may change from
    frame to frame), in-range controls on received frames. -/
def EvOk : PlcEv → Prop
  | .frame d c lost => DecCfg d ∧ (lost = false → CtrlOk d c)
  | .reset => True

theorem plcRun_inv : ∀ (evs : List PlcEv) (p : Plc), PlcInv p → (∀ e ∈ evs, EvOk e) →
    ∃ q, plcRun p evs = some q ∧ PlcInv q
  | [], p, hi, _ => ⟨p, rfl, hi⟩
  | .reset :: rest, _, _, h => by
    unfold plcRun
    exact plcRun_inv rest plcZero plcZero_inv (fun e he => h e (List.mem_cons_of_mem _ he))
  | .frame d c lost :: rest, p, hi, h => by
    have hev : EvOk (.frame d c lost) := h _ List.mem_cons_self
    obtain ⟨hc, hk⟩ := hev
    have hc' : DecCfg { d with plc := p } := ⟨hc.fs, hc.nb, hc.sl, hc.fl, hc.mem, hc.order⟩
    have hk' : lost = false → CtrlOk { d with plc := p } c := fun hl =>
      ⟨(hk hl).pitch, (hk hl).gains, (hk hl).scale, (hk hl).lpc⟩
    obtain ⟨o, ho, h1, _⟩ := silkPLC_inv { d with plc := p } c lost hc' hk' hi
    unfold plcRun
    rw [ho]
    exact plcRun_inv rest o.dec.plc h1 (fun e he => h e (List.mem_cons_of_mem _ he))

end Opus.SilkPlc
