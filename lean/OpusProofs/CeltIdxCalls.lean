import OpusModel.CeltIdxCalls
import OpusProofs.CeltIdx
/-
  OpusProofs.CeltIdxCalls — every access of celt_synthesis, deemphasis, prefilter_and_fold and celt_decode_lost lies
  inside its array, for every legal parameter combination.

  Frame-only statements are checked by evaluation over the finite list of legal frames (`allFrames`, 160 entries);
  statements that also depend on a pitch lag (100..720) or post-filter periods (0..1023) are proved symbolically.
-/
namespace Opus.CeltIdx
open Opus.Gen.CeltIdxConsts

deriving instance DecidableEq for Frame

/-- All legal frames. -/
def allFrames : List Frame :=
  [(120, 0), (240, 1), (480, 2), (960, 3)].flatMap fun (nl : Int × Int) =>
  [1, 2].flatMap fun (C : Int) => [1, 2].flatMap fun (CC : Int) => [1, 2, 3, 4, 6].flatMap fun (ds : Int) =>
  [1, 2 ^ nl.2.toNat].map fun (B : Int) => ({ N := nl.1, LM := nl.2, C, CC, ds, B } : Frame)

theorem legal_mem {f : Frame} (h : f.Legal) : f ∈ allFrames := by
  obtain ⟨N, LM, C, CC, ds, B⟩ := f
  obtain ⟨hf, hC, hCC, hds, hB⟩ := h
  have hN := legalFrame_cases hf
  simp only at hN hC hCC hds hB
  rcases hN with ⟨rfl, rfl⟩ | ⟨rfl, rfl⟩ | ⟨rfl, rfl⟩ | ⟨rfl, rfl⟩ <;> rcases hC with rfl | rfl <;> rcases hCC with rfl | rfl <;>
    rcases hds with rfl | rfl | rfl | rfl | rfl <;> rcases hB with rfl | rfl <;> decide

/-- Boolean form of "all accesses inside their arrays". -/
def okAll (f : Frame) (xl : Int) (l : List Acc) : Bool := l.all fun a => decide (a.ok f xl)

theorem okAll_mem {f : Frame} {xl : Int} {l : List Acc} (h : okAll f xl l = true) {a : Acc} (ha : a ∈ l) : a.ok f xl :=
  of_decide_eq_true (List.all_eq_true.mp h a ha)

/-! ## Frame-only parts, by evaluation -/

theorem synth_all : allFrames.all (fun f => okAll f 0 ((synthCalls f).flatMap Call.accs ++ synthInline f)) = true := by
  decide +kernel

theorem deemph_all : allFrames.all (fun f => okAll f 0 (deemphAccs f false) && okAll f 0 (deemphAccs f true)) = true := by
  decide +kernel

theorem foldInline_all : allFrames.all (fun f => okAll f 0 (foldInline f)) = true := by decide +kernel

theorem pitchSearch_all : allFrames.all (fun f => okAll f 0 ((pitchSearchCalls f).flatMap Call.accs)) = true := by
  decide +kernel

theorem noiseShift_all : allFrames.all (fun f => okAll f 0
    (((List.range f.CC.toNat).map fun c => Call.copy ⟨.mem c, 0⟩ ⟨.mem c, f.N⟩ (DECODE_BUFFER_SIZE - f.N + overlap)).flatMap Call.accs)) = true := by
  decide +kernel

theorem noiseFrame_mem : allFrames.all (fun f => decide ({ f with C := f.CC, B := 1 } ∈ allFrames)) = true := by
  decide +kernel

theorem all_apply {p : Frame → Bool} (h : allFrames.all p = true) {f : Frame} (hf : f.Legal) : p f = true :=
  List.all_eq_true.mp h f (legal_mem hf)

/-- `Arr.cap` does not depend on `excLen` except for `fir_tmp`, which the frame-only parts do not touch: they are stated
    with `excLen = 0`. -/
theorem synth_ok {f : Frame} (hf : f.Legal) {a : Acc} (ha : a ∈ (synthCalls f).flatMap Call.accs ++ synthInline f) :
    a.ok f 0 := okAll_mem (all_apply synth_all hf) ha

theorem deemph_ok {f : Frame} (hf : f.Legal) (accum : Bool) {a : Acc} (ha : a ∈ deemphAccs f accum) : a.ok f 0 := by
  have h := all_apply deemph_all hf
  rw [Bool.and_eq_true] at h
  cases accum
  · exact okAll_mem h.1 ha
  · exact okAll_mem h.2 ha

/-! ## Symbolic parts -/

theorem frame_N {f : Frame} (hf : f.Legal) : f.N = 120 ∨ f.N = 240 ∨ f.N = 480 ∨ f.N = 960 := by
  rcases legalFrame_cases hf.1 with h | h | h | h <;> omega

theorem mem_range_cc {f : Frame} (hf : f.Legal) {c : Nat} (hc : c ∈ List.range f.CC.toNat) : (c : Int) < f.CC := by
  have := List.mem_range.mp hc
  rcases hf.2.2.1 with h | h <;> rw [h] at this ⊢ <;> simp at this <;> omega

/-- An interval with explicit bounds inside an array of `n` elements. -/
theorem within_mk {lo hi n : Int} (h0 : 0 ≤ lo) (hn : hi < n) : (Ext.mk lo hi).within n := Or.inr ⟨h0, hn⟩

/-- prefilter_and_fold: the `comb_filter(etmp, out_syn[c], …)` calls, for any post-filter periods of the state. -/
theorem fold_ok {f : Frame} (hf : f.Legal) {pOld pCur : Int} (ho : PeriodOk pOld) (hc : PeriodOk pCur) {a : Acc}
    (ha : a ∈ (foldCalls f pOld pCur).flatMap Call.accs ++ foldInline f) : a.ok f 0 := by
  rcases List.mem_append.mp ha with ha | ha
  · have co := periodOk_clamp ho
    have cc := periodOk_clamp hc
    have hN := frame_N hf
    have hm : (15 : Int) = COMBFILTER_MINPERIOD := rfl
    have hM : (1024 : Int) = MAX_PERIOD := rfl
    obtain ⟨k, hk, hak⟩ := List.mem_flatMap.mp ha
    obtain ⟨c, _, rfl⟩ := List.mem_map.mp hk
    simp only [Call.accs, List.mem_cons, List.mem_nil_iff, or_false] at hak
    rcases hak with rfl | rfl
    · refine within_mk ?_ ?_ <;>
        simp only [rd, outSyn, outSynOff, Arr.cap, memLen, DECODE_BUFFER_SIZE, overlap] <;> omega
    · refine within_mk ?_ ?_ <;> simp only [wr, Arr.cap, overlap] <;> omega
  · exact okAll_mem (all_apply foldInline_all hf) ha

/-- Pitch-based concealment, the inline loops of one channel. -/
theorem plcPitchInline_ok {f : Frame} (hf : f.Legal) {pitch : Int} (hp : PitchOk pitch) {c : Nat}
    (_hc : c ∈ List.range f.CC.toNat) {a : Acc} (ha : a ∈ plcPitchInlineCh f pitch c) : a.ok f (excLen pitch) := by
  have hN := frame_N hf
  obtain ⟨hp0, hp1⟩ := hp
  have h100 : (100 : Int) = PLC_PITCH_LAG_MIN := rfl
  have h720 : (720 : Int) = PLC_PITCH_LAG_MAX := rfl
  simp only [plcPitchInlineCh, List.mem_cons, List.mem_nil_iff, or_false] at ha
  rcases ha with rfl | rfl | rfl | rfl | rfl | rfl | rfl | rfl | rfl | rfl <;> refine within_mk ?_ ?_ <;>
    simp only [rd, wr, excP, excLen, Arr.cap, memLen, DECODE_BUFFER_SIZE, MAX_PERIOD, CELT_LPC_ORDER, overlap] <;> omega

/-- Pitch-based concealment, the calls of one channel under the callee contracts. -/
theorem plcPitchCallsCh_ok {f : Frame} (hf : f.Legal) {pitch : Int} (hp : PitchOk pitch) (first : Bool) {c : Nat}
    (hc : c ∈ List.range f.CC.toNat) {a : Acc} (ha : a ∈ (plcPitchCallsCh f pitch first c).flatMap Call.accs) :
    a.ok f (excLen pitch) := by
  have hN := frame_N hf
  have hcc := mem_range_cc hf hc
  have hCC := hf.2.2.1
  obtain ⟨hp0, hp1⟩ := hp
  have h100 : (100 : Int) = PLC_PITCH_LAG_MIN := rfl
  have h720 : (720 : Int) = PLC_PITCH_LAG_MAX := rfl
  have hc0 : (0 : Int) ≤ (c : Int) := Int.natCast_nonneg c
  cases first <;>
    simp only [plcPitchCallsCh, List.flatMap_cons, List.flatMap_nil, List.append_nil, List.nil_append, List.cons_append,
      Call.accs, List.mem_cons, List.mem_nil_iff, or_false, if_true, if_false, Bool.false_eq_true] at ha
  all_goals
    (repeat' rcases ha with rfl | ha) <;> (try subst ha) <;> refine within_mk ?_ ?_ <;>
      simp only [rd, wr, excP, excLen, outSyn, outSynOff, Arr.cap, memLen, DECODE_BUFFER_SIZE, MAX_PERIOD, CELT_LPC_ORDER, overlap] <;> omega

/-! ## Assembled statements -/

theorem cap_irrel (f : Frame) (x y : Int) {arr : Arr} (h : arr ≠ .fir) : Arr.cap f x arr = Arr.cap f y arr := by
  cases arr <;> first | rfl | exact absurd rfl h

theorem ok_irrel {f : Frame} {x : Int} (y : Int) {a : Acc} (h : a.arr ≠ .fir) (ha : a.ok f x) : a.ok f y := by
  unfold Acc.ok at *; rw [cap_irrel f y x h]; exact ha

theorem pitchSearch_noFir : allFrames.all (fun f => ((pitchSearchCalls f).flatMap Call.accs).all fun a => decide (a.arr ≠ .fir)) = true := by
  decide +kernel

/-- Pitch-based concealment of a whole frame: pitch search (first lost frame only), then per channel the calls and the
    inline loops. -/
theorem plcPitch_ok {f : Frame} (hf : f.Legal) {pitch : Int} (hp : PitchOk pitch) (first : Bool) {a : Acc}
    (ha : a ∈ (plcPitchCalls f pitch first).flatMap Call.accs ++ (List.range f.CC.toNat).flatMap (plcPitchInlineCh f pitch)) :
    a.ok f (excLen pitch) := by
  rcases List.mem_append.mp ha with ha | ha
  · unfold plcPitchCalls at ha
    rw [List.flatMap_append] at ha
    rcases List.mem_append.mp ha with ha | ha
    · cases first
      · simp at ha
      · simp only [if_true] at ha
        have h1 := okAll_mem (all_apply pitchSearch_all hf) ha
        have h2 := of_decide_eq_true (List.all_eq_true.mp (all_apply pitchSearch_noFir hf) a ha)
        exact ok_irrel _ h2 h1
    · obtain ⟨k, hk, hak⟩ := List.mem_flatMap.mp ha
      obtain ⟨c, hc, hkc⟩ := List.mem_flatMap.mp hk
      exact plcPitchCallsCh_ok hf hp first hc (List.mem_flatMap.mpr ⟨k, hkc, hak⟩)
  · obtain ⟨c, hc, hac⟩ := List.mem_flatMap.mp ha
    exact plcPitchInline_ok hf hp hc hac

/-- Noise-based concealment (frame descriptor with `C = CC`, one long block): buffer shift, optional prefilter_and_fold,
    synthesis. -/
theorem plcNoise_ok {f : Frame} (hf : f.Legal) (hC : f.C = f.CC) (hB : f.B = 1) (fold : Bool) {pOld pCur : Int}
    (ho : PeriodOk pOld) (hc : PeriodOk pCur) {a : Acc}
    (ha : a ∈ (plcNoiseCalls f fold pOld pCur).flatMap Call.accs ++ (if fold then foldInline f else []) ++
      synthInline { f with C := f.CC, B := 1 }) : a.ok f 0 := by
  have hff : ({ f with C := f.CC, B := 1 } : Frame) = f := by
    obtain ⟨N, LM, C, CC, ds, B⟩ := f; simp only at hC hB; subst hC; subst hB; rfl
  rw [hff] at ha
  have hsyn : ∀ a, a ∈ (synthCalls f).flatMap Call.accs ++ synthInline f → a.ok f 0 := fun a h => synth_ok hf h
  rcases List.mem_append.mp ha with ha | ha
  · rcases List.mem_append.mp ha with ha | ha
    · unfold plcNoiseCalls at ha
      rw [hff, List.flatMap_append, List.flatMap_append] at ha
      rcases List.mem_append.mp ha with ha | ha
      · rcases List.mem_append.mp ha with ha | ha
        · exact okAll_mem (all_apply noiseShift_all hf) ha
        · cases fold
          · simp at ha
          · simp only [if_true] at ha
            exact fold_ok hf ho hc (List.mem_append_left _ ha)
      · exact hsyn a (List.mem_append_left _ ha)
    · cases fold
      · simp at ha
      · simp only [if_true] at ha
        exact fold_ok hf ho hc (List.mem_append_right _ ha)
  · exact hsyn a (List.mem_append_right _ ha)

end Opus.CeltIdx
