import OpusProofs.CeltAllocBasic
/-
  OpusProofs.CeltAllocBisect — the two bisections of the allocation end at a point whose cost does not exceed the
  budget, so the initial `bits[]` sum to at most `total`.
-/
namespace OpusProofs.CeltAlloc
open Opus Opus.CeltAlloc
open Opus.Gen.CeltTables

/-! ## Names for the intermediate values of `computeAllocation` -/

def tot0 (p : Inp) : Int := max p.total 0
def skipRsv (p : Inp) : Int := if tot0 p ≥ 2 ^ BITRES then 2 ^ BITRES else 0
def tot1 (p : Inp) : Int := tot0 p - skipRsv p
def irsvTab (p : Inp) : Int := if p.C = 2 then (log2FracTable.getD (p.end_ - p.start) 0 : Int) else 0
def irsv (p : Inp) : Int := if p.C = 2 ∧ irsvTab p > tot1 p then 0 else irsvTab p
def tot2 (p : Inp) : Int := if p.C = 2 ∧ ¬ irsvTab p > tot1 p then tot1 p - irsv p else tot1 p
def dsrsv (p : Inp) : Int := if p.C = 2 ∧ ¬ irsvTab p > tot2 p + irsv p ∧ tot2 p ≥ 2 ^ BITRES then 2 ^ BITRES else 0
/-- `total` as passed to `interp_bits2pulses` -/
def tot (p : Inp) : Int := tot2 p - dsrsv p
def lo1 (p : Inp) : Nat := outerLoop (outerPsum p (bands p)) (tot p) 1 nbAllocVectors
def b12 (p : Inp) : List (Int × Int) := (bands p).map (interpPair p (lo1 p - 1) (lo1 p))
def entAt (p : Inp) (mid : Nat) : List (Int × Int × Int) :=
  ((bands p).zip (b12 p)).reverse.map fun x => (interpAt mid x.2, x.1.thresh, x.1.cap)
def ilo (p : Inp) : Nat :=
  innerLoop (fun mid => scan (allocFloor p.C) (entAt p mid) false) (tot p) ALLOC_STEPS 0 (2 ^ ALLOC_STEPS)
def bits0 (p : Inp) : List Int := initBits (allocFloor p.C) (entAt p (ilo p)) false

theorem computeAllocation_eq (p : Inp) (c : Coder) :
    computeAllocation p c =
      finish p (bands p) (b12 p) (skipStart p.start (bands p)) (tot p) (skipRsv p) (irsv p) (dsrsv p) (ilo p) c := rfl

/-- The domain: what celt_encoder.c / celt_decoder.c can pass. -/
structure Dom (p : Inp) : Prop where
  hse : p.start < p.end_
  hend : p.end_ ≤ nbEBands
  hC : p.C = 1 ∨ p.C = 2
  hLM : p.LM ≤ 3
  offs : ∀ j, 0 ≤ p.offsets.getD j 0
  capB : ∀ j, 0 ≤ p.cap.getD j 0 ∧ p.cap.getD j 0 ≤ 16777216
  totB : p.total ≤ 16777216

/-! ## Reservations -/

theorem tot_nonneg (p : Inp) : 0 ≤ tot p := by
  unfold tot dsrsv tot2 irsv tot1 skipRsv tot0
  have hB : (2 : Int) ^ BITRES = 8 := by decide
  rw [hB]
  generalize irsvTab p = t
  split <;> split <;> split <;> split <;> omega

/-! ## scan / initBits -/

theorem initBits_sum_le_scan (floor : Int) : ∀ (l : List (Int × Int × Int)) (d : Bool),
    sumInt (initBits floor l d) ≤ scan floor l d := by
  intro l
  induction l with
  | nil => intro d; simp [initBits, scan, sumInt]
  | cons x rest ih =>
    intro d
    obtain ⟨tmp, thresh, cap⟩ := x
    simp only [initBits, scan]
    by_cases h : tmp ≥ thresh ∨ d = true
    · have h' : ¬ (tmp < thresh ∧ ¬ d = true) := by
        intro ⟨a, b⟩; rcases h with h | h
        · omega
        · exact b h
      rw [if_pos h, if_neg h']
      simp only [sumInt]
      have := ih true; omega
    · have h' : tmp < thresh ∧ ¬ d = true := ⟨by omega, fun hd => h (Or.inr hd)⟩
      rw [if_neg h, if_pos h']
      simp only [sumInt]
      have := ih false
      split <;> omega

theorem scan_zero (floor : Int) (hf : 0 < floor) : ∀ (l : List (Int × Int × Int)),
    (∀ x ∈ l, x.1 = 0 ∧ 0 < x.2.1) → scan floor l false = 0 := by
  intro l
  induction l with
  | nil => intro _; rfl
  | cons x rest ih =>
    intro h
    obtain ⟨tmp, thresh, cap⟩ := x
    obtain ⟨h1, h2⟩ := h (tmp, thresh, cap) (by simp)
    simp only at h1 h2
    subst h1
    simp only [scan]
    rw [if_neg (by simp; omega), if_neg (by omega), ih (fun x hx => h x (by simp [hx]))]
    rfl

/-! ## The bisections -/

theorem innerLoop_le (psumAt : Nat → Int) (T : Int) : ∀ n lo hi, psumAt lo ≤ T →
    psumAt (innerLoop psumAt T n lo hi) ≤ T := by
  intro n
  induction n with
  | zero => intro lo hi h; exact h
  | succ n ih =>
    intro lo hi h
    simp only [innerLoop]
    split
    · exact ih lo _ h
    · exact ih _ hi (by omega)

theorem outerLoop_spec (psumAt : Nat → Int) (T : Int) (lo hi1 : Nat) (h0 : 1 ≤ lo) (hle : lo ≤ hi1)
    (hq : lo = 1 ∨ psumAt (lo - 1) ≤ T) :
    1 ≤ outerLoop psumAt T lo hi1 ∧ outerLoop psumAt T lo hi1 ≤ hi1 ∧
    (outerLoop psumAt T lo hi1 = 1 ∨ psumAt (outerLoop psumAt T lo hi1 - 1) ≤ T) := by
  induction lo, hi1 using outerLoop.induct psumAt T with
  | case1 lo hi1 hlt mid hgt ih =>
    rw [outerLoop, dif_pos hlt]
    simp only []
    rw [if_pos (show psumAt ((lo + hi1 - 1) / 2) > T from hgt)]
    have hm : mid = (lo + hi1 - 1) / 2 := rfl
    obtain ⟨a1, a2, a3⟩ := ih h0 (by omega) hq
    exact ⟨a1, Nat.le_trans a2 (by omega), a3⟩
  | case2 lo hi1 hlt mid hgt ih =>
    rw [outerLoop, dif_pos hlt]
    simp only []
    rw [if_neg (show ¬ psumAt ((lo + hi1 - 1) / 2) > T from hgt)]
    exact ih (by omega) (by omega) (Or.inr (by simp only [Nat.add_sub_cancel]; omega))
  | case3 lo hi1 hge =>
    rw [outerLoop, dif_neg hge]
    exact ⟨h0, hle, hq⟩

end OpusProofs.CeltAlloc

namespace OpusProofs.CeltAlloc
open Opus Opus.CeltAlloc
open Opus.Gen.CeltTables

theorem zip_map_self {α β : Type} (f : α → β) : ∀ (l : List α), l.zip (l.map f) = l.map (fun x => (x, f x)) := by
  intro l
  induction l with
  | nil => rfl
  | cons a t ih => simp [ih]

theorem entAt_eq (p : Inp) (mid : Nat) :
    entAt p mid = (bands p).reverse.map
      (fun b => (interpAt mid (interpPair p (lo1 p - 1) (lo1 p) b), b.thresh, b.cap)) := by
  unfold entAt b12
  rw [zip_map_self, ← List.map_reverse, List.map_map]
  rfl

theorem interpAt_zero (x : Int × Int) : interpAt 0 x = x.1 := by simp [interpAt]

theorem row0_zero : ∀ j, j < 21 → allocVectors.getD j 0 = 0 := by decide

theorem floor_pos {p : Inp} (h : Dom p) : 0 < allocFloor p.C := by
  unfold allocFloor
  have hB : (2 : Int) ^ BITRES = 8 := by decide
  rw [hB]; rcases h.hC with e | e <;> rw [e] <;> decide

theorem thresh_pos {p : Inp} (h : Dom p) (j : Nat) : 0 < (mkBand p j).thresh := by
  have := floor_pos h
  simp only [mkBand]
  omega

theorem lo1_spec (p : Inp) : 1 ≤ lo1 p ∧ lo1 p ≤ nbAllocVectors ∧
    (lo1 p = 1 ∨ outerPsum p (bands p) (lo1 p - 1) ≤ tot p) :=
  outerLoop_spec _ _ 1 nbAllocVectors (Nat.le_refl _) (by decide) (Or.inl rfl)

/-- The interpolation at `mid = 0` costs no more than the budget. -/
theorem scan0_le {p : Inp} (h : Dom p) : scan (allocFloor p.C) (entAt p 0) false ≤ tot p := by
  obtain ⟨h1, _, h3⟩ := lo1_spec p
  rw [entAt_eq]
  by_cases hl : lo1 p = 1
  · -- lower vector is vector 0: nothing allocated
    rw [scan_zero _ (floor_pos h)]
    · exact tot_nonneg p
    · intro x hx
      simp only [List.mem_map, List.mem_reverse] at hx
      obtain ⟨b, hb, rfl⟩ := hx
      obtain ⟨_, hj, hbe⟩ := mem_bands hb
      have hj21 : b.j < 21 := Nat.lt_of_lt_of_le hj h.hend
      refine ⟨?_, by rw [hbe]; exact thresh_pos h _⟩
      simp only [interpAt_zero, interpPair, hl, Nat.sub_self, Nat.lt_irrefl, if_false, gt_iff_lt]
      have hv : vecBits p 0 b = 0 := by
        simp only [vecBits, Nat.zero_mul, Nat.zero_add, row0_zero b.j hj21, Nat.mul_zero, Nat.zero_div]
        rfl
      simp [hv, trimmed]
  · rcases h3 with h3 | h3
    · exact absurd h3 hl
    · have hpos : lo1 p - 1 > 0 := by omega
      have : (bands p).reverse.map
          (fun b => (interpAt 0 (interpPair p (lo1 p - 1) (lo1 p) b), b.thresh, b.cap)) =
          (bands p).reverse.map (fun b => (trimmed (vecBits p (lo1 p - 1) b) b.trim + b.off, b.thresh, b.cap)) := by
        apply List.map_congr_left
        intro b _
        simp only [interpAt_zero, interpPair, hpos, if_true]
      rw [this]
      exact h3

/-- **After the bisections the initial `bits[]` fit the budget.** -/
theorem bits0_sum_le {p : Inp} (h : Dom p) : sumInt (bits0 p) ≤ tot p := by
  have h1 := initBits_sum_le_scan (allocFloor p.C) (entAt p (ilo p)) false
  have h2 := innerLoop_le (fun mid => scan (allocFloor p.C) (entAt p mid) false) (tot p) ALLOC_STEPS 0 (2 ^ ALLOC_STEPS)
    (scan0_le h)
  unfold bits0 ilo
  exact Int.le_trans h1 h2

end OpusProofs.CeltAlloc
